#!/bin/sh
# setup_cmd: build everything the checks need from files on disk only (offline).
set -e
cd "$(dirname "$0")"
export CARGO_NET_OFFLINE=true
python3 tools/rs2lean.py --repo "${VERIF_REPO:-/repo}" || true
( cd lean && lake build driver NutsModel.Thm.All 2>&1 | grep -v "conda" | tail -5 ) || true
cp /repo/Cargo.lock harness/Cargo.lock
( cd harness && cargo build --release --quiet 2>&1 | tail -5 ) || true
echo "setup done"
