//! C04 — end-to-end statistical support: default-settings NUTS presets on targets with known moments.
//! Nothing here is a proof (see Thm/C04.lean for what is proved); every statistic is a z-score against
//! the known truth with a batch-means standard error, threshold |z| > 6, and a confirmation stage
//! (fresh seeds, 4x draws) before anything is reported.  The momentum law is checked by reconstructing
//! the initial velocity of every post-warmup trajectory from the first leapfrog evaluation.
use crate::targets::*;
use crate::util::*;
use nuts_rs::verif_hooks::StatsDims;
use nuts_rs::{Chain, CpuMath, DiagNutsSettings, KineticEnergyKind, LowRankNutsSettings, Settings, StepSizeAdaptMethod, Storable, Value};
use rand::SeedableRng;
use serde_json::json;

#[derive(Clone, Debug)]
pub struct Cfg { pub preset: u8, pub kinetic: u8, pub method: u8, pub target: u8, pub dim: usize, pub seed: u64, pub chains: u64, pub draws: u64, pub momentum: bool }

impl Cfg {
    pub fn to_json(&self) -> serde_json::Value { json!({"preset": self.preset, "kinetic": self.kinetic, "method": self.method, "target": self.target, "dim": self.dim, "seed": self.seed.to_string(), "chains": self.chains, "draws": self.draws, "momentum": self.momentum}) }
    pub fn from_json(v: &serde_json::Value) -> Cfg { Cfg { preset: v["preset"].as_u64().unwrap() as u8, kinetic: v["kinetic"].as_u64().unwrap() as u8, method: v["method"].as_u64().unwrap() as u8, target: v["target"].as_u64().unwrap() as u8, dim: v["dim"].as_u64().unwrap() as usize, seed: v["seed"].as_str().unwrap().parse().unwrap(), chains: v["chains"].as_u64().unwrap(), draws: v["draws"].as_u64().unwrap(), momentum: v["momentum"].as_bool().unwrap() } }
}

const T8_Q: [f64; 5] = [-1.8595480375228428, -0.7063866123189907, 0.0, 0.7063866123189907, 1.8595480375228428];
const N_Q: [f64; 5] = [-1.6448536269514722, -0.6744897501960817, 0.0, 0.6744897501960817, 1.6448536269514722];
const PS: [f64; 5] = [0.05, 0.25, 0.5, 0.75, 0.95];

/// the target together with the true marginal mean, variance and the five marginal quantiles per coordinate
pub struct Truth { pub target: Target, pub mean: Vec<f64>, pub var: Vec<f64>, pub q: Vec<[f64; 5]> }

pub fn truth(cfg: &Cfg) -> Truth {
    let d = cfg.dim;
    let mut r = Sm::new(cfg.seed & 0xffff, "C04T", cfg.target as u64 * 1000 + d as u64);
    let gq = |m: f64, s: f64| -> [f64; 5] { let mut o = [0.0; 5]; for k in 0..5 { o[k] = m + s * N_Q[k]; } o };
    match cfg.target {
        0 => { let mu = vec![1.0; d]; let sg = vec![1.0; d]; Truth { target: Target::new(Kind::Diag { mu: mu.clone(), sigma: sg.clone() }, d), mean: mu.clone(), var: vec![1.0; d], q: (0..d).map(|i| gq(mu[i], sg[i])).collect() } }
        1 => { // condition number 1e6 (standard deviations spread over three decades)
            let sg: Vec<f64> = (0..d).map(|i| 10f64.powf(if d == 1 { -1.5 } else { -1.5 + 3.0 * i as f64 / (d - 1) as f64 })).collect();
            let mu: Vec<f64> = sg.iter().map(|s| 2.0 * s).collect();
            Truth { target: Target::new(Kind::Diag { mu: mu.clone(), sigma: sg.clone() }, d), mean: mu.clone(), var: sg.iter().map(|s| s * s).collect(), q: (0..d).map(|i| gq(mu[i], sg[i])).collect() } }
        2 => { // covariance D (I + rho u u^T) D
            let sd: Vec<f64> = (0..d).map(|_| 10f64.powf(r.range(-0.5, 0.5))).collect();
            let mu: Vec<f64> = (0..d).map(|_| r.range(-1.0, 1.0)).collect();
            let u: Vec<f64> = (0..d).map(|_| r.normal()).collect();
            let rho = 3.0; let n2: f64 = u.iter().map(|x| x * x).sum(); let k = rho / (1.0 + rho * n2);
            let mut prec = vec![0.0; d * d];
            for i in 0..d { for j in 0..d { prec[i * d + j] = ((if i == j { 1.0 } else { 0.0 }) - k * u[i] * u[j]) / (sd[i] * sd[j]); } }
            let var: Vec<f64> = (0..d).map(|i| sd[i] * sd[i] * (1.0 + rho * u[i] * u[i])).collect();
            Truth { target: Target::new(Kind::Dense { mu: mu.clone(), prec }, d), mean: mu.clone(), q: (0..d).map(|i| gq(mu[i], var[i].sqrt())).collect(), var } }
        3 => { let nu = 8.0; let sg: Vec<f64> = (0..d).map(|i| 0.5 + 0.25 * (i % 5) as f64).collect(); let mu: Vec<f64> = (0..d).map(|i| 0.3 * i as f64 - 1.0).collect();
            Truth { target: Target::new(Kind::StudentT { nu, mu: mu.clone(), sigma: sg.clone() }, d), mean: mu.clone(), var: sg.iter().map(|s| s * s * nu / (nu - 2.0)).collect(), q: (0..d).map(|i| { let mut o = [0.0; 5]; for k in 0..5 { o[k] = mu[i] + sg[i] * T8_Q[k]; } o }).collect() } }
        _ => { // log of a Gamma(2,1) variate: mean digamma(2), variance trigamma(2)
            let cdf = |x: f64| { let g = x.exp(); 1.0 - (1.0 + g) * (-g).exp() };
            let mut q = [0.0; 5];
            for k in 0..5 { let (mut lo, mut hi) = (-20.0f64, 5.0f64); for _ in 0..200 { let m = 0.5 * (lo + hi); if cdf(m) < PS[k] { lo = m } else { hi = m } } q[k] = 0.5 * (lo + hi); }
            Truth { target: Target::new(Kind::LogGamma { a: 2.0 }, d), mean: vec![0.42278433509846713; d], var: vec![0.6449340668482264; d], q: vec![q; d] } }
    }
}

pub struct ChainOut { pub last_step: f64, pub draws: Vec<Vec<f64>>, pub divergences: u64, pub mom: Vec<Vec<f64>>, pub mom_prev_y: Vec<Vec<f64>>, pub error: Option<String> }

pub fn run_chain(cfg: &Cfg, chain: u64, seed: u64) -> ChainOut {
    let t = truth(cfg);
    macro_rules! go { ($s:expr) => {{
        let mut s = $s;
        s.num_draws = cfg.draws;
        s.trajectory_kind = if cfg.kinetic == 0 { KineticEnergyKind::Euclidean } else { KineticEnergyKind::ExactNormal };
        if cfg.method == 1 { s.adapt_options.step_size_settings.adapt_options.method = StepSizeAdaptMethod::Adam; }
        if cfg.momentum { s.store_unconstrained = true; s.store_transformed = true; }
        let target = if cfg.momentum { t.target.clone().with_log() } else { t.target.clone() };
        let log = target.log.clone();
        let counter = target.evals.clone();
        let math = CpuMath::new(target);
        let mut rng = rand::rngs::ChaCha8Rng::seed_from_u64(seed);
        let mut out = ChainOut { last_step: 0.0, draws: vec![], divergences: 0, mom: vec![], mom_prev_y: vec![], error: None };
        let mut chain_ = s.new_chain(chain, math, &mut rng);
        // overdispersed-ish start near the bulk
        let start: Vec<f64> = (0..cfg.dim).map(|i| t.mean[i] + t.var[i].sqrt() * (0.45 + 0.3 * (i as f64 * 0.7 + chain as f64).sin())).collect();
        if let Err(e) = chain_.set_position(&start) { out.error = Some(format!("set_position: {e}")); return out; }
        // (x, y, first evaluation of the draw, step size) of post-warmup draws for the momentum reconstruction
        let mut recs: Vec<(Vec<f64>, Vec<f64>, Option<Vec<f64>>, f64)> = vec![];
        for _ in 0..(s.num_tune + s.num_draws) {
            let e0 = counter.load(std::sync::atomic::Ordering::SeqCst) as usize;
            let (pos, _e, mut stats, progress) = match chain_.expanded_draw() { Ok(x) => x, Err(e) => { out.error = Some(format!("draw: {e}")); return out; } };
            out.last_step = progress.step_size;
            if progress.tuning { continue; }
            if progress.diverging { out.divergences += 1; }
            out.draws.push(pos.to_vec());
            if cfg.momentum {
                let dims = { let m = chain_.math(); StatsDims::from(&*m) };
                let mut y = vec![];
                for (n, v) in stats.get_all(&dims) { if let ("transformed_position", Some(Value::F64(a))) = (n, v) { y = a; } }
                let first = log.as_ref().and_then(|l| l.lock().unwrap().get(e0).map(|r| r.pos.clone()));
                recs.push((pos.to_vec(), y, first, progress.step_size));
            }
        }
        if cfg.momentum && recs.len() > 10 {
            // diagonal scale from two draws: sigma_i = dx_i / dy_i (the transformation is frozen after warmup)
            let (a, b) = (&recs[0], &recs[recs.len() / 2]);
            let sigma: Vec<f64> = (0..cfg.dim).map(|i| (a.0[i] - b.0[i]) / (a.1[i] - b.1[i])).collect();
            for w in recs.windows(2) {
                let (x0, y0) = (&w[0].0, &w[0].1);
                let Some(x1) = &w[1].2 else { continue };
                let eps = w[0].3; // the step size reported with draw t is the one set by adapt(t), i.e. the one draw t+1 uses
                let mut g = vec![0.0; cfg.dim];
                t.target.eval(x0, &mut g);
                let v: Vec<f64> = (0..cfg.dim).map(|i| {
                    let gy = sigma[i] * g[i];
                    if cfg.kinetic == 0 { (x1[i] - x0[i]) / (sigma[i] * eps) - 0.5 * eps * gy }
                    else { let y1 = y0[i] + (x1[i] - x0[i]) / sigma[i]; (y1 - y0[i] * eps.cos()) / eps.sin() - 0.5 * eps * (y0[i] + gy) }
                }).collect();
                out.mom.push(v); out.mom_prev_y.push(y0.clone());
            }
        }
        out
    }}; }
    if cfg.preset == 0 { go!(DiagNutsSettings::default()) } else { go!(LowRankNutsSettings::default()) }
}

/// z-score of the mean of `xs` (one series per chain) against `truth`, batch-means standard error
fn bm_z(series: &[Vec<f64>], truth: f64) -> f64 {
    let mut bms = vec![];
    for s in series { let nb = 30usize; let len = s.len() / nb; if len == 0 { continue; } for b in 0..nb { bms.push(s[b * len..(b + 1) * len].iter().sum::<f64>() / len as f64); } }
    let n = bms.len() as f64; if n < 10.0 { return 0.0; }
    let m = bms.iter().sum::<f64>() / n;
    let v = bms.iter().map(|x| (x - m) * (x - m)).sum::<f64>() / (n - 1.0);
    if v == 0.0 { return if m == truth { 0.0 } else { f64::INFINITY }; }
    (m - truth) / (v / n).sqrt()
}

fn phi(x: f64) -> f64 { 0.5 * erfc(-x / std::f64::consts::SQRT_2) }
fn erfc(x: f64) -> f64 { // Numerical Recipes erfcc, relative error < 1.2e-7
    let z = x.abs(); let t = 1.0 / (1.0 + 0.5 * z);
    let r = t * (-z * z - 1.26551223 + t * (1.00002368 + t * (0.37409196 + t * (0.09678418 + t * (-0.18628806 + t * (0.27886807 + t * (-1.13520398 + t * (1.48851587 + t * (-0.82215223 + t * 0.17087277))))))))).exp();
    if x >= 0.0 { r } else { 2.0 - r }
}

/// all statistics of one configuration: (name, z) ; plus divergences and errors
pub fn evaluate(cfg: &Cfg, seed_off: u64) -> (Vec<(String, f64)>, u64, Option<String>) {
    let t = truth(cfg);
    let mut chains = vec![];
    let mut div = 0;
    for c in 0..cfg.chains {
        let o = run_chain(cfg, c, cfg.seed.wrapping_add(seed_off).wrapping_mul(31).wrapping_add(c));
        if let Some(e) = o.error { return (vec![], 0, Some(e)); }
        div += o.divergences;
        chains.push(o);
    }
    let mut zs = vec![];
    let coords: Vec<usize> = if cfg.dim <= 6 { (0..cfg.dim).collect() } else { vec![0, 1, cfg.dim / 2, cfg.dim - 2, cfg.dim - 1] };
    for &c in &coords {
        let xs: Vec<Vec<f64>> = chains.iter().map(|o| o.draws.iter().map(|d| d[c]).collect()).collect();
        zs.push((format!("mean[{c}]"), bm_z(&xs, t.mean[c])));
        let ws: Vec<Vec<f64>> = xs.iter().map(|s| s.iter().map(|x| (x - t.mean[c]) * (x - t.mean[c])).collect()).collect();
        zs.push((format!("var[{c}]"), bm_z(&ws, t.var[c])));
        for k in 0..5 { let is: Vec<Vec<f64>> = xs.iter().map(|s| s.iter().map(|x| if *x <= t.q[c][k] { 1.0 } else { 0.0 }).collect()).collect(); zs.push((format!("q{}[{c}]", PS[k]), bm_z(&is, PS[k]))); }
    }
    if cfg.momentum {
        let all: Vec<&Vec<f64>> = chains.iter().flat_map(|o| o.mom.iter()).collect();
        let n = all.len() as f64;
        if n > 50.0 {
            for c in 0..cfg.dim {
                let v: Vec<f64> = all.iter().map(|z| z[c]).collect();
                let m = v.iter().sum::<f64>() / n;
                zs.push((format!("momentum.mean[{c}]"), m * n.sqrt()));
                let m2 = v.iter().map(|x| x * x).sum::<f64>() / n;
                zs.push((format!("momentum.var[{c}]"), (m2 - 1.0) * (n / 2.0).sqrt()));
                let m4 = v.iter().map(|x| x.powi(4)).sum::<f64>() / n;
                zs.push((format!("momentum.kurt[{c}]"), (m4 - 3.0) * (n / 96.0).sqrt()));
            }
            // lag-1 autocorrelation within chains and correlation with the previous position
            let mut lag = 0.0f64; let mut nl = 0.0f64; let mut cross = 0.0f64; let mut nc = 0.0f64;
            for o in &chains { for w in o.mom.windows(2) { for c in 0..cfg.dim { lag += w[0][c] * w[1][c]; nl += 1.0; } }
                for (z, y) in o.mom.iter().zip(o.mom_prev_y.iter()) { for c in 0..cfg.dim { cross += z[c] * y[c]; nc += 1.0; } } }
            zs.push(("momentum.lag1".into(), lag / nl.sqrt()));
            zs.push(("momentum.vs_position".into(), cross / nc.sqrt() / 1.0));
            // Kolmogorov-Smirnov against the standard normal, pooled over coordinates; reported on the z scale (2.5 ~ p 7e-6)
            let mut pooled: Vec<f64> = all.iter().flat_map(|z| z.iter().cloned()).collect();
            if pooled.iter().any(|x| x.is_nan()) { return (vec![], 0, Some(format!("momentum reconstruction produced NaN (first vectors {:?})", &all[..3.min(all.len())]))); }
            pooled.sort_by(|a, b| a.partial_cmp(b).unwrap());
            let np = pooled.len() as f64; let mut dmax = 0.0f64;
            for (i, x) in pooled.iter().enumerate() { let f = phi(*x); dmax = dmax.max((f - i as f64 / np).abs()).max(((i + 1) as f64 / np - f).abs()); }
            zs.push(("momentum.ks".into(), dmax * np.sqrt() * 6.0 / 2.5));
        } else { return (vec![], 0, Some(format!("momentum reconstruction produced only {n} vectors"))); }
    }
    (zs, div, None)
}

pub fn configs(tier: &str, seed: u64) -> Vec<Cfg> {
    let mut out = vec![];
    let dims: &[usize] = if tier == "thorough" { &[1, 5, 30, 100] } else { &[1, 5, 30] };
    let mut idx = 0u64;
    for preset in 0..2u8 { for kinetic in 0..2u8 { for method in 0..2u8 { for target in 0..5u8 { for &dim in dims {
        idx += 1;
        if tier != "thorough" && (idx + seed) % 2 != 0 { continue; }
        if dim == 100 && target >= 3 { continue; }
        out.push(Cfg { preset, kinetic, method, target, dim, seed: seed.wrapping_mul(7919) + idx, chains: 4, draws: if tier == "thorough" { 20000 } else if dim >= 30 { 1500 } else { 3000 }, momentum: false });
    } } } } }
    // momentum law: diagonal presets, both kinetic energies, jitter off
    for kinetic in 0..2u8 { for (target, dim) in [(0u8, 1usize), (1, 5), (0, 5)] {
        out.push(Cfg { preset: 0, kinetic, method: 0, target, dim, seed: seed.wrapping_mul(104729) + kinetic as u64 * 10 + dim as u64, chains: 4, draws: 3000, momentum: true });
    } }
    out
}

pub fn main(tier: &str, seed: u64, outdir: &str) {
    let mut rep = Report::new("C04");
    for cfg in configs(tier, seed) {
        rep.evaluations += 1;
        rep.hit(&format!("preset{}.kin{}.method{}.target{}.dim{}{}", cfg.preset, cfg.kinetic, cfg.method, cfg.target, cfg.dim, if cfg.momentum { ".momentum" } else { "" }));
        let replay = json!({"kind": "c04", "cfg": cfg.to_json()});
        let (zs, div, err) = evaluate(&cfg, 0);
        if let Some(e) = err {
            if e.contains("recoverable: true") { rep.hit("skipped.recoverable_error_at_stepsize_reinit(C05)"); } else { rep.violation("c04.error", &format!("chain failed: {e}"), replay); }
            continue;
        }
        rep.nontrivial += 1;
        let worst = zs.iter().cloned().fold(("".to_string(), 0.0f64), |a, b| if b.1.abs() > a.1.abs() || b.1.is_nan() { b } else { a });
        rep.notes.push(format!("preset{} kin{} method{} target{} dim{}{}: {} statistics, worst {} z={:.2}, post-warmup divergences {div}", cfg.preset, cfg.kinetic, cfg.method, cfg.target, cfg.dim, if cfg.momentum { " momentum" } else { "" }, zs.len(), worst.0, worst.1));
        if rep.samples.len() < 3 { rep.sample(json!({"cfg": cfg.to_json(), "statistics": zs.iter().take(8).map(|(n, z)| json!([n, z])).collect::<Vec<_>>(), "divergences": div})); }
        let flagged: Vec<&(String, f64)> = zs.iter().filter(|(_, z)| !(z.abs() <= 6.0)).collect();
        if !flagged.is_empty() {
            // confirmation stage: fresh seeds, four times the draws
            rep.hit("confirmation_runs");
            let mut c2 = cfg.clone(); c2.draws *= 4;
            let (zs2, _, err2) = evaluate(&c2, 0x5eed);
            if let Some(e) = err2 { rep.violation("c04.error", &format!("chain failed in the confirmation run: {e}"), replay.clone()); continue; }
            for (name, z) in &flagged {
                if let Some((_, z2)) = zs2.iter().find(|(n, _)| n == name) {
                    if !(z2.abs() <= 6.0) && (z2.signum() == z.signum() || z2.is_nan()) {
                        let key = if name.starts_with("momentum") { "c04.momentum_law" } else { "c04.moments" };
                        rep.violation(key, &format!("{name}: z = {z:.2}, confirmed with fresh seeds and 4x draws: z = {z2:.2} (preset {} kinetic {} method {} target {} dim {})", cfg.preset, cfg.kinetic, cfg.method, cfg.target, cfg.dim), replay.clone());
                    }
                }
            }
        }
        if cfg.target == 0 && div > 0 { rep.violation(if cfg.kinetic == 1 && cfg.method == 1 { "c04.divergences.exactnormal_adam" } else { "c04.divergences" }, &format!("{div} post-warmup divergences on an isotropic Gaussian (preset {} kinetic {} method {} dim {})", cfg.preset, cfg.kinetic, cfg.method, cfg.dim), replay); }
    }
    let _ = outdir;
    rep.write(&format!("{outdir}/C04.report.json"));
}

pub fn replay(body: &serde_json::Value) -> bool {
    let cfg = Cfg::from_json(&body["cfg"]);
    let (zs, div, err) = evaluate(&cfg, 0);
    println!("replay: error {:?}, divergences {div}", err);
    if std::env::var("C04_DEBUG").is_ok() { let o = run_chain(&cfg, 0, cfg.seed.wrapping_mul(31)); println!("chain 0: {} draws, {} divergences, final step size {}", o.draws.len(), o.divergences, o.last_step); }
    for (n, z) in &zs { if !(z.abs() <= 4.0) { println!("  {n}: z = {z:.2}"); } }
    err.is_some() || zs.iter().any(|(_, z)| !(z.abs() <= 6.0)) || (cfg.target == 0 && div > 0)
}
