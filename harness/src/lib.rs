//! nv-harness: drives the real nuts-rs (built from /repo's working tree, hooks on) and writes
//! case files for the Lean driver plus direct-oracle verdicts.
pub mod util;
pub mod c07;
pub mod mock;
pub mod c01;
pub mod targets;
pub mod stats;
pub mod c06;
pub mod c03;
pub mod c17;
pub mod c16;
pub mod c19;
pub mod c02;
pub mod c18;
pub mod storage;
pub mod c15;
pub mod c14;
pub mod ctl;
pub mod c05;
pub mod c08;
pub mod c04;
