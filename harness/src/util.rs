use std::fmt::Write as _;
use std::io::Write as _;

/// SplitMix64: the one PRNG every random choice of the harness derives from.
#[derive(Clone)]
pub struct Sm(pub u64);

impl Sm {
    pub fn new(seed: u64, prop: &str, case: u64) -> Sm {
        let mut h = seed ^ 0x9E37_79B9_7F4A_7C15;
        for b in prop.bytes() {
            h = (h ^ b as u64).wrapping_mul(0x100_0000_01B3);
        }
        let mut s = Sm(h ^ case.wrapping_mul(0xD6E8_FEB8_6659_FD93));
        s.next();
        s
    }
    pub fn next(&mut self) -> u64 {
        self.0 = self.0.wrapping_add(0x9E37_79B9_7F4A_7C15);
        let mut z = self.0;
        z = (z ^ (z >> 30)).wrapping_mul(0xBF58_476D_1CE4_E5B9);
        z = (z ^ (z >> 27)).wrapping_mul(0x94D0_49BB_1331_11EB);
        z ^ (z >> 31)
    }
    /// uniform in [0,1)
    pub fn unit(&mut self) -> f64 {
        (self.next() >> 11) as f64 / (1u64 << 53) as f64
    }
    pub fn range(&mut self, lo: f64, hi: f64) -> f64 {
        lo + (hi - lo) * self.unit()
    }
    pub fn below(&mut self, n: u64) -> u64 {
        if n == 0 { 0 } else { self.next() % n }
    }
    pub fn pick<'a, T>(&mut self, xs: &'a [T]) -> &'a T {
        &xs[self.below(xs.len() as u64) as usize]
    }
    pub fn log_uniform(&mut self, lo: f64, hi: f64) -> f64 {
        (self.range(lo.ln(), hi.ln())).exp()
    }
    pub fn normal(&mut self) -> f64 {
        let u1 = 1.0 - self.unit();
        let u2 = self.unit();
        (-2.0 * u1.ln()).sqrt() * (2.0 * std::f64::consts::PI * u2).cos()
    }
    pub fn coin(&mut self) -> bool {
        self.next() & 1 == 1
    }
}

pub fn bits(x: f64) -> u64 {
    x.to_bits()
}

/// Accumulates the case file (one record per line) for the Lean driver.
pub struct Cases {
    pub buf: String,
    pub n: u64,
}

impl Cases {
    pub fn new() -> Cases {
        Cases { buf: String::new(), n: 0 }
    }
    pub fn line(&mut self, s: &str) {
        self.buf.push_str(s);
        self.buf.push('\n');
        self.n += 1;
    }
    pub fn write(&self, path: &str) -> std::io::Result<()> {
        let mut f = std::fs::File::create(path)?;
        f.write_all(self.buf.as_bytes())
    }
}

pub struct LineB(pub String);
impl LineB {
    pub fn new(kind: &str) -> LineB {
        LineB(kind.to_string())
    }
    pub fn f(mut self, x: f64) -> Self {
        write!(self.0, " {}", x.to_bits()).unwrap();
        self
    }
    pub fn u(mut self, x: u64) -> Self {
        write!(self.0, " {}", x).unwrap();
        self
    }
    pub fn i(mut self, x: i64) -> Self {
        write!(self.0, " {}", x).unwrap();
        self
    }
    pub fn s(mut self, x: &str) -> Self {
        write!(self.0, " {}", x).unwrap();
        self
    }
    pub fn fs(mut self, xs: &[f64]) -> Self {
        for x in xs {
            write!(self.0, " {}", x.to_bits()).unwrap();
        }
        self
    }
}

/// Direct-oracle verdicts collected by a harness run; serialised as JSON for `./check`.
#[derive(Default, serde::Serialize)]
pub struct Report {
    pub property: String,
    pub evaluations: u64,
    pub nontrivial: u64,
    pub violations: Vec<serde_json::Value>,
    pub known: Vec<serde_json::Value>,
    pub histogram: std::collections::BTreeMap<String, u64>,
    pub samples: Vec<serde_json::Value>,
    pub notes: Vec<String>,
}

impl Report {
    pub fn new(p: &str) -> Report {
        Report { property: p.to_string(), ..Default::default() }
    }
    pub fn hit(&mut self, key: &str) {
        *self.histogram.entry(key.to_string()).or_insert(0) += 1;
    }
    pub fn violation(&mut self, key: &str, what: &str, replay: serde_json::Value) {
        // at most 6 per key so that one (possibly known) finding cannot hide another
        let same = self.violations.iter().filter(|v| v["key"] == key).count();
        if same < 6 && self.violations.len() < 60 {
            self.violations.push(serde_json::json!({"key": key, "what": what, "replay": replay}));
        }
    }
    pub fn sample(&mut self, v: serde_json::Value) {
        if self.samples.len() < 5 {
            self.samples.push(v);
        }
    }
    pub fn write(&self, path: &str) {
        std::fs::write(path, serde_json::to_string_pretty(self).unwrap()).unwrap();
    }
}

pub fn special_f64(r: &mut Sm) -> f64 {
    const S: [f64; 14] = [
        0.0, -0.0, 5e-324, -5e-324, 1e-300, 1.0, -1.0, 1e300, -1e300,
        f64::INFINITY, f64::NEG_INFINITY, f64::NAN, f64::MIN_POSITIVE, f64::MAX,
    ];
    *r.pick(&S)
}
