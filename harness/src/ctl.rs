//! C10–C13 — the real parallel `Sampler` under seeded schedule perturbation (hook `chain_event`),
//! random command scripts, varying core/chain counts, and injected failures.
//!  * C10: traces bitwise equal to a sequential replay of each chain; chains pairwise different.
//!  * C11: every call returns (watchdog), un-aborted runs complete, aborted runs give prefixes,
//!         progress counters agree with the traces.
//!  * C12: after pause() returns the chains stop within the bound and record nothing until resume.
//!  * C13: failures in any chain surface as Err, never as panic / hang / success.
//! The per-chain event logs are replayed by Model/Controller.lean (driver `chain` records).
use crate::storage::{canon, Cell};
use crate::targets::*;
use crate::util::*;
use nuts_rs::verif_hooks::{arm_schedule, take_events, ChainStorage, StatsDims, StorageConfig, TraceStorage};
use nuts_rs::{Chain, CpuMath, DiagMclmcSettings, DiagNutsSettings, LowRankNutsSettings, HashMapConfig, HashMapValue, Model, Progress, Sampler, SamplerWaitResult, Settings, Storable, Value};
use rand::rngs::ChaCha8Rng;
use rand::{Rng, RngExt, SeedableRng};
use serde_json::json;
use std::collections::BTreeMap;
use std::sync::atomic::{AtomicU64, Ordering};
use std::sync::Arc;
use std::time::{Duration, Instant};

#[derive(Clone, Debug, PartialEq)]
pub enum Failure { None, Logp { chain: u64, eval: u64 }, MathCtor { chain: u64 }, Init { chain: u64 }, Storage { chain: u64, record: u64 }, RecoverableOnly { chain: u64, period: u64 }, InitRecoverable { chain: u64, n: u64 }, InitAllRejected { chain: u64 },
    /// even chains: a recoverable error at every `period`-th evaluation below `x`; odd chains: at every `period`-th evaluation from `x` on
    /// (divergence counts that differ between chains AND between warmup and sampling)
    Split { x: u64, period: u64 },
    /// async Zarr backend whose chunk writes of the sampling-phase draw arrays fail (a storage failure that surfaces when the pending writes
    /// are joined: at flush / finalisation)
    AsyncStoreWrite }

#[derive(Clone)]
pub struct TModel { pub dim: usize, pub seed: u64, pub failure: Failure, pub slow_chain: Option<u64> }

/// identify the calling chain from its RNG (seed, stream = chain + 1): the first word it yields
fn chain_of_first_word(seed: u64, w: u64, max_chains: u64) -> Option<u64> {
    for c in 0..max_chains {
        let mut r = ChaCha8Rng::seed_from_u64(seed);
        r.set_stream(c + 1);
        if r.next_u64() == w { return Some(c); }
    }
    None
}

/// evaluation counter of the chain that carries the injected density fault (to know whether the failing evaluation was reached)
static FAULT_EVALS: std::sync::Mutex<Option<Arc<AtomicU64>>> = std::sync::Mutex::new(None);

impl Model for TModel {
    type Math<'m> = CpuMath<Target>;
    fn math<R: Rng + ?Sized>(&self, rng: &mut R) -> anyhow::Result<Self::Math<'_>> {
        let w = rng.next_u64();
        let chain = chain_of_first_word(self.seed, w, 64);
        let mut t = Target::new(Kind::Diag { mu: vec![0.5; self.dim], sigma: (0..self.dim).map(|i| 1.0 + i as f64).collect() }, self.dim);
        if let Some(c) = chain {
            match &self.failure {
                Failure::MathCtor { chain: fc } if *fc == c => anyhow::bail!("injected model construction failure in chain {c}"),
                Failure::Logp { chain: fc, eval } if *fc == c => { t = t.with_faults(vec![(*eval, FaultKind::Unrecoverable)]); *FAULT_EVALS.lock().unwrap() = Some(t.evals.clone()); }
                Failure::Init { chain: fc } if *fc == c => t.periodic = Some((1, FaultKind::Unrecoverable)),
                // the first `n` density evaluations of the chain fail recoverably: the first initial points are rejected, a later one is fine
                Failure::InitRecoverable { chain: fc, n } if *fc == c || *fc == u64::MAX => t = t.with_faults((0..*n).map(|k| (k, FaultKind::Recoverable)).collect()),
                Failure::Split { x, period } => t = t.with_faults(if c % 2 == 0 { (8..*x).step_by(*period as usize).map(|k| (k, FaultKind::Recoverable)).collect() } else { (*x..*x + 4000).step_by(*period as usize).map(|k| (k, FaultKind::Recoverable)).collect() }),
                // every evaluation fails recoverably: all 500 initial points are rejected
                Failure::InitAllRejected { chain: fc } if *fc == c => t.periodic = Some((1, FaultKind::Recoverable)),
                Failure::RecoverableOnly { chain: fc, period } if *fc == c || *fc == u64::MAX => t.periodic = Some((*period, FaultKind::Recoverable)),
                _ => {}
            }
        }
        Ok(CpuMath::new(t))
    }
    fn init_position<R: Rng + ?Sized>(&self, rng: &mut R, position: &mut [f64]) -> anyhow::Result<()> {
        for p in position.iter_mut() { *p = rng.random::<f64>() * 2.0 - 1.0; }
        Ok(())
    }
}

/// sequential replay of chain `chain` exactly as `ChainProcess::start` sets it up
pub fn sequential<S: Settings>(model: &TModel, settings: &S, chain: u64) -> Result<(BTreeMap<String, Vec<Cell>>, BTreeMap<String, Vec<Cell>>), String> {
    let mut rng = ChaCha8Rng::seed_from_u64(settings.seed());
    rng.set_stream(chain + 1);
    let math = model.math(&mut rng).map_err(|e| e.to_string())?;
    let dim = model.dim;
    let mut sampler = settings.new_chain(chain, math, &mut rng);
    let mut init = vec![0f64; dim];
    let mut ok = false;
    for _ in 0..500 { model.init_position(&mut rng, &mut init).map_err(|e| e.to_string())?; if sampler.set_position(&init).is_ok() { ok = true; break; } }
    if !ok { return Err("init failed".into()); }
    let mut stats_out: BTreeMap<String, Vec<Cell>> = BTreeMap::new();
    let mut draws_out: BTreeMap<String, Vec<Cell>> = BTreeMap::new();
    for _ in 0..(settings.hint_num_tune() + settings.hint_num_draws()) {
        let (_p, mut exp, mut stats, _info) = sampler.expanded_draw().map_err(|e| e.to_string())?;
        let dims = { let m = sampler.math(); StatsDims::from(&*m) };
        for (n, v) in stats.get_all(&dims) { if n != "draw" && n != "chain" { let e = stats_out.entry(n.to_string()).or_default(); if let Some(v) = v { e.extend(canon(&v)); } } }
        let m = sampler.math();
        for (n, v) in exp.get_all(&*m) { if let Some(v) = v { draws_out.entry(n.to_string()).or_default().extend(canon(&v)); } }
    }
    Ok((stats_out, draws_out))
}

fn hm_cells(v: &HashMapValue) -> Vec<Cell> {
    match v { HashMapValue::F64(x) => x.iter().map(|a| Cell::F(a.to_bits())).collect(), HashMapValue::F32(x) => x.iter().map(|a| Cell::F32(a.to_bits())).collect(),
        HashMapValue::Bool(x) => x.iter().map(|a| Cell::B(*a)).collect(), HashMapValue::I64(x) => x.iter().map(|a| Cell::I(*a)).collect(),
        HashMapValue::U64(x) => x.iter().map(|a| Cell::U(*a)).collect(), HashMapValue::String(x) => x.iter().map(|a| Cell::S(a.clone())).collect() }
}

// ---- a storage backend that fails at a chosen record of a chosen chain (delegates to HashMap)
pub struct FailingConfig { pub chain: u64, pub record: u64 }
pub struct FailingTrace { inner: <HashMapConfig as StorageConfig>::Storage, chain: u64, record: u64 }
pub struct FailingChain { inner: <<HashMapConfig as StorageConfig>::Storage as TraceStorage>::ChainStorage, fail_at: Option<u64>, count: u64 }
impl StorageConfig for FailingConfig {
    type Storage = FailingTrace;
    fn new_trace<M: nuts_rs::Math>(self, settings: &impl Settings, math: &M) -> anyhow::Result<FailingTrace> {
        Ok(FailingTrace { inner: HashMapConfig::new().new_trace(settings, math)?, chain: self.chain, record: self.record })
    }
}
impl TraceStorage for FailingTrace {
    type ChainStorage = FailingChain;
    type Finalized = <<HashMapConfig as StorageConfig>::Storage as TraceStorage>::Finalized;
    fn initialize_trace_for_chain(&self, chain_id: u64) -> anyhow::Result<FailingChain> {
        Ok(FailingChain { inner: self.inner.initialize_trace_for_chain(chain_id)?, fail_at: if chain_id == self.chain { Some(self.record) } else { None }, count: 0 })
    }
    fn finalize(self, traces: Vec<anyhow::Result<<FailingChain as ChainStorage>::Finalized>>) -> anyhow::Result<(Option<anyhow::Error>, Self::Finalized)> { self.inner.finalize(traces) }
    fn inspect(&self, traces: Vec<anyhow::Result<Option<<FailingChain as ChainStorage>::Finalized>>>) -> anyhow::Result<(Option<anyhow::Error>, Self::Finalized)> { self.inner.inspect(traces) }
}
impl ChainStorage for FailingChain {
    type Finalized = <<<HashMapConfig as StorageConfig>::Storage as TraceStorage>::ChainStorage as ChainStorage>::Finalized;
    fn record_sample(&mut self, settings: &impl Settings, stats: Vec<(&str, Option<Value>)>, draws: Vec<(&str, Option<Value>)>, info: &Progress) -> anyhow::Result<()> {
        if self.fail_at == Some(self.count) { anyhow::bail!("injected storage failure at record {}", self.count); }
        self.count += 1;
        self.inner.record_sample(settings, stats, draws, info)
    }
    fn finalize(self) -> anyhow::Result<Self::Finalized> { self.inner.finalize() }
    fn inspect(&self) -> anyhow::Result<Option<Self::Finalized>> { self.inner.inspect() }
    fn flush(&self) -> anyhow::Result<()> { self.inner.flush() }
}

#[derive(Clone, Debug)]
pub struct Cfg { pub gen_seed: u64, pub gen_tier: String, pub preset: u8, pub seed: u64, pub sched: u64, pub num_chains: usize, pub num_cores: usize, pub num_tune: u64, pub num_draws: u64, pub dim: usize, pub script: Vec<(u8, u64)>, pub end_abort: bool, pub poll_finish: bool, pub zero_poll: bool, pub flush_after_finish: bool, pub failure: Failure }

impl Cfg {
    pub fn to_json(&self) -> serde_json::Value { json!({"gen_seed": self.gen_seed.to_string(), "gen_tier": self.gen_tier, "preset": self.preset, "seed": self.seed, "sched": self.sched, "num_chains": self.num_chains, "num_cores": self.num_cores, "num_tune": self.num_tune, "num_draws": self.num_draws, "dim": self.dim, "script": self.script, "end_abort": self.end_abort, "poll_finish": self.poll_finish, "zero_poll": self.zero_poll, "failure": format!("{:?}", self.failure)}) }
}

/// run `$body` with `$s` bound to the settings of the configuration's preset (Diag NUTS, LowRank NUTS, Diag MCLMC)
macro_rules! with_settings {
    ($cfg:expr, $s:ident => $body:expr) => {
        match $cfg.preset {
            0 => { let mut $s = DiagNutsSettings::default(); $s.num_tune = $cfg.num_tune; $s.num_draws = $cfg.num_draws; $s.num_chains = $cfg.num_chains; $s.seed = $cfg.seed; $s.maxdepth = 4; $body }
            1 => { let mut $s = LowRankNutsSettings::default(); $s.num_tune = $cfg.num_tune; $s.num_draws = $cfg.num_draws; $s.num_chains = $cfg.num_chains; $s.seed = $cfg.seed; $s.maxdepth = 4; $body }
            _ => { let mut $s = DiagMclmcSettings::default(); $s.num_tune = $cfg.num_tune; $s.num_draws = $cfg.num_draws; $s.num_chains = $cfg.num_chains; $s.seed = $cfg.seed; $s.step_size = 0.4; $s.momentum_decoherence_length = 2.0; $body }
        }
    };
}

pub struct RunOut { pub fault_evals: u64, pub result: String, pub traces: Option<Vec<(BTreeMap<String, Vec<Cell>>, BTreeMap<String, Vec<Cell>>)>>, pub events: Vec<(u64, u8, u64)>, pub pause_obs: Vec<(Vec<usize>, Vec<usize>, Vec<usize>, usize, Vec<bool>)>, pub final_progress: Option<Vec<(usize, usize, usize, usize)>>, pub snapshots: Vec<Vec<Snap>>, pub hang: bool, pub api_errors: Vec<String> }

static RUN_LOCK: std::sync::Mutex<()> = std::sync::Mutex::new(());
/// number of injected storage write failures of the last run (Failure::AsyncStoreWrite)
/// run once right after `Sampler::flush()` returned in runs with `flush_after_finish` (all chains finished, nothing finalised yet)
pub static AFTER_FLUSH: std::sync::Mutex<Option<Box<dyn FnOnce() + Send>>> = std::sync::Mutex::new(None);
static STORE_FAILS: std::sync::Mutex<Option<Arc<AtomicU64>>> = std::sync::Mutex::new(None);

/// drive one parallel run with the scripted commands (op, delay µs): 0 pause, 1 resume, 2 progress, 3 flush, 4 inspect
type Maps = Vec<(BTreeMap<String, Vec<Cell>>, BTreeMap<String, Vec<Cell>>)>;
/// one chain's progress counters as reported by `Sampler::progress()`: finished draws, divergences, step total, divergent draw indices
pub type Snap = (usize, usize, usize, Vec<usize>);
fn snap(p: &[nuts_rs::ChainProgress]) -> Vec<Snap> { p.iter().map(|c| (c.finished_draws, c.divergences, c.total_num_steps, c.divergent_draws.clone())).collect() }

pub fn hashmap_maps(v: Vec<nuts_rs::verif_hooks::HashMapResultAlias>) -> Maps {
    v.into_iter().map(|r| (r.stats.iter().map(|(k, v)| (k.clone(), hm_cells(v))).collect(), r.draws.iter().map(|(k, v)| (k.clone(), hm_cells(v))).collect())).collect()
}
pub fn arrow_maps(v: Vec<nuts_rs::ArrowTrace>) -> Maps {
    v.iter().map(|t| (crate::storage::arrow_batch_cells(&t.sample_stats), crate::storage::arrow_batch_cells(&t.posterior))).collect()
}

pub fn run<S, SC>(cfg: &Cfg, settings: S, sc: SC, to_traces: fn(<SC::Storage as TraceStorage>::Finalized) -> Maps) -> RunOut
where S: Settings + 'static, SC: StorageConfig + 'static, <SC::Storage as TraceStorage>::Finalized: Send + 'static {
    let _g = RUN_LOCK.lock().unwrap();
    arm_schedule(cfg.sched);
    *FAULT_EVALS.lock().unwrap() = None;
    let model = TModel { dim: cfg.dim, seed: cfg.seed, failure: cfg.failure.clone(), slow_chain: None };
    let cfg2 = cfg.clone();
    let done = Arc::new(AtomicU64::new(0));
    let done2 = done.clone();
    let handle = std::thread::spawn(move || {
        let res = std::panic::catch_unwind(std::panic::AssertUnwindSafe(|| {
            let mut out = RunOut { fault_evals: 0, result: String::new(), traces: None, events: vec![], pause_obs: vec![], final_progress: None, snapshots: vec![], hang: false, api_errors: vec![] };
            let mut sampler = match Sampler::new(model, settings, sc, cfg2.num_cores, None) { Ok(s) => s, Err(e) => { out.result = format!("new_err:{e:#}"); return out; } };
            let mut outstanding = 0usize;
            for (op, delay) in &cfg2.script {
                std::thread::sleep(Duration::from_micros(*delay));
                let r: Result<(), String> = match op {
                    0 => { let r = sampler.pause().map_err(|e| format!("{e:#}")); if r.is_ok() {
                            let pr0 = sampler.progress().unwrap_or_default();
                            let p0: Vec<usize> = pr0.iter().map(|c| c.finished_draws).collect();
                            let started0: Vec<bool> = pr0.iter().map(|c| c.started).collect();
                            std::thread::sleep(Duration::from_millis(25));
                            let p1: Vec<usize> = sampler.progress().map(|p| p.iter().map(|c| c.finished_draws).collect()).unwrap_or_default();
                            std::thread::sleep(Duration::from_millis(25));
                            let p2: Vec<usize> = sampler.progress().map(|p| p.iter().map(|c| c.finished_draws).collect()).unwrap_or_default();
                            out.pause_obs.push((p0, p1, p2, outstanding, started0)); } outstanding += 1; r }
                    1 => { outstanding += 1; sampler.resume().map_err(|e| format!("{e:#}")) }
                    2 => sampler.progress().map(|p| out.snapshots.push(snap(&p))).map_err(|e| format!("{e:#}")),
                    3 => sampler.flush().map_err(|e| format!("{e:#}")),
                    _ => sampler.inspect().map(|_| ()).map_err(|e| format!("{e:#}")),
                };
                if let Err(e) = r { out.api_errors.push(format!("op {op}: {e}")); }
            }
            if cfg2.poll_finish {
                let total = (cfg2.num_tune + cfg2.num_draws) as usize;
                let _ = sampler.resume();
                let start = Instant::now();
                loop {
                    match sampler.progress() {
                        Ok(p) => { if p.iter().all(|c| c.finished_draws >= total) { out.snapshots.push(snap(&p)); break; } }
                        Err(e) => { out.api_errors.push(format!("progress while polling: {e:#}")); break; }
                    }
                    if start.elapsed() > Duration::from_secs(60) { out.result = "timeout".into(); out.hang = true; let _ = sampler.abort(); return out; }
                    std::thread::sleep(Duration::from_millis(1));
                }
            }
            if cfg2.flush_after_finish {
                if let Err(e) = sampler.flush() { out.api_errors.push(format!("flush after completion: {e:#}")); }
                if let Some(cb) = AFTER_FLUSH.lock().unwrap().take() { cb(); }
            }
            if cfg2.end_abort {
                let pr = sampler.progress().ok();
                if let Some(p) = &pr { out.snapshots.push(snap(p)); }
                out.final_progress = pr.map(|p| p.iter().map(|c| (c.finished_draws, c.divergences, c.total_num_steps, c.total_draws)).collect());
                match sampler.abort() { Ok((None, t)) => { out.result = "abort_ok".into(); out.traces = Some(to_traces(t)); } Ok((Some(e), t)) => { out.result = format!("abort_err:{e:#}"); out.traces = Some(to_traces(t)); } Err(e) => out.result = format!("abort_err:{e:#}") }
            } else {
                // make sure a paused sampler is resumed before waiting for completion
                let _ = sampler.resume();
                let start = Instant::now();
                // non-blocking polling (`wait_timeout(0)` from an event loop) in some runs (C11 and C13: the call that consumes a failed chain's result
                // then returns at once), a 50 ms wait in the others
                let (wait, limit) = if cfg2.zero_poll { (Duration::ZERO, Duration::from_secs(15)) } else { (Duration::from_millis(50), Duration::from_secs(60)) };
                loop {
                    if cfg2.zero_poll { std::thread::sleep(Duration::from_micros(200)); }
                    match sampler.wait_timeout(wait) {
                        SamplerWaitResult::Trace(t) => { out.result = "trace".into(); out.traces = Some(to_traces(t)); break; }
                        SamplerWaitResult::Err(e, t) => { out.result = format!("wait_err:{e:#}"); out.traces = t.map(to_traces); break; }
                        SamplerWaitResult::Timeout(mut s) => { if start.elapsed() > limit { out.result = "timeout".into(); out.hang = true; let _ = s.abort(); break; }
                            let pr = s.progress().ok();
                            if let Some(p) = &pr { if out.snapshots.len() < 64 { out.snapshots.push(snap(p)); } else { let k = out.snapshots.len() - 1; out.snapshots[k] = snap(p); } }
                            out.final_progress = pr.map(|p| p.iter().map(|c| (c.finished_draws, c.divergences, c.total_num_steps, c.total_draws)).collect()); sampler = s; }
                    }
                }
            }
            out
        }));
        done2.store(1, Ordering::SeqCst);
        res
    });
    // watchdog
    let start = Instant::now();
    while done.load(Ordering::SeqCst) == 0 && start.elapsed() < Duration::from_secs(120) { std::thread::sleep(Duration::from_millis(5)); }
    let mut out = if done.load(Ordering::SeqCst) == 1 {
        match handle.join() { Ok(Ok(o)) => o, Ok(Err(p)) | Err(p) => RunOut { fault_evals: 0, result: format!("panic:{}", p.downcast_ref::<String>().cloned().or_else(|| p.downcast_ref::<&str>().map(|s| s.to_string())).unwrap_or_default()), traces: None, events: vec![], pause_obs: vec![], final_progress: None, snapshots: vec![], hang: false, api_errors: vec![] } }
    } else { RunOut { fault_evals: 0, result: "hang".into(), traces: None, events: vec![], pause_obs: vec![], final_progress: None, snapshots: vec![], hang: true, api_errors: vec![] } };
    // give detached controller/worker threads a moment to finish logging
    std::thread::sleep(Duration::from_millis(30));
    out.events = take_events();
    out.fault_evals = FAULT_EVALS.lock().unwrap().as_ref().map(|c| c.load(Ordering::SeqCst)).unwrap_or(0);
    arm_schedule(0);
    out
}

pub fn gen_cfg(seed: u64, case: u64, tier: &str, mode: u8) -> Cfg {
    // C13 sweep: a single transient unrecoverable density error at evaluation `case - 1_000_000` of a one-chain run, one run per
    // evaluation index (initialisation, step-size search, every leapfrog of the first draws, the step-size re-initialisation)
    if mode == 3 && case >= 1_000_000 {
        return Cfg { gen_seed: seed, gen_tier: tier.to_string(), preset: 0, seed: (seed.wrapping_mul(2654435761) | 1), sched: 1, num_chains: 1, num_cores: 1,
            num_tune: 12, num_draws: 3, dim: 2, script: vec![], end_abort: false, poll_finish: false, zero_poll: false, flush_after_finish: false, failure: Failure::Logp { chain: 0, eval: case - 1_000_000 } };
    }
    let mut r = Sm::new(seed, "CTL", case * 10 + mode as u64);
    let num_chains = 1 + r.below(if tier == "thorough" { 8 } else { 5 }) as usize;
    let num_cores = *r.pick(&[1usize, 2, 3, 8, 16]);
    let mut num_tune = *r.pick(&[0u64, 5, 20, 40]);
    let mut num_draws = *r.pick(&[0u64, 1, 10, 30]);
    // corpus of past failures runs first: empty runs (a0933f6), single-draw runs
    match case { 0 => { num_tune = 0; num_draws = 0; } 1 => { num_tune = 0; num_draws = 1; } 2 => { num_tune = 1; num_draws = 0; } _ => {} }
    let nscript = match mode { 0 => r.below(4), 1 => 2 + r.below(8), 2 => 1 + r.below(4), _ => r.below(3) } as usize;
    let mut script = vec![];
    for k in 0..nscript {
        // C12: pause / resume alternating, and (every third case) runs of pauses without a resume in between
        let op = match mode { 2 => if case % 3 == 2 { if k + 1 == nscript { 1 } else { 0 } } else if k % 2 == 0 { 0 } else { 1 }, _ => r.below(5) as u8 };
        script.push((op, *r.pick(&[0u64, 50, 300, 2000, 8000])));
    }
    // corpus: more chains than workers and an immediate pause/resume (pause/pause/resume), so that chains which have not been picked up by a
    // worker hold the commands in their mailbox when they start (seeded change C11-resume-skips-unstarted is schedule dependent otherwise)
    let (mut num_chains, mut num_cores) = (num_chains, num_cores);
    // corpus: one-draw chains, four of them on one worker, paused at once: the running chain finishes during the pause and frees the worker,
    // the next chain starts while the sampler is paused (seeded change C12-first-poll-skipped)
    if mode == 2 && (case == 5 || case == 6) {
        num_chains = 4; num_cores = 1; num_tune = 0; num_draws = if case == 5 { 1 } else { 2 };
        script = vec![(0, 0), (1, 20000)];
    }
    if (mode == 1 || mode == 2) && (case == 3 || case == 4) {
        num_chains = 4; num_cores = 1; num_tune = 20; num_draws = 10;
        script = if case == 3 { vec![(0, 0), (1, 0)] } else { vec![(0, 0), (0, 200), (1, 300)] };
    }
    // corpus (C10): one high-dimensional model (any reduction that is split across the thread pool for long vectors would make the result
    // depend on the number of workers), few draws, more workers than chains
    let mut big_dim = None;
    if mode == 0 && (case == 5 || case == 6) { num_chains = 3; num_cores = if case == 5 { 1 } else { 4 }; num_tune = 8; num_draws = 4; script = vec![]; big_dim = Some(70_000usize); }
    // C13 storage failure of the async Zarr writer: whole chunks only (chunk size 3), so that the failing writes are still queued at the end
    if mode == 3 && case % 8 == 7 { num_tune = 6; num_draws = 6; script = vec![]; }
    let total = num_tune + num_draws;
    let failure = if mode == 3 {
        let chain = r.below(num_chains as u64);
        match case % 8 {
            7 => Failure::AsyncStoreWrite,
            6 => Failure::InitAllRejected { chain },
            5 => Failure::InitRecoverable { chain: if r.coin() { chain } else { u64::MAX }, n: 1 + r.below(6) },
            0 => Failure::Logp { chain, eval: r.below(40 + 8 * total) },
            1 => Failure::MathCtor { chain },
            2 => Failure::Init { chain },
            3 => Failure::Storage { chain, record: r.below(total.max(1)) },
            _ => Failure::RecoverableOnly { chain, period: 5 + r.below(20) },
        }
    } else if mode == 1 && case % 4 == 2 { Failure::RecoverableOnly { chain: u64::MAX, period: 3 + r.below(9) } } else { Failure::None };
    // C11: runs with divergent draws in every chain (periodic recoverable density errors) whose progress counters are read once every chain
    // has finished (commands after completion), then waited for or aborted
    let poll_finish = mode == 1 && case % 4 == 2;
    if poll_finish && num_draws < 10 { num_draws = 10; }
    Cfg { gen_seed: seed, gen_tier: tier.to_string(), preset: match mode { 3 => 0, _ if big_dim.is_some() => 0, _ => (case % 3) as u8 }, seed: r.next() | 1, sched: r.next() | 1, num_chains, num_cores, num_tune, num_draws, dim: { let d = 2 + r.below(3) as usize; big_dim.unwrap_or(d) }, script, end_abort: match mode { 1 => case % 3 == 0 && case != 3, 3 => case % 2 == 0, _ => false }, poll_finish, zero_poll: (mode == 1 || mode == 3) && case % 4 == 1, flush_after_finish: false, failure }
}

fn emit_chain_records(cases: &mut Cases, case: u64, cfg: &Cfg, events: &[(u64, u8, u64)]) {
    for c in 0..cfg.num_chains as u64 {
        let evs: Vec<&(u64, u8, u64)> = events.iter().filter(|e| e.0 == c).collect();
        if evs.is_empty() { continue; }
        let mut l = format!("chain {case} {c} {} {}", cfg.num_tune + cfg.num_draws, evs.len());
        for e in evs { l.push_str(&format!(" {} {}", e.1, e.2)); }
        cases.line(&l);
    }
}

pub fn check_case(cfg: &Cfg, mode: u8, case: u64, cases: &mut Cases, rep: &mut Report, prop: &str) {
    let out = match &cfg.failure {
        Failure::Storage { chain, record } => with_settings!(cfg, s => run(cfg, s, FailingConfig { chain: *chain, record: *record }, hashmap_maps)),
        Failure::AsyncStoreWrite => {
            let rt = tokio::runtime::Builder::new_multi_thread().worker_threads(3).enable_all().build().unwrap();
            let fails = Arc::new(AtomicU64::new(0));
            *STORE_FAILS.lock().unwrap() = Some(fails.clone());
            let store = Arc::new(crate::c15::DelayStore { inner: Arc::new(zarrs::storage::store::MemoryStore::new()), delay: Duration::from_micros(300), fail_posterior_chunks: Some(fails) });
            let astore = Arc::new(zarrs::storage::storage_adapter::sync_to_async::SyncToAsyncStorageAdapter::new(store, crate::c15::TokioSpawnBlocking));
            let out = with_settings!(cfg, s => run(cfg, s, nuts_rs::ZarrAsyncConfig::new(rt.handle().clone(), astore).with_chunk_size(3), |_| vec![]));
            drop(rt);
            out
        }
        // C10-C12: alternate the storage backend behind the parallel sampler (HashMap / Arrow)
        _ if mode != 3 && case % 2 == 1 => with_settings!(cfg, s => run(cfg, s, nuts_rs::ArrowConfig::default(), arrow_maps)),
        _ => with_settings!(cfg, s => run(cfg, s, HashMapConfig::new(), hashmap_maps)) };
    rep.hit(if matches!(cfg.failure, Failure::Storage { .. }) { "backend.failing" } else if mode != 3 && case % 2 == 1 { "backend.arrow" } else { "backend.hashmap" });
    rep.hit(&format!("preset{}", cfg.preset));
    rep.evaluations += 1;
    rep.hit(&format!("result.{}", out.result.split(':').next().unwrap_or("")));
    rep.hit(&format!("cores{}_chains{}", cfg.num_cores, cfg.num_chains));
    emit_chain_records(cases, case, cfg, &out.events);
    let total = (cfg.num_tune + cfg.num_draws) as usize;
    let replay = json!({"kind": "ctl", "mode": mode, "case": case, "cfg": cfg.to_json()});
    if out.hang { rep.violation("ctl.hang", &format!("a call did not return / the sampler did not terminate ({})", out.result), replay.clone()); return; }
    if out.result.starts_with("panic") { rep.violation("ctl.panic", &format!("the calling thread panicked: {}", out.result), replay.clone()); return; }
    let expect_err = matches!(cfg.failure, Failure::Logp { .. } | Failure::MathCtor { .. } | Failure::Init { .. } | Failure::Storage { .. } | Failure::InitAllRejected { .. } | Failure::AsyncStoreWrite);
    // the initialisation retry loop against Model/InitRetry.lean: (rejected start points, outcome of every later attempt) -> how the chain ended
    if let Some((nbad, last)) = match &cfg.failure { Failure::InitRecoverable { n, .. } => Some((*n, 0)), Failure::Init { .. } => Some((0, 1)), Failure::InitAllRejected { .. } => Some((0, 2)), _ => None } {
        let observed = if out.result.contains("Unrecoverable error during initialization") { Some(1) } else if out.result.contains("All initialization points failed") { Some(2) }
            else if out.result == "trace" { Some(0) } else { None };
        if let Some(o) = observed { cases.line(&format!("init {case} {nbad} {last} {o}")); rep.hit("init_record"); }
    }
    // was the failure actually reached? (a chain aborted early may never get there)
    // ... for a density fault: the failing evaluation index was reached by the faulty chain's density
    let fault_raised = matches!(cfg.failure, Failure::Logp { eval, .. } if out.fault_evals > eval);
    let store_failed = matches!(cfg.failure, Failure::AsyncStoreWrite) && STORE_FAILS.lock().unwrap().as_ref().map(|c| c.load(Ordering::SeqCst)).unwrap_or(0) > 0;
    let failed_task = out.events.iter().any(|e| e.1 == 6 && e.2 == 0) || fault_raised || store_failed;
    if expect_err {
        let reported = out.result.starts_with("wait_err") || out.result.starts_with("abort_err") || out.result.starts_with("new_err");
        if failed_task && !reported { rep.violation("ctl.failure_not_reported", &format!("a chain failed ({:?}) but the sampler reported '{}'", cfg.failure, out.result), replay.clone()); }
        if failed_task { rep.nontrivial += 1; }
        return;
    }
    if out.result.starts_with("wait_err") || out.result.starts_with("abort_err") || out.result.starts_with("new_err") {
        // a *recoverable* density error that ends a chain has one known cause (C05's finding: the init_state evaluation of the
        // step-size re-initialisation); it gets its own key so that any other spurious error is still reported
        let key = if out.result.contains("recoverable: true") { "ctl.recoverable_error_terminated_chain" } else { "ctl.spurious_error" };
        rep.violation(key, &format!("a run without unrecoverable failure reported an error: {}", out.result), replay.clone()); return;
    }
    for e in &out.api_errors { rep.violation("ctl.api_error", &format!("a control call failed: {e}"), replay.clone()); }
    let Some(traces) = &out.traces else { rep.violation("ctl.no_trace", "no trace returned", replay.clone()); return; };
    let model = TModel { dim: cfg.dim, seed: cfg.seed, failure: cfg.failure.clone(), slow_chain: None };
    if traces.len() != cfg.num_chains { rep.violation("ctl.trace_count", &format!("{} chain traces for {} chains", traces.len(), cfg.num_chains), replay.clone()); return; }
    let mut lens = vec![];
    for (c, (st, dr)) in traces.iter().enumerate() {
        let (sst, sdr) = match with_settings!(cfg, s => sequential(&model, &s, c as u64)) { Ok(x) => x, Err(e) => { rep.notes.push(format!("sequential replay failed: {e}")); return; } };
        let n_rec = st.get("logp").map(|v| v.len()).unwrap_or(0);
        lens.push(n_rec);
        for (name, seq) in sst.iter().chain(sdr.iter()) {
            let par = st.get(name).or_else(|| dr.get(name));
            let Some(par) = par else { rep.violation("ctl.missing_var", &format!("chain {c}: variable {name} missing"), replay.clone()); return; };
            if cfg.end_abort { if par.len() > seq.len() || par[..] != seq[..par.len()] { rep.violation("ctl.not_prefix", &format!("chain {c}: aborted trace of {name} is not a prefix of the sequential trace"), replay.clone()); return; } }
            else if par != seq { rep.violation("ctl.not_deterministic", &format!("chain {c}: {name} differs from the sequential replay of the same chain ({} vs {} cells)", par.len(), seq.len()), replay.clone()); return; }
        }
        if !cfg.end_abort && n_rec != total { rep.violation("ctl.incomplete", &format!("chain {c} recorded {n_rec} draws, expected {total}"), replay.clone()); return; }
    }
    // different chains use different streams
    if !cfg.end_abort && total > 2 { for a in 0..traces.len() { for b in a + 1..traces.len() { if traces[a].1 == traces[b].1 { rep.violation("ctl.duplicate_chains", &format!("chains {a} and {b} produced identical draws"), replay.clone()); } } } }
    // progress counters agree with the traces
    if let Some(p) = &out.final_progress { if cfg.end_abort { for (c, (fin, _div, _st, tot)) in p.iter().enumerate() { if *tot != total { rep.violation("ctl.progress", &format!("chain {c}: total_draws {tot} != {total}"), replay.clone()); } if lens[c] < *fin { rep.violation("ctl.progress", &format!("chain {c}: progress reported {fin} finished draws, trace has {}", lens[c]), replay.clone()); } } } }
    // ... at every snapshot: the divergence counters and the step total are those of the first `finished_draws` recorded draws
    for sn in &out.snapshots { for (c, (fin, div, steps, ddraws)) in sn.iter().enumerate() {
        let Some((st, _)) = traces.get(c) else { continue };
        if *fin > lens[c] { continue; }
        let (Some(dv), Some(tn)) = (st.get("diverging"), st.get("tuning")) else { continue };
        let want: Vec<usize> = (0..*fin).filter(|i| dv[*i] == Cell::B(true) && tn[*i] == Cell::B(false)).collect();
        if *div != want.len() || *ddraws != want { rep.violation("ctl.progress_divergences", &format!("chain {c}: progress reports {div} divergences at draws {ddraws:?} after {fin} draws, the trace has {} at {want:?}", want.len()), replay.clone()); break; }
        if let Some(ns) = st.get("num_steps").or_else(|| st.get("n_steps")) {
            let tot: u64 = (0..*fin).map(|i| match &ns[i] { Cell::U(x) => *x, Cell::I(x) => *x as u64, _ => 0 }).sum();
            if tot as usize != *steps { rep.violation("ctl.progress_steps", &format!("chain {c}: progress reports {steps} steps in total after {fin} draws, the trace has {tot}"), replay.clone()); break; }
        }
        if !want.is_empty() { rep.hit("progress.divergences_checked"); }
    } }
    // pause bound
    for (p0, p1, p2, outstanding, started0) in &out.pause_obs {
        for c in 0..p0.len().min(p1.len()).min(p2.len()) {
            // a chain that had not started when pause() returned finds the Pause in its mailbox before its first draw: it records nothing while
            // paused (one draw per command queued BEFORE this pause at most)
            if started0.get(c) == Some(&false) { for (label, p) in [("25 ms", p1), ("50 ms", p2)] {
                if p[c] > *outstanding { rep.violation("ctl.unstarted_chain_drew_while_paused", &format!("chain {c} had not started when pause() returned but recorded {} draws within {label} ({} commands were sent before the pause)", p[c], outstanding), replay.clone()); break; }
            } }
            // A chain may still hold every command sent so far in its mailbox (a chain that has not been picked up by a worker holds them
            // all): each queued command lets it record at most one more draw (theorem pause_bound), whenever it gets to run. So the sound,
            // schedule-independent statement is a bound on the TOTAL recorded after pause() returned, at both later observation points.
            for (label, p) in [("25 ms", p1), ("50 ms", p2)] {
                if p[c] > p0[c] + 1 + outstanding { rep.violation("ctl.pause_bound", &format!("chain {c} recorded {} draws within {label} after pause() returned (bound 1 + {} commands sent before)", p[c] - p0[c], outstanding), replay.clone()); }
            }
        }
        rep.nontrivial += 1;
    }
    if mode != 2 && !cfg.script.is_empty() { rep.nontrivial += 1; }
    let _ = prop;
}

pub fn main_mode(prop: &str, mode: u8, tier: &str, seed: u64, outdir: &str) {
    let mut cases = Cases::new();
    let mut rep = Report::new(prop);
    let n = if tier == "thorough" { 1200 } else { 24 };
    for case in 0..n {
        let cfg = gen_cfg(seed, case, tier, mode);
        check_case(&cfg, mode, case, &mut cases, &mut rep, prop);
        if case < 2 { rep.sample(cfg.to_json()); }
    }
    if mode == 3 {
        for eval in 0..(if tier == "thorough" { 220 } else { 90 }) {
            let cfg = gen_cfg(seed, 1_000_000 + eval, tier, mode);
            check_case(&cfg, mode, 1_000_000 + eval, &mut cases, &mut rep, prop);
        }
    }
    cases.write(&format!("{outdir}/{prop}.cases")).unwrap();
    rep.write(&format!("{outdir}/{prop}.report.json"));
}

pub fn replay(v: &serde_json::Value) -> bool {
    let mode = v["mode"].as_u64().unwrap() as u8;
    let case = v["case"].as_u64().unwrap();
    // the configuration is a deterministic function of (seed, case, tier, mode); the replay carries it for the reader
    let seed = v["cfg"]["gen_seed"].as_str().and_then(|s| s.parse().ok()).unwrap_or(0);
    let tier = v["cfg"]["gen_tier"].as_str().unwrap_or("quick").to_string();
    let cfg = gen_cfg(seed, case, &tier, mode);
    let mut cases = Cases::new();
    let mut rep = Report::new("replay");
    check_case(&cfg, mode, case, &mut cases, &mut rep, "replay");
    println!("replay: {:?}", rep.violations.iter().map(|v| v["what"].as_str().unwrap_or("").to_string()).collect::<Vec<_>>());
    !rep.violations.is_empty()
}
