//! Helpers to read per-draw statistics generically through `Storable::get_all`.
use nuts_storable::Value;

pub struct StatRow(pub Vec<(String, Option<Value>)>);

impl StatRow {
    pub fn get(&self, name: &str) -> Option<&Value> {
        self.0.iter().find(|(n, _)| n == name).and_then(|(_, v)| v.as_ref())
    }
    pub fn has_field(&self, name: &str) -> bool {
        self.0.iter().any(|(n, _)| n == name)
    }
    pub fn f(&self, name: &str) -> Option<f64> {
        match self.get(name)? { Value::ScalarF64(x) => Some(*x), _ => None }
    }
    pub fn u(&self, name: &str) -> Option<u64> {
        match self.get(name)? { Value::ScalarU64(x) => Some(*x), _ => None }
    }
    pub fn i(&self, name: &str) -> Option<i64> {
        match self.get(name)? { Value::ScalarI64(x) => Some(*x), _ => None }
    }
    pub fn b(&self, name: &str) -> Option<bool> {
        match self.get(name)? { Value::ScalarBool(x) => Some(*x), _ => None }
    }
    pub fn vecf(&self, name: &str) -> Option<&Vec<f64>> {
        match self.get(name)? { Value::F64(x) => Some(x), _ => None }
    }
}
