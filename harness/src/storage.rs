//! Shared machinery for C14 / C15: drive a real chain and a real storage backend by hand (exactly
//! what the sampler's chain loop does: expanded_draw -> record_sample), keep a reference recording,
//! and read the backend's result back in a canonical form.
use crate::targets::*;
use crate::util::*;
use nuts_rs::verif_hooks::{ChainStorage, StatsDims, StorageConfig, TraceStorage};
use nuts_rs::{Chain, CpuMath, DiagMclmcSettings, DiagNutsSettings, LowRankNutsSettings, Settings, Storable, Value};
use rand::SeedableRng;
use std::collections::BTreeMap;

/// canonical scalar: floats by bit pattern so that NaN payloads and signed zeros are compared exactly
#[derive(Clone, Debug, PartialEq)]
pub enum Cell { F(u64), F32(u32), I(i64), U(u64), B(bool), S(String) }

pub fn canon(v: &Value) -> Vec<Cell> {
    match v {
        Value::F64(x) => x.iter().map(|a| Cell::F(a.to_bits())).collect(),
        Value::F32(x) => x.iter().map(|a| Cell::F32(a.to_bits())).collect(),
        Value::I64(x) => x.iter().map(|a| Cell::I(*a)).collect(),
        Value::U64(x) => x.iter().map(|a| Cell::U(*a)).collect(),
        Value::Bool(x) => x.iter().map(|a| Cell::B(*a)).collect(),
        Value::ScalarString(s) => vec![Cell::S(s.clone())],
        Value::ScalarF64(a) => vec![Cell::F(a.to_bits())],
        Value::ScalarF32(a) => vec![Cell::F32(a.to_bits())],
        Value::ScalarI64(a) => vec![Cell::I(*a)],
        Value::ScalarU64(a) => vec![Cell::U(*a)],
        Value::ScalarBool(a) => vec![Cell::B(*a)],
        Value::Strings(x) => x.iter().map(|a| Cell::S(a.clone())).collect(),
        _ => vec![],
    }
}

#[derive(Clone, Debug)]
pub struct DrawRecord { pub tuning: bool, pub stats: Vec<(String, Option<Vec<Cell>>)>, pub draws: Vec<(String, Vec<Cell>)> }

/// reference view: per variable, the recorded values (one entry per draw on which it was present)
pub fn reference(recs: &[DrawRecord], warm: bool, stats: bool) -> BTreeMap<String, Vec<Vec<Cell>>> {
    let mut out: BTreeMap<String, Vec<Vec<Cell>>> = BTreeMap::new();
    for r in recs.iter().filter(|r| r.tuning == warm) {
        if stats { for (n, v) in &r.stats { if n != "draw" && n != "chain" { let e = out.entry(n.clone()).or_default(); if let Some(v) = v { e.push(v.clone()); } } } }
        else { for (n, v) in &r.draws { out.entry(n.clone()).or_default().push(v.clone()); } }
    }
    out
}

#[derive(Clone, Debug)]
pub struct RunCfg { pub preset: u8, pub dim: usize, pub num_tune: u64, pub num_draws: u64, pub num_chains: usize, pub chain: u64, pub fault_period: u64, pub seed: u64, pub store_divergences: bool, pub store_mass_matrix: bool }

impl RunCfg {
    pub fn to_json(&self) -> serde_json::Value { serde_json::json!({"preset": self.preset, "dim": self.dim, "num_tune": self.num_tune, "num_draws": self.num_draws, "num_chains": self.num_chains, "chain": self.chain, "fault_period": self.fault_period, "seed": self.seed, "store_divergences": self.store_divergences, "store_mass_matrix": self.store_mass_matrix}) }
    pub fn from_json(v: &serde_json::Value) -> RunCfg { RunCfg { preset: v["preset"].as_u64().unwrap() as u8, dim: v["dim"].as_u64().unwrap() as usize, num_tune: v["num_tune"].as_u64().unwrap(), num_draws: v["num_draws"].as_u64().unwrap(), num_chains: v["num_chains"].as_u64().unwrap() as usize, chain: v["chain"].as_u64().unwrap(), fault_period: v["fault_period"].as_u64().unwrap(), seed: v["seed"].as_u64().unwrap(), store_divergences: v["store_divergences"].as_bool().unwrap(), store_mass_matrix: v["store_mass_matrix"].as_bool().unwrap() } }
    pub fn target(&self) -> Target {
        let mut t = Target::new(Kind::Diag { mu: vec![0.5; self.dim], sigma: (0..self.dim).map(|i| 1.0 + 0.5 * i as f64).collect() }, self.dim);
        if self.fault_period > 0 { t.periodic = Some((self.fault_period, FaultKind::Recoverable)); }
        t
    }
}

/// What the per-draw callback may do with the chain storage.
pub trait Probe<CS: ChainStorage> { fn after_draw(&mut self, k: usize, cs: &CS, recs: &[DrawRecord]) -> Result<(), String>; }
pub struct NoProbe;
impl<CS: ChainStorage> Probe<CS> for NoProbe { fn after_draw(&mut self, _k: usize, _cs: &CS, _r: &[DrawRecord]) -> Result<(), String> { Ok(()) } }

pub struct Driven<F> { pub recs: Vec<DrawRecord>, pub finalized: Option<F>, pub error: Option<String>, pub settings_json: serde_json::Value }

/// Run one chain of preset `cfg.preset` against the backend `sc`, recording everything handed to `record_sample`.
pub fn drive<SC: StorageConfig, P: Probe<<SC::Storage as TraceStorage>::ChainStorage>>(cfg: &RunCfg, sc: SC, probe: &mut P, stop_after: Option<usize>)
    -> Driven<<SC::Storage as TraceStorage>::Finalized> {
    macro_rules! go { ($settings:expr) => {{
        let settings = $settings;
        let settings_json = serde_json::to_value(&settings).unwrap();
        let mut out = Driven { recs: vec![], finalized: None, error: None, settings_json };
        let math = CpuMath::new(cfg.target());
        let trace = match sc.new_trace(&settings, &math) { Ok(t) => t, Err(e) => { out.error = Some(format!("new_trace: {e:#}")); return out; } };
        let mut cs = match trace.initialize_trace_for_chain(cfg.chain) { Ok(c) => c, Err(e) => { out.error = Some(format!("initialize_trace_for_chain: {e:#}")); return out; } };
        let mut rng = rand::rngs::ChaCha8Rng::seed_from_u64(cfg.seed);
        let mut chain = settings.new_chain(cfg.chain, math, &mut rng);
        if let Err(e) = chain.set_position(&vec![0.2; cfg.dim]) { out.error = Some(format!("set_position: {e}")); return out; }
        let total = (cfg.num_tune + cfg.num_draws) as usize;
        for k in 0..stop_after.unwrap_or(total).min(total) {
            let (_pos, mut expanded, mut stats, progress) = match chain.expanded_draw() { Ok(x) => x, Err(e) => { out.error = Some(format!("draw {k}: {e}")); break; } };
            let dims = { let m = chain.math(); StatsDims::from(&*m) };
            let sv = stats.get_all(&dims);
            let m = chain.math();
            let dv = expanded.get_all(&*m);
            out.recs.push(DrawRecord { tuning: progress.tuning,
                stats: sv.iter().map(|(n, v)| (n.to_string(), v.as_ref().map(canon))).collect(),
                draws: dv.iter().map(|(n, v)| (n.to_string(), v.as_ref().map(canon).unwrap_or_default())).collect() });
            if let Err(e) = cs.record_sample(&settings, sv, dv, &progress) { out.error = Some(format!("record_sample at draw {k}: {e:#}")); break; }
            drop(m);
            if let Err(e) = probe.after_draw(k, &cs, &out.recs) { out.error = Some(e); break; }
        }
        if out.error.is_none() || stop_after.is_some() {
            let fin = cs.finalize();
            match trace.finalize(vec![fin]) {
                Ok((None, f)) => out.finalized = Some(f),
                Ok((Some(e), f)) => { out.error = Some(format!("finalize reported: {e:#}")); out.finalized = Some(f); }
                Err(e) => out.error = Some(format!("finalize: {e:#}")),
            }
        }
        out
    }}; }
    match cfg.preset {
        0 => { let mut s = DiagNutsSettings::default(); s.num_tune = cfg.num_tune; s.num_draws = cfg.num_draws; s.num_chains = cfg.num_chains; s.maxdepth = 4; s.store_divergences = cfg.store_divergences; s.store_unconstrained = true; s.adapt_options.mass_matrix_options.store_mass_matrix = cfg.store_mass_matrix; s.seed = cfg.seed; go!(s) }
        1 => { let mut s = LowRankNutsSettings::default(); s.num_tune = cfg.num_tune; s.num_draws = cfg.num_draws; s.num_chains = cfg.num_chains; s.maxdepth = 4; s.store_divergences = cfg.store_divergences; s.store_gradient = true; s.adapt_options.mass_matrix_options.store_mass_matrix = cfg.store_mass_matrix; s.seed = cfg.seed; go!(s) }
        _ => { let mut s = DiagMclmcSettings::default(); s.num_tune = cfg.num_tune; s.num_draws = cfg.num_draws; s.num_chains = cfg.num_chains; s.store_divergences = cfg.store_divergences; s.adapt_options.mass_matrix_options.store_mass_matrix = cfg.store_mass_matrix; s.seed = cfg.seed; go!(s) }
    }
}

// ---------------------------------------------------------------------------------- Zarr reader
use zarrs::array::{Array, ArraySubset};
use zarrs::storage::ReadableListableStorageTraits;
use std::sync::Arc;

/// Read rows `0..count` of chain `chain` of array `path`; returns per row the cells.
pub fn zarr_read(store: Arc<dyn ReadableListableStorageTraits>, path: &str, chain: u64, count: usize) -> Result<(Vec<Vec<Cell>>, Vec<u64>), String> {
    let arr = Array::open(store, path).map_err(|e| format!("open {path}: {e}"))?;
    let shape = arr.shape().to_vec();
    if count == 0 { return Ok((vec![], shape)); }
    if (count as u64) > shape[1] { return Err(format!("{path}: array has only {} rows along its draw/event dimension, {} values were recorded", shape[1], count)); }
    let mut start = vec![0u64; shape.len()]; start[0] = chain;
    let mut sh = shape.clone(); sh[0] = 1; sh[1] = count as u64;
    let subset = ArraySubset::new_with_start_shape(start, sh.clone()).map_err(|e| format!("{e}"))?;
    let per_row: usize = sh[2..].iter().product::<u64>() as usize;
    let dt = format!("{:?}", arr.data_type());
    let rows = |cells: Vec<Cell>| -> Vec<Vec<Cell>> { cells.chunks(per_row.max(1)).map(|c| c.to_vec()).collect() };
    let dtl = dt.to_lowercase();
    let res = if dtl.contains("float64") { arr.retrieve_array_subset::<Vec<f64>>(&subset).map(|v| rows(v.into_iter().map(|a| Cell::F(a.to_bits())).collect())) }
        else if dtl.contains("float32") { arr.retrieve_array_subset::<Vec<f32>>(&subset).map(|v| rows(v.into_iter().map(|a| Cell::F32(a.to_bits())).collect())) }
        else if dtl.contains("uint64") { arr.retrieve_array_subset::<Vec<u64>>(&subset).map(|v| rows(v.into_iter().map(Cell::U).collect())) }
        else if dtl.contains("int64") { arr.retrieve_array_subset::<Vec<i64>>(&subset).map(|v| rows(v.into_iter().map(Cell::I).collect())) }
        else if dtl.contains("bool") { arr.retrieve_array_subset::<Vec<bool>>(&subset).map(|v| rows(v.into_iter().map(Cell::B).collect())) }
        else if dtl.contains("string") { arr.retrieve_array_subset::<Vec<String>>(&subset).map(|v| rows(v.into_iter().map(Cell::S).collect())) }
        else { return Err(format!("{path}: unexpected data type {dt}")); };
    res.map(|r| (r, shape)).map_err(|e| format!("read {path}: {e}"))
}

/// Compare a Zarr store (fresh reader) with the reference recording of chain `chain`.
/// `finalized`: event arrays must have been resized to the event count.
pub fn zarr_check(store: Arc<dyn ReadableListableStorageTraits>, recs: &[DrawRecord], chain: u64, finalized: bool, skip_warmup: bool) -> Result<u64, String> {
    let mut checked = 0u64;
    for (warm, stats, group) in [(true, true, "/warmup_sample_stats"), (false, true, "/sample_stats"), (true, false, "/warmup_posterior"), (false, false, "/posterior")] {
        if warm && skip_warmup { continue; }
        for (name, vals) in reference(recs, warm, stats) {
            let path = format!("{group}/{name}");
            let (rows, shape) = zarr_read(store.clone(), &path, chain, vals.len())?;
            for (i, (a, b)) in rows.iter().zip(vals.iter()).enumerate() {
                if a != b { return Err(format!("{path}[chain {chain}, {i}] holds {:?}, recorded {:?}", &a[..a.len().min(3)], &b[..b.len().min(3)])); }
                checked += 1;
            }
            let _ = (shape, finalized);
        }
    }
    Ok(checked)
}

pub fn scratch_dir(tag: &str) -> std::path::PathBuf {
    let p = std::path::PathBuf::from(format!("/verif/.scratch/store-{}-{}", tag, std::process::id()));
    let _ = std::fs::remove_dir_all(&p);
    std::fs::create_dir_all(&p).unwrap();
    p
}

pub fn gen_cfg(r: &mut Sm, case: u64) -> RunCfg {
    RunCfg { preset: (case % 3) as u8, dim: if case % 3 == 2 { 2 + r.below(4) as usize } else { 1 + r.below(5) as usize }, num_tune: 0, num_draws: 0, num_chains: 1 + r.below(3) as usize, chain: 0, fault_period: if case % 2 == 0 { 11 + r.below(20) } else { 0 }, seed: r.next(), store_divergences: r.coin(), store_mass_matrix: r.coin() }
}

// ---------------------------------------------------------------------------------- Arrow reader
use arrow::array::{Array as ArrowArray, BooleanArray, Float32Array, Float64Array, Int64Array, LargeListArray, StringArray, UInt64Array};

pub fn arrow_scalar(a: &dyn ArrowArray, i: usize) -> Option<Vec<Cell>> {
    if a.is_null(i) { return None; }
    let any = a.as_any();
    if let Some(x) = any.downcast_ref::<Float64Array>() { return Some(vec![Cell::F(x.value(i).to_bits())]); }
    if let Some(x) = any.downcast_ref::<Float32Array>() { return Some(vec![Cell::F32(x.value(i).to_bits())]); }
    if let Some(x) = any.downcast_ref::<UInt64Array>() { return Some(vec![Cell::U(x.value(i))]); }
    if let Some(x) = any.downcast_ref::<Int64Array>() { return Some(vec![Cell::I(x.value(i))]); }
    if let Some(x) = any.downcast_ref::<BooleanArray>() { return Some(vec![Cell::B(x.value(i))]); }
    if let Some(x) = any.downcast_ref::<StringArray>() { return Some(vec![Cell::S(x.value(i).to_string())]); }
    if let Some(l) = any.downcast_ref::<LargeListArray>() {
        let inner = l.value(i);
        let mut out = vec![];
        for j in 0..inner.len() { out.extend(arrow_scalar(inner.as_ref(), j).unwrap_or_default()); }
        return Some(out);
    }
    Some(vec![Cell::S(format!("?{:?}", a.data_type()))])
}


/// every column of an Arrow record batch as the concatenation of its non-null rows (draw/chain bookkeeping columns dropped)
pub fn arrow_batch_cells(b: &arrow::record_batch::RecordBatch) -> BTreeMap<String, Vec<Cell>> {
    let mut out = BTreeMap::new();
    for (f, col) in b.schema().fields().iter().zip(b.columns().iter()) {
        if f.name() == "draw" || f.name() == "chain" { continue; }
        let mut cells = vec![];
        for i in 0..col.len() { if let Some(c) = arrow_scalar(col.as_ref(), i) { cells.extend(c); } }
        out.insert(f.name().to_string(), cells);
    }
    out
}
