use nv_harness::*;

fn main() {
    let args: Vec<String> = std::env::args().collect();
    if args.len() >= 3 && args[1] == "replay" {
        let v: serde_json::Value = serde_json::from_str(&std::fs::read_to_string(&args[2]).expect("read replay")).expect("json");
        let prop = v["property"].as_str().unwrap_or("").to_string();
        let body = &v["replay"];
        let reproduced = match prop.as_str() {
            "C07" => c07::replay(body),
            "C01" => c01::replay(body),
            "C03" => if body["kind"] == "c03" { c03::replay(body) } else { c01::replay(body) },
            "C06" | "C09" => c06::replay(body),
            "C17" => c17::replay(body),
            "C16" => c16::replay(body),
            "C19" => c19::replay(body),
            "C02" => c02::replay(body),
            "C18" => c18::replay(body),
            "C15" => c15::replay(body),
            "C14" => c14::replay(body),
            "C05" => c05::replay(body),
            "C04" => c04::replay(body),
            "C08" => c08::replay(body),
            "C10" | "C11" | "C12" | "C13" => ctl::replay(body),
            _ => { eprintln!("no replay for {prop}"); false }
        };
        println!("reproduced={reproduced}");
        std::process::exit(if reproduced { 1 } else { 0 });
    }
    if args.len() >= 2 && args[1] == "time16" { c16::timing(); return; }
    if args.len() >= 2 && args[1] == "dbg17" { c17::debug(6, 3, 0, 0, 0, "sp3"); return; }
    if args.len() < 5 {
        eprintln!("usage: nv <prop> <tier> <seed> <outdir> | nv replay <file>");
        std::process::exit(2);
    }
    let (prop, tier, seed, outdir) = (&args[1], &args[2], args[3].parse::<u64>().unwrap_or(0), &args[4]);
    std::fs::create_dir_all(outdir).unwrap();
    match prop.as_str() {
        "C07" => c07::main(tier, seed, outdir),
        "C01" => c01::main(tier, seed, outdir),
        "C06" => c06::main(tier, seed, outdir),
        "C03" => c03::main(tier, seed, outdir),
        "C17" => c17::main(tier, seed, outdir),
        "C16" => c16::main(tier, seed, outdir),
        "C19" => c19::main(tier, seed, outdir),
        "C02" => c02::main(tier, seed, outdir),
        "C18" => c18::main(tier, seed, outdir),
        "C15" => c15::main(tier, seed, outdir),
        "C14" => c14::main(tier, seed, outdir),
        "C05" => c05::main(tier, seed, outdir),
        "C04" => c04::main(tier, seed, outdir),
        "C08" => c08::main(tier, seed, outdir),
        "C10" => ctl::main_mode("C10", 0, tier, seed, outdir),
        "C11" => ctl::main_mode("C11", 1, tier, seed, outdir),
        "C12" => ctl::main_mode("C12", 2, tier, seed, outdir),
        "C13" => ctl::main_mode("C13", 3, tier, seed, outdir),
        _ => { eprintln!("unknown property {prop}"); std::process::exit(2); }
    }
}
