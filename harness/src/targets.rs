//! A family of densities with known moments, with optional fault injection at a given
//! evaluation index (counted over the whole run) and an evaluation log.
use std::collections::HashMap;
use std::sync::atomic::{AtomicU64, Ordering};
use std::sync::{Arc, Mutex};

use nuts_rs::{CpuLogpFunc, CpuMathError, LogpError, Storable};
use nuts_storable::HasDims;

#[derive(Clone, Debug)]
pub enum Kind {
    /// independent normals N(mu_i, sigma_i^2)
    Diag { mu: Vec<f64>, sigma: Vec<f64> },
    /// N(mu, P^-1) with dense precision P (row-major)
    Dense { mu: Vec<f64>, prec: Vec<f64> },
    /// product of Student-t(nu) with location/scale
    StudentT { nu: f64, mu: Vec<f64>, sigma: Vec<f64> },
    /// -(x^4)/4 per coordinate (light tails, non-Gaussian)
    Quartic,
    /// skewed product target: x = log G with G ~ Gamma(a, 1): log-density a x - e^x per coordinate
    LogGamma { a: f64 },
}

#[derive(Clone, Copy, Debug, PartialEq)]
pub enum FaultKind {
    Recoverable,
    Unrecoverable,
    NanLogp,
    PosInfLogp,
    NegInfLogp,
    NanGrad,
    InfGrad,
    ZeroGrad,
    /// a finite log-density 200 below the true value: the energy error of a leapfrog ending here exceeds any configured
    /// `max_energy_error` <= 100 but not the fixed limit 1000 of the step-size search
    EnergyJump,
}

/// the eight kinds that are faults under every configuration, plus `EnergyJump` (a fault only where `max_energy_error` is low)
pub const ALL_FAULTS_EXT: [FaultKind; 9] = [
    FaultKind::Recoverable, FaultKind::Unrecoverable, FaultKind::NanLogp, FaultKind::PosInfLogp,
    FaultKind::NegInfLogp, FaultKind::NanGrad, FaultKind::InfGrad, FaultKind::ZeroGrad, FaultKind::EnergyJump,
];

pub const ALL_FAULTS: [FaultKind; 8] = [
    FaultKind::Recoverable, FaultKind::Unrecoverable, FaultKind::NanLogp, FaultKind::PosInfLogp,
    FaultKind::NegInfLogp, FaultKind::NanGrad, FaultKind::InfGrad, FaultKind::ZeroGrad,
];

#[derive(Debug)]
pub struct TErr {
    pub recoverable: bool,
}
impl std::fmt::Display for TErr {
    fn fmt(&self, f: &mut std::fmt::Formatter<'_>) -> std::fmt::Result {
        write!(f, "injected {} error", if self.recoverable { "recoverable" } else { "unrecoverable" })
    }
}
impl std::error::Error for TErr {}
impl LogpError for TErr {
    fn is_recoverable(&self) -> bool {
        self.recoverable
    }
}

#[derive(Clone, Debug)]
pub struct EvalRec {
    pub idx: u64,
    pub pos: Vec<f64>,
    pub logp: f64,
    pub grad: Vec<f64>,
    pub fault: Option<FaultKind>,
}

#[derive(Clone)]
pub struct Target {
    pub dim: usize,
    pub kind: Kind,
    pub faults: Arc<Vec<(u64, FaultKind)>>,
    /// fault every `period` evaluations (0 = off)
    pub periodic: Option<(u64, FaultKind)>,
    pub evals: Arc<AtomicU64>,
    pub log: Option<Arc<Mutex<Vec<EvalRec>>>>,
    /// number of upcoming evaluations that fail with a recoverable error (armed by a harness between two calls)
    pub fail_next: Arc<AtomicU64>,
}

impl Target {
    pub fn new(kind: Kind, dim: usize) -> Target {
        Target { dim, kind, faults: Arc::new(vec![]), periodic: None, evals: Arc::new(AtomicU64::new(0)), log: None, fail_next: Arc::new(AtomicU64::new(0)) }
    }
    pub fn iso(dim: usize, mu: f64, sigma: f64) -> Target {
        Target::new(Kind::Diag { mu: vec![mu; dim], sigma: vec![sigma; dim] }, dim)
    }
    pub fn with_faults(mut self, f: Vec<(u64, FaultKind)>) -> Target {
        self.faults = Arc::new(f);
        self
    }
    pub fn with_log(mut self) -> Target {
        self.log = Some(Arc::new(Mutex::new(vec![])));
        self
    }
    pub fn fresh_counter(mut self) -> Target {
        self.evals = Arc::new(AtomicU64::new(0));
        self
    }
    pub fn n_evals(&self) -> u64 {
        self.evals.load(Ordering::SeqCst)
    }

    pub fn eval(&self, x: &[f64], g: &mut [f64]) -> f64 {
        match &self.kind {
            Kind::Diag { mu, sigma } => {
                let mut lp = 0.0;
                for i in 0..self.dim {
                    let z = (x[i] - mu[i]) / sigma[i];
                    lp -= 0.5 * z * z;
                    g[i] = -z / sigma[i];
                }
                lp
            }
            Kind::Dense { mu, prec } => {
                let d = self.dim;
                let mut lp = 0.0;
                for i in 0..d {
                    let mut s = 0.0;
                    for j in 0..d {
                        s += prec[i * d + j] * (x[j] - mu[j]);
                    }
                    g[i] = -s;
                    lp -= 0.5 * (x[i] - mu[i]) * s;
                }
                lp
            }
            Kind::StudentT { nu, mu, sigma } => {
                let mut lp = 0.0;
                for i in 0..self.dim {
                    let z = (x[i] - mu[i]) / sigma[i];
                    lp -= 0.5 * (nu + 1.0) * (z * z / nu).ln_1p();
                    g[i] = -(nu + 1.0) * z / (nu + z * z) / sigma[i];
                }
                lp
            }
            Kind::LogGamma { a } => {
                let mut lp = 0.0;
                for i in 0..self.dim {
                    let e = x[i].exp();
                    lp += a * x[i] - e;
                    g[i] = a - e;
                }
                lp
            }
            Kind::Quartic => {
                let mut lp = 0.0;
                for i in 0..self.dim {
                    lp -= x[i].powi(4) / 4.0;
                    g[i] = -x[i].powi(3);
                }
                lp
            }
        }
    }
}

impl HasDims for Target {
    fn dim_sizes(&self) -> HashMap<String, u64> {
        HashMap::from([("unconstrained_parameter".to_string(), self.dim as u64), ("dim".to_string(), self.dim as u64),
            ("row".to_string(), EXP_ROWS as u64), ("col".to_string(), EXP_COLS as u64)])
    }
}

pub const EXP_ROWS: usize = 2;
pub const EXP_COLS: usize = 3;

/// The expanded draw: the position itself plus a scalar and non-square / 3-d arrays derived from it (every cell
/// distinct), so that the storage backends are exercised on multi-dimensional draw variables.
#[derive(Storable, Clone, Debug)]
pub struct Expanded {
    #[storable(dims("dim"))]
    pub value: Vec<f64>,
    pub first: f64,
    /// integer-valued floats (a multiple of ten, exact zero): formatting corner cases of the text backend
    pub decade: f64,
    pub zero: f64,
    #[storable(dims("row", "col"))]
    pub wide: Vec<f64>,
    #[storable(dims("col", "row"))]
    pub tall: Vec<f64>,
    #[storable(dims("row", "col", "row"))]
    pub cube: Vec<f64>,
}

/// (variable name, shape) of the expanded draw for dimension `dim`, in declaration order
pub fn expanded_shapes(dim: usize) -> Vec<(&'static str, Vec<usize>)> {
    vec![("value", vec![dim]), ("first", vec![]), ("decade", vec![]), ("zero", vec![]), ("wide", vec![EXP_ROWS, EXP_COLS]), ("tall", vec![EXP_COLS, EXP_ROWS]), ("cube", vec![EXP_ROWS, EXP_COLS, EXP_ROWS])]
}

impl CpuLogpFunc for Target {
    type LogpError = TErr;
    type FlowParameters = FlowP;
    type ExpandedVector = Expanded;

    fn dim(&self) -> usize {
        self.dim
    }

    fn logp(&mut self, position: &[f64], gradient: &mut [f64]) -> Result<f64, TErr> {
        let idx = self.evals.fetch_add(1, Ordering::SeqCst);
        let mut fault = self.faults.iter().find(|(k, _)| *k == idx).map(|(_, f)| *f);
        if fault.is_none() {
            if let Some((p, f)) = self.periodic {
                if p > 0 && idx % p == p - 1 {
                    fault = Some(f);
                }
            }
        }
        if fault.is_none() && self.fail_next.load(Ordering::SeqCst) > 0 {
            self.fail_next.fetch_sub(1, Ordering::SeqCst);
            fault = Some(FaultKind::Recoverable);
        }
        let mut lp = self.eval(position, gradient);
        let mut res = Ok(());
        match fault {
            None => {}
            Some(FaultKind::Recoverable) => res = Err(TErr { recoverable: true }),
            Some(FaultKind::Unrecoverable) => res = Err(TErr { recoverable: false }),
            Some(FaultKind::NanLogp) => lp = f64::NAN,
            Some(FaultKind::PosInfLogp) => lp = f64::INFINITY,
            Some(FaultKind::NegInfLogp) => lp = f64::NEG_INFINITY,
            Some(FaultKind::NanGrad) => {
                if !gradient.is_empty() { gradient[0] = f64::NAN }
            }
            Some(FaultKind::InfGrad) => {
                if !gradient.is_empty() { let k = gradient.len() - 1; gradient[k] = f64::INFINITY }
            }
            Some(FaultKind::ZeroGrad) => {
                if !gradient.is_empty() { gradient[0] = 0.0 }
            }
            Some(FaultKind::EnergyJump) => lp -= 200.0,
        }
        if let Some(log) = &self.log {
            log.lock().unwrap().push(EvalRec { idx, pos: position.to_vec(), logp: lp, grad: gradient.to_vec(), fault });
        }
        res.map(|_| lp)
    }

    fn expand_vector<R: rand::Rng + ?Sized>(&mut self, _rng: &mut R, array: &[f64]) -> Result<Expanded, CpuMathError> {
        let x0 = array.first().copied().unwrap_or(0.0);
        let cell = |off: f64| move |k: usize| x0 + off + k as f64 * 0.125;
        Ok(Expanded { value: array.to_vec(), first: x0, decade: 10.0 * (3.0 * x0).round(), zero: 0.0, wide: (0..EXP_ROWS * EXP_COLS).map(cell(10.0)).collect(),
            tall: (0..EXP_ROWS * EXP_COLS).map(cell(20.0)).collect(), cube: (0..EXP_ROWS * EXP_COLS * EXP_ROWS).map(cell(30.0)).collect() })
    }

    // ---- a toy affine "flow": z = (x - shift) / scale, refitted from the draws it is given
    fn inv_transform_normalize(&mut self, p: &FlowP, x: &[f64], g: &[f64], z: &mut [f64], gz: &mut [f64]) -> Result<f64, TErr> {
        let mut logdet = 0.0;
        for i in 0..x.len() {
            z[i] = (x[i] - p.shift[i]) / p.scale[i];
            gz[i] = g[i] * p.scale[i];
            logdet -= p.scale[i].ln();
        }
        Ok(logdet)
    }
    fn init_from_untransformed_position(&mut self, p: &FlowP, x: &[f64], g: &mut [f64], z: &mut [f64], gz: &mut [f64]) -> Result<(f64, f64), TErr> {
        let lp = self.logp(x, g)?;
        let g2 = g.to_vec();
        let ld = self.inv_transform_normalize(p, x, &g2, z, gz)?;
        Ok((lp, ld))
    }
    fn init_from_transformed_position(&mut self, p: &FlowP, x: &mut [f64], g: &mut [f64], z: &[f64], gz: &mut [f64]) -> Result<(f64, f64), TErr> {
        let mut logdet = 0.0;
        for i in 0..x.len() {
            x[i] = z[i] * p.scale[i] + p.shift[i];
            logdet -= p.scale[i].ln();
        }
        let lp = self.logp(x, g)?;
        for i in 0..x.len() {
            gz[i] = g[i] * p.scale[i];
        }
        Ok((lp, logdet))
    }
    fn update_transformation<'a, R: rand::Rng + ?Sized>(
        &'a mut self,
        _rng: &mut R,
        xs: impl ExactSizeIterator<Item = &'a [f64]>,
        _gs: impl ExactSizeIterator<Item = &'a [f64]>,
        _lp: impl ExactSizeIterator<Item = &'a f64>,
        p: &'a mut FlowP,
    ) -> Result<(), TErr> {
        let xs: Vec<&[f64]> = xs.collect();
        if xs.len() >= 3 {
            let n = xs.len() as f64;
            for i in 0..self.dim {
                let m = xs.iter().map(|x| x[i]).sum::<f64>() / n;
                let v = xs.iter().map(|x| (x[i] - m) * (x[i] - m)).sum::<f64>() / n;
                if v.is_finite() && v > 0.0 {
                    p.shift[i] = m;
                    p.scale[i] = v.sqrt();
                }
            }
        }
        p.id += 1;
        Ok(())
    }
    fn init_transformation<R: rand::Rng + ?Sized>(&mut self, _rng: &mut R, _x: &[f64], _g: &[f64], _chain: u64) -> Result<FlowP, TErr> {
        Ok(FlowP { id: 0, shift: vec![0.0; self.dim], scale: vec![1.0; self.dim] })
    }
    fn new_transformation<R: rand::Rng + ?Sized>(&mut self, _rng: &mut R, dim: usize, _chain: u64) -> Result<FlowP, TErr> {
        Ok(FlowP { id: 0, shift: vec![0.0; dim], scale: vec![1.0; dim] })
    }
    fn transformation_id(&self, p: &FlowP) -> Result<i64, TErr> {
        Ok(p.id)
    }
}

#[derive(Clone, Debug)]
pub struct FlowP {
    pub id: i64,
    pub shift: Vec<f64>,
    pub scale: Vec<f64>,
}
