//! C16 — statistics schema vs per-draw values: all six presets x store_* flags x dimensions, with
//! divergences (periodic recoverable faults / energy spikes) and transformation updates.
use crate::targets::*;
use crate::util::*;
use nuts_rs::verif_hooks::StatsDims;
use nuts_rs::{
    Chain, CpuMath, DiagMclmcSettings, DiagNutsSettings, FlowMclmcSettings, FlowNutsSettings, ItemType, LowRankMclmcSettings,
    LowRankNutsSettings, Settings, Storable, Value,
};
use rand::SeedableRng;
use serde_json::json;

#[derive(Clone, Debug)]
pub struct Cfg { pub preset: u8, pub dim: usize, pub flags: u8, pub fault_period: u64, pub fault_kind: u8, pub num_tune: u64, pub num_draws: u64, pub seed: u64 }

impl Cfg {
    pub fn to_json(&self) -> serde_json::Value { json!({"preset": self.preset, "dim": self.dim, "flags": self.flags, "fault_period": self.fault_period, "fault_kind": self.fault_kind, "num_tune": self.num_tune, "num_draws": self.num_draws, "seed": self.seed}) }
    pub fn from_json(v: &serde_json::Value) -> Cfg { Cfg { preset: v["preset"].as_u64().unwrap() as u8, dim: v["dim"].as_u64().unwrap() as usize, flags: v["flags"].as_u64().unwrap() as u8, fault_period: v["fault_period"].as_u64().unwrap(), fault_kind: v["fault_kind"].as_u64().unwrap() as u8, num_tune: v["num_tune"].as_u64().unwrap(), num_draws: v["num_draws"].as_u64().unwrap(), seed: v["seed"].as_u64().unwrap() } }
    fn flag(&self, k: u8) -> bool { self.flags & (1 << k) != 0 }
}

fn type_tag(t: &ItemType) -> &'static str {
    match t { ItemType::U64 => "u64", ItemType::I64 => "i64", ItemType::F64 => "f64", ItemType::F32 => "f32", ItemType::Bool => "bool", ItemType::String => "string", _ => "other" }
}

/// (type tag, is vector, length)
fn value_tag(v: &Value) -> (&'static str, bool, usize) {
    match v {
        Value::U64(x) => ("u64", true, x.len()), Value::I64(x) => ("i64", true, x.len()), Value::F64(x) => ("f64", true, x.len()),
        Value::F32(x) => ("f32", true, x.len()), Value::Bool(x) => ("bool", true, x.len()), Value::ScalarString(_) => ("string", false, 1),
        Value::ScalarU64(_) => ("u64", false, 1), Value::ScalarI64(_) => ("i64", false, 1), Value::ScalarF64(_) => ("f64", false, 1),
        Value::ScalarF32(_) => ("f32", false, 1), Value::ScalarBool(_) => ("bool", false, 1), _ => ("other", true, 0),
    }
}

pub struct Schema { pub names: Vec<String>, pub types: Vec<String>, pub dims: Vec<Vec<String>>, pub events: Vec<Option<String>> }
pub struct Row { pub cells: Vec<(String, Option<(String, bool, usize)>)>, pub diverging: bool, pub progress_diverging: bool, pub upd_id: Option<i64>, pub draw: u64, pub chain: u64, pub has_div_start: bool, pub has_div_end: bool, pub has_div_ee: bool, pub num_eig: Option<u64> }
pub struct Run { pub schema: Schema, pub rows: Vec<Row>, pub error: Option<String> }

pub fn run(cfg: &Cfg) -> Run {
    macro_rules! go {
        ($settings:expr) => {{
            let settings = $settings;
            let mut target = if cfg.dim == 0 { Target::iso(0, 0.0, 1.0) } else { Target::new(Kind::Diag { mu: vec![0.0; cfg.dim], sigma: (0..cfg.dim).map(|i| 1.0 + i as f64).collect() }, cfg.dim) };
            if cfg.fault_period > 0 { target.periodic = Some((cfg.fault_period, if cfg.fault_kind == 0 { FaultKind::Recoverable } else { FaultKind::NanLogp })); }
            let fail_next = target.fail_next.clone();
            let math = CpuMath::new(target);
            let schema = {
                let names = settings.stat_names(&math);
                let types = settings.stat_types(&math).into_iter().map(|(_, t)| type_tag(&t).to_string()).collect();
                let dims = settings.stat_dims_all(&math).into_iter().map(|(_, d)| d).collect();
                let events = settings.stat_event_dims(&math).into_iter().map(|(_, e)| e).collect();
                Schema { names, types, dims, events }
            };
            let mut rng = rand::rngs::ChaCha8Rng::seed_from_u64(cfg.seed);
            let mut out = Run { schema, rows: vec![], error: None };
            let res = std::panic::catch_unwind(std::panic::AssertUnwindSafe(|| {
                let mut rows = vec![];
                let mut chain = settings.new_chain(3, math, &mut rng);
                if let Err(e) = chain.set_position(&vec![0.1; cfg.dim]) { return (rows, Some(format!("set_position: {e}"))); }
                for d in 0..(cfg.num_tune + cfg.num_draws) {
                    // in the runs with faults every sixth draw is forced to diverge (every evaluation fails): MCLMC absorbs isolated faults by
                    // retrying, so divergent MCLMC draws would not occur otherwise
                    fail_next.store(if cfg.fault_period > 0 && d % 6 == 5 { u64::MAX / 2 } else { 0 }, std::sync::atomic::Ordering::SeqCst);
                    let res = chain.expanded_draw();
                    fail_next.store(0, std::sync::atomic::Ordering::SeqCst);
                    match res {
                        Err(e) => return (rows, Some(format!("draw: {e}"))),
                        Ok((_p, _e, mut stats, _progress)) => {
                            let dims = { let m = chain.math(); StatsDims::from(&*m) };
                            let all = stats.get_all(&dims);
                            let mut row = Row { cells: vec![], diverging: false, progress_diverging: _progress.diverging, upd_id: None, draw: 0, chain: 0, has_div_start: false, has_div_end: false, has_div_ee: false, num_eig: None };
                            for (n, v) in all {
                                match (n, &v) {
                                    ("diverging", Some(Value::ScalarBool(b))) => row.diverging = *b,
                                    ("transformation_update_id", Some(Value::ScalarI64(i))) => row.upd_id = Some(*i),
                                    ("draw", Some(Value::ScalarU64(i))) => row.draw = *i,
                                    ("chain", Some(Value::ScalarU64(i))) => row.chain = *i,
                                    ("divergence_start", Some(_)) => row.has_div_start = true,
                                    ("divergence_end", Some(_)) => row.has_div_end = true,
                                    ("divergence_energy_error", Some(_)) => row.has_div_ee = true,
                                    ("num_eigenvalues", Some(Value::ScalarU64(i))) => row.num_eig = Some(*i),
                                    _ => {}
                                }
                                row.cells.push((n.to_string(), v.as_ref().map(|v| { let (t, vec, len) = value_tag(v); (t.to_string(), vec, len) })));
                            }
                            rows.push(row);
                        }
                    }
                }
                (rows, None)
            }));
            match res {
                Ok((rows, err)) => { out.rows = rows; out.error = err; }
                Err(p) => out.error = Some(format!("panic: {}", p.downcast_ref::<String>().cloned().or_else(|| p.downcast_ref::<&str>().map(|s| s.to_string())).unwrap_or_default())),
            }
            out
        }};
    }
    macro_rules! common { ($s:ident) => {{ $s.num_tune = cfg.num_tune; $s.num_draws = cfg.num_draws; $s.store_gradient = cfg.flag(0); $s.store_unconstrained = cfg.flag(1); $s.store_transformed = cfg.flag(2); $s.store_divergences = cfg.flag(3); }}; }
    match cfg.preset {
        0 => { let mut s = DiagNutsSettings::default(); common!(s); s.maxdepth = 5; s.adapt_options.mass_matrix_options.store_mass_matrix = cfg.flag(4); s.adapt_options.mass_matrix_update_freq = 3; go!(s) }
        1 => { let mut s = LowRankNutsSettings::default(); common!(s); s.maxdepth = 5; s.adapt_options.mass_matrix_options.store_mass_matrix = cfg.flag(4); s.adapt_options.mass_matrix_update_freq = 5; go!(s) }
        2 => { let mut s = FlowNutsSettings::default(); common!(s); s.maxdepth = 5; go!(s) }
        3 => { let mut s = DiagMclmcSettings::default(); common!(s); s.adapt_options.mass_matrix_options.store_mass_matrix = cfg.flag(4); go!(s) }
        4 => { let mut s = LowRankMclmcSettings::default(); common!(s); s.adapt_options.mass_matrix_options.store_mass_matrix = cfg.flag(4); go!(s) }
        _ => { let mut s = FlowMclmcSettings::default(); common!(s);
            // FlowMclmcSettings::new_chain ignores `step_size` and lets dual averaging drive the MCLMC step size; the number of
            // steps per draw (L / eps, capped at 1e6) then explodes.  Pin the step size so the check stays fast.
            s.adapt_options.step_size_settings.adapt_options.method = nuts_rs::StepSizeAdaptMethod::Fixed(0.5); go!(s) }
    }
}

/// direct oracle on the implementation: schema self-consistency and per-draw conformance
pub fn oracle(cfg: &Cfg, run: &Run) -> Vec<(String, String)> {
    let mut out = vec![];
    let s = &run.schema;
    let mut seen = std::collections::HashSet::new();
    for n in &s.names { if !seen.insert(n.clone()) { out.push(("schema.duplicate_name".to_string(), format!("statistic name '{n}' is declared twice (preset {})", cfg.preset))); } }
    if let Some(e) = &run.error { if !e.contains("recoverable: true") { out.push(("schema.run_error".into(), format!("chain failed: {e}"))); } }
    let mut prev_draw: Option<u64> = None;
    let mut seen_present: std::collections::HashMap<String, (u64, u64)> = Default::default();
    for (k, row) in run.rows.iter().enumerate() {
        let names: Vec<&String> = row.cells.iter().map(|c| &c.0).collect();
        if names.len() != s.names.len() || names.iter().zip(s.names.iter()).any(|(a, b)| *a != b) {
            out.push(("schema.names_order".into(), format!("draw {k}: get_all names differ from the declared names"))); break;
        }
        for (j, (n, v)) in row.cells.iter().enumerate() {
            let e = seen_present.entry(n.clone()).or_insert((0, 0));
            if v.is_some() { e.0 += 1 } else { e.1 += 1 }
            if let Some((t, is_vec, len)) = v {
                if *t != s.types[j] { out.push(("schema.type".into(), format!("draw {k}: statistic {n} has type {t}, declared {}", s.types[j]))); }
                let want: usize = s.dims[j].iter().map(|d| if d == "unconstrained_parameter" { cfg.dim } else { usize::MAX }).product();
                if s.dims[j].is_empty() { if *is_vec { out.push(("schema.shape".into(), format!("draw {k}: statistic {n} is a vector but declares no dimensions"))); } }
                else if *len != want { out.push(("schema.shape".into(), format!("draw {k}: statistic {n} has length {len}, declared dims {:?} (= {want})", s.dims[j]))); }
            }
            if s.events[j].as_deref() == Some("divergence") && v.is_some() && !row.diverging { out.push(("schema.event".into(), format!("draw {k}: divergence statistic {n} present on a non-divergent draw"))); }
            if s.events[j].as_deref() == Some("transformation_update") && v.is_some() && row.upd_id.is_none() { out.push(("schema.event".into(), format!("draw {k}: transformation-update statistic {n} present on a draw that reports no transformation update (transformation_update_id absent)"))); }
            if let Some(ev) = s.events[j].as_deref() { if ev != "divergence" && ev != "transformation_update" { out.push(("schema.event_kind".into(), format!("statistic {n} declares the unknown event dimension {ev}"))); } }
        }
        let present = |n: &str| row.cells.iter().find(|c| c.0 == n).map(|c| c.1.is_some()).unwrap_or(false);
        // a statistic governed by a store_* option is present exactly when its option is on
        for (name, on) in [("gradient", cfg.flag(0)), ("unconstrained_draw", cfg.flag(1)), ("transformed_position", cfg.flag(2)), ("transformed_gradient", cfg.flag(2))] {
            if s.names.iter().any(|n| n == name) && present(name) != on && cfg.dim > 0 {
                out.push(("schema.option_presence".into(), format!("draw {k}: statistic {name} present = {} but its store option is {} (preset {})", present(name), if on { "on" } else { "off" }, cfg.preset)));
            }
        }
        if row.diverging != row.progress_diverging { out.push(("schema.diverging_flag".into(), format!("draw {k}: the `diverging` statistic is {} but the chain reported the draw as {} (Progress.diverging)", row.diverging, if row.progress_diverging { "divergent" } else { "not divergent" }))); }
        if row.diverging != present("divergence_draw") || row.diverging != present("divergence_message") { out.push(("schema.event".into(), format!("draw {k}: diverging={} but divergence_draw/message presence {}/{}", row.diverging, present("divergence_draw"), present("divergence_message")))); }
        if let Some(p) = prev_draw { if row.draw != p + 1 { out.push(("schema.draw_counter".into(), format!("draw statistic went {p} -> {}", row.draw))); } }
        prev_draw = Some(row.draw);
        if row.chain != 3 { out.push(("schema.chain".into(), format!("chain statistic {} != 3", row.chain))); }
        if out.len() > 5 { break; }
    }
    // transformation-update fields appear exactly on draws after which the transformation changed: every reported update carries a
    // NEW id (an id repeated on a later draw is an update event without a change)
    let mut last_upd: Option<i64> = None;
    for (k, row) in run.rows.iter().enumerate() {
        if let Some(id) = row.upd_id {
            if let Some(p) = last_upd { if id <= p { out.push(("schema.update_event_without_change".into(), format!("draw {k}: transformation_update_id {id} reported again (previous reported id {p}): update fields on a draw after which the transformation did not change"))); break; } }
            last_upd = Some(id);
        }
    }
    // a statistic without event dimension is present on every draw or on none
    for (j, n) in s.names.iter().enumerate() {
        if s.events[j].is_none() { if let Some((a, b)) = seen_present.get(n) { if *a > 0 && *b > 0 && seen.len() == s.names.len() { out.push(("schema.sometimes".into(), format!("non-event statistic {n} present on {a} draws and absent on {b}"))); } } }
    }
    out
}

pub fn main(tier: &str, seed: u64, outdir: &str) {
    let mut cases = Cases::new();
    let mut rep = Report::new("C16");
    let n = if tier == "thorough" { 6000 } else { 120 };
    for case in 0..n {
        let mut r = Sm::new(seed, "C16", case);
        let preset = (case % 6) as u8;
        let dim = match (case / 6) % 4 { 0 => if preset >= 3 { 2 } else { 0 }, 1 => if preset >= 3 { 2 } else { 1 }, 2 => 3, _ => 17 };
        let cfg = Cfg { preset, dim, flags: if case < 12 { 0 } else if case < 24 { 31 } else { r.below(32) as u8 },
            fault_period: if case % 3 == 0 { 0 } else { 9 + r.below(30) }, fault_kind: (case / 3 % 2) as u8, num_tune: if case % 7 == 3 { r.below(3) } else { 40 + r.below(60) }, num_draws: 10 + r.below(20), seed: r.next() };
        let run = run(&cfg);
        rep.evaluations += run.rows.len() as u64;
        rep.hit(&format!("preset{}.dim{}", preset, dim));
        let ndiv = run.rows.iter().filter(|r| r.diverging).count();
        let nupd = run.rows.iter().filter(|r| r.upd_id.is_some()).count();
        if ndiv > 0 && nupd > 1 { rep.nontrivial += 1; }
        rep.hit(if ndiv > 0 { "with_divergences" } else { "no_divergences" });
        for (key, what) in oracle(&cfg, &run) { rep.violation(&key, &what, json!({"kind": "c16", "cfg": cfg.to_json()})); }
        // record for the model
        let sc = &run.schema;
        let mut line = format!("schema {case} {preset} {} {} {}", cfg.dim, cfg.flags, sc.names.len());
        for j in 0..sc.names.len() {
            line.push_str(&format!(" {} {} {} {} {}", sc.names[j], sc.types[j], sc.dims[j].len(), sc.dims[j].join(" "), sc.events[j].clone().unwrap_or("-".into())));
        }
        cases.line(&line.split_whitespace().collect::<Vec<_>>().join(" "));
        let mut last_id: Option<i64> = None;
        for row in &run.rows {
            let id_changed = row.upd_id.is_some();
            let _ = last_id; last_id = row.upd_id.or(last_id);
            let mut l = format!("srow {case} {preset} {} {} {} {} {} {} {} {} {}", cfg.dim, cfg.flags, row.diverging as u8, row.has_div_start as u8, row.has_div_end as u8, row.has_div_ee as u8, id_changed as u8, row.num_eig.map(|x| (x > 0) as u8).unwrap_or(0), row.cells.len());
            for (n, v) in &row.cells { match v { None => l.push_str(&format!(" {n} 0 - 0 0")), Some((t, vec, len)) => l.push_str(&format!(" {n} 1 {t} {} {len}", *vec as u8)) } }
            cases.line(&l);
        }
        if case < 2 { rep.sample(json!({"cfg": cfg.to_json(), "names": sc.names, "n_rows": run.rows.len(), "divergent_draws": ndiv})); }
    }
    cases.write(&format!("{outdir}/C16.cases")).unwrap();
    rep.write(&format!("{outdir}/C16.report.json"));
}

pub fn replay(v: &serde_json::Value) -> bool {
    let cfg = Cfg::from_json(&v["cfg"]);
    let run = run(&cfg);
    let r = oracle(&cfg, &run);
    println!("replay: {:?}", r);
    !r.is_empty()
}

pub fn timing() {
    for preset in 0..6u8 {
        for (fp, fk) in [(0u64, 0u8), (15, 0), (15, 1)] {
            let cfg = Cfg { preset, dim: 3, flags: 31, fault_period: fp, fault_kind: fk, num_tune: 60, num_draws: 15, seed: 5 };
            let t = std::time::Instant::now();
            let r = run(&cfg);
            println!("preset {preset} fault ({fp},{fk}): {:?} rows {} err {:?}", t.elapsed(), r.rows.len(), r.error.map(|e| e.chars().take(60).collect::<String>()));
        }
    }
}
