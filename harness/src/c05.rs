//! C05 — fault enumeration: a density fault of every kind at every evaluation index of a run
//! (set_position: initial evaluations and step-size search; every leapfrog of every draw; the
//! step-size re-initialisation after the first mass-matrix change), single faults exhaustively and
//! random pairs, for the NUTS presets x kinetic energies x step-size methods.  Every call runs under
//! catch_unwind.  The role of the faulted evaluation is recovered from the evaluation log; the Lean
//! model (Model/Faults.lean) predicts the outcome class of the call from (role, fault kind).
use crate::targets::*;
use crate::util::*;
use nuts_rs::verif_hooks::StatsDims;
use nuts_rs::{Chain, CpuMath, DiagNutsSettings, FlowNutsSettings, KineticEnergyKind, LowRankNutsSettings, Settings, StepSizeAdaptMethod, Storable, Value};
use rand::SeedableRng;
use serde_json::json;

#[derive(Clone, Debug)]
pub struct Cfg { pub preset: u8, pub kinetic: u8, pub method: u8, pub dim: usize, pub num_tune: u64, pub num_draws: u64, pub seed: u64, pub faults: Vec<(u64, FaultKind)> }

pub fn kind_code(k: FaultKind) -> u8 { ALL_FAULTS_EXT.iter().position(|x| *x == k).unwrap() as u8 }
pub fn kind_name(k: FaultKind) -> &'static str {
    match k { FaultKind::Recoverable => "recoverable", FaultKind::Unrecoverable => "unrecoverable", FaultKind::NanLogp => "nanLogp", FaultKind::PosInfLogp => "posInfLogp", FaultKind::NegInfLogp => "negInfLogp", FaultKind::NanGrad => "nanGrad", FaultKind::InfGrad => "infGrad", FaultKind::ZeroGrad => "zeroGrad", FaultKind::EnergyJump => "energyJump" }
}

impl Cfg {
    pub fn to_json(&self) -> serde_json::Value {
        json!({"preset": self.preset, "kinetic": self.kinetic, "method": self.method, "dim": self.dim, "num_tune": self.num_tune, "num_draws": self.num_draws, "seed": self.seed,
               "faults": self.faults.iter().map(|(k, f)| json!([k, kind_code(*f)])).collect::<Vec<_>>()})
    }
    pub fn from_json(v: &serde_json::Value) -> Cfg {
        Cfg { preset: v["preset"].as_u64().unwrap() as u8, kinetic: v["kinetic"].as_u64().unwrap() as u8, method: v["method"].as_u64().unwrap() as u8, dim: v["dim"].as_u64().unwrap() as usize,
              num_tune: v["num_tune"].as_u64().unwrap(), num_draws: v["num_draws"].as_u64().unwrap(), seed: v["seed"].as_u64().unwrap(),
              faults: v["faults"].as_array().unwrap().iter().map(|p| (p[0].as_u64().unwrap(), ALL_FAULTS_EXT[p[1].as_u64().unwrap() as usize])).collect() }
    }
    pub fn init_pos(&self) -> Vec<f64> { (0..self.dim).map(|i| 0.3 + 0.9 * i as f64).collect() }
    pub fn target(&self) -> Target {
        Target::new(Kind::Diag { mu: (0..self.dim).map(|i| i as f64 * 0.5).collect(), sigma: (0..self.dim).map(|i| [1.0, 3.0, 0.4, 10.0][i % 4]).collect() }, self.dim)
    }
}

#[derive(Clone, Debug)]
pub enum CallOut { Ok, Err(String), Panic(String) }

#[derive(Clone, Debug)]
pub struct Call { pub is_draw: bool, pub e0: u64, pub e1: u64, pub out: CallOut, pub pos: Vec<f64>, pub diverging: bool, pub logp: f64, pub n_steps: u64, pub step_size: f64, pub has_msg: bool, pub tuning: bool }

pub struct Run { pub calls: Vec<Call>, pub log: Vec<EvalRec> }

fn panic_msg(p: Box<dyn std::any::Any + Send>) -> String { p.downcast_ref::<String>().cloned().or_else(|| p.downcast_ref::<&str>().map(|s| s.to_string())).unwrap_or_default() }

pub fn run(cfg: &Cfg) -> Run {
    macro_rules! go {
        ($settings:expr) => {{
            let settings = $settings;
            let target = cfg.target().with_faults(cfg.faults.clone()).with_log();
            let counter = target.evals.clone();
            let log = target.log.clone().unwrap();
            let math = CpuMath::new(target);
            let mut rng = rand::rngs::ChaCha8Rng::seed_from_u64(cfg.seed);
            let mut calls = vec![];
            let made = std::panic::catch_unwind(std::panic::AssertUnwindSafe(|| settings.new_chain(1, math, &mut rng)));
            let mut chain = match made { Ok(c) => c, Err(p) => { calls.push(Call { is_draw: false, e0: 0, e1: 0, out: CallOut::Panic(format!("new_chain: {}", panic_msg(p))), pos: vec![], diverging: false, logp: 0.0, n_steps: 0, step_size: 0.0, has_msg: false, tuning: false }); return Run { calls, log: vec![] }; } };
            let ld = |c: &std::sync::Arc<std::sync::atomic::AtomicU64>| c.load(std::sync::atomic::Ordering::SeqCst);
            let e0 = ld(&counter);
            let r = std::panic::catch_unwind(std::panic::AssertUnwindSafe(|| chain.set_position(&cfg.init_pos())));
            let out = match r { Ok(Ok(())) => CallOut::Ok, Ok(Err(e)) => CallOut::Err(format!("{e}")), Err(p) => CallOut::Panic(panic_msg(p)) };
            let stop = !matches!(out, CallOut::Ok);
            calls.push(Call { is_draw: false, e0, e1: ld(&counter), out, pos: cfg.init_pos(), diverging: false, logp: 0.0, n_steps: 0, step_size: 0.0, has_msg: false, tuning: false });
            if !stop {
                for _ in 0..(cfg.num_tune + cfg.num_draws) {
                    let e0 = ld(&counter);
                    let r = std::panic::catch_unwind(std::panic::AssertUnwindSafe(|| {
                        chain.expanded_draw().map(|(p, _e, mut stats, progress)| {
                            let dims = { let m = chain.math(); StatsDims::from(&*m) };
                            let mut c = Call { is_draw: true, e0, e1: 0, out: CallOut::Ok, pos: p.to_vec(), diverging: false, logp: f64::NAN, n_steps: 0, step_size: f64::NAN, has_msg: false, tuning: progress.tuning };
                            for (n, v) in stats.get_all(&dims) {
                                match (n, &v) {
                                    ("diverging", Some(Value::ScalarBool(b))) => c.diverging = *b,
                                    ("logp", Some(Value::ScalarF64(x))) => c.logp = *x,
                                    ("n_steps", Some(Value::ScalarU64(x))) => c.n_steps = *x,
                                    ("step_size", Some(Value::ScalarF64(x))) => c.step_size = *x,
                                    ("divergence_message", Some(_)) => c.has_msg = true,
                                    _ => {}
                                }
                            }
                            c
                        })
                    }));
                    let e1 = ld(&counter);
                    let blank = |out| Call { is_draw: true, e0, e1, out, pos: vec![], diverging: false, logp: f64::NAN, n_steps: 0, step_size: f64::NAN, has_msg: false, tuning: false };
                    match r {
                        Ok(Ok(mut c)) => { c.e1 = e1; calls.push(c); }
                        Ok(Err(e)) => { calls.push(blank(CallOut::Err(format!("{e}")))); break; }
                        Err(p) => { calls.push(blank(CallOut::Panic(panic_msg(p)))); break; }
                    }
                }
            }
            let log = log.lock().unwrap().clone();
            Run { calls, log }
        }};
    }
    let kin = if cfg.kinetic == 0 { KineticEnergyKind::Euclidean } else { KineticEnergyKind::ExactNormal };
    macro_rules! common { ($s:ident) => {{ $s.num_tune = cfg.num_tune; $s.num_draws = cfg.num_draws; $s.maxdepth = 4; $s.trajectory_kind = kin;
        match cfg.method { 0 => {}, 1 => $s.adapt_options.step_size_settings.adapt_options.method = StepSizeAdaptMethod::Adam, 2 => $s.adapt_options.step_size_settings.adapt_options.method = StepSizeAdaptMethod::Fixed(0.7), 3 => { $s.adapt_options.step_size_settings.adapt_options.method = StepSizeAdaptMethod::Fixed(1.1); $s.adapt_options.step_size_settings.jitter = None; $s.max_energy_error = 5.0; }
            // a configured energy limit (50) with a stable fixed step; 5: doublings below mindepth, 6: extra doublings, 7: depth window from the
            // target integration time -- the doublings that run without the U-turn check
            m => { $s.adapt_options.step_size_settings.adapt_options.method = StepSizeAdaptMethod::Fixed(0.7); $s.adapt_options.step_size_settings.jitter = None; $s.max_energy_error = 50.0;
                   match m { 5 => $s.mindepth = 2, 6 => $s.extra_doublings = 2, 7 => $s.target_integration_time = Some(4.0), _ => {} } } } }}; }
    match cfg.preset {
        0 => { let mut s = DiagNutsSettings::default(); common!(s); s.adapt_options.mass_matrix_update_freq = 3; go!(s) }
        1 => { let mut s = LowRankNutsSettings::default(); common!(s); s.adapt_options.mass_matrix_update_freq = 5; go!(s) }
        _ => { let mut s = FlowNutsSettings::default(); common!(s); go!(s) }
    }
}

/// role of an evaluation: 0 = `init_state_untransformed` (first evaluation of set_position), 3 = `init_state` (at the given
/// position / at the current state), 1 = trial leapfrog of the step-size search, 2 = leapfrog of a trajectory,
/// 4 = the evaluation whose gradient is handed to the user's `init_transformation` (flow preset).
/// set_position: evaluations at the given position are initial-type, all others are trials.
/// draw: trajectory leapfrogs come first and never revisit a position; the first evaluation at a position seen before
/// is the `init_state` of the step-size re-initialisation, everything after it is a trial.
fn role(run: &Run, cfg: &Cfg, call: &Call, k: u64) -> u8 {
    let same = |a: &[f64], b: &[f64]| a.len() == b.len() && a.iter().zip(b).all(|(x, y)| x.to_bits() == y.to_bits());
    if !call.is_draw { return if k == call.e0 { if cfg.preset == 2 { 4 } else { 0 } } else if same(&run.log[k as usize].pos, &cfg.init_pos()) { 3 } else { 1 }; }
    let seen_before = |j: u64| { let r = &run.log[j as usize]; same(&r.pos, &cfg.init_pos()) || run.log[..j as usize].iter().any(|q| same(&q.pos, &r.pos)) };
    match (call.e0..=k).find(|j| seen_before(*j)) { None => 2, Some(j) if j == k => 3, Some(_) => 1 }
}

const ROLE_NAMES: [&str; 5] = ["init_untransformed", "trial", "trajectory", "init", "init_flow"];

/// check one faulted run; emits one record per call containing a fault
pub fn check_run(cfg: &Cfg, run: &Run, cases: &mut Cases, rep: &mut Report) {
    let replay = json!({"kind": "c05", "cfg": cfg.to_json()});
    let target = cfg.target();
    // positions that were evaluated without fault (valid states), plus the initial position
    let mut ended = false;
    // an EnergyJump at an initial / trial evaluation is no fault there, but the state it produced carries the lowered log-density
    let mut logp_tainted = false;
    for (ci, call) in run.calls.iter().enumerate() {
        let what = if call.is_draw { format!("draw #{}", ci - 1) } else { "set_position".to_string() };
        let here: Vec<(u64, FaultKind)> = cfg.faults.iter().filter(|(k, _)| *k >= call.e0 && *k < call.e1).cloned().collect();
        if let CallOut::Panic(m) = &call.out {
            rep.violation("c05.panic", &format!("{what} panicked ({m}) with faults {:?}", cfg.faults), replay.clone());
            return;
        }
        let unrec = here.iter().any(|(_, f)| *f == FaultKind::Unrecoverable);
        // an EnergyJump is a fault of a trajectory leapfrog only relative to an untainted start state (a second jump on top of a start state
        // that already carries the lowered log-density cancels: pairs of faults)
        let tainted_before = logp_tainted;
        let here: Vec<(u64, FaultKind)> = if tainted_before { here.into_iter().filter(|(_, f)| *f != FaultKind::EnergyJump).collect() } else { here };
        if cfg.faults.iter().any(|(k, f)| *k >= call.e0 && *k < call.e1 && *f == FaultKind::EnergyJump && (tainted_before || role(run, cfg, call, *k) != 2)) { logp_tainted = true; }
        // the evaluation counter stops at the failing evaluation: a fault at k >= e1 was not reached
        for (k, f) in &here {
            let r = role(run, cfg, call, *k);
            rep.hit(&format!("fault.{}.{}", ROLE_NAMES[r as usize], kind_name(*f)));
            let outc = match &call.out { CallOut::Ok => if call.diverging { 2 } else { 1 }, CallOut::Err(_) => 0, CallOut::Panic(_) => 3 };
            if here.len() == 1 { cases.line(&format!("fault {} {} {} {}", if call.is_draw { 1 } else { 0 }, r, kind_code(*f), outc)); }
            rep.evaluations += 1;
        }
        match &call.out {
            CallOut::Err(m) => {
                ended = true;
                if here.is_empty() { rep.violation("c05.spurious_err", &format!("{what} returned Err ({m}) without a fault in this call (faults {:?})", cfg.faults), replay.clone()); return; }
                if !unrec {
                    let roles: Vec<u8> = here.iter().map(|(k, _)| role(run, cfg, call, *k)).collect();
                    if roles.iter().all(|r| *r != 0 && *r != 3 && *r != 4) {
                        rep.violation("c05.nonfatal_fault_is_err", &format!("{what} returned Err ({m}) for a non-fatal fault {:?} in a {} evaluation", here, ROLE_NAMES[roles[0] as usize]), replay.clone());
                    } else if call.is_draw {
                        rep.violation("c05.reinit_init_state.nonfatal_fault_is_err", &format!("{what} returned Err ({m}): non-fatal fault {:?} at the init_state evaluation of the step-size re-initialisation", here), replay.clone());
                    } else { rep.hit("set_position.rejected_bad_init"); }
                }
            }
            CallOut::Ok => {
                if unrec {
                    let (k, _) = here.iter().find(|(_, f)| *f == FaultKind::Unrecoverable).unwrap();
                    let r = role(run, cfg, call, *k);
                    rep.violation(&format!("c05.unrecoverable_swallowed.{}", ROLE_NAMES[r as usize]), &format!("{what} returned Ok although evaluation {k} ({}) raised an unrecoverable error", ROLE_NAMES[r as usize]), replay.clone());
                }
                if call.is_draw {
                    // the returned draw is a valid, previously evaluated state
                    if !call.pos.iter().all(|x| x.is_finite()) { rep.violation("c05.nonfinite_position", &format!("{what} returned a non-finite position {:?}", call.pos), replay.clone()); return; }
                    let mut g = vec![0.0; cfg.dim];
                    let lp = target.eval(&call.pos, &mut g);
                    if !call.logp.is_finite() || (call.logp.to_bits() != lp.to_bits() && !logp_tainted) {
                        rep.violation("c05.invalid_draw_logp", &format!("{what} reports logp {} but the density at the returned position is {lp} (faults {:?})", call.logp, cfg.faults), replay.clone()); return;
                    }
                    if !(call.step_size.is_finite() && call.step_size > 0.0) { rep.violation("c05.bad_step_size", &format!("{what} reports step size {}", call.step_size), replay.clone()); return; }
                    let traj_fault = here.iter().any(|(k, f)| role(run, cfg, call, *k) == 2 && !matches!(f, FaultKind::ZeroGrad | FaultKind::Unrecoverable));
                    // the divergent sub-tree is discarded: with the fault at the j-th leapfrog of the draw (0-based), the doubling under construction
                    // started at leapfrog 2^d - 1, d = floor(log2(j + 1)); the returned state is the previous draw or one of the states before that
                    if here.len() == 1 && traj_fault {
                        let j = (here[0].0 - call.e0) as usize;
                        let d = (usize::BITS - 1 - (j + 1).leading_zeros()) as usize;
                        let keep = (1usize << d) - 1;
                        let same = |a: &[f64], b: &[f64]| a.len() == b.len() && a.iter().zip(b).all(|(x, y)| x.to_bits() == y.to_bits());
                        let prev_pos: Vec<f64> = if ci >= 2 { run.calls[ci - 1].pos.clone() } else { cfg.init_pos() };
                        let ok = same(&call.pos, &prev_pos) || run.log[call.e0 as usize..call.e0 as usize + keep].iter().any(|r| same(&r.pos, &call.pos));
                        if !ok { rep.violation("c05.draw_from_discarded_doubling", &format!("{what}: fault {:?} at leapfrog {j} of the draw; the returned state is neither the previous draw nor one of the first {keep} states (it belongs to the discarded doubling)", here[0].1), replay.clone()); }
                    }
                    if traj_fault && !call.diverging { rep.violation("c05.fault_not_divergent", &format!("{what}: fault {:?} inside the trajectory but diverging = false", here), replay.clone()); }
                    if call.diverging && !call.has_msg { rep.violation("c05.no_message", &format!("{what}: divergent draw without divergence_message"), replay.clone()); }
                    if traj_fault { rep.nontrivial += 1; }
                    if call.diverging && here.is_empty() { rep.hit("natural_divergence_draws"); }
                } else if !here.is_empty() && !unrec {
                    rep.hit("set_position.ok_with_fault");
                }
            }
            CallOut::Panic(_) => unreachable!(),
        }
        if ended { break; }
    }
    // "... or produce invalid draws afterwards": whatever the fault, the sampler never asks for the density at a non-finite position
    if let Some(bad) = run.log.iter().find(|e| e.pos.iter().any(|x| !x.is_finite())) {
        rep.violation("c05.nonfinite_position_evaluated", &format!("evaluation {} asked for the density at the non-finite position {:?} (faults {:?})", bad.idx, &bad.pos[..bad.pos.len().min(3)], cfg.faults), replay.clone());
        return;
    }
    if !ended && run.calls.len() as u64 != 1 + cfg.num_tune + cfg.num_draws {
        rep.violation("c05.incomplete", &format!("{} calls recorded for {} draws", run.calls.len(), cfg.num_tune + cfg.num_draws), replay);
    }
}

pub fn base_cfgs(tier: &str, seed: u64) -> Vec<Cfg> {
    let mut out = vec![];
    let mut idx = 0u64;
    for preset in 0..3u8 { for kinetic in 0..2u8 { for method in 0..3u8 {
        idx += 1;
        if tier != "thorough" && (preset as u64 + kinetic as u64 + method as u64 + seed) % 3 != 0 { continue; }
        out.push(Cfg { preset, kinetic, method, dim: 2 + ((idx + seed) % 3) as usize, num_tune: if tier == "thorough" { 120 } else { 24 }, num_draws: if tier == "thorough" { 20 } else { 6 }, seed: seed.wrapping_mul(1000) + idx, faults: vec![] });
    } } }
    // energy-error divergences: a fixed step size beyond the stability limit of the stiffest coordinate
    for preset in 0..2u8 { out.push(Cfg { preset, kinetic: 0, method: 3, dim: 3, num_tune: 10, num_draws: 6, seed: seed.wrapping_mul(77) + preset as u64, faults: vec![] }); }
    // configured energy limit x the doublings without U-turn check (mindepth, extra doublings, integration-time window)
    for method in 4..8u8 { for preset in 0..2u8 {
        if tier != "thorough" && preset as u64 != (method as u64 + seed) % 2 { continue; }
        out.push(Cfg { preset, kinetic: (method % 2), method, dim: 3, num_tune: 8, num_draws: 5, seed: seed.wrapping_mul(91) + method as u64 * 2 + preset as u64, faults: vec![] });
    } }
    out
}

pub fn main(tier: &str, seed: u64, outdir: &str) {
    let mut cases = Cases::new();
    let mut rep = Report::new("C05");
    let mut r = Sm::new(seed, "C05", 0);
    for base in base_cfgs(tier, seed) {
        let reference = run(&base);
        check_run(&base, &reference, &mut cases, &mut rep);
        let n = reference.log.len() as u64;
        rep.hit(&format!("preset{}_kin{}_method{}.evals_{}", base.preset, base.kinetic, base.method, n / 100 * 100));
        if rep.samples.len() < 3 { rep.sample(json!({"cfg": base.to_json(), "evaluations": n, "set_position_evals": reference.calls[0].e1})); }
        // every evaluation index x every fault kind
        let kinds: &[FaultKind] = if base.method >= 3 { &ALL_FAULTS_EXT } else { &ALL_FAULTS };
        for k in 0..n { for f in kinds.iter().copied() {
            let mut c = base.clone(); c.faults = vec![(k, f)];
            let out = run(&c);
            check_run(&c, &out, &mut cases, &mut rep);
        } }
        // random pairs
        let npairs = if tier == "thorough" { 20000 } else { 150 };
        for _ in 0..npairs {
            let k1 = r.below(n); let span = if r.coin() { 6 } else { n }; let k2 = (k1 + 1 + r.below(span)).min(n + 5);
            let mut c = base.clone(); c.faults = vec![(k1, *r.pick(kinds)), (k2, *r.pick(kinds))];
            let out = run(&c);
            check_run(&c, &out, &mut cases, &mut rep);
        }
    }
    // de-duplicate the case records (the model decides per (call kind, role, fault kind, outcome))
    let mut lines: Vec<&str> = cases.buf.lines().collect(); lines.sort(); lines.dedup();
    let mut c2 = Cases::new(); for l in lines { c2.line(l); }
    c2.write(&format!("{outdir}/C05.cases")).unwrap();
    rep.write(&format!("{outdir}/C05.report.json"));
}

pub fn replay(body: &serde_json::Value) -> bool {
    let cfg = Cfg::from_json(&body["cfg"]);
    let out = run(&cfg);
    let mut cases = Cases::new();
    let mut rep = Report::new("C05");
    check_run(&cfg, &out, &mut cases, &mut rep);
    for c in &out.calls { if c.is_draw { println!("draw e0={} e1={} out={:?} diverging={} logp={} n_steps={} step={}", c.e0, c.e1, c.out, c.diverging, c.logp, c.n_steps, c.step_size); } else { println!("set_position e0={} e1={} out={:?}", c.e0, c.e1, c.out); } }
    println!("replay: {:?}", rep.violations.iter().map(|v| v["what"].as_str().unwrap_or("").to_string()).collect::<Vec<_>>());
    !rep.violations.is_empty()
}
