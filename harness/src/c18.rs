//! C18 — MCLMC structural invariants on real chains: unit-norm momentum after every draw, step
//! accounting of the halving/retry loop against Model/Mclmc.lean (the outcome of every leapfrog is
//! known: recoverable faults are injected at chosen evaluation indices, everything else succeeds),
//! divergent draws keep the position, the trajectory switch happens once.
use crate::targets::*;
use crate::util::*;
use nuts_rs::verif_hooks::StatsDims;
use nuts_rs::{Chain, CpuMath, DiagMclmcSettings, LowRankMclmcSettings, MclmcTrajectoryKind, Settings, Storable, Value};
use rand::SeedableRng;
use serde_json::json;

#[derive(Clone, Debug)]
pub struct Cfg { pub lowrank: bool, pub dim: usize, pub eps: f64, pub len: f64, pub freq: f64, pub dynamic: bool, pub kind: u8, pub num_tune: u64, pub num_draws: u64, pub faults: Vec<u64>, pub seed: u64 }
impl Cfg {
    pub fn to_json(&self) -> serde_json::Value { json!({"lowrank": self.lowrank, "dim": self.dim, "eps": self.eps, "len": self.len, "freq": self.freq, "dynamic": self.dynamic, "kind": self.kind, "num_tune": self.num_tune, "num_draws": self.num_draws, "faults": self.faults, "seed": self.seed}) }
    pub fn from_json(v: &serde_json::Value) -> Cfg { Cfg { lowrank: v["lowrank"].as_bool().unwrap(), dim: v["dim"].as_u64().unwrap() as usize, eps: v["eps"].as_f64().unwrap(), len: v["len"].as_f64().unwrap(), freq: v["freq"].as_f64().unwrap(), dynamic: v["dynamic"].as_bool().unwrap(), kind: v["kind"].as_u64().unwrap() as u8, num_tune: v["num_tune"].as_u64().unwrap(), num_draws: v["num_draws"].as_u64().unwrap(), faults: v["faults"].as_array().unwrap().iter().map(|x| x.as_u64().unwrap()).collect(), seed: v["seed"].as_u64().unwrap() } }
}

pub struct DrawRec { pub outs: Vec<u8>, pub num_steps: u64, pub diverging: bool, pub avg_step: f64, pub moved: bool, pub vnorm: f64, pub micro: bool, pub step_size: f64, pub v_same: bool }

pub fn run(cfg: &Cfg) -> Result<Vec<DrawRec>, String> {
    macro_rules! go { ($s:expr) => {{
        let mut s = $s;
        s.num_tune = cfg.num_tune; s.num_draws = cfg.num_draws; s.step_size = cfg.eps; s.momentum_decoherence_length = cfg.len; s.subsample_frequency = cfg.freq;
        s.dynamic_step_size = cfg.dynamic; s.max_energy_error = 1e12; s.adapt_options.step_size_settings.jitter = None;
        s.trajectory_kind = match cfg.kind { 0 => MclmcTrajectoryKind::Microcanonical, 1 => MclmcTrajectoryKind::Euclidean, _ => MclmcTrajectoryKind::EuclideanEarlyThenMicrocanonical };
        let target = Target::iso(cfg.dim, 0.0, 1.0).with_log().with_faults(cfg.faults.iter().map(|k| (*k, FaultKind::Recoverable)).collect());
        let log = target.log.clone().unwrap();
        let math = CpuMath::new(target);
        let mut rng = rand::rngs::ChaCha8Rng::seed_from_u64(cfg.seed);
        let mut chain = s.new_chain(0, math, &mut rng);
        chain.set_position(&vec![0.3; cfg.dim]).map_err(|e| format!("set_position: {e}"))?;
        let switch_draw = (s.trajectory_switch_fraction * cfg.num_tune as f64) as u64;
        let mut out = vec![];
        let mut prev: Vec<f64> = vec![0.3; cfg.dim];
        for d in 0..(cfg.num_tune + cfg.num_draws) {
            let first = log.lock().unwrap().len();
            let [_, _, _, _, v_before] = chain.verif_state_vectors();
            let (pos, _exp, mut stats, progress) = chain.expanded_draw().map_err(|e| format!("draw {d}: {e}"))?;
            let avg_step = { let dims = { let m = chain.math(); StatsDims::from(&*m) };
                stats.get_all(&dims).into_iter().find_map(|(n, v)| match (n, v) { ("average_step_size", Some(Value::ScalarF64(x))) => Some(x), _ => None }).unwrap_or(f64::NAN) };
            let outs: Vec<u8> = log.lock().unwrap()[first..].iter().map(|r| if r.fault.is_some() { 1 } else { 0 }).collect();
            let [_, _, _, _, v] = chain.verif_state_vectors();
            let vnorm = v.iter().map(|x| x * x).sum::<f64>().sqrt();
            let micro = match cfg.kind { 0 => true, 1 => false, _ => d >= switch_draw };
            let moved = pos.iter().zip(prev.iter()).any(|(a, b)| a.to_bits() != b.to_bits());
            out.push(DrawRec { outs, num_steps: progress.num_steps, diverging: progress.diverging, avg_step, moved, vnorm, micro, step_size: progress.step_size, v_same: v.iter().zip(v_before.iter()).all(|(a, b)| a.to_bits() == b.to_bits()) });
            prev = pos.to_vec();
        }
        Ok(out)
    }}; }
    if cfg.lowrank { go!(LowRankMclmcSettings::default()) } else { go!(DiagMclmcSettings::default()) }
}

pub fn oracle(cfg: &Cfg, recs: &[DrawRec]) -> Option<(String, String)> {
    for (d, r) in recs.iter().enumerate() {
        let n = ((cfg.freq * cfg.len / r.step_size).round().max(1.0).min(1e6)) as u64;
        let ndiv = r.outs.iter().filter(|x| **x == 1).count();
        if r.micro && (r.vnorm - 1.0).abs() > 1e-12 { return Some(("mclmc.unit_norm".into(), format!("draw {d}: microcanonical momentum has norm {}", r.vnorm))); }
        // retry bookkeeping: without dynamic step size a failed leapfrog IS a divergence (no smaller retry steps); with it at most ten nested
        // halvings are tried, so a draw that is not divergent never contains eleven failed leapfrogs in a row
        if !cfg.dynamic && ndiv > 0 && !r.diverging { return Some(("mclmc.retry_without_dynamic".into(), format!("draw {d}: dynamic_step_size = false but a failed leapfrog was retried (leapfrog outcomes {:?}, {} steps, not divergent)", r.outs, r.num_steps))); }
        let longest_fail_run = r.outs.iter().fold((0usize, 0usize), |(cur, best), o| if *o == 1 { (cur + 1, best.max(cur + 1)) } else { (0, best) }).1;
        if !r.diverging && longest_fail_run > 10 { return Some(("mclmc.too_many_halvings".into(), format!("draw {d}: {longest_fail_run} failed leapfrogs in a row (more than the 10 halvings allowed) and the draw is not divergent"))); }
        if !r.diverging {
            if ndiv == 0 && r.num_steps != n { return Some(("mclmc.num_steps".into(), format!("draw {d}: {} steps without any divergence, expected max(1, round(f L / eps)) = {n}", r.num_steps))); }
            if r.num_steps < n { return Some(("mclmc.num_steps".into(), format!("draw {d}: only {} steps, base steps {n}", r.num_steps))); }
            // a draw that is not divergent integrates exactly n base steps of time, however it was subdivided
            let covered = r.avg_step * r.num_steps as f64;
            let want = n as f64 * r.step_size;
            if !((covered - want).abs() <= 1e-9 * want) { return Some(("mclmc.time_covered".into(), format!("draw {d}: integrated time {covered} (average_step_size {} x {} steps), expected {n} base steps x {} = {want}; leapfrog outcomes {:?}", r.avg_step, r.num_steps, r.step_size, r.outs))); }
        } else if r.moved { return Some(("mclmc.divergent_moved".into(), format!("draw {d}: divergent draw changed the position"))); }
        // a divergent draw refreshes the momentum: the state handed to the next draw must not carry the momentum the failed draw started with
        else if r.v_same { return Some(("mclmc.divergent_momentum_kept".into(), format!("draw {d}: divergent draw left the momentum it started with in place (no refresh)"))); }
        if r.outs.len() as u64 != r.num_steps + ndiv as u64 { return Some(("mclmc.evals".into(), format!("draw {d}: {} density evaluations for {} steps and {ndiv} failed leapfrogs", r.outs.len(), r.num_steps))); }
    }
    None
}

pub fn main(tier: &str, seed: u64, outdir: &str) {
    let mut cases = Cases::new();
    let mut rep = Report::new("C18");
    let n = if tier == "thorough" { 4000 } else { 120 };
    for case in 0..n {
        let mut r = Sm::new(seed, "C18", case);
        let dim = 2 + r.below(if case % 4 == 0 { 30 } else { 5 }) as usize;
        let eps = r.log_uniform(0.02, 0.6);
        let len = r.log_uniform(0.3, 5.0);
        let freq = *r.pick(&[1.0, 0.5, 0.1, 0.0, 0.37]);
        let num_tune = 10 + r.below(30);
        let num_draws = 10 + r.below(20);
        let nbase = ((freq * len / eps).round().max(1.0)) as u64;
        let total = (num_tune + num_draws) * nbase;
        // faults: isolated, bursts (exhaust the halving budget), none
        let mut faults = vec![];
        match case % 4 {
            0 => {}
            1 => { for _ in 0..(3 + r.below(6)) { faults.push(r.below(total.max(1))); } }
            2 => { let s = r.below(total.max(1)); for j in 0..(9 + r.below(9)) { faults.push(s + j); } }
            _ => { for _ in 0..4 { let s = r.below(total.max(1)); for j in 0..(1 + r.below(4)) { faults.push(s + j); } } }
        }
        // the first evaluations belong to set_position (initialisation failures are C13's business)
        for f in faults.iter_mut() { *f += 3; }
        faults.sort(); faults.dedup();
        let cfg = Cfg { lowrank: case % 5 == 4, dim, eps, len, freq, dynamic: (case / 3) % 3 != 2, kind: (case % 3) as u8, num_tune, num_draws, faults, seed: r.next() };
        rep.hit(&format!("kind{}.dynamic{}", cfg.kind, cfg.dynamic as u8));
        match run(&cfg) {
            Err(e) => { rep.hit("run_error"); rep.violation("mclmc.error", &format!("chain failed: {e}"), json!({"kind": "c18", "cfg": cfg.to_json()})); }
            Ok(recs) => {
                rep.evaluations += recs.len() as u64;
                if let Some((key, what)) = oracle(&cfg, &recs) { rep.violation(&key, &what, json!({"kind": "c18", "cfg": cfg.to_json()})); }
                for (d, rr) in recs.iter().enumerate() {
                    let nd = rr.outs.iter().filter(|x| **x == 1).count();
                    if nd > 0 { rep.nontrivial += 1; }
                    rep.hit(if rr.diverging { "draw.diverged" } else if nd > 0 { "draw.retried" } else { "draw.clean" });
                    let h = if cfg.dynamic { 10 } else { 0 };
                    let mut lb = LineB::new("mclmc").u(case).u(d as u64).u(h).f(cfg.freq).f(cfg.len).f(rr.step_size).u(rr.num_steps).u(rr.diverging as u64).u(rr.outs.len() as u64);
                    for o in &rr.outs { lb = lb.u(*o as u64); }
                    cases.line(&lb.0);
                }
                if case < 2 { rep.sample(json!({"cfg": cfg.to_json(), "first_draws": recs.iter().take(4).map(|r| json!({"outs": r.outs, "num_steps": r.num_steps, "diverging": r.diverging, "vnorm": r.vnorm})).collect::<Vec<_>>() })); }
            }
        }
    }
    cases.write(&format!("{outdir}/C18.cases")).unwrap();
    rep.write(&format!("{outdir}/C18.report.json"));
}

pub fn replay(v: &serde_json::Value) -> bool {
    let cfg = Cfg::from_json(&v["cfg"]);
    match run(&cfg) { Ok(recs) => { let r = oracle(&cfg, &recs); println!("replay: {:?}", r); r.is_some() } Err(e) => { println!("replay: chain failed: {e}"); true } }
}
