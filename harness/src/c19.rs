//! C19 — settings survive serialisation: random settings values of all six presets through
//! serde_json; the JSON is handed to the Lean model (type descriptors generated from the Rust
//! sources); direct oracle: decoded == original (field by field via JSON) and a chain built from the
//! decoded settings draws bit-identically.
use crate::targets::*;
use crate::util::*;
use nuts_rs::{
    AdamOptions, Chain, CpuMath, DiagAdaptExpSettings, DiagMclmcSettings, DiagNutsSettings, EuclideanAdaptOptions, FlowMclmcSettings,
    FlowNutsSettings, FlowSettings, KineticEnergyKind, LowRankMclmcSettings, LowRankNutsSettings, LowRankSettings, MclmcTrajectoryKind,
    Settings, StepSizeAdaptMethod, StepSizeAdaptOptions, StepSizeSettings,
};
use rand::SeedableRng;
use serde_json::{json, Value as J};

fn rf(r: &mut Sm) -> f64 {
    match r.below(8) { 0 => 0.0, 1 => r.log_uniform(1e-12, 1e12), 2 => -r.unit(), 3 => 0.1, 4 => f64::MIN_POSITIVE, 5 => *r.pick(&[5e-324, 1.1e-308, -0.0, f64::MAX, -f64::MAX, 1e-310]), _ => r.range(0.0, 2.0) }
}
fn ru(r: &mut Sm) -> u64 { match r.below(4) { 0 => 0, 1 => u64::MAX, 2 => r.below(5000), _ => r.next() } }
fn rb(r: &mut Sm) -> bool { r.coin() }

fn step_size_settings(r: &mut Sm) -> StepSizeSettings {
    StepSizeSettings {
        target_accept: rf(r), initial_step: rf(r), jitter: if r.coin() { None } else { Some(rf(r)) },
        adapt_options: StepSizeAdaptOptions {
            method: match r.below(3) { 0 => StepSizeAdaptMethod::DualAverage, 1 => StepSizeAdaptMethod::Adam, _ => StepSizeAdaptMethod::Fixed(rf(r)) },
            dual_average: nuts_rs::verif_hooks::DualAverageOptions { k: rf(r), t0: rf(r), gamma: rf(r), max_step_size: rf(r) },
            adam: AdamOptions { beta1: rf(r), beta2: rf(r), epsilon: rf(r), learning_rate: rf(r) },
        },
    }
}
fn euclid<S: std::fmt::Debug + Default>(r: &mut Sm, mm: S) -> EuclideanAdaptOptions<S> {
    EuclideanAdaptOptions { step_size_settings: step_size_settings(r), mass_matrix_options: mm, early_window: rf(r), step_size_window: rf(r),
        mass_matrix_switch_freq: ru(r), early_mass_matrix_switch_freq: ru(r), mass_matrix_update_freq: ru(r), mass_matrix_window_growth: rf(r) }
}
fn diag(r: &mut Sm) -> DiagAdaptExpSettings { DiagAdaptExpSettings { store_mass_matrix: rb(r), use_grad_based_estimate: rb(r) } }
fn lowrank(r: &mut Sm) -> LowRankSettings { LowRankSettings { store_mass_matrix: rb(r), gamma: rf(r), eigval_cutoff: rf(r) } }
fn flow(r: &mut Sm) -> FlowSettings { FlowSettings { step_size_window: rf(r), transform_update_freq: ru(r), use_orbit_for_training: rb(r), step_size_settings: step_size_settings(r), transform_train_max_energy_error: rf(r) } }
fn kin(r: &mut Sm) -> KineticEnergyKind { *r.pick(&[KineticEnergyKind::Euclidean, KineticEnergyKind::ExactNormal, KineticEnergyKind::Microcanonical]) }
fn traj(r: &mut Sm) -> MclmcTrajectoryKind { *r.pick(&[MclmcTrajectoryKind::Microcanonical, MclmcTrajectoryKind::Euclidean, MclmcTrajectoryKind::EuclideanEarlyThenMicrocanonical]) }

macro_rules! fill_nuts { ($s:ident, $r:ident) => {{
    $s.num_tune = ru($r); $s.num_draws = ru($r); $s.maxdepth = ru($r); $s.mindepth = ru($r); $s.store_gradient = rb($r); $s.store_unconstrained = rb($r);
    $s.store_transformed = rb($r); $s.max_energy_error = rf($r); $s.store_divergences = rb($r); $s.check_turning = rb($r);
    $s.target_integration_time = if $r.coin() { None } else { Some(rf($r)) }; $s.trajectory_kind = kin($r); $s.num_chains = ru($r) as usize; $s.seed = ru($r); $s.extra_doublings = ru($r);
}}; }
macro_rules! fill_mclmc { ($s:ident, $r:ident) => {{
    $s.step_size = rf($r); $s.momentum_decoherence_length = rf($r); $s.num_tune = ru($r); $s.num_draws = ru($r); $s.num_chains = ru($r) as usize; $s.seed = ru($r);
    $s.max_energy_error = rf($r); $s.store_unconstrained = rb($r); $s.store_gradient = rb($r); $s.store_transformed = rb($r); $s.store_divergences = rb($r);
    $s.subsample_frequency = rf($r); $s.dynamic_step_size = rb($r); $s.trajectory_kind = traj($r); $s.trajectory_switch_fraction = rf($r);
}}; }

/// prefix encoding of a JSON value for the Lean driver
fn enc(j: &J, out: &mut Vec<String>) -> Result<(), String> {
    match j {
        J::Null => out.push("z".into()),
        J::Bool(b) => { out.push("b".into()); out.push((*b as u8).to_string()); }
        J::Number(n) => {
            if let Some(u) = n.as_u64() { out.push("n".into()); out.push(u.to_string()); }
            else if n.is_f64() { out.push("f".into()); out.push(n.as_f64().unwrap().to_bits().to_string()); }
            else { return Err(format!("negative integer {n}")); }
        }
        J::String(s) => { out.push("s".into()); out.push(s.clone()); }
        J::Array(_) => return Err("array".into()),
        J::Object(m) => { out.push("o".into()); out.push(m.len().to_string()); for (k, v) in m { out.push(k.clone()); enc(v, out)?; } }
    }
    Ok(())
}

/// run a short chain (well-behaved copy of the settings: the sampling-relevant fields are sanitised
/// identically on both sides, everything else is taken from the value under test)
fn same_chain<S: Settings>(a: &S, b: &S) -> Result<bool, String> {
    let run = |s: &S| -> Result<Vec<u64>, String> {
        let math = CpuMath::new(Target::iso(3, 0.5, 1.5));
        let mut rng = rand::rngs::ChaCha8Rng::seed_from_u64(11);
        let mut chain = s.new_chain(0, math, &mut rng);
        chain.set_position(&[0.1, 0.2, 0.3]).map_err(|e| e.to_string())?;
        let mut out = vec![];
        for _ in 0..25 { let (p, _) = chain.draw().map_err(|e| e.to_string())?; out.extend(p.iter().map(|x| x.to_bits())); }
        Ok(out)
    };
    let ra = std::panic::catch_unwind(std::panic::AssertUnwindSafe(|| run(a))).map_err(|_| "panic".to_string())??;
    let rb = std::panic::catch_unwind(std::panic::AssertUnwindSafe(|| run(b))).map_err(|_| "panic".to_string())??;
    Ok(ra == rb)
}

pub fn one<S: Settings + serde::Serialize + serde::de::DeserializeOwned + std::fmt::Debug>(name: &str, s: &S, sane: Option<&S>, case: u64, cases: &mut Cases, rep: &mut Report) {
    rep.evaluations += 1;
    let j = match serde_json::to_value(s) { Ok(j) => j, Err(e) => { rep.violation("serde.serialize", &format!("{name}: serialisation failed: {e}"), json!({"kind": "c19", "preset": name, "case": case})); return; } };
    let text = serde_json::to_string(s).unwrap();
    let back: Result<S, _> = serde_json::from_str(&text);
    match back {
        Err(e) => rep.violation("serde.deserialize", &format!("{name}: deserialisation of its own JSON failed: {e}"), json!({"kind": "c19", "preset": name, "case": case, "json": j})),
        Ok(b) => {
            let j2 = serde_json::to_value(&b).unwrap();
            // field by field on the typed values (a serialiser that maps two different values to the same JSON is invisible in a JSON-to-JSON comparison)
            let (da, db) = (format!("{s:?}"), format!("{b:?}"));
            if da != db {
                let at = da.bytes().zip(db.bytes()).position(|(x, y)| x != y).unwrap_or(0);
                let ctx = |t: &str| t[at.saturating_sub(60).min(t.len())..(at + 40).min(t.len())].to_string();
                rep.violation("serde.roundtrip_fields", &format!("{name}: a field of the decoded settings differs from the original: ...{} vs ...{}", ctx(&db), ctx(&da)), json!({"kind": "c19", "preset": name, "case": case, "json": j, "debug": da}));
            }
            if j2 != j { rep.violation("serde.roundtrip", &format!("{name}: decoded settings differ from the original: {} vs {}", j2, j), json!({"kind": "c19", "preset": name, "case": case, "json": j})); }
            if let Some(sane) = sane {
                let sb: S = match serde_json::from_str(&serde_json::to_string(sane).unwrap()) { Ok(x) => x, Err(e) => {
                    rep.violation("serde.deserialize", &format!("{name}: deserialisation of its own JSON failed: {e}"), json!({"kind": "c19", "preset": name, "case": case, "json": serde_json::to_value(sane).unwrap()})); return; } };
                match same_chain(sane, &sb) {
                    Ok(true) => rep.nontrivial += 1,
                    Ok(false) => rep.violation("serde.same_chain", &format!("{name}: chain built from deserialised settings draws differently"), json!({"kind": "c19", "preset": name, "case": case, "json": serde_json::to_value(sane).unwrap()})),
                    Err(e) => rep.notes.push(format!("{name} case {case}: sanitised chain did not run: {e}")),
                }
            }
        }
    }
    let mut toks = vec![];
    match enc(&j, &mut toks) {
        Ok(()) => cases.line(&format!("serde {case} {name} {}", toks.join(" "))),
        Err(e) => rep.violation("serde.json_shape", &format!("{name}: JSON outside the model: {e}"), json!({"kind": "c19", "preset": name, "case": case, "json": j})),
    }
    if case < 1 { rep.sample(json!({"preset": name, "json": j})); }
    rep.hit(name);
}

/// "the settings stored in a trace's metadata are those the run used": real chains into a Zarr store, first into a fresh one, then a second
/// run with other settings into the SAME store (the attribute must be rewritten); C14 reads the same attribute for its own runs
fn zarr_metadata_case(seed: u64, case: u64, rep: &mut Report) {
    use crate::storage::{drive, gen_cfg, NoProbe};
    let mut r = Sm::new(seed, "C19-meta", case);
    let mut run = gen_cfg(&mut r, case);
    run.num_tune = 3 + r.below(5); run.num_draws = 2 + r.below(5); run.chain = 0; run.fault_period = 0;
    let store = std::sync::Arc::new(zarrs::storage::store::MemoryStore::new());
    rep.evaluations += 1;
    rep.hit("zarr_metadata");
    let mut first = true;
    for _ in 0..2 {
        let d = drive(&run, nuts_rs::ZarrConfig::new(store.clone()).with_chunk_size(4), &mut NoProbe, None);
        if d.error.is_some() { break; }
        let attr = zarrs::group::Group::open(store.clone(), "/").ok().and_then(|g| g.attributes().get("sampler_settings").cloned()).unwrap_or(J::Null);
        if attr != d.settings_json {
            rep.violation("serde.zarr_metadata", &format!("the sampler_settings attribute of the store is not the settings of the run that {} it (stored seed {}, used seed {})", if first { "created" } else { "was written into it last" }, attr["seed"], d.settings_json["seed"]),
                json!({"kind": "c19meta", "seed": seed, "case": case}));
            break;
        }
        first = false;
        run.seed ^= 0x1234_5678; run.num_draws += 1;
    }
}

pub fn main(tier: &str, seed: u64, outdir: &str) {
    let mut cases = Cases::new();
    let mut rep = Report::new("C19");
    let n = if tier == "thorough" { 30000 } else { 250 };
    // defaults first
    one("DiagNutsSettings", &DiagNutsSettings::default(), Some(&{ let mut s = DiagNutsSettings::default(); s.num_tune = 30; s }), 0, &mut cases, &mut rep);
    one("LowRankNutsSettings", &LowRankNutsSettings::default(), Some(&{ let mut s = LowRankNutsSettings::default(); s.num_tune = 30; s }), 0, &mut cases, &mut rep);
    one("FlowNutsSettings", &FlowNutsSettings::default(), None, 0, &mut cases, &mut rep);
    one("DiagMclmcSettings", &DiagMclmcSettings::default(), Some(&{ let mut s = DiagMclmcSettings::default(); s.num_tune = 30; s }), 0, &mut cases, &mut rep);
    one("LowRankMclmcSettings", &LowRankMclmcSettings::default(), Some(&{ let mut s = LowRankMclmcSettings::default(); s.num_tune = 30; s }), 0, &mut cases, &mut rep);
    one("FlowMclmcSettings", &FlowMclmcSettings::default(), None, 0, &mut cases, &mut rep);
    for case in 1..=n {
        let mut rr = Sm::new(seed, "C19", case);
        let r = &mut rr;
        // a sane variant for the same-chain oracle: random adaptation options in valid ranges
        let sane_ss = |r: &mut Sm| StepSizeSettings { target_accept: r.range(0.6, 0.9), initial_step: r.range(0.05, 0.5), jitter: if r.coin() { None } else { Some(r.range(0.0, 0.2)) },
            adapt_options: StepSizeAdaptOptions { method: match r.below(3) { 0 => StepSizeAdaptMethod::DualAverage, 1 => StepSizeAdaptMethod::Adam, _ => StepSizeAdaptMethod::Fixed(r.range(0.1, 0.6)) }, ..Default::default() } };
        match case % 6 {
            0 => { let mut s = DiagNutsSettings::default(); fill_nuts!(s, r); { let mm = diag(r); s.adapt_options = euclid(r, mm); }
                   let mut t = DiagNutsSettings::default(); t.num_tune = 20 + r.below(30); t.maxdepth = 4; t.adapt_options.step_size_settings = sane_ss(r); t.adapt_options.mass_matrix_options = diag(r); t.trajectory_kind = if r.coin() { KineticEnergyKind::Euclidean } else { KineticEnergyKind::ExactNormal }; t.target_integration_time = if r.coin() { None } else { Some(r.range(0.5, 4.0)) };
                   one("DiagNutsSettings", &s, Some(&t), case, &mut cases, &mut rep); }
            1 => { let mut s = LowRankNutsSettings::default(); fill_nuts!(s, r); { let mm = lowrank(r); s.adapt_options = euclid(r, mm); }
                   let mut t = LowRankNutsSettings::default(); t.num_tune = 20 + r.below(30); t.maxdepth = 4; t.adapt_options.step_size_settings = sane_ss(r); t.adapt_options.mass_matrix_options.gamma = r.log_uniform(1e-6, 1e-3);
                   one("LowRankNutsSettings", &s, Some(&t), case, &mut cases, &mut rep); }
            2 => { let mut s = FlowNutsSettings::default(); fill_nuts!(s, r); s.adapt_options = flow(r);
                   let mut t = FlowNutsSettings::default(); t.num_tune = 20 + r.below(30); t.maxdepth = 4; t.adapt_options.step_size_settings = sane_ss(r); t.adapt_options.transform_update_freq = 5 + r.below(20);
                   one("FlowNutsSettings", &s, Some(&t), case, &mut cases, &mut rep); }
            3 => { let mut s = DiagMclmcSettings::default(); fill_mclmc!(s, r); { let mm = diag(r); s.adapt_options = euclid(r, mm); }
                   let mut t = DiagMclmcSettings::default(); t.num_tune = 20 + r.below(30); t.step_size = r.range(0.1, 0.6); t.momentum_decoherence_length = r.range(1.0, 4.0); t.trajectory_kind = traj(r); t.dynamic_step_size = rb(r);
                   one("DiagMclmcSettings", &s, Some(&t), case, &mut cases, &mut rep); }
            4 => { let mut s = LowRankMclmcSettings::default(); fill_mclmc!(s, r); { let mm = lowrank(r); s.adapt_options = euclid(r, mm); }
                   let mut t = LowRankMclmcSettings::default(); t.num_tune = 20 + r.below(30); t.step_size = r.range(0.1, 0.6); t.subsample_frequency = r.range(0.2, 1.0);
                   one("LowRankMclmcSettings", &s, Some(&t), case, &mut cases, &mut rep); }
            _ => { let mut s = FlowMclmcSettings::default(); fill_mclmc!(s, r); s.adapt_options = flow(r);
                   one("FlowMclmcSettings", &s, None, case, &mut cases, &mut rep); }
        }
    }
    for case in 0..(if tier == "thorough" { 200u64 } else { 6 }) { zarr_metadata_case(seed, case, &mut rep); }
    cases.write(&format!("{outdir}/C19.cases")).unwrap();
    rep.write(&format!("{outdir}/C19.report.json"));
}

pub fn replay(v: &serde_json::Value) -> bool {
    if v["kind"] == "c19meta" {
        let mut rep = Report::new("replay");
        zarr_metadata_case(v["seed"].as_u64().unwrap_or(0), v["case"].as_u64().unwrap_or(0), &mut rep);
        println!("replay: {:?}", rep.violations.iter().map(|v| v["what"].as_str().unwrap_or("").to_string()).collect::<Vec<_>>());
        return !rep.violations.is_empty();
    }
    // the failing settings value is carried as JSON; re-run the round trip on it
    let name = v["preset"].as_str().unwrap_or("");
    macro_rules! rt { ($t:ty) => {{
        match serde_json::from_value::<$t>(v["json"].clone()) {
            Err(e) => { println!("replay: from_value failed: {e}"); true }
            Ok(s) => { let j2 = serde_json::to_value(&s).unwrap(); println!("replay: round trip equal = {}", j2 == v["json"]); j2 != v["json"] }
        }
    }}; }
    match name {
        "DiagNutsSettings" => rt!(DiagNutsSettings), "LowRankNutsSettings" => rt!(LowRankNutsSettings), "FlowNutsSettings" => rt!(FlowNutsSettings),
        "DiagMclmcSettings" => rt!(DiagMclmcSettings), "LowRankMclmcSettings" => rt!(LowRankMclmcSettings), _ => rt!(FlowMclmcSettings),
    }
}
