//! C17 — every vector operation of `CpuMath` (public `Math` trait) against the plain
//! element-by-element formula, for ALL lengths 0..=130 and value classes that put special values
//! into every region of the SIMD split (4x-unrolled body, SIMD tail, scalar tail).
use crate::targets::*;
use crate::util::*;
use nuts_rs::{CpuMath, Math};
use serde_json::json;

type M = CpuMath<Target>;
type V = <M as Math>::Vector;

fn vec_of(m: &mut M, xs: &[f64]) -> V {
    let mut v = m.new_array();
    m.read_from_slice(&mut v, xs);
    v
}
fn to_vec(m: &mut M, v: &V) -> Vec<f64> {
    let mut out = vec![0.0; m.dim()];
    m.write_to_slice(v, &mut out);
    out
}

const SPECIALS: [f64; 11] = [0.0, -0.0, 5e-324, 1e-300, 1.0, -1.0, 1e100, -1e100, f64::INFINITY, f64::NEG_INFINITY, f64::NAN];

/// value classes: 0 moderate, 1 wide exponent range, 2 one special value planted at position `pos`, 3 many specials
fn gen_vec(r: &mut Sm, n: usize, class: u8, pos: usize) -> Vec<f64> {
    (0..n).map(|i| match class {
        0 => r.range(-3.0, 3.0),
        1 => { let e = r.range(-100.0, 100.0); (if r.coin() { 1.0 } else { -1.0 }) * 10f64.powf(e) }
        2 => if i == pos { *r.pick(&SPECIALS) } else { r.range(-3.0, 3.0) },
        _ => if r.below(4) == 0 { *r.pick(&SPECIALS) } else { r.range(-3.0, 3.0) },
    }).collect()
}

pub struct Rec { pub name: &'static str, pub n: usize, pub scalars: Vec<f64>, pub ins: Vec<Vec<f64>>, pub out_scalars: Vec<f64>, pub outs: Vec<Vec<f64>> }

impl Rec {
    fn line(&self) -> String {
        let mut lb = LineB::new("kern").s(self.name).u(self.n as u64).u(self.scalars.len() as u64).fs(&self.scalars).u(self.ins.len() as u64);
        for v in &self.ins { lb = lb.fs(v); }
        lb = lb.u(self.out_scalars.len() as u64).fs(&self.out_scalars).u(self.outs.len() as u64);
        for v in &self.outs { lb = lb.fs(v); }
        lb.0
    }
}

const SENT: f64 = -7.25e77;

pub fn run_all(n: usize, class: u8, pos: usize, r: &mut Sm) -> Vec<Rec> {
    let mut m: M = CpuMath::new(Target::iso(n, 0.0, 1.0));
    let mut recs = vec![];
    let a = match class { 0 | 4 => r.range(-2.0, 2.0), 1 => r.log_uniform(1e-50, 1e50), _ => *r.pick(&[0.0, 1.0, -1.5, 1e-300, f64::INFINITY, f64::NAN, 0.37]) };
    let mut v: Vec<Vec<f64>> = (0..5).map(|_| gen_vec(r, n, class.min(3), pos)).collect();
    // class 4: the second vector nearly cancels the first (y = -x (1 + d), |d| <= 1e-6; large magnitudes): sums of (x + y) terms are tiny
    // compared with the operands -- the well-adapted case "transformed gradient = -transformed position" of sq_norm_sum / scalar_prods
    if class == 4 { for i in 0..n { let x = r.log_uniform(1.0, 1e12) * if r.coin() { 1.0 } else { -1.0 }; v[0][i] = x; v[1][i] = -x * (1.0 + r.range(-1e-6, 1e-6)); } }
    let (x0, x1, x2, x3, x4) = (vec_of(&mut m, &v[0]), vec_of(&mut m, &v[1]), vec_of(&mut m, &v[2]), vec_of(&mut m, &v[3]), vec_of(&mut m, &v[4]));
    let sentinel = vec![SENT; n];

    // axpy: y += a*x
    { let mut y = vec_of(&mut m, &v[1]); m.axpy(&x0, &mut y, a);
      recs.push(Rec { name: "axpy", n, scalars: vec![a], ins: vec![v[0].clone(), v[1].clone()], out_scalars: vec![], outs: vec![to_vec(&mut m, &y)] }); }
    { let mut out = vec_of(&mut m, &sentinel); m.axpy_out(&x0, &x1, a, &mut out);
      recs.push(Rec { name: "axpy_out", n, scalars: vec![a], ins: vec![v[0].clone(), v[1].clone()], out_scalars: vec![], outs: vec![to_vec(&mut m, &out)] }); }
    { let mut out = vec_of(&mut m, &sentinel); m.array_mult(&x0, &x1, &mut out);
      recs.push(Rec { name: "mult", n, scalars: vec![], ins: vec![v[0].clone(), v[1].clone()], out_scalars: vec![], outs: vec![to_vec(&mut m, &out)] }); }
    { let mut out = vec_of(&mut m, &v[1]); m.array_mult_inplace(&mut out, &x0);
      recs.push(Rec { name: "mult", n, scalars: vec![], ins: vec![v[0].clone(), v[1].clone()], out_scalars: vec![], outs: vec![to_vec(&mut m, &out)] }); }
    { let (p, q) = m.scalar_prods2(&x0, &x1, &x2, &x3);
      recs.push(Rec { name: "sp2", n, scalars: vec![], ins: vec![v[0].clone(), v[1].clone(), v[2].clone(), v[3].clone()], out_scalars: vec![p, q], outs: vec![] }); }
    { let (p, q) = m.scalar_prods3(&x0, &x1, &x2, &x3, &x4);
      recs.push(Rec { name: "sp3", n, scalars: vec![], ins: vec![v[0].clone(), v[1].clone(), v[2].clone(), v[3].clone(), v[4].clone()], out_scalars: vec![p, q], outs: vec![] }); }
    { let d = m.array_vector_dot(&x0, &x1);
      recs.push(Rec { name: "dot", n, scalars: vec![], ins: vec![v[0].clone(), v[1].clone()], out_scalars: vec![d], outs: vec![] }); }
    { let d = m.sq_norm_sum(&x0, &x1);
      recs.push(Rec { name: "sqnorm", n, scalars: vec![], ins: vec![v[0].clone(), v[1].clone()], out_scalars: vec![d], outs: vec![] }); }
    { let mut po = vec_of(&mut m, &sentinel); let mut vel = vec_of(&mut m, &v[1]); m.std_norm_flow(&x0, &mut po, &mut vel, a);
      recs.push(Rec { name: "flow", n, scalars: vec![a], ins: vec![v[0].clone(), v[1].clone()], out_scalars: vec![], outs: vec![to_vec(&mut m, &po), to_vec(&mut m, &vel)] }); }
    { let mut vo = vec_of(&mut m, &sentinel); m.std_norm_grad_flow(&x0, &x1, &x2, &mut vo, a);
      recs.push(Rec { name: "gradflow", n, scalars: vec![a], ins: vec![v[0].clone(), v[1].clone(), v[2].clone()], out_scalars: vec![], outs: vec![to_vec(&mut m, &vo)] }); }
    { let mut vel = vec_of(&mut m, &v[2]); m.std_norm_grad_flow_inplace(&x0, &x1, &mut vel, a);
      recs.push(Rec { name: "gradflow", n, scalars: vec![a], ins: vec![v[0].clone(), v[1].clone(), v[2].clone()], out_scalars: vec![], outs: vec![to_vec(&mut m, &vel)] }); }
    { let f = m.array_all_finite(&x0); let g = m.array_all_finite_and_nonzero(&x0);
      recs.push(Rec { name: "finite", n, scalars: vec![], ins: vec![v[0].clone()], out_scalars: vec![f as u8 as f64, g as u8 as f64], outs: vec![] }); }
    { let mut out = vec_of(&mut m, &sentinel); m.array_recip(&x0, &mut out);
      recs.push(Rec { name: "recip", n, scalars: vec![], ins: vec![v[0].clone()], out_scalars: vec![], outs: vec![to_vec(&mut m, &out)] }); }
    { let mut out = vec_of(&mut m, &v[0]); m.array_normalize(&mut out);
      recs.push(Rec { name: "normalize", n, scalars: vec![], ins: vec![v[0].clone()], out_scalars: vec![], outs: vec![to_vec(&mut m, &out)] }); }
    { let mut out = vec_of(&mut m, &sentinel); m.fill_array(&mut out, a);
      recs.push(Rec { name: "fill", n, scalars: vec![a], ins: vec![], out_scalars: vec![], outs: vec![to_vec(&mut m, &out)] }); }
    { let s = m.array_sum_ln(&x0);
      recs.push(Rec { name: "sumln", n, scalars: vec![], ins: vec![v[0].clone()], out_scalars: vec![s], outs: vec![] }); }
    if n >= 2 {
        // (class 4: v[1] is anti-parallel to v[0]; momentum exactly opposite to the gradient with exp(-delta) underflowing is the
        // 0/0 corner of the ESH formula itself, not a kernel question -- take an independent vector there)
        let mut mom = vec_of(&mut m, if class == 4 { &v[2] } else { &v[1] }); m.array_normalize(&mut mom); let mom_in = to_vec(&mut m, &mom);
        let step = if class == 0 || class == 4 { r.range(0.01, 2.0) } else { a };
        let dke = m.esh_momentum_update(&x0, &mut mom, step);
        recs.push(Rec { name: "esh", n, scalars: vec![step], ins: vec![v[0].clone(), mom_in], out_scalars: vec![dke], outs: vec![to_vec(&mut m, &mom)] });
    }
    // low-rank application for several ranks
    for rank in [0usize, 1, 2, n.min(5), n] {
        if rank > n || (rank == 0 && n == 0) { continue; }
        let cols: Vec<Vec<f64>> = (0..rank).map(|_| gen_vec(r, n, if class >= 2 { 0 } else { class.min(0) }, 0)).collect();
        let vals: Vec<f64> = (0..rank).map(|_| r.log_uniform(1e-3, 1e3)).collect();
        let vecs = m.new_eig_vectors(cols.iter().map(|c| &c[..]));
        let valsv = m.new_eig_values(&vals);
        let mut dest = vec_of(&mut m, &sentinel);
        m.apply_lowrank_transform(&vecs, &valsv, &x0, &mut dest);
        let mut inpl = vec_of(&mut m, &v[0]);
        m.apply_lowrank_transform_inplace(&vecs, &valsv, &mut inpl);
        let mut ins = vec![v[0].clone(), vals.iter().cloned().chain(std::iter::repeat(0.0)).take(n).collect()];
        ins.extend(cols.iter().cloned());
        recs.push(Rec { name: "lowrank", n, scalars: vec![rank as f64], ins: ins.clone(), out_scalars: vec![], outs: vec![to_vec(&mut m, &dest)] });
        recs.push(Rec { name: "lowrank", n, scalars: vec![rank as f64], ins, out_scalars: vec![], outs: vec![to_vec(&mut m, &inpl)] });
    }
    recs
}

// ---------------- independent scalar reference (direct oracle) ----------------
fn close(imp: f64, reference: f64, scale: f64, ulps: f64) -> bool {
    if reference.is_nan() { return imp.is_nan(); }
    if reference.is_infinite() { return imp == reference; }
    if imp.is_nan() || imp.is_infinite() { return !scale.is_finite(); }
    (imp - reference).abs() <= ulps * f64::EPSILON * scale + 1e-290
}

pub fn oracle(rec: &Rec) -> Option<String> {
    let n = rec.n;
    let i = &rec.ins;
    let a = rec.scalars.first().cloned().unwrap_or(0.0);
    let bad = |k: usize, what: &str, imp: f64, rf: f64| Some(format!("{} n={} {}[{}]: implementation {} vs element-wise formula {}", rec.name, n, what, k, imp, rf));
    match rec.name {
        "axpy" | "axpy_out" => for k in 0..n { let rf = a * i[0][k] + i[1][k]; let sc = (a * i[0][k]).abs() + i[1][k].abs(); if !close(rec.outs[0][k], rf, sc, 4.0) { return bad(k, "out", rec.outs[0][k], rf); } },
        "mult" => for k in 0..n { let rf = i[0][k] * i[1][k]; if !close(rec.outs[0][k], rf, rf.abs(), 1.0) { return bad(k, "out", rec.outs[0][k], rf); } },
        "sp2" | "sp3" | "dot" | "sqnorm" | "sumln" => {
            if rec.name == "sp3" {
                // the SIMD lanes compute (p1 + p2) - n1, the scalar tail p1 - n1 + p2: with an infinite / NaN factor
                // and total cancellation the two associations give different special values -- not decidable
                for k in 0..n { for w in 0..2 {
                    let (ta, tb) = ((i[0][k] + i[2][k] - i[1][k]) * i[3 + w][k], (i[0][k] - i[1][k] + i[2][k]) * i[3 + w][k]);
                    if !(ta == tb || (ta.is_nan() && tb.is_nan()) || (ta.is_finite() && tb.is_finite())) { return None; }
                } }
            }
            let term = |k: usize, which: usize| -> f64 { match rec.name {
                "sp2" => (i[0][k] + i[1][k]) * i[2 + which][k],
                "sp3" => (i[0][k] + i[2][k] - i[1][k]) * i[3 + which][k],
                "dot" => i[0][k] * i[1][k],
                "sqnorm" => (i[0][k] + i[1][k]) * (i[0][k] + i[1][k]),
                _ => i[0][k].ln() } };
            for which in 0..rec.out_scalars.len() {
                let rf: f64 = (0..n).map(|k| term(k, which)).sum();
                let sc: f64 = (0..n).map(|k| { let t = term(k, which); let inner = match rec.name { "sp2" => (i[0][k].abs() + i[1][k].abs()) * i[2 + which][k].abs(), "sp3" => (i[0][k].abs() + i[1][k].abs() + i[2][k].abs()) * i[3 + which][k].abs(), _ => t.abs() }; inner.max(t.abs()) }).sum();
                if !close(rec.out_scalars[which], rf, sc, 8.0 + n as f64) { return bad(which, "sum", rec.out_scalars[which], rf); }
            }
        }
        "flow" => { let (s, c) = (a.sin(), a.cos()); for k in 0..n {
            let (p, v) = (i[0][k], i[1][k]);
            let rf_p = p * c + v * s; let rf_v = p * (-s) + v * c; let sc = (p * c).abs() + (v * s).abs() + (p * s).abs() + (v * c).abs();
            if !close(rec.outs[0][k], rf_p, sc, 4.0) { return bad(k, "pos_out", rec.outs[0][k], rf_p); }
            if !close(rec.outs[1][k], rf_v, sc, 4.0) { return bad(k, "vel", rec.outs[1][k], rf_v); } } }
        "gradflow" => for k in 0..n { let rf = i[2][k] + a * (i[0][k] + i[1][k]); let sc = i[2][k].abs() + (a * (i[0][k] + i[1][k])).abs() + (a * i[0][k]).abs() + (a * i[1][k]).abs(); if !close(rec.outs[0][k], rf, sc, 4.0) { return bad(k, "vel_out", rec.outs[0][k], rf); } },
        "finite" => { let f = i[0].iter().all(|x| x.is_finite()); let g = i[0].iter().all(|x| x.is_finite() && *x != 0.0);
            if (rec.out_scalars[0] == 1.0) != f { return bad(0, "all_finite", rec.out_scalars[0], f as u8 as f64); }
            if (rec.out_scalars[1] == 1.0) != g { return bad(0, "all_finite_and_nonzero", rec.out_scalars[1], g as u8 as f64); } }
        "recip" => for k in 0..n { let rf = 1.0 / i[0][k]; if !close(rec.outs[0][k], rf, rf.abs(), 1.0) { return bad(k, "out", rec.outs[0][k], rf); } },
        "fill" => for k in 0..n { if rec.outs[0][k].to_bits() != a.to_bits() { return bad(k, "out", rec.outs[0][k], a); } },
        "normalize" => { let nrm = i[0].iter().map(|x| x * x).sum::<f64>().sqrt(); for k in 0..n { let rf = i[0][k] * (1.0 / nrm); if !close(rec.outs[0][k], rf, rf.abs(), 16.0 + n as f64) { return bad(k, "out", rec.outs[0][k], rf); } } }
        "lowrank" => { let rank = a as usize; for k in 0..n {
            let mut rf = i[0][k]; let mut sc = i[0][k].abs();
            for c in 0..rank { let proj: f64 = (0..n).map(|j| i[2 + c][j] * i[0][j]).sum(); let pa: f64 = (0..n).map(|j| (i[2 + c][j] * i[0][j]).abs()).sum();
                rf += i[2 + c][k] * (i[1][c] - 1.0) * proj; sc += (i[2 + c][k] * (i[1][c] - 1.0)).abs() * pa; }
            if !close(rec.outs[0][k], rf, sc, 64.0 + 4.0 * n as f64) { return bad(k, "out", rec.outs[0][k], rf); } } }
        "esh" => {
            let g = &i[0]; let p = &i[1];
            let gn = g.iter().map(|x| x * x).sum::<f64>().sqrt();
            let e: Vec<f64> = g.iter().map(|x| x / gn).collect();
            let ue: f64 = p.iter().zip(e.iter()).map(|(a, b)| a * b).sum();
            let delta = a * gn / (n as f64 - 1.0);
            let zeta = (-delta).exp();
            let cg = (1.0 - zeta) * (1.0 + zeta + ue * (1.0 - zeta)); let cp = 2.0 * zeta;
            let raw: Vec<f64> = (0..n).map(|k| cg * e[k] + cp * p[k]).collect();
            let rn = raw.iter().map(|x| x * x).sum::<f64>().sqrt();
            let dke = (delta - std::f64::consts::LN_2 + (ue + (1.0 - ue) * zeta * zeta).ln_1p()) * (n as f64 - 1.0);
            if rn.is_finite() && rn > 0.0 && gn.is_finite() && gn > 0.0 {
                // the raw vector cg*e + cp*p can be the small difference of two larger terms (momentum nearly anti-parallel to the gradient):
                // rounding differences of the projection `ue` (inside cg) are amplified by (|cg e_k| + |cp p_k|) / |raw|
                let ue_amp = (1.0 - zeta) * (1.0 - zeta) * (n as f64) * (1.0 + ue.abs());
                for k in 0..n { let rf = raw[k] / rn; let sc = 1.0 + ((cg * e[k]).abs() + (cp * p[k]).abs() + ue_amp * e[k].abs()) / rn; if !close(rec.outs[0][k], rf, sc, 64.0 + 4.0 * n as f64) { return bad(k, "momentum", rec.outs[0][k], rf); } }
                // ln_1p(arg) with arg = ue + (1-ue) zeta^2 is ill-conditioned when arg -> -1 (momentum anti-parallel to the gradient, large
                // step): a rounding difference of n eps in `ue` (summation order of the projection) is amplified by 1/(1+arg)
                let arg = ue + (1.0 - ue) * zeta * zeta;
                let sc = delta.abs() * (n as f64) + (n as f64) + (n as f64) * (n as f64) * (1.0 + ue.abs()) / (1.0 + arg).abs();
                if !close(rec.out_scalars[0], dke, sc, 256.0) { return bad(0, "delta_ke", rec.out_scalars[0], dke); }
                let norm: f64 = rec.outs[0].iter().map(|x| x * x).sum::<f64>().sqrt();
                if (norm - 1.0).abs() > 1e-12 { return bad(0, "unit norm", norm, 1.0); }
            }
        }
        _ => {}
    }
    // every output element written exactly once: no sentinel left (elementwise kernels)
    for o in &rec.outs { for (k, x) in o.iter().enumerate() { if *x == SENT { return Some(format!("{} n={n}: output element {k} was never written", rec.name)); } } }
    None
}

pub fn main(tier: &str, seed: u64, outdir: &str) {
    let mut cases = Cases::new();
    let mut rep = Report::new("C17");
    let reps = if tier == "thorough" { 40 } else { 1 };
    let mut distinct = std::collections::HashSet::new();
    rep.notes.push(format!("pulp dispatch on this machine: avx2={} avx512f={} fma={}", is_x86_feature_detected!("avx2"), is_x86_feature_detected!("avx512f"), is_x86_feature_detected!("fma")));
    for n in 0..=130usize {
        for class in 0..5u8 {
            // special value planted in each region of the split: first, middle, just before the SIMD tail, last
            let positions: Vec<usize> = if class == 2 && n > 0 { vec![0, n / 2, (n / 16) * 16 % n.max(1), (n / 4) * 4 % n.max(1), n - 1] } else { vec![0] };
            for (pi, pos) in positions.iter().enumerate() {
                for rp in 0..reps {
                    let mut r = Sm::new(seed, "C17", (n as u64) * 1000 + class as u64 * 100 + pi as u64 * 10 + rp);
                    for rec in run_all(n, class, *pos, &mut r) {
                        rep.evaluations += 1;
                        rep.hit(&format!("kernel.{}", rec.name));
                        if distinct.insert((rec.name, n)) && n >= 16 { rep.nontrivial += 1; }
                        if let Some(msg) = oracle(&rec) {
                            rep.violation(&format!("kernel.{}", rec.name), &msg, json!({"kind": "kern", "n": n, "class": class, "pos": pos, "seed": seed, "rep": rp, "pi": pi, "name": rec.name}));
                        }
                        if rec.name != "lowrank" || n <= 24 { cases.line(&rec.line()); }
                    }
                }
            }
        }
    }
    rep.sample(json!({"kernel": "axpy", "n": 17, "classes": "0 moderate, 1 wide exponents, 2 one special value planted per split region, 3 many specials"}));
    cases.write(&format!("{outdir}/C17.cases")).unwrap();
    rep.write(&format!("{outdir}/C17.report.json"));
}

pub fn replay(v: &serde_json::Value) -> bool {
    let n = v["n"].as_u64().unwrap() as usize;
    let class = v["class"].as_u64().unwrap() as u8;
    let pos = v["pos"].as_u64().unwrap() as usize;
    let mut r = Sm::new(v["seed"].as_u64().unwrap(), "C17", (n as u64) * 1000 + class as u64 * 100 + v["pi"].as_u64().unwrap() * 10 + v["rep"].as_u64().unwrap());
    let mut found = false;
    for rec in run_all(n, class, pos, &mut r) {
        if let Some(msg) = oracle(&rec) { println!("replay: {msg}\n  ins={:?}\n  out={:?}", rec.ins, rec.out_scalars); found = true; }
    }
    found
}

pub fn debug(n: usize, class: u8, pos: usize, pi: u64, seed: u64, name: &str) {
    let mut r = Sm::new(seed, "C17", (n as u64) * 1000 + class as u64 * 100 + pi * 10);
    for rec in run_all(n, class, pos, &mut r) {
        if rec.name == name { println!("{:?}\n-> {:?} {:?}\noracle {:?}", rec.ins, rec.out_scalars, rec.outs, oracle(&rec)); }
    }
}
