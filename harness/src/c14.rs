//! C14 — every storage backend returns exactly what the chain recorded: HashMap, ndarray, Arrow
//! (store_warmup on/off), Zarr sync (finalised store), CSV (to its printed precision), driven by a
//! real chain; per variable the recorded sequence and the backend's output go to Model/Storage.lean.
use crate::storage::*;
use crate::util::*;
use arrow::array::Array as ArrowArray;
use nuts_rs::{ArrowConfig, CsvConfig, HashMapConfig, HashMapValue, NdarrayConfig, NdarrayValue, ZarrConfig};
use serde_json::json;
use std::collections::BTreeMap;
use std::sync::Arc;

fn cell_tok(c: &Cell) -> String {
    match c { Cell::F(b) => format!("F{b}"), Cell::F32(b) => format!("G{b}"), Cell::I(i) => format!("I{i}"), Cell::U(u) => format!("U{u}"), Cell::B(b) => format!("B{}", *b as u8),
        Cell::S(s) => format!("S{}", s.bytes().map(|b| format!("{b:02x}")).collect::<String>()) }
}

fn hm_cells(v: &HashMapValue) -> Vec<Cell> {
    match v { HashMapValue::F64(x) => x.iter().map(|a| Cell::F(a.to_bits())).collect(), HashMapValue::F32(x) => x.iter().map(|a| Cell::F32(a.to_bits())).collect(),
        HashMapValue::Bool(x) => x.iter().map(|a| Cell::B(*a)).collect(), HashMapValue::I64(x) => x.iter().map(|a| Cell::I(*a)).collect(),
        HashMapValue::U64(x) => x.iter().map(|a| Cell::U(*a)).collect(), HashMapValue::String(x) => x.iter().map(|a| Cell::S(a.clone())).collect() }
}

fn nd_slot(v: &NdarrayValue, chain: usize, k: usize) -> Vec<Cell> {
    use ndarray::Axis;
    macro_rules! sl { ($a:expr, $f:expr) => {{ let s = $a.index_axis(Axis(0), chain); let s = s.index_axis(Axis(0), k); s.iter().map($f).collect() }}; }
    match v { NdarrayValue::F64(a) => sl!(a, |x: &f64| Cell::F(x.to_bits())), NdarrayValue::F32(a) => sl!(a, |x: &f32| Cell::F32(x.to_bits())), NdarrayValue::Bool(a) => sl!(a, |x: &bool| Cell::B(*x)),
        NdarrayValue::I64(a) => sl!(a, |x: &i64| Cell::I(*x)), NdarrayValue::U64(a) => sl!(a, |x: &u64| Cell::U(*x)), NdarrayValue::String(a) => sl!(a, |x: &String| Cell::S(x.clone())) }
}

use crate::storage::arrow_scalar;

/// per variable: the recorded sequence
fn recorded_var(recs: &[DrawRecord], name: &str, stats: bool) -> Vec<(bool, Option<Vec<Cell>>)> {
    recs.iter().map(|r| (r.tuning, if stats { r.stats.iter().find(|(n, _)| n == name).and_then(|(_, v)| v.clone()) } else { r.draws.iter().find(|(n, _)| n == name).map(|(_, v)| v.clone()) })).collect()
}

fn emit(cases: &mut Cases, backend: &str, case: u64, var: &str, sw: bool, total: usize, rec: &[(bool, Option<Vec<Cell>>)], out_tokens: String) {
    let mut l = format!("store {backend} {case} {var} {} {total} {}", sw as u8, rec.len());
    for (t, v) in rec { match v { None => l.push_str(&format!(" {} 0 0", *t as u8)), Some(c) => { l.push_str(&format!(" {} 1 {}", *t as u8, c.len())); for x in c { l.push(' '); l.push_str(&cell_tok(x)); } } } }
    l.push_str(" | ");
    l.push_str(&out_tokens);
    cases.line(&l);
}

fn var_names(recs: &[DrawRecord]) -> (Vec<String>, Vec<String>) {
    let s = recs.first().map(|r| r.stats.iter().map(|(n, _)| n.clone()).filter(|n| n != "draw" && n != "chain").collect()).unwrap_or_default();
    let d = recs.first().map(|r| r.draws.iter().map(|(n, _)| n.clone()).collect()).unwrap_or_default();
    (s, d)
}

pub fn run_backend(backend: u8, run: &RunCfg, case: u64, stop_after: Option<usize>, cases: &mut Cases) -> Option<(String, String)> {
    let chain = run.chain as usize;
    let total = (run.num_tune + run.num_draws) as usize;
    match backend {
        0 => { // HashMap
            let d = drive(run, HashMapConfig::new(), &mut NoProbe, stop_after);
            if let Some(e) = d.error { return Some(("hashmap.error".into(), e)); }
            let fin = d.finalized?;
            let res = &fin[0];
            let (sn, dn) = var_names(&d.recs);
            for (names, stats) in [(sn, true), (dn, false)] { for name in names {
                let rec = recorded_var(&d.recs, &name, stats);
                let map = if stats { &res.stats } else { &res.draws };
                let Some(v) = map.get(&name) else { return Some(("hashmap.missing".into(), format!("variable {name} missing from the HashMap result"))); };
                let out = hm_cells(v);
                let want: Vec<Cell> = rec.iter().filter(|r| r.0).filter_map(|r| r.1.clone()).flatten().chain(rec.iter().filter(|r| !r.0).filter_map(|r| r.1.clone()).flatten()).collect();
                if out != want { return Some(("hashmap.values".into(), format!("HashMap {name}: {} values returned, {} recorded (or order/value differs)", out.len(), want.len()))); }
                emit(cases, "hashmap", case, &name, true, total, &rec, format!("{} {}", out.len(), out.iter().map(cell_tok).collect::<Vec<_>>().join(" ")));
            } }
            None
        }
        1 => { // ndarray
            let d = drive(run, NdarrayConfig::new(), &mut NoProbe, stop_after);
            if let Some(e) = d.error { return Some(("ndarray.error".into(), e)); }
            let fin = d.finalized?;
            let (sn, dn) = var_names(&d.recs);
            for (names, stats) in [(sn, true), (dn, false)] { for name in names {
                let rec = recorded_var(&d.recs, &name, stats);
                let map = if stats { &fin.stats } else { &fin.draws };
                let Some(v) = map.get(&name) else { return Some(("ndarray.missing".into(), format!("variable {name} missing from the ndarray result"))); };
                let mut toks = format!("{total}");
                for k in 0..total {
                    let slot = nd_slot(v, chain, k);
                    if let Some((_, Some(want))) = rec.get(k) { if &slot != want { return Some(("ndarray.values".into(), format!("ndarray {name}[chain {chain}, draw {k}] = {:?}, recorded {:?}", &slot[..slot.len().min(3)], &want[..want.len().min(3)]))); } }
                    toks.push_str(&format!(" {}", slot.len())); for c in &slot { toks.push(' '); toks.push_str(&cell_tok(c)); }
                }
                emit(cases, "ndarray", case, &name, true, total, &rec, toks);
            } }
            None
        }
        2 | 3 => { // Arrow, store_warmup on / off
            let sw = backend == 2;
            let mut ac = ArrowConfig::default(); ac.store_warmup = sw; let d = drive(run, ac, &mut NoProbe, stop_after);
            if let Some(e) = d.error { return Some(("arrow.error".into(), e)); }
            let fin = d.finalized?;
            let tr = &fin[0];
            let (sn, dn) = var_names(&d.recs);
            for (names, stats) in [(sn, true), (dn, false)] { for name in names {
                let rec = recorded_var(&d.recs, &name, stats);
                let batch = if stats { &tr.sample_stats } else { &tr.posterior };
                let Some(col) = batch.column_by_name(&name) else { return Some(("arrow.missing".into(), format!("column {name} missing from the Arrow batch"))); };
                let want: Vec<Option<Vec<Cell>>> = rec.iter().filter(|r| sw || !r.0).map(|r| r.1.clone()).collect();
                let got: Vec<Option<Vec<Cell>>> = (0..col.len()).map(|i| arrow_scalar(col.as_ref(), i)).collect();
                if got != want { return Some((if sw { "arrow.values" } else { "arrow.store_warmup" }.into(), format!("Arrow column {name} (store_warmup={sw}): {} rows returned, {} expected, or a value/null differs", got.len(), want.len()))); }
                let mut toks = format!("{}", got.len());
                for g in &got { match g { None => toks.push_str(" 0 0"), Some(c) => { toks.push_str(&format!(" 1 {}", c.len())); for x in c { toks.push(' '); toks.push_str(&cell_tok(x)); } } } }
                emit(cases, "arrow", case, &name, sw, total, &rec, toks);
            } }
            None
        }
        4 | 5 => { // Zarr sync, store_warmup on / off: finalised store + metadata
            let sw = backend == 4;
            let store = Arc::new(zarrs::storage::store::MemoryStore::new());
            // small chunks so that event (string) arrays span several chunks with a partial last one
            let chunk = [2u64, 3, 5, 7][(case / 7 % 4) as usize];
            let d = drive(run, ZarrConfig::new(store.clone()).with_chunk_size(chunk).store_warmup(sw), &mut NoProbe, stop_after);
            if let Some(e) = d.error { return Some(("zarr.error".into(), e)); }
            if let Err(e) = zarr_check(store.clone(), &d.recs, run.chain, true, !sw) { return Some(("zarr.values".into(), e)); }
            // event arrays are trimmed to the number of events
            for (group, warm) in [("/warmup_sample_stats", true), ("/sample_stats", false)] {
                if warm && !sw { continue; }
                for (name, vals) in reference(&d.recs, warm, true) {
                    let is_event = d.recs.iter().any(|r| r.stats.iter().any(|(n, v)| n == &name && v.is_none()));
                    if !is_event { continue; }
                    if let Ok((_, shape)) = zarr_read(store.clone(), &format!("{group}/{name}"), run.chain, 0) {
                        let max_events = reference(&d.recs, warm, true).iter().filter(|(n, _)| d.recs[0].stats.iter().any(|(m, _)| m == *n)).map(|(_, v)| v.len()).max().unwrap_or(0);
                        if (shape[1] as usize) < vals.len() { return Some(("zarr.event_count".into(), format!("{group}/{name} has {} rows, {} events were recorded", shape[1], vals.len()))); }
                        let _ = max_events;
                    }
                }
            }
            // the settings stored in the trace's metadata are those the run used
            {
                let g = zarrs::group::Group::open(store.clone(), "/").map_err(|e| e.to_string());
                match g { Ok(g) => { let a = g.attributes().get("sampler_settings").cloned().unwrap_or(serde_json::Value::Null); if a != d.settings_json { return Some(("zarr.metadata_settings".into(), "root attribute sampler_settings differs from the settings the run used".into())); } }
                    Err(e) => return Some(("zarr.metadata_settings".into(), format!("cannot open root group: {e}"))) }
            }
            // ... also when the store already holds a trace: a second run (other seed, other number of draws) into the same store leaves ITS
            // settings in the metadata, not those of the first run
            if case % 2 == 0 {
                let mut run2 = run.clone(); run2.seed ^= 0x5a5a_5a5a; run2.num_draws += 1;
                let d2 = drive(&run2, ZarrConfig::new(store.clone()).with_chunk_size(chunk).store_warmup(sw), &mut NoProbe, None);
                if d2.error.is_none() {
                    match zarrs::group::Group::open(store.clone(), "/") {
                        Ok(g) => { let a = g.attributes().get("sampler_settings").cloned().unwrap_or(serde_json::Value::Null);
                            if a != d2.settings_json { return Some(("zarr.metadata_settings_second_run".into(), format!("after a second run into the same store the root attribute sampler_settings is not that of the second run (seed in the store: {}, seed used: {})", a["seed"], d2.settings_json["seed"]))); } }
                        Err(e) => return Some(("zarr.metadata_settings".into(), format!("cannot open root group: {e}"))),
                    }
                }
            }
            if !sw {
                // store_warmup = false must omit the warmup draws
                let nwarm = d.recs.iter().filter(|r| r.tuning).count();
                if nwarm > 0 {
                    if let Ok((rows, _)) = zarr_read(store.clone(), "/warmup_sample_stats/logp", run.chain, nwarm) {
                        let written = rows.iter().zip(reference(&d.recs, true, true)["logp"].iter()).filter(|(a, b)| a == b).count();
                        if written > 0 { return Some(("zarr.store_warmup".into(), format!("ZarrConfig.store_warmup(false): {written} of {nwarm} warmup draws were written to /warmup_sample_stats/logp all the same"))); }
                    }
                }
            }
            None
        }
        _ => { // CSV
            let dir = scratch_dir("c14csv");
            let sw = case % 2 == 0;
            let prec = 3 + (case % 9) as usize;
            let d = drive(run, CsvConfig::new(&dir).with_precision(prec).store_warmup(sw), &mut NoProbe, stop_after);
            let res = (|| -> Option<(String, String)> {
                if let Some(e) = &d.error { return Some(("csv.error".into(), e.clone())); }
                let text = std::fs::read_to_string(dir.join(format!("chain_{}.csv", run.chain))).ok()?;
                let rows: Vec<&str> = text.lines().filter(|l| !l.starts_with('#')).collect();
                let want: Vec<&DrawRecord> = d.recs.iter().filter(|r| sw || !r.tuning).collect();
                if rows.is_empty() { return if want.is_empty() { None } else { Some(("csv.rows".into(), "CSV file is empty".into())) }; }
                let header: Vec<&str> = rows[0].split(',').collect();
                if rows.len() - 1 != want.len() { return Some(("csv.rows".into(), format!("CSV has {} data rows, {} draws were stored (store_warmup={sw})", rows.len() - 1, want.len()))); }
                let tol = 0.5000001 * 10f64.powi(-(prec as i32));
                for (row, rec) in rows[1..].iter().zip(want.iter()) {
                    let f: Vec<&str> = row.split(',').collect();
                    if f.len() != header.len() { return Some(("csv.columns".into(), format!("row has {} fields, header {}", f.len(), header.len()))); }
                    let stat = |n: &str| rec.stats.iter().find(|(m, _)| m == n).and_then(|(_, v)| v.clone());
                    for (col, name) in [("lp__", "logp"), ("accept_stat__", "mean_tree_accept"), ("stepsize__", "step_size"), ("energy__", "energy")] {
                        let idx = header.iter().position(|h| *h == col)?;
                        if let Some(c) = stat(name) { if let Cell::F(b) = c[0] { let x = f64::from_bits(b); if x.is_finite() { let y: f64 = f[idx].parse().ok()?; if (x - y).abs() > tol * (1.0 + 1e-12) + x.abs() * 1e-15 { return Some(("csv.value".into(), format!("column {col}: printed {} for {x} at precision {prec}", f[idx]))); } } } }
                    }
                    let idx = header.iter().position(|h| *h == "divergent__")?;
                    if let Some(c) = stat("diverging") { if f[idx] != if c[0] == Cell::B(true) { "1" } else { "0" } { return Some(("csv.value".into(), "divergent__ column differs".into())); } }
                    // parameter columns: every cell of every expanded variable, looked up by its Stan-style column name
                    // (`name`, `name.i`, `name.i.j`, ... 1-based, first index slowest = row-major flat order as recorded)
                    for (name, shape) in crate::targets::expanded_shapes(run.dim) {
                        let vals: Vec<f64> = rec.draws.iter().find(|(n, _)| n == name).map(|(_, v)| v.iter().map(|c| if let Cell::F(b) = c { f64::from_bits(*b) } else { f64::NAN }).collect()).unwrap_or_default();
                        let total: usize = shape.iter().product();
                        if vals.len() != total { return Some(("csv.shape".into(), format!("variable {name}: {} recorded cells for shape {:?}", vals.len(), shape))); }
                        for flat in 0..total {
                            let mut rem = flat; let mut idx = vec![0usize; shape.len()];
                            for d in (0..shape.len()).rev() { idx[d] = rem % shape[d]; rem /= shape[d]; }
                            let col = if shape.is_empty() { name.to_string() } else { format!("{name}.{}", idx.iter().map(|i| (i + 1).to_string()).collect::<Vec<_>>().join(".")) };
                            let Some(ci) = header.iter().position(|h| *h == col) else { return Some(("csv.columns".into(), format!("column {col} missing from the header {:?}", header))); };
                            let x = vals[flat];
                            let y: f64 = match f[ci].parse() { Ok(y) => y, Err(_) => return Some(("csv.value".into(), format!("column {col} holds {:?} for the recorded {x}", f[ci]))) };
                            if (x - y).abs() > tol + x.abs() * 1e-15 { return Some(("csv.value".into(), format!("column {col}: printed {} for the recorded cell {x} (flat index {flat} of shape {:?}) at precision {prec}", f[ci], shape))); }
                        }
                    }
                }
                None
            })();
            let _ = std::fs::remove_dir_all(&dir);
            res
        }
    }
}

/// Several chains through the REAL parallel sampler into Zarr, compared with the HashMap backend of the same run (same seed): per-draw
/// statistics and the divergence event arrays of EVERY chain. The chains have different divergence patterns (even chains diverge during
/// warmup, odd chains during sampling), so the event arrays are sized by different chains in the two phases.
pub fn multi_chain_zarr(seed: u64, case: u64, rep: &mut Report, flush_mode: bool) {
    use crate::ctl;
    let mut r = Sm::new(seed, "C14-multi", case);
    let cfg = ctl::Cfg { gen_seed: seed, gen_tier: "quick".into(), preset: 0, seed: r.next() | 1, sched: 0, num_chains: 2 + r.below(2) as usize, num_cores: 2,
        num_tune: 10 + r.below(8), num_draws: 10 + r.below(8), dim: 2, script: vec![], end_abort: false, poll_finish: flush_mode, zero_poll: false, flush_after_finish: flush_mode,
        failure: ctl::Failure::Split { x: 60 + r.below(80), period: 3 + r.below(3) } };
    let settings = || { let mut s = nuts_rs::DiagNutsSettings::default(); s.num_tune = cfg.num_tune; s.num_draws = cfg.num_draws; s.num_chains = cfg.num_chains; s.seed = cfg.seed; s.maxdepth = 4; s.store_divergences = case % 2 == 0; s };
    let replay = json!({"kind": "c14multi", "seed": seed, "case": case, "flush_mode": flush_mode});
    rep.evaluations += 1;
    rep.hit("multi_chain_zarr");
    let reference = ctl::run(&cfg, settings(), HashMapConfig::new(), ctl::hashmap_maps);
    let Some(refmaps) = reference.traces else { rep.notes.push(format!("multi-chain reference run did not finish: {}", reference.result)); return; };
    let store = Arc::new(zarrs::storage::store::MemoryStore::new());
    let chunk = *r.pick(&[3u64, 7, 100]);
    // C15 (flush_mode): once every chain has finished, Sampler::flush() is called and the store is read BEFORE anything is finalised
    let flushed: Arc<std::sync::Mutex<Option<Option<String>>>> = Arc::new(std::sync::Mutex::new(None));
    if flush_mode {
        let (st2, ref2, fl2) = (store.clone(), refmaps.clone(), flushed.clone());
        *ctl::AFTER_FLUSH.lock().unwrap() = Some(Box::new(move || { *fl2.lock().unwrap() = Some(compare_store(st2, &ref2, &mut |_| {})); }));
    }
    let z = ctl::run(&cfg, settings(), ZarrConfig::new(store.clone()).with_chunk_size(chunk), |_| vec![]);
    *ctl::AFTER_FLUSH.lock().unwrap() = None;
    if z.result != "trace" { rep.violation("zarr.multi_chain_run", &format!("parallel run into Zarr ended with '{}'", z.result), replay); return; }
    if flush_mode {
        rep.hit("sampler_flush_after_completion");
        match flushed.lock().unwrap().take() {
            Some(Some(msg)) => { rep.violation("zarr.sampler_flush", &format!("after Sampler::flush() (all chains finished, chunk size {chunk}, nothing finalised): {msg}"), replay.clone()); return; }
            Some(None) => {}
            None => rep.notes.push("flush callback did not run".into()),
        }
    }
    if let Some(msg) = compare_store(store.clone(), &refmaps, &mut |h| rep.hit(h)) { rep.violation("zarr.multi_chain", &msg, replay); }
}

/// every per-draw statistic and the two identifying divergence event statistics of every chain, Zarr store vs HashMap trace of the same run
fn compare_store(store: Arc<zarrs::storage::store::MemoryStore>, refmaps: &[(BTreeMap<String, Vec<Cell>>, BTreeMap<String, Vec<Cell>>)], hit: &mut dyn FnMut(&str)) -> Option<String> {
    let cell_b = |c: &Cell| matches!(c, Cell::B(true));
    for (chain, (st, _dr)) in refmaps.iter().enumerate() {
        let (Some(tun), Some(div)) = (st.get("tuning"), st.get("diverging")) else { continue };
        let n_w = tun.iter().filter(|c| cell_b(c)).count();
        let n_s = tun.len() - n_w;
        let dw = (0..tun.len()).filter(|i| cell_b(&tun[*i]) && cell_b(&div[*i])).count();
        let ds = (0..tun.len()).filter(|i| !cell_b(&tun[*i]) && cell_b(&div[*i])).count();
        if dw > 0 || ds > 0 { hit("multi_chain_zarr.chain_with_divergences"); }
        for (name, cells) in st.iter() {
            // rows per phase: one per draw for the always-present statistics, one per divergence for the two divergence event statistics that every divergence carries (the optional ones hold
            // fill values in Zarr where HashMap holds nothing)
            let (rw, rs) = if name == "divergence_draw" || name == "divergence_message" { (dw, ds) } else if ["logp", "energy", "diverging", "tuning", "depth", "n_steps", "step_size", "energy_error"].contains(&name.as_str()) { (n_w, n_s) } else { continue };
            if rw + rs == 0 { continue; }
            if cells.len() % (rw + rs) != 0 { continue; }
            let per = cells.len() / (rw + rs);
            for (group, start, rows) in [("/warmup_sample_stats", 0usize, rw), ("/sample_stats", rw, rs)] {
                let path = format!("{group}/{name}");
                match zarr_read(store.clone(), &path, chain as u64, rows) {
                    Err(e) => return Some(format!("chain {chain}: {e} (warmup/sampling divergences of this chain: {dw}/{ds})")),
                    Ok((got, _)) => { let flat: Vec<Cell> = got.into_iter().flatten().collect();
                        if flat[..] != cells[start * per..(start + rows) * per] { return Some(format!("chain {chain}: {path} differs from the HashMap trace of the same run")); } }
                }
            }
        }
    }
    None
}

pub fn main(tier: &str, seed: u64, outdir: &str) {
    let mut cases = Cases::new();
    let mut rep = Report::new("C14");
    for case in 0..(if tier == "thorough" { 200 } else { 6 }) { multi_chain_zarr(seed, case, &mut rep, false); }
    let n = if tier == "thorough" { 7000 } else { 84 };
    for case in 0..n {
        let mut r = Sm::new(seed, "C14", case);
        let mut run = gen_cfg(&mut r, case / 7);
        run.num_tune = *r.pick(&[0u64, 1, 2, 7, 8, 15, 23]);
        run.num_draws = *r.pick(&[0u64, 1, 2, 6, 7, 11, 20]);
        run.chain = r.below(run.num_chains as u64);
        if run.fault_period > 0 { run.fault_period = 5 + r.below(12); }
        let backend = (case % 7) as u8;
        let total = (run.num_tune + run.num_draws) as usize;
        // aborted runs: stop after a prefix of the draws
        let stop_after = if case % 5 == 4 && total > 1 { Some(r.below(total as u64) as usize) } else { None };
        rep.evaluations += 1;
        rep.hit(&format!("backend.{}", ["hashmap", "ndarray", "arrow", "arrow_nowarmup", "zarr", "zarr_nowarmup", "csv"][backend as usize]));
        if stop_after.is_some() { rep.hit("aborted_prefix"); }
        if run.num_tune > 0 && run.num_draws > 0 && run.fault_period > 0 { rep.nontrivial += 1; }
        // a panic inside a backend is a violation with a replay, not a crash of the harness
        let outcome = match std::panic::catch_unwind(std::panic::AssertUnwindSafe(|| run_backend(backend, &run, case, stop_after, &mut cases))) {
            Ok(o) => o,
            Err(p) => Some((format!("{}.panic", ["hashmap", "ndarray", "arrow", "arrow", "zarr", "zarr", "csv"][backend as usize]),
                format!("storage backend panicked: {}", p.downcast_ref::<String>().cloned().or_else(|| p.downcast_ref::<&str>().map(|s| s.to_string())).unwrap_or_default()))),
        };
        if let Some((key, what)) = outcome {
            if what.contains("recoverable: true") { rep.hit("skipped.recoverable_error_at_stepsize_reinit(C05)"); }
            else { rep.violation(&key, &what, json!({"kind": "c14", "backend": backend, "run": run.to_json(), "case": case, "stop_after": stop_after})); }
        }
        if case < 2 { rep.sample(json!({"backend": backend, "run": run.to_json(), "stop_after": stop_after})); }
    }
    let _: BTreeMap<u8, u8> = BTreeMap::new();
    cases.write(&format!("{outdir}/C14.cases")).unwrap();
    rep.write(&format!("{outdir}/C14.report.json"));
}

pub fn replay(v: &serde_json::Value) -> bool {
    if v["kind"] == "c14multi" {
        let mut rep = Report::new("replay");
        multi_chain_zarr(v["seed"].as_u64().unwrap_or(0), v["case"].as_u64().unwrap_or(0), &mut rep, v["flush_mode"].as_bool().unwrap_or(false));
        println!("replay: {:?}", rep.violations.iter().map(|v| v["what"].as_str().unwrap_or("").to_string()).collect::<Vec<_>>());
        return !rep.violations.is_empty();
    }
    let run = RunCfg::from_json(&v["run"]);
    let mut cases = Cases::new();
    let r = match std::panic::catch_unwind(std::panic::AssertUnwindSafe(|| run_backend(v["backend"].as_u64().unwrap() as u8, &run, v["case"].as_u64().unwrap(), v["stop_after"].as_u64().map(|x| x as usize), &mut cases))) { Ok(r) => r, Err(_) => Some(("panic".into(), "storage backend panicked".into())) };
    println!("replay: {:?}", r);
    r.is_some()
}
