//! C15 — flushed Zarr traces are complete at every flush point: after EVERY recorded draw k the
//! real backend is flushed and a fresh reader of the store must see every value recorded so far
//! (warmup and sampling arrays, statistics and draws, event arrays), for all chunk sizes relative
//! to the draw counts, in-memory and filesystem stores, sync and async writers.  The per-variable
//! op sequences are also handed to Model/ZarrStore.lean.
use crate::storage::*;
use crate::util::*;
use nuts_rs::verif_hooks::ChainStorage;
use nuts_rs::{ZarrAsyncConfig, ZarrConfig};
use serde_json::json;
use std::sync::Arc;
use zarrs::storage::store::MemoryStore;
use zarrs::storage::ReadableListableStorageTraits;

struct FlushProbe { store: Arc<dyn ReadableListableStorageTraits>, chain: u64, every: usize, checked: u64, flushes: u64 }
impl<CS: ChainStorage> Probe<CS> for FlushProbe {
    fn after_draw(&mut self, k: usize, cs: &CS, recs: &[DrawRecord]) -> Result<(), String> {
        if k % self.every != 0 { return Ok(()); }
        cs.flush().map_err(|e| format!("flush after draw {k} failed: {e:#}"))?;
        self.flushes += 1;
        // a fresh reader of the store sees every draw recorded before this point
        self.checked += zarr_check(self.store.clone(), recs, self.chain, false, false).map_err(|e| format!("after flush at draw {k}: {e}"))?;
        Ok(())
    }
}

#[derive(Clone, Debug)]
pub struct Cfg { pub run: RunCfg, pub chunk: u64, pub backend: u8, pub every: usize }

pub fn run_case(c: &Cfg) -> (Option<(String, String)>, u64, Vec<DrawRecord>) {
    let chain = c.run.chain;
    match c.backend {
        0 => {
            let store = Arc::new(MemoryStore::new());
            let mut probe = FlushProbe { store: store.clone(), chain, every: c.every, checked: 0, flushes: 0 };
            let d = drive(&c.run, ZarrConfig::new(store.clone()).with_chunk_size(c.chunk), &mut probe, None);
            let mut res = d.error.clone().map(|e| ("zarr.flush".to_string(), e));
            if res.is_none() { if let Err(e) = zarr_check(store.clone(), &d.recs, chain, true, false) { res = Some(("zarr.finalize".into(), format!("after finalize: {e}"))); } }
            (res, probe.checked, d.recs)
        }
        1 => {
            let dir = scratch_dir("c15");
            let store = Arc::new(zarrs::filesystem::FilesystemStore::new(&dir).unwrap());
            let mut probe = FlushProbe { store: store.clone(), chain, every: c.every, checked: 0, flushes: 0 };
            let d = drive(&c.run, ZarrConfig::new(store.clone()).with_chunk_size(c.chunk), &mut probe, None);
            let mut res = d.error.clone().map(|e| ("zarr.flush".to_string(), e));
            if res.is_none() {
                // a completely fresh store object on the same directory
                let fresh = Arc::new(zarrs::filesystem::FilesystemStore::new(&dir).unwrap());
                if let Err(e) = zarr_check(fresh, &d.recs, chain, true, false) { res = Some(("zarr.finalize".into(), format!("after finalize (re-opened directory): {e}"))); }
            }
            let _ = std::fs::remove_dir_all(&dir);
            (res, probe.checked, d.recs)
        }
        3 => {
            // async writer over a slow store; the reader looks at the underlying memory store directly
            let rt = tokio::runtime::Builder::new_multi_thread().worker_threads(3).enable_all().build().unwrap();
            let store = Arc::new(zarrs::storage::store::MemoryStore::new());
            let slow = Arc::new(DelayStore { inner: store.clone(), delay: std::time::Duration::from_micros(400), fail_posterior_chunks: None });
            let astore = Arc::new(zarrs::storage::storage_adapter::sync_to_async::SyncToAsyncStorageAdapter::new(slow, TokioSpawnBlocking));
            let mut probe = FlushProbe { store: store.clone(), chain, every: c.every, checked: 0, flushes: 0 };
            let d = drive(&c.run, ZarrAsyncConfig::new(rt.handle().clone(), astore).with_chunk_size(c.chunk), &mut probe, None);
            let mut res = d.error.clone().map(|e| ("zarr_async.flush_slow_store".to_string(), e));
            if res.is_none() { if let Err(e) = zarr_check(store.clone(), &d.recs, chain, true, false) { res = Some(("zarr_async.finalize_slow_store".into(), format!("after finalize: {e}"))); } }
            (res, probe.checked, d.recs)
        }
        _ => {
            let rt = tokio::runtime::Builder::new_multi_thread().worker_threads(3).enable_all().build().unwrap();
            let store = Arc::new(zarrs::storage::store::MemoryStore::new());
            let astore = Arc::new(zarrs::storage::storage_adapter::sync_to_async::SyncToAsyncStorageAdapter::new(store.clone(), TokioSpawnBlocking));
            let mut probe = FlushProbe { store: store.clone(), chain, every: c.every, checked: 0, flushes: 0 };
            let d = drive(&c.run, ZarrAsyncConfig::new(rt.handle().clone(), astore).with_chunk_size(c.chunk), &mut probe, None);
            let mut res = d.error.clone().map(|e| ("zarr_async.flush".to_string(), e));
            if res.is_none() { if let Err(e) = zarr_check(store.clone(), &d.recs, chain, true, false) { res = Some(("zarr_async.finalize".into(), format!("after finalize: {e}"))); } }
            (res, probe.checked, d.recs)
        }
    }
}

/// a store whose writes take time (any write-queue timing): the in-flight chunk writes of the async backend are still pending when
/// `record_sample` returns, so a `flush()` that does not wait for them is seen by the reader that follows it
pub struct DelayStore { pub inner: Arc<MemoryStore>, pub delay: std::time::Duration,
    /// chunk writes of the sampling-phase draw arrays fail (counted) when set
    pub fail_posterior_chunks: Option<Arc<std::sync::atomic::AtomicU64>> }
impl DelayStore {
    fn maybe_fail(&self, key: &zarrs::storage::StoreKey) -> Result<(), zarrs::storage::StorageError> {
        if let Some(c) = &self.fail_posterior_chunks { let k = key.as_str(); if k.starts_with("posterior/") && k.contains("/c/") { c.fetch_add(1, std::sync::atomic::Ordering::SeqCst); return Err(zarrs::storage::StorageError::Other("injected chunk write failure".into())); } }
        Ok(())
    }
}
impl zarrs::storage::ReadableStorageTraits for DelayStore {
    fn get_partial_many<'a>(&'a self, key: &zarrs::storage::StoreKey, byte_ranges: zarrs::storage::byte_range::ByteRangeIterator<'a>) -> Result<zarrs::storage::MaybeBytesIterator<'a>, zarrs::storage::StorageError> { self.inner.get_partial_many(key, byte_ranges) }
    fn size_key(&self, key: &zarrs::storage::StoreKey) -> Result<Option<u64>, zarrs::storage::StorageError> { self.inner.size_key(key) }
    fn supports_get_partial(&self) -> bool { self.inner.supports_get_partial() }
}
impl zarrs::storage::WritableStorageTraits for DelayStore {
    fn set(&self, key: &zarrs::storage::StoreKey, value: zarrs::storage::Bytes) -> Result<(), zarrs::storage::StorageError> { std::thread::sleep(self.delay); self.maybe_fail(key)?; self.inner.set(key, value) }
    fn set_partial_many(&self, key: &zarrs::storage::StoreKey, offset_values: zarrs::storage::OffsetBytesIterator) -> Result<(), zarrs::storage::StorageError> { std::thread::sleep(self.delay); self.maybe_fail(key)?; self.inner.set_partial_many(key, offset_values) }
    fn erase(&self, key: &zarrs::storage::StoreKey) -> Result<(), zarrs::storage::StorageError> { self.inner.erase(key) }
    fn erase_prefix(&self, prefix: &zarrs::storage::StorePrefix) -> Result<(), zarrs::storage::StorageError> { self.inner.erase_prefix(prefix) }
    fn supports_set_partial(&self) -> bool { self.inner.supports_set_partial() }
}
impl zarrs::storage::ListableStorageTraits for DelayStore {
    fn list(&self) -> Result<zarrs::storage::StoreKeys, zarrs::storage::StorageError> { self.inner.list() }
    fn list_prefix(&self, prefix: &zarrs::storage::StorePrefix) -> Result<zarrs::storage::StoreKeys, zarrs::storage::StorageError> { self.inner.list_prefix(prefix) }
    fn list_dir(&self, prefix: &zarrs::storage::StorePrefix) -> Result<zarrs::storage::StoreKeysPrefixes, zarrs::storage::StorageError> { self.inner.list_dir(prefix) }
    fn size_prefix(&self, prefix: &zarrs::storage::StorePrefix) -> Result<u64, zarrs::storage::StorageError> { self.inner.size_prefix(prefix) }
}

pub struct TokioSpawnBlocking;
impl zarrs::storage::storage_adapter::sync_to_async::SyncToAsyncSpawnBlocking for TokioSpawnBlocking {
    fn spawn_blocking<F, R>(&self, f: F) -> impl std::future::Future<Output = R> + Send
    where F: FnOnce() -> R + Send + 'static, R: Send + 'static {
        async move { tokio::task::spawn_blocking(f).await.unwrap() }
    }
}

/// `every`: flush + read back after every draw, every third draw, or (1_000_000) only after draw 0 -- then finalisation alone has to bring the
/// buffered tail of every array into the store
pub fn gen_case(seed: u64, case: u64, tier: &str) -> Cfg {
    let mut r = Sm::new(seed, "C15", case);
    let mut run = gen_cfg(&mut r, case);
    let chunk = *r.pick(&[1u64, 2, 3, 7, 10, 100]);
    run.num_tune = match case % 5 { 0 => 0, 1 => chunk, 2 => chunk + 1, 3 => (2 * chunk).saturating_sub(1).max(1), _ => 5 + r.below(30) }.min(60);
    run.num_draws = match case % 7 { 0 => 0, 1 => 1, 2 => chunk, 3 => chunk + 1, _ => 3 + r.below(25) }.min(60);
    run.chain = r.below(run.num_chains as u64);
    // corpus: a run that ends while still in warmup (num_draws = 0, or aborted there) with a partial chunk in the buffers and no flush after
    // the first draw: finalisation alone has to write the tail, into the WARMUP arrays (seeded change C15-sync-finalize-warmup-stats)
    if case == 2 || case == 3 || case == 4 {
        run.num_tune = 10; run.num_draws = 0;
        return Cfg { run, chunk: 7, backend: [0u8, 1, 2][(case - 2) as usize], every: 1_000_000 };
    }
    // corpus: the async writer over the slow store with flushes exactly at chunk boundaries (chunk 2, flush after every draw; chunk 1)
    if case == 7 || case == 8 {
        run.num_tune = 4; run.num_draws = 4;
        return Cfg { run, chunk: if case == 7 { 2 } else { 1 }, backend: 3, every: 1 };
    }
    Cfg { run, chunk, backend: if tier == "thorough" { if case % 12 == 5 { 3 } else { (case % 3) as u8 } } else { match case % 6 { 0 => 1, 1 => 2, 3 => 3, _ => 0 } }, every: if case % 8 == 5 { 1_000_000 } else if case % 4 == 3 { 3 } else { 1 } }
}

/// op sequences for the Lean model: one record per (variable, chunk size) with values abstracted to their position
fn model_lines(c: &Cfg, recs: &[DrawRecord], case: u64, cases: &mut Cases) {
    // variables: one always-present statistic and the event statistics
    for var in ["logp", "divergence_draw", "transformation_update_id"] {
        let mut toks = vec![];
        for (k, r) in recs.iter().enumerate() {
            let present = r.stats.iter().find(|(n, _)| n == var).map(|(_, v)| v.is_some()).unwrap_or(false);
            toks.push(format!("r {} {}", r.tuning as u8, present as u8));
            if k % c.every == 0 { toks.push("f".into()); }
        }
        cases.line(&format!("zops {case} {var} {} {} {}", c.chunk, toks.len(), toks.join(" ")));
    }
}

pub fn main(tier: &str, seed: u64, outdir: &str) {
    let mut cases = Cases::new();
    let mut rep = Report::new("C15");
    let n = if tier == "thorough" { 1600 } else { 70 };
    for case in 0..n {
        let c = gen_case(seed, case, tier);
        let (res, checked, recs) = run_case(&c);
        rep.evaluations += recs.len() as u64;
        if checked > 0 && c.run.num_tune % c.chunk != 0 { rep.nontrivial += 1; }
        rep.hit(&format!("backend{}.chunk{}", c.backend, c.chunk));
        rep.hit(&format!("tune_vs_chunk.{}", if c.run.num_tune == 0 { "zero" } else if c.run.num_tune < c.chunk { "smaller" } else if c.run.num_tune % c.chunk == 0 { "multiple" } else { "not_dividing" }));
        if let Some((key, what)) = res {
            if what.contains("recoverable: true") { rep.hit("skipped.recoverable_error_at_stepsize_reinit(C05)"); }
            else { rep.violation(&key, &what, json!({"kind": "c15", "run": c.run.to_json(), "chunk": c.chunk, "backend": c.backend, "every": c.every})); }
        }
        model_lines(&c, &recs, case, &mut cases);
        if case < 2 { rep.sample(json!({"run": c.run.to_json(), "chunk": c.chunk, "backend": c.backend, "flush_every": c.every, "values_read_back": checked})); }
    }
    // Sampler::flush() of the real parallel sampler after every chain has finished and before finalisation (several chains, chunk sizes
    // that do not divide the draw counts): the store must already hold everything (shared with C14's multi-chain comparison)
    for case in 0..(if tier == "thorough" { 120 } else { 5 }) { rep.evaluations += 1; crate::c14::multi_chain_zarr(seed ^ 0xC15, case, &mut rep, true); }
    cases.write(&format!("{outdir}/C15.cases")).unwrap();
    rep.write(&format!("{outdir}/C15.report.json"));
}

pub fn replay(v: &serde_json::Value) -> bool {
    if v["kind"] == "c14multi" { return crate::c14::replay(v); }
    let c = Cfg { run: RunCfg::from_json(&v["run"]), chunk: v["chunk"].as_u64().unwrap(), backend: v["backend"].as_u64().unwrap() as u8, every: v["every"].as_u64().unwrap() as usize };
    let (res, checked, _) = run_case(&c);
    println!("replay: {:?} ({checked} values read back)", res);
    res.is_some()
}
