//! A scripted Hamiltonian: the trajectory lives on an integer-indexed orbit whose energies,
//! U-turn verdicts and leapfrog failures are given by tables.  Implements the crate's own
//! `Hamiltonian` / `Point` traits (hook re-exports), so the *real* `nuts::draw` and
//! `stepsize::Strategy::init` run against it; every call is logged for the Lean model.
use std::cell::RefCell;
use std::collections::HashMap;
use std::rc::Rc;

use nuts_rs::verif_hooks::*;
use nuts_rs::{CpuLogpFunc, CpuMath, CpuMathError, LogpError, Math};
use nuts_storable::HasDims;

#[derive(Debug)]
pub struct MockErr(pub bool);
impl std::fmt::Display for MockErr {
    fn fmt(&self, f: &mut std::fmt::Formatter<'_>) -> std::fmt::Result {
        write!(f, "mock logp error (recoverable={})", self.0)
    }
}
impl std::error::Error for MockErr {}
impl LogpError for MockErr {
    fn is_recoverable(&self) -> bool {
        self.0
    }
}

/// A density that is never evaluated (the mock Hamiltonian does not call it).
#[derive(Clone)]
pub struct Dummy(pub usize);
impl HasDims for Dummy {
    fn dim_sizes(&self) -> HashMap<String, u64> {
        HashMap::from([("unconstrained_parameter".to_string(), self.0 as u64)])
    }
}
impl CpuLogpFunc for Dummy {
    type LogpError = MockErr;
    type FlowParameters = ();
    type ExpandedVector = Vec<f64>;
    fn dim(&self) -> usize {
        self.0
    }
    fn logp(&mut self, _p: &[f64], _g: &mut [f64]) -> Result<f64, MockErr> {
        panic!("mock: density must not be evaluated")
    }
    fn expand_vector<R: rand::Rng + ?Sized>(&mut self, _r: &mut R, a: &[f64]) -> Result<Vec<f64>, CpuMathError> {
        Ok(a.to_vec())
    }
}
pub type MMath = CpuMath<Dummy>;

#[derive(Debug, nuts_derive::Storable)]
pub struct NoStats {
    pub mock: u64,
}

pub struct MockPoint {
    pub idx: i64,
    pub abs: i64,
    pub energy: f64,
    pub initial_energy: f64,
    pos: <MMath as Math>::Vector,
    grad: <MMath as Math>::Vector,
}
impl std::fmt::Debug for MockPoint {
    fn fmt(&self, f: &mut std::fmt::Formatter<'_>) -> std::fmt::Result {
        write!(f, "MockPoint({}, abs {})", self.idx, self.abs)
    }
}
impl SamplerStats<MMath> for MockPoint {
    type Stats = NoStats;
    type StatsOptions = ();
    fn extract_stats(&self, _m: &mut MMath, _o: ()) -> NoStats {
        NoStats { mock: 0 }
    }
}
impl Point<MMath> for MockPoint {
    fn position(&self) -> &<MMath as Math>::Vector {
        &self.pos
    }
    fn gradient(&self) -> &<MMath as Math>::Vector {
        &self.grad
    }
    fn index_in_trajectory(&self) -> i64 {
        self.idx
    }
    fn energy(&self) -> f64 {
        self.energy
    }
    fn logp(&self) -> f64 {
        -self.energy
    }
    fn initial_energy(&self) -> f64 {
        self.initial_energy
    }
    fn new(math: &mut MMath) -> Self {
        MockPoint { idx: 0, abs: 0, energy: 0.0, initial_energy: 0.0, pos: math.new_array(), grad: math.new_array() }
    }
    fn copy_into(&self, math: &mut MMath, other: &mut Self) {
        other.idx = self.idx;
        other.abs = self.abs;
        other.energy = self.energy;
        other.initial_energy = self.initial_energy;
        math.copy_into(&self.pos, &mut other.pos);
        math.copy_into(&self.grad, &mut other.grad);
    }
}

#[derive(Clone, Copy, Debug, PartialEq)]
pub enum Fault {
    Recoverable,
    Unrecoverable,
}

/// Script of the orbit in absolute indices.
pub struct Orbit {
    pub energy: Box<dyn Fn(i64) -> f64>,
    pub turning: Box<dyn Fn(i64, i64) -> bool>,
    pub fault: HashMap<i64, Fault>,
}

#[derive(Clone, Debug)]
pub enum Ev {
    /// leapfrog from relative index `src` to `dst`; outcome 0 ok, 1 divergence, 2 error; energy error of dst
    Leap { src: i64, dst: i64, outcome: u8, energy_err: f64, step: f64, dir_fwd: bool },
    Turn { a: i64, b: i64, res: bool },
    Init { energy: f64 },
}

pub struct MockHam {
    pub orbit: Orbit,
    pub origin: i64,
    pub step_size: f64,
    /// when set, the orbit is re-scaled by the step size: used by the step-size search where the
    /// energy of the state reached in ONE step depends on (direction, step size)
    pub one_step_energy: Option<Box<dyn Fn(bool, f64) -> Option<f64>>>,
    pool: StatePool<MMath, MockPoint>,
    pub log: Rc<RefCell<Vec<Ev>>>,
}

impl SamplerStats<MMath> for MockHam {
    type Stats = NoStats;
    type StatsOptions = ();
    fn extract_stats(&self, _m: &mut MMath, _o: ()) -> NoStats {
        NoStats { mock: 1 }
    }
}

impl MockHam {
    pub fn new(math: &mut MMath, orbit: Orbit, origin: i64) -> MockHam {
        MockHam { orbit, origin, step_size: 1.0, one_step_energy: None, pool: StatePool::new(math, 10), log: Rc::new(RefCell::new(Vec::new())) }
    }
    pub fn start_state(&mut self, math: &mut MMath) -> State<MMath, MockPoint> {
        let mut s = self.pool.new_state(math);
        let p = s.try_point_mut().unwrap();
        p.idx = 0;
        p.abs = self.origin;
        p.energy = (self.orbit.energy)(self.origin);
        p.initial_energy = p.energy;
        s
    }
}

impl Hamiltonian<MMath> for MockHam {
    type Point = MockPoint;

    fn leapfrog<C: Collector<MMath, MockPoint>>(
        &mut self,
        math: &mut MMath,
        start: &State<MMath, MockPoint>,
        dir: Direction,
        _step_size_factor: f64,
        energy_baseline: f64,
        max_energy_error: f64,
        collector: &mut C,
    ) -> LeapfrogResult<MMath, MockPoint> {
        let sign = match dir { Direction::Forward => 1, Direction::Backward => -1 };
        let fwd = sign == 1;
        let mut out = self.pool.new_state(math);
        let src = start.point().idx;
        let abs = start.point().abs + sign;
        let op = out.try_point_mut().expect("fresh state");
        op.initial_energy = start.point().initial_energy;
        op.idx = src + sign;
        op.abs = abs;
        let mk_info = |e: Option<f64>, err: bool| DivergenceInfo {
            start_momentum: None, start_location: None, start_gradient: None, end_location: None,
            energy_error: e, end_idx_in_trajectory: if err { None } else { Some(src + sign) }, start_idx_in_trajectory: Some(src),
            logp_function_error: if err { Some(std::sync::Arc::new(MockErr(true))) } else { None },
        };
        let energy = if let Some(f) = &self.one_step_energy {
            match f(fwd, self.step_size) {
                Some(e) => e,
                None => {
                    let info = mk_info(None, true);
                    self.log.borrow_mut().push(Ev::Leap { src, dst: src + sign, outcome: 1, energy_err: f64::NAN, step: self.step_size, dir_fwd: fwd });
                    collector.register_leapfrog(math, start, &out, Some(&info));
                    return LeapfrogResult::Divergence(info);
                }
            }
        } else {
            match self.orbit.fault.get(&abs) {
                Some(Fault::Unrecoverable) => {
                    self.log.borrow_mut().push(Ev::Leap { src, dst: src + sign, outcome: 2, energy_err: f64::NAN, step: self.step_size, dir_fwd: fwd });
                    return LeapfrogResult::Err(MockErr(false));
                }
                Some(Fault::Recoverable) => {
                    let info = mk_info(None, true);
                    self.log.borrow_mut().push(Ev::Leap { src, dst: src + sign, outcome: 1, energy_err: f64::NAN, step: self.step_size, dir_fwd: fwd });
                    collector.register_leapfrog(math, start, &out, Some(&info));
                    return LeapfrogResult::Divergence(info);
                }
                None => (self.orbit.energy)(abs),
            }
        };
        op.energy = energy;
        let energy_error = energy - energy_baseline;
        if (energy_error > max_energy_error) | !energy_error.is_finite() {
            let info = mk_info(Some(energy_error), false);
            self.log.borrow_mut().push(Ev::Leap { src, dst: src + sign, outcome: 1, energy_err: energy_error, step: self.step_size, dir_fwd: fwd });
            collector.register_leapfrog(math, start, &out, Some(&info));
            return LeapfrogResult::Divergence(info);
        }
        self.log.borrow_mut().push(Ev::Leap { src, dst: src + sign, outcome: 0, energy_err: out.point().energy_error(), step: self.step_size, dir_fwd: fwd });
        collector.register_leapfrog(math, start, &out, None);
        LeapfrogResult::Ok(out)
    }

    fn is_turning(&self, _math: &mut MMath, s1: &State<MMath, MockPoint>, s2: &State<MMath, MockPoint>) -> bool {
        let (a, b) = (s1.point(), s2.point());
        let (lo, hi) = if a.idx < b.idx { (a.abs, b.abs) } else { (b.abs, a.abs) };
        let res = (self.orbit.turning)(lo, hi);
        self.log.borrow_mut().push(Ev::Turn { a: a.idx, b: b.idx, res });
        res
    }

    fn init_state(&mut self, math: &mut MMath, _init: &[f64]) -> Result<State<MMath, MockPoint>, NutsError> {
        Ok(self.start_state(math))
    }

    fn init_state_untransformed(&mut self, math: &mut MMath, _init: &[f64]) -> Result<State<MMath, MockPoint>, NutsError> {
        Ok(self.start_state(math))
    }

    fn initialize_trajectory<R: rand::Rng + ?Sized>(
        &self,
        _math: &mut MMath,
        state: &mut State<MMath, MockPoint>,
        _resample: bool,
        _rng: &mut R,
    ) -> Result<(), NutsError> {
        let p = state.try_point_mut().expect("State has other references");
        p.idx = 0;
        p.initial_energy = p.energy;
        self.log.borrow_mut().push(Ev::Init { energy: p.energy });
        Ok(())
    }

    fn pool(&mut self) -> &mut StatePool<MMath, MockPoint> {
        &mut self.pool
    }

    fn copy_state(&mut self, math: &mut MMath, state: &State<MMath, MockPoint>) -> State<MMath, MockPoint> {
        self.pool.copy_state(math, state)
    }

    fn step_size(&self) -> f64 {
        self.step_size
    }
    fn step_size_mut(&mut self) -> &mut f64 {
        &mut self.step_size
    }
}

/// RNG whose output is read from a tape and whose every use is logged.
pub struct ScriptRng {
    pub tape: Vec<u64>,
    pub pos: usize,
    pub exhausted: bool,
}
impl ScriptRng {
    pub fn new(tape: Vec<u64>) -> ScriptRng {
        ScriptRng { tape, pos: 0, exhausted: false }
    }
    fn word(&mut self) -> u64 {
        if self.pos < self.tape.len() {
            self.pos += 1;
            self.tape[self.pos - 1]
        } else {
            self.exhausted = true;
            self.pos += 1;
            0
        }
    }
}
impl rand::rand_core::TryRng for ScriptRng {
    type Error = std::convert::Infallible;
    fn try_next_u32(&mut self) -> Result<u32, Self::Error> {
        Ok((self.word() >> 32) as u32)
    }
    fn try_next_u64(&mut self) -> Result<u64, Self::Error> {
        Ok(self.word())
    }
    fn try_fill_bytes(&mut self, dst: &mut [u8]) -> Result<(), Self::Error> {
        for c in dst.chunks_mut(8) {
            let w = self.word().to_le_bytes();
            c.copy_from_slice(&w[..c.len()]);
        }
        Ok(())
    }
}
