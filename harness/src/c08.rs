//! C08 — mass-matrix adaptation.
//!  A. the real estimators (`DiagAdaptStrategy`, `LowRankMassMatrixStrategy`) and transformations driven
//!     directly through the hook `EstimatorProbe` with synthetic windows: exact Gaussian windows
//!     (condition number up to 1e12) and degenerate windows (constant, zero, huge, tiny, NaN, infinite
//!     entries).  Diagonal runs are replayed bit for bit by Model/MassMatrix.lean.
//!  B. real chains (public API) on Gaussian targets: after adaptation gradient = -position in the
//!     whitened space (`fisher_distance`).
use crate::targets::*;
use crate::util::*;
use nuts_rs::verif_hooks::{new_diag_matrix, new_lowrank_matrix, DiagAdaptStrategy, EstimatorProbe, LowRankMassMatrixStrategy, StatsDims};
use nuts_rs::{Chain, CpuMath, DiagAdaptExpSettings, DiagNutsSettings, LowRankNutsSettings, LowRankSettings, Settings, Storable, Value};
use rand::SeedableRng;
use serde_json::json;

#[derive(Clone, Debug)]
pub enum Op { Init(Vec<f64>, Vec<f64>), Add(bool, Vec<f64>, Vec<f64>), Switch, Adapt }

#[derive(Clone, Debug)]
pub struct Scenario { pub dim: usize, pub lowrank: bool, pub gaussian: Option<(Vec<f64>, Vec<f64>)>, pub ops: Vec<Op> }

fn fj(v: &[f64]) -> serde_json::Value { json!(v.iter().map(|x| x.to_bits().to_string()).collect::<Vec<_>>()) }
fn jf(v: &serde_json::Value) -> Vec<f64> { v.as_array().unwrap().iter().map(|x| f64::from_bits(x.as_str().unwrap().parse::<u64>().unwrap())).collect() }

impl Scenario {
    pub fn to_json(&self) -> serde_json::Value {
        json!({"dim": self.dim, "lowrank": self.lowrank, "gaussian": self.gaussian.as_ref().map(|(m, s)| json!([fj(m), fj(s)])),
            "ops": self.ops.iter().map(|o| match o { Op::Init(p, g) => json!(["init", fj(p), fj(g)]), Op::Add(b, p, g) => json!(["add", b, fj(p), fj(g)]), Op::Switch => json!(["switch"]), Op::Adapt => json!(["adapt"]) }).collect::<Vec<_>>()})
    }
    pub fn from_json(v: &serde_json::Value) -> Scenario {
        Scenario { dim: v["dim"].as_u64().unwrap() as usize, lowrank: v["lowrank"].as_bool().unwrap(),
            gaussian: if v["gaussian"].is_null() { None } else { Some((jf(&v["gaussian"][0]), jf(&v["gaussian"][1]))) },
            ops: v["ops"].as_array().unwrap().iter().map(|o| match o[0].as_str().unwrap() { "init" => Op::Init(jf(&o[1]), jf(&o[2])), "add" => Op::Add(o[1].as_bool().unwrap(), jf(&o[2]), jf(&o[3])), "switch" => Op::Switch, _ => Op::Adapt }).collect() }
    }
}

/// scales after an adapt: (changed, stds, inv_stds, mean, logdet, sqrt-eigenvalues of the low-rank part)
pub struct AdaptOut { pub changed: bool, pub stds: Vec<f64>, pub inv: Vec<f64>, pub mean: Vec<f64>, pub logdet: f64, pub eig_sqrt: Vec<f64>, pub eig_sqrt_inv: Vec<f64> }

pub fn run_scenario(sc: &Scenario) -> Result<Vec<AdaptOut>, String> {
    let res = std::panic::catch_unwind(std::panic::AssertUnwindSafe(|| {
        let mut math = CpuMath::new(Target::iso(sc.dim, 0.0, 1.0));
        let mut outs = vec![];
        if sc.lowrank {
            let m = new_lowrank_matrix(&mut math, LowRankSettings::default());
            let mut p: EstimatorProbe<_, LowRankMassMatrixStrategy> = EstimatorProbe::new(&mut math, LowRankSettings::default(), m);
            for op in &sc.ops {
                match op {
                    Op::Init(x, g) => { p.init(&mut math, x, g).map_err(|e| format!("init: {e}"))?; }
                    Op::Add(b, x, g) => p.add(&mut math, x, g, *b),
                    Op::Switch => p.switch(&mut math),
                    Op::Adapt => {
                        let changed = p.adapt(&mut math);
                        let ((stds, inv, mean, _ld, _id), logdet, _id2, inner) = p.matrix.verif_fields(&mut math);
                        let (es, ei) = inner.map(|(a, b, _, _)| (a.to_vec(), b.to_vec())).unwrap_or_default();
                        outs.push(AdaptOut { changed, stds: stds.to_vec(), inv: inv.to_vec(), mean: mean.to_vec(), logdet, eig_sqrt: es, eig_sqrt_inv: ei });
                    }
                }
            }
        } else {
            let m = new_diag_matrix(&mut math);
            let mut p: EstimatorProbe<_, DiagAdaptStrategy<_>> = EstimatorProbe::new(&mut math, DiagAdaptExpSettings::default(), m);
            for op in &sc.ops {
                match op {
                    Op::Init(x, g) => { p.init(&mut math, x, g).map_err(|e| format!("init: {e}"))?; }
                    Op::Add(b, x, g) => p.add(&mut math, x, g, *b),
                    Op::Switch => p.switch(&mut math),
                    Op::Adapt => {
                        let changed = p.adapt(&mut math);
                        let (stds, inv, mean, logdet, _id) = p.matrix.verif_fields(&mut math);
                        outs.push(AdaptOut { changed, stds: stds.to_vec(), inv: inv.to_vec(), mean: mean.to_vec(), logdet, eig_sqrt: vec![], eig_sqrt_inv: vec![] });
                    }
                }
            }
        }
        Ok(outs)
    }));
    match res { Ok(r) => r, Err(p) => Err(format!("panic: {}", p.downcast_ref::<String>().cloned().or_else(|| p.downcast_ref::<&str>().map(|s| s.to_string())).unwrap_or_default())) }
}

const SPECIALS: [f64; 12] = [0.0, -0.0, 1.0, -1.0, 1e300, -1e300, 1e-300, 5e-324, f64::NAN, f64::INFINITY, f64::NEG_INFINITY, 1e160];

pub fn gen_scenario(r: &mut Sm, case: u64, tier: &str, lowrank: bool) -> Scenario {
    let maxd = if lowrank { 12 } else if tier == "thorough" { 50 } else { 16 };
    let dim = 1 + r.below(maxd) as usize;
    let gaussian = case % 2 == 0;
    let mut ops = vec![];
    if gaussian {
        // exact Gaussian window; condition number up to 1e12
        let logc = r.range(0.0, 6.0);
        // location in units of the standard deviation: ordinary, or far from the origin (|mean|/sd up to 1e7)
        let far = (case / 6) % 2 == 1;
        let mu: Vec<f64> = (0..dim).map(|_| if far { r.range(-1.0, 1.0) * 10f64.powf(r.range(2.0, 7.0)) } else { r.range(-3.0, 3.0) }).collect();
        let sd: Vec<f64> = (0..dim).map(|_| 10f64.powf(r.range(-logc, logc))).collect();
        let point = |r: &mut Sm| -> (Vec<f64>, Vec<f64>) {
            let x: Vec<f64> = (0..dim).map(|i| mu[i] * sd[i] + sd[i] * r.normal()).collect();
            let g: Vec<f64> = (0..dim).map(|i| -(x[i] - mu[i] * sd[i]) / (sd[i] * sd[i])).collect();
            (x, g)
        };
        let (x, g) = point(r); ops.push(Op::Init(x, g)); ops.push(Op::Adapt);
        let rounds = 1 + r.below(3);
        for _ in 0..rounds {
            let n = 2 + r.below(if lowrank { 3 * dim as u64 + 4 } else { 12 });
            for _ in 0..n { let (x, g) = point(r); ops.push(Op::Add(r.below(5) != 0, x, g)); }
            if r.below(3) == 0 { ops.push(Op::Switch); let (x, g) = point(r); ops.push(Op::Add(true, x, g)); }
            ops.push(Op::Adapt);
        }
        let mean: Vec<f64> = (0..dim).map(|i| mu[i] * sd[i]).collect();
        Scenario { dim, lowrank, gaussian: Some((mean, sd)), ops }
    } else {
        // degenerate windows
        let style: Vec<u8> = (0..dim).map(|_| r.below(6) as u8).collect(); // per coordinate: 0 random, 1 constant draw, 2 zero grad, 3 specials, 4 huge, 5 constant both
        let cst: Vec<f64> = (0..dim).map(|_| r.range(-2.0, 2.0)).collect();
        let point = |r: &mut Sm| -> (Vec<f64>, Vec<f64>) {
            let mut x = vec![0.0; dim]; let mut g = vec![0.0; dim];
            for i in 0..dim {
                match style[i] {
                    0 => { x[i] = r.normal(); g[i] = -x[i]; }
                    1 => { x[i] = cst[i]; g[i] = r.normal(); }
                    2 => { x[i] = r.normal(); g[i] = 0.0; }
                    3 => { x[i] = if r.below(3) == 0 { *r.pick(&SPECIALS) } else { r.normal() }; g[i] = if r.below(3) == 0 { *r.pick(&SPECIALS) } else { r.normal() }; }
                    4 => { x[i] = r.normal() * 1e200; g[i] = r.normal() * 1e-200; }
                    _ => { x[i] = cst[i]; g[i] = cst[i]; }
                }
            }
            (x, g)
        };
        // the start point must be acceptable to `init` only for finite gradients; use a benign one half of the time
        let (x0, g0) = if r.coin() { ((0..dim).map(|_| r.normal()).collect(), (0..dim).map(|_| r.normal()).collect()) } else { point(r) };
        ops.push(Op::Init(x0, g0)); ops.push(Op::Adapt);
        let rounds = 1 + r.below(4);
        for _ in 0..rounds {
            let n = r.below(10);
            for _ in 0..n { let (x, g) = point(r); ops.push(Op::Add(r.below(4) != 0, x, g)); }
            if r.below(3) == 0 { ops.push(Op::Switch); }
            ops.push(Op::Adapt);
        }
        Scenario { dim, lowrank, gaussian: None, ops }
    }
}

/// direct oracle on the real estimator
pub fn oracle(sc: &Scenario, outs: &[AdaptOut]) -> Option<(String, String)> {
    let kind = if sc.lowrank { "lowrank" } else { "diag" };
    // replay which samples are in the foreground window at each adapt
    let mut fg: Vec<(Vec<f64>, Vec<f64>)> = vec![]; let mut bg: Vec<(Vec<f64>, Vec<f64>)> = vec![]; let mut k = 0; let mut bg_split = 0usize;
    for op in &sc.ops {
        match op {
            Op::Init(x, g) => { fg.push((x.clone(), g.clone())); bg.push((x.clone(), g.clone())); }
            Op::Add(true, x, g) => { fg.push((x.clone(), g.clone())); bg.push((x.clone(), g.clone())); }
            Op::Add(false, _, _) => {}
            Op::Switch => { if sc.lowrank { fg.drain(..bg_split); bg_split = fg.len(); bg.clear(); } else { fg = std::mem::take(&mut bg); } }
            Op::Adapt => {
                let o = &outs[k]; k += 1;
                for c in 0..sc.dim {
                    if !(o.stds[c].is_finite() && o.stds[c] > 0.0 && o.inv[c].is_finite() && o.inv[c] > 0.0) {
                        return Some((format!("{kind}.degenerate_scale"), format!("adapt #{k}: coordinate {c} has std {} and 1/std {} (window of {} draws)", o.stds[c], o.inv[c], fg.len())));
                    }
                }
                if !o.logdet.is_finite() { return Some((format!("{kind}.logdet"), format!("adapt #{k}: log-determinant {}", o.logdet))); }
                for (j, e) in o.eig_sqrt.iter().enumerate() { if !(e.is_finite() && *e > 0.0 && o.eig_sqrt_inv[j].is_finite() && o.eig_sqrt_inv[j] > 0.0) { return Some((format!("{kind}.degenerate_eigenvalue"), format!("adapt #{k}: sqrt eigenvalue {j} is {e} (inverse {})", o.eig_sqrt_inv[j]))); } }
                // invalid estimates leave the previous value in place: a coordinate whose window is constant (zero variance of the
                // draws or of the gradients) keeps its scale bit for bit
                if !sc.lowrank && k >= 2 && fg.len() >= 3 {
                    let prev = &outs[k - 2];
                    for c in 0..sc.dim {
                        let cx = fg.iter().all(|(x, _)| x[c].is_finite() && x[c].to_bits() == fg[0].0[c].to_bits());
                        let cg = fg.iter().all(|(_, g)| g[c].is_finite() && g[c].to_bits() == fg[0].1[c].to_bits());
                        let other_finite = fg.iter().all(|(x, g)| x[c].is_finite() && g[c].is_finite());
                        if (cx || cg) && other_finite && (o.stds[c].to_bits() != prev.stds[c].to_bits() || o.inv[c].to_bits() != prev.inv[c].to_bits()) {
                            return Some(("diag.invalid_not_kept".into(), format!("adapt #{k}: coordinate {c} has a constant {} window (zero variance) but its scale changed from {} to {}", if cx { "draw" } else { "gradient" }, prev.stds[c], o.stds[c])));
                        }
                    }
                }
                if fg.len() < 3 && o.changed { return Some((format!("{kind}.early_change"), format!("adapt #{k} changed the transformation with {} samples", fg.len()))); }
                if let Some((mean, sd)) = &sc.gaussian {
                    if fg.len() >= 3 {
                        if !o.changed { return Some((format!("{kind}.no_update"), format!("adapt #{k}: {} samples but no update", fg.len()))); }
                        for c in 0..sc.dim {
                            // conditioning of the variance ratio: |mean| / sd
                            // the draws themselves are rounded to eps*|mean|, i.e. relative to sd by eps*|mean|/sd; everything else is O(n eps)
                            let tol = 2e-12 * (1.0 + mean[c].abs() / sd[c]) * (fg.len() as f64);
                            if ((o.stds[c] - sd[c]) / sd[c]).abs() > tol { return Some((format!("{kind}.gaussian_scale"), format!("adapt #{k}: coordinate {c} std {} but the Gaussian has {} ({} samples, |mean|/sd = {:.3e})", o.stds[c], sd[c], fg.len(), mean[c].abs() / sd[c]))); }
                            if ((o.mean[c] - mean[c]) / sd[c]).abs() > tol * 10.0 { return Some((format!("{kind}.gaussian_mean"), format!("adapt #{k}: coordinate {c} mean {} but the Gaussian has {} (std {})", o.mean[c], mean[c], sd[c]))); }
                        }
                    }
                }
            }
        }
    }
    None
}

fn emit(cases: &mut Cases, case: u64, sc: &Scenario, outs: &[AdaptOut]) {
    let mut lb = LineB::new("diag").u(case).u(sc.dim as u64).u(sc.ops.len() as u64);
    let mut k = 0;
    for op in &sc.ops {
        match op {
            Op::Init(x, g) => { lb = lb.u(0).fs(x).fs(g); }
            Op::Add(b, x, g) => { lb = lb.u(1).u(*b as u64).fs(x).fs(g); }
            Op::Switch => { lb = lb.u(2); }
            Op::Adapt => { let o = &outs[k]; k += 1; lb = lb.u(3).u(o.changed as u64).fs(&o.stds).fs(&o.inv).fs(&o.mean); }
        }
    }
    cases.line(&lb.0);
}

// ------------------------------------------------------------------------------------- part B
#[derive(Clone, Debug)]
pub struct ChainCfg { pub lowrank: bool, pub dim: usize, pub logc: f64, pub rho: f64, pub num_tune: u64, pub seed: u64,
    /// != 0: the target is D C D with C the identity except a correlation `pair` between the first two coordinates, and the DEFAULT eigenvalue
    /// cut-off (2.0) is used: the two non-unit eigenvalues of the rescaled covariance lie on either side of 1, outside [1/2, 2]
    pub pair: f64 }
impl ChainCfg {
    pub fn to_json(&self) -> serde_json::Value { json!({"lowrank": self.lowrank, "dim": self.dim, "logc": self.logc, "rho": self.rho, "num_tune": self.num_tune, "seed": self.seed.to_string(), "pair": self.pair}) }
    pub fn from_json(v: &serde_json::Value) -> ChainCfg { ChainCfg { lowrank: v["lowrank"].as_bool().unwrap(), dim: v["dim"].as_u64().unwrap() as usize, logc: v["logc"].as_f64().unwrap(), rho: v["rho"].as_f64().unwrap(), num_tune: v["num_tune"].as_u64().unwrap(), seed: v["seed"].as_str().unwrap().parse().unwrap() , pair: v["pair"].as_f64().unwrap_or(0.0) } }
    pub fn target(&self) -> Target {
        let mut r = Sm::new(self.seed, "C08T", 0);
        let d = self.dim;
        let sd: Vec<f64> = (0..d).map(|_| 10f64.powf(r.range(-self.logc, self.logc))).collect();
        // every third target sits far from the origin (|mean|/sd up to 1e6)
        let far = self.seed % 3 == 0;
        let mu: Vec<f64> = (0..d).map(|i| r.range(-2.0, 2.0) * sd[i] * if far { 10f64.powf(r.range(2.0, 6.0)) } else { 1.0 }).collect();
        if !self.lowrank { return Target::new(Kind::Diag { mu, sigma: sd }, d); }
        if self.pair != 0.0 && d >= 2 {
            // precision D^-1 C^-1 D^-1 with C^-1 = 1/(1 - p^2) [[1, -p], [-p, 1]] on the first two coordinates
            let p = self.pair;
            let mut prec = vec![0.0; d * d];
            for i in 0..d { prec[i * d + i] = 1.0 / (sd[i] * sd[i]); }
            let q = 1.0 / (1.0 - p * p);
            prec[0] = q / (sd[0] * sd[0]); prec[d + 1] = q / (sd[1] * sd[1]); prec[1] = -p * q / (sd[0] * sd[1]); prec[d] = prec[1];
            return Target::new(Kind::Dense { mu, prec }, d);
        }
        // covariance D (I + rho u u^T) D, precision D^-1 (I - rho/(1 + rho |u|^2) u u^T) D^-1
        let u: Vec<f64> = (0..d).map(|_| r.normal()).collect();
        let n2: f64 = u.iter().map(|x| x * x).sum();
        let k = self.rho / (1.0 + self.rho * n2);
        let mut prec = vec![0.0; d * d];
        for i in 0..d { for j in 0..d { prec[i * d + j] = ((if i == j { 1.0 } else { 0.0 }) - k * u[i] * u[j]) / (sd[i] * sd[j]); } }
        Target::new(Kind::Dense { mu, prec }, d)
    }
}

/// (max fisher_distance over the post-warmup draws, relative to 1 + |y|^2; number of post-warmup draws; error)
pub fn run_chain(cfg: &ChainCfg) -> Result<(f64, u64, u64), String> {
    macro_rules! go { ($s:expr) => {{
        let mut s = $s; s.num_tune = cfg.num_tune; s.num_draws = 30; s.store_transformed = true; s.maxdepth = 6;
        let math = CpuMath::new(cfg.target());
        let mut rng = rand::rngs::ChaCha8Rng::seed_from_u64(cfg.seed);
        let mut chain = s.new_chain(0, math, &mut rng);
        let start: Vec<f64> = { let t = cfg.target(); match &t.kind { Kind::Diag { mu, sigma } => (0..cfg.dim).map(|i| mu[i] + 0.7 * sigma[i]).collect(), Kind::Dense { mu, .. } => mu.iter().map(|m| m + 0.3).collect(), _ => vec![0.1; cfg.dim] } };
        chain.set_position(&start).map_err(|e| format!("set_position: {e}"))?;
        let mut worst = 0.0f64; let mut n = 0; let mut div = 0;
        for _ in 0..(cfg.num_tune + 30) {
            let (_p, _e, mut stats, progress) = chain.expanded_draw().map_err(|e| format!("draw: {e}"))?;
            if progress.tuning { continue; }
            let dims = { let m = chain.math(); StatsDims::from(&*m) };
            let mut fd = f64::NAN; let mut y2 = 0.0;
            for (name, v) in stats.get_all(&dims) {
                match (name, v) { ("fisher_distance", Some(Value::ScalarF64(x))) => fd = x, ("transformed_position", Some(Value::F64(y))) => y2 = y.iter().map(|a| a * a).sum(), _ => {} }
            }
            if progress.diverging { div += 1; }
            worst = worst.max(fd / (1.0 + y2)); if fd.is_nan() { worst = f64::NAN; }
            n += 1;
        }
        Ok((worst, n, div))
    }}; }
    if cfg.lowrank { let mut s = LowRankNutsSettings::default(); if cfg.pair == 0.0 { s.adapt_options.mass_matrix_options.eigval_cutoff = 1.00001; } go!(s) } else { go!(DiagNutsSettings::default()) }
}

pub fn main(tier: &str, seed: u64, outdir: &str) {
    let mut cases = Cases::new();
    let mut rep = Report::new("C08");
    let n = if tier == "thorough" { 150000 } else { 1500 };
    for case in 0..n {
        let mut r = Sm::new(seed, "C08", case);
        let lowrank = case % 3 == 2;
        let sc = gen_scenario(&mut r, case, tier, lowrank);
        rep.evaluations += 1;
        rep.hit(&format!("{}.{}", if lowrank { "lowrank" } else { "diag" }, if sc.gaussian.is_some() { "gaussian" } else { "degenerate" }));
        let replay = json!({"kind": "estimator", "scenario": sc.to_json()});
        match run_scenario(&sc) {
            Err(e) => { rep.violation(&format!("{}.error", if lowrank { "lowrank" } else { "diag" }), &format!("estimator run failed: {e}"), replay); }
            Ok(outs) => {
                if outs.iter().any(|o| o.changed) { rep.nontrivial += 1; }
                rep.hit(if outs.iter().any(|o| o.mean.iter().any(|m| !m.is_finite())) { "mean_nonfinite_after_nonfinite_window" } else { "mean_finite" });
                if let Some((key, what)) = oracle(&sc, &outs) { rep.violation(&key, &what, replay); }
                if !lowrank { emit(&mut cases, case, &sc, &outs); }
                if case < 2 { rep.sample(json!({"dim": sc.dim, "ops": sc.ops.len(), "adapts": outs.iter().map(|o| json!({"changed": o.changed, "stds": o.stds.iter().take(3).collect::<Vec<_>>(), "logdet": o.logdet})).collect::<Vec<_>>()})); }
            }
        }
    }
    // part B
    let nb = if tier == "thorough" { 1500 } else { 24 };
    for case in 0..nb {
        let mut r = Sm::new(seed, "C08B", case);
        let lowrank = case % 2 == 1;
        let cfg = ChainCfg { lowrank, dim: 1 + r.below(if lowrank { 10 } else { 30 }) as usize, logc: r.range(0.0, 3.0), rho: r.range(2.0, 30.0), num_tune: if lowrank { 400 } else { 150 }, seed: r.next(), pair: 0.0 };
        // every fourth low-rank chain: a strongly correlated pair under the default cut-off (eigenvalues below 1/2 must be retained as well)
        let cfg = if lowrank && case % 8 == 3 { ChainCfg { dim: cfg.dim.max(2), pair: *r.pick(&[0.9, -0.9, 0.8, 0.95]), logc: cfg.logc.min(1.5), ..cfg } } else { cfg };
        if cfg.pair != 0.0 { rep.hit("chain.lowrank.default_cutoff_pair"); }
        rep.evaluations += 1;
        rep.hit(if lowrank { "chain.lowrank" } else { "chain.diag" });
        let replay = json!({"kind": "chain", "cfg": cfg.to_json()});
        match run_chain(&cfg) {
            Err(e) => { if e.contains("recoverable: true") { rep.hit("skipped.recoverable_error_at_stepsize_reinit(C05)"); } else { rep.violation("chain.error", &format!("chain failed: {e}"), replay); } }
            Ok((worst, n, div)) => {
                rep.nontrivial += 1;
                rep.notes.push(format!("chain case {case} lowrank={lowrank} dim={} logc={:.2}: worst fisher_distance/(1+|y|^2) = {:.3e} over {n} draws, {div} divergent", cfg.dim, cfg.logc, worst));
                if !(worst <= 1e-10) { rep.violation("chain.not_whitened", &format!("post-warmup fisher distance {worst:e} (relative): in the adapted space gradient != -position on an exactly representable Gaussian (lowrank={lowrank}, dim {}, {n} draws)", cfg.dim), replay.clone()); }
                if div > 0 { rep.violation("chain.divergences", &format!("{div} post-warmup divergences on a Gaussian target"), replay); }
            }
        }
    }
    cases.write(&format!("{outdir}/C08.cases")).unwrap();
    rep.write(&format!("{outdir}/C08.report.json"));
}

pub fn replay(body: &serde_json::Value) -> bool {
    if body["kind"] == "chain" {
        let cfg = ChainCfg::from_json(&body["cfg"]);
        let r = run_chain(&cfg);
        println!("replay: {:?}", r);
        return match r { Ok((w, _, d)) => !(w <= 1e-10) || d > 0, Err(_) => true };
    }
    let sc = Scenario::from_json(&body["scenario"]);
    match run_scenario(&sc) {
        Err(e) => { println!("replay: {e}"); true }
        Ok(outs) => { let r = oracle(&sc, &outs); println!("replay: {:?}", r); r.is_some() }
    }
}
