//! C07 — open-loop driving of the real `DualAverage` / `Adam` (hook re-exports) with synthetic
//! acceptance histories; case lines for the Lean driver + direct oracles on the implementation.
use crate::util::*;
use crate::mock::*;
use nuts_rs::verif_hooks::{Adam, AdamOptions, DualAverage, DualAverageOptions, Hamiltonian, NutsOptions, StepSizeSettings, StepSizeStrategy};
use nuts_rs::{CpuMath, StepSizeAdaptMethod, StepSizeAdaptOptions};
use serde_json::json;

fn gen_history(r: &mut Sm, n: usize, target: f64) -> (Vec<f64>, &'static str) {
    let kind = r.below(7);
    let mut v = Vec::with_capacity(n);
    let name = match kind {
        0 => { v.resize(n, 0.0); "all0" }
        1 => { v.resize(n, 1.0); "all1" }
        2 => { for i in 0..n { v.push((i % 2) as f64); } "alternating" }
        3 => { for _ in 0..n { v.push(r.unit()); } "uniform" }
        4 => { for _ in 0..n { v.push((target + 0.1 * r.normal()).clamp(0.0, 1.0)); } "near_target" }
        5 => {
            // long runs of 0 then 1 (stuck chain, then tiny step)
            let sw = r.below(n as u64 + 1) as usize;
            for i in 0..n { v.push(if i < sw { 0.0 } else { 1.0 }); }
            "block"
        }
        _ => { for _ in 0..n { v.push(if r.unit() < 0.2 { special01(r) } else { r.unit() }); } "edge" }
    };
    (v, name)
}

fn special01(r: &mut Sm) -> f64 {
    *r.pick(&[0.0, 1.0, 5e-324, 1.0 - f64::EPSILON / 2.0, 0.5, f64::MIN_POSITIVE])
}

/// Options are drawn so that `|log_step| <= |mu| + sqrt(n)/gamma < 700`: inside that domain the
/// exact (real-number) step size is representable in f64, so "positive and finite" is decidable
/// on the implementation without confusing exponent underflow with a sign/cap error.
/// (Outside it -- e.g. default options and > 2170 consecutive all-rejected draws -- `exp`
/// underflows to 0.0; that boundary is a property of f64, noted in DESIGN.md.)
fn da_options(r: &mut Sm, case: u64, n: usize) -> (DualAverageOptions, f64, f64) {
    if case % 5 == 0 && n <= 900 {
        return (DualAverageOptions::default(), 0.1, 0.8);
    }
    let gmin = ((n as f64).sqrt() / 600.0).max(1e-3);
    let o = DualAverageOptions {
        k: r.range(0.0, 1.5),
        t0: if r.below(4) == 0 { 0.0 } else { r.range(0.0, 50.0) },
        gamma: r.log_uniform(gmin, 10.0_f64.max(gmin * 2.0)),
        max_step_size: r.log_uniform(1e-2, 1e3),
    };
    (o, r.log_uniform(1e-6, 1e3), r.range(0.05, 0.99))
}

pub fn run_da(o: DualAverageOptions, init: f64, target: f64, hist: &[f64]) -> Vec<(f64, f64)> {
    let mut da = DualAverage::new(o, init);
    let mut out = Vec::with_capacity(hist.len());
    for &a in hist {
        da.advance(a, target);
        out.push((da.current_step_size(), da.current_step_size_adapted()));
    }
    out
}

pub fn run_adam(o: AdamOptions, init: f64, target: f64, hist: &[f64]) -> Vec<f64> {
    let mut ad = Adam::new(o, init);
    let mut out = Vec::with_capacity(hist.len());
    for &a in hist {
        ad.advance(a, target);
        out.push(ad.current_step_size());
    }
    out
}

pub fn main(tier: &str, seed: u64, outdir: &str) {
    let mut cases = Cases::new();
    let mut rep = Report::new("C07");
    let (ncase, maxlen) = if tier == "thorough" { (6000u64, 20000usize) } else { (300u64, 2500usize) };

    for case in 0..ncase {
        let mut r = Sm::new(seed, "C07-da", case);
        let n = match case % 7 { 0 => 1, 1 => 2, 2 => maxlen, _ => 1 + r.below(maxlen as u64 / 4) as usize };
        let (o, init, target) = da_options(&mut r, case, n);
        let (hist, hname) = gen_history(&mut r, n, target);
        let out = run_da(o, init, target, &hist);
        rep.evaluations += 1;
        rep.hit(&format!("da.hist.{hname}"));
        rep.hit(&format!("da.len.{}", if n <= 2 { "1-2" } else if n < 100 { "3-99" } else if n < 1000 { "100-999" } else { "1000+" }));
        let mut lb = LineB::new("da").u(case).f(o.k).f(o.t0).f(o.gamma).f(o.max_step_size).f(init).f(target).u(n as u64);
        lb = lb.fs(&hist);
        for (s, b) in &out { lb = lb.f(*s).f(*b); }
        cases.line(&lb.0);
        let replay = |what: &str, idx: usize| json!({"kind": "da", "what": what, "seed": seed, "case": case, "index": idx,
            "options": {"k": o.k, "t0": o.t0, "gamma": o.gamma, "max_step_size": o.max_step_size},
            "initial_step": init, "target": target, "history_prefix": hist.iter().take(idx + 1).cloned().collect::<Vec<f64>>()});

        // D1 bounds
        let cap = o.max_step_size * (1.0 + 1e-12);
        for (i, (s, b)) in out.iter().enumerate() {
            if !(*s > 0.0 && s.is_finite() && *s <= cap) {
                rep.violation("da.bounds.step", &format!("step size {s} outside (0, max_step_size={}] after update {i}", o.max_step_size), replay("bounds", i));
                break;
            }
            if !(*b > 0.0 && b.is_finite() && *b <= cap) {
                rep.violation("da.bounds.bar", &format!("averaged step size {b} outside (0, max_step_size={}] after update {i}", o.max_step_size), replay("bounds_bar", i));
                break;
            }
        }
        // D2 monotonicity by paired histories: raise a random subset of entries
        let mut hist2 = hist.clone();
        let mut raised = 0;
        for a in hist2.iter_mut() {
            if r.below(3) == 0 && *a < 1.0 {
                *a = (*a + r.unit() * (1.0 - *a)).min(1.0);
                raised += 1;
            }
        }
        let out2 = run_da(o, init, target, &hist2);
        if raised > 0 { rep.nontrivial += 1; }
        for i in 0..out.len() {
            if out2[i].0 < out[i].0 * (1.0 - 1e-10) || out2[i].1 < out[i].1 * (1.0 - 1e-10) {
                rep.violation("da.monotone", &format!("raising acceptance statistics lowered the step size at update {i}: {:?} -> {:?}", out[i], out2[i]),
                    json!({"kind": "da_pair", "seed": seed, "case": case, "index": i,
                        "options": {"k": o.k, "t0": o.t0, "gamma": o.gamma, "max_step_size": o.max_step_size},
                        "initial_step": init, "target": target,
                        "history": hist.iter().take(i + 1).cloned().collect::<Vec<f64>>(),
                        "raised_history": hist2.iter().take(i + 1).cloned().collect::<Vec<f64>>()}));
                break;
            }
        }
        // D3 documented weighted average, recomputed independently from the iterates
        {
            let mut avg = init.ln();
            let mut worst = 0f64;
            for (i, (s, b)) in out.iter().enumerate() {
                let m = ((i + 1) as f64).powf(-o.k);
                avg = m * s.ln() + (1.0 - m) * avg;
                let err = (avg - b.ln()).abs() / (1.0 + avg.abs());
                worst = worst.max(err);
                if err > 1e-7 {
                    rep.violation("da.average", &format!("step_size_bar {b} is not the documented weighted average exp({avg}) after update {i}"), replay("average", i));
                    break;
                }
            }
            let _ = worst;
        }
        if case < 3 {
            rep.sample(json!({"kind": "da", "options": {"k": o.k, "t0": o.t0, "gamma": o.gamma, "max": o.max_step_size},
                "init": init, "target": target, "history_kind": hname, "len": n,
                "first_steps": out.iter().take(3).collect::<Vec<_>>() }));
        }
    }

    for case in 0..ncase {
        let mut r = Sm::new(seed, "C07-adam", case);
        let o = if case % 5 == 0 { AdamOptions::default() } else {
            AdamOptions { beta1: r.range(0.0, 0.99), beta2: r.range(0.5, 0.9999), epsilon: r.log_uniform(1e-10, 1e-3), learning_rate: r.log_uniform(1e-3, 0.5) }
        };
        let init = r.log_uniform(1e-6, 1e3);
        let target = r.range(0.05, 0.99);
        let n = 1 + r.below((maxlen as u64 / 4).max(1)) as usize;
        let (hist, hname) = gen_history(&mut r, n, target);
        let out = run_adam(o, init, target, &hist);
        rep.evaluations += 1;
        rep.hit(&format!("adam.hist.{hname}"));
        let mut lb = LineB::new("adam").u(case).f(o.beta1).f(o.beta2).f(o.epsilon).f(o.learning_rate).f(init).f(target).u(n as u64);
        lb = lb.fs(&hist).fs(&out);
        cases.line(&lb.0);
        // D4 direction: step goes up exactly when the smoothed (accept - target) is positive
        let mut m = 0f64;
        let mut prev = init;
        let mut decided = 0;
        for (i, (&a, &s)) in hist.iter().zip(out.iter()).enumerate() {
            m = o.beta1 * m + (1.0 - o.beta1) * (a - target);
            if m.abs() > 1e-9 && (s / prev - 1.0).abs() > 1e-14 {
                decided += 1;
                if (m > 0.0) != (s > prev) {
                    rep.violation("adam.direction", &format!("update {i}: smoothed accept-target = {m} but step went {prev} -> {s}"),
                        json!({"kind": "adam", "seed": seed, "case": case, "index": i,
                            "options": {"beta1": o.beta1, "beta2": o.beta2, "epsilon": o.epsilon, "learning_rate": o.learning_rate},
                            "initial_step": init, "target": target, "history_prefix": hist.iter().take(i + 1).cloned().collect::<Vec<f64>>()}));
                    break;
                }
            }
            prev = s;
        }
        if decided > 0 { rep.nontrivial += 1; }
    }

    search_cases(tier, seed, &mut cases, &mut rep);
    collector_cases(tier, seed, &mut rep);
    cases.write(&format!("{outdir}/C07.cases")).unwrap();
    rep.write(&format!("{outdir}/C07.report.json"));
}

/// One-step energy script for the step-size search: energy error as a function of (direction, step).
#[derive(Clone, Debug)]
pub struct SearchScript {
    pub cf: f64,       // forward: energy error = cf * step^pf
    pub pf: f64,
    pub cb: f64,       // backward
    pub pb: f64,
    pub fail_above: f64, // leapfrog not Ok for step > fail_above (forward) ...
    pub fail_below: f64, // ... or step < fail_below (backward)
    pub fail_first: bool,
}

impl SearchScript {
    fn energy_err(&self, fwd: bool, step: f64) -> Option<f64> {
        if self.fail_first { return None; }
        if fwd && step > self.fail_above { return None; }
        if !fwd && step < self.fail_below { return None; }
        Some(if fwd { self.cf * step.powf(self.pf) } else { self.cb * step.powf(self.pb) })
    }
}

pub struct SearchRun { pub trials: Vec<(bool, f64, u8, f64)>, pub final_step: f64, pub adapt_step: f64,
    /// step sizes after 1, 2, 3 further estimator updates (acceptance 0) of the real strategy / of a fresh estimator with the CONFIGURED options started at the found step
    pub after: Vec<f64>, pub after_ref: Vec<f64> }

pub fn run_search(sc: &SearchScript, adam: bool, target: f64, init: f64, da: DualAverageOptions, ao: AdamOptions) -> SearchRun {
    let mut math: MMath = CpuMath::new(Dummy(1));
    let orbit = Orbit { energy: Box::new(|_| 0.0), turning: Box::new(|_, _| false), fault: Default::default() };
    let mut ham = MockHam::new(&mut math, orbit, 0);
    let sc2 = sc.clone();
    ham.one_step_energy = Some(Box::new(move |fwd, step| sc2.energy_err(fwd, step)));
    let settings = StepSizeSettings {
        target_accept: target, initial_step: init, jitter: None,
        adapt_options: StepSizeAdaptOptions { method: if adam { StepSizeAdaptMethod::Adam } else { StepSizeAdaptMethod::DualAverage }, dual_average: da, adam: ao },
    };
    let mut strat = StepSizeStrategy::new(settings);
    let mut opts = NutsOptions::default();
    let mut rng = ScriptRng::new(vec![]);
    let log = ham.log.clone();
    strat.init(&mut math, &mut opts, &mut ham, &[0.0], &mut rng).expect("mock init cannot fail");
    let final_step = ham.step_size();
    strat.update_stepsize(&mut rng, &mut ham, false);
    let adapt_step = ham.step_size();
    // the estimator the search leaves behind must be a fresh one with the configured options, started at the found step
    let mut after = vec![];
    for _ in 0..3 { strat.update_estimator_early(); strat.update_stepsize(&mut rng, &mut ham, false); after.push(ham.step_size()); }
    let after_ref: Vec<f64> = if adam { run_adam(ao, final_step, target, &[0.0, 0.0, 0.0]) } else { run_da(da, final_step, target, &[0.0, 0.0, 0.0]).into_iter().map(|x| x.0).collect() };
    let trials = log.borrow().iter().filter_map(|e| match e { Ev::Leap { outcome, energy_err, step, dir_fwd, .. } => Some((*dir_fwd, *step, *outcome, *energy_err)), _ => None }).collect();
    SearchRun { trials, final_step, adapt_step, after, after_ref }
}

fn search_oracle(run: &SearchRun, target: f64, init: f64) -> Option<String> {
    let acc = |e: f64| (-e).min(0.0).exp();
    if run.trials.is_empty() { return Some("no trial leapfrog".into()); }
    if run.final_step == init && run.trials.len() != 2 { return None; } // reset / never moved: nothing to bracket
    let loop_trials = &run.trials[1..];
    if loop_trials.is_empty() { return None; }
    let last = loop_trials[loop_trials.len() - 1];
    if last.2 != 0 { return if run.final_step == init { None } else { Some(format!("a trial failed but the step size is {} instead of initial_step {init}", run.final_step)) }; }
    if run.final_step != last.1 { return if loop_trials.len() == 100 && run.final_step == init { None } else { Some(format!("final step {} is not the last trial {}", run.final_step, last.1)) }; }
    let fwd = last.0;
    let a = acc(last.3);
    let capped = if fwd { last.1 > 1e5 } else { last.1 < 1e-10 };
    if !capped && !(if fwd { a <= target } else { a >= target }) {
        return Some(format!("search stopped at step {} whose one-step acceptance {a} is on the wrong side of target {target}", last.1));
    }
    for t in &loop_trials[..loop_trials.len() - 1] {
        let at = acc(t.3);
        if if fwd { at <= target } else { at >= target } {
            return Some(format!("search continued past step {} although its acceptance {at} already crossed target {target}", t.1));
        }
    }
    // ... and WITH the configured options: the next updates are those of a fresh estimator (configured k, t0, gamma, max_step_size resp. Adam
    // options) started at that step
    if run.after.iter().zip(run.after_ref.iter()).any(|(a, b)| a.to_bits() != b.to_bits()) {
        return Some(format!("after the search (step {}) three estimator updates give steps {:?}; a fresh estimator with the configured options started there gives {:?}", run.final_step, run.after, run.after_ref));
    }
    // the adaptation (dual averaging or Adam) is restarted AT the step the search found
    if !((run.adapt_step / run.final_step - 1.0).abs() <= 1e-12) {
        return Some(format!("the search ended at step {} but the adaptation state was restarted at {}", run.final_step, run.adapt_step));
    }
    None
}

/// The REAL AcceptanceRateCollector behind the REAL nuts::draw on scripted orbits with divergent leapfrogs: both running means must be the
/// plain average, over every leapfrog of the trajectory, of min(1, e^-dE) resp. 2 min(1, e^-dE) / (1 + e^-dE), a divergent step counting 0.
fn collector_cases(tier: &str, seed: u64, rep: &mut Report) {
    let n = if tier == "thorough" { 20000 } else { 1500 };
    for case in 0..n { collector_cases_one(seed, case, rep); }
}

fn collector_cases_one(seed: u64, case: u64, rep: &mut Report) {
    use crate::c01::{opts, run_draw, OrbitSpec};
    use crate::mock::Ev;
    {
        let mut r = Sm::new(seed, "C07-collector", case);
        let spec = OrbitSpec::random(&mut r, case % 2 == 0);
        let maxdepth = 1 + r.below(5);
        let tape: Vec<u64> = (0..64).map(|_| r.next()).collect();
        let origin = r.below(9) as i64 - 4;
        let run = run_draw(&spec, origin, &opts(maxdepth, 0, true, 0), &tape);
        let leaps: Vec<(u8, f64)> = run.events.iter().filter_map(|e| match e { Ev::Leap { outcome, energy_err, .. } if *outcome != 2 => Some((*outcome, *energy_err)), _ => None }).collect();
        if leaps.is_empty() { return; }
        rep.evaluations += 1;
        let (mut m, mut ms) = (0.0f64, 0.0f64);
        for (o, e) in &leaps { if *o == 0 { let d = -*e; let a = d.min(0.0).exp(); m += a; ms += 2.0 * a / (1.0 + d.exp()); } }
        let k = leaps.len() as f64;
        let (em, ems) = (m / k, ms / k);
        let (gm, gms, cnt, _) = run.collector;
        let bad = cnt != leaps.len() as u64 || !((gm - em).abs() <= 1e-12) || !((gms - ems).abs() <= 1e-12) || !(0.0..=1.0).contains(&gm) || !(0.0..=1.0).contains(&gms);
        if leaps.iter().any(|l| l.0 == 1) { rep.nontrivial += 1; rep.hit("collector.with_divergence"); } else { rep.hit("collector.clean"); }
        if bad {
            rep.violation("collector.mean", &format!("acceptance collector after a trajectory of {} leapfrogs ({} divergent): mean {gm} (expected {em}), symmetric mean {gms} (expected {ems}), count {cnt}", leaps.len(), leaps.iter().filter(|l| l.0 == 1).count()),
                json!({"kind": "collector", "seed": seed, "case": case}));
        }
    }
}

fn search_cases(tier: &str, seed: u64, cases: &mut Cases, rep: &mut Report) {
    let n = if tier == "thorough" { 30000 } else { 600 };
    for case in 0..n {
        let mut r = Sm::new(seed, "C07-search", case);
        let sc = SearchScript {
            cf: r.log_uniform(1e-6, 1e3), pf: *r.pick(&[1.0, 2.0, 3.0, 0.5]),
            cb: r.log_uniform(1e-6, 1e3), pb: *r.pick(&[1.0, 2.0, 3.0, 0.5]),
            fail_above: if r.below(4) == 0 { r.log_uniform(1e-3, 1e4) } else { f64::INFINITY },
            fail_below: if r.below(4) == 0 { r.log_uniform(1e-9, 1e-1) } else { 0.0 },
            fail_first: case % 37 == 0,
        };
        let sc = if case % 11 == 0 { SearchScript { cf: 0.0, cb: 0.0, ..sc } } else if case % 13 == 0 { SearchScript { cf: 1e9, cb: 1e9, ..sc } } else { sc };
        let target = r.range(0.05, 0.99);
        let init = r.log_uniform(1e-6, 1e3);
        let adam = case % 2 == 1;
        // non-default estimator options in two thirds of the cases
        let (da, ao) = if case % 3 == 0 { (DualAverageOptions::default(), AdamOptions::default()) } else {
            (DualAverageOptions { k: r.range(0.55, 0.95), t0: r.range(1.0, 30.0), gamma: r.log_uniform(0.01, 1.0), max_step_size: r.log_uniform(1e-2, 1e3) },
             AdamOptions { beta1: r.range(0.0, 0.99), beta2: r.range(0.5, 0.9999), epsilon: r.log_uniform(1e-10, 1e-3), learning_rate: r.log_uniform(1e-3, 0.5) }) };
        let run = run_search(&sc, adam, target, init, da, ao);
        rep.evaluations += 1;
        let moved = run.trials.len() > 2;
        if moved { rep.nontrivial += 1; }
        rep.hit(&format!("search.trials.{}", match run.trials.len() { 1 => "1", 2 => "2", 3..=10 => "3-10", 11..=100 => "11-100", _ => "101" }));
        let mut lb = LineB::new("search").u(case).u(adam as u64).f(target).f(init).u(run.trials.len() as u64);
        for t in &run.trials { lb = lb.u(t.0 as u64).f(t.1).u(t.2 as u64).f(t.3); }
        lb = lb.f(run.final_step).f(run.adapt_step);
        cases.line(&lb.0);
        if let Some(msg) = search_oracle(&run, target, init) {
            rep.violation("search.bracket", &msg, json!({"kind": "search", "seed": seed, "case": case, "adam": adam, "target": target, "init": init,
                "script": {"cf": sc.cf, "pf": sc.pf, "cb": sc.cb, "pb": sc.pb, "fail_above": sc.fail_above.min(1e300), "fail_below": sc.fail_below, "fail_first": sc.fail_first},
                "da": {"k": da.k, "t0": da.t0, "gamma": da.gamma, "max_step_size": da.max_step_size}, "adam_options": {"beta1": ao.beta1, "beta2": ao.beta2, "epsilon": ao.epsilon, "learning_rate": ao.learning_rate}}));
        }
        if case < 2 { rep.sample(json!({"kind": "search", "target": target, "init": init, "trials": run.trials.iter().take(6).map(|t| (t.0, t.1, t.2)).collect::<Vec<_>>(), "final_step": run.final_step})); }
    }
}

/// Re-run a replay file on the implementation; returns true if the violation reproduces.
pub fn replay(v: &serde_json::Value) -> bool {
    let f = |x: &serde_json::Value| x.as_f64().unwrap();
    let hist = |x: &serde_json::Value| x.as_array().unwrap().iter().map(|y| y.as_f64().unwrap_or(f64::NAN)).collect::<Vec<f64>>();
    match v["kind"].as_str().unwrap_or("") {
        "da" | "da_pair" => {
            let o = DualAverageOptions { k: f(&v["options"]["k"]), t0: f(&v["options"]["t0"]), gamma: f(&v["options"]["gamma"]), max_step_size: f(&v["options"]["max_step_size"]) };
            let init = f(&v["initial_step"]);
            let target = f(&v["target"]);
            if v["kind"] == "da_pair" {
                let a = run_da(o, init, target, &hist(&v["history"]));
                let b = run_da(o, init, target, &hist(&v["raised_history"]));
                let (x, y) = (a.last().unwrap(), b.last().unwrap());
                println!("replay: step {:?} vs raised {:?}", x, y);
                y.0 < x.0 * (1.0 - 1e-10) || y.1 < x.1 * (1.0 - 1e-10)
            } else {
                let h = hist(&v["history_prefix"]);
                let out = run_da(o, init, target, &h);
                let (s, b) = *out.last().unwrap();
                println!("replay: after {} updates step={s} bar={b} max={}", h.len(), o.max_step_size);
                let cap = o.max_step_size * (1.0 + 1e-12);
                let mut avg = init.ln();
                for (i, (s, _)) in out.iter().enumerate() {
                    let m = ((i + 1) as f64).powf(-o.k);
                    avg = m * s.ln() + (1.0 - m) * avg;
                }
                !(s > 0.0 && s <= cap && b > 0.0 && b <= cap) || (avg - b.ln()).abs() / (1.0 + avg.abs()) > 1e-7
            }
        }
        "adam" => {
            let o = AdamOptions { beta1: f(&v["options"]["beta1"]), beta2: f(&v["options"]["beta2"]), epsilon: f(&v["options"]["epsilon"]), learning_rate: f(&v["options"]["learning_rate"]) };
            let init = f(&v["initial_step"]);
            let target = f(&v["target"]);
            let h = hist(&v["history_prefix"]);
            let out = run_adam(o, init, target, &h);
            let mut m = 0f64;
            for &a in &h { m = o.beta1 * m + (1.0 - o.beta1) * (a - target); }
            let prev = if out.len() >= 2 { out[out.len() - 2] } else { init };
            let s = *out.last().unwrap();
            println!("replay: smoothed={m} step {prev} -> {s}");
            (m > 0.0) != (s > prev)
        }
        "collector" => {
            let mut rep = Report::new("replay");
            // the case is a deterministic function of (seed, case); re-run the sweep up to it
            let (sd, cs) = (v["seed"].as_u64().unwrap(), v["case"].as_u64().unwrap());
            collector_cases_one(sd, cs, &mut rep);
            println!("replay: {:?}", rep.violations.iter().map(|x| x["what"].as_str().unwrap_or("").to_string()).collect::<Vec<_>>());
            !rep.violations.is_empty()
        }
        "search" => {
            let sv = &v["script"];
            let sc = SearchScript { cf: f(&sv["cf"]), pf: f(&sv["pf"]), cb: f(&sv["cb"]), pb: f(&sv["pb"]),
                fail_above: { let x = f(&sv["fail_above"]); if x >= 1e300 { f64::INFINITY } else { x } }, fail_below: f(&sv["fail_below"]), fail_first: sv["fail_first"].as_bool().unwrap() };
            let da = if v["da"].is_object() { DualAverageOptions { k: f(&v["da"]["k"]), t0: f(&v["da"]["t0"]), gamma: f(&v["da"]["gamma"]), max_step_size: f(&v["da"]["max_step_size"]) } } else { DualAverageOptions::default() };
            let ao = if v["adam_options"].is_object() { AdamOptions { beta1: f(&v["adam_options"]["beta1"]), beta2: f(&v["adam_options"]["beta2"]), epsilon: f(&v["adam_options"]["epsilon"]), learning_rate: f(&v["adam_options"]["learning_rate"]) } } else { AdamOptions::default() };
            let run = run_search(&sc, v["adam"].as_bool().unwrap(), f(&v["target"]), f(&v["init"]), da, ao);
            let r = search_oracle(&run, f(&v["target"]), f(&v["init"]));
            println!("replay: {} trials, final step {}, oracle: {:?}", run.trials.len(), run.final_step, r);
            r.is_some()
        }
        _ => false,
    }
}
