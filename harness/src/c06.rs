//! C06 / C09 — warmup schedule: real chains (all Euclidean presets, NUTS and MCLMC) under random
//! schedule parameters and irregular good/bad draw histories; per draw the hook counters, the
//! step-size adaptation state and the public statistics are recorded for Model/Schedule.lean.
use crate::stats::StatRow;
use crate::targets::*;
use crate::util::*;
use nuts_rs::verif_hooks::StatsDims;
use nuts_rs::{
    Chain, CpuMath, DiagMclmcSettings, DiagNutsSettings, FlowMclmcSettings, FlowNutsSettings, LowRankMclmcSettings, LowRankNutsSettings, Settings,
    StepSizeAdaptMethod, Storable,
};
use rand::SeedableRng;
use serde_json::json;

#[derive(Clone, Debug)]
pub struct SchedCfg {
    pub preset: u8, // 0 diag nuts, 1 lowrank nuts, 2 diag mclmc, 3 lowrank mclmc
    pub num_tune: u64,
    pub num_draws: u64,
    pub early_window: f64,
    pub step_size_window: f64,
    pub switch_freq: u64,
    pub early_switch_freq: u64,
    pub update_freq: u64,
    pub growth: f64,
    pub method: u8, // 0 DA, 1 Adam, 2 Fixed
    pub jitter: Option<f64>,
    pub target_accept: f64,
    pub dim: usize,
    pub fault_period: u64,
    pub seed: u64,
    /// 1: every evaluation of draw `num_tune` fails recoverably (the first posterior draw diverges); 2: draws num_tune-1 ..= num_tune+1
    pub boundary_div: u8,
}

impl SchedCfg {
    pub fn to_json(&self) -> serde_json::Value {
        json!({"preset": self.preset, "num_tune": self.num_tune, "num_draws": self.num_draws, "early_window": self.early_window,
            "step_size_window": self.step_size_window, "switch_freq": self.switch_freq, "early_switch_freq": self.early_switch_freq,
            "update_freq": self.update_freq, "growth": self.growth, "method": self.method, "jitter": self.jitter,
            "target_accept": self.target_accept, "dim": self.dim, "fault_period": self.fault_period, "seed": self.seed, "boundary_div": self.boundary_div})
    }
    pub fn from_json(v: &serde_json::Value) -> SchedCfg {
        SchedCfg { preset: v["preset"].as_u64().unwrap() as u8, num_tune: v["num_tune"].as_u64().unwrap(), num_draws: v["num_draws"].as_u64().unwrap(),
            early_window: v["early_window"].as_f64().unwrap(), step_size_window: v["step_size_window"].as_f64().unwrap(),
            switch_freq: v["switch_freq"].as_u64().unwrap(), early_switch_freq: v["early_switch_freq"].as_u64().unwrap(),
            update_freq: v["update_freq"].as_u64().unwrap(), growth: v["growth"].as_f64().unwrap(), method: v["method"].as_u64().unwrap() as u8,
            jitter: v["jitter"].as_f64(), target_accept: v["target_accept"].as_f64().unwrap(), dim: v["dim"].as_u64().unwrap() as usize,
            fault_period: v["fault_period"].as_u64().unwrap(), seed: v["seed"].as_u64().unwrap(), boundary_div: v["boundary_div"].as_u64().unwrap_or(0) as u8 }
    }
}

#[derive(Clone, Debug)]
pub struct DrawRec {
    pub diverging: bool,
    pub idx: i64,
    pub num_steps: u64,
    pub progress_tuning: bool,
    pub stat_tuning: bool,
    pub tupd: Option<i64>,
    pub counters: [u64; 9],
    pub ss: (u8, [f64; 4], u64),
    pub mean: f64,
    pub mean_sym: f64,
    pub step_size: f64,
    pub step_size_bar: f64,
}

pub struct SchedRun {
    pub init_counters: [u64; 9],
    pub init_ss: (u8, [f64; 4], u64),
    pub draws: Vec<DrawRec>,
    pub error: Option<String>,
}

macro_rules! run_chain {
    ($settings:expr, $cfg:expr) => {{
        let cfg: &SchedCfg = $cfg;
        let mut target = Target::new(Kind::Diag { mu: (0..cfg.dim).map(|i| i as f64).collect(), sigma: (0..cfg.dim).map(|i| 0.5 + i as f64).collect() }, cfg.dim);
        if cfg.fault_period > 0 { target.periodic = Some((cfg.fault_period, FaultKind::Recoverable)); }
        let fail_next = target.fail_next.clone();
        let math = CpuMath::new(target);
        let mut rng = rand::rngs::ChaCha8Rng::seed_from_u64(cfg.seed);
        let settings = $settings;
        let res = std::panic::catch_unwind(std::panic::AssertUnwindSafe(|| {
            let mut chain = settings.new_chain(0, math, &mut rng);
            let mut out = SchedRun { init_counters: [0; 9], init_ss: (2, [0.0; 4], 0), draws: vec![], error: None };
            if let Err(e) = chain.set_position(&vec![0.3; cfg.dim]) { out.error = Some(format!("set_position: {e}")); return out; }
            out.init_counters = chain.verif_strategy().verif_counters();
            out.init_ss = chain.verif_strategy().verif_step_size_state();
            for d in 0..(cfg.num_tune + cfg.num_draws) {
                let forced = match cfg.boundary_div { 1 => d == cfg.num_tune, 2 => d + 1 >= cfg.num_tune && d <= cfg.num_tune + 1, _ => false };
                fail_next.store(if forced { u64::MAX / 2 } else { 0 }, std::sync::atomic::Ordering::SeqCst);
                let res = chain.expanded_draw();
                fail_next.store(0, std::sync::atomic::Ordering::SeqCst);
                match res {
                    Err(e) => { out.error = Some(format!("draw: {e}")); break; }
                    Ok((_pos, _exp, mut stats, progress)) => {
                        let dims = { let m = chain.math(); StatsDims::from(&*m) };
                        let row = StatRow(stats.get_all(&dims).into_iter().map(|(n, v)| (n.to_string(), v)).collect());
                        out.draws.push(DrawRec {
                            diverging: row.b("diverging").unwrap_or(progress.diverging),
                            idx: row.i("index_in_trajectory").unwrap_or(0),
                            num_steps: progress.num_steps,
                            progress_tuning: progress.tuning,
                            stat_tuning: row.b("tuning").unwrap_or(progress.tuning),
                            tupd: row.i("transformation_update_id"),
                            counters: chain.verif_strategy().verif_counters(),
                            ss: chain.verif_strategy().verif_step_size_state(),
                            mean: row.f("mean_tree_accept").unwrap_or(f64::NAN),
                            mean_sym: row.f("mean_tree_accept_sym").unwrap_or(f64::NAN),
                            step_size: row.f("step_size").unwrap_or(progress.step_size),
                            step_size_bar: row.f("step_size_bar").unwrap_or(f64::NAN),
                        });
                    }
                }
            }
            out
        }));
        match res {
            Ok(r) => r,
            Err(p) => SchedRun { init_counters: [0; 9], init_ss: (2, [0.0; 4], 0), draws: vec![],
                error: Some(format!("panic: {}", p.downcast_ref::<String>().cloned().or_else(|| p.downcast_ref::<&str>().map(|s| s.to_string())).unwrap_or_default())) },
        }
    }};
}

pub fn run(cfg: &SchedCfg) -> SchedRun {
    macro_rules! euclid {
        ($s:ident) => {{
            $s.num_tune = cfg.num_tune;
            $s.num_draws = cfg.num_draws;
            $s.seed = cfg.seed;
            $s.adapt_options.early_window = cfg.early_window;
            $s.adapt_options.step_size_window = cfg.step_size_window;
            $s.adapt_options.mass_matrix_switch_freq = cfg.switch_freq;
            $s.adapt_options.early_mass_matrix_switch_freq = cfg.early_switch_freq;
            $s.adapt_options.mass_matrix_update_freq = cfg.update_freq;
            $s.adapt_options.mass_matrix_window_growth = cfg.growth;
            $s.adapt_options.step_size_settings.jitter = cfg.jitter;
            $s.adapt_options.step_size_settings.target_accept = cfg.target_accept;
        }};
    }
    let method = match cfg.method { 0 => StepSizeAdaptMethod::DualAverage, 1 => StepSizeAdaptMethod::Adam, _ => StepSizeAdaptMethod::Fixed(0.3) };
    match cfg.preset {
        0 => { let mut s = DiagNutsSettings::default(); euclid!(s); s.maxdepth = 5; s.adapt_options.step_size_settings.adapt_options.method = method; run_chain!(s, cfg) }
        1 => { let mut s = LowRankNutsSettings::default(); euclid!(s); s.maxdepth = 5; s.adapt_options.step_size_settings.adapt_options.method = method; run_chain!(s, cfg) }
        2 => { let mut s = DiagMclmcSettings::default(); euclid!(s); s.step_size = 0.3; run_chain!(s, cfg) }
        _ => { let mut s = LowRankMclmcSettings::default(); euclid!(s); s.step_size = 0.3; run_chain!(s, cfg) }
    }
}

pub fn gen_cfg(r: &mut Sm, case: u64, tier: &str) -> SchedCfg {
    let num_tune = if case <= 40 { case } else if case % 9 == 0 { 1000 + r.below(1001) } else { r.below(if tier == "thorough" { 800 } else { 300 }) };
    let preset = (case % 4) as u8;
    let dim = if preset >= 2 { 2 + r.below(3) as usize } else { 1 + r.below(4) as usize };
    let (b1, b2, b3) = (if r.coin() { 12 } else { 100 }, if r.coin() { 5 } else { 30 }, if r.coin() { 3 } else { 30 });
    SchedCfg {
        preset, num_tune, num_draws: 5 + r.below(20),
        // every seventh case: fractions that OVERLAP (early phase reaching into the final step-size window), step-size window up to 1.0; early_window < 1 is asserted by GlobalStrategy::new
        early_window: if case % 7 == 3 { *r.pick(&[0.6, 0.75, 0.9, 0.99]) } else if r.below(5) == 0 { 0.0 } else { r.range(0.0, 0.6) },
        step_size_window: if case % 7 == 3 { *r.pick(&[0.5, 0.7, 1.0]) } else if r.below(5) == 0 { 0.0 } else { r.range(0.0, 0.5) },
        switch_freq: 1 + r.below(b1),
        early_switch_freq: 1 + r.below(b2),
        update_freq: 1 + r.below(b3),
        growth: if r.below(3) == 0 { 1.0 } else { r.range(1.0, 2.5) },
        method: if preset >= 2 { 2 } else { (case / 4 % 3) as u8 },
        jitter: if r.coin() { None } else { Some(r.range(0.0, 0.3)) },
        target_accept: r.range(0.5, 0.95), dim,
        fault_period: if r.below(3) == 0 { 7 + r.below(40) } else { 0 },
        seed: r.next(),
        // every fifth case: divergent draws at the warmup / sampling boundary (all presets)
        boundary_div: if case % 5 == 2 { 1 + (case / 5 % 2) as u8 } else { 0 },
    }
}

fn oracle(cfg: &SchedCfg, run: &SchedRun) -> Option<(String, String)> {
    if let Some(e) = &run.error {
        return Some(("sched.error".into(), format!("chain failed: {e}")));
    }
    let n_tuning = run.draws.iter().filter(|d| d.progress_tuning).count() as u64;
    if n_tuning != cfg.num_tune {
        return Some(("sched.tuning_count".into(), format!("{n_tuning} draws reported as tuning (Progress), num_tune = {}", cfg.num_tune)));
    }
    for (d, rec) in run.draws.iter().enumerate() {
        let want = (d as u64) < cfg.num_tune;
        if rec.progress_tuning != want || rec.stat_tuning != want {
            return Some(("sched.tuning_flag".into(), format!("draw {d}: tuning flag progress={} stat={} expected {want}", rec.progress_tuning, rec.stat_tuning)));
        }
    }
    let final_window = run.init_counters[2];
    // the statistics of draw d report a change made by adapt(d); nothing at or after the final window
    let mut last_id = 0i64; // id after `init`
    for (d, rec) in run.draws.iter().enumerate() {
        if let Some(id) = rec.tupd {
            if id > last_id && d as u64 >= final_window {
                return Some(("sched.frozen".into(), format!("transformation changed (id {last_id} -> {id}) at draw {d} >= final step-size window start {final_window}")));
            }
            last_id = last_id.max(id);
        }
    }
    // C09: divergent or stuck draws are not counted: a draw that stayed at the start of its trajectory (index 0), or a divergent one within four
    // steps of it, never adds a sample to the background estimator; every other draw of the mass-matrix phase adds exactly one (or the
    // window switched: the background estimator was emptied)
    for (d, rec) in run.draws.iter().enumerate() {
        if d as u64 >= final_window.min(cfg.num_tune) { break; }
        let prev_bg = if d == 0 { run.init_counters[8] } else { run.draws[d - 1].counters[8] };
        let good = if rec.diverging { rec.idx.unsigned_abs() > 4 } else { rec.idx != 0 };
        let bg = rec.counters[8];
        if !good && bg > prev_bg {
            return Some(("sched.rejected_draw_counted".into(), format!("draw {d} (diverging {}, index_in_trajectory {}) must not be used by the estimators, but the background count went {prev_bg} -> {bg}", rec.diverging, rec.idx)));
        }
        if good && !(bg == prev_bg + 1 || bg == 0) {
            return Some(("sched.good_draw_not_counted".into(), format!("draw {d} (diverging {}, index_in_trajectory {}) is an accepted draw, but the background count went {prev_bg} -> {bg}", rec.diverging, rec.idx)));
        }
    }
    // C09: the first transformation change re-runs the step-size search (the `has_initial_mass_matrix` flag is consumed by it)
    if run.init_counters[4] == 1 {
        let mut prev_id = 0i64;
        for (d, rec) in run.draws.iter().enumerate() {
            if let Some(id) = rec.tupd {
                if id > prev_id {
                    if rec.counters[4] != 0 {
                        return Some(("sched.first_change_no_search".into(), format!("first transformation change (id {prev_id} -> {id}) at draw {d} did not re-run the step-size search (has_initial_mass_matrix still set)")));
                    }
                    break;
                }
                prev_id = prev_id.max(id);
            }
        }
    }
    // C09: no window switch unless another full window (of the size in force after the switch) still fits before the final
    // step-size window: a switch at draw d leaves `current_window_size + d <= final_step_size_window` (early phase: the early switch frequency)
    {
        let early_end = run.init_counters[1];
        let mut prev_bg = run.init_counters[8];
        for (d, rec) in run.draws.iter().enumerate() {
            let d = d as u64;
            if d >= cfg.num_tune || d >= final_window { break; }
            let bg = rec.counters[8];
            if bg < prev_bg || (bg == 0 && prev_bg == 0 && false) {
                let next = if d < early_end { cfg.early_switch_freq } else { rec.counters[6] };
                if next + d > final_window {
                    return Some(("sched.switch_without_room".into(), format!("window switch at draw {d} although the next window of {next} draws does not fit before the final step-size window (starts at {final_window})")));
                }
            }
            prev_bg = bg;
        }
    }
    // C09: at the transition from the early to the main phase the window is max(mass_matrix_switch_freq, draws in the BACKGROUND estimator)
    // (or, if a switch happens on that very draw, its grown successor) -- never seeded from the older foreground estimator
    {
        let early_end = run.init_counters[1];
        if early_end < final_window && early_end < cfg.num_tune && (early_end as usize) < run.draws.len() {
            let prev_bg = if early_end == 0 { run.init_counters[8] } else { run.draws[early_end as usize - 1].counters[8] };
            let prev_win = if early_end == 0 { run.init_counters[6] } else { run.draws[early_end as usize - 1].counters[6] };
            let w = prev_win.max(prev_bg);
            let grown = (w + 1).max((w as f64 * cfg.growth).round() as u64);
            let got = run.draws[early_end as usize].counters[6];
            if got != w && got != grown {
                return Some(("sched.main_window_seed".into(), format!("first main-phase draw {early_end}: window {got}, expected max(configured {prev_win}, background count {prev_bg}) = {w} (or {grown} after a switch)")));
            }
        }
    }
    // after warmup: base step size constant, step size within the jitter band
    if cfg.num_tune >= 1 && (cfg.num_tune as usize) < run.draws.len() && cfg.method != 2 {
        let bar = run.draws[cfg.num_tune as usize - 1].step_size_bar;
        let j = cfg.jitter.unwrap_or(0.0);
        for d in cfg.num_tune as usize..run.draws.len() {
            let rec = &run.draws[d];
            if rec.step_size_bar.to_bits() != bar.to_bits() && cfg.method == 0 {
                return Some(("sched.bar_constant".into(), format!("step_size_bar changed after warmup at draw {d}: {bar} -> {}", rec.step_size_bar)));
            }
            let ratio = rec.step_size / rec.step_size_bar;
            if !(ratio >= 1.0 - j - 1e-12 && ratio <= 1.0 + j + 1e-12) {
                return Some(("sched.jitter_band".into(), format!("post-warmup step size {} outside jitter band {j} around {}", rec.step_size, rec.step_size_bar)));
            }
        }
    }
    // fixed step size (method Fixed, and every Euclidean MCLMC chain): EVERY step size, during and after warmup, lies within the jitter
    // band around the configured constant (the jitter must not compound from draw to draw)
    if cfg.method == 2 || cfg.preset >= 2 {
        let fixed = 0.3;
        let j = cfg.jitter.unwrap_or(0.0);
        for (d, rec) in run.draws.iter().enumerate() {
            let ratio = rec.step_size / fixed;
            if !(ratio >= 1.0 - j - 1e-12 && ratio <= 1.0 + j + 1e-12) {
                return Some(("sched.fixed_jitter_band".into(), format!("draw {d}: step size {} outside the jitter band {j} around the fixed step size {fixed}", rec.step_size)));
            }
        }
    }
    None
}


// ------------------------------------------------------------------------------ flow strategy
#[derive(Clone, Debug)]
pub struct FlowCfg { pub mclmc: bool, pub num_tune: u64, pub num_draws: u64, pub step_size_window: f64, pub freq: u64, pub dim: usize, pub seed: u64 }
impl FlowCfg {
    pub fn to_json(&self) -> serde_json::Value { json!({"mclmc": self.mclmc, "num_tune": self.num_tune, "num_draws": self.num_draws, "step_size_window": self.step_size_window, "freq": self.freq, "dim": self.dim, "seed": self.seed.to_string()}) }
    pub fn from_json(v: &serde_json::Value) -> FlowCfg { FlowCfg { mclmc: v["mclmc"].as_bool().unwrap(), num_tune: v["num_tune"].as_u64().unwrap(), num_draws: v["num_draws"].as_u64().unwrap(), step_size_window: v["step_size_window"].as_f64().unwrap(), freq: v["freq"].as_u64().unwrap(), dim: v["dim"].as_u64().unwrap() as usize, seed: v["seed"].as_str().unwrap().parse().unwrap() } }
}

/// per draw: (Progress.tuning, `tuning` statistic, transformation_index of the returned point, step size, step_size_bar)
pub fn run_flow(cfg: &FlowCfg) -> Result<Vec<(bool, bool, i64, f64, f64)>, String> {
    macro_rules! go { ($s:expr) => {{
        let mut s = $s;
        s.num_tune = cfg.num_tune; s.num_draws = cfg.num_draws; s.seed = cfg.seed;
        s.adapt_options.step_size_window = cfg.step_size_window; s.adapt_options.transform_update_freq = cfg.freq;
        let math = CpuMath::new(Target::new(Kind::Diag { mu: (0..cfg.dim).map(|i| i as f64).collect(), sigma: (0..cfg.dim).map(|i| 0.5 + i as f64).collect() }, cfg.dim));
        let mut rng = rand::rngs::ChaCha8Rng::seed_from_u64(cfg.seed);
        let res = std::panic::catch_unwind(std::panic::AssertUnwindSafe(|| -> Result<Vec<(bool, bool, i64, f64, f64)>, String> {
            let mut chain = s.new_chain(0, math, &mut rng);
            chain.set_position(&vec![0.3; cfg.dim]).map_err(|e| format!("set_position: {e}"))?;
            let mut out = vec![];
            for _ in 0..(cfg.num_tune + cfg.num_draws) {
                let (_p, _e, mut stats, progress) = chain.expanded_draw().map_err(|e| format!("draw: {e}"))?;
                let dims = { let m = chain.math(); StatsDims::from(&*m) };
                let row = StatRow(stats.get_all(&dims).into_iter().map(|(n, v)| (n.to_string(), v)).collect());
                out.push((progress.tuning, row.b("tuning").unwrap_or(progress.tuning), row.i("transformation_index").unwrap_or(-1), row.f("step_size").unwrap_or(progress.step_size), row.f("step_size_bar").unwrap_or(f64::NAN)));
            }
            Ok(out)
        }));
        match res { Ok(r) => r, Err(p) => Err(format!("panic: {}", p.downcast_ref::<String>().cloned().or_else(|| p.downcast_ref::<&str>().map(|s| s.to_string())).unwrap_or_default())) }
    }}; }
    if cfg.mclmc { let mut s = FlowMclmcSettings::default(); s.adapt_options.step_size_settings.adapt_options.method = StepSizeAdaptMethod::Fixed(0.5); go!(s) } else { let mut s = FlowNutsSettings::default(); s.maxdepth = 5; go!(s) }
}

fn flow_oracle(cfg: &FlowCfg, recs: &[(bool, bool, i64, f64, f64)]) -> Option<(String, String)> {
    let n_tuning = recs.iter().filter(|r| r.0).count() as u64;
    if n_tuning != cfg.num_tune { return Some(("flow.tuning_count".into(), format!("{n_tuning} draws reported as tuning, num_tune = {}", cfg.num_tune))); }
    for (d, r) in recs.iter().enumerate() {
        let want = (d as u64) < cfg.num_tune;
        if r.0 != want || r.1 != want { return Some(("flow.tuning_flag".into(), format!("draw {d}: tuning flag progress={} stat={} expected {want}", r.0, r.1))); }
    }
    // the transformation never changes from the start of the final step-size window onward: the point of draw d+1 is
    // computed under the transformation left by adapt(d)
    let final_window = ((cfg.num_tune as f64) * (1.0 - cfg.step_size_window)).floor() as u64;
    for d in 0..recs.len().saturating_sub(1) {
        if recs[d + 1].2 != recs[d].2 && d as u64 >= final_window {
            return Some(("flow.frozen".into(), format!("transformation changed (index {} -> {}) by the adaptation after draw {d} >= final step-size window start {final_window}", recs[d].2, recs[d + 1].2)));
        }
    }
    None
}

/// C09 "draws older than two windows never influence the transformation", on the REAL estimators (driven through `EstimatorProbe` exactly as
/// `GlobalStrategy` drives them): two histories that differ only in the start point and in the draws before the last-but-one switch must
/// give bit-identical transformations (non-Gaussian windows: for Gaussian draws every window gives the same estimate).
fn window_independence(seed: u64, case: u64, rep: &mut Report) -> bool {
    use crate::c08::{run_scenario, Op, Scenario};
    let mut r = Sm::new(seed, "C09-window", case);
    let lowrank = case % 2 == 1;
    let dim = 2 + r.below(4) as usize;
    let pair = |r: &mut Sm, shift: f64| -> (Vec<f64>, Vec<f64>) {
        let x: Vec<f64> = (0..dim).map(|i| shift + r.normal() * (1.0 + i as f64)).collect();
        let g: Vec<f64> = x.iter().map(|v| -v - 0.3 * v * v * v + 0.1 * r.normal()).collect();
        (x, g)
    };
    let w1: Vec<(Vec<f64>, Vec<f64>)> = (0..(4 + r.below(7))).map(|_| pair(&mut r, 0.0)).collect();
    let w2: Vec<(Vec<f64>, Vec<f64>)> = (0..(4 + r.below(7))).map(|_| pair(&mut r, 0.0)).collect();
    let build = |r: &mut Sm, shift: f64| -> Scenario {
        let init = pair(r, shift);
        let old: Vec<(Vec<f64>, Vec<f64>)> = (0..(3 + r.below(8))).map(|_| pair(r, shift)).collect();
        let mut ops = vec![Op::Init(init.0, init.1)];
        for (x, g) in &old { ops.push(Op::Add(true, x.clone(), g.clone())); }
        ops.push(Op::Switch);
        for (x, g) in &w1 { ops.push(Op::Add(true, x.clone(), g.clone())); }
        ops.push(Op::Switch);
        for (x, g) in &w2 { ops.push(Op::Add(true, x.clone(), g.clone())); }
        ops.push(Op::Adapt);
        Scenario { dim, lowrank, gaussian: None, ops }
    };
    let (a, b) = (build(&mut r, 0.0), build(&mut r, 5.0));
    rep.evaluations += 1;
    rep.hit(if lowrank { "window_independence.lowrank" } else { "window_independence.diag" });
    let (Ok(oa), Ok(ob)) = (run_scenario(&a), run_scenario(&b)) else { rep.notes.push(format!("window independence case {case}: estimator run failed")); return false; };
    let (Some(la), Some(lb)) = (oa.last(), ob.last()) else { return false };
    let bits = |v: &[f64]| v.iter().map(|x| x.to_bits()).collect::<Vec<_>>();
    let same = bits(&la.stds) == bits(&lb.stds) && bits(&la.mean) == bits(&lb.mean) && bits(&la.eig_sqrt) == bits(&lb.eig_sqrt) && la.logdet.to_bits() == lb.logdet.to_bits();
    if !same {
        rep.violation("sched.old_window_influences", &format!("{} estimator: two histories that differ only BEFORE the last-but-one window switch (start point and first window) give different transformations after the second switch: scales {:?} vs {:?}",
            if lowrank { "low-rank" } else { "diagonal" }, &la.stds[..la.stds.len().min(3)], &lb.stds[..lb.stds.len().min(3)]), json!({"kind": "window_independence", "seed": seed, "case": case}));
    }
    !same
}

pub fn main(tier: &str, seed: u64, outdir: &str) {
    let mut cases = Cases::new();
    let mut rep = Report::new("C06");
    for case in 0..(if tier == "thorough" { 2000 } else { 40 }) { window_independence(seed, case, &mut rep); }
    let n = if tier == "thorough" { 6000 } else { 160 };
    for case in 0..n {
        let mut r = Sm::new(seed, "C06", case);
        let cfg = gen_cfg(&mut r, case, tier);
        let run = run(&cfg);
        rep.evaluations += 1;
        rep.hit(&format!("preset{}.method{}", cfg.preset, cfg.method));
        rep.hit(&format!("num_tune.{}", match cfg.num_tune { 0 => "0", 1..=9 => "1-9", 10..=99 => "10-99", 100..=999 => "100-999", _ => "1000+" }));
        if let Some(e) = &run.error {
            // a recoverable density error at the re-initialisation of the step size after the first
            // mass-matrix change terminates the chain: owned by C05 (known finding there), skipped here
            if e.contains("recoverable: true") { rep.hit("skipped.recoverable_error_at_stepsize_reinit(C05)"); continue; }
        }
        if let Some((key, what)) = oracle(&cfg, &run) {
            rep.violation(&key, &what, json!({"kind": "sched", "cfg": cfg.to_json()}));
        }
        if run.error.is_some() { continue; }
        let switches = run.draws.windows(2).filter(|w| w[1].counters[8] < w[0].counters[8]).count();
        if switches >= 2 { rep.nontrivial += 1; }
        rep.hit(&format!("switches.{}", match switches { 0 => "0", 1 => "1", 2..=5 => "2-5", _ => "6+" }));
        let c = run.init_counters;
        let mut lb = LineB::new("sched").u(case).u((cfg.preset >= 2) as u64).u((cfg.preset % 2 == 0) as u64)
            .u(c[0]).u(c[1]).u(c[2]).f(cfg.early_window).f(cfg.step_size_window)
            .u(cfg.early_switch_freq).u(cfg.switch_freq).u(cfg.update_freq).f(cfg.growth).f(cfg.target_accept)
            .u(c[3]).u(c[4]).u(c[5]).u(c[6]).u(c[7]).u(c[8])
            .u(run.init_ss.0 as u64).u(run.init_ss.2).fs(&run.init_ss.1)
            .u(run.draws.len() as u64);
        for d in &run.draws {
            lb = lb.u(d.diverging as u64).i(d.idx).u(d.num_steps).u(d.progress_tuning as u64).u(d.stat_tuning as u64).i(d.tupd.unwrap_or(-1000));
            for k in 3..9 { lb = lb.u(d.counters[k]); }
            lb = lb.u(d.ss.0 as u64).u(d.ss.2).fs(&d.ss.1).f(d.mean).f(d.mean_sym);
        }
        cases.line(&lb.0);
        if case < 2 { rep.sample(json!({"cfg": cfg.to_json(), "init_counters": c, "first_draws": run.draws.iter().take(3).map(|d| json!({"div": d.diverging, "idx": d.idx, "counters": d.counters, "tuning": d.progress_tuning})).collect::<Vec<_>>() })); }
    }
    // flow strategy (ExternalTransformAdaptation): NUTS and MCLMC chains
    let nf = if tier == "thorough" { 1500 } else { 40 };
    for case in 0..nf {
        let mut r = Sm::new(seed, "C06-flow", case);
        let num_tune = if case < 12 { case } else if case % 7 == 0 { 150 + r.below(250) } else { r.below(130) };
        let cfg = FlowCfg { mclmc: case % 2 == 1, num_tune, num_draws: 4 + r.below(12), step_size_window: if r.below(5) == 0 { 0.0 } else { r.range(0.0, 0.6) },
            freq: *r.pick(&[1u64, 3, 7, 16, 50, 128]), dim: (if case % 2 == 1 { 2 } else { 1 }) + r.below(3) as usize, seed: r.next() };
        rep.evaluations += 1;
        rep.hit(if cfg.mclmc { "flow.mclmc" } else { "flow.nuts" });
        let replay = json!({"kind": "flow", "cfg": cfg.to_json()});
        match run_flow(&cfg) {
            Err(e) => { if e.contains("recoverable: true") { rep.hit("skipped.recoverable_error_at_stepsize_reinit(C05)"); } else { rep.violation("flow.error", &format!("chain failed: {e}"), replay); } }
            Ok(recs) => {
                if let Some((key, what)) = flow_oracle(&cfg, &recs) { rep.violation(&key, &what, replay); }
                if recs.windows(2).any(|w| w[0].2 != w[1].2) { rep.nontrivial += 1; }
                let mut lb = LineB::new("flow").u(case).u(cfg.num_tune).f(cfg.step_size_window).u(cfg.freq).u(recs.len() as u64);
                for r in &recs { lb = lb.u(r.0 as u64).i(r.2); }
                cases.line(&lb.0);
            }
        }
    }
    cases.write(&format!("{outdir}/C06.cases")).unwrap();
    rep.write(&format!("{outdir}/C06.report.json"));
}

pub fn replay(v: &serde_json::Value) -> bool {
    if v["kind"] == "window_independence" {
        let mut rep = Report::new("replay");
        let bad = window_independence(v["seed"].as_u64().unwrap_or(0), v["case"].as_u64().unwrap_or(0), &mut rep);
        println!("replay: {:?}", rep.violations.iter().map(|v| v["what"].as_str().unwrap_or("").to_string()).collect::<Vec<_>>());
        return bad;
    }
    if v["kind"] == "flow" {
        let cfg = FlowCfg::from_json(&v["cfg"]);
        return match run_flow(&cfg) { Err(e) => { println!("replay: {e}"); true } Ok(recs) => { let r = flow_oracle(&cfg, &recs); println!("replay: {:?}", r); r.is_some() } };
    }
    let cfg = SchedCfg::from_json(&v["cfg"]);
    let run = run(&cfg);
    let r = oracle(&cfg, &run);
    println!("replay: {:?}", r);
    r.is_some()
}
