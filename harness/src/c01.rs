//! C01 / C03 (tree part) — the real `nuts::draw` against the scripted mock Hamiltonian.
//!
//! * correspondence records (`draw ...`): orbit script, RNG tape, every Hamiltonian call the real
//!   code made, the measured Bernoulli thresholds, and the result -- replayed by Model/Tree.lean;
//! * direct oracle (independent of the model): the exact transition kernel of the implementation
//!   on a small orbit, assembled by exhaustive enumeration of direction words and Bernoulli
//!   outcomes (probabilities *measured* by bisection on the RNG word), tested for detailed
//!   balance, mirrored-trajectory symmetry and the C03 draw/depth/step inequalities.
use crate::mock::*;
use crate::util::*;
use nuts_rs::verif_hooks::*;
use nuts_rs::CpuMath;
use serde_json::json;
use std::collections::{BTreeMap, HashMap};
use std::panic::{catch_unwind, AssertUnwindSafe};

fn hash01(a: i64, b: i64, seed: u64) -> f64 {
    let mut r = Sm(seed ^ (a as u64).wrapping_mul(0x9E37_79B9_7F4A_7C15) ^ (b as u64).wrapping_mul(0xC2B2_AE3D_27D4_EB4F));
    r.next();
    r.unit()
}

#[derive(Clone, Debug)]
pub struct OrbitSpec {
    pub seed: u64,
    pub amp: f64,
    pub freq: f64,
    pub phase: f64,
    pub noise: f64,
    pub turn_len: f64,
    pub faults: Vec<(i64, u8)>, // (abs index, 1 recoverable / 2 unrecoverable)
    pub spike: Option<(i64, f64)>, // energy spike at abs index (divergence by energy error)
}

impl OrbitSpec {
    pub fn random(r: &mut Sm, with_faults: bool) -> OrbitSpec {
        let mut faults = vec![];
        let mut spike = None;
        if with_faults {
            match r.below(4) {
                0 => faults.push((r.below(17) as i64 - 8, 1)),
                1 => faults.push((r.below(17) as i64 - 8, 2)),
                2 => spike = Some((r.below(17) as i64 - 8, *r.pick(&[2000.0, f64::INFINITY, f64::NAN]))),
                _ => { faults.push((r.below(33) as i64 - 16, 1)); faults.push((r.below(33) as i64 - 16, 1)); }
            }
        }
        OrbitSpec {
            seed: r.next(), amp: *r.pick(&[0.0, 0.1, 1.0, 3.0, 30.0]), freq: r.range(0.05, 2.0), phase: r.range(0.0, 6.28),
            noise: *r.pick(&[0.0, 0.01, 0.5]), turn_len: *r.pick(&[1.0, 2.0, 4.0, 8.0, 16.0, 64.0, 1e9]), faults, spike,
        }
    }
    pub fn energy(&self, i: i64) -> f64 {
        if let Some((k, e)) = self.spike { if k == i { return e; } }
        self.amp * (self.freq * i as f64 + self.phase).sin() + self.noise * hash01(i, 77, self.seed)
    }
    pub fn build(&self) -> Orbit {
        let s = self.clone();
        let s2 = self.clone();
        let mut fault = HashMap::new();
        for (i, k) in &self.faults { fault.insert(*i, if *k == 1 { Fault::Recoverable } else { Fault::Unrecoverable }); }
        Orbit {
            energy: Box::new(move |i| s.energy(i)),
            turning: Box::new(move |lo, hi| {
                let span = (hi - lo) as f64;
                let p = (span / s2.turn_len).min(1.0);
                hash01(lo, hi, s2.seed) < p * p
            }),
            fault,
        }
    }
    pub fn to_json(&self) -> serde_json::Value {
        json!({"seed": self.seed, "amp": self.amp, "freq": self.freq, "phase": self.phase, "noise": self.noise,
               "turn_len": self.turn_len, "faults": self.faults, "spike": self.spike.map(|(i, e)| (i, e.to_bits()))})
    }
    pub fn from_json(v: &serde_json::Value) -> OrbitSpec {
        OrbitSpec {
            seed: v["seed"].as_u64().unwrap(), amp: v["amp"].as_f64().unwrap(), freq: v["freq"].as_f64().unwrap(),
            phase: v["phase"].as_f64().unwrap(), noise: v["noise"].as_f64().unwrap(), turn_len: v["turn_len"].as_f64().unwrap(),
            faults: v["faults"].as_array().map(|a| a.iter().map(|x| (x[0].as_i64().unwrap(), x[1].as_u64().unwrap() as u8)).collect()).unwrap_or_default(),
            spike: v["spike"].as_array().map(|a| (a[0].as_i64().unwrap(), f64::from_bits(a[1].as_u64().unwrap()))),
        }
    }
}

#[derive(Clone, Debug, PartialEq)]
pub enum Outcome {
    Ok { draw: i64, depth: u64, maxdepth: bool, div: Option<(i64, Option<i64>)> },
    Err,
    Panic(String),
}

pub struct Run {
    pub outcome: Outcome,
    pub events: Vec<Ev>,
    pub rng_calls: usize,
    pub exhausted: bool,
    pub n_leap: u64,
    pub collector: (f64, f64, u64, f64),
    /// (depth after merge, is_main, index of the tree's draw, log_size) per `merge_into`
    pub merges: Vec<(u64, bool, i64, f64)>,
}

/// Tape semantics used by the harness: every RNG call consumes one tape word (next_u32 takes the
/// upper half).  Beyond the tape the RNG yields 0 and the run is flagged `exhausted`.
pub fn run_draw(spec: &OrbitSpec, origin: i64, opt: &NutsOptions, tape: &[u64]) -> Run {
    let mut math: MMath = CpuMath::new(Dummy(1));
    let mut ham = MockHam::new(&mut math, spec.build(), origin);
    let log = ham.log.clone();
    let mut rng = ScriptRng::new(tape.to_vec());
    let mut coll = new_acceptance_collector();
    let mut init = ham.start_state(&mut math);
    let _ = take_merge_trace();
    let res = catch_unwind(AssertUnwindSafe(|| nuts_draw(&mut math, &mut init, &mut rng, &mut ham, opt, &mut coll)));
    let outcome = match res {
        Ok(Ok((state, info))) => Outcome::Ok {
            draw: state.index_in_trajectory(), depth: info.depth, maxdepth: info.reached_maxdepth,
            div: info.divergence_info.as_ref().map(|d| (d.start_idx_in_trajectory.unwrap_or(i64::MIN), d.end_idx_in_trajectory)),
        },
        Ok(Err(_)) => Outcome::Err,
        Err(p) => Outcome::Panic(p.downcast_ref::<String>().cloned().or_else(|| p.downcast_ref::<&str>().map(|s| s.to_string())).unwrap_or_default()),
    };
    let events: Vec<Ev> = log.borrow().clone();
    let n_leap = events.iter().filter(|e| matches!(e, Ev::Leap { .. })).count() as u64;
    Run { outcome, events, rng_calls: rng.pos, exhausted: rng.exhausted, n_leap, collector: acceptance_collector_values(&coll), merges: take_merge_trace() }
}

pub fn opts(maxdepth: u64, mindepth: u64, check: bool, extra: u64) -> NutsOptions {
    NutsOptions { maxdepth, mindepth, check_turning: check, store_divergences: true, target_integration_time: None,
        extra_doublings: extra, max_energy_error: 1000.0 }
}

/// Which tape positions are Bernoulli calls cannot be seen from outside; we find out by
/// perturbation: a position is a *decision point* if changing its word between 0 and MAX changes
/// the continuation.  For threshold measurement we bisect the word at position `k` (others fixed)
/// on the predicate "the run is identical to the run with word 0 at k".
fn same_run(a: &Run, b: &Run) -> bool {
    a.outcome == b.outcome && a.events.len() == b.events.len() && a.rng_calls == b.rng_calls
        && a.merges.len() == b.merges.len()
        && a.merges.iter().zip(b.merges.iter()).all(|(x, y)| x.0 == y.0 && x.1 == y.1 && x.2 == y.2 && x.3.to_bits() == y.3.to_bits())
        && a.events.iter().zip(b.events.iter()).all(|(x, y)| format!("{x:?}") == format!("{y:?}"))
}

/// smallest word `w` at tape position `k` for which the run differs from the run with word 0
/// there (None if the position is not a decision point).  For a Bernoulli call this is p_int.
pub fn threshold(spec: &OrbitSpec, origin: i64, opt: &NutsOptions, tape: &[u64], k: usize) -> Option<u64> {
    let mut t = tape.to_vec();
    t[k] = 0;
    let base = run_draw(spec, origin, opt, &t);
    t[k] = u64::MAX;
    let top = run_draw(spec, origin, opt, &t);
    if same_run(&base, &top) {
        return None;
    }
    let (mut lo, mut hi) = (0u64, u64::MAX); // base-like at lo, different at hi
    while hi - lo > 1 {
        let mid = lo + (hi - lo) / 2;
        t[k] = mid;
        let r = run_draw(spec, origin, opt, &t);
        if same_run(&base, &r) { lo = mid } else { hi = mid }
    }
    Some(hi)
}

fn ev_tokens(e: &Ev) -> Option<String> {
    match e {
        Ev::Leap { src, dst, outcome, energy_err, .. } => Some(format!("L {src} {dst} {outcome} {}", energy_err.to_bits())),
        Ev::Turn { a, b, res } => Some(format!("T {a} {b} {}", *res as u8)),
        Ev::Init { .. } => None,
    }
}

fn outcome_tokens(o: &Outcome) -> String {
    match o {
        Outcome::Ok { draw, depth, maxdepth, div } => match div {
            None => format!("R {draw} {depth} {} 0", *maxdepth as u8),
            Some((s, d)) => format!("R {draw} {depth} {} 1 {s} {}", *maxdepth as u8, d.map(|x| x.to_string()).unwrap_or("x".into())),
        },
        Outcome::Err => "E".into(),
        Outcome::Panic(_) => "P".into(),
    }
}

/// C03 inequalities on one run of the implementation (direct oracle).
fn c03_oracle(run: &Run, maxdepth: u64, extra: u64) -> Option<String> {
    // extra_doublings (non-default, outside the property's quantifier) may extend past maxdepth
    let maxdepth = maxdepth + extra;
    if let Outcome::Ok { draw, depth, maxdepth: flag, div } = &run.outcome {
        let d = *depth;
        if d > maxdepth { return Some(format!("depth {d} > maxdepth {maxdepth}")); }
        let n = run.n_leap;
        let lo = (1u64 << d) - 1;
        let hi = (1u64 << (d + 1)) - 1;
        // with extra doublings several partial doublings can be discarded after the U-turn, each adding leapfrogs:
        // the upper bound is a statement about the default extra_doublings = 0 (the property's quantifier)
        if n < lo || (extra == 0 && n > hi) { return Some(format!("n_steps {n} outside [2^{d}-1, 2^{}-1]", d + 1)); }
        if draw.unsigned_abs() > lo { return Some(format!("|index| {} > 2^{d}-1", draw)); }
        // the draw must be 0 or the destination of a successful leapfrog of this trajectory
        let visited = run.events.iter().any(|e| matches!(e, Ev::Leap { dst, outcome: 0, .. } if dst == draw));
        if *draw != 0 && !visited { return Some(format!("draw {draw} was never reached by a successful leapfrog")); }
        if *flag && (d != maxdepth - extra || div.is_some()) { return Some("maxdepth flag inconsistent".into()); }
        if maxdepth >= 1 && n < 1 { return Some("no leapfrog although maxdepth >= 1".into()); }
    }
    None
}

struct Leaf { prob: f64, outcome: Outcome, interval: (i64, i64), tape: Vec<u64>, n_leap: u64 }

/// Enumerate every decision path of the implementation from `origin` (exact kernel).
fn enumerate(spec: &OrbitSpec, origin: i64, opt: &NutsOptions, runs: &mut u64) -> Vec<Leaf> {
    let mut leaves = vec![];
    let mut stack: Vec<(Vec<u64>, f64)> = vec![(vec![], 1.0)];
    while let Some((prefix, prob)) = stack.pop() {
        // run with the prefix followed by zeros; see how many words it consumed
        let mut tape = prefix.clone();
        tape.resize(prefix.len() + 64, 0);
        let r = run_draw(spec, origin, opt, &tape);
        *runs += 1;
        if r.rng_calls <= prefix.len() {
            // the accepted tree: start plus the first 2^depth - 1 leapfrogs (a rejected doubling is the last one)
            let (mut lo, mut hi) = (0i64, 0i64);
            if let Outcome::Ok { depth, .. } = &r.outcome {
                let keep = (1usize << depth) - 1;
                for e in r.events.iter().filter(|e| matches!(e, Ev::Leap { .. })).take(keep) {
                    if let Ev::Leap { dst, .. } = e { lo = lo.min(*dst); hi = hi.max(*dst); }
                }
            }
            leaves.push(Leaf { prob, outcome: r.outcome, interval: (lo + origin, hi + origin), tape: prefix, n_leap: r.n_leap });
            continue;
        }
        // position prefix.len() is consumed: find its threshold
        let k = prefix.len();
        tape.truncate(r.rng_calls.max(k + 1));
        tape.resize(k + 64, 0);
        let th = threshold(spec, origin, opt, &tape, k);
        *runs += 66;
        match th {
            None => { let mut p = prefix.clone(); p.push(0); stack.push((p, prob)); }
            Some(t) => {
                let p_true = t as f64 / 18446744073709551616.0; // words < t behave like word 0
                let mut a = prefix.clone(); a.push(0); stack.push((a, prob * p_true));
                let mut b = prefix.clone(); b.push(u64::MAX); stack.push((b, prob * (1.0 - p_true)));
            }
        }
    }
    leaves
}

pub fn main(tier: &str, seed: u64, outdir: &str) {
    let mut cases = Cases::new();
    let mut rep = Report::new("C01");
    let thorough = tier == "thorough";

    // ---- the real integrator (both kinetic-energy kinds, diagonal and low-rank transformations): a backward step undoes a forward step --
    // what makes "the trajectory built from z' with the mirrored choices is the same trajectory" true of real trajectories (C02 owns the
    // integrator; here only this one consequence for the tree is checked)
    for case in 0..(if thorough { 4000u64 } else { 120 }) {
        let mut r = Sm::new(seed, "C01-rev", case);
        let n = 1 + r.below(12) as usize;
        let lowrank = case % 2 == 1;
        let cfg = crate::c02::Cfg { n, k: if lowrank { r.below(n as u64 + 1) as usize } else { 0 }, lowrank, exact_normal: case % 4 >= 2, target: (case % 5) as u8,
            eps: (if r.coin() { 1.0 } else { -1.0 }) * r.log_uniform(1e-3, 1.0), seed: r.next(), scale_range: *r.pick(&[0.0, 1.0, 3.0]), fresh: false };
        rep.evaluations += 1;
        rep.hit(if cfg.exact_normal { "integrator.exact_normal" } else { "integrator.euclidean" });
        if let Ok(out) = crate::c02::run(&cfg) {
            if let Some((key, what)) = crate::c02::oracle(&cfg, &out) {
                if key == "leapfrog.reversible" { rep.violation("c01.integrator_not_reversible", &what, json!({"kind": "rev", "cfg": cfg.to_json()})); }
            }
        }
    }

    // ---- logaddexp: bit-exact against the translated definition
    for case in 0..(if thorough { 120000 } else { 3000 }) {
        let mut r = Sm::new(seed, "C01-lae", case);
        let (a, b) = match case % 6 {
            0 => (special_f64(&mut r), special_f64(&mut r)),
            1 => { let x = r.range(-50.0, 50.0); (x, x) }
            2 => (r.range(-800.0, 800.0), r.range(-800.0, 800.0)),
            3 => { let x = r.range(-5.0, 5.0); (x, x + r.range(-1e-12, 1e-12)) }
            _ => (r.range(-30.0, 30.0), r.range(-30.0, 30.0)),
        };
        let v = logaddexp(a, b);
        cases.line(&LineB::new("lae").f(a).f(b).f(v).0);
        rep.evaluations += 1;
        // oracle: symmetric, and equals ln(e^a+e^b) where that is computable
        let w = logaddexp(b, a);
        if !(v == w || (v.is_nan() && w.is_nan())) {
            rep.violation("logaddexp.symmetric", &format!("logaddexp({a},{b})={v} but logaddexp({b},{a})={w}"), json!({"kind": "lae", "a": a.to_bits(), "b": b.to_bits()}));
        }
        if a.abs() < 300.0 && b.abs() < 300.0 {
            let reference = (a.exp() + b.exp()).ln();
            if (v - reference).abs() > 1e-9 * (1.0 + reference.abs()) {
                rep.violation("logaddexp.value", &format!("logaddexp({a},{b})={v}, ln(e^a+e^b)={reference}"), json!({"kind": "lae", "a": a.to_bits(), "b": b.to_bits()}));
            }
        }
    }

    // ---- random trajectories: correspondence records + C03 inequalities
    let ncase = if thorough { 40000 } else { 1200 };
    let mut distinct = std::collections::HashSet::new();
    for case in 0..ncase {
        let mut r = Sm::new(seed, "C01-draw", case);
        let with_faults = case % 3 == 2;
        let spec = OrbitSpec::random(&mut r, with_faults);
        let maxdepth = match case % 5 { 0 => 1 + r.below(3), 1 => 10, _ => 1 + r.below(7) };
        let mindepth = if case % 11 == 0 { r.below(maxdepth + 1) } else { 0 };
        let extra = if case % 13 == 0 { 1 + r.below(2) } else { 0 };
        let check = case % 17 != 0;
        let o = opts(maxdepth, mindepth, check, extra);
        let origin = r.below(9) as i64 - 4;
        let ntape = 4096;
        let tape: Vec<u64> = (0..ntape).map(|_| match r.below(8) { 0 => 0, 1 => u64::MAX, _ => r.next() }).collect();
        let run = run_draw(&spec, origin, &o, &tape);
        rep.evaluations += 1;
        if run.exhausted { rep.hit("draw.tape_exhausted"); continue; }
        let used = run.rng_calls;
        // measured thresholds for short paths
        let mut ths: Vec<String> = vec![];
        let measure = used <= 24 && !with_faults;
        for k in 0..used {
            if measure {
                match threshold(&spec, origin, &o, &tape[..used.max(1) + 8], k) { Some(t) => ths.push(t.to_string()), None => ths.push("n".into()) }
            } else { ths.push("u".into()); }
        }
        let evs: Vec<String> = run.events.iter().filter_map(ev_tokens).collect();
        let mut line = format!("draw {case} {maxdepth} {mindepth} {} {extra} {used}", check as u8);
        for k in 0..used { line.push_str(&format!(" {} {}", tape[k], ths[k])); }
        line.push_str(&format!(" {}", evs.len()));
        for e in &evs { line.push(' '); line.push_str(e); }
        line.push(' ');
        line.push_str(&outcome_tokens(&run.outcome));
        line.push_str(&format!(" M {}", run.merges.len()));
        for (d, main, idx, ls) in &run.merges { line.push_str(&format!(" {d} {} {idx} {}", *main as u8, ls.to_bits())); }
        let (m, ms, cnt, _) = run.collector;
        line.push_str(&format!(" A {} {} {}", m.to_bits(), ms.to_bits(), cnt));
        cases.line(&line);
        let key = match &run.outcome { Outcome::Ok { depth, maxdepth, div, .. } => format!("ok.depth{depth}.max{}.div{}", *maxdepth as u8, div.is_some() as u8), Outcome::Err => "err".into(), Outcome::Panic(_) => "panic".into() };
        rep.hit(&format!("draw.{key}"));
        if run.events.iter().any(|e| matches!(e, Ev::Turn { res: true, .. })) && used > 1 { rep.nontrivial += distinct.insert((case, 0)) as u64; }
        if let Outcome::Panic(msg) = &run.outcome {
            rep.violation("draw.panic", &format!("nuts::draw panicked: {msg}"), json!({"kind": "draw", "orbit": spec.to_json(), "origin": origin, "maxdepth": maxdepth, "mindepth": mindepth, "check": check, "extra": extra, "tape": tape[..used + 4].to_vec()}));
        }
        if let Some(msg) = c03_oracle(&run, maxdepth, extra) {
            rep.violation("draw.c03", &msg, json!({"kind": "draw", "orbit": spec.to_json(), "origin": origin, "maxdepth": maxdepth, "mindepth": mindepth, "check": check, "extra": extra, "tape": tape[..used + 4].to_vec()}));
        }
        if case < 2 { rep.sample(json!({"kind": "draw", "orbit": spec.to_json(), "maxdepth": maxdepth, "events": evs.iter().take(12).collect::<Vec<_>>(), "outcome": outcome_tokens(&run.outcome)})); }
    }

    // ---- exact kernel of the implementation on small orbits: detailed balance + mirror symmetry
    let nk = if thorough { 300 } else { 8 };
    let mut runs = 0u64;
    for case in 0..nk {
        let mut r = Sm::new(seed, "C01-kernel", case);
        let mut spec = OrbitSpec::random(&mut r, false);
        spec.amp = *r.pick(&[0.1, 1.0, 3.0]);
        spec.turn_len = *r.pick(&[2.0, 4.0, 8.0, 1e9]);
        // depth 4 makes the exact enumeration (all coin x Bernoulli paths from 31 starts) take hours
        let maxdepth = 1 + r.below(3);
        let o = opts(maxdepth, 0, true, 0);
        let width = (1i64 << maxdepth) - 1;
        // kernel rows for every start in a window; K[s][i]
        let mut k: BTreeMap<i64, BTreeMap<i64, f64>> = BTreeMap::new();
        let mut shapes: BTreeMap<i64, BTreeMap<((i64, i64), u64, bool), f64>> = BTreeMap::new();
        let starts: Vec<i64> = (-width..=width).collect();
        for &s in &starts {
            let leaves = enumerate(&spec, s, &o, &mut runs);
            let tot: f64 = leaves.iter().map(|l| l.prob).sum();
            if (tot - 1.0).abs() > 1e-9 {
                rep.violation("kernel.total", &format!("path probabilities from start {s} sum to {tot}"), json!({"kind": "kernel", "orbit": spec.to_json(), "maxdepth": maxdepth, "s": s, "i": s}));
            }
            for l in &leaves {
                if let Outcome::Ok { draw, depth, maxdepth: mflag, .. } = &l.outcome {
                    *k.entry(s).or_default().entry(s + draw).or_insert(0.0) += l.prob;
                    *shapes.entry(s).or_default().entry((l.interval, *depth, *mflag)).or_insert(0.0) += l.prob;
                }
            }
            rep.evaluations += leaves.len() as u64;
        }
        // detailed balance on pairs well inside the window
        let mut worst = 0f64;
        for &s in &starts {
            for &i in &starts {
                if i <= s { continue; }
                let ksi = k.get(&s).and_then(|m| m.get(&i)).cloned().unwrap_or(0.0);
                let kis = k.get(&i).and_then(|m| m.get(&s)).cloned().unwrap_or(0.0);
                let lhs = (-spec.energy(s)).exp() * ksi;
                let rhs = (-spec.energy(i)).exp() * kis;
                let err = (lhs - rhs).abs() / (lhs.abs() + rhs.abs() + 1e-300);
                if lhs.max(rhs) > 1e-12 { worst = worst.max(err); }
                if lhs.max(rhs) > 1e-12 && err > 1e-7 {
                    rep.violation("kernel.detailed_balance", &format!("pi(s)K(s,i) = {lhs} but pi(i)K(i,s) = {rhs} for s={s}, i={i}, maxdepth={maxdepth}"),
                        json!({"kind": "kernel", "orbit": spec.to_json(), "maxdepth": maxdepth, "s": s, "i": i}));
                }
                if ksi > 0.0 { rep.nontrivial += distinct.insert((case * 100000 + (s + 64) as u64 * 200 + (i + 64) as u64, 1)) as u64; }
            }
        }
        // mirror symmetry: the probability of covering interval I (with depth d) is the same from
        // every start inside I -- 2^-d per start (uniform over the mirrored direction words)
        for (&s, m) in &shapes {
            for (&(iv, d, mf), &p) in m {
                for j in iv.0..=iv.1 {
                    if j < -width || j > width || j == s { continue; }
                    let q = shapes.get(&j).and_then(|mm| mm.get(&(iv, d, mf))).cloned().unwrap_or(0.0);
                    if (p - q).abs() > 1e-9 {
                        rep.violation("kernel.mirror", &format!("trajectory covering {:?} (depth {d}) has probability {p} from start {s} but {q} from start {j}", iv),
                            json!({"kind": "kernel", "orbit": spec.to_json(), "maxdepth": maxdepth, "s": s, "i": j}));
                    }
                }
            }
        }
        rep.hit(&format!("kernel.maxdepth{maxdepth}"));
        rep.notes.push(format!("kernel case {case}: maxdepth {maxdepth}, {} starts, worst relative detailed-balance residual {worst:.2e}", starts.len()));
    }
    rep.notes.push(format!("kernel enumeration: {runs} implementation runs"));
    cases.write(&format!("{outdir}/C01.cases")).unwrap();
    rep.write(&format!("{outdir}/C01.report.json"));
}

pub fn replay(v: &serde_json::Value) -> bool {
    match v["kind"].as_str().unwrap_or("") {
        "rev" => {
            let cfg = crate::c02::Cfg::from_json(&v["cfg"]);
            match crate::c02::run(&cfg) { Ok(out) => { let r = crate::c02::oracle(&cfg, &out); println!("replay: {:?}", r); matches!(r, Some((k, _)) if k == "leapfrog.reversible") } Err(e) => { println!("replay: run error {e}"); false } }
        }
        "lae" => {
            let a = f64::from_bits(v["a"].as_u64().unwrap());
            let b = f64::from_bits(v["b"].as_u64().unwrap());
            let (x, y) = (logaddexp(a, b), logaddexp(b, a));
            println!("replay: logaddexp({a},{b})={x}, swapped={y}, reference={}", (a.exp() + b.exp()).ln());
            !(x == y || (x.is_nan() && y.is_nan())) || (a.abs() < 300.0 && b.abs() < 300.0 && (x - (a.exp() + b.exp()).ln()).abs() > 1e-9 * (1.0 + x.abs()))
        }
        "draw" => {
            let spec = OrbitSpec::from_json(&v["orbit"]);
            let o = opts(v["maxdepth"].as_u64().unwrap(), v["mindepth"].as_u64().unwrap(), v["check"].as_bool().unwrap(), v["extra"].as_u64().unwrap());
            let tape: Vec<u64> = v["tape"].as_array().unwrap().iter().map(|x| x.as_u64().unwrap()).collect();
            let run = run_draw(&spec, v["origin"].as_i64().unwrap(), &o, &tape);
            println!("replay: outcome {:?}, {} leapfrogs", run.outcome, run.n_leap);
            matches!(run.outcome, Outcome::Panic(_)) || c03_oracle(&run, v["maxdepth"].as_u64().unwrap(), v["extra"].as_u64().unwrap()).is_some()
        }
        "kernel" => {
            let spec = OrbitSpec::from_json(&v["orbit"]);
            let maxdepth = v["maxdepth"].as_u64().unwrap();
            let o = opts(maxdepth, 0, true, 0);
            let (s, i) = (v["s"].as_i64().unwrap(), v["i"].as_i64().unwrap());
            let mut runs = 0;
            let row = |a: i64, b: i64, runs: &mut u64| -> f64 {
                enumerate(&spec, a, &o, runs).iter().filter(|l| matches!(l.outcome, Outcome::Ok { draw, .. } if a + draw == b)).map(|l| l.prob).sum()
            };
            let (ksi, kis) = (row(s, i, &mut runs), row(i, s, &mut runs));
            let (lhs, rhs) = ((-spec.energy(s)).exp() * ksi, (-spec.energy(i)).exp() * kis);
            println!("replay: pi(s)K(s,i)={lhs}  pi(i)K(i,s)={rhs}");
            (lhs - rhs).abs() / (lhs.abs() + rhs.abs() + 1e-300) > 1e-7
        }
        _ => false,
    }
}
