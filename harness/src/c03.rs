//! C03 (public path) — every draw of real chains is a state the integrator reached in that
//! trajectory and the statistics describe it: the returned position is looked up in the density
//! evaluation log; logp / gradient statistics must equal the density's logged values bit-exactly
//! (the symptom a recycled, still-referenced pool buffer would produce is a mismatch here).
use crate::stats::StatRow;
use crate::targets::*;
use crate::util::*;
use nuts_rs::verif_hooks::StatsDims;
use nuts_rs::{Chain, CpuMath, DiagMclmcSettings, DiagNutsSettings, KineticEnergyKind, LowRankNutsSettings, Settings, Storable};
use rand::SeedableRng;
use serde_json::json;

#[derive(Clone, Debug)]
pub struct Cfg { pub preset: u8, pub dim: usize, pub maxdepth: u64, pub mindepth: u64, pub num_tune: u64, pub num_draws: u64, pub kind: u8, pub exact_normal: bool, pub fault_period: u64, pub seed: u64, pub tit: Option<f64> }

impl Cfg {
    pub fn to_json(&self) -> serde_json::Value {
        json!({"preset": self.preset, "dim": self.dim, "maxdepth": self.maxdepth, "mindepth": self.mindepth, "num_tune": self.num_tune,
            "num_draws": self.num_draws, "kind": self.kind, "exact_normal": self.exact_normal, "fault_period": self.fault_period, "seed": self.seed, "tit": self.tit})
    }
    pub fn from_json(v: &serde_json::Value) -> Cfg {
        Cfg { preset: v["preset"].as_u64().unwrap() as u8, dim: v["dim"].as_u64().unwrap() as usize, maxdepth: v["maxdepth"].as_u64().unwrap(),
            mindepth: v["mindepth"].as_u64().unwrap(), num_tune: v["num_tune"].as_u64().unwrap(), num_draws: v["num_draws"].as_u64().unwrap(),
            kind: v["kind"].as_u64().unwrap() as u8, exact_normal: v["exact_normal"].as_bool().unwrap(), fault_period: v["fault_period"].as_u64().unwrap(),
            seed: v["seed"].as_u64().unwrap(), tit: v["tit"].as_f64() }
    }
    fn target(&self) -> Target {
        let d = self.dim;
        let mut t = match self.kind {
            0 => Target::iso(d, 1.0, 2.0),
            1 => Target::new(Kind::Diag { mu: (0..d).map(|i| i as f64).collect(), sigma: (0..d).map(|i| 10f64.powi(i as i32 % 5 - 2)).collect() }, d),
            2 => Target::new(Kind::StudentT { nu: 5.0, mu: vec![0.5; d], sigma: vec![1.5; d] }, d),
            _ => Target::new(Kind::Quartic, d),
        }.with_log();
        if self.fault_period > 0 { t.periodic = Some((self.fault_period, FaultKind::Recoverable)); }
        t
    }
}

/// returns Err(description) on the first inconsistency
pub fn check(cfg: &Cfg, rep: Option<&mut Report>) -> Result<u64, String> {
    macro_rules! go {
        ($settings:expr, $nuts:expr) => {{
            let target = cfg.target();
            let log = target.log.clone().unwrap();
            let math = CpuMath::new(target);
            let mut rng = rand::rngs::ChaCha8Rng::seed_from_u64(cfg.seed);
            let mut chain = $settings.new_chain(0, math, &mut rng);
            let start = vec![0.25; cfg.dim];
            // a periodic injected fault may hit one of the evaluations of the initialisation; rejecting such a start point is correct
            // behaviour (C05/C13 own the initialisation paths), the run is simply not usable here
            if let Err(e) = chain.set_position(&start) { if format!("{e}").contains("recoverable: true") { return Ok(0); } return Err(format!("set_position failed: {e}")); }
            let mut prev_pos: Vec<f64> = start.clone();
            let mut nontrivial = 0u64;
            for d in 0..(cfg.num_tune + cfg.num_draws) {
                let first_eval = log.lock().unwrap().len();
                let (pos, _exp, mut stats, progress) = match chain.expanded_draw() {
                    Ok(x) => x,
                    Err(e) => { let m = format!("{e}"); if m.contains("recoverable: true") { return Ok(nontrivial); } return Err(format!("draw {d} failed: {e}")); }
                };
                let dims = { let m = chain.math(); StatsDims::from(&*m) };
                let row = StatRow(stats.get_all(&dims).into_iter().map(|(n, v)| (n.to_string(), v)).collect());
                let evals = log.lock().unwrap();
                let upos = row.vecf("unconstrained_draw").ok_or("no unconstrained_draw stat")?;
                if upos.iter().zip(pos.iter()).any(|(a, b)| a.to_bits() != b.to_bits()) {
                    return Err(format!("draw {d}: returned position differs from the unconstrained_draw statistic"));
                }
                let idx = row.i("index_in_trajectory").ok_or("no index_in_trajectory")?;
                let unchanged = pos.iter().zip(prev_pos.iter()).all(|(a, b)| a.to_bits() == b.to_bits());
                // locate the evaluation that produced this position: within this draw, or (idx 0 / divergent MCLMC) earlier
                let rec = evals[first_eval..].iter().rev().find(|r| r.fault.is_none() && r.pos.iter().zip(pos.iter()).all(|(a, b)| a.to_bits() == b.to_bits()))
                    .or_else(|| evals[..first_eval].iter().rev().find(|r| r.pos.iter().zip(pos.iter()).all(|(a, b)| a.to_bits() == b.to_bits())));
                let rec = match rec { Some(r) => r, None => return Err(format!("draw {d}: returned position {:?} was never evaluated by the density (idx {idx})", &pos[..pos.len().min(3)])) };
                if $nuts && idx != 0 && !evals[first_eval..].iter().any(|r| std::ptr::eq(r, rec)) {
                    return Err(format!("draw {d}: index {idx} != 0 but the position was not reached in this trajectory"));
                }
                let logp = row.f("logp").ok_or("no logp stat")?;
                if logp.to_bits() != rec.logp.to_bits() {
                    return Err(format!("draw {d}: logp statistic {logp} != density value {} at the returned position", rec.logp));
                }
                let grad = row.vecf("gradient").ok_or("no gradient stat")?;
                if grad.iter().zip(rec.grad.iter()).any(|(a, b)| a.to_bits() != b.to_bits()) {
                    return Err(format!("draw {d}: gradient statistic differs from the density's gradient at the returned position"));
                }
                if !pos.iter().all(|x| x.is_finite()) || !logp.is_finite() { return Err(format!("draw {d}: non-finite position/logp returned")); }
                if $nuts {
                    let depth = row.u("depth").ok_or("no depth")?;
                    let n_steps = row.u("n_steps").ok_or("no n_steps")?;
                    let mflag = row.b("maxdepth_reached").ok_or("no maxdepth_reached")?;
                    let div = row.b("diverging").unwrap_or(false);
                    let eff_max = if cfg.tit.is_some() { cfg.maxdepth } else { cfg.maxdepth };
                    if depth > eff_max { return Err(format!("draw {d}: depth {depth} > maxdepth {}", cfg.maxdepth)); }
                    if cfg.dim > 0 {
                        let lo = (1u64 << depth) - 1;
                        let hi = (1u64 << (depth + 1)) - 1;
                        if n_steps < lo || n_steps > hi { return Err(format!("draw {d}: n_steps {n_steps} outside [2^{depth}-1, 2^{}-1]", depth + 1)); }
                        if idx.unsigned_abs() > lo { return Err(format!("draw {d}: |index_in_trajectory| {idx} > 2^{depth}-1")); }
                        if n_steps < 1 && cfg.maxdepth >= 1 { return Err(format!("draw {d}: no integration step")); }
                        let n_evals = evals.len() - first_eval;
                        if (n_steps as usize) > n_evals { return Err(format!("draw {d}: n_steps {n_steps} > density evaluations in this draw {n_evals}")); }
                    }
                    if mflag && (depth != cfg.maxdepth || div) && cfg.tit.is_none() { return Err(format!("draw {d}: maxdepth_reached but depth {depth}, maxdepth {}, diverging {div}", cfg.maxdepth)); }
                    // index 0 iff the chain did not move.  Exception that is not a property of the code: when the step size has collapsed so far
                    // that x + eps*v rounds to x (seen after long runs of injected faults at every 32nd evaluation: step 8e-17), every state of the
                    // trajectory has bitwise the start position; "did not move" then cannot be read off the position.
                    let frozen = evals[first_eval..].iter().all(|r| r.pos.iter().zip(prev_pos.iter()).all(|(a, b)| a.to_bits() == b.to_bits()));
                    if (idx == 0) != unchanged && !(frozen && idx != 0) {
                        return Err(format!("draw {d}: index_in_trajectory {idx} but position {} (step size {})", if unchanged { "unchanged" } else { "changed" }, progress.step_size));
                    }
                    // energy error: relative to the start state of THIS trajectory (zero for a draw that is the start state), and one of the
                    // energy errors the integrator saw in this trajectory (the step-size collector registers every visited state)
                    let eerr = row.f("energy_error").ok_or("no energy_error stat")?;
                    if idx == 0 && eerr != 0.0 { return Err(format!("draw {d}: the draw is the start state of its trajectory (index 0) but energy_error = {eerr}")); }
                    if let Some(mx) = row.f("max_energy_error") {
                        if idx != 0 && !div && eerr.is_finite() && mx.is_finite() && eerr.abs() > mx.abs() {
                            return Err(format!("draw {d}: |energy_error| {} of the returned state exceeds the largest energy error seen in its trajectory ({})", eerr.abs(), mx.abs()));
                        }
                    }
                    if progress.num_steps != n_steps { return Err(format!("draw {d}: Progress.num_steps {} != n_steps stat {n_steps}", progress.num_steps)); }
                    if depth >= 2 && idx != 0 { nontrivial += 1; }
                } else {
                    if progress.diverging && !unchanged { return Err(format!("draw {d}: divergent MCLMC draw moved the position")); }
                    nontrivial += 1;
                }
                drop(evals);
                prev_pos = pos.to_vec();
            }
            Ok(nontrivial)
        }};
    }
    let _ = rep;
    let kin = if cfg.exact_normal { KineticEnergyKind::ExactNormal } else { KineticEnergyKind::Euclidean };
    match cfg.preset {
        0 => { let mut s = DiagNutsSettings::default(); s.num_tune = cfg.num_tune; s.num_draws = cfg.num_draws; s.maxdepth = cfg.maxdepth; s.mindepth = cfg.mindepth; s.store_gradient = true; s.store_unconstrained = true; s.trajectory_kind = kin; s.target_integration_time = cfg.tit; go!(s, true) }
        1 => { let mut s = LowRankNutsSettings::default(); s.num_tune = cfg.num_tune; s.num_draws = cfg.num_draws; s.maxdepth = cfg.maxdepth; s.mindepth = cfg.mindepth; s.store_gradient = true; s.store_unconstrained = true; s.trajectory_kind = kin; s.target_integration_time = cfg.tit; go!(s, true) }
        _ => { let mut s = DiagMclmcSettings::default(); s.num_tune = cfg.num_tune; s.num_draws = cfg.num_draws; s.store_gradient = true; s.store_unconstrained = true; go!(s, false) }
    }
}

/// depth reached by the REAL `nuts::draw` with a target integration time on a flat mock orbit that never (always) U-turns
fn window_depth(target_time: f64, step: f64, mindepth: u64, maxdepth: u64, always_turn: bool, tape_seed: u64) -> Result<u64, String> {
    use crate::mock::*;
    use nuts_rs::verif_hooks::{new_acceptance_collector, nuts_draw, take_merge_trace, NutsOptions};
    let mut math: MMath = CpuMath::new(Dummy(1));
    let orbit = Orbit { energy: Box::new(|_| 0.0), turning: Box::new(move |_, _| always_turn), fault: Default::default() };
    let mut ham = MockHam::new(&mut math, orbit, 0);
    ham.step_size = step;
    let mut r = Sm::new(tape_seed, "C03-window-tape", 0);
    let mut rng = ScriptRng::new((0..4096).map(|_| r.next()).collect());
    let mut coll = new_acceptance_collector();
    let mut init = ham.start_state(&mut math);
    let _ = take_merge_trace();
    let opt = NutsOptions { maxdepth, mindepth, check_turning: true, store_divergences: false, target_integration_time: Some(target_time), extra_doublings: 0, max_energy_error: 1000.0 };
    let res = std::panic::catch_unwind(std::panic::AssertUnwindSafe(|| nuts_draw(&mut math, &mut init, &mut rng, &mut ham, &opt, &mut coll)));
    let _ = take_merge_trace();
    match res { Ok(Ok((_s, info))) => Ok(info.depth), Ok(Err(e)) => Err(format!("error: {e}")), Err(_) => Err("panic".into()) }
}

pub fn main(tier: &str, seed: u64, outdir: &str) {
    let mut rep = Report::new("C03");
    let mut cases = Cases::new();
    // ---- depth window derived from target_integration_time (mock orbits, real nuts::draw)
    let nw = if tier == "thorough" { 6000 } else { 300 };
    for case in 0..nw {
        let mut r = Sm::new(seed, "C03-window", case);
        let maxdepth = 1 + r.below(9);
        let mindepth = if case % 3 == 0 { r.below(maxdepth + 1) } else { 0 };
        let step = r.log_uniform(0.01, 3.0);
        // target times below one step, around powers of two of the step, and far beyond 2^maxdepth steps
        let target = match case % 4 { 0 => step * r.range(0.01, 1.2), 1 => step * (1u64 << r.below(10)) as f64 * *r.pick(&[0.999, 1.0, 1.001]), 2 => step * r.log_uniform(1.0, 5000.0), _ => r.log_uniform(0.05, 300.0) };
        rep.evaluations += 2;
        let replay = json!({"kind": "window", "target": target, "step": step, "mindepth": mindepth, "maxdepth": maxdepth, "seed": seed, "case": case});
        match (window_depth(target, step, mindepth, maxdepth, false, seed ^ case), window_depth(target, step, mindepth, maxdepth, true, seed ^ case)) {
            (Ok(dn), Ok(da)) => {
                if dn > maxdepth || da > maxdepth { rep.violation("c03.window_exceeds_maxdepth", &format!("target_integration_time {target} with step {step}: depth {} exceeds maxdepth {maxdepth}", dn.max(da)), replay); }
                else if maxdepth >= 1 && dn < 1 { rep.violation("c03.window_no_step", &format!("target_integration_time {target} with step {step}: a never-turning trajectory stopped at depth {dn}"), replay); }
                rep.nontrivial += (dn < maxdepth) as u64;
                cases.line(&LineB::new("window").u(case).f(target).f(step).u(mindepth).u(maxdepth).u(dn).u(da).0);
            }
            (a, b) => rep.violation("c03.window_error", &format!("nuts::draw failed with target_integration_time {target}, step {step}: {:?} / {:?}", a.err(), b.err()), replay),
        }
    }
    cases.write(&format!("{outdir}/C03.cases")).unwrap();
    let n = if tier == "thorough" { 3000 } else { 80 };
    for case in 0..n {
        let mut r = Sm::new(seed, "C03", case);
        let preset = (case % 3) as u8;
        let dim = match case % 7 { 0 => 1, 1 => 2, 2 => 17, 3 => if tier == "thorough" { 100 } else { 30 }, _ => 1 + r.below(6) as usize };
        let dim = if preset == 2 { dim.max(2) } else { dim };
        let cfg = Cfg { preset, dim, maxdepth: 1 + r.below(10), mindepth: if case % 5 == 0 { r.below(3) } else { 0 },
            num_tune: 30 + r.below(120), num_draws: 30 + r.below(if tier == "thorough" { 400 } else { 60 }), kind: (case / 3 % 4) as u8,
            exact_normal: case % 4 == 1, fault_period: if case % 3 == 1 { 13 + r.below(50) } else { 0 }, seed: r.next(),
            tit: if case % 11 == 5 { Some(r.range(0.5, 20.0)) } else { None } };
        let cfg = Cfg { mindepth: cfg.mindepth.min(cfg.maxdepth), ..cfg };
        rep.evaluations += cfg.num_tune + cfg.num_draws;
        rep.hit(&format!("preset{}.dim{}", cfg.preset, match cfg.dim { 1 => "1", 2..=6 => "2-6", 7..=29 => "7-29", _ => "30+" }));
        match check(&cfg, None) {
            Ok(k) => rep.nontrivial += k,
            Err(msg) => rep.violation("c03.draw_state", &msg, json!({"kind": "c03", "cfg": cfg.to_json()})),
        }
        if case < 2 { rep.sample(cfg.to_json()); }
    }
    rep.write(&format!("{outdir}/C03.report.json"));
}

pub fn replay(v: &serde_json::Value) -> bool {
    if v["kind"] == "window" {
        let (t, e, lo, hi) = (v["target"].as_f64().unwrap(), v["step"].as_f64().unwrap(), v["mindepth"].as_u64().unwrap(), v["maxdepth"].as_u64().unwrap());
        let tape = v["seed"].as_u64().unwrap_or(0) ^ v["case"].as_u64().unwrap_or(0);
        let (a, b) = (window_depth(t, e, lo, hi, false, tape), window_depth(t, e, lo, hi, true, tape));
        println!("replay: never-turning depth {:?}, always-turning depth {:?}, maxdepth {hi}", a, b);
        return match (a, b) { (Ok(x), Ok(y)) => x > hi || y > hi || (hi >= 1 && x < 1), _ => true };
    }
    let cfg = Cfg::from_json(&v["cfg"]);
    let r = check(&cfg, None);
    println!("replay: {:?}", r);
    r.is_err()
}
