//! C02 — the real `TransformedHamiltonian::leapfrog` with explicit Diag / LowRank transformations,
//! both kinetic energies, all dimensions; records for Model/Leapfrog.lean and direct oracles:
//! forward-then-backward returns the start, dense-matrix textbook leapfrog reference, logdet vs
//! ln|det F|, round trip of the transformation, ExactNormal conservation, finite-difference Jacobian.
use crate::targets::*;
use crate::util::*;
use nuts_rs::verif_hooks::*;
use nuts_rs::{CpuMath, LowRankSettings, Math};
use serde_json::json;

type M = CpuMath<Target>;

#[derive(Clone, Debug)]
pub struct Cfg { pub n: usize, pub k: usize, pub lowrank: bool, pub exact_normal: bool, pub target: u8, pub eps: f64, pub seed: u64, pub scale_range: f64, pub fresh: bool }

impl Cfg {
    pub fn to_json(&self) -> serde_json::Value { json!({"n": self.n, "k": self.k, "lowrank": self.lowrank, "exact_normal": self.exact_normal, "target": self.target, "eps": self.eps, "seed": self.seed, "fresh": self.fresh, "scale_range": self.scale_range}) }
    pub fn from_json(v: &serde_json::Value) -> Cfg { Cfg { n: v["n"].as_u64().unwrap() as usize, k: v["k"].as_u64().unwrap() as usize, lowrank: v["lowrank"].as_bool().unwrap(), exact_normal: v["exact_normal"].as_bool().unwrap(), target: v["target"].as_u64().unwrap() as u8, eps: v["eps"].as_f64().unwrap(), seed: v["seed"].as_u64().unwrap(), scale_range: v["scale_range"].as_f64().unwrap() , fresh: v["fresh"].as_bool().unwrap_or(false) } }
}

pub struct Params { pub mean: Vec<f64>, pub stds: Vec<f64>, pub vals: Vec<f64>, pub vecs: Vec<f64>, pub mu: Vec<f64> }

/// random orthonormal columns by Gram-Schmidt
fn orthonormal(r: &mut Sm, n: usize, k: usize) -> Vec<f64> {
    let mut cols: Vec<Vec<f64>> = vec![];
    while cols.len() < k {
        let mut v: Vec<f64> = (0..n).map(|_| r.normal()).collect();
        for _ in 0..2 { for c in &cols { let d: f64 = c.iter().zip(v.iter()).map(|(a, b)| a * b).sum(); for i in 0..n { v[i] -= d * c[i]; } } }
        let nrm = v.iter().map(|x| x * x).sum::<f64>().sqrt();
        if nrm > 1e-8 { cols.push(v.iter().map(|x| x / nrm).collect()); }
    }
    cols.concat()
}

pub fn gen_params(cfg: &Cfg, r: &mut Sm) -> Params {
    let n = cfg.n;
    Params {
        mean: (0..n).map(|_| r.range(-3.0, 3.0)).collect(),
        stds: (0..n).map(|_| 10f64.powf(r.range(-cfg.scale_range, cfg.scale_range))).collect(),
        vals: (0..cfg.k).map(|_| 10f64.powf(r.range(-cfg.scale_range.min(3.0), cfg.scale_range.min(3.0)))).collect(),
        vecs: orthonormal(r, n, cfg.k),
        mu: (0..n).map(|_| r.range(-1.0, 1.0)).collect(),
    }
}

fn target(cfg: &Cfg, r: &mut Sm) -> Target {
    let n = cfg.n;
    match cfg.target {
        0 => Target::iso(n, 0.0, 1.0),
        1 => Target::new(Kind::Diag { mu: (0..n).map(|_| r.range(-2.0, 2.0)).collect(), sigma: (0..n).map(|_| r.log_uniform(0.1, 10.0)).collect() }, n),
        2 => { // dense SPD precision A Aᵀ + I
            let a: Vec<f64> = (0..n * n).map(|_| r.normal() * 0.5).collect();
            let mut p = vec![0.0; n * n];
            for i in 0..n { for j in 0..n { let mut s = if i == j { 1.0 } else { 0.0 }; for l in 0..n { s += a[i * n + l] * a[j * n + l]; } p[i * n + j] = s; } }
            Target::new(Kind::Dense { mu: vec![0.3; n], prec: p }, n) }
        3 => Target::new(Kind::StudentT { nu: 4.0, mu: vec![0.0; n], sigma: vec![1.0; n] }, n),
        _ => Target::new(Kind::Quartic, n),
    }
}

pub struct PointRec { pub x: Vec<f64>, pub gx: Vec<f64>, pub y: Vec<f64>, pub gy: Vec<f64>, pub v: Vec<f64>, pub logp: f64, pub logdet: f64, pub kinetic: f64, pub energy: f64 }

fn rec<MM: Math>(math: &mut MM, s: &State<MM, TransformedPoint<MM>>) -> PointRec {
    let [x, gx, y, gy, v] = s.point().verif_vectors(math);
    let (logp, logdet, kinetic, _init, _id) = s.point().verif_scalars();
    PointRec { x: x.to_vec(), gx: gx.to_vec(), y: y.to_vec(), gy: gy.to_vec(), v: v.to_vec(), logp, logdet, kinetic, energy: s.energy() }
}

pub struct StepOut { pub start: PointRec, pub fwd: Option<PointRec>, pub back: Option<PointRec>, pub params: Params, pub roundtrip_err: f64, pub inv_logdet: f64 }

struct NoColl;
impl<MM: Math, P: Point<MM>> Collector<MM, P> for NoColl {}

pub fn run(cfg: &Cfg) -> Result<StepOut, String> {
    let mut r = Sm::new(cfg.seed, "C02", 0);
    let mut params = gen_params(cfg, &mut r);
    let tgt = target(cfg, &mut r);
    let mut math: M = CpuMath::new(tgt);
    // the low-rank transformation as it is right after initialisation (`update_from_grad`: no spectral part yet, scales from the
    // gradient at the start point): its parameters are read back through the hook accessor
    let fresh_t = if cfg.lowrank && cfg.fresh {
        let mut t = new_lowrank_matrix(&mut math, LowRankSettings::default());
        let grad: Vec<f64> = (0..cfg.n).map(|_| (if r.coin() { 1.0 } else { -1.0 }) * r.log_uniform(1e-3, 1e3)).collect();
        let mut pv = math.new_array(); math.read_from_slice(&mut pv, &params.mean);
        let mut gv = math.new_array(); math.read_from_slice(&mut gv, &grad);
        t.update_from_grad(&mut math, &pv, &gv, 1.0, (1e-20, 1e20));
        let ((stds, _inv, mean, _, _), _, _, inner) = t.verif_fields(&mut math);
        if inner.is_some() { return Err("update_from_grad left a spectral part".into()); }
        params.stds = stds.to_vec(); params.mean = mean.to_vec(); params.vals = vec![]; params.vecs = vec![]; params.mu = vec![0.0; cfg.n];
        Some(t)
    } else { None };
    let kind = if cfg.exact_normal { KineticEnergyKind::ExactNormal } else { KineticEnergyKind::Euclidean };
    let x0: Vec<f64> = (0..cfg.n).map(|i| params.mean[i] + params.stds[i] * r.normal()).collect();
    let v0: Vec<f64> = (0..cfg.n).map(|_| r.normal()).collect();
    macro_rules! go { ($trafo:expr) => {{
        let mut ham = TransformedHamiltonian::new(&mut math, $trafo, kind);
        *ham.step_size_mut() = cfg.eps.abs();
        let mut state = ham.init_state(&mut math, &x0).map_err(|e| format!("init_state: {e}"))?;
        state.try_point_mut().unwrap().verif_set_velocity(&mut math, &v0);
        let mut rng = crate::mock::ScriptRng::new(vec![]);
        ham.initialize_trajectory(&mut math, &mut state, false, &mut rng).map_err(|e| format!("initialize_trajectory: {e}"))?;
        let start = rec(&mut math, &state);
        // transformation round trip through the public trait
        let mut inv_logdet = f64::NAN;
        let roundtrip_err = {
            let t = ham.transformation();
            let mut ux = math.new_array(); math.read_from_slice(&mut ux, &start.x);
            let mut ug = math.new_array(); math.read_from_slice(&mut ug, &start.gx);
            let mut ty = math.new_array(); let mut tg = math.new_array();
            inv_logdet = t.inv_transform_normalize(&mut math, &ux, &ug, &mut ty, &mut tg).map_err(|_| "inv_transform_normalize".to_string())?;
            let mut bx = math.new_array(); let mut bg = math.new_array(); let mut tg2 = math.new_array();
            t.init_from_transformed_position(&mut math, &mut bx, &mut bg, &ty, &mut tg2).map_err(|_| "init_from_transformed_position".to_string())?;
            let bxv = math.box_array(&bx);
            bxv.iter().zip(start.x.iter()).zip(params.stds.iter()).map(|((a, b), s)| (a - b).abs() / (s.abs() + b.abs() + 1e-300)).fold(0.0, f64::max)
        };
        let dir = if cfg.eps >= 0.0 { Direction::Forward } else { Direction::Backward };
        let rdir = if cfg.eps >= 0.0 { Direction::Backward } else { Direction::Forward };
        let e0 = state.point().initial_energy();
        let fwd = match ham.leapfrog(&mut math, &state, dir, 1.0, e0, f64::INFINITY, &mut NoColl) { LeapfrogResult::Ok(s) => Some(s), _ => None };
        let back = match &fwd { Some(s) => match ham.leapfrog(&mut math, s, rdir, 1.0, e0, f64::INFINITY, &mut NoColl) { LeapfrogResult::Ok(b) => Some(b), _ => None }, None => None };
        let fr = fwd.as_ref().map(|s| rec(&mut math, s));
        let br = back.as_ref().map(|s| rec(&mut math, s));
        Ok(StepOut { start, fwd: fr, back: br, params, roundtrip_err, inv_logdet })
    }}; }
    if let Some(t) = fresh_t {
        go!(t)
    } else if cfg.lowrank {
        let t = new_lowrank_transform(&mut math, LowRankSettings::default(), &params.stds, &params.mean, &params.vals, &params.vecs, &params.mu);
        go!(t)
    } else {
        let t = new_diag_transform(&mut math, &params.stds, &params.mean);
        go!(t)
    }
}

// ---------- dense reference: F = diag(s) (I + U (L^{1/2} - I) Uᵀ), x = F y + shift
fn dense_f(cfg: &Cfg, p: &Params) -> Vec<f64> {
    let n = cfg.n;
    let mut f = vec![0.0; n * n];
    for i in 0..n { for j in 0..n {
        let mut a = if i == j { 1.0 } else { 0.0 };
        if cfg.lowrank { for c in 0..cfg.k { a += p.vecs[c * n + i] * (p.vals[c].sqrt() - 1.0) * p.vecs[c * n + j]; } }
        f[i * n + j] = p.stds[i] * a;
    } }
    f
}
fn lu_logabsdet_and_solve_t(f: &[f64], n: usize, rhs: &[f64]) -> (f64, Vec<f64>) {
    // solve Fᵀ p = rhs and compute ln|det F| by Gaussian elimination with partial pivoting on Fᵀ
    let mut a = vec![0.0; n * n];
    for i in 0..n { for j in 0..n { a[i * n + j] = f[j * n + i]; } }
    let mut b = rhs.to_vec();
    let mut logdet = 0.0;
    for c in 0..n {
        let mut piv = c;
        for r in c + 1..n { if a[r * n + c].abs() > a[piv * n + c].abs() { piv = r; } }
        if piv != c { for j in 0..n { a.swap(c * n + j, piv * n + j); } b.swap(c, piv); }
        let d = a[c * n + c];
        logdet += d.abs().ln();
        for r in c + 1..n { let m = a[r * n + c] / d; if m != 0.0 { for j in c..n { a[r * n + j] -= m * a[c * n + j]; } b[r] -= m * b[c]; } }
    }
    let mut x = vec![0.0; n];
    for i in (0..n).rev() { let mut s = b[i]; for j in i + 1..n { s -= a[i * n + j] * x[j]; } x[i] = s / a[i * n + i]; }
    (logdet, x)
}

pub fn oracle(cfg: &Cfg, out: &StepOut) -> Option<(String, String)> {
    let n = cfg.n;
    let cond = 10f64.powf(2.0 * cfg.scale_range) * if cfg.lowrank { 10f64.powf(cfg.scale_range.min(3.0)) } else { 1.0 };
    let tol = 1e-11 * cond.max(1.0);
    if out.roundtrip_err > tol { return Some(("leapfrog.transform_roundtrip".into(), format!("untransformed(transformed(x)) differs from x by relative {:.3e}", out.roundtrip_err))); }
    // the log-determinant reported by the inverse map (used when a point is re-whitened after a transformation update) is the one the forward
    // maps report
    if !((out.inv_logdet - out.start.logdet).abs() <= 1e-9 * (1.0 + out.start.logdet.abs()) * (n as f64 + 1.0)) {
        return Some(("leapfrog.logdet_inverse".into(), format!("inv_transform_normalize reports log-determinant {} but the state initialised through the forward map carries {}", out.inv_logdet, out.start.logdet)));
    }
    let (Some(f), Some(b)) = (&out.fwd, &out.back) else { return None; };
    let s = &out.start;
    // a step whose energy error is astronomically large (a divergent step: e.g. a quartic potential started 1e8 standard
    // deviations out) loses all digits in floating point; reversibility / the dense reference are not decidable there
    if !((f.energy - s.energy).abs() < 1000.0) { return None; }
    // (a) time reversibility
    let scale_y = s.y.iter().chain(f.y.iter()).fold(1.0f64, |a, x| a.max(x.abs()));
    let scale_v = s.v.iter().chain(f.v.iter()).fold(1.0f64, |a, x| a.max(x.abs()));
    for i in 0..n {
        if (b.y[i] - s.y[i]).abs() > tol * scale_y.max(scale_v * cfg.eps.abs()) * 10.0 || (b.v[i] - s.v[i]).abs() > tol * (scale_v + scale_y) * 10.0 * (1.0 + cfg.eps.abs() * s.gy.iter().chain(f.gy.iter()).fold(0.0f64, |a, x| a.max(x.abs()))) {
            return Some(("leapfrog.reversible".into(), format!("forward then backward step does not return to the start: coordinate {i}: y {} -> {}, v {} -> {}", s.y[i], b.y[i], s.v[i], b.v[i])));
        }
    }
    if !cfg.exact_normal && n > 0 {
        // (b) textbook leapfrog in the original space with M⁻¹ = F Fᵀ
        let fm = dense_f(cfg, &out.params);
        let (logabsdet, p0) = lu_logabsdet_and_solve_t(&fm, n, &s.v);
        let e = cfg.eps;
        let ph: Vec<f64> = (0..n).map(|i| p0[i] + e / 2.0 * s.gx[i]).collect();
        // x' = x + e F Fᵀ p½
        let ftp: Vec<f64> = (0..n).map(|j| (0..n).map(|i| fm[i * n + j] * ph[i]).sum()).collect();
        let xr: Vec<f64> = (0..n).map(|i| s.x[i] + e * (0..n).map(|j| fm[i * n + j] * ftp[j]).sum::<f64>()).collect();
        let xs = xr.iter().chain(s.x.iter()).fold(1e-300f64, |a, x| a.max(x.abs()));
        for i in 0..n { if (xr[i] - f.x[i]).abs() > tol * 100.0 * (xs + out.params.stds[i]) { return Some(("leapfrog.textbook_position".into(), format!("x'[{i}] = {} but the textbook leapfrog with M^-1 = F F^T gives {}", f.x[i], xr[i]))); } }
        // p' = p½ + e/2 ∇logp(x') ; compare Fᵀ p' with v'
        let pp: Vec<f64> = (0..n).map(|i| ph[i] + e / 2.0 * f.gx[i]).collect();
        let vr: Vec<f64> = (0..n).map(|j| (0..n).map(|i| fm[i * n + j] * pp[i]).sum()).collect();
        let vs = vr.iter().fold(1e-300f64, |a, x| a.max(x.abs()));
        for i in 0..n { if (vr[i] - f.v[i]).abs() > tol * 100.0 * (vs + 1.0) { return Some(("leapfrog.textbook_momentum".into(), format!("v'[{i}] = {} but F^T p' of the textbook leapfrog is {}", f.v[i], vr[i]))); } }
        // (c) log determinant convention: logdet = -ln|det F|
        if (s.logdet + logabsdet).abs() > 1e-9 * (1.0 + logabsdet.abs()) * (n as f64 + 1.0) { return Some(("leapfrog.logdet".into(), format!("logdet {} but -ln|det F| = {}", s.logdet, -logabsdet))); }
        // (d) gradient pull-back: gy = Fᵀ gx
        for j in 0..n { let g: f64 = (0..n).map(|i| fm[i * n + j] * s.gx[i]).sum(); let sc = (0..n).map(|i| (fm[i * n + j] * s.gx[i]).abs()).sum::<f64>() + 1e-300; if (g - s.gy[j]).abs() > 1e-10 * sc * cond.sqrt().max(1.0) { return Some(("leapfrog.gradient_pullback".into(), format!("transformed gradient[{j}] = {} but (F^T grad)[{j}] = {}", s.gy[j], g))); } }
    }
    // (e) energy bookkeeping: energy = ½‖v‖² − (logp + logdet)
    for pr in [s, f] {
        let k: f64 = 0.5 * pr.v.iter().map(|x| x * x).sum::<f64>();
        if (pr.kinetic - k).abs() > 1e-12 * (1.0 + k) || (pr.energy - (k - (pr.logp + pr.logdet))).abs() > 1e-9 * (1.0 + k.abs() + pr.logp.abs() + pr.logdet.abs()) {
            return Some(("leapfrog.energy".into(), format!("energy {} != kinetic {} - (logp {} + logdet {})", pr.energy, k, pr.logp, pr.logdet)));
        }
    }
    None
}

fn push_vec(lb: LineB, v: &[f64]) -> LineB { lb.fs(v) }

pub fn main(tier: &str, seed: u64, outdir: &str) {
    let mut cases = Cases::new();
    let mut rep = Report::new("C02");
    let (ncase, maxn) = if tier == "thorough" { (30000u64, 64usize) } else { (700u64, 17usize) };
    for case in 0..ncase {
        let mut r = Sm::new(seed, "C02-cfg", case);
        let n = match case % 9 { 0 => 1, 1 => 2, 2 => maxn, _ => 1 + r.below(maxn as u64) as usize };
        let lowrank = case % 2 == 1;
        let k = if lowrank { match case % 5 { 0 => 0, 1 => n, _ => r.below(n as u64 + 1) as usize } } else { 0 };
        // every twentieth case: the freshly initialised low-rank transformation (k = 0 in those cases)
        let fresh = lowrank && case % 20 == 5;
        let cfg = Cfg { n, k, lowrank, exact_normal: case % 3 == 2, target: (case % 5) as u8,
            eps: (if r.coin() { 1.0 } else { -1.0 }) * r.log_uniform(1e-4, 2.0), seed: r.next(), scale_range: *r.pick(&[0.0, 1.0, 3.0, 6.0, 8.0]), fresh };
        if fresh { rep.hit("lowrank.fresh_from_grad"); }
        rep.evaluations += 1;
        rep.hit(&format!("{}.{}", if lowrank { "lowrank" } else { "diag" }, if cfg.exact_normal { "exact_normal" } else { "euclidean" }));
        match run(&cfg) {
            Err(e) => { rep.hit("run_error"); rep.notes.push(format!("case {case}: {e}")); }
            Ok(out) => {
                if let Some((key, what)) = oracle(&cfg, &out) { rep.violation(&key, &what, json!({"kind": "c02", "cfg": cfg.to_json()})); }
                if let Some(f) = &out.fwd {
                    if lowrank && k > 0 && n > 1 { rep.nontrivial += 1; }
                    let p = &out.params;
                    let mut lb = LineB::new("leap").u(case).u(lowrank as u64).u(cfg.exact_normal as u64).u(n as u64).u(k as u64).f(cfg.eps);
                    lb = push_vec(lb, &p.mean); lb = push_vec(lb, &p.stds);
                    lb = push_vec(lb, &p.vals); lb = push_vec(lb, &p.vecs); lb = push_vec(lb, &p.mu);
                    let s = &out.start;
                    lb = push_vec(lb, &s.x); lb = push_vec(lb, &s.gx); lb = push_vec(lb, &s.y); lb = push_vec(lb, &s.gy); lb = push_vec(lb, &s.v);
                    lb = lb.f(s.logp).f(s.logdet).f(s.kinetic).f(s.energy);
                    lb = push_vec(lb, &f.x); lb = push_vec(lb, &f.gx); lb = push_vec(lb, &f.y); lb = push_vec(lb, &f.gy); lb = push_vec(lb, &f.v);
                    lb = lb.f(f.logp).f(f.logdet).f(f.kinetic).f(f.energy).f(cfg.scale_range);
                    cases.line(&lb.0);
                }
                if case < 2 { rep.sample(json!({"cfg": cfg.to_json(), "start_y": out.start.y.iter().take(3).collect::<Vec<_>>() })); }
            }
        }
    }
    // ExactNormal conserves the energy of a Gaussian whose covariance is F Fᵀ (standard normal in whitened space)
    for case in 0..(ncase / 10) {
        let mut r = Sm::new(seed, "C02-exact", case);
        let n = 1 + r.below(8) as usize;
        let mut cfg = Cfg { n, k: 0, lowrank: false, exact_normal: true, target: 1, eps: r.range(-3.0, 3.0), seed: r.next(), scale_range: 1.0, fresh: false };
        cfg.target = 9; // special: target N(mean, diag(stds²)) matching the transformation
        let mut rr = Sm::new(cfg.seed, "C02", 0);
        let params = gen_params(&cfg, &mut rr);
        let tgt = Target::new(Kind::Diag { mu: params.mean.clone(), sigma: params.stds.clone() }, n);
        let mut math: M = CpuMath::new(tgt);
        let t = new_diag_transform(&mut math, &params.stds, &params.mean);
        let mut ham = TransformedHamiltonian::new(&mut math, t, KineticEnergyKind::ExactNormal);
        *ham.step_size_mut() = cfg.eps.abs();
        let x0: Vec<f64> = (0..n).map(|i| params.mean[i] + params.stds[i] * rr.normal()).collect();
        let Ok(mut state) = ham.init_state(&mut math, &x0) else { continue };
        let mut rng = rand::rngs::ChaCha8Rng::seed_from_u64(cfg.seed);
        use rand::SeedableRng;
        if ham.initialize_trajectory(&mut math, &mut state, true, &mut rng).is_err() { continue; }
        let e0 = state.energy();
        let mut cur = state;
        let mut worst = 0f64;
        for _ in 0..50 {
            match ham.leapfrog(&mut math, &cur, Direction::Forward, 1.0, e0, f64::INFINITY, &mut NoColl) { LeapfrogResult::Ok(s) => cur = s, _ => break }
            worst = worst.max((cur.energy() - e0).abs());
        }
        rep.evaluations += 1;
        rep.hit("exact_normal_conservation");
        if worst > 1e-9 * (1.0 + e0.abs()) { rep.violation("leapfrog.exactnormal_energy", &format!("ExactNormal leapfrog on a matching Gaussian changes the energy by {worst:.3e} (eps {})", cfg.eps), json!({"kind": "c02exact", "n": n, "eps": cfg.eps, "seed": cfg.seed})); }
    }
    cases.write(&format!("{outdir}/C02.cases")).unwrap();
    rep.write(&format!("{outdir}/C02.report.json"));
}

pub fn replay(v: &serde_json::Value) -> bool {
    if v["kind"] == "c02" {
        let cfg = Cfg::from_json(&v["cfg"]);
        match run(&cfg) { Ok(out) => { let r = oracle(&cfg, &out); println!("replay: {:?}", r); r.is_some() } Err(e) => { println!("replay: run error {e}"); false } }
    } else { false }
}
