/- Line-protocol driver: replays recorded histories of the real code through the executable
   Lean models (Float instance) and reports every record on which they differ. -/
import NutsModel
open NutsModel NutsModel.Drv

def dispatch (t : Toks) : Verdict :=
  match NutsModel.Drv.C07.dispatch t with
  | some v => v
  | none =>
  match NutsModel.Drv.C01.dispatch t with
  | some v => v
  | none =>
  match NutsModel.Drv.C06.dispatch t with
  | some v => v
  | none =>
  match NutsModel.Drv.C17.dispatch t with
  | some v => v
  | none =>
  match NutsModel.Drv.C16.dispatch t with
  | some v => v
  | none =>
  match NutsModel.Drv.C19.dispatch t with
  | some v => v
  | none =>
  match NutsModel.Drv.C02.dispatch t with
  | some v => v
  | none =>
  match NutsModel.Drv.C18.dispatch t with
  | some v => v
  | none =>
  match NutsModel.Drv.C15.dispatch t with
  | some v => v
  | none =>
  match NutsModel.Drv.C14.dispatch t with
  | some v => v
  | none =>
  match NutsModel.Drv.Ctl.dispatch t with
  | some v => v
  | none =>
  match NutsModel.Drv.C05.dispatch t with
  | some v => v
  | none =>
  match NutsModel.Drv.C08.dispatch t with
  | some v => v
  | none => .bad s!"unknown record kind {t[0]?}"

partial def loop (h : IO.FS.Stream) (st : Stats) : IO Stats := do
  let line ← h.getLine
  if line.isEmpty then return st
  let toks : Toks := (line.trimAscii.toString.splitOn " ").toArray
  if toks.size == 0 || toks[0]! == "" then loop h st else
  let st := { st with n := st.n + 1 }
  let st := st.hit toks[0]!
  match dispatch toks with
  | .ok => loop h { st with ok := st.ok + 1 }
  | .dontcare => loop h { st with dontcare := st.dontcare + 1 }
  | .mismatch m => do
      if st.mismatch < 50 then IO.println s!"mismatch {m}"
      loop h { st with mismatch := st.mismatch + 1 }
  | .bad m => do
      if st.bad < 50 then IO.println s!"bad-op {m}"
      loop h { st with bad := st.bad + 1 }

def main : IO UInt32 := do
  let st ← loop (← IO.getStdin) {}
  let br := ", ".intercalate (st.branches.map fun (k, n) => s!"\"{k}\": {n}")
  IO.println s!"summary \{\"n\": {st.n}, \"ok\": {st.ok}, \"mismatch\": {st.mismatch}, \"dontcare\": {st.dontcare}, \"bad\": {st.bad}, \"kinds\": \{{br}}}"
  return (if st.mismatch == 0 && st.bad == 0 then 0 else 1)
