/-
C08 — diagonal mass-matrix estimator (`Model/MassMatrix.lean`) at `α := ℝ`:
affine equivariance, exactness on Gaussian targets, positivity / invalid-value handling of the
scale update, and the algebra behind the low-rank SPD mean.
-/
import NutsModel.Model.MassMatrix
import NutsModel.Thm.RealInst
import Mathlib.Tactic.Linarith
import Mathlib.Tactic.Positivity
import Mathlib.Tactic.FieldSimp
import Mathlib.Tactic.Ring
import Mathlib.Tactic.NormNum
import Mathlib.Analysis.SpecialFunctions.Sqrt
import Mathlib.Algebra.BigOperators.Group.List.Basic

namespace NutsModel.C08
open NutsModel NutsModel.Model

/-! ## the running estimator -/

theorem new_mean : (RunVar.new : RunVar ℝ).mean = 0 := by simp [RunVar.new]
theorem new_var : (RunVar.new : RunVar ℝ).var = 0 := by simp [RunVar.new]
theorem new_count : (RunVar.new : RunVar ℝ).count = 0 := rfl

theorem add_first (r : RunVar ℝ) (x : ℝ) (h : r.count = 0) :
    r.add x = { mean := x, var := r.var, count := 1 } := by
  simp [RunVar.add, h]

theorem add_later (r : RunVar ℝ) (x : ℝ) (h : 1 ≤ r.count) :
    r.add x = { mean := r.mean + (x - r.mean) * (1 / ((r.count : ℝ) + 1)),
                var := r.var + (x - r.mean) * (x - r.mean), count := r.count + 1 } := by
  have : r.count ≠ 0 := by omega
  simp [RunVar.add, this]

theorem addAll_nil (r : RunVar ℝ) : r.addAll [] = r := rfl
theorem addAll_cons (r : RunVar ℝ) (x : ℝ) (xs : List ℝ) : r.addAll (x :: xs) = (r.add x).addAll xs := rfl

theorem new_add (x : ℝ) : (RunVar.new : RunVar ℝ).add x = { mean := x, var := 0, count := 1 } := by
  rw [add_first _ _ new_count, new_var]

/-! ### T1: affine equivariance -/

/-- **T1**: the estimator is equivariant under affine maps `x ↦ a x + b` of the data: the count
    is unchanged, the mean is mapped, the accumulated sum of squares is scaled by `a²`. -/
theorem addAll_affine (a b : ℝ) (xs : List ℝ) (r q : RunVar ℝ) (hr : 1 ≤ r.count)
    (hc : q.count = r.count) (hm : q.mean = a * r.mean + b) (hv : q.var = a ^ 2 * r.var) :
    (q.addAll (xs.map (fun x => a * x + b))).count = (r.addAll xs).count ∧
    (q.addAll (xs.map (fun x => a * x + b))).mean = a * (r.addAll xs).mean + b ∧
    (q.addAll (xs.map (fun x => a * x + b))).var = a ^ 2 * (r.addAll xs).var := by
  induction xs generalizing r q with
  | nil => exact ⟨hc, hm, hv⟩
  | cons y ys ih =>
    rw [List.map_cons, addAll_cons, addAll_cons]
    have hq : 1 ≤ q.count := hc ▸ hr
    apply ih (r.add y) (q.add (a * y + b))
    · rw [add_later _ _ hr]; simp
    · rw [add_later _ _ hr, add_later _ _ hq]; simp [hc]
    · rw [add_later _ _ hr, add_later _ _ hq]; simp only [hm, hc]; ring
    · rw [add_later _ _ hr, add_later _ _ hq]; simp only [hm, hv]; ring

/-- **T1, corollary**: starting both estimators empty. -/
theorem addAll_affine_new (a b x : ℝ) (xs : List ℝ) :
    ((RunVar.new : RunVar ℝ).addAll ((x :: xs).map (fun x => a * x + b))).count
        = ((RunVar.new : RunVar ℝ).addAll (x :: xs)).count ∧
    ((RunVar.new : RunVar ℝ).addAll ((x :: xs).map (fun x => a * x + b))).mean
        = a * ((RunVar.new : RunVar ℝ).addAll (x :: xs)).mean + b ∧
    ((RunVar.new : RunVar ℝ).addAll ((x :: xs).map (fun x => a * x + b))).var
        = a ^ 2 * ((RunVar.new : RunVar ℝ).addAll (x :: xs)).var := by
  rw [List.map_cons, addAll_cons, addAll_cons, new_add, new_add]
  exact addAll_affine a b xs _ _ (le_refl _) rfl rfl (by simp)

/-! ### T2: the accumulated variance is non-negative, and zero exactly on constant data -/

theorem var_aux (xs : List ℝ) (r : RunVar ℝ) (hr : 1 ≤ r.count) (hv : 0 ≤ r.var) :
    0 ≤ (r.addAll xs).var ∧ ((r.addAll xs).var = 0 ↔ r.var = 0 ∧ ∀ y ∈ xs, y = r.mean) := by
  induction xs generalizing r with
  | nil => simp [addAll_nil, hv]
  | cons y ys ih =>
    rw [addAll_cons]
    have hsq : 0 ≤ (y - r.mean) * (y - r.mean) := mul_self_nonneg _
    have hadd := add_later r y hr
    obtain ⟨h1, h2⟩ := ih (r.add y) (by rw [hadd]; simp) (by rw [hadd]; simp only; linarith)
    refine ⟨h1, ?_⟩
    rw [h2, hadd]
    simp only [List.mem_cons, forall_eq_or_imp]
    constructor
    · rintro ⟨h3, h4⟩
      have hd : (y - r.mean) * (y - r.mean) = 0 := by linarith
      have hy : y = r.mean := by
        have := mul_self_eq_zero.mp hd; linarith
      refine ⟨by linarith, hy, ?_⟩
      intro z hz
      rw [h4 z hz, hy]; ring
    · rintro ⟨h3, hy, h4⟩
      refine ⟨by rw [h3, hy]; ring, ?_⟩
      intro z hz
      rw [h4 z hz, hy]; ring

/-- **T2a** -/
theorem var_nonneg (x : ℝ) (xs : List ℝ) : 0 ≤ ((RunVar.new : RunVar ℝ).addAll (x :: xs)).var := by
  rw [addAll_cons, new_add]
  exact (var_aux xs _ (le_refl _) (le_refl _)).1

/-- **T2b**: the accumulated variance is zero exactly when all samples are equal. -/
theorem var_eq_zero_iff (x : ℝ) (xs : List ℝ) :
    ((RunVar.new : RunVar ℝ).addAll (x :: xs)).var = 0 ↔ ∀ y ∈ xs, y = x := by
  rw [addAll_cons, new_add]
  rw [(var_aux xs _ (le_refl _) (le_refl _)).2]
  simp

/-! ### T3: the running mean is the arithmetic mean -/

theorem mean_aux (xs : List ℝ) (r : RunVar ℝ) (hr : 1 ≤ r.count) :
    (r.addAll xs).count = r.count + xs.length ∧
    (r.addAll xs).mean * ((r.count : ℝ) + xs.length) = r.mean * r.count + xs.sum := by
  induction xs generalizing r with
  | nil => simp [addAll_nil]
  | cons y ys ih =>
    rw [addAll_cons]
    have hadd := add_later r y hr
    obtain ⟨h1, h2⟩ := ih (r.add y) (by rw [hadd]; simp)
    have hc : (r.add y).count = r.count + 1 := by rw [hadd]
    have hm : (r.add y).mean = r.mean + (y - r.mean) * (1 / ((r.count : ℝ) + 1)) := by rw [hadd]
    rw [hc] at h1 h2
    rw [hm] at h2
    refine ⟨by rw [h1, List.length_cons]; omega, ?_⟩
    have hpos : (0 : ℝ) < (r.count : ℝ) + 1 := by positivity
    rw [List.length_cons, List.sum_cons]
    push_cast at h2 ⊢
    have : ((r.count : ℝ) + (ys.length + 1)) = (r.count + 1 + ys.length) := by ring
    rw [this, h2]
    field_simp
    ring

/-- **T3** -/
theorem mean_is_average (x : ℝ) (xs : List ℝ) :
    ((RunVar.new : RunVar ℝ).addAll (x :: xs)).mean = (x :: xs).sum / ((xs.length : ℝ) + 1) ∧
    ((RunVar.new : RunVar ℝ).addAll (x :: xs)).count = xs.length + 1 := by
  rw [addAll_cons, new_add]
  obtain ⟨h1, h2⟩ := mean_aux xs { mean := x, var := 0, count := 1 } (le_refl _)
  have hpos : (0 : ℝ) < (xs.length : ℝ) + 1 := by positivity
  refine ⟨?_, by rw [h1]; simp only; omega⟩
  rw [eq_div_iff hpos.ne', List.sum_cons]
  simp only [Nat.cast_one, mul_one] at h2
  rw [← h2]; ring

/-! ## the scale update -/

theorem fclamp_eq (x lo hi : ℝ) : fclamp x lo hi = if (if x < lo then lo else x) > hi then hi else (if x < lo then lo else x) := rfl

theorem fclamp_bounds (x lo hi : ℝ) (h : lo ≤ hi) : lo ≤ fclamp x lo hi ∧ fclamp x lo hi ≤ hi := by
  rw [fclamp_eq]
  split_ifs <;> constructor <;> linarith

theorem fclamp_id (x lo hi : ℝ) (h1 : lo ≤ x) (h2 : x ≤ hi) : fclamp x lo hi = x := by
  rw [fclamp_eq]
  rw [if_neg (not_lt.mpr h1), if_neg (not_lt.mpr h2)]

/-- closed form of `updDrawGrad` at `ℝ` -/
theorem updDrawGrad_eq (old : Scale ℝ) (dv gv : ℝ) (fill : Option ℝ) (lo hi : ℝ) :
    updDrawGrad old dv gv fill lo hi =
      if Real.sqrt (dv / gv) = 0 then
        (match fill with
         | some f => (Real.sqrt f, Real.sqrt (1 / f))
         | none => (old.std, old.invStd))
      else (Real.sqrt (fclamp (Real.sqrt (dv / gv)) lo hi), Real.sqrt (1 / fclamp (Real.sqrt (dv / gv)) lo hi)) := by
  simp only [updDrawGrad, transc_sqrt, transc_isFinite, Bool.not_true, Bool.false_or, decide_eq_true_eq,
    feq_real, Nat.cast_zero, Nat.cast_one]
  cases fill <;> rfl

/-- the updated branch -/
theorem updDrawGrad_valid (old : Scale ℝ) (dv gv : ℝ) (fill : Option ℝ) (lo hi : ℝ)
    (h : Real.sqrt (dv / gv) ≠ 0) :
    updDrawGrad old dv gv fill lo hi =
      (Real.sqrt (fclamp (Real.sqrt (dv / gv)) lo hi), Real.sqrt (1 / fclamp (Real.sqrt (dv / gv)) lo hi)) := by
  rw [updDrawGrad_eq, if_neg h]

/-- **T7**: an invalid ratio (`√(dv/gv) = 0`) with `fill = none` keeps the previous scale. -/
theorem invalid_keeps_previous (old : Scale ℝ) (dv gv lo hi : ℝ) (h : Real.sqrt (dv / gv) = 0) :
    updDrawGrad old dv gv none lo hi = (old.std, old.invStd) := by
  rw [updDrawGrad_eq, if_pos h]

theorem invalid_keeps_previous_draw_zero (old : Scale ℝ) (gv lo hi : ℝ) :
    updDrawGrad old 0 gv none lo hi = (old.std, old.invStd) :=
  invalid_keeps_previous old 0 gv lo hi (by simp)

theorem invalid_keeps_previous_grad_zero (old : Scale ℝ) (dv lo hi : ℝ) :
    updDrawGrad old dv 0 none lo hi = (old.std, old.invStd) :=
  invalid_keeps_previous old dv 0 lo hi (by simp)

theorem invalid_keeps_previous_neg (old : Scale ℝ) (dv gv lo hi : ℝ) (h : dv / gv < 0) :
    updDrawGrad old dv gv none lo hi = (old.std, old.invStd) :=
  invalid_keeps_previous old dv gv lo hi (Real.sqrt_eq_zero_of_nonpos h.le)

/-- **T6**: the scale stays strictly positive, and an update lands in the clamp box with
    `std · invStd = 1`. -/
theorem scale_stays_positive (old : Scale ℝ) (dv gv lo hi : ℝ) (fill : Option ℝ)
    (hlo : 0 < lo) (hlh : lo ≤ hi) (hs : 0 < old.std) (hi' : 0 < old.invStd)
    (hf : ∀ f, fill = some f → 0 < f) :
    0 < (updDrawGrad old dv gv fill lo hi).1 ∧ 0 < (updDrawGrad old dv gv fill lo hi).2 ∧
    (updDrawGrad old dv gv none lo hi = (old.std, old.invStd) ∨
      (Real.sqrt lo ≤ (updDrawGrad old dv gv none lo hi).1 ∧
       (updDrawGrad old dv gv none lo hi).1 ≤ Real.sqrt hi ∧
       1 / Real.sqrt hi ≤ (updDrawGrad old dv gv none lo hi).2 ∧
       (updDrawGrad old dv gv none lo hi).2 ≤ 1 / Real.sqrt lo ∧
       (updDrawGrad old dv gv none lo hi).1 * (updDrawGrad old dv gv none lo hi).2 = 1)) := by
  by_cases h : Real.sqrt (dv / gv) = 0
  · refine ⟨?_, ?_, Or.inl (invalid_keeps_previous old dv gv lo hi h)⟩
    · rw [updDrawGrad_eq, if_pos h]
      cases fill with
      | none => exact hs
      | some f => exact Real.sqrt_pos.mpr (hf f rfl)
    · rw [updDrawGrad_eq, if_pos h]
      cases fill with
      | none => exact hi'
      | some f => exact Real.sqrt_pos.mpr (one_div_pos.mpr (hf f rfl))
  · obtain ⟨b1, b2⟩ := fclamp_bounds (Real.sqrt (dv / gv)) lo hi hlh
    have hv : 0 < fclamp (Real.sqrt (dv / gv)) lo hi := lt_of_lt_of_le hlo b1
    have hhi : 0 < hi := lt_of_lt_of_le hlo hlh
    refine ⟨?_, ?_, Or.inr ?_⟩
    · rw [updDrawGrad_valid _ _ _ _ _ _ h]; exact Real.sqrt_pos.mpr hv
    · rw [updDrawGrad_valid _ _ _ _ _ _ h]; exact Real.sqrt_pos.mpr (one_div_pos.mpr hv)
    · rw [updDrawGrad_valid _ _ _ _ _ _ h]
      simp only
      refine ⟨Real.sqrt_le_sqrt b1, Real.sqrt_le_sqrt b2, ?_, ?_, ?_⟩
      · rw [Real.sqrt_div zero_le_one, Real.sqrt_one]
        exact one_div_le_one_div_of_le (Real.sqrt_pos.mpr hv) (Real.sqrt_le_sqrt b2)
      · rw [Real.sqrt_div zero_le_one, Real.sqrt_one]
        exact one_div_le_one_div_of_le (Real.sqrt_pos.mpr hlo) (Real.sqrt_le_sqrt b1)
      · rw [Real.sqrt_div zero_le_one, Real.sqrt_one]
        exact mul_one_div_cancel (Real.sqrt_pos.mpr hv).ne'

/-- **T8**: the initial scale (from the gradient at the start point) is strictly positive and
    `std² = 1 / clamp(|grad|)`. -/
theorem init_scale_positive (pos grad fill lo hi : ℝ) (hlo : 0 < lo) (hlh : lo ≤ hi) (_hf : 0 < fill) :
    0 < (updateGrad pos grad fill lo hi).std ∧ 0 < (updateGrad pos grad fill lo hi).invStd ∧
    (updateGrad pos grad fill lo hi).std ^ 2 * fclamp |grad| lo hi = 1 ∧
    (updateGrad pos grad fill lo hi).invStd ^ 2 = fclamp |grad| lo hi := by
  obtain ⟨b1, b2⟩ := fclamp_bounds |grad| lo hi hlh
  have hv : 0 < fclamp |grad| lo hi := lt_of_lt_of_le hlo b1
  simp only [updateGrad, transc_isFinite, if_true, transc_sqrt, transc_abs, Nat.cast_one, one_div, inv_inv]
  refine ⟨Real.sqrt_pos.mpr (inv_pos.mpr hv), Real.sqrt_pos.mpr hv, ?_, ?_⟩
  · rw [Real.sq_sqrt (inv_pos.mpr hv).le]; exact inv_mul_cancel₀ hv.ne'
  · rw [Real.sq_sqrt hv.le]

/-! ## T4: exactness on a Gaussian -/

/-- **T4 (the heart of C08)**: for draws `x :: xs` (not all equal) and the gradients of the
    log-density of `N(μ, s²)` at these draws, `update_diag_draw_grad` recovers the standard deviation
    `s` and the mean `μ` of the Gaussian *exactly*, whatever the draws and the previous scale are,
    provided `s²` lies within the clamp interval. -/
theorem gaussian_scale_exact (μ s lo hi : ℝ) (hs : 0 < s) (hl : lo ≤ s ^ 2) (hh : s ^ 2 ≤ hi)
    (x : ℝ) (xs : List ℝ) (hne : ¬ ∀ y ∈ xs, y = x) (old : Scale ℝ) (fill : Option ℝ) :
    let g : ℝ → ℝ := fun y => -(y - μ) / s ^ 2
    let dx := (RunVar.new : RunVar ℝ).addAll (x :: xs)
    let dg := (RunVar.new : RunVar ℝ).addAll ((x :: xs).map g)
    updateDrawGrad old dx.mean dg.mean dx.var dg.var fill lo hi = { std := s, invStd := 1 / s, mean := μ } := by
  intro g dx dg
  have hs2 : (0 : ℝ) < s ^ 2 := by positivity
  have hg : (x :: xs).map g = (x :: xs).map (fun y => (-(1 / s ^ 2)) * y + μ / s ^ 2) := by
    apply List.map_congr_left
    intro y _
    simp only [g]; ring
  obtain ⟨_, hm, hv⟩ := addAll_affine_new (-(1 / s ^ 2)) (μ / s ^ 2) x xs
  rw [← hg] at hm hv
  have hdv : 0 < dx.var := lt_of_le_of_ne (var_nonneg x xs) (fun h => hne ((var_eq_zero_iff x xs).mp h.symm))
  have hgm : dg.mean = -(1 / s ^ 2) * dx.mean + μ / s ^ 2 := hm
  have hgv : dg.var = (-(1 / s ^ 2)) ^ 2 * dx.var := hv
  have hratio : dx.var / dg.var = (s ^ 2) ^ 2 := by
    rw [hgv]; field_simp
  have hval : Real.sqrt (dx.var / dg.var) = s ^ 2 := by
    rw [hratio]; exact Real.sqrt_sq hs2.le
  have hupd : updDrawGrad old dx.var dg.var fill lo hi = (s, 1 / s) := by
    rw [updDrawGrad_valid _ _ _ _ _ _ (by rw [hval]; exact hs2.ne'), hval, fclamp_id _ _ _ hl hh]
    rw [Real.sqrt_sq hs.le, ← one_div_pow, Real.sqrt_sq (by positivity)]
  simp only [updateDrawGrad, hupd]
  rw [hgm]
  congr 1
  field_simp
  ring

/-- non-vacuity of T4: `μ = 1`, `s = 2`, draws `[0, 1, 3]`, clamp `[1e-20, 1e20]`. -/
example (old : Scale ℝ) (fill : Option ℝ) :
    let g : ℝ → ℝ := fun y => -(y - 1) / (2 : ℝ) ^ 2
    let dx := (RunVar.new : RunVar ℝ).addAll [0, 1, 3]
    let dg := (RunVar.new : RunVar ℝ).addAll ([0, 1, 3].map g)
    updateDrawGrad old dx.mean dg.mean dx.var dg.var fill (lowerLimit : ℝ) upperLimit
      = { std := 2, invStd := 1 / 2, mean := 1 } :=
  gaussian_scale_exact 1 2 lowerLimit upperLimit (by norm_num)
    (by norm_num [lowerLimit]) (by norm_num [upperLimit]) 0 [1, 3] (by norm_num) old fill

/-- the concrete numbers of that instance: mean `4/3`, accumulated squares `1 + 25/4`. -/
example : ((RunVar.new : RunVar ℝ).addAll [0, 1, 3]).mean = 4 / 3 ∧
    ((RunVar.new : RunVar ℝ).addAll [0, 1, 3]).var = 1 + 25 / 4 ∧
    ((RunVar.new : RunVar ℝ).addAll [0, 1, 3]).count = 3 := by
  norm_num [RunVar.addAll, RunVar.add, RunVar.new]

/-! ## T5: the estimator `DiagEst` -/

/-- feed draws together with their gradients `g y` (`update_estimators` for a run of good draws) -/
noncomputable def feed (g : ℝ → ℝ) (e : DiagEst ℝ) (ys : List ℝ) : DiagEst ℝ :=
  ys.foldl (fun e y => e.add y (g y)) e

theorem feed_fields (g : ℝ → ℝ) (ys : List ℝ) (e : DiagEst ℝ) :
    (feed g e ys).draw = e.draw.addAll ys ∧ (feed g e ys).grad = e.grad.addAll (ys.map g) ∧
    (feed g e ys).drawBg = e.drawBg.addAll ys ∧ (feed g e ys).gradBg = e.gradBg.addAll (ys.map g) := by
  induction ys generalizing e with
  | nil => exact ⟨rfl, rfl, rfl, rfl⟩
  | cons y ys ih =>
    have h : feed g e (y :: ys) = feed g (e.add y (g y)) ys := rfl
    rw [h]
    obtain ⟨h1, h2, h3, h4⟩ := ih (e.add y (g y))
    exact ⟨h1, h2, h3, h4⟩

/-- `adapt` does nothing below three foreground samples. -/
theorem adapt_none (e : DiagEst ℝ) (old : Scale ℝ) (h : e.draw.count < 3) : e.adapt old = none := by
  simp [DiagEst.adapt, h]

theorem lowerLimit_pos : (0 : ℝ) < lowerLimit := by norm_num [lowerLimit]
theorem lowerLimit_le_upperLimit : (lowerLimit : ℝ) ≤ upperLimit := by norm_num [lowerLimit, upperLimit]

/-- T5, general form: whenever the foreground estimators hold `≥ 3` draws (not all equal) and the
    Gaussian gradients at these draws, `adapt` returns exactly the Gaussian's scale and mean. -/
theorem adapt_exact_of_foreground (μ s : ℝ) (hs : 0 < s) (hl : lowerLimit ≤ s ^ 2) (hh : s ^ 2 ≤ upperLimit)
    (x : ℝ) (xs : List ℝ) (hlen : 2 ≤ xs.length) (hne : ¬ ∀ y ∈ xs, y = x) (e : DiagEst ℝ)
    (hd : e.draw = (RunVar.new : RunVar ℝ).addAll (x :: xs))
    (hg : e.grad = (RunVar.new : RunVar ℝ).addAll ((x :: xs).map (fun y => -(y - μ) / s ^ 2)))
    (old : Scale ℝ) :
    e.adapt old = some { std := s, invStd := 1 / s, mean := μ } := by
  have hc : ¬ e.draw.count < 3 := by
    rw [hd, (mean_is_average x xs).2]; omega
  simp only [DiagEst.adapt, if_neg hc]
  rw [hd, hg]
  exact congrArg some (gaussian_scale_exact μ s lowerLimit upperLimit hs hl hh x xs hne old none)

/-- **T5**: initialise at `x0`, add the draws `ys` with their Gaussian gradients; with at least
    three samples in total, not all equal, `adapt` recovers `(s, 1/s, μ)` exactly. -/
theorem adapt_exact_on_gaussian (μ s : ℝ) (hs : 0 < s) (hl : lowerLimit ≤ s ^ 2) (hh : s ^ 2 ≤ upperLimit)
    (x0 : ℝ) (ys : List ℝ) (hlen : 2 ≤ ys.length) (hne : ¬ ∀ y ∈ ys, y = x0) (old : Scale ℝ) :
    let g : ℝ → ℝ := fun y => -(y - μ) / s ^ 2
    (feed g ((DiagEst.new : DiagEst ℝ).init x0 (g x0)).1 ys).adapt old
      = some { std := s, invStd := 1 / s, mean := μ } := by
  intro g
  obtain ⟨h1, h2, _, _⟩ := feed_fields g ys ((DiagEst.new : DiagEst ℝ).init x0 (g x0)).1
  exact adapt_exact_of_foreground μ s hs hl hh x0 ys hlen hne _ h1 h2 old

/-- with fewer than three samples (start point + fewer than two draws) `adapt` returns `none`. -/
theorem adapt_none_below_three (g : ℝ → ℝ) (x0 : ℝ) (ys : List ℝ) (hlen : ys.length < 2) (old : Scale ℝ) :
    (feed g ((DiagEst.new : DiagEst ℝ).init x0 (g x0)).1 ys).adapt old = none := by
  apply adapt_none
  obtain ⟨h1, _⟩ := feed_fields g ys ((DiagEst.new : DiagEst ℝ).init x0 (g x0)).1
  rw [h1]
  have : ((DiagEst.new : DiagEst ℝ).init x0 (g x0)).1.draw.addAll ys = (RunVar.new : RunVar ℝ).addAll (x0 :: ys) := rfl
  rw [this, (mean_is_average x0 ys).2]; omega

/-- T5 after a `switch`: the background samples become the foreground. -/
theorem adapt_exact_of_background (μ s : ℝ) (hs : 0 < s) (hl : lowerLimit ≤ s ^ 2) (hh : s ^ 2 ≤ upperLimit)
    (x : ℝ) (xs : List ℝ) (hlen : 2 ≤ xs.length) (hne : ¬ ∀ y ∈ xs, y = x) (e : DiagEst ℝ)
    (hd : e.drawBg = (RunVar.new : RunVar ℝ).addAll (x :: xs))
    (hg : e.gradBg = (RunVar.new : RunVar ℝ).addAll ((x :: xs).map (fun y => -(y - μ) / s ^ 2)))
    (old : Scale ℝ) :
    e.switch.adapt old = some { std := s, invStd := 1 / s, mean := μ } :=
  adapt_exact_of_foreground μ s hs hl hh x xs hlen hne e.switch hd hg old

/-- T5, a whole window: whatever was collected before (`e` arbitrary), after a `switch` the
    background is empty; the draws `z :: zs` of the next window with their Gaussian gradients, then
    the next `switch`, make `adapt` return `(s, 1/s, μ)` exactly. -/
theorem adapt_exact_after_switch (μ s : ℝ) (hs : 0 < s) (hl : lowerLimit ≤ s ^ 2) (hh : s ^ 2 ≤ upperLimit)
    (e : DiagEst ℝ) (z : ℝ) (zs : List ℝ) (hlen : 2 ≤ zs.length) (hne : ¬ ∀ y ∈ zs, y = z) (old : Scale ℝ) :
    (feed (fun y => -(y - μ) / s ^ 2) e.switch (z :: zs)).switch.adapt old
      = some { std := s, invStd := 1 / s, mean := μ } := by
  obtain ⟨_, _, h3, h4⟩ := feed_fields (fun y => -(y - μ) / s ^ 2) (z :: zs) e.switch
  exact adapt_exact_of_background μ s hs hl hh z zs hlen hne _ h3 h4 old

/-- the scale produced by `init` is strictly positive (T8 at the limits used by the estimator). -/
theorem init_positive (e : DiagEst ℝ) (pos grad : ℝ) :
    0 < (e.init pos grad).2.std ∧ 0 < (e.init pos grad).2.invStd := by
  obtain ⟨h1, h2, _⟩ := init_scale_positive pos grad ((1 : ℕ) : ℝ) lowerLimit upperLimit lowerLimit_pos
    lowerLimit_le_upperLimit (by norm_num)
  exact ⟨h1, h2⟩

/-! ## T9: the algebra of the low-rank update (`spd_mean`), in an arbitrary ring -/

section
variable {R : Type*} [Ring R]

/-- `spd_mean` of `src/transform/adapt/low_rank.rs`: with `S = B^{1/2}`, `Si = B^{-1/2}`,
    `Q = (B^{1/2} A B^{1/2})^{1/2}`, the matrix `X = B^{-1/2} Q B^{-1/2}` solves `X B X = A`. -/
theorem spd_mean_solves_riccati (S Si Q A : R) (h1 : S * Si = 1) (h2 : Si * S = 1)
    (hQ : Q * Q = S * A * S) :
    (Si * Q * Si) * (S * S) * (Si * Q * Si) = A := by
  calc (Si * Q * Si) * (S * S) * (Si * Q * Si)
      = Si * Q * (Si * S) * (S * Si) * Q * Si := by simp only [mul_assoc]
    _ = Si * (Q * Q) * Si := by rw [h1, h2]; simp only [mul_one, mul_assoc]
    _ = (Si * S) * A * (S * Si) := by rw [hQ]; simp only [mul_assoc]
    _ = A := by rw [h1, h2, one_mul, mul_one]

/-- for a Gaussian with covariance `Sig` (precision `P`), draws of covariance `C` have gradients
    of covariance `G = P C P`; then `X = Sig` solves `X G X = C`, the equation the SPD mean of
    `(C, G)` solves: the Gaussian's covariance is a fixed point of the low-rank update. -/
theorem gaussian_is_fixed_point (Sig P C G : R) (h1 : Sig * P = 1) (h2 : P * Sig = 1)
    (hG : G = P * C * P) :
    Sig * G * Sig = C := by
  calc Sig * G * Sig = (Sig * P) * C * (P * Sig) := by rw [hG]; simp only [mul_assoc]
    _ = C := by rw [h1, h2, one_mul, mul_one]

end

end NutsModel.C08

#print axioms NutsModel.C08.addAll_affine
#print axioms NutsModel.C08.addAll_affine_new
#print axioms NutsModel.C08.var_nonneg
#print axioms NutsModel.C08.var_eq_zero_iff
#print axioms NutsModel.C08.mean_is_average
#print axioms NutsModel.C08.gaussian_scale_exact
#print axioms NutsModel.C08.adapt_exact_of_foreground
#print axioms NutsModel.C08.adapt_exact_on_gaussian
#print axioms NutsModel.C08.adapt_none
#print axioms NutsModel.C08.adapt_none_below_three
#print axioms NutsModel.C08.adapt_exact_of_background
#print axioms NutsModel.C08.adapt_exact_after_switch
#print axioms NutsModel.C08.scale_stays_positive
#print axioms NutsModel.C08.invalid_keeps_previous
#print axioms NutsModel.C08.invalid_keeps_previous_draw_zero
#print axioms NutsModel.C08.invalid_keeps_previous_grad_zero
#print axioms NutsModel.C08.invalid_keeps_previous_neg
#print axioms NutsModel.C08.init_scale_positive
#print axioms NutsModel.C08.init_positive
#print axioms NutsModel.C08.spd_mean_solves_riccati
#print axioms NutsModel.C08.gaussian_is_fixed_point
