/-
C01 — the NUTS transition is reversible.

Layers (see DESIGN.md C01):
 1. `logaddexp_spec`   : the *translated* `math::util::logaddexp` is `log (exp a + exp b)`.
 2. `mergeInto_*`      : the executable model's `merge_into` takes the new sub-tree's draw with
                         probability `min(1, W_other / W_self)` (main tree, biased progressive
                         sampling) resp. `W_other / (W_self + W_other)` (sub-trees, multinomial),
                         where `W = exp log_size`; every `random_bool` argument lies in `[0,1]`.
 3. abstraction        : a trajectory window is a perfect binary tree whose leaves carry the weights
                         `exp(-energy error)`; `subPmf` / `mainPmf` are the two sampling schemes;
                         `sub_multinomial` and `main_balance` (detailed balance inside a trajectory).
 4. `word_offset_*`    : direction words of length `d` ↔ offsets `0 … 2^d − 1` of the start inside
                         the window (the *mirrored word*), so every start in a window builds that
                         window with the same probability `2^{-d}`.
 5. `kernel_balance`   : any mixture of windows whose selection probability does not depend on the
                         start inside the window is reversible w.r.t. the leaf weights.
-/
import NutsModel.Model.Tree
import NutsModel.Thm.RealInst
import Mathlib.Tactic.Linarith
import Mathlib.Tactic.Positivity
import Mathlib.Tactic.FieldSimp
import Mathlib.Tactic.Ring
import Mathlib.Algebra.BigOperators.Ring.Finset

namespace NutsModel.C01
open NutsModel NutsModel.Gen NutsModel.Model

/-! ## 1. logaddexp (translated from `src/math/util.rs`) -/

theorem logaddexp_spec (a b : ℝ) : logaddexp a b = Real.log (Real.exp a + Real.exp b) := by
  simp only [logaddexp, Id.run, decide_eq_true_eq, feq_real, transc_log, transc_log1p, transc_exp,
    Nat.cast_ofNat, Nat.cast_zero, gt_iff_lt]
  by_cases hab : a = b
  · subst hab
    simp only [if_true]
    have : Real.exp a + Real.exp a = Real.exp a * 2 := by ring
    rw [this, Real.log_mul (Real.exp_pos a).ne' (by norm_num), Real.log_exp]
    rfl
  · simp only [hab, if_false]
    rcases lt_or_gt_of_ne hab with h | h
    · have h1 : ¬ (0 < a - b) := by linarith
      have h2 : a - b < 0 := by linarith
      simp only [pure, h1, h2, if_false, if_true]
      have : Real.exp a + Real.exp b = Real.exp b * (1 + Real.exp (a - b)) := by
        rw [mul_add, mul_one, ← Real.exp_add]; ring_nf
      rw [this, Real.log_mul (Real.exp_pos b).ne' (by positivity), Real.log_exp]
    · have h1 : 0 < a - b := by linarith
      simp only [pure, h1, if_true]
      have : Real.exp a + Real.exp b = Real.exp a * (1 + Real.exp (-(a - b))) := by
        rw [mul_add, mul_one, ← Real.exp_add]; ring_nf
      rw [this, Real.log_mul (Real.exp_pos a).ne' (by positivity), Real.log_exp]

theorem logaddexp_comm (a b : ℝ) : logaddexp a b = logaddexp b a := by
  rw [logaddexp_spec, logaddexp_spec, add_comm]

theorem exp_logaddexp (a b : ℝ) : Real.exp (logaddexp a b) = Real.exp a + Real.exp b := by
  rw [logaddexp_spec, Real.exp_log (by positivity)]

/-! ## 2. probability semantics of the decision structure -/

/-- probability that the outcome of `r` satisfies `P` (`coin ↦ ½`, `bern p ↦ p`). -/
noncomputable def prob {β : Type} : Rand ℝ β → (β → Bool) → ℝ
  | .pure b, P => if P b then 1 else 0
  | .coin k, P => (prob (k true) P + prob (k false) P) / 2
  | .bern p k, P => p * prob (k true) P + (1 - p) * prob (k false) P

/-- every `random_bool` argument of `r` lies in `[0,1]` (so `Rng::random_bool` cannot panic). -/
def BernOk {β : Type} : Rand ℝ β → Prop
  | .pure _ => True
  | .coin k => BernOk (k true) ∧ BernOk (k false)
  | .bern p k => 0 ≤ p ∧ p ≤ 1 ∧ BernOk (k true) ∧ BernOk (k false)

theorem prob_bind {β γ : Type} (r : Rand ℝ β) (f : β → Rand ℝ γ) (P : γ → Bool) (c : ℝ)
    (h : ∀ b, prob (f b) P = c) : prob (r.bind f) P = c * prob r (fun _ => true) := by
  induction r with
  | pure b => simp [Rand.bind, prob, h]
  | coin k ih => simp only [Rand.bind, prob, ih]; ring
  | bern p k ih => simp only [Rand.bind, prob, ih]; ring

theorem prob_total {β : Type} (r : Rand ℝ β) : prob r (fun _ => true) = 1 := by
  induction r with
  | pure b => simp [prob]
  | coin k ih => simp [prob, ih]
  | bern p k ih => simp only [prob, ih]; ring

/-- each doubling direction has probability one half. -/
theorem coin_half : prob (Rand.coin (α := ℝ) Rand.pure) (fun b => b) = 1 / 2 ∧
    prob (Rand.coin (α := ℝ) Rand.pure) (fun b => !b) = 1 / 2 := by
  simp [prob]

/-! ### `merge_into` of the executable model -/

/-- the draw kept by `mergeInto`, as a random variable: `true` = the new sub-tree's draw. -/
noncomputable def takeOtherRand (selfLS otherLS : ℝ) (isMain : Bool) : Rand ℝ Bool :=
  let merged := logaddexp selfLS otherLS
  let s := if isMain then selfLS else merged
  if otherLS ≥ s then Rand.pure true else Rand.bern (Real.exp (otherLS - s)) Rand.pure

/-- unfolding of the model's `mergeInto`: it is `takeOtherRand` followed by deterministic
    bookkeeping (no other randomness, no other use of the log sizes). -/
theorem mergeInto_eq (self other : Model.Tree ℝ) (dir : Dir) (lg : Log ℝ)
    (hd : self.depth = other.depth) (hlr : self.left ≤ self.right)
    (hmain : self.isMain = true →
      (match dir with | .fwd => self.left | .bwd => other.left) ≤ 0 ∧
      (match dir with | .fwd => other.right | .bwd => self.right) ≥ 0) :
    ∃ (g : Bool → Except Stop (Model.Tree ℝ) × Log ℝ),
      (mergeInto self other dir).run lg = (takeOtherRand self.logSize other.logSize self.isMain).bind (fun b => Rand.pure (g b)) ∧
      (∀ b, ∃ m, (g b).1 = .ok m ∧ m.draw = (if b then other.draw else self.draw) ∧
          m.logSize = logaddexp self.logSize other.logSize ∧ m.depth = self.depth + 1 ∧ m.isMain = self.isMain ∧
          m.left = (match dir with | .fwd => self.left | .bwd => other.left) ∧
          m.right = (match dir with | .fwd => other.right | .bwd => self.right)) := by
  unfold mergeInto takeOtherRand
  cases dir
  all_goals
    simp only [hd, hlr, ne_eq, not_true_eq_false, if_false, bind, StateT.bind, StateT.run, pure, StateT.pure] at hmain ⊢
    have hpanic : ∀ (a b : ℤ), (self.isMain = true → a ≤ 0 ∧ b ≥ 0) → ¬ (self.isMain = true ∧ ¬ (a ≤ 0 ∧ b ≥ 0)) := by
      rintro a b h ⟨hm, hn⟩; exact hn (h hm)
    rw [if_neg (hpanic _ _ hmain)]
    by_cases hge : other.logSize ≥ if self.isMain = true then self.logSize else logaddexp self.logSize other.logSize
    · rw [if_pos hge, if_pos hge]
      exact ⟨fun b => (Except.ok ⟨_, _, if b = true then other.draw else self.draw,
          logaddexp self.logSize other.logSize, other.depth + 1, self.isMain⟩,
          ⟨lg.evs, (other.depth + 1, self.isMain, if b = true then other.draw else self.draw, logaddexp self.logSize other.logSize) :: lg.merges, lg.rng⟩), rfl,
          fun b => ⟨_, rfl, rfl, rfl, rfl, rfl, rfl, rfl⟩⟩
    · rw [if_neg hge, if_neg hge]
      exact ⟨fun b => (Except.ok ⟨_, _, if b = true then other.draw else self.draw,
          logaddexp self.logSize other.logSize, other.depth + 1, self.isMain⟩,
          ⟨lg.evs, (other.depth + 1, self.isMain, if b = true then other.draw else self.draw, logaddexp self.logSize other.logSize) :: lg.merges,
            some (Real.exp (other.logSize - if self.isMain = true then self.logSize else logaddexp self.logSize other.logSize)) :: lg.rng⟩), rfl,
          fun b => ⟨_, rfl, rfl, rfl, rfl, rfl, rfl, rfl⟩⟩

/-- **acceptance probability of a main-tree merge** (biased progressive sampling):
    `P(take the new sub-tree's draw) = min(1, W_other / W_self)`. -/
theorem takeOther_main (ls lo : ℝ) :
    prob (takeOtherRand ls lo true) (fun b => b) = min 1 (Real.exp lo / Real.exp ls) := by
  unfold takeOtherRand
  simp only [if_true]
  by_cases h : lo ≥ ls
  · simp only [h, if_true, prob]
    rw [min_eq_left]
    rw [le_div_iff₀ (Real.exp_pos _), one_mul]; exact Real.exp_le_exp.mpr h
  · simp only [h, if_false, prob]
    have hlt : lo < ls := lt_of_not_ge h
    rw [← Real.exp_sub, min_eq_right]
    · simp
    · rw [← Real.exp_zero]; exact Real.exp_le_exp.mpr (by linarith)

/-- **acceptance probability of a sub-tree merge** (multinomial sampling):
    `P(take the new half's draw) = W_other / (W_self + W_other)`. -/
theorem takeOther_sub (ls lo : ℝ) :
    prob (takeOtherRand ls lo false) (fun b => b) = Real.exp lo / (Real.exp ls + Real.exp lo) := by
  unfold takeOtherRand
  simp only [Bool.false_eq_true, if_false]
  have hlt : ¬ lo ≥ logaddexp ls lo := by
    rw [logaddexp_spec]; rw [ge_iff_le, not_le]
    calc lo = Real.log (Real.exp lo) := (Real.log_exp lo).symm
      _ < Real.log (Real.exp ls + Real.exp lo) :=
        Real.log_lt_log (Real.exp_pos _) (by linarith [Real.exp_pos ls])
  simp only [hlt, if_false, prob]
  rw [Real.exp_sub, exp_logaddexp]
  simp

/-- every `random_bool` argument produced by a merge lies in `(0,1)`. -/
theorem takeOther_bernOk (ls lo : ℝ) (isMain : Bool) : BernOk (takeOtherRand ls lo isMain) := by
  unfold takeOtherRand
  simp only
  generalize (if isMain = true then ls else logaddexp ls lo) = s
  by_cases h : lo ≥ s
  · simp only [h, if_true]; trivial
  · simp only [h, if_false]
    refine ⟨(Real.exp_pos _).le, ?_, trivial, trivial⟩
    rw [← Real.exp_zero]; exact Real.exp_le_exp.mpr (by linarith [lt_of_not_ge h])

/-! ## 3. the perfect-binary-tree abstraction of a trajectory window -/

/-- a trajectory window: leaves carry the weights `exp(-energy error)`. -/
inductive BT where
  | leaf (w : ℝ)
  | node (l r : BT)

/-- total weight `exp log_size` -/
noncomputable def BT.W : BT → ℝ
  | .leaf w => w
  | .node l r => l.W + r.W

def BT.Pos : BT → Prop
  | .leaf w => 0 < w
  | .node l r => l.Pos ∧ r.Pos

theorem BT.W_pos : ∀ t : BT, t.Pos → 0 < t.W
  | .leaf _, h => h
  | .node l r, h => add_pos (l.W_pos h.1) (r.W_pos h.2)

/-- a leaf, addressed by its root-to-leaf path (`false` = left child) -/
abbrev Path := List Bool

/-- weight of the leaf at `p` (0 if `p` does not address a leaf) -/
noncomputable def BT.wAt : BT → Path → ℝ
  | .leaf w, [] => w
  | .leaf _, _ :: _ => 0
  | .node _ _, [] => 0
  | .node l r, b :: p => if b then r.wAt p else l.wAt p

/-- probability that *multinomial* progressive sampling over sub-tree `t` selects leaf `p`:
    at each merge the newer half replaces the draw with probability `W_new / (W_old + W_new)`;
    `first` tells which half was built first (it does not matter — see `sub_multinomial`). -/
noncomputable def BT.subPmf : BT → Path → ℝ
  | .leaf _, [] => 1
  | .leaf _, _ :: _ => 0
  | .node _ _, [] => 0
  | .node l r, b :: p =>
      if b then r.W / (l.W + r.W) * r.subPmf p else l.W / (l.W + r.W) * l.subPmf p

/-- **sub-trees are sampled multinomially**: `P(leaf p) = w_p / W`. -/
theorem sub_multinomial : ∀ (t : BT) (p : Path), t.Pos → t.subPmf p = t.wAt p / t.W
  | .leaf w, [], h => by simp [BT.subPmf, BT.wAt, BT.W, (show w ≠ 0 from ne_of_gt h)]
  | .leaf w, _ :: _, _ => by simp [BT.subPmf, BT.wAt]
  | .node l r, [], _ => by simp [BT.subPmf, BT.wAt]
  | .node l r, b :: p, h => by
    have hl := l.W_pos h.1
    have hr := r.W_pos h.2
    cases b
    · simp only [BT.subPmf, BT.wAt, BT.W, Bool.false_eq_true, if_false, sub_multinomial l p h.1]
      field_simp
    · simp only [BT.subPmf, BT.wAt, BT.W, if_true, sub_multinomial r p h.2]
      field_simp

/-- probability that the *main* tree built over window `t` from start leaf `s` ends with draw `p`
    (biased progressive sampling along the spine of `s`: at each doubling the sibling `o` of the
    current tree `c ∋ s` replaces the draw with probability `min(1, W_o / W_c)` by a leaf drawn
    multinomially from `o`). -/
noncomputable def BT.mainPmf : BT → Path → Path → ℝ
  | .leaf _, [], [] => 1
  | .leaf _, _, _ => 0
  | .node _ _, [], _ => 0
  | .node _ _, _, [] => 0
  | .node l r, bs :: s, bp :: p =>
      let c := if bs then r else l       -- the half containing the start
      let o := if bs then l else r       -- its sibling (the newest doubling)
      let a := min 1 (o.W / c.W)
      if bs = bp then (1 - a) * c.mainPmf s p else a * o.subPmf p

theorem min_div_symm {x y : ℝ} (hx : 0 < x) (hy : 0 < y) : min 1 (y / x) / y = min 1 (x / y) / x := by
  rcases le_total x y with h | h
  · rw [min_eq_left ((one_le_div hx).mpr h), min_eq_right ((div_le_one hy).mpr h)]
    field_simp
  · rw [min_eq_right ((div_le_one hx).mpr h), min_eq_left ((one_le_div hy).mpr h)]
    field_simp

/-- **detailed balance inside a trajectory**: for every window `t` with positive weights and any
    two of its leaves `s`, `p`:  `w_s · P_t(s → p) = w_p · P_t(p → s)`. -/
theorem main_balance : ∀ (t : BT) (s p : Path), t.Pos →
    t.wAt s * t.mainPmf s p = t.wAt p * t.mainPmf p s
  | .leaf w, [], [], _ => by simp [BT.mainPmf]
  | .leaf w, [], _ :: _, _ => by simp [BT.mainPmf, BT.wAt]
  | .leaf w, _ :: _, [], _ => by simp [BT.mainPmf, BT.wAt]
  | .leaf w, _ :: _, _ :: _, _ => by simp [BT.mainPmf]
  | .node l r, [], [], _ => by simp [BT.mainPmf]
  | .node l r, [], _ :: _, _ => by simp [BT.mainPmf, BT.wAt]
  | .node l r, _ :: _, [], _ => by simp [BT.mainPmf, BT.wAt]
  | .node l r, bs :: s, bp :: p, h => by
    have hl := l.W_pos h.1
    have hr := r.W_pos h.2
    cases bs <;> cases bp
    · -- both in the left half
      simp only [BT.mainPmf, BT.wAt, Bool.false_eq_true, if_false, if_true]
      have := main_balance l s p h.1
      linear_combination (1 - min 1 (r.W / l.W)) * this
    · -- start left, draw right
      simp only [BT.mainPmf, BT.wAt, Bool.false_eq_true, if_false, if_true, Bool.true_eq_false,
        sub_multinomial r p h.2, sub_multinomial l s h.1]
      have := min_div_symm hl hr
      calc l.wAt s * (min 1 (r.W / l.W) * (r.wAt p / r.W))
          = l.wAt s * r.wAt p * (min 1 (r.W / l.W) / r.W) := by ring
        _ = l.wAt s * r.wAt p * (min 1 (l.W / r.W) / l.W) := by rw [this]
        _ = r.wAt p * (min 1 (l.W / r.W) * (l.wAt s / l.W)) := by ring
    · simp only [BT.mainPmf, BT.wAt, Bool.false_eq_true, if_false, if_true, Bool.true_eq_false,
        sub_multinomial r s h.2, sub_multinomial l p h.1]
      have := min_div_symm hl hr
      calc r.wAt s * (min 1 (l.W / r.W) * (l.wAt p / l.W))
          = r.wAt s * l.wAt p * (min 1 (l.W / r.W) / l.W) := by ring
        _ = r.wAt s * l.wAt p * (min 1 (r.W / l.W) / r.W) := by rw [this]
        _ = l.wAt p * (min 1 (r.W / l.W) * (r.wAt s / r.W)) := by ring
    · simp only [BT.mainPmf, BT.wAt, if_true]
      have := main_balance r s p h.2
      linear_combination (1 - min 1 (l.W / r.W)) * this

/-! ## 4. direction words ↔ position of the start inside the window -/

/-- number of states added *behind* the start by a direction word (doubling `k` adds `2^k` states;
    `true` = forward, `false` = backward); the window after `v` is `[s − back v, s − back v + 2^|v| − 1]`. -/
def back : List Bool → ℕ → ℕ
  | [], _ => 0
  | b :: v, k => (if b then 0 else 2 ^ k) + back v (k + 1)

/-- the *mirrored word*: the unique direction word of length `d` that puts the start at offset `a`. -/
def wordOf : ℕ → ℕ → List Bool
  | 0, _ => []
  | d + 1, a => (a % 2 == 0) :: wordOf d (a / 2)

theorem back_lt (v : List Bool) (k : ℕ) : back v k < 2 ^ (k + v.length) - 2 ^ k + 1 := by
  induction v generalizing k with
  | nil => simp [back]
  | cons b v ih =>
    have := ih (k + 1)
    simp only [back, List.length_cons]
    have h2 : 2 ^ (k + 1 + v.length) = 2 ^ (k + (v.length + 1)) := by ring_nf
    have hk : 2 ^ k ≤ 2 ^ (k + 1) := Nat.pow_le_pow_right (by norm_num) (by omega)
    have hk' : 2 ^ (k + 1) ≤ 2 ^ (k + 1 + v.length) := Nat.pow_le_pow_right (by norm_num) (by omega)
    have hd : 2 ^ (k + 1) = 2 * 2 ^ k := by ring
    split <;> omega

theorem back_scale (v : List Bool) (k : ℕ) : back v k = 2 ^ k * back v 0 := by
  induction v generalizing k with
  | nil => simp [back]
  | cons b v ih =>
    simp only [back]
    rw [ih (k + 1), ih 1]
    split <;> ring

/-- every offset `a < 2^d` is realised by exactly the word `wordOf d a` … -/
theorem back_wordOf (d a : ℕ) (h : a < 2 ^ d) : back (wordOf d a) 0 = a ∧ (wordOf d a).length = d := by
  induction d generalizing a with
  | zero => simp at h; simp [wordOf, back, h]
  | succ d ih =>
    have h2 : a / 2 < 2 ^ d := by rw [Nat.div_lt_iff_lt_mul (by norm_num)]; rw [pow_succ] at h; exact h
    obtain ⟨i1, i2⟩ := ih (a / 2) h2
    refine ⟨?_, by simp [wordOf, i2]⟩
    simp only [wordOf, back]
    rw [back_scale, i1]
    by_cases hp : a % 2 = 0
    · simp [hp]; omega
    · simp [hp]; omega

/-- … and by no other word of length `d` (the correspondence start ↔ direction word is a bijection). -/
theorem wordOf_back (v : List Bool) : wordOf v.length (back v 0) = v := by
  induction v with
  | nil => simp [wordOf]
  | cons b v ih =>
    simp only [List.length_cons, wordOf, back]
    rw [back_scale v 1]
    cases b
    · simp only [Bool.false_eq_true, if_false, pow_zero, pow_one]
      have h1 : (1 + 2 * back v 0) % 2 = 1 := by omega
      have h2 : (1 + 2 * back v 0) / 2 = back v 0 := by omega
      simp [h1, h2, ih]
    · simp only [if_true, zero_add, pow_one]
      have h1 : (2 * back v 0) % 2 = 0 := by omega
      have h2 : (2 * back v 0) / 2 = back v 0 := by omega
      simp [h1, h2, ih]

/-! ## 5. the transition kernel as a mixture of windows -/

/-- **C01 (on the abstraction)**: let the transition from a state choose a window `T` (out of any
    finite family) with a probability `q T` that is the same for every start inside `T`
    (`word_offset` bijection + start-independent validity of a window), and then draw by biased
    progressive sampling.  Then for all states `s`, `i` (addressed in window `T` by `path T ·`):
    `π(s) · K(s,i) = π(i) · K(i,s)` with `π = ` leaf weight. -/
theorem kernel_balance {ι σ : Type} (windows : Finset ι) (tree : ι → BT) (q : ι → ℝ)
    (path : ι → σ → Path) (π : σ → ℝ)
    (hpos : ∀ T ∈ windows, (tree T).Pos)
    (hw : ∀ T ∈ windows, ∀ x, (tree T).wAt (path T x) = π x ∨ (∀ y, (tree T).mainPmf (path T x) (path T y) = 0 ∧ (tree T).mainPmf (path T y) (path T x) = 0))
    (s i : σ) :
    π s * ∑ T ∈ windows, q T * (tree T).mainPmf (path T s) (path T i)
      = π i * ∑ T ∈ windows, q T * (tree T).mainPmf (path T i) (path T s) := by
  rw [Finset.mul_sum, Finset.mul_sum]
  apply Finset.sum_congr rfl
  intro T hT
  have hb := main_balance (tree T) (path T s) (path T i) (hpos T hT)
  rcases hw T hT s with hs | hs
  · rcases hw T hT i with hi | hi
    · rw [← hs, ← hi]; linear_combination q T * hb
    · rw [(hi s).1, (hi s).2]; ring
  · rw [(hs i).1, (hs i).2]; ring

end NutsModel.C01
