/-
C03 — structural invariants of the NUTS tree builder (`Model/Tree.lean`, mirroring `src/nuts.rs`).

For every orbit, every `Options` with `extraDoublings = 0` and *every* value of the random
choices (`AllOut`; equivalently every `IsOutcome`, see `allOut_iff`), `draw` started on the empty
log satisfies:
 1. `draw_no_panic`      : the `assert!`s of `merge_into` are unreachable;
 2. `depth_le_maxdepth`  : `depth ≤ maxdepth`;
 3. `steps_bounds`       : `2^depth - 1 ≤ #leapfrogs ≤ 2^(depth+1) - 1`;
 4. `index_bounds`       : `|draw| ≤ 2^depth - 1`;
 5. `draw_is_visited`    : the draw is the start or the destination of a logged successful leapfrog;
 6. `maxdepth_flag_iff`  : `reachedMaxdepth → depth = maxdepth ∧ diverging = none`;
 7. `at_least_one_step`  : `1 ≤ maxdepth → 1 ≤ #leapfrogs` (also for `.err` outcomes).
`draw_outcomes` packages 1–7 per outcome.

Proof: Hoare-style specifications (`*_spec`) of `turningChecks`, `mergeInto`, `singleStep`,
`buildOther` (sub-tree invariant `SubInv`/`BuildPost`), `extend` (`MainInv`/`WeakInv`/`ExtPost`) and
`drawLoop` (`DrawPost`), composed with the bind rule `allOut_bindM` of `StateT (Log ℝ) (Rand ℝ)`.
-/
import NutsModel.Model.Tree
import NutsModel.Thm.RealInst
import Mathlib.Tactic.Ring

namespace NutsModel.C03
open NutsModel NutsModel.Gen NutsModel.Model

/-- every possible outcome of the run satisfies `P` (all random choices). -/
def AllOut {β : Type} (P : β → Prop) : Rand ℝ β → Prop
  | .pure b => P b
  | .coin k => AllOut P (k true) ∧ AllOut P (k false)
  | .bern _ k => AllOut P (k true) ∧ AllOut P (k false)

theorem AllOut.mono {β : Type} {P Q : β → Prop} (h : ∀ b, P b → Q b) :
    ∀ {r : Rand ℝ β}, AllOut P r → AllOut Q r
  | .pure _, hp => h _ hp
  | .coin _, hp => ⟨AllOut.mono h hp.1, AllOut.mono h hp.2⟩
  | .bern _ _, hp => ⟨AllOut.mono h hp.1, AllOut.mono h hp.2⟩

theorem AllOut.bind {β γ : Type} {Q : γ → Prop} (f : β → Rand ℝ γ) :
    ∀ {r : Rand ℝ β}, AllOut (fun b => AllOut Q (f b)) r → AllOut Q (r.bind f)
  | .pure _, hp => hp
  | .coin _, hp => ⟨AllOut.bind f hp.1, AllOut.bind f hp.2⟩
  | .bern _ _, hp => ⟨AllOut.bind f hp.1, AllOut.bind f hp.2⟩

/-- bind rule for the state monad over `Rand`. -/
theorem allOut_bindM {β γ : Type} {Q : γ × Log ℝ → Prop} (x : M ℝ β) (f : β → M ℝ γ) (lg : Log ℝ)
    (h : AllOut (fun p => AllOut Q ((f p.1).run p.2)) (x.run lg)) :
    AllOut Q ((x >>= f).run lg) := by
  show AllOut Q (Rand.bind (x lg) _)
  apply AllOut.bind
  exact AllOut.mono (fun p hp => by cases p; exact hp) h

theorem allOut_pureM {β : Type} {Q : β × Log ℝ → Prop} (b : β) (lg : Log ℝ) (h : Q (b, lg)) :
    AllOut Q ((pure b : M ℝ β).run lg) := h

/-- number of leapfrog calls in the log -/
def nLeapL : List Ev → Nat
  | [] => 0
  | .leap _ _ :: es => nLeapL es + 1
  | .turn _ _ :: es => nLeapL es

def nLeap (lg : Log ℝ) : Nat := nLeapL lg.evs


/-- log extension: `k` more leapfrogs, nothing removed -/
def LogExt (lg lg' : Log ℝ) (k : Nat) : Prop :=
  nLeap lg' = nLeap lg + k ∧ ∀ e, e ∈ lg.evs → e ∈ lg'.evs

theorem LogExt.trans {a b c : Log ℝ} {j k : Nat} (h1 : LogExt a b j) (h2 : LogExt b c k) :
    LogExt a c (j + k) :=
  ⟨by rw [h2.1, h1.1, Nat.add_assoc], fun e he => h2.2 e (h1.2 e he)⟩

theorem LogExt.refl (a : Log ℝ) : LogExt a a 0 := ⟨rfl, fun _ h => h⟩

theorem LogExt.of_evs {a b : Log ℝ} (h : b.evs = a.evs) : LogExt a b 0 :=
  ⟨by simp [nLeap, h], fun e he => h ▸ he⟩

/-- index `i` is the destination of a logged, successful leapfrog -/
def Vis (o : Orbit ℝ) (lg : Log ℝ) (i : Int) : Prop :=
  (Ev.leap (i - 1) i ∈ lg.evs ∨ Ev.leap (i + 1) i ∈ lg.evs) ∧ o.leap i = .ok

theorem Vis.mono {o : Orbit ℝ} {lg lg' : Log ℝ} {i : Int} {k : Nat} (h : LogExt lg lg' k) (hv : Vis o lg i) :
    Vis o lg' i :=
  ⟨hv.1.imp (h.2 _) (h.2 _), hv.2⟩

/-! ## unfolding helpers -/

theorem allOut_emit_bind {γ : Type} {Q : γ × Log ℝ → Prop} (e : Ev) (f : Unit → M ℝ γ) (lg : Log ℝ)
    (h : AllOut Q ((f ()).run { lg with evs := e :: lg.evs })) :
    AllOut Q ((emit e >>= f).run lg) := by
  apply allOut_bindM; exact h

theorem rand_pure_eq {β : Type} (a : β) : (pure a : Rand ℝ β) = Rand.pure a := rfl

theorem bern_run (p : ℝ) (lg : Log ℝ) :
    (bern p : M ℝ Bool).run lg = Rand.bern p (fun b => Rand.pure (b, { lg with rng := some p :: lg.rng })) := rfl
theorem coin_run (lg : Log ℝ) :
    (coin : M ℝ Bool).run lg = Rand.coin (fun b => Rand.pure (b, { lg with rng := none :: lg.rng })) := rfl

/-! ## the building blocks -/

theorem turningChecks_spec (o : Orbit ℝ) (self other : Model.Tree ℝ) (dir : Dir) (check : Bool) (lg : Log ℝ) :
    AllOut (fun p => LogExt lg p.2 0) ((turningChecks o self other dir check).run lg) := by
  unfold turningChecks
  cases check <;> cases dir <;> simp only [] <;>
  repeat (first | apply allOut_emit_bind | apply allOut_pureM | split)
  all_goals simp +contextual [LogExt, nLeap, nLeapL, rand_pure_eq, AllOut]

/-- left / right end of the merged tree -/
def mL (dir : Dir) (self other : Model.Tree ℝ) : Int :=
  match dir with | .fwd => self.left | .bwd => other.left
def mR (dir : Dir) (self other : Model.Tree ℝ) : Int :=
  match dir with | .fwd => other.right | .bwd => self.right

theorem mergeInto_spec (self other : Model.Tree ℝ) (dir : Dir) (lg : Log ℝ)
    (hd : self.depth = other.depth) (hlr : self.left ≤ self.right)
    (hmain : self.isMain = true → mL dir self other ≤ 0 ∧ mR dir self other ≥ 0) :
    AllOut (fun p => p.2.evs = lg.evs ∧ ∃ m, p.1 = .ok m ∧ (m.draw = other.draw ∨ m.draw = self.draw) ∧
        m.depth = self.depth + 1 ∧ m.isMain = self.isMain ∧
        m.left = mL dir self other ∧ m.right = mR dir self other)
      ((mergeInto self other dir).run lg) := by
  unfold mL mR at *
  unfold mergeInto
  cases dir
  all_goals
    simp only [hd, hlr, ne_eq, not_true_eq_false, if_false] at hmain ⊢
    have hpanic : ∀ (a b : ℤ), (self.isMain = true → a ≤ 0 ∧ b ≥ 0) → ¬ (self.isMain = true ∧ ¬ (a ≤ 0 ∧ b ≥ 0)) := by
      rintro a b h ⟨hm, hn⟩; exact hn (h hm)
    rw [if_neg (hpanic _ _ hmain)]
    generalize (if self.isMain = true then self.logSize else logaddexp self.logSize other.logSize) = s
    split
    · refine allOut_bindM _ _ _ ?_
      show AllOut _ (Rand.pure (true, lg))
      simp only [AllOut]
      exact ⟨rfl, _, rfl, Or.inl rfl, rfl, rfl, rfl, rfl⟩
    · refine allOut_bindM _ _ _ ?_
      rw [bern_run]
      simp only [AllOut]
      exact ⟨⟨rfl, _, rfl, Or.inl rfl, rfl, rfl, rfl, rfl⟩, ⟨rfl, _, rfl, Or.inr rfl, rfl, rfl, rfl, rfl⟩⟩

def Adj (dir : Dir) (seed t : Model.Tree ℝ) : Prop :=
  match dir with
  | .fwd => t.left = seed.right + 1
  | .bwd => t.right = seed.left - 1

structure SubInv (t : Model.Tree ℝ) (d : Nat) : Prop where
  depth : t.depth = d
  notMain : t.isMain = false
  width : t.right - t.left + 1 = ((2 ^ d : Nat) : Int)
  lo : t.left ≤ t.draw
  hi : t.draw ≤ t.right

def BuildPost (o : Orbit ℝ) (dir : Dir) (d : Nat) (seed : Model.Tree ℝ) (lg : Log ℝ) :
    Except Stop (Model.Tree ℝ) × Log ℝ → Prop
  | (.ok t, lg') => SubInv t d ∧ Adj dir seed t ∧ LogExt lg lg' (2 ^ d) ∧
      ∀ i, t.left ≤ i → i ≤ t.right → Vis o lg' i
  | (.error s, lg') => (∀ site, s ≠ .panic site) ∧ ∃ k, 1 ≤ k ∧ k ≤ 2 ^ d ∧ LogExt lg lg' k

theorem LogExt.cons_leap (lg : Log ℝ) (a b : Int) :
    LogExt lg { lg with evs := Ev.leap a b :: lg.evs } 1 :=
  ⟨rfl, fun _ he => List.mem_cons_of_mem _ he⟩

theorem singleStep_spec (o : Orbit ℝ) (t : Model.Tree ℝ) (dir : Dir) (lg : Log ℝ) :
    AllOut (BuildPost o dir 0 t lg) ((singleStep o t dir).run lg) := by
  unfold singleStep
  apply allOut_emit_bind
  split
  · apply allOut_pureM
    simp only [BuildPost]
    exact ⟨fun s h => (by cases h), 1, le_refl _, le_refl _, LogExt.cons_leap _ _ _⟩
  · apply allOut_pureM
    simp only [BuildPost]
    exact ⟨fun s h => (by cases h), 1, le_refl _, le_refl _, LogExt.cons_leap _ _ _⟩
  · apply allOut_pureM
    rename_i hok
    simp only [BuildPost]
    refine ⟨⟨rfl, rfl, by simp, le_refl _, le_refl _⟩, ?_, LogExt.cons_leap _ _ _, ?_⟩
    · cases dir
      · simp [Adj, Dir.sign]
      · simp only [Adj, Dir.sign]; rfl
    · intro i h1 h2
      have hi := le_antisymm h2 h1
      subst hi
      refine ⟨?_, hok⟩
      cases dir
      · left; simp [Dir.sign]
      · right; simp [Dir.sign]


theorem buildOther_spec (o : Orbit ℝ) (check : Bool) (dir : Dir) :
    ∀ (d : Nat) (seed : Model.Tree ℝ) (lg : Log ℝ),
      AllOut (BuildPost o dir d seed lg) ((buildOther o check dir d seed).run lg)
  | 0, seed, lg => by
    rw [buildOther]; exact singleStep_spec o seed dir lg
  | d + 1, seed, lg => by
    rw [buildOther]
    have hp : 2 ^ (d + 1) = 2 * 2 ^ d := by ring
    have hpos : 1 ≤ 2 ^ d := Nat.one_le_two_pow
    apply allOut_bindM
    refine AllOut.mono ?_ (buildOther_spec o check dir d seed lg)
    rintro ⟨r1, lg1⟩ h1
    cases r1 with
    | error s =>
      simp only [BuildPost] at h1 ⊢
      apply allOut_pureM
      obtain ⟨hs, k, hk1, hk2, hk⟩ := h1
      exact ⟨hs, k, hk1, by omega, hk⟩
    | ok t =>
      simp only [BuildPost] at h1 ⊢
      obtain ⟨ht, hadj, hlog1, hvis1⟩ := h1
      apply allOut_bindM
      refine AllOut.mono ?_ (buildOther_spec o check dir d t lg1)
      rintro ⟨r2, lg2⟩ h2
      cases r2 with
      | error s =>
        simp only [BuildPost] at h2 ⊢
        apply allOut_pureM
        obtain ⟨hs, k, hk1, hk2, hk⟩ := h2
        exact ⟨hs, 2 ^ d + k, by omega, by omega, hlog1.trans hk⟩
      | ok t' =>
        simp only [BuildPost] at h2 ⊢
        obtain ⟨ht', hadj', hlog2, hvis2⟩ := h2
        apply allOut_bindM
        refine AllOut.mono ?_ (turningChecks_spec o t t' dir check lg2)
        rintro ⟨turning, lg3⟩ hlog3
        apply allOut_bindM
        have hw := ht.width
        have hw' := ht'.width
        refine AllOut.mono ?_ (mergeInto_spec t t' dir lg3 (ht.depth.trans ht'.depth.symm) (by omega)
          (by rw [ht.notMain]; intro h; cases h))
        rintro ⟨r4, lg4⟩ ⟨hev, m, hr4, hdraw, hdep, hmain, hl, hr⟩
        simp only at hr4 hev hlog3
        subst hr4
        have hlog4 : LogExt lg lg4 (2 ^ (d + 1)) := by
          have := ((hlog1.trans hlog2).trans hlog3).trans (LogExt.of_evs hev)
          rw [hp]; rw [two_mul]; exact this
        simp only
        split
        · apply allOut_pureM
          exact ⟨fun s h => (by cases h), _, by omega, le_refl _, hlog4⟩
        · apply allOut_pureM
          simp only [BuildPost]
          have hlo := ht.lo
          have hhi := ht.hi
          have hlo' := ht'.lo
          have hhi' := ht'.hi
          have h24 : LogExt lg2 lg4 (0 + 0) := hlog3.trans (LogExt.of_evs hev)
          have h14 := hlog2.trans h24
          have hv : ∀ i, m.left ≤ i → i ≤ m.right → Vis o lg4 i := by
            intro i h1 h2
            by_cases hc : t.left ≤ i ∧ i ≤ t.right
            · exact (hvis1 i hc.1 hc.2).mono h14
            · refine (hvis2 i ?_ ?_).mono h24 <;> cases dir <;> simp only [mL, mR, Adj] at * <;> omega
          refine ⟨⟨by rw [hdep, ht.depth], hmain.trans ht.notMain, ?_, ?_, ?_⟩, ?_, hlog4, hv⟩ <;>
            cases dir <;> simp only [mL, mR, Adj] at * <;> omega


/-! ## the main tree -/

structure Shape (t : Model.Tree ℝ) : Prop where
  isMain : t.isMain = true
  l0 : t.left ≤ 0
  r0 : 0 ≤ t.right
  width : t.right - t.left + 1 = ((2 ^ t.depth : Nat) : Int)
  lo : t.left ≤ t.draw
  hi : t.draw ≤ t.right

def Covered (o : Orbit ℝ) (lg : Log ℝ) (t : Model.Tree ℝ) : Prop :=
  ∀ i, t.left ≤ i → i ≤ t.right → i ≠ 0 → Vis o lg i

/-- invariant of the main tree between doublings -/
structure MainInv (o : Orbit ℝ) (t : Model.Tree ℝ) (lg : Log ℝ) : Prop where
  shape : Shape t
  leaps : nLeap lg + 1 = 2 ^ t.depth
  cov : Covered o lg t

/-- what is known of a returned tree (the last doubling may have been discarded) -/
structure WeakInv (o : Orbit ℝ) (t : Model.Tree ℝ) (lg : Log ℝ) : Prop where
  shape : Shape t
  lb : 2 ^ t.depth ≤ nLeap lg + 1
  ub : nLeap lg + 1 ≤ 2 ^ (t.depth + 1)
  cov : Covered o lg t

theorem MainInv.weak {o : Orbit ℝ} {t : Model.Tree ℝ} {lg : Log ℝ} (h : MainInv o t lg) : WeakInv o t lg :=
  ⟨h.shape, h.leaps ▸ le_refl _, by rw [h.leaps, pow_succ]; omega, h.cov⟩

theorem MainInv.init (o : Orbit ℝ) : MainInv o (Tree.init : Model.Tree ℝ) {} :=
  ⟨⟨rfl, le_refl _, le_refl _, rfl, le_refl _, le_refl _⟩, rfl, fun _ h1 h2 h3 => absurd (le_antisymm h2 h1) h3⟩

def ExtPost (o : Orbit ℝ) (self : Model.Tree ℝ) (lg : Log ℝ) : Ext ℝ × Log ℝ → Prop
  | (.ok t, lg') => nLeap lg + 1 ≤ nLeap lg' ∧ MainInv o t lg' ∧ t.depth = self.depth + 1
  | (.turning t, lg') => nLeap lg + 1 ≤ nLeap lg' ∧ WeakInv o t lg' ∧ t.depth ≤ self.depth + 1
  | (.diverging t _ _, lg') => nLeap lg + 1 ≤ nLeap lg' ∧ WeakInv o t lg' ∧ t.depth ≤ self.depth + 1
  | (.err, lg') => nLeap lg + 1 ≤ nLeap lg'
  | (.panic _, _) => False

/-- a discarded (partial) doubling leaves the old tree with a weaker step count -/
theorem weak_of_discard {o : Orbit ℝ} {t : Model.Tree ℝ} {lg lg' : Log ℝ} {k : Nat}
    (h : MainInv o t lg) (hk1 : 1 ≤ k) (hk2 : k ≤ 2 ^ t.depth) (hl : LogExt lg lg' k) :
    nLeap lg + 1 ≤ nLeap lg' ∧ WeakInv o t lg' ∧ t.depth ≤ t.depth + 1 := by
  have h1 := hl.1
  have h2 := h.leaps
  have hp : 2 ^ (t.depth + 1) = 2 * 2 ^ t.depth := by ring
  exact ⟨by omega, ⟨h.shape, by omega, by omega, fun i a b c => (h.cov i a b c).mono hl⟩, by omega⟩

theorem extend_spec (o : Orbit ℝ) (self : Model.Tree ℝ) (dir : Dir) (check : Bool) (lg : Log ℝ)
    (hinv : MainInv o self lg) :
    AllOut (ExtPost o self lg) ((extend o self dir check).run lg) := by
  unfold extend
  have hp : 2 ^ (self.depth + 1) = 2 * 2 ^ self.depth := by ring
  have hpos : 1 ≤ 2 ^ self.depth := Nat.one_le_two_pow
  apply allOut_bindM
  refine AllOut.mono ?_ (buildOther_spec o check dir self.depth self lg)
  rintro ⟨r1, lg1⟩ h1
  cases r1 with
  | error s =>
    simp only [BuildPost] at h1
    obtain ⟨hs, k, hk1, hk2, hk⟩ := h1
    cases s with
    | turning => exact weak_of_discard hinv hk1 hk2 hk
    | diverging a b => exact weak_of_discard hinv hk1 hk2 hk
    | err => exact (weak_of_discard hinv hk1 hk2 hk).1
    | panic site => exact hs site rfl
  | ok other =>
    simp only [BuildPost] at h1
    obtain ⟨hsub, hadj, hlog1, hvis1⟩ := h1
    simp only
    apply allOut_bindM
    refine AllOut.mono ?_ (turningChecks_spec o self other dir check lg1)
    rintro ⟨turning, lg2⟩ hlog2
    apply allOut_bindM
    have hw := hsub.width
    have hw' := hinv.shape.width
    have hl0 := hinv.shape.l0
    have hr0 := hinv.shape.r0
    refine AllOut.mono ?_ (mergeInto_spec self other dir lg2 hsub.depth.symm (by omega)
      (by intro _; cases dir <;> simp only [mL, mR, Adj] at * <;> omega))
    rintro ⟨r3, lg3⟩ ⟨hev, m, hr3, hdraw, hdep, hmain, hl, hr⟩
    simp only at hr3 hev hlog2
    subst hr3
    have h13 : LogExt lg1 lg3 (0 + 0) := hlog2.trans (LogExt.of_evs hev)
    have h03 := hlog1.trans h13
    have hlo := hsub.lo
    have hhi := hsub.hi
    have hlo' := hinv.shape.lo
    have hhi' := hinv.shape.hi
    have hleaps := hinv.leaps
    have hn3 := h03.1
    have hcov : Covered o lg3 m := by
      intro i h1 h2 h3
      by_cases hc : self.left ≤ i ∧ i ≤ self.right
      · exact (hinv.cov i hc.1 hc.2 h3).mono h03
      · refine (hvis1 i ?_ ?_).mono h13 <;> cases dir <;> simp only [mL, mR, Adj] at * <;> omega
    have hshape : Shape m := by
      refine ⟨hmain.trans hinv.shape.isMain, ?_, ?_, ?_, ?_, ?_⟩ <;>
        cases dir <;> simp only [mL, mR, Adj] at * <;> (try rw [hdep, hp]) <;> omega
    have hm : MainInv o m lg3 := ⟨hshape, by rw [hdep, hp]; omega, hcov⟩
    simp only
    split
    · exact ⟨by omega, hm.weak, by omega⟩
    · exact ⟨by omega, hm, hdep⟩


/-! ## `draw` -/

/-- everything we know of a returned `DrawResult` -/
structure ResOk (o : Orbit ℝ) (opt : Options) (lg : Log ℝ) (r : DrawResult) : Prop where
  depth_le : r.depth ≤ opt.maxdepth
  lb : 2 ^ r.depth - 1 ≤ nLeap lg
  ub : nLeap lg ≤ 2 ^ (r.depth + 1) - 1
  idx : r.draw.natAbs ≤ 2 ^ r.depth - 1
  vis : r.draw = 0 ∨ Vis o lg r.draw
  flag : r.reachedMaxdepth = true → r.depth = opt.maxdepth ∧ r.diverging = none

def DrawPost (o : Orbit ℝ) (opt : Options) (t : Model.Tree ℝ) (lg : Log ℝ) : DrawOutcome × Log ℝ → Prop
  | (.ok r, lg') => nLeap lg ≤ nLeap lg' ∧ (t.depth < opt.maxdepth → nLeap lg + 1 ≤ nLeap lg') ∧ ResOk o opt lg' r
  | (.err, lg') => nLeap lg ≤ nLeap lg' ∧ (t.depth < opt.maxdepth → nLeap lg + 1 ≤ nLeap lg')
  | (.panic _, _) => False

theorem resOk_of_weak {o : Orbit ℝ} {opt : Options} {t : Model.Tree ℝ} {lg : Log ℝ}
    (h : WeakInv o t lg) (hd : t.depth ≤ opt.maxdepth) (div : Option (Int × Int)) :
    ResOk o opt lg { draw := t.draw, depth := t.depth, reachedMaxdepth := false, diverging := div } := by
  have hw := h.shape.width
  have h1 := h.shape.l0
  have h2 := h.shape.r0
  have h3 := h.shape.lo
  have h4 := h.shape.hi
  have hlb := h.lb
  have hub := h.ub
  refine ⟨hd, by simp only; omega, by simp only; omega, by simp only; omega, ?_, fun hf => by cases hf⟩
  by_cases h0 : t.draw = 0
  · exact Or.inl h0
  · exact Or.inr (h.cov _ h3 h4 h0)

theorem drawLoop_spec (o : Orbit ℝ) (opt : Options) (hextra : opt.extraDoublings = 0) :
    ∀ (fuel : Nat) (t : Model.Tree ℝ) (lg : Log ℝ), MainInv o t lg → t.depth ≤ opt.maxdepth →
      opt.maxdepth ≤ t.depth + fuel →
      AllOut (DrawPost o opt t lg) ((drawLoop o opt fuel t).run lg)
  | 0, t, lg, hinv, hd, hf => by
    rw [drawLoop]
    apply allOut_pureM
    have := resOk_of_weak hinv.weak hd none
    exact ⟨le_refl _, fun h => by omega,
      ⟨this.depth_le, this.lb, this.ub, this.idx, this.vis, fun _ => ⟨by simp only; omega, rfl⟩⟩⟩
  | fuel + 1, t, lg, hinv, hd, hf => by
    rw [drawLoop]
    split
    · rename_i hnot
      apply allOut_pureM
      have := resOk_of_weak hinv.weak hd none
      exact ⟨le_refl _, fun h => absurd h hnot,
        ⟨this.depth_le, this.lb, this.ub, this.idx, this.vis, fun _ => ⟨by simp only; omega, rfl⟩⟩⟩
    · rename_i hlt
      have hlt : t.depth < opt.maxdepth := by omega
      apply allOut_bindM
      rw [coin_run]
      generalize hlg0 : ({ evs := lg.evs, merges := lg.merges, rng := none :: lg.rng } : Log ℝ) = lg0
      have e0 : nLeap lg0 = nLeap lg := by rw [← hlg0]; rfl
      have hinv0 : MainInv o t lg0 := by rw [← hlg0]; exact ⟨hinv.shape, hinv.leaps, hinv.cov⟩
      refine ⟨?_, ?_⟩
      all_goals
        dsimp only
        apply allOut_bindM
        refine AllOut.mono ?_ (extend_spec o t _ _ lg0 hinv0)
        rintro ⟨x, lg1⟩ hx
        cases x with
        | ok t' =>
          simp only [ExtPost] at hx
          obtain ⟨hn, hm, hdep⟩ := hx
          refine AllOut.mono ?_ (drawLoop_spec o opt hextra fuel t' lg1 hm (by omega) (by omega))
          rintro ⟨out, lg2⟩ h2
          cases out with
          | ok r => exact ⟨by have := h2.1; omega, fun _ => by have := h2.1; omega, h2.2.2⟩
          | err => exact ⟨by have := h2.1; omega, fun _ => by have := h2.1; omega⟩
          | panic s => exact h2
        | turning t' =>
          simp only [ExtPost] at hx
          obtain ⟨hn, hw, hdep⟩ := hx
          simp only [hextra]
          rw [extraLoop]
          apply allOut_pureM
          exact ⟨by omega, fun _ => by omega, resOk_of_weak hw (by omega) none⟩
        | diverging t' s d =>
          simp only [ExtPost] at hx
          obtain ⟨hn, hw, hdep⟩ := hx
          apply allOut_pureM
          simp only [DrawPost]
          exact ⟨by omega, fun _ => by omega, resOk_of_weak hw (by omega) _⟩
        | err =>
          simp only [ExtPost] at hx
          apply allOut_pureM
          simp only [DrawPost]
          exact ⟨by omega, fun _ => by omega⟩
        | panic s => exact hx.elim


theorem draw_spec (o : Orbit ℝ) (opt : Options) (hextra : opt.extraDoublings = 0) :
    AllOut (DrawPost o opt Tree.init {}) ((draw o opt).run {}) := by
  unfold draw
  exact drawLoop_spec o opt hextra opt.maxdepth Tree.init {} (MainInv.init o) (Nat.zero_le _)
    (by simp [Tree.init])

/-! ## headline theorems

All are statements about *every* outcome (`AllOut`, i.e. all values of the direction coins and
of the `random_bool` draws) of `draw` started on the empty log, for an arbitrary orbit and
arbitrary options with `extraDoublings = 0`. -/

/-- 1. the three `assert!`s of `merge_into` are unreachable. -/
theorem draw_no_panic (o : Orbit ℝ) (opt : Options) (hextra : opt.extraDoublings = 0) :
    AllOut (fun p => ∀ site, p.1 ≠ DrawOutcome.panic site) ((draw o opt).run {}) := by
  refine AllOut.mono ?_ (draw_spec o opt hextra)
  rintro ⟨out, lg⟩ h site rfl
  exact h

theorem resOk_of_post {o : Orbit ℝ} {opt : Options} {t : Model.Tree ℝ} {lg : Log ℝ}
    {p : DrawOutcome × Log ℝ} {r : DrawResult} (h : DrawPost o opt t lg p) (hr : p.1 = .ok r) :
    ResOk o opt p.2 r := by
  obtain ⟨out, lg'⟩ := p
  simp only at hr
  subst hr
  exact h.2.2

/-- 2. the returned depth never exceeds `maxdepth`. -/
theorem depth_le_maxdepth (o : Orbit ℝ) (opt : Options) (hextra : opt.extraDoublings = 0) :
    AllOut (fun p => ∀ r, p.1 = DrawOutcome.ok r → r.depth ≤ opt.maxdepth) ((draw o opt).run {}) :=
  AllOut.mono (fun _ h _ hr => (resOk_of_post h hr).depth_le) (draw_spec o opt hextra)

/-- 3. number of leapfrog steps of a draw of depth `d`: between `2^d - 1` and `2^(d+1) - 1`. -/
theorem steps_bounds (o : Orbit ℝ) (opt : Options) (hextra : opt.extraDoublings = 0) :
    AllOut (fun p => ∀ r, p.1 = DrawOutcome.ok r →
        2 ^ r.depth - 1 ≤ nLeap p.2 ∧ nLeap p.2 ≤ 2 ^ (r.depth + 1) - 1) ((draw o opt).run {}) :=
  AllOut.mono (fun _ h _ hr => ⟨(resOk_of_post h hr).lb, (resOk_of_post h hr).ub⟩) (draw_spec o opt hextra)

/-- 4. the returned index lies within `2^depth - 1` of the start. -/
theorem index_bounds (o : Orbit ℝ) (opt : Options) (hextra : opt.extraDoublings = 0) :
    AllOut (fun p => ∀ r, p.1 = DrawOutcome.ok r → r.draw.natAbs ≤ 2 ^ r.depth - 1)
      ((draw o opt).run {}) :=
  AllOut.mono (fun _ h _ hr => (resOk_of_post h hr).idx) (draw_spec o opt hextra)

/-- 5. the returned index is the start, or the destination of a logged successful leapfrog. -/
theorem draw_is_visited (o : Orbit ℝ) (opt : Options) (hextra : opt.extraDoublings = 0) :
    AllOut (fun p => ∀ r, p.1 = DrawOutcome.ok r →
        r.draw = 0 ∨ ((Ev.leap (r.draw - 1) r.draw ∈ p.2.evs ∨ Ev.leap (r.draw + 1) r.draw ∈ p.2.evs) ∧
          o.leap r.draw = LeapOutcome.ok)) ((draw o opt).run {}) :=
  AllOut.mono (fun _ h _ hr => (resOk_of_post h hr).vis) (draw_spec o opt hextra)

/-- 6. `reached_maxdepth` is only reported at depth `maxdepth` and without divergence. -/
theorem maxdepth_flag_iff (o : Orbit ℝ) (opt : Options) (hextra : opt.extraDoublings = 0) :
    AllOut (fun p => ∀ r, p.1 = DrawOutcome.ok r →
        r.reachedMaxdepth = true → r.depth = opt.maxdepth ∧ r.diverging = none) ((draw o opt).run {}) :=
  AllOut.mono (fun _ h _ hr => (resOk_of_post h hr).flag) (draw_spec o opt hextra)

/-- 7. with `maxdepth ≥ 1` at least one leapfrog is performed (also on error outcomes). -/
theorem at_least_one_step (o : Orbit ℝ) (opt : Options) (hextra : opt.extraDoublings = 0)
    (hmax : 1 ≤ opt.maxdepth) :
    AllOut (fun p => 1 ≤ nLeap p.2) ((draw o opt).run {}) := by
  refine AllOut.mono ?_ (draw_spec o opt hextra)
  rintro ⟨out, lg⟩ h
  have h0 : (Tree.init : Model.Tree ℝ).depth < opt.maxdepth := hmax
  cases out with
  | ok r => have := h.2.1 h0; simp only; omega
  | err => have := h.2 h0; simp only; omega
  | panic s => exact h.elim

/-! ## reading `AllOut` and `nLeap` -/


/-- `b` is a possible outcome of `r` (for some values of the random choices). -/
inductive IsOutcome {β : Type} : Rand ℝ β → β → Prop
  | pure (b : β) : IsOutcome (.pure b) b
  | coin (k : Bool → Rand ℝ β) (c : Bool) (b : β) : IsOutcome (k c) b → IsOutcome (.coin k) b
  | bern (p : ℝ) (k : Bool → Rand ℝ β) (c : Bool) (b : β) : IsOutcome (k c) b → IsOutcome (.bern p k) b

theorem allOut_iff {β : Type} (P : β → Prop) (r : Rand ℝ β) :
    AllOut P r ↔ ∀ b, IsOutcome r b → P b := by
  induction r with
  | pure b =>
    exact ⟨fun h b' hb => by cases hb; exact h, fun h => h b (.pure b)⟩
  | coin k ih =>
    constructor
    · rintro ⟨h1, h2⟩ b hb
      cases hb with
      | coin _ c _ hc => cases c; exact (ih false).1 h2 b hc; exact (ih true).1 h1 b hc
    · intro h
      exact ⟨(ih true).2 fun b hb => h b (.coin k true b hb), (ih false).2 fun b hb => h b (.coin k false b hb)⟩
  | bern p k ih =>
    constructor
    · rintro ⟨h1, h2⟩ b hb
      cases hb with
      | bern _ _ c _ hc => cases c; exact (ih false).1 h2 b hc; exact (ih true).1 h1 b hc
    · intro h
      exact ⟨(ih true).2 fun b hb => h b (.bern p k true b hb), (ih false).2 fun b hb => h b (.bern p k false b hb)⟩

/-- `nLeap` counts the `Ev.leap` entries of the log. -/
theorem nLeap_eq_count (lg : Log ℝ) :
    nLeap lg = (lg.evs.filter (fun e => match e with | .leap _ _ => true | .turn _ _ => false)).length := by
  unfold nLeap
  induction lg.evs with
  | nil => rfl
  | cons e es ih => cases e <;> simp [nLeapL, ih]

/-- items 1–7 for a single possible outcome `(out, lg)` of `draw` on the empty log. -/
theorem draw_outcomes (o : Orbit ℝ) (opt : Options) (hextra : opt.extraDoublings = 0)
    (out : DrawOutcome) (lg : Log ℝ) (h : IsOutcome ((draw o opt).run {}) (out, lg)) :
    (∀ site, out ≠ DrawOutcome.panic site) ∧ (1 ≤ opt.maxdepth → 1 ≤ nLeap lg) ∧
    ∀ r, out = DrawOutcome.ok r →
      r.depth ≤ opt.maxdepth ∧
      (2 ^ r.depth - 1 ≤ nLeap lg ∧ nLeap lg ≤ 2 ^ (r.depth + 1) - 1) ∧
      r.draw.natAbs ≤ 2 ^ r.depth - 1 ∧
      (r.draw = 0 ∨ ((Ev.leap (r.draw - 1) r.draw ∈ lg.evs ∨ Ev.leap (r.draw + 1) r.draw ∈ lg.evs) ∧
        o.leap r.draw = LeapOutcome.ok)) ∧
      (r.reachedMaxdepth = true → r.depth = opt.maxdepth ∧ r.diverging = none) :=
  ⟨(allOut_iff _ _).1 (draw_no_panic o opt hextra) _ h,
   fun hmax => (allOut_iff _ _).1 (at_least_one_step o opt hextra hmax) _ h,
   fun r hr =>
    ⟨(allOut_iff _ _).1 (depth_le_maxdepth o opt hextra) _ h r hr,
     (allOut_iff _ _).1 (steps_bounds o opt hextra) _ h r hr,
     (allOut_iff _ _).1 (index_bounds o opt hextra) _ h r hr,
     (allOut_iff _ _).1 (draw_is_visited o opt hextra) _ h r hr,
     (allOut_iff _ _).1 (maxdepth_flag_iff o opt hextra) _ h r hr⟩⟩

#print axioms NutsModel.C03.draw_no_panic
#print axioms NutsModel.C03.depth_le_maxdepth
#print axioms NutsModel.C03.steps_bounds
#print axioms NutsModel.C03.index_bounds
#print axioms NutsModel.C03.draw_is_visited
#print axioms NutsModel.C03.maxdepth_flag_iff
#print axioms NutsModel.C03.at_least_one_step
#print axioms NutsModel.C03.draw_outcomes
#print axioms NutsModel.C03.allOut_iff
#print axioms NutsModel.C03.nLeap_eq_count

end NutsModel.C03
