/-
C02 (volume) — the Euclidean whitened leapfrog step PRESERVES LEBESGUE MEASURE.

What is proved: for every MEASURABLE field `f : ℝⁿ → ℝⁿ` the velocity shear
`shearV f : (y, v) ↦ (y, v + f y)` and, for every `eps : ℝ`, the position shear
`shearQ eps : (y, v) ↦ (y + eps • v, v)` are measure-preserving maps of `(ℝⁿ × ℝⁿ, volume)`
(`MeasureTheory.MeasurePreserving _ volume volume`, i.e. measurable and `map _ volume = volume`);
hence so are their composition `shearV f ∘ shearQ eps ∘ shearV f`, the Euclidean `leapfrog` step of
`Model/Leapfrog.lean` seen as a map on `(y, v)` pairs (via `leapfrog_shear_decomposition`), and any
number of iterated steps.

Why this is what the sampler needs: each shear is a skew product over the identity whose fibre map is
a translation (Lebesgue measure is translation invariant, Fubini does the rest), so the step has unit
Jacobian without any smoothness assumption on the gradient; being in addition bijective
(`shearV_bijective`, `shearQ_bijective`) with the opposite-sign step as inverse (`leapfrog_reversible`),
the integrator is a volume-preserving involution-up-to-momentum-flip, which is exactly what makes the
Metropolis / multinomial weights `exp(-H)` of NUTS correct with no Jacobian factor.
-/
import NutsModel.Thm.C02
import Mathlib.MeasureTheory.Measure.Prod
import Mathlib.MeasureTheory.Group.Measure
import Mathlib.MeasureTheory.Constructions.Pi
import Mathlib.MeasureTheory.Measure.Lebesgue.Basic
import Mathlib.Dynamics.Ergodic.MeasurePreserving

namespace NutsModel.C02
open NutsModel NutsModel.Model MeasureTheory

variable {n : ℕ}

/-! ### 11. the shears preserve Lebesgue measure -/

/-- `shearV f` is measurable as soon as `f` is. -/
theorem shearV_measurable {f : Vec ℝ n → Vec ℝ n} (hf : Measurable f) :
    Measurable (shearV f) := by
  unfold shearV
  refine measurable_fst.prodMk (measurable_pi_lambda _ fun i => ?_)
  exact ((measurable_pi_apply i).comp measurable_snd).add
    ((measurable_pi_apply i).comp (hf.comp measurable_fst))

/-- The velocity shear `(y, v) ↦ (y, v + f y)` preserves Lebesgue measure on `ℝⁿ × ℝⁿ`, for every
    measurable `f` (no continuity or differentiability needed): it is a skew product over `id`
    whose fibre maps are translations. -/
theorem shearV_measurePreserving {f : Vec ℝ n → Vec ℝ n} (hf : Measurable f) :
    MeasurePreserving (shearV f)
      (volume : Measure (Vec ℝ n × Vec ℝ n)) (volume : Measure (Vec ℝ n × Vec ℝ n)) := by
  have hgm : Measurable (Function.uncurry fun (a c : Vec ℝ n) => c + f a) :=
    measurable_snd.add (hf.comp measurable_fst)
  have hg : ∀ᵐ a ∂(volume : Measure (Vec ℝ n)),
      Measure.map (fun c : Vec ℝ n => c + f a) (volume : Measure (Vec ℝ n)) = volume :=
    ae_of_all _ fun a => (measurePreserving_add_right volume (f a)).map_eq
  exact (MeasurePreserving.id (volume : Measure (Vec ℝ n))).skew_product hgm hg

/-- The position shear is the velocity shear by the linear field `v ↦ eps • v`, conjugated by the
    coordinate swap. -/
theorem shearQ_eq_swap_shearV (eps : ℝ) :
    shearQ (n := n) eps = Prod.swap ∘ shearV (fun v i => eps * v i) ∘ Prod.swap := by
  funext z
  rfl

/-- The position shear `(y, v) ↦ (y + eps • v, v)` preserves Lebesgue measure on `ℝⁿ × ℝⁿ`
    for every `eps : ℝ`. -/
theorem shearQ_measurePreserving (eps : ℝ) :
    MeasurePreserving (shearQ (n := n) eps)
      (volume : Measure (Vec ℝ n × Vec ℝ n)) (volume : Measure (Vec ℝ n × Vec ℝ n)) := by
  have hlin : Measurable (fun (v : Vec ℝ n) (i : Fin n) => eps * v i) :=
    measurable_pi_lambda _ fun i => measurable_const.mul (measurable_pi_apply i)
  have hswap : MeasurePreserving (Prod.swap : Vec ℝ n × Vec ℝ n → Vec ℝ n × Vec ℝ n)
      (volume : Measure (Vec ℝ n × Vec ℝ n)) (volume : Measure (Vec ℝ n × Vec ℝ n)) :=
    Measure.measurePreserving_swap
  rw [shearQ_eq_swap_shearV]
  exact hswap.comp ((shearV_measurePreserving hlin).comp hswap)

/-! ### 12. the leapfrog step preserves Lebesgue measure -/

/-- velocity half-kick, position drift, velocity half-kick: the composition preserves volume -/
theorem leapfrog_volume_preserving {f : Vec ℝ n → Vec ℝ n} (hf : Measurable f) (eps : ℝ) :
    MeasurePreserving (shearV f ∘ shearQ eps ∘ shearV f)
      (volume : Measure (Vec ℝ n × Vec ℝ n)) (volume : Measure (Vec ℝ n × Vec ℝ n)) :=
  (shearV_measurePreserving hf).comp
    ((shearQ_measurePreserving eps).comp (shearV_measurePreserving hf))

/-- The Euclidean leapfrog step as a map on `(y, v)` pairs: the cached gradient `gy` is the one the
    sampler always carries, namely the whitened gradient at `y`. -/
noncomputable def leapfrogPair (T : Transform ℝ n) (gradX : Vec ℝ n → Vec ℝ n) (eps : ℝ)
    (z : Vec ℝ n × Vec ℝ n) : Vec ℝ n × Vec ℝ n :=
  let q := leapfrog T gradX .euclidean eps
    { y := z.1, v := z.2, gy := T.gradY (gradX (T.toX z.1)) }
  (q.y, q.v)

/-- `leapfrogPair` is the three-shear map (pointwise form of `leapfrog_shear_decomposition`). -/
theorem leapfrogPair_eq_shears (T : Transform ℝ n) (gradX : Vec ℝ n → Vec ℝ n) (eps : ℝ) :
    leapfrogPair T gradX eps
      = shearV (fun y i => eps / 2 * T.gradY (gradX (T.toX y)) i) ∘ shearQ eps
          ∘ shearV (fun y i => eps / 2 * T.gradY (gradX (T.toX y)) i) := by
  funext z
  exact leapfrog_shear_decomposition T gradX eps
    { y := z.1, v := z.2, gy := T.gradY (gradX (T.toX z.1)) } rfl

/-- `leapfrogPair` really is the model's step on any phase point with a consistent cached gradient -/
theorem leapfrogPair_spec (T : Transform ℝ n) (gradX : Vec ℝ n → Vec ℝ n) (eps : ℝ)
    (p : PhasePt ℝ n) (hg : p.gy = T.gradY (gradX (T.toX p.y))) :
    leapfrogPair T gradX eps (p.y, p.v)
      = ((leapfrog T gradX .euclidean eps p).y, (leapfrog T gradX .euclidean eps p).v) := by
  have hp : ({ y := p.y, v := p.v, gy := T.gradY (gradX (T.toX p.y)) } : PhasePt ℝ n) = p :=
    PhasePt.ext' rfl rfl hg.symm
  simp only [leapfrogPair, hp]

/-- The Euclidean leapfrog step preserves Lebesgue measure on `(y, v)` space whenever the half-kick
    field `y ↦ (eps/2) • gradY (gradX (toX y))` is measurable. -/
theorem leapfrog_step_volume_preserving (T : Transform ℝ n) (gradX : Vec ℝ n → Vec ℝ n) (eps : ℝ)
    (hG : Measurable fun (y : Vec ℝ n) (i : Fin n) => eps / 2 * T.gradY (gradX (T.toX y)) i) :
    MeasurePreserving (leapfrogPair T gradX eps)
      (volume : Measure (Vec ℝ n × Vec ℝ n)) (volume : Measure (Vec ℝ n × Vec ℝ n)) := by
  rw [leapfrogPair_eq_shears]
  exact leapfrog_volume_preserving hG eps

/-- Same, from measurability of the whitened gradient `y ↦ gradY (gradX (toX y))` itself
    (any step size, either sign). -/
theorem leapfrog_step_volume_preserving' (T : Transform ℝ n) (gradX : Vec ℝ n → Vec ℝ n) (eps : ℝ)
    (hG : Measurable fun y : Vec ℝ n => T.gradY (gradX (T.toX y))) :
    MeasurePreserving (leapfrogPair T gradX eps)
      (volume : Measure (Vec ℝ n × Vec ℝ n)) (volume : Measure (Vec ℝ n × Vec ℝ n)) :=
  leapfrog_step_volume_preserving T gradX eps
    (measurable_pi_lambda _ fun i => ((measurable_pi_apply i).comp hG).const_mul (eps / 2))

/-- Measure-theoretic content spelled out: the image-measure of every measurable set is its own
    volume, `vol (Φ⁻¹ s) = vol s`; as `Φ` is a bijection this is `vol (Φ '' t) = vol t`. -/
theorem leapfrog_step_volume_preimage (T : Transform ℝ n) (gradX : Vec ℝ n → Vec ℝ n) (eps : ℝ)
    (hG : Measurable fun y : Vec ℝ n => T.gradY (gradX (T.toX y)))
    {s : Set (Vec ℝ n × Vec ℝ n)} (hs : MeasurableSet s) :
    volume (leapfrogPair T gradX eps ⁻¹' s) = volume s :=
  (leapfrog_step_volume_preserving' T gradX eps hG).measure_preimage hs.nullMeasurableSet

/-- the step is a bijection of `(y, v)` space (composition of three bijective shears) -/
theorem leapfrogPair_bijective (T : Transform ℝ n) (gradX : Vec ℝ n → Vec ℝ n) (eps : ℝ) :
    Function.Bijective (leapfrogPair T gradX eps) := by
  rw [leapfrogPair_eq_shears]
  exact (shearV_bijective _).comp ((shearQ_bijective eps).comp (shearV_bijective _))

/-- a whole trajectory of `m` leapfrog steps preserves Lebesgue measure -/
theorem leapfrog_iterate_volume_preserving (T : Transform ℝ n) (gradX : Vec ℝ n → Vec ℝ n)
    (eps : ℝ) (hG : Measurable fun y : Vec ℝ n => T.gradY (gradX (T.toX y))) (m : ℕ) :
    MeasurePreserving ((leapfrogPair T gradX eps)^[m])
      (volume : Measure (Vec ℝ n × Vec ℝ n)) (volume : Measure (Vec ℝ n × Vec ℝ n)) :=
  (leapfrog_step_volume_preserving' T gradX eps hG).iterate m

/-! ### non-vacuity: the measurability hypothesis holds for the diagonal transformation and any
measurable gradient field -/

example (gradX : Vec ℝ 2 → Vec ℝ 2) (hgrad : Measurable gradX) (eps : ℝ) :
    MeasurePreserving (leapfrogPair exDiag.transform gradX eps)
      (volume : Measure (Vec ℝ 2 × Vec ℝ 2)) (volume : Measure (Vec ℝ 2 × Vec ℝ 2)) := by
  refine leapfrog_step_volume_preserving' _ gradX eps ?_
  have hX : Measurable fun (y : Vec ℝ 2) (i : Fin 2) => exDiag.mean i + y i * exDiag.stds i :=
    measurable_pi_lambda _ fun i =>
      measurable_const.add ((measurable_pi_apply i).mul measurable_const)
  have hY : Measurable fun (g : Vec ℝ 2) (i : Fin 2) => g i * exDiag.stds i :=
    measurable_pi_lambda _ fun i => (measurable_pi_apply i).mul measurable_const
  exact hY.comp (hgrad.comp hX)

#print axioms shearV_measurePreserving
#print axioms shearQ_measurePreserving
#print axioms leapfrog_volume_preserving
#print axioms leapfrogPair_eq_shears
#print axioms leapfrogPair_spec
#print axioms leapfrog_step_volume_preserving
#print axioms leapfrog_step_volume_preserving'
#print axioms leapfrog_step_volume_preimage
#print axioms leapfrogPair_bijective
#print axioms leapfrog_iterate_volume_preserving

end NutsModel.C02
