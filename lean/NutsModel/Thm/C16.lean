/-
C16 — statistics schema: theorems over the GENERATED struct schemas (`Gen/Schema.lean`,
re-extracted from the `#[derive(Storable)]` structs on every run) composed per preset
(`Model/Stats.lean`).
-/
import NutsModel.Model.Stats
import Mathlib.Data.List.Nodup

namespace NutsModel.C16
open NutsModel.Model

/-- every preset's statistics type resolves (all referenced structs exist, arities match, no
    optional delegated field whose `get_all` could silently drop names). -/
theorem preset_flat_some : ∀ p : Preset, (presetFlat p).isSome = true := by
  intro p; cases p <;> decide

theorem names_nodup_dec : ∀ p : Preset, (presetFlat p).map (fun f => decide (names f).Nodup) = some true := by
  intro p; cases p <;> decide

/-- **C16 / names unique**: for every preset the declared statistic names are pairwise distinct
    (so the name-indexed `item_type` / `dims` / `event_dim` lookups, the Arrow builders and the Zarr
    arrays cannot confuse two statistics). -/
theorem names_nodup (p : Preset) (flat : List Basic) (h : presetFlat p = some flat) : (names flat).Nodup := by
  have := names_nodup_dec p
  rw [h] at this
  simpa using this

/-- with unique names, the derived `item_type` / `dims` / `event_dim` (first matching arm) of the
    `i`-th name returned by `get_all` are those of the `i`-th field itself. -/
theorem lookup_own (flat : List Basic) (hnd : (names flat).Nodup) (i : ℕ) (hi : i < flat.length) :
    lookup flat (flat[i]).name = some flat[i] := by
  unfold lookup
  induction flat generalizing i with
  | nil => simp at hi
  | cons b bs ih =>
    simp only [names, List.map_cons, List.nodup_cons] at hnd
    cases i with
    | zero => simp [List.find?]
    | succ i =>
      have hi' : i < bs.length := by simpa using hi
      have hne : (b.name == (bs[i]).name) = false := by
        have : (bs[i]).name ∈ bs.map (·.name) := List.mem_map.mpr ⟨bs[i], List.getElem_mem hi', rfl⟩
        have hneq : b.name ≠ (bs[i]).name := fun h => hnd.1 (h ▸ this)
        simpa using hneq
      simp only [List.getElem_cons_succ, List.find?, hne]
      exact ih hnd.2 i hi'

/-- **C16 / alignment**: `get_all` visits the fields in declaration order, so its names are the
    declared names (definitional in the model: both are the same traversal) and, by `lookup_own`,
    every value's declared type, dimensions and event dimension are those of its own field. -/
theorem getAll_names_aligned (p : Preset) (flat : List Basic) (h : presetFlat p = some flat)
    (i : ℕ) (hi : i < flat.length) :
    (names flat)[i]'(by simpa [names] using hi) = (flat[i]).name ∧ lookup flat ((names flat)[i]'(by simpa [names] using hi)) = some flat[i] := by
  have e : (names flat)[i]'(by simpa [names] using hi) = (flat[i]).name := by simp [names]
  exact ⟨e, by rw [e]; exact lookup_own flat (names_nodup p flat h) i hi⟩

/-- every optional statistic of every preset has a presence rule in the model -/
theorem optional_known_dec : ∀ p : Preset, (presetFlat p).map (fun f =>
    f.all (fun b => !b.isOption || (expectedPresent ⟨false, false, false, false, false⟩ ⟨false, false, false, false, false, false⟩ b.name).isSome)) = some true := by
  intro p; cases p <;> decide

/-- the optional statistics WITHOUT event dimension, over all presets -/
def nonEventOptional : List String := ["unconstrained_draw", "gradient", "transformed_position", "transformed_gradient"]

theorem nonevent_optional_dec : ∀ p : Preset, (presetFlat p).map (fun f =>
    f.all (fun b => !(b.isOption && b.event.isNone) || nonEventOptional.contains b.name)) = some true := by
  intro p; cases p <;> decide

/-- a statistic without event dimension is never optional … or is one of `nonEventOptional` -/
theorem nonevent_optional (p : Preset) (flat : List Basic) (h : presetFlat p = some flat) (b : Basic)
    (hb : b ∈ flat) (ho : b.isOption = true) (he : b.event = none) : b.name ∈ nonEventOptional := by
  have := nonevent_optional_dec p
  rw [h] at this
  simp only [Option.map_some, Option.some.injEq, List.all_eq_true] at this
  have := this b hb
  simp [ho, he] at this
  simpa using this

/-- **C16 / non-event statistics are present on every draw or on none**: for a statistic without
    event dimension, presence is a function of the settings only — never of what happened in the
    draw (divergence, transformation update). Non-optional fields are always present. -/
theorem nonevent_always_or_never (p : Preset) (flat : List Basic) (h : presetFlat p = some flat) (b : Basic)
    (hb : b ∈ flat) (ho : b.isOption = true) (he : b.event = none) (o : StoreOpts) (c c' : DrawCtx) :
    expectedPresent o c b.name = expectedPresent o c' b.name := by
  have hm := nonevent_optional p flat h b hb ho he
  simp only [nonEventOptional, List.mem_cons, List.not_mem_nil, or_false] at hm
  rcases hm with h | h | h | h <;> simp [h, expectedPresent]

/-- the statistics with event dimension `divergence` -/
def divergenceFields : List String :=
  ["divergence_draw", "divergence_message", "divergence_start", "divergence_start_gradient", "divergence_end",
   "divergence_momentum", "divergence_energy_error"]

theorem divergence_fields_dec : ∀ p : Preset, (presetFlat p).map (fun f =>
    f.all (fun b => !(b.event == some "divergence") || divergenceFields.contains b.name)) = some true := by
  intro p; cases p <;> decide

/-- **C16 / event statistics only with their event**: a divergence statistic is present only on a
    divergent draw; `divergence_draw` and `divergence_message` are present exactly on divergent
    draws; the transformation-update statistics only when the transformation id changed. -/
theorem event_fields_iff_event (o : StoreOpts) (c : DrawCtx) :
    (∀ n ∈ divergenceFields, expectedPresent o c n = some true → c.diverging = true) ∧
    expectedPresent o c "divergence_draw" = some c.diverging ∧
    expectedPresent o c "divergence_message" = some c.diverging ∧
    expectedPresent o c "transformation_update_id" = some c.idChanged ∧
    (∀ n ∈ ["mass_matrix_inv", "transformation_mu", "mass_matrix_stds", "mass_matrix_eigvals", "num_eigenvalues"],
        expectedPresent o c n = some true → c.idChanged = true) := by
  refine ⟨?_, rfl, rfl, rfl, ?_⟩
  · intro n hn hp
    simp only [divergenceFields, List.mem_cons, List.not_mem_nil, or_false] at hn
    rcases hn with h | h | h | h | h | h | h <;> subst h <;> simp [expectedPresent] at hp <;> simp_all
  · intro n hn hp
    simp only [List.mem_cons, List.not_mem_nil, or_false] at hn
    rcases hn with h | h | h | h | h <;> subst h <;> simp [expectedPresent] at hp <;> simp_all

/-- the statistics with event dimension `transformation_update` -/
def updateFields : List String :=
  ["transformation_update_id", "mass_matrix_inv", "transformation_mu", "mass_matrix_stds", "mass_matrix_eigvals",
   "num_eigenvalues"]

/-- the presence rule of `name` implies the event `e` happened in the draw -/
def eventHappened (c : DrawCtx) (e : String) : Bool :=
  if e == "divergence" then c.diverging else if e == "transformation_update" then c.idChanged else false

/-- over the generated schemas of all presets: a field that declares an event dimension is optional,
    its event is one of the two known ones, and its name is classified under THAT event (so a field
    moved to the other event dimension, or a new event field without presence rule, fails here). -/
theorem event_classified_dec : ∀ p : Preset, (presetFlat p).map (fun f =>
    f.all (fun b => match b.event with
      | none => true
      | some e => b.isOption &&
          ((e == "divergence" && divergenceFields.contains b.name) ||
           (e == "transformation_update" && updateFields.contains b.name)))) = some true := by
  intro p; cases p <;> decide

/-- **C16 / event statistics, quantified over the declared schema**: for every preset and every
    declared statistic with an event dimension `e`, the statistic is optional and can be present
    only on a draw where `e` happened (divergence: the draw diverged; transformation_update: the
    transformation id changed), whatever the store options. -/
theorem event_field_present_only_on_event (p : Preset) (flat : List Basic) (h : presetFlat p = some flat)
    (b : Basic) (hb : b ∈ flat) (e : String) (he : b.event = some e) (o : StoreOpts) (c : DrawCtx)
    (hp : expectedPresent o c b.name = some true) :
    b.isOption = true ∧ eventHappened c e = true := by
  have := event_classified_dec p
  rw [h] at this
  simp only [Option.map_some, Option.some.injEq, List.all_eq_true] at this
  have hb' := this b hb
  rw [he] at hb'
  simp only [Bool.and_eq_true, Bool.or_eq_true, beq_iff_eq, List.contains_eq_mem, decide_eq_true_eq] at hb'
  refine ⟨hb'.1, ?_⟩
  rcases hb'.2 with ⟨rfl, hm⟩ | ⟨rfl, hm⟩
  · have := (event_fields_iff_event o c).1 b.name hm hp
    simp [eventHappened, this]
  · simp only [updateFields, List.mem_cons, List.not_mem_nil, or_false] at hm
    have hc : c.idChanged = true := by
      rcases hm with h | h | h | h | h | h <;> rw [h] at hp <;> simp [expectedPresent] at hp <;> simp_all
    simp [eventHappened, hc]

/-- the identifying fields of each event are declared by every preset that declares the event at
    all: `divergence_draw`/`divergence_message` accompany any divergence field, and
    `transformation_update_id` accompanies any transformation-update field. -/
theorem identifying_fields_declared_dec : ∀ p : Preset, (presetFlat p).map (fun f =>
    (!(f.any (fun b => b.event == some "divergence")) ||
       (f.any (fun b => b.name == "divergence_draw") && f.any (fun b => b.name == "divergence_message"))) &&
    (!(f.any (fun b => b.event == some "transformation_update")) ||
       f.any (fun b => b.name == "transformation_update_id"))) = some true := by
  intro p; cases p <;> decide

/-- non-vacuity: the diagonal NUTS preset declares event fields of both kinds -/
example : (presetFlat .diagNuts).map (fun f =>
    f.any (fun b => b.event == some "divergence") && f.any (fun b => b.event == some "transformation_update")) = some true := by
  decide

end NutsModel.C16
