import NutsModel.Gen.Progress
import NutsModel.Thm.CtlTrace

/-! C11 — "the progress counters (finished draws, divergences, step totals) agree with the trace".

`Gen/Progress.lean` is regenerated from `src/sampler.rs` (`ChainProgress`, `ChainProgress::update`) on every run; the
chain loop calls `update` exactly once per recorded draw, under the trace mutex (Model/Controller.lean, theorem
`progress_agrees`).  The theorems below are about the GENERATED definition, for every start state and every sequence of
per-draw reports, of any length: after `k` calls the counters are the corresponding folds of the first `k` trace rows.
A change of `update` that miscounts (a stale flag, a counter bumped in the wrong branch, an index taken after the
increment) no longer satisfies them. -/
set_option linter.unusedSectionVars false

namespace NutsModel.Ctl
open NutsModel NutsModel.Gen

variable {α : Type} [Add α] [Sub α] [Mul α] [Div α] [Neg α] [NatCast α] [OfScientific α]
  [LT α] [LE α] [DecidableLT α] [DecidableLE α] [Transc α]

/-- what the chain reports for one draw (`Progress`): the trace row's `diverging`, `tuning`, step count, step size -/
structure DrawInfo (α : Type) where
  diverging : Bool
  tuning : Bool
  numSteps : Nat
  stepSize : α

/-- a divergence that counts: in a draw after warmup -/
def DrawInfo.postDiv (i : DrawInfo α) : Bool := i.diverging && !i.tuning

def pupd (s : ChainProgress α) (i : DrawInfo α) : ChainProgress α :=
  ChainProgress.update s i.diverging i.tuning i.numSteps i.stepSize

/-- the counters after the chain reported the draws `is`, in order -/
def prun (s : ChainProgress α) (is : List (DrawInfo α)) : ChainProgress α := is.foldl pupd s

/-- indices (counted from `base`) of the draws of `is` with a counting divergence -/
def divIdx (base : Nat) : List (DrawInfo α) → List Nat
  | [] => []
  | i :: is => (if i.postDiv then [base] else []) ++ divIdx (base + 1) is

theorem pupd_eq (s : ChainProgress α) (i : DrawInfo α) :
    pupd s i = { s with
      finished_draws := s.finished_draws + 1
      divergences := if i.postDiv then s.divergences + 1 else s.divergences
      divergent_draws := if i.postDiv then s.divergent_draws ++ [s.finished_draws] else s.divergent_draws
      tuning := i.tuning
      latest_num_steps := i.numSteps
      total_num_steps := s.total_num_steps + i.numSteps
      step_size := i.stepSize } := by
  obtain ⟨d, t, n, e⟩ := i
  cases d <;> cases t <;> rfl

theorem progress_finished (s : ChainProgress α) (is : List (DrawInfo α)) :
    (prun s is).finished_draws = s.finished_draws + is.length := by
  induction is generalizing s with
  | nil => rfl
  | cons i is ih => simp only [prun, List.foldl_cons] at ih ⊢; rw [ih, pupd_eq]; simp only [List.length_cons]; omega

theorem progress_divergences (s : ChainProgress α) (is : List (DrawInfo α)) :
    (prun s is).divergences = s.divergences + is.countP DrawInfo.postDiv := by
  induction is generalizing s with
  | nil => rfl
  | cons i is ih =>
    simp only [prun, List.foldl_cons] at ih ⊢; rw [ih, pupd_eq, List.countP_cons]
    by_cases h : i.postDiv <;> simp [h] <;> omega

theorem progress_steps (s : ChainProgress α) (is : List (DrawInfo α)) :
    (prun s is).total_num_steps = s.total_num_steps + (is.map DrawInfo.numSteps).sum := by
  induction is generalizing s with
  | nil => simp [prun]
  | cons i is ih =>
    simp only [prun, List.foldl_cons] at ih ⊢; rw [ih, pupd_eq]; simp only [List.map_cons, List.sum_cons]; omega

theorem progress_divergent_draws (s : ChainProgress α) (is : List (DrawInfo α)) :
    (prun s is).divergent_draws = s.divergent_draws ++ divIdx s.finished_draws is := by
  induction is generalizing s with
  | nil => simp [prun, divIdx]
  | cons i is ih =>
    simp only [prun, List.foldl_cons] at ih ⊢; rw [ih, pupd_eq]
    by_cases h : i.postDiv <;> simp [h, divIdx]

theorem progress_total_unchanged (s : ChainProgress α) (is : List (DrawInfo α)) :
    (prun s is).total_draws = s.total_draws ∧ (prun s is).started = s.started := by
  induction is generalizing s with
  | nil => exact ⟨rfl, rfl⟩
  | cons i is ih => simp only [prun, List.foldl_cons] at ih ⊢; rw [(ih _).1, (ih _).2, pupd_eq]; exact ⟨rfl, rfl⟩

/-- `divIdx` lists exactly the positions of the counting divergences -/
theorem mem_divIdx (base k : Nat) (is : List (DrawInfo α)) :
    k ∈ divIdx base is ↔ ∃ j, ∃ h : j < is.length, k = base + j ∧ (is[j]).postDiv = true := by
  induction is generalizing base with
  | nil => simp [divIdx]
  | cons i is ih =>
    simp only [divIdx, List.mem_append, ih, List.length_cons]
    constructor
    · rintro (h | ⟨j, hj, rfl, hp⟩)
      · by_cases hp : i.postDiv
        · simp [hp] at h; exact ⟨0, by omega, by omega, by simpa using hp⟩
        · simp [hp] at h
      · exact ⟨j + 1, by omega, by omega, by simpa using hp⟩
    · rintro ⟨j, hj, rfl, hp⟩
      cases j with
      | zero => left; simp at hp; simp [hp]
      | succ j => right; exact ⟨j, by omega, by omega, by simpa using hp⟩

theorem divIdx_length (base : Nat) (is : List (DrawInfo α)) : (divIdx base is).length = is.countP DrawInfo.postDiv := by
  induction is generalizing base with
  | nil => rfl
  | cons i is ih => simp only [divIdx, List.length_append, ih, List.countP_cons]; by_cases h : i.postDiv <;> simp [h]; omega

/-- From a fresh chain (all counters zero, no divergent draws): after the first `k` rows of the trace were reported, the counters
are `k`, the number of counting divergences among those rows, the sum of their step counts, and the list of their positions. -/
theorem progress_counters_agree (s : ChainProgress α) (is : List (DrawInfo α))
    (h0 : s.finished_draws = 0 ∧ s.divergences = 0 ∧ s.total_num_steps = 0 ∧ s.divergent_draws = []) :
    (prun s is).finished_draws = is.length ∧
    (prun s is).divergences = is.countP DrawInfo.postDiv ∧
    (prun s is).total_num_steps = (is.map DrawInfo.numSteps).sum ∧
    (prun s is).divergent_draws = divIdx 0 is ∧
    (prun s is).divergences = (prun s is).divergent_draws.length := by
  obtain ⟨h1, h2, h3, h4⟩ := h0
  have e1 := progress_finished s is
  have e2 := progress_divergences s is
  have e3 := progress_steps s is
  have e4 := progress_divergent_draws s is
  rw [h1] at e1 e4; rw [h2] at e2; rw [h3] at e3; rw [h4] at e4
  simp only [Nat.zero_add, List.nil_append] at e1 e2 e3 e4
  exact ⟨e1, e2, e3, e4, by rw [e2, e4, divIdx_length]⟩

/-- non-vacuity: warmup divergence not counted, the first post-warmup draw's divergence counted at its index -/
example (x : α) :
    let s0 : ChainProgress α := { finished_draws := 0, total_draws := 3, divergences := 0, tuning := true, started := true, latest_num_steps := 0, total_num_steps := 0, step_size := x, divergent_draws := [] }
    let r := prun s0 [⟨true, true, 3, x⟩, ⟨true, false, 7, x⟩, ⟨false, false, 1, x⟩]
    r.divergent_draws = [1] ∧ r.divergences = 1 ∧ r.total_num_steps = 11 ∧ r.finished_draws = 3 := by
  refine ⟨rfl, rfl, rfl, rfl⟩

end NutsModel.Ctl
