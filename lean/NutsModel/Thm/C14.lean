/-
C14 — the in-memory backends return exactly what was recorded (refinement of each backend's
state machine to the recorded list), for every sequence of records.
-/
import NutsModel.Model.Storage
import NutsModel.Thm.C15

namespace NutsModel.C14
open NutsModel.Model

variable {γ : Type}

/-! ### HashMap -/
theorem hm_run (s : HmSt γ) (rs : List (SRec γ)) :
    (rs.foldl HmSt.record s).warm = s.warm ++ specWarm rs ∧ (rs.foldl HmSt.record s).samp = s.samp ++ specSamp rs := by
  induction rs generalizing s with
  | nil => simp [specWarm, specSamp]
  | cons r rs ih =>
    simp only [List.foldl_cons]
    obtain ⟨h1, h2⟩ := ih (s.record r)
    rw [h1, h2]
    cases hv : r.val with
    | none => cases ht : r.tuning <;> simp [HmSt.record, hv, ht, specWarm, specSamp, List.filter_cons]
    | some v => cases ht : r.tuning <;> simp [HmSt.record, hv, ht, specWarm, specSamp, List.filter_cons, List.append_assoc]

/-- **C14 / HashMap**: the finalised (and inspected) vector of every variable is the recorded warmup
    values followed by the recorded sampling values, in recording order. -/
theorem hashmap_roundtrip (rs : List (SRec γ)) :
    (rs.foldl HmSt.record HmSt.init).finalize = specWarm rs ++ specSamp rs := by
  obtain ⟨h1, h2⟩ := hm_run (HmSt.init (γ := γ)) rs
  unfold HmSt.finalize
  rw [h1, h2]
  simp [HmSt.init]

/-- warmup values come before sampling values whatever the order of arrival of the flags -/
theorem warmup_before_sampling (rs : List (SRec γ)) :
    ∃ w s, (rs.foldl HmSt.record HmSt.init).finalize = w ++ s ∧ w = specWarm rs ∧ s = specSamp rs :=
  ⟨_, _, hashmap_roundtrip rs, rfl, rfl⟩

/-! ### Arrow -/
theorem ar_run (sw : Bool) (s : ArSt γ) (rs : List (SRec γ)) :
    (rs.foldl (ArSt.record sw) s).rows = s.rows ++ (rs.filter (fun r => sw || !r.tuning)).map (·.val) ∧
    (rs.foldl (ArSt.record sw) s).drawCount = s.drawCount + (rs.filter (fun r => sw || !r.tuning)).length := by
  induction rs generalizing s with
  | nil => simp
  | cons r rs ih =>
    simp only [List.foldl_cons]
    obtain ⟨h1, h2⟩ := ih (ArSt.record sw s r)
    rw [h1, h2]
    cases sw <;> cases ht : r.tuning <;> simp [ArSt.record, ht, List.filter_cons, List.append_assoc] <;> omega

/-- **C14 / Arrow**: one row per stored draw, in order; a row is null exactly when the statistic
    was absent on that draw (so event statistics are non-null exactly at their events). -/
theorem arrow_roundtrip (sw : Bool) (rs : List (SRec γ)) :
    (rs.foldl (ArSt.record sw) ArSt.init).finalize = (rs.filter (fun r => sw || !r.tuning)).map (·.val) := by
  obtain ⟨h1, _⟩ := ar_run sw (ArSt.init (γ := γ)) rs
  unfold ArSt.finalize
  rw [h1]
  simp [ArSt.init]

/-- **C14 / store_warmup = false omits exactly the warmup draws** (Arrow). -/
theorem store_warmup_false_omits_exactly_warmup (rs : List (SRec γ)) :
    (rs.foldl (ArSt.record false) ArSt.init).finalize = (rs.filter (fun r => !r.tuning)).map (·.val) ∧
    (rs.foldl (ArSt.record true) ArSt.init).finalize = rs.map (·.val) := by
  constructor
  · rw [arrow_roundtrip]; simp
  · rw [arrow_roundtrip]
    have : rs.filter (fun _ => true) = rs := List.filter_eq_self.mpr (by simp)
    simp [this]

/-! ### the in-memory backends agree with each other -/

/-- **C14 / backends agree (HashMap vs Arrow)**: for every history that records its warmup draws
    before its sampling draws, the HashMap vector of a variable is the concatenation of the
    non-null Arrow rows (store_warmup = true), and with store_warmup = false Arrow holds exactly
    the sampling part of it. -/
theorem hashmap_eq_arrow_flatten (w s : List (SRec γ)) (hw : ∀ r ∈ w, r.tuning = true)
    (hs : ∀ r ∈ s, r.tuning = false) :
    ((w ++ s).foldl HmSt.record HmSt.init).finalize =
      (((w ++ s).foldl (ArSt.record true) ArSt.init).finalize).flatMap (fun v => v.getD []) ∧
    (((w ++ s).foldl (ArSt.record false) ArSt.init).finalize).flatMap (fun v => v.getD []) = specSamp (w ++ s) := by
  have fw : (w ++ s).filter (·.tuning) = w := by
    rw [List.filter_append, List.filter_eq_self.mpr (by simpa using hw),
      List.filter_eq_nil_iff.mpr (by intro r hr; simp [hs r hr])]; simp
  have fs : (w ++ s).filter (fun r => !r.tuning) = s := by
    rw [List.filter_append, List.filter_eq_nil_iff.mpr (by intro r hr; simp [hw r hr]),
      List.filter_eq_self.mpr (by intro r hr; simp [hs r hr])]; simp
  constructor
  · rw [hashmap_roundtrip, (store_warmup_false_omits_exactly_warmup (w ++ s)).2]
    unfold specWarm specSamp
    rw [fw, fs, List.flatMap_map, List.flatMap_append]
  · rw [(store_warmup_false_omits_exactly_warmup (w ++ s)).1]
    unfold specSamp
    rw [List.flatMap_map]

/-- non-vacuity: a history with an absent (event) value in each phase -/
example : ([⟨true, some [1]⟩, ⟨true, none⟩, ⟨false, some [2, 3]⟩, ⟨false, none⟩].foldl HmSt.record (HmSt.init (γ := ℕ))).finalize
    = [1, 2, 3] := by decide

/-! ### ndarray -/
theorem nd_run (s : NdSt γ) (rs : List (SRec γ)) :
    (rs.foldl NdSt.record s).currentDraw = s.currentDraw + rs.length ∧
    (rs.foldl NdSt.record s).cells.length = s.cells.length ∧
    ∀ k, k < s.cells.length →
      (rs.foldl NdSt.record s).cells[k]? =
        (if s.currentDraw ≤ k ∧ k < s.currentDraw + rs.length then
           (match (rs[k - s.currentDraw]?).bind (·.val) with | some v => some v | none => s.cells[k]?)
         else s.cells[k]?) := by
  induction rs generalizing s with
  | nil =>
    refine ⟨by simp, by simp, ?_⟩
    intro k _
    have : ¬ (s.currentDraw ≤ k ∧ k < s.currentDraw + ([] : List (SRec γ)).length) := by
      simp only [List.length_nil, Nat.add_zero]; omega
    simp only [List.foldl_nil, this, if_false]
  | cons r rs ih =>
    simp only [List.foldl_cons]
    obtain ⟨h1, h2, h3⟩ := ih (s.record r)
    have hcd : (s.record r).currentDraw = s.currentDraw + 1 := by cases hv : r.val <;> simp [NdSt.record, hv]
    have hlen : (s.record r).cells.length = s.cells.length := by cases hv : r.val <;> simp [NdSt.record, hv]
    refine ⟨by rw [h1, hcd]; simp; omega, by rw [h2, hlen], ?_⟩
    intro k hk
    rw [h3 k (by rw [hlen]; exact hk), hcd]
    by_cases hk0 : k = s.currentDraw
    · subst hk0
      have : ¬ (s.currentDraw + 1 ≤ s.currentDraw ∧ s.currentDraw < s.currentDraw + 1 + rs.length) := by omega
      simp only [this, if_false, List.length_cons]
      have h2' : s.currentDraw ≤ s.currentDraw ∧ s.currentDraw < s.currentDraw + (rs.length + 1) := by omega
      simp only [h2', and_self, if_true, Nat.sub_self, List.getElem?_cons_zero, Option.bind_some]
      cases hv : r.val with
      | none => simp [NdSt.record, hv]
      | some v => simp [NdSt.record, hv, List.getElem?_set, hk]
    · have hset : (s.record r).cells[k]? = s.cells[k]? := by
        cases hv : r.val with
        | none => simp [NdSt.record, hv]
        | some v => simp [NdSt.record, hv, List.getElem?_set]; intro h; exact absurd h.symm hk0
      by_cases hin : s.currentDraw + 1 ≤ k ∧ k < s.currentDraw + 1 + rs.length
      · have hin' : s.currentDraw ≤ k ∧ k < s.currentDraw + (r :: rs).length := by simp; omega
        simp only [hin, and_self, if_true, hin']
        have : k - s.currentDraw = (k - (s.currentDraw + 1)) + 1 := by omega
        rw [this, List.getElem?_cons_succ, hset]
      · have hin' : ¬ (s.currentDraw ≤ k ∧ k < s.currentDraw + (r :: rs).length) := by simp; omega
        simp only [hin, if_false, hin', hset]

/-- **C14 / ndarray**: slot `k` of the pre-allocated array holds the value recorded on draw `k`
    (warmup draws first, then sampling draws: the draw counter), and the default where the statistic
    was absent or the run ended earlier. -/
theorem ndarray_roundtrip (total : ℕ) (dflt : List γ) (rs : List (SRec γ)) (k : ℕ) (hk : k < total) :
    ((rs.foldl NdSt.record (NdSt.init total dflt)).finalize)[k]? =
      some (((rs[k]?).bind (·.val)).getD dflt) := by
  obtain ⟨_, _, h3⟩ := nd_run (NdSt.init total dflt) rs
  have hlen : (NdSt.init total dflt).cells.length = total := by simp [NdSt.init]
  have h := h3 k (by rw [hlen]; exact hk)
  have hcd : (NdSt.init total dflt).currentDraw = 0 := rfl
  have hd : (NdSt.init total dflt).cells[k]? = some dflt := by simp [NdSt.init, hk]
  unfold NdSt.finalize
  rw [h, hcd, hd]
  simp only [Nat.zero_le, true_and, Nat.zero_add, Nat.sub_zero]
  by_cases hlt : k < rs.length
  · simp only [hlt, if_true]
    cases (rs[k]?).bind (·.val) <;> simp
  · simp only [hlt, if_false]
    have : rs[k]? = none := List.getElem?_eq_none (by omega)
    simp [this]

/-! ### Zarr (re-exported from C15 for the finalised store) -/
/-- **C14 / Zarr**: after finalize both arrays of every variable hold exactly the recorded values. -/
theorem zarr_finalize_roundtrip {ν : Type} (chunk : ℕ) (hc : 1 ≤ chunk) (ops : List (ZOp ν)) (hm : monotoneTuning ops = true) :
    let s := ((ZSt.init chunk).run ops).finalize
    (∀ i, i < (recordedWarm ops).length → s.warm i = (recordedWarm ops)[i]?) ∧
    (∀ i, i < (recordedSamp ops).length → s.samp i = (recordedSamp ops)[i]?) :=
  NutsModel.C15.finalize_complete chunk hc ops hm

end NutsModel.C14
