/-
C01 (mirror symmetry) — "the trajectory built from z' with the mirrored doubling choices is the same
trajectory with the same stopping depth", on the *executable model* (`Model/Tree.lean: draw`,
default tree options, divergence-free orbit, symmetric U-turn criterion).

`Kwin E crit maxdepth s d lo` = probability that the transition started at absolute orbit index `s`
ends with a final tree of depth `d` covering exactly the window `[lo, lo + 2^d)`.  `DrawResult` does
not expose the interval, so the window is an event of outcome + event log (`winIs`): the depth is
`r.depth`, the window is spanned by the start and the destinations of the first `2^d − 1` leapfrogs
(`Ev.leap`) of the log — the leapfrogs of a final, discarded extension come later and are ignored.

Main results
  * `Kwin_eq`            : `Kwin s d lo = 2^{-d} · Q d lo` if `d ≤ maxdepth ∧ s ∈ window`, else `0`
                           (`Q` = the start-independent stopping weight of C01Refine, values 0, ½, 1),
  * `mirror_symmetry`    : `Kwin s d lo = Kwin s' d lo` for all starts `s, s'` inside the window,
  * `window_prob_value`, `window_prob_turning`, `window_prob_maxdepth`, `window_prob_invalid`,
    `window_prob_outside`,
  * `windows_partition`  : for a fixed start the window probabilities sum to 1,
  * `K_eq_sum_windows`   : `K s i = ∑ windows, Kwin s d lo · Mn d lo s i` (the mixture weights of
                           `K_eq_S` are probabilities of events of the executable model).

Layers: 1. reading the visited indices off the log; 2. what `singleStep`/`turningChecks`/`mergeInto`/
`buildOther`/`extend` write to the event log (on top of the `Shape` analysis of C01Refine);
3. the closed form `SX` with an arbitrary pay-off per final window (`S` = the instance `Mn`);
4. the main loop (`loopX`); 5. the theorems.
-/
import NutsModel.Thm.C01Refine

set_option linter.unusedSimpArgs false
set_option linter.unusedVariables false
set_option linter.unnecessarySeqFocus false

namespace NutsModel.C01
open NutsModel NutsModel.Gen NutsModel.Model

/-! ## 1. the visited indices, read off the log -/

/-- destination of a leapfrog event -/
def leapDst : Ev → Option ℤ
  | .leap _ d => some d
  | .turn _ _ => none

/-- destinations of all leapfrogs of a run, most recent first (the log is kept reversed). -/
def lv (lg : Log ℝ) : List ℤ := lg.evs.filterMap leapDst

/-- destinations of the chronologically first `n` leapfrogs (most recent first). -/
def firstLeaps (n : ℕ) (lg : Log ℝ) : List ℤ := (lv lg).drop ((lv lg).length - n)

def leftEnd (d : ℕ) (lg : Log ℝ) : ℤ := (firstLeaps (2 ^ d - 1) lg).foldr min 0
def rightEnd (d : ℕ) (lg : Log ℝ) : ℤ := (firstLeaps (2 ^ d - 1) lg).foldr max 0

theorem le_foldr_min (m b : ℤ) (xs : List ℤ) (h : ∀ x ∈ xs, m ≤ x) (hb : m ≤ b) :
    m ≤ xs.foldr min b := by
  induction xs with
  | nil => simpa using hb
  | cons x xs ih =>
    simp only [List.foldr_cons]
    exact le_min (h x (by simp)) (ih (fun y hy => h y (by simp [hy])))

theorem foldr_min_const (b : ℤ) (xs : List ℤ) (h : ∀ x ∈ xs, b ≤ x) : xs.foldr min b = b := by
  induction xs with
  | nil => rfl
  | cons x xs ih =>
    simp only [List.foldr_cons]
    rw [ih (fun y hy => h y (by simp [hy]))]
    exact min_eq_right (h x (by simp))

theorem foldr_min_attain (m b : ℤ) (xs : List ℤ) (h : ∀ x ∈ xs, m ≤ x) (hm : m ∈ xs) (hb : m ≤ b) :
    xs.foldr min b = m := by
  induction xs with
  | nil => simp at hm
  | cons x xs ih =>
    simp only [List.foldr_cons]
    have hxs : ∀ y ∈ xs, m ≤ y := fun y hy => h y (by simp [hy])
    rcases List.mem_cons.mp hm with rfl | hm'
    · exact min_eq_left (le_foldr_min _ _ _ hxs hb)
    · rw [ih hxs hm']; exact min_eq_right (h x (by simp))

theorem foldr_max_le (m b : ℤ) (xs : List ℤ) (h : ∀ x ∈ xs, x ≤ m) (hb : b ≤ m) :
    xs.foldr max b ≤ m := by
  induction xs with
  | nil => simpa using hb
  | cons x xs ih =>
    simp only [List.foldr_cons]
    exact max_le (h x (by simp)) (ih (fun y hy => h y (by simp [hy])))

theorem foldr_max_const (b : ℤ) (xs : List ℤ) (h : ∀ x ∈ xs, x ≤ b) : xs.foldr max b = b := by
  induction xs with
  | nil => rfl
  | cons x xs ih =>
    simp only [List.foldr_cons]
    rw [ih (fun y hy => h y (by simp [hy]))]
    exact max_eq_right (h x (by simp))

theorem foldr_max_attain (m b : ℤ) (xs : List ℤ) (h : ∀ x ∈ xs, x ≤ m) (hm : m ∈ xs) (hb : b ≤ m) :
    xs.foldr max b = m := by
  induction xs with
  | nil => simp at hm
  | cons x xs ih =>
    simp only [List.foldr_cons]
    have hxs : ∀ y ∈ xs, y ≤ m := fun y hy => h y (by simp [hy])
    rcases List.mem_cons.mp hm with rfl | hm'
    · exact max_eq_left (foldr_max_le _ _ _ hxs hb)
    · rw [ih hxs hm']; exact max_eq_right (h x (by simp))

/-- the first `2^d − 1` leapfrogs of the run, together with the start, cover exactly the window
    `(d, lo)` (absolute indices; the run started at absolute index `s`). -/
def Cov (s : ℤ) (lg : Log ℝ) (d : ℕ) (lo : ℤ) : Prop :=
  s + leftEnd d lg = lo ∧ s + rightEnd d lg = lo + 2 ^ d - 1

/-- exactly `2^d − 1` leapfrogs so far -/
def Tight (lg : Log ℝ) (d : ℕ) : Prop := (lv lg).length = 2 ^ d - 1

/-- the leapfrog destinations `extra` fill the block `(d, lo)` -/
def Blk (s : ℤ) (extra : List ℤ) (d : ℕ) (lo : ℤ) : Prop :=
  extra.length = 2 ^ d ∧ (∀ x ∈ extra, lo ≤ s + x ∧ s + x < lo + 2 ^ d) ∧
    (lo - s) ∈ extra ∧ (lo + 2 ^ d - 1 - s) ∈ extra

theorem firstLeaps_ext {lg lg' : Log ℝ} {extra : List ℤ} {n : ℕ} (hn : (lv lg).length = n)
    (h : lv lg' = extra ++ lv lg) : firstLeaps n lg' = lv lg := by
  unfold firstLeaps
  rw [h, List.length_append, hn, Nat.add_sub_cancel]
  exact List.drop_left' rfl

theorem firstLeaps_all {lg : Log ℝ} {n : ℕ} (hn : (lv lg).length = n) : firstLeaps n lg = lv lg := by
  unfold firstLeaps
  rw [hn, Nat.sub_self]; rfl

/-- later leapfrogs do not change the window read off the log -/
theorem cov_ext {s : ℤ} {lg lg' : Log ℝ} {extra : List ℤ} {d : ℕ} {lo : ℤ}
    (ht : Tight lg d) (hc : Cov s lg d lo) (h : lv lg' = extra ++ lv lg) : Cov s lg' d lo := by
  unfold Cov leftEnd rightEnd at hc ⊢
  rw [firstLeaps_ext ht h]
  rw [firstLeaps_all ht] at hc
  exact hc

/-- one successful doubling: the new block `(d, H)` is adjacent to the window `(d, lo)`. -/
theorem cov_step {s : ℤ} {lg lg' : Log ℝ} {extra : List ℤ} {d : ℕ} {lo lo' H : ℤ}
    (ht : Tight lg d) (hc : Cov s lg d lo) (h : lv lg' = extra ++ lv lg) (hb : Blk s extra d H)
    (hdir : (H = lo + 2 ^ d ∧ lo' = lo) ∨ (H = lo - 2 ^ d ∧ lo' = H)) :
    Tight lg' (d + 1) ∧ Cov s lg' (d + 1) lo' := by
  have hp := two_pow_pos d
  have h2 : (2 : ℤ) ^ (d + 1) = 2 * 2 ^ d := by ring
  have hpn : 1 ≤ 2 ^ d := Nat.one_le_two_pow
  have h2n : 2 ^ (d + 1) = 2 * 2 ^ d := by ring
  obtain ⟨hlen, hrange, hlow, hhigh⟩ := hb
  have hT : Tight lg' (d + 1) := by
    unfold Tight at ht ⊢
    rw [h, List.length_append, hlen, ht]; omega
  refine ⟨hT, ?_⟩
  unfold Cov leftEnd rightEnd at hc ⊢
  rw [firstLeaps_all hT, h, List.foldr_append, List.foldr_append]
  rw [firstLeaps_all ht] at hc
  obtain ⟨hc1, hc2⟩ := hc
  rcases hdir with ⟨hH, hl⟩ | ⟨hH, hl⟩
  · constructor
    · rw [foldr_min_const _ _ (fun x hx => by have := hrange x hx; omega)]; omega
    · rw [foldr_max_attain (H + 2 ^ d - 1 - s) _ _ (fun x hx => by have := hrange x hx; omega) hhigh
        (by omega)]
      omega
  · constructor
    · rw [foldr_min_attain (H - s) _ _ (fun x hx => by have := hrange x hx; omega) hlow (by omega)]
      omega
    · rw [foldr_max_const _ _ (fun x hx => by have := hrange x hx; omega)]; omega


/-! ## 2. what the model's pieces write to the event log -/

theorem All_and {β : Type} {r : Rand ℝ β} {P Q : β → Prop} (hp : All r P) (hq : All r Q) :
    All r (fun b => P b ∧ Q b) := by
  induction r with
  | pure b => exact ⟨hp, hq⟩
  | coin k ih => exact ⟨ih true hp.1 hq.1, ih false hp.2 hq.2⟩
  | bern p k ih => exact ⟨ih true hp.1 hq.1, ih false hp.2 hq.2⟩

theorem coin_run' (lg : Log ℝ) :
    (Model.coin (α := ℝ)).run lg
      = Rand.coin (fun c => Rand.pure (c, { lg with rng := none :: lg.rng })) := rfl

theorem singleStep_run' (o : Orbit ℝ) (t : Model.Tree ℝ) (dir : Dir) (lg : Log ℝ)
    (h : o.leap = fun _ => .ok) :
    (singleStep o t dir).run lg =
      Rand.pure (.ok ⟨dsel dir t.right t.left + dir.sign, dsel dir t.right t.left + dir.sign,
        dsel dir t.right t.left + dir.sign,
        -(o.energyErr (dsel dir t.right t.left + dir.sign)), 0, false⟩,
        { lg with evs := .leap (dsel dir t.right t.left) (dsel dir t.right t.left + dir.sign) :: lg.evs }) := by
  unfold singleStep
  simp only [bind, StateT.bind, StateT.run, pure, StateT.pure, emit, modify, modifyGet,
    MonadStateOf.modifyGet, StateT.modifyGet, h]
  cases dir <;> rfl

theorem turningChecks_lv (o : Orbit ℝ) (self other : Model.Tree ℝ) (dir : Dir) (lg : Log ℝ) :
    All ((turningChecks o self other dir true).run lg) (fun p => lv p.2 = lv lg) := by
  unfold turningChecks
  simp only [bind, StateT.bind, StateT.run, pure, emit, modify, modifyGet, MonadStateOf.modifyGet]
  cases dir
  · by_cases hd : self.depth > 0 <;> cases h0 : o.crit self.left other.right <;>
      cases h1 : o.crit self.right other.right <;> cases h2 : o.crit self.left other.left <;>
      simp only [hd, h0, h1, h2, if_true, if_false, Bool.not_true, Bool.not_false,
        Bool.false_eq_true] <;>
      rfl
  · by_cases hd : self.depth > 0 <;> cases h0 : o.crit other.left self.right <;>
      cases h1 : o.crit self.right other.right <;> cases h2 : o.crit self.left other.left <;>
      simp only [hd, h0, h1, h2, if_true, if_false, Bool.not_true, Bool.not_false,
        Bool.false_eq_true] <;>
      rfl

theorem mergeInto_evs (self other : Model.Tree ℝ) (dir : Dir) (lg : Log ℝ) :
    All ((mergeInto self other dir).run lg) (fun p => p.2.evs = lg.evs) := by
  unfold mergeInto
  simp only [bind, StateT.bind, StateT.run, pure, StateT.pure]
  split_ifs <;>
    first
      | exact (rfl : lg.evs = lg.evs)
      | exact ⟨(rfl : lg.evs = lg.evs), (rfl : lg.evs = lg.evs)⟩


theorem lv_of_evs {lg lg' : Log ℝ} (h : lg'.evs = lg.evs) : lv lg' = lv lg := by
  unfold lv; rw [h]

theorem blk_merge {s : ℤ} {e1 e2 : List ℤ} {d : ℕ} {lo H1 H2 : ℤ}
    (h1 : Blk s e1 d H1) (h2 : Blk s e2 d H2)
    (hH : (H1 = lo ∧ H2 = lo + 2 ^ d) ∨ (H1 = lo + 2 ^ d ∧ H2 = lo)) :
    Blk s (e2 ++ e1) (d + 1) lo := by
  have hp := two_pow_pos d
  have h2' : (2 : ℤ) ^ (d + 1) = 2 * 2 ^ d := by ring
  have h2n : 2 ^ (d + 1) = 2 * 2 ^ d := by ring
  obtain ⟨l1, r1, a1, b1⟩ := h1
  obtain ⟨l2, r2, a2, b2⟩ := h2
  refine ⟨by rw [List.length_append, l1, l2]; omega, ?_, ?_, ?_⟩
  · intro x hx
    rcases List.mem_append.mp hx with hx | hx
    · have := r2 x hx; rcases hH with ⟨rfl, rfl⟩ | ⟨rfl, rfl⟩ <;> omega
    · have := r1 x hx; rcases hH with ⟨rfl, rfl⟩ | ⟨rfl, rfl⟩ <;> omega
  · rcases hH with ⟨rfl, rfl⟩ | ⟨rfl, rfl⟩
    · exact List.mem_append.mpr (Or.inr a1)
    · exact List.mem_append.mpr (Or.inl a2)
  · rcases hH with ⟨rfl, rfl⟩ | ⟨rfl, rfl⟩
    · refine List.mem_append.mpr (Or.inl ?_)
      have e : H1 + 2 ^ (d + 1) - 1 - s = H1 + 2 ^ d + 2 ^ d - 1 - s := by omega
      rw [e]; exact b2
    · refine List.mem_append.mpr (Or.inr ?_)
      have e : H2 + 2 ^ (d + 1) - 1 - s = H2 + 2 ^ d + 2 ^ d - 1 - s := by omega
      rw [e]; exact b1

section ModelLog
variable (E : ℤ → ℝ) (crit : ℤ → ℤ → Bool) (s : ℤ)

/-- **sub-tree lemma, event log.**  `buildOther` only appends leapfrogs; if it succeeds, the
    appended leapfrogs fill exactly the adjacent block `(d, lo)`. -/
theorem buildOther_log (hsymm : ∀ a b, crit a b = crit b a) (dir : Dir) :
    ∀ (d : ℕ) (seed : Model.Tree ℝ) (lg : Log ℝ) (lo : ℤ),
    lo = dsel dir (s + seed.right + 1) (s + seed.left - 2 ^ d) →
    All ((buildOther (shift E crit s) true dir d seed).run lg)
      (fun out => ∃ extra, lv out.2 = extra ++ lv lg ∧ ∀ t, out.1 = .ok t → Blk s extra d lo) := by
  intro d
  induction d with
  | zero =>
    intro seed lg lo hlo
    have hdst : s + (dsel dir seed.right seed.left + dir.sign) = lo := by
      rw [hlo]; cases dir <;> simp only [Dir.sign, pow_zero, dsel_fwd, dsel_bwd] <;> ring
    show All ((singleStep (shift E crit s) seed dir).run lg) _
    rw [singleStep_run' _ _ _ _ rfl]
    refine ⟨[dsel dir seed.right seed.left + dir.sign], rfl, fun t _ => ⟨rfl, ?_, ?_, ?_⟩⟩
    · intro x hx
      rw [List.mem_singleton] at hx
      subst hx
      simp only [pow_zero]; omega
    · rw [List.mem_singleton]; omega
    · rw [List.mem_singleton]; simp only [pow_zero]; omega
  | succ d ih =>
    intro seed lg lo hlo
    have hp := two_pow_pos d
    have h2 : (2 : ℤ) ^ (d + 1) = 2 * 2 ^ d := by ring
    obtain ⟨H1, hH1⟩ : ∃ H1 : ℤ, H1 = dsel dir lo (lo + 2 ^ d) := ⟨_, rfl⟩
    obtain ⟨H2, hH2⟩ : ∃ H2 : ℤ, H2 = dsel dir (lo + 2 ^ d) lo := ⟨_, rfl⟩
    have hHH : (H1 = lo ∧ H2 = lo + 2 ^ d) ∨ (H1 = lo + 2 ^ d ∧ H2 = lo) := by
      rw [hH1, hH2]; cases dir
      · exact Or.inl ⟨rfl, rfl⟩
      · exact Or.inr ⟨rfl, rfl⟩
    have hseed1 : H1 = dsel dir (s + seed.right + 1) (s + seed.left - 2 ^ d) := by
      rw [hH1, hlo]; cases dir <;> simp only [dsel_fwd, dsel_bwd] <;> omega
    rw [buildOther_succ_run]
    refine All_bind (All_and (buildOther_spec E crit s hsymm dir d seed lg H1 hseed1).1
      (ih seed lg H1 hseed1)) (fun p hp => ?_)
    obtain ⟨e1, lg1⟩ := p
    obtain ⟨hp1, extra1, hx1, hb1⟩ := hp
    cases e1 with
    | error e => exact ⟨extra1, hx1, fun t ht => by cases ht⟩
    | ok t =>
      have ht : Shape E s t false d H1 := by
        cases hv1 : valid crit d H1
        · simp only [hv1, Bool.false_eq_true, if_false] at hp1
          cases hp1
        · simp only [hv1, if_true] at hp1
          obtain ⟨t0, h0, hs0⟩ := hp1
          cases h0; exact hs0
      have hseed2 : H2 = dsel dir (s + t.right + 1) (s + t.left - 2 ^ d) := by
        have a1 := ht.left; have a2 := ht.right
        rw [hH2]; rw [hH1] at a1 a2
        cases dir <;> simp only [dsel_fwd, dsel_bwd] at a1 a2 ⊢ <;> omega
      show All (((buildOther (shift E crit s) true dir d t).run lg1).bind
            (subCont2 (shift E crit s) dir t)) _
      refine All_bind (ih t lg1 H2 hseed2) (fun p2 hp2 => ?_)
      obtain ⟨e2, lg2⟩ := p2
      obtain ⟨extra2, hx2, hb2⟩ := hp2
      cases e2 with
      | error e =>
        exact ⟨extra2 ++ extra1, by rw [hx2, hx1, List.append_assoc], fun t ht => by cases ht⟩
      | ok t' =>
        show All (((turningChecks (shift E crit s) t t' dir true).run lg2).bind (fun p3 =>
          ((mergeInto t t' dir).run p3.2).bind (fun p4 => subMergeK p3 p4))) _
        refine All_bind (turningChecks_lv _ t t' dir lg2) (fun p3 hp3 =>
          All_bind (mergeInto_evs t t' dir p3.2) (fun p4 hp4 => ?_))
        obtain ⟨a4, lg4⟩ := p4
        obtain ⟨b3, lg3⟩ := p3
        have hlv : lv lg4 = (extra2 ++ extra1) ++ lv lg := by
          rw [lv_of_evs hp4, hp3, hx2, hx1, List.append_assoc]
        have hblk : Blk s (extra2 ++ extra1) (d + 1) lo :=
          blk_merge (hb1 t rfl) (hb2 t' rfl) hHH
        unfold subMergeK
        cases a4 with
        | error e => exact ⟨_, hlv, fun t ht => by cases ht⟩
        | ok m =>
          cases b3
          · exact ⟨_, hlv, fun _ _ => hblk⟩
          · exact ⟨_, hlv, fun _ _ => hblk⟩

/-- **one doubling of the main tree, with the event log.**  If the new half `(d, H)` is U-turn
    free the merged tree covers `(d+1, lo')` and so do the (now `2^(d+1) − 1`) leapfrogs of the log;
    otherwise the old tree is returned and the *first* `2^d − 1` leapfrogs still cover `(d, lo)`. -/
theorem extend_log (hsymm : ∀ a b, crit a b = crit b a) (dir : Dir) (d : ℕ) (lo lo' H : ℤ)
    (hlo' : lo' = dsel dir lo (lo - 2 ^ d)) (hH : H = dsel dir (lo + 2 ^ d) (lo - 2 ^ d))
    (t : Model.Tree ℝ) (lg : Log ℝ) (ht : Shape E s t true d lo) (hs1 : lo ≤ s) (hs2 : s < lo + 2 ^ d)
    (hT : Tight lg d) (hC : Cov s lg d lo) :
    All ((extend (shift E crit s) t dir true).run lg)
      (fun out => if valid crit d H then
          ∃ m, Shape E s m true (d + 1) lo' ∧
            out.1 = (if turn3 crit d lo' then .turning m else .ok m) ∧
            Tight out.2 (d + 1) ∧ Cov s out.2 (d + 1) lo'
        else out.1 = .turning t ∧ Cov s out.2 d lo) := by
  have hseed : H = dsel dir (s + t.right + 1) (s + t.left - 2 ^ d) := by
    have a1 := ht.left; have a2 := ht.right
    rw [hH]; cases dir <;> simp only [dsel_fwd, dsel_bwd] <;> omega
  have hdir : (H = lo + 2 ^ d ∧ lo' = lo) ∨ (H = lo - 2 ^ d ∧ lo' = H) := by
    rw [hH, hlo']; cases dir
    · exact Or.inl ⟨rfl, rfl⟩
    · exact Or.inr ⟨rfl, rfl⟩
  have hlog : All ((extend (shift E crit s) t dir true).run lg)
      (fun out => ∃ extra, lv out.2 = extra ++ lv lg ∧ (valid crit d H = true → Blk s extra d H)) := by
    rw [extend_run, ht.depth]
    refine All_bind (All_and (buildOther_spec E crit s hsymm dir d t lg H hseed).1
      (buildOther_log E crit s hsymm dir d t lg H hseed)) (fun p hp => ?_)
    obtain ⟨e, lg1⟩ := p
    obtain ⟨hp1, extra, hx, hb⟩ := hp
    cases hv : valid crit d H
    · simp only [hv, Bool.false_eq_true, if_false] at hp1
      subst hp1
      exact ⟨extra, hx, fun h => by cases h⟩
    · simp only [hv, if_true] at hp1
      obtain ⟨t', rfl, ht'⟩ := hp1
      show All (((turningChecks (shift E crit s) t t' dir true).run lg1).bind (fun p3 =>
        ((mergeInto t t' dir).run p3.2).bind (fun p4 => mainMergeK p3 p4))) _
      refine All_bind (turningChecks_lv _ t t' dir lg1) (fun p3 hp3 =>
        All_bind (mergeInto_evs t t' dir p3.2) (fun p4 hp4 => ?_))
      obtain ⟨a4, lg4⟩ := p4
      obtain ⟨b3, lg3⟩ := p3
      have hlv : lv lg4 = extra ++ lv lg := by rw [lv_of_evs hp4, hp3, hx]
      unfold mainMergeK
      cases a4 with
      | error e => cases e <;> exact ⟨_, hlv, fun _ => hb t' rfl⟩
      | ok m => cases b3 <;> exact ⟨_, hlv, fun _ => hb t' rfl⟩
  refine All_mono (All_and (extend_spec E crit s hsymm dir d lo lo' H hlo' hH t lg ht hs1 hs2).1 hlog)
    (fun out hout => ?_)
  obtain ⟨h1, extra, hx, hb⟩ := hout
  cases hv : valid crit d H
  · simp only [hv, Bool.false_eq_true, if_false] at h1 ⊢
    exact ⟨h1, cov_ext hT hC hx⟩
  · simp only [hv, if_true] at h1 ⊢
    obtain ⟨m, hm1, hm2⟩ := h1
    obtain ⟨c1, c2⟩ := cov_step hT hC hx (hb hv) hdir
    exact ⟨m, hm1, hm2, c1, c2⟩

end ModelLog


/-! ## 3. the closed form with an arbitrary pay-off per final window

`S` of `C01Refine` is the instance `X d lo = Mn w d lo s i`. -/

section Closed
variable (crit : ℤ → ℤ → Bool) (maxdepth : ℕ) (X : ℕ → ℤ → ℝ)

noncomputable def GX (d : ℕ) (lo : ℤ) : ℝ := Q crit maxdepth d lo * X d lo

/-- expected pay-off `X (final window)` when the main tree covers `(d, lo)` and `fuel` doublings
    remain: a sum over direction words `a` of length `k`. -/
noncomputable def SX (fuel d : ℕ) (lo : ℤ) : ℝ :=
  ∑ k ∈ Finset.range (fuel + 1), ∑ a ∈ Finset.range (2 ^ k),
    (1 / 2 : ℝ) ^ k * GX crit maxdepth X (d + k) (lo - 2 ^ d * a)

theorem S_eq_SX (w : ℤ → ℝ) (s i : ℤ) (fuel d : ℕ) (lo : ℤ) :
    S crit maxdepth w s i fuel d lo = SX crit maxdepth (fun d lo => Mn w d lo s i) fuel d lo := rfl

theorem SX_succ (fuel d : ℕ) (lo : ℤ) :
    SX crit maxdepth X (fuel + 1) d lo = GX crit maxdepth X d lo
      + 1 / 2 * SX crit maxdepth X fuel (d + 1) lo
      + 1 / 2 * SX crit maxdepth X fuel (d + 1) (lo - 2 ^ d) := by
  unfold SX
  rw [Finset.sum_range_succ' _ (fuel + 1)]
  have h0 : ∑ a ∈ Finset.range (2 ^ 0), (1 / 2 : ℝ) ^ 0 * GX crit maxdepth X (d + 0) (lo - 2 ^ d * (a : ℤ))
      = GX crit maxdepth X d lo := by simp
  rw [h0, Finset.mul_sum, Finset.mul_sum, add_comm, add_assoc, ← Finset.sum_add_distrib]
  congr 1
  apply Finset.sum_congr rfl
  intro k _
  have hr : Finset.range (2 ^ (k + 1)) = Finset.range (2 * 2 ^ k) := by rw [pow_succ']
  rw [hr, sum_range_double, Finset.mul_sum, Finset.mul_sum]
  congr 1
  · apply Finset.sum_congr rfl
    intro a _
    rw [show d + (k + 1) = d + 1 + k by omega,
      show lo - 2 ^ d * ((2 * a : ℕ) : ℤ) = lo - 2 ^ (d + 1) * (a : ℤ) by push_cast; ring]
    ring
  · apply Finset.sum_congr rfl
    intro a _
    rw [show d + (k + 1) = d + 1 + k by omega,
      show lo - 2 ^ d * ((2 * a + 1 : ℕ) : ℤ) = lo - 2 ^ d - 2 ^ (d + 1) * (a : ℤ) by push_cast; ring]
    ring

theorem SX_zero (d : ℕ) (lo : ℤ) : SX crit maxdepth X 0 d lo = GX crit maxdepth X d lo := by
  simp [SX]

theorem SX_invalid (fuel d : ℕ) (lo : ℤ) (h : valid crit d lo = false) :
    SX crit maxdepth X fuel d lo = GX crit maxdepth X d lo := by
  unfold SX
  rw [Finset.sum_range_succ' _ fuel]
  have h0 : ∑ a ∈ Finset.range (2 ^ 0), (1 / 2 : ℝ) ^ 0 * GX crit maxdepth X (d + 0) (lo - 2 ^ d * (a : ℤ))
      = GX crit maxdepth X d lo := by simp
  rw [h0]
  have : ∑ k ∈ Finset.range fuel, ∑ a ∈ Finset.range (2 ^ (k + 1)),
      (1 / 2 : ℝ) ^ (k + 1) * GX crit maxdepth X (d + (k + 1)) (lo - 2 ^ d * (a : ℤ)) = 0 := by
    apply Finset.sum_eq_zero
    intro k _
    apply Finset.sum_eq_zero
    intro a ha
    have := (invalid_up crit d lo h (k + 1) a (Finset.mem_range.mp ha)).2 (Nat.succ_pos k)
    simp [GX, Q, this]
  rw [this, zero_add]

/-- value of the forward / backward branch of one iteration of the loop -/
noncomputable def branchValX (fuel d : ℕ) (lo lo' H : ℤ) : ℝ :=
  if valid crit d H then
    (if turn3 crit d lo' then X (d + 1) lo' else SX crit maxdepth X fuel (d + 1) lo')
  else X d lo

theorem SX_step (fuel d : ℕ) (lo : ℤ) (hv : valid crit d lo = true) (hd : d < maxdepth) :
    SX crit maxdepth X (fuel + 1) d lo
      = 1 / 2 * branchValX crit maxdepth X fuel d lo lo (lo + 2 ^ d)
        + 1 / 2 * branchValX crit maxdepth X fuel d lo (lo - 2 ^ d) (lo - 2 ^ d) := by
  rw [SX_succ]
  have hv' := hv
  rw [valid_eq, Bool.and_eq_true, Bool.not_eq_true'] at hv'
  have hG : GX crit maxdepth X d lo
      = ((if valid crit d (lo + 2 ^ d) then 0 else 1 / 2)
          + (if valid crit d (lo - 2 ^ d) then 0 else 1 / 2)) * X d lo := by
    simp [GX, Q, hv'.1, hv'.2, stopB, hd]
  have hF : (if valid crit d (lo + 2 ^ d) then (0 : ℝ) else 1 / 2) * X d lo
      + 1 / 2 * SX crit maxdepth X fuel (d + 1) lo
      = 1 / 2 * branchValX crit maxdepth X fuel d lo lo (lo + 2 ^ d) := by
    unfold branchValX
    cases hF : valid crit d (lo + 2 ^ d)
    · have hinv : valid crit (d + 1) lo = false := by simp [valid, hF]
      rw [SX_invalid _ _ _ _ _ _ hinv]
      simp [GX, Q, okHalves, hF]
    · cases ht : turn3 crit d lo
      · simp
      · have hinv : valid crit (d + 1) lo = false := by simp [valid, ht]
        rw [SX_invalid _ _ _ _ _ _ hinv]
        simp [GX, Q, okHalves, turnTop, hF, hv, ht]
  have hB : (if valid crit d (lo - 2 ^ d) then (0 : ℝ) else 1 / 2) * X d lo
      + 1 / 2 * SX crit maxdepth X fuel (d + 1) (lo - 2 ^ d)
      = 1 / 2 * branchValX crit maxdepth X fuel d lo (lo - 2 ^ d) (lo - 2 ^ d) := by
    unfold branchValX
    cases hF : valid crit d (lo - 2 ^ d)
    · have hinv : valid crit (d + 1) (lo - 2 ^ d) = false := by simp [valid, hF]
      rw [SX_invalid _ _ _ _ _ _ hinv]
      simp [GX, Q, okHalves, hF]
    · cases ht : turn3 crit d (lo - 2 ^ d)
      · simp
      · have hinv : valid crit (d + 1) (lo - 2 ^ d) = false := by simp [valid, ht]
        rw [SX_invalid _ _ _ _ _ _ hinv]
        simp [GX, Q, okHalves, turnTop, hF, hv, ht]
  rw [hG, ← hF, ← hB]
  ring

theorem SX_max (d : ℕ) (lo : ℤ) (hv : valid crit d lo = true) (hd : ¬ d < maxdepth) :
    SX crit maxdepth X 0 d lo = X d lo := by
  have hv' := hv
  rw [valid_eq, Bool.and_eq_true, Bool.not_eq_true'] at hv'
  simp [SX_zero, GX, Q, hv'.1, hv'.2, stopB, hd]

end Closed


/-! ## 4. the main loop: expected pay-off of the final window -/

theorem tight_of_evs {lg lg' : Log ℝ} {d : ℕ} (h : lg'.evs = lg.evs) (ht : Tight lg d) :
    Tight lg' d := by
  unfold Tight at ht ⊢; rw [lv_of_evs h]; exact ht

theorem cov_of_evs {s : ℤ} {lg lg' : Log ℝ} {d : ℕ} {lo : ℤ} (h : lg'.evs = lg.evs)
    (hc : Cov s lg d lo) : Cov s lg' d lo := by
  unfold Cov leftEnd rightEnd firstLeaps at hc ⊢; rw [lv_of_evs h]; exact hc

section LoopX
variable (E : ℤ → ℝ) (crit : ℤ → ℤ → Bool) (s : ℤ)

/-- **main-tree lemma, window version.**  Let `ev` be an event of the run (outcome + log) whose
    indicator, whenever the loop returns a main tree covering `(d, lo)` with a log whose first
    `2^d − 1` leapfrogs cover `(d, lo)`, equals `X d lo`.  Then from a main tree covering the valid
    window `(d, lo)` with `fuel` doublings left, `P(ev) = SX X fuel d lo`. -/
theorem loopX (hsymm : ∀ a b, crit a b = crit b a) (maxdepth : ℕ)
    (ev : DrawOutcome × Log ℝ → Bool) (X : ℕ → ℤ → ℝ)
    (hev : ∀ (t : Model.Tree ℝ) (lg : Log ℝ) (flag : Bool) (d : ℕ) (lo : ℤ),
      Shape E s t true d lo → Cov s lg d lo →
      prob (Rand.pure (DrawOutcome.ok ⟨t.draw, t.depth, flag, none⟩, lg)) ev = X d lo) :
    ∀ (fuel d : ℕ) (lo : ℤ), d + fuel = maxdepth → lo ≤ s → s < lo + 2 ^ d →
      valid crit d lo = true →
      ∀ (t : Model.Tree ℝ) (lg : Log ℝ), Shape E s t true d lo → Tight lg d → Cov s lg d lo →
        prob ((drawLoop (shift E crit s) (opts maxdepth) fuel t).run lg) ev
          = SX crit maxdepth X fuel d lo := by
  intro fuel
  induction fuel with
  | zero =>
    intro d lo hd hs1 hs2 hv t lg ht hT hC
    rw [drawLoop_zero_run, hev t lg true d lo ht hC, SX_max crit maxdepth X d lo hv (by omega)]
  | succ fuel ih =>
    intro d lo hd hs1 hs2 hv t lg ht hT hC
    have hdm : d < maxdepth := by omega
    have hp := two_pow_pos d
    have h2 : (2 : ℤ) ^ (d + 1) = 2 * 2 ^ d := by ring
    have branch : ∀ (dir : Dir) (lo' H : ℤ), lo' = dsel dir lo (lo - 2 ^ d) →
        H = dsel dir (lo + 2 ^ d) (lo - 2 ^ d) → ∀ lg' : Log ℝ, Tight lg' d → Cov s lg' d lo →
        prob (((extend (shift E crit s) t dir true).run lg').bind
            (loopCont (shift E crit s) (opts maxdepth) fuel dir)) ev
          = branchValX crit maxdepth X fuel d lo lo' H := by
      intro dir lo' H hlo' hH lg' hT' hC'
      have hin : lo' ≤ s ∧ s < lo' + 2 ^ (d + 1) := by
        rw [hlo']; cases dir <;> simp only [dsel_fwd, dsel_bwd] <;> omega
      have ha := extend_log E crit s hsymm dir d lo lo' H hlo' hH t lg' ht hs1 hs2 hT' hC'
      apply prob_bind_const
      refine All_mono ha (fun p hp => ?_)
      obtain ⟨e, lg1⟩ := p
      unfold branchValX
      cases hvH : valid crit d H
      · simp only [hvH, Bool.false_eq_true, if_false] at hp ⊢
        obtain ⟨he, hc⟩ := hp
        subst he
        show prob ((extraLoop (shift E crit s) dir 0 t).run lg1) ev = X d lo
        rw [extraLoop_zero_run]
        exact hev t lg1 false d lo ht hc
      · simp only [hvH, if_true] at hp ⊢
        obtain ⟨m, hm, he, hT1, hC1⟩ := hp
        cases htt : turn3 crit d lo'
        · simp only [htt, Bool.false_eq_true, if_false] at he ⊢
          subst he
          have hv' : valid crit (d + 1) lo' = true := by
            subst hlo' hH
            cases dir <;> simp only [dsel_fwd, dsel_bwd] at hvH htt ⊢ <;>
              simp [valid, hv, hvH, htt]
          exact ih (d + 1) lo' (by omega) hin.1 hin.2 hv' m lg1 hm hT1 hC1
        · simp only [htt, if_true] at he ⊢
          subst he
          show prob ((extraLoop (shift E crit s) dir 0 m).run lg1) ev = X (d + 1) lo'
          rw [extraLoop_zero_run]
          exact hev m lg1 false (d + 1) lo' hm hC1
    have hdt : t.depth < (opts maxdepth).maxdepth := by rw [ht.depth]; exact hdm
    have hcheck : (if t.depth < (opts maxdepth).mindepth then false
        else (opts maxdepth).checkTurning) = true := by simp [opts]
    obtain ⟨lg', hc, hevs⟩ : ∃ lg' : Log ℝ, (Model.coin (α := ℝ)).run lg
        = Rand.coin (fun c => Rand.pure (c, lg')) ∧ lg'.evs = lg.evs := ⟨_, coin_run' lg, rfl⟩
    rw [drawLoop_succ_run _ _ _ _ _ hdt, hc, hcheck]
    simp only [Rand.bind, prob, if_true, Bool.false_eq_true, if_false]
    rw [branch Dir.fwd lo (lo + 2 ^ d) rfl rfl lg' (tight_of_evs hevs hT) (cov_of_evs hevs hC),
      branch Dir.bwd (lo - 2 ^ d) (lo - 2 ^ d) rfl rfl lg' (tight_of_evs hevs hT) (cov_of_evs hevs hC),
      SX_step crit maxdepth X fuel d lo hv hdm]
    ring

end LoopX


/-! ## 5. mirror symmetry -/

/-- the run started at absolute index `s` ended (for whatever reason) with a final tree of depth `d`
    that covers exactly the window `[lo, lo + 2^d)`.

    `DrawResult` does not expose the tree's interval, so the window is read off the event log: a
    tree of depth `d` consists of the start and the destinations of the chronologically first
    `2^d − 1` leapfrogs of the run (every successful doubling `k < d` contributes exactly `2^k`,
    and leapfrogs of a final, discarded extension come later); `leftEnd` / `rightEnd` are the
    smallest / largest of these indices (relative to the start). -/
def winIs (s : ℤ) (d : ℕ) (lo : ℤ) : DrawOutcome × Log ℝ → Bool :=
  fun out => match out.1 with
    | .ok r => decide (r.depth = d ∧ s + leftEnd d out.2 = lo ∧ s + rightEnd d out.2 = lo + 2 ^ d - 1)
    | _ => false

/-- probability that the transition started at absolute index `s` ends with a final tree that covers
    exactly the window `[lo, lo + 2^d)` at depth `d` (default tree options). -/
noncomputable def Kwin (E : ℤ → ℝ) (crit : ℤ → ℤ → Bool) (maxdepth : ℕ) (s : ℤ) (d : ℕ) (lo : ℤ) : ℝ :=
  prob ((draw (shift E crit s) { maxdepth := maxdepth, mindepth := 0, checkTurning := true, extraDoublings := 0 }).run {})
    (winIs s d lo)

/-- indicator pay-off of the window `(D, LO)` -/
noncomputable def XI (D : ℕ) (LO : ℤ) : ℕ → ℤ → ℝ := fun d lo => if d = D ∧ lo = LO then 1 else 0

theorem shape_init (E : ℤ → ℝ) (s : ℤ) : Shape E s (Tree.init : Model.Tree ℝ) true 0 s := by
  refine ⟨by simp [Tree.init], by simp [Tree.init], rfl, rfl, ?_⟩
  show Real.exp ((0 : ℕ) : ℝ) = Real.exp (E s) * Real.exp (-(E s))
  rw [← Real.exp_add]; simp

theorem tight_init : Tight ({} : Log ℝ) 0 := by simp [Tight, lv]

theorem cov_init (s : ℤ) : Cov s ({} : Log ℝ) 0 s := by
  simp [Cov, leftEnd, rightEnd, firstLeaps, lv]

/-- expected pay-off of the final window of the executable transition = closed form. -/
theorem draw_eq_SX (E : ℤ → ℝ) (crit : ℤ → ℤ → Bool) (hsymm : ∀ a b, crit a b = crit b a)
    (maxdepth : ℕ) (s : ℤ) (ev : DrawOutcome × Log ℝ → Bool) (X : ℕ → ℤ → ℝ)
    (hev : ∀ (t : Model.Tree ℝ) (lg : Log ℝ) (flag : Bool) (d : ℕ) (lo : ℤ),
      Shape E s t true d lo → Cov s lg d lo →
      prob (Rand.pure (DrawOutcome.ok ⟨t.draw, t.depth, flag, none⟩, lg)) ev = X d lo) :
    prob ((draw (shift E crit s) { maxdepth := maxdepth, mindepth := 0, checkTurning := true, extraDoublings := 0 }).run {}) ev
      = SX crit maxdepth X maxdepth 0 s :=
  loopX E crit s hsymm maxdepth ev X hev maxdepth 0 s (by omega) le_rfl (by simp) rfl
    Tree.init {} (shape_init E s) tight_init (cov_init s)

theorem Kwin_eq_SX (E : ℤ → ℝ) (crit : ℤ → ℤ → Bool) (hsymm : ∀ a b, crit a b = crit b a)
    (maxdepth : ℕ) (s : ℤ) (D : ℕ) (LO : ℤ) :
    Kwin E crit maxdepth s D LO = SX crit maxdepth (XI D LO) maxdepth 0 s := by
  refine draw_eq_SX E crit hsymm maxdepth s (winIs s D LO) (XI D LO) ?_
  intro t lg flag d lo ht hC
  have hiff : (t.depth = D ∧ s + leftEnd D lg = LO ∧ s + rightEnd D lg = LO + 2 ^ D - 1)
      ↔ (d = D ∧ lo = LO) := by
    rw [ht.depth]
    constructor
    · rintro ⟨rfl, h1, _⟩; exact ⟨rfl, hC.1.symm.trans h1⟩
    · rintro ⟨rfl, rfl⟩; exact ⟨rfl, hC.1, hC.2⟩
  simp only [prob, winIs, XI, decide_eq_true_eq]
  exact if_congr hiff rfl rfl

/-- the closed form with the indicator pay-off has a single non-zero term. -/
theorem SX_XI (crit : ℤ → ℤ → Bool) (maxdepth : ℕ) (s : ℤ) (D : ℕ) (LO : ℤ) :
    SX crit maxdepth (XI D LO) maxdepth 0 s
      = if D ≤ maxdepth ∧ LO ≤ s ∧ s < LO + 2 ^ D then (1 / 2 : ℝ) ^ D * Q crit maxdepth D LO else 0 := by
  unfold SX GX
  simp only [zero_add, pow_zero, one_mul]
  by_cases h : D ≤ maxdepth ∧ LO ≤ s ∧ s < LO + 2 ^ D
  · rw [if_pos h]
    obtain ⟨h1, h2, h3⟩ := h
    rw [Finset.sum_eq_single D]
    · rw [Finset.sum_eq_single (s - LO).toNat]
      · have e : s - ((s - LO).toNat : ℤ) = LO := by omega
        rw [e]; simp [XI]
      · intro a _ ha
        have : ¬ (s - (a : ℤ) = LO) := by omega
        simp [XI, this]
      · intro hn
        exfalso; apply hn
        rw [Finset.mem_range]
        have : ((2 ^ D : ℕ) : ℤ) = 2 ^ D := by push_cast; rfl
        omega
    · intro k _ hk
      apply Finset.sum_eq_zero
      intro a _
      simp [XI, hk]
    · intro hn
      exfalso; apply hn
      rw [Finset.mem_range]; omega
  · rw [if_neg h]
    apply Finset.sum_eq_zero
    intro k hk
    apply Finset.sum_eq_zero
    intro a ha
    rw [Finset.mem_range] at hk ha
    have : ¬ (k = D ∧ s - (a : ℤ) = LO) := by
      rintro ⟨rfl, rfl⟩
      apply h
      have : ((2 ^ k : ℕ) : ℤ) = 2 ^ k := by push_cast; rfl
      refine ⟨by omega, by omega, by omega⟩
    simp [XI, this]

/-- **probability of a final window, all cases**: the transition from `s` ends with the final window
    `(d, lo)` with probability `2^{-d} · Q d lo` if `d ≤ maxdepth` and `s` lies in the window, and
    `0` otherwise.  `Q crit maxdepth d lo` (C01Refine) is the start-independent stopping weight:
    `0` unless both halves of the window are U-turn free; then `1` if the window's top-level U-turn
    test fires or `d = maxdepth`; otherwise `½ · #{neighbouring blocks (d, lo ± 2^d) containing a U-turn}`. -/
theorem Kwin_eq (E : ℤ → ℝ) (crit : ℤ → ℤ → Bool) (hsymm : ∀ a b, crit a b = crit b a)
    (maxdepth : ℕ) (s : ℤ) (d : ℕ) (lo : ℤ) :
    Kwin E crit maxdepth s d lo
      = if d ≤ maxdepth ∧ lo ≤ s ∧ s < lo + 2 ^ d then (1 / 2 : ℝ) ^ d * Q crit maxdepth d lo else 0 := by
  rw [Kwin_eq_SX E crit hsymm, SX_XI]

/-- **value of the window probability** for a start inside the window: the probability `2^{-d}` of
    the start's own mirrored direction word times the stopping weight of the window. -/
theorem window_prob_value (E : ℤ → ℝ) (crit : ℤ → ℤ → Bool) (hsymm : ∀ a b, crit a b = crit b a)
    (maxdepth d : ℕ) (lo s : ℤ) (hd : d ≤ maxdepth) (hs : lo ≤ s ∧ s < lo + 2 ^ d) :
    Kwin E crit maxdepth s d lo = (1 / 2 : ℝ) ^ d * Q crit maxdepth d lo := by
  rw [Kwin_eq E crit hsymm, if_pos ⟨hd, hs.1, hs.2⟩]

/-- **C01, mirror symmetry on the executable model**: every start inside a window builds exactly
    that window, with that stopping depth, with the same probability. -/
theorem mirror_symmetry (E : ℤ → ℝ) (crit : ℤ → ℤ → Bool) (hsymm : ∀ a b, crit a b = crit b a)
    (maxdepth d : ℕ) (lo s s' : ℤ)
    (hs : lo ≤ s ∧ s < lo + 2 ^ d) (hs' : lo ≤ s' ∧ s' < lo + 2 ^ d) :
    Kwin E crit maxdepth s d lo = Kwin E crit maxdepth s' d lo := by
  rw [Kwin_eq E crit hsymm, Kwin_eq E crit hsymm]
  simp only [hs.1, hs.2, hs'.1, hs'.2, and_true]

/-- a start outside the window (or a depth above `maxdepth`) never builds it. -/
theorem window_prob_outside (E : ℤ → ℝ) (crit : ℤ → ℤ → Bool) (hsymm : ∀ a b, crit a b = crit b a)
    (maxdepth d : ℕ) (lo s : ℤ) (h : ¬ (d ≤ maxdepth ∧ lo ≤ s ∧ s < lo + 2 ^ d)) :
    Kwin E crit maxdepth s d lo = 0 := by
  rw [Kwin_eq E crit hsymm, if_neg h]

/-- the stopping weight takes the values `0`, `½`, `1` only. -/
theorem Q_values (crit : ℤ → ℤ → Bool) (maxdepth d : ℕ) (lo : ℤ) :
    Q crit maxdepth d lo = 0 ∨ Q crit maxdepth d lo = 1 / 2 ∨ Q crit maxdepth d lo = 1 := by
  unfold Q stopB
  split_ifs <;> norm_num

/-- a window whose halves are U-turn free and whose top-level U-turn test fires is built from each
    of its starts with probability exactly `2^{-d}`. -/
theorem window_prob_turning (E : ℤ → ℝ) (crit : ℤ → ℤ → Bool) (hsymm : ∀ a b, crit a b = crit b a)
    (maxdepth d : ℕ) (lo s : ℤ) (hd : d ≤ maxdepth) (hs : lo ≤ s ∧ s < lo + 2 ^ d)
    (hok : okHalves crit d lo = true) (ht : turnTop crit d lo = true) :
    Kwin E crit maxdepth s d lo = (1 / 2 : ℝ) ^ d := by
  rw [window_prob_value E crit hsymm maxdepth d lo s hd hs]
  simp [Q, hok, ht]

/-- a U-turn free window of maximal depth is built from each of its starts with probability
    exactly `2^{-maxdepth}`. -/
theorem window_prob_maxdepth (E : ℤ → ℝ) (crit : ℤ → ℤ → Bool) (hsymm : ∀ a b, crit a b = crit b a)
    (maxdepth : ℕ) (lo s : ℤ) (hs : lo ≤ s ∧ s < lo + 2 ^ maxdepth)
    (hok : okHalves crit maxdepth lo = true) :
    Kwin E crit maxdepth s maxdepth lo = (1 / 2 : ℝ) ^ maxdepth := by
  rw [window_prob_value E crit hsymm maxdepth maxdepth lo s le_rfl hs]
  cases ht : turnTop crit maxdepth lo <;> simp [Q, hok, ht, stopB]

/-- a window one of whose halves contains a U-turn is never the final window. -/
theorem window_prob_invalid (E : ℤ → ℝ) (crit : ℤ → ℤ → Bool) (hsymm : ∀ a b, crit a b = crit b a)
    (maxdepth d : ℕ) (lo s : ℤ) (hok : okHalves crit d lo = false) :
    Kwin E crit maxdepth s d lo = 0 := by
  rw [Kwin_eq E crit hsymm]
  simp [Q, hok]

/-- **the final windows partition the probability space**: for a fixed start the probabilities of
    the finitely many windows `(d, s − a)`, `d ≤ maxdepth`, `a < 2^d`, that contain it sum to `1`
    (in particular the run ends with `.ok` and some such window with probability `1`). -/
theorem windows_partition (E : ℤ → ℝ) (crit : ℤ → ℤ → Bool) (hsymm : ∀ a b, crit a b = crit b a)
    (maxdepth : ℕ) (s : ℤ) :
    ∑ d ∈ Finset.range (maxdepth + 1), ∑ a ∈ Finset.range (2 ^ d),
      Kwin E crit maxdepth s d (s - (a : ℤ)) = 1 := by
  have h1 := draw_eq_SX E crit hsymm maxdepth s (fun _ => true) (fun _ _ => 1)
    (fun t lg flag d lo _ _ => by simp [prob])
  rw [prob_total] at h1
  rw [h1]
  unfold SX GX
  apply Finset.sum_congr rfl
  intro d hd
  apply Finset.sum_congr rfl
  intro a ha
  rw [Finset.mem_range] at hd ha
  have : ((2 ^ d : ℕ) : ℤ) = 2 ^ d := by push_cast; rfl
  rw [window_prob_value E crit hsymm maxdepth d (s - a) s (by omega) ⟨by omega, by omega⟩]
  simp

/-- the transition kernel as the mixture over final windows (`K_eq_S` with the mixture weights
    identified as probabilities of events of the executable model). -/
theorem K_eq_sum_windows (E : ℤ → ℝ) (crit : ℤ → ℤ → Bool) (hsymm : ∀ a b, crit a b = crit b a)
    (maxdepth : ℕ) (s i : ℤ) :
    K E crit maxdepth s i = ∑ d ∈ Finset.range (maxdepth + 1), ∑ a ∈ Finset.range (2 ^ d),
      Kwin E crit maxdepth s d (s - (a : ℤ)) * Mn (wE E) d (s - (a : ℤ)) s i := by
  rw [K_eq_S E crit hsymm]
  unfold S G
  apply Finset.sum_congr rfl
  intro d hd
  apply Finset.sum_congr rfl
  intro a ha
  rw [Finset.mem_range] at hd ha
  have : ((2 ^ d : ℕ) : ℤ) = 2 ^ d := by push_cast; rfl
  rw [window_prob_value E crit hsymm maxdepth d (s - a) s (by omega) ⟨by omega, by omega⟩]
  simp only [zero_add, pow_zero, one_mul]
  ring

/-! ### non-vacuity -/

/-- never turning, `maxdepth = 2`: each of the four starts of a window of 4 states builds it with
    probability `¼`. -/
example (E : ℤ → ℝ) (lo s : ℤ) (hs : lo ≤ s ∧ s < lo + 2 ^ 2) :
    Kwin E (fun _ _ => false) 2 s 2 lo = 1 / 4 := by
  rw [window_prob_maxdepth E _ (fun _ _ => rfl) 2 lo s hs (by simp [okHalves, valid, turn3])]
  norm_num

/-- a criterion that fires exactly when the end points are at least 3 apart (`maxdepth = 10`):
    every window of 4 states stops by its top-level U-turn test, and each of its four starts builds
    it with probability `¼`; no window of 8 states is ever built. -/
example (E : ℤ → ℝ) (lo s : ℤ) (hs : lo ≤ s ∧ s < lo + 2 ^ 2) :
    Kwin E (fun a b => decide (b - a ≥ 3 ∨ a - b ≥ 3)) 10 s 2 lo = 1 / 4 ∧
    Kwin E (fun a b => decide (b - a ≥ 3 ∨ a - b ≥ 3)) 10 s 3 lo = 0 := by
  have hsymm : ∀ a b : ℤ, decide (b - a ≥ 3 ∨ a - b ≥ 3) = decide (a - b ≥ 3 ∨ b - a ≥ 3) := by
    intro a b; simp only [or_comm]
  constructor
  · rw [window_prob_turning E _ hsymm 10 2 lo s (by norm_num) hs
      (by simp [okHalves, valid, turn3]; omega) (by simp [turnTop, turn3]; omega)]
    norm_num
  · exact window_prob_invalid E _ hsymm 10 3 lo s (by simp [okHalves, valid, turn3]; omega)

/-- the mirror pair `s = 0` (both doublings backward) and `s' = -3` (both forward). -/
example (E : ℤ → ℝ) (crit : ℤ → ℤ → Bool) (hsymm : ∀ a b, crit a b = crit b a) (maxdepth : ℕ) :
    Kwin E crit maxdepth 0 2 (-3) = Kwin E crit maxdepth (-3) 2 (-3) :=
  mirror_symmetry E crit hsymm maxdepth 2 (-3) 0 (-3) (by norm_num) (by norm_num)

end NutsModel.C01

#print axioms NutsModel.C01.mirror_symmetry
#print axioms NutsModel.C01.window_prob_value
#print axioms NutsModel.C01.Kwin_eq
#print axioms NutsModel.C01.windows_partition
#print axioms NutsModel.C01.K_eq_sum_windows
