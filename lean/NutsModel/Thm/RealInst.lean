/-
`ℝ` instance of the scalar abstraction: the instance all theorems are stated at.
-/
import NutsModel.Scalar
import Mathlib.Analysis.SpecialFunctions.Pow.Real
import Mathlib.Analysis.SpecialFunctions.Trigonometric.Basic
import Mathlib.Algebra.Order.Round

namespace NutsModel

noncomputable instance : Transc ℝ where
  exp := Real.exp
  log := Real.log
  log1p := fun x => Real.log (1 + x)
  sqrt := Real.sqrt
  rpow := fun x y => x ^ y
  powi := fun x n => x ^ n
  sin := Real.sin
  cos := Real.cos
  abs := fun x => |x|
  round := fun x => (round x : ℤ)
  pi := Real.pi
  toNat := fun x => ⌊x⌋₊
  isFinite := fun _ => true

@[simp] theorem transc_exp (x : ℝ) : Transc.exp x = Real.exp x := rfl
@[simp] theorem transc_log (x : ℝ) : Transc.log x = Real.log x := rfl
@[simp] theorem transc_log1p (x : ℝ) : Transc.log1p x = Real.log (1 + x) := rfl
@[simp] theorem transc_sqrt (x : ℝ) : Transc.sqrt x = Real.sqrt x := rfl
@[simp] theorem transc_rpow (x y : ℝ) : Transc.rpow x y = x ^ y := rfl
@[simp] theorem transc_powi (x : ℝ) (n : ℕ) : Transc.powi x n = x ^ n := rfl
@[simp] theorem transc_abs (x : ℝ) : Transc.abs x = |x| := rfl
@[simp] theorem transc_pi : (Transc.pi : ℝ) = Real.pi := rfl
@[simp] theorem transc_sin (x : ℝ) : Transc.sin x = Real.sin x := rfl
@[simp] theorem transc_cos (x : ℝ) : Transc.cos x = Real.cos x := rfl
@[simp] theorem transc_isFinite (x : ℝ) : Transc.isFinite x = true := rfl

@[simp] theorem fmin_real (a b : ℝ) : fmin a b = min a b := by
  unfold fmin
  split_ifs with h1 h2 h3 <;> simp_all [min_def] <;> linarith

@[simp] theorem fmax_real (a b : ℝ) : fmax a b = max a b := by
  unfold fmax
  split_ifs with h1 h2 h3 <;> simp_all [max_def] <;> linarith

@[simp] theorem feq_real (a b : ℝ) : feq a b ↔ a = b := by
  unfold feq; constructor
  · rintro ⟨h1, h2⟩; exact le_antisymm h1 h2
  · rintro rfl; exact ⟨le_refl _, le_refl _⟩

/-- `Id.run` distributes over `if` (used to unfold translated early-return code). -/
@[simp] theorem idrun_ite {β : Type} (c : Prop) [Decidable c] (a b : Id β) :
    (if c then a else b).run = if c then a.run else b.run := by split <;> rfl

end NutsModel
