/-
C04 (continued) — the NUTS transition leaves the target `exp(−H)` invariant.

Setting: a finite phase space `Z` (a floating-point phase space is finite), a bijective integrator
`φ : Equiv.Perm Z` (C02: the leapfrog maps are bijections), an energy `H`, a symmetric U-turn criterion.
 0. `draw_shift_outcomes`: on a divergence-free orbit every outcome of the executable model's `draw`
    (Model/Tree.lean) is `.ok r` with `|r.draw| ≤ 2^maxdepth − 1` (no `.err`: new Hoare pass `*_noerr`;
    no panic / index bound / depth bound: C03).
 1. `Kz_support`, `Kz_total`, `Kz_nonneg`: the index kernel `Kz` is a probability distribution on
    `[−(2^md − 1), 2^md − 1]` (`draw_bernOk`: every `random_bool` argument of `draw` lies in `[0,1]`).
 2. `Kfull` — the transition matrix on `Z`; `Kfull_nonneg`, `Kfull_row_sum` (stochastic matrix),
    `Kfull_detailed_balance`.
 3. `nuts_leaves_target_invariant`: `∑ z, exp(−H z) · Kfull z z' = exp(−H z')`.
 4. `nuts_jitter_leaves_target_invariant`: the same for a state-independent mixture of integrators.
No hypothesis beyond symmetry of the U-turn criterion (needed for detailed balance only).
-/
import NutsModel.Thm.C04
import NutsModel.Thm.C03
import Mathlib.Algebra.BigOperators.Ring.Finset
import Mathlib.Algebra.BigOperators.Intervals
import Mathlib.Algebra.Order.Group.Abs
import Mathlib.Data.Fintype.BigOperators
import Mathlib.Order.Interval.Finset.Defs
import Mathlib.Tactic.Ring
import Mathlib.Tactic.Linarith

namespace NutsModel.C04
open NutsModel NutsModel.Model NutsModel.C01 NutsModel.C03

/-! ## 0. a divergence-free orbit never produces an error outcome -/

theorem allOut_true {β : Type} : ∀ (r : Rand ℝ β), AllOut (fun _ => True) r
  | .pure _ => trivial
  | .coin k => ⟨allOut_true (k true), allOut_true (k false)⟩
  | .bern _ k => ⟨allOut_true (k true), allOut_true (k false)⟩

theorem allOut_and {β : Type} {P Q : β → Prop} :
    ∀ {r : Rand ℝ β}, AllOut P r → AllOut Q r → AllOut (fun b => P b ∧ Q b) r
  | .pure _, hp, hq => ⟨hp, hq⟩
  | .coin _, hp, hq => ⟨allOut_and hp.1 hq.1, allOut_and hp.2 hq.2⟩
  | .bern _ _, hp, hq => ⟨allOut_and hp.1 hq.1, allOut_and hp.2 hq.2⟩

/-- stops that do not come from the integrator -/
def okStop : Stop → Prop
  | .turning => True
  | .panic _ => True
  | _ => False

theorem mergeInto_noerr (self other : Model.Tree ℝ) (dir : Dir) (lg : Log ℝ) :
    AllOut (fun p => ∀ s, p.1 = .error s → okStop s) ((mergeInto self other dir).run lg) := by
  unfold mergeInto
  simp only [bind, StateT.run, pure]
  split_ifs <;>
    first
      | exact fun s h => by cases h; exact True.intro
      | exact fun s h => by cases h
      | exact ⟨(fun s h => by cases h), (fun s h => by cases h)⟩

theorem singleStep_noerr (o : Orbit ℝ) (hleap : ∀ i, o.leap i = .ok) (t : Model.Tree ℝ) (dir : Dir)
    (lg : Log ℝ) :
    AllOut (fun p => ∀ s, p.1 = .error s → okStop s) ((singleStep o t dir).run lg) := by
  unfold singleStep
  apply allOut_emit_bind
  rw [hleap]
  apply allOut_pureM
  exact fun s h => by cases h

theorem buildOther_noerr (o : Orbit ℝ) (hleap : ∀ i, o.leap i = .ok) (check : Bool) (dir : Dir) :
    ∀ (d : Nat) (seed : Model.Tree ℝ) (lg : Log ℝ),
      AllOut (fun p => ∀ s, p.1 = .error s → okStop s) ((buildOther o check dir d seed).run lg)
  | 0, seed, lg => by
    rw [buildOther]; exact singleStep_noerr o hleap seed dir lg
  | d + 1, seed, lg => by
    rw [buildOther]
    apply allOut_bindM
    refine AllOut.mono ?_ (buildOther_noerr o hleap check dir d seed lg)
    rintro ⟨r1, lg1⟩ h1
    cases r1 with
    | error s =>
      apply allOut_pureM
      exact h1
    | ok t =>
      apply allOut_bindM
      refine AllOut.mono ?_ (buildOther_noerr o hleap check dir d t lg1)
      rintro ⟨r2, lg2⟩ h2
      cases r2 with
      | error s =>
        apply allOut_pureM
        exact h2
      | ok t' =>
        apply allOut_bindM
        refine AllOut.mono ?_ (allOut_true _)
        rintro ⟨turning, lg3⟩ -
        apply allOut_bindM
        refine AllOut.mono ?_ (mergeInto_noerr t t' dir lg3)
        rintro ⟨r4, lg4⟩ h4
        cases r4 with
        | error s =>
          apply allOut_pureM
          exact h4
        | ok m =>
          simp only
          split
          · apply allOut_pureM
            exact fun s h => by cases h; exact True.intro
          · apply allOut_pureM
            exact fun s h => by cases h

/-- not the `Err` result of `extend` -/
def extNoErr : Ext ℝ → Prop
  | .err => False
  | _ => True

theorem extend_noerr (o : Orbit ℝ) (hleap : ∀ i, o.leap i = .ok) (self : Model.Tree ℝ) (dir : Dir)
    (check : Bool) (lg : Log ℝ) :
    AllOut (fun p => extNoErr p.1) ((extend o self dir check).run lg) := by
  unfold extend
  apply allOut_bindM
  refine AllOut.mono ?_ (buildOther_noerr o hleap check dir self.depth self lg)
  rintro ⟨r1, lg1⟩ h1
  cases r1 with
  | error s =>
    cases s with
    | turning => exact True.intro
    | diverging a b => exact (h1 _ rfl).elim
    | err => exact (h1 _ rfl).elim
    | panic site => exact True.intro
  | ok other =>
    simp only
    apply allOut_bindM
    refine AllOut.mono ?_ (allOut_true _)
    rintro ⟨turning, lg2⟩ -
    apply allOut_bindM
    refine AllOut.mono ?_ (allOut_true _)
    rintro ⟨r3, lg3⟩ -
    cases r3 with
    | error s => cases s <;> exact True.intro
    | ok m =>
      simp only
      split <;> exact True.intro

def outNoErr : DrawOutcome → Prop
  | .err => False
  | _ => True

theorem drawLoop_noerr (o : Orbit ℝ) (hleap : ∀ i, o.leap i = .ok) (opt : Options)
    (hextra : opt.extraDoublings = 0) :
    ∀ (fuel : Nat) (t : Model.Tree ℝ) (lg : Log ℝ),
      AllOut (fun p => outNoErr p.1) ((drawLoop o opt fuel t).run lg)
  | 0, t, lg => by
    rw [drawLoop]
    apply allOut_pureM
    exact True.intro
  | fuel + 1, t, lg => by
    rw [drawLoop]
    split
    · apply allOut_pureM
      exact True.intro
    · apply allOut_bindM
      rw [C03.coin_run]
      refine ⟨?_, ?_⟩
      all_goals
        dsimp only
        apply allOut_bindM
        refine AllOut.mono ?_ (extend_noerr o hleap t _ _ _)
        rintro ⟨x, lg1⟩ hx
        cases x with
        | ok t' => exact drawLoop_noerr o hleap opt hextra fuel t' lg1
        | turning t' =>
          simp only [hextra]
          rw [extraLoop]
          apply allOut_pureM
          exact True.intro
        | diverging t' s d =>
          apply allOut_pureM
          exact True.intro
        | err => exact hx.elim
        | panic s =>
          apply allOut_pureM
          exact True.intro

/-- every outcome of the model's `draw` on a divergence-free orbit (default options) is `.ok r`
    with `|r.draw| ≤ 2^maxdepth − 1` -/
theorem draw_shift_outcomes (E : ℤ → ℝ) (crit : ℤ → ℤ → Bool) (md : ℕ) (s : ℤ) :
    AllOut (fun p => ∃ r, p.1 = DrawOutcome.ok r ∧ r.draw.natAbs ≤ 2 ^ md - 1)
      ((draw (shift E crit s) { maxdepth := md, mindepth := 0, checkTurning := true, extraDoublings := 0 }).run {}) := by
  have h1 := draw_no_panic (shift E crit s) ⟨md, 0, true, 0⟩ rfl
  have h2 := index_bounds (shift E crit s) ⟨md, 0, true, 0⟩ rfl
  have h3 := depth_le_maxdepth (shift E crit s) ⟨md, 0, true, 0⟩ rfl
  have h4 : AllOut (fun p => outNoErr p.1) ((draw (shift E crit s) ⟨md, 0, true, 0⟩).run {}) :=
    drawLoop_noerr (shift E crit s) (fun _ => rfl) ⟨md, 0, true, 0⟩ rfl _ _ _
  refine AllOut.mono ?_ (allOut_and (allOut_and h1 h2) (allOut_and h3 h4))
  rintro ⟨out, lg⟩ ⟨⟨a1, a2⟩, a3, a4⟩
  cases out with
  | ok r =>
    refine ⟨r, rfl, ?_⟩
    have b2 := a2 r rfl
    have b3 : r.depth ≤ md := a3 r rfl
    have : 2 ^ r.depth ≤ 2 ^ md := Nat.pow_le_pow_right (by norm_num) b3
    omega
  | err => exact a4.elim
  | panic site => exact (a1 site rfl).elim

/-! ## 1. generic facts on `prob` -/

/-- an event that no outcome satisfies has probability zero -/
theorem prob_eq_zero {β : Type} (P : β → Bool) :
    ∀ (r : Rand ℝ β), AllOut (fun b => P b = false) r → prob r P = 0
  | .pure b, h => by
    have h' : P b = false := h
    simp [prob, h']
  | .coin k, h => by simp [prob, prob_eq_zero P (k true) h.1, prob_eq_zero P (k false) h.2]
  | .bern p k, h => by simp [prob, prob_eq_zero P (k true) h.1, prob_eq_zero P (k false) h.2]

/-- law of total probability over a finite family of events of which every outcome satisfies
    exactly one (counted with indicator functions) -/
theorem prob_sum_partition {β ι : Type} (S : Finset ι) (P : ι → β → Bool) :
    ∀ (r : Rand ℝ β), AllOut (fun b => ∑ i ∈ S, (if P i b then (1 : ℝ) else 0) = 1) r →
      ∑ i ∈ S, prob r (P i) = 1
  | .pure b, h => by
    simp only [prob]; exact h
  | .coin k, h => by
    simp only [prob]
    have e : ∀ i, (prob (k true) (P i) + prob (k false) (P i)) / 2
        = (1 / 2 : ℝ) * prob (k true) (P i) + (1 / 2 : ℝ) * prob (k false) (P i) := fun i => by ring
    simp only [e]
    rw [Finset.sum_add_distrib, ← Finset.mul_sum, ← Finset.mul_sum, prob_sum_partition S P (k true) h.1,
      prob_sum_partition S P (k false) h.2]
    norm_num
  | .bern p k, h => by
    simp only [prob]
    rw [Finset.sum_add_distrib, ← Finset.mul_sum, ← Finset.mul_sum, prob_sum_partition S P (k true) h.1,
      prob_sum_partition S P (k false) h.2]
    ring

/-! ## 1''. every `random_bool` argument of a draw lies in `[0,1]`; probabilities are nonnegative -/

theorem bernOk_bind {β γ : Type} (f : β → Rand ℝ γ) (hf : ∀ b, BernOk (f b)) :
    ∀ (r : Rand ℝ β), BernOk r → BernOk (r.bind f)
  | .pure b, _ => hf b
  | .coin k, h => ⟨bernOk_bind f hf (k true) h.1, bernOk_bind f hf (k false) h.2⟩
  | .bern _ k, h => ⟨h.1, h.2.1, bernOk_bind f hf (k true) h.2.2.1, bernOk_bind f hf (k false) h.2.2.2⟩

theorem bernOk_bindM {β γ : Type} (x : M ℝ β) (f : β → M ℝ γ) (lg : Log ℝ)
    (hx : BernOk (x.run lg)) (hf : ∀ b lg', BernOk ((f b).run lg')) :
    BernOk ((x >>= f).run lg) := by
  show BernOk (Rand.bind (x lg) _)
  exact bernOk_bind _ (fun p => hf p.1 p.2) _ hx

theorem bernOk_pureM {β : Type} (b : β) (lg : Log ℝ) : BernOk ((pure b : M ℝ β).run lg) := True.intro

theorem bernOk_emit (e : Ev) (lg : Log ℝ) : BernOk ((emit e : M ℝ Unit).run lg) := True.intro

theorem prob_nonneg {β : Type} (P : β → Bool) : ∀ (r : Rand ℝ β), BernOk r → 0 ≤ prob r P
  | .pure b, _ => by simp only [prob]; split <;> norm_num
  | .coin k, h => by
    have h1 := prob_nonneg P (k true) h.1
    have h2 := prob_nonneg P (k false) h.2
    simp only [prob]; linarith
  | .bern p k, h => by
    have h1 := prob_nonneg P (k true) h.2.2.1
    have h2 := prob_nonneg P (k false) h.2.2.2
    have := h.1
    have := h.2.1
    simp only [prob]
    exact add_nonneg (mul_nonneg (by linarith) h1) (mul_nonneg (by linarith) h2)

theorem turningChecks_bernOk (o : Orbit ℝ) (self other : Model.Tree ℝ) (dir : Dir) (check : Bool) (lg : Log ℝ) :
    BernOk ((turningChecks o self other dir check).run lg) := by
  unfold turningChecks
  cases check <;> cases dir <;> simp only [] <;>
  repeat (first | exact bernOk_pureM _ _ | (refine bernOk_bindM _ _ _ (bernOk_emit _ _) ?_; intro _ _) | split)

theorem exp_sub_unit {a b : ℝ} (h : ¬ a ≥ b) : 0 ≤ Real.exp (a - b) ∧ Real.exp (a - b) ≤ 1 := by
  refine ⟨(Real.exp_pos _).le, ?_⟩
  rw [← Real.exp_zero]; exact Real.exp_le_exp.mpr (by linarith [lt_of_not_ge h])

theorem mergeInto_bernOk (self other : Model.Tree ℝ) (dir : Dir) (lg : Log ℝ) :
    BernOk ((mergeInto self other dir).run lg) := by
  unfold mergeInto
  simp only [bind, StateT.run, pure]
  split_ifs with h1 h2 h3 h4 h5 h6 <;>
    first
      | exact True.intro
      | exact ⟨(exp_sub_unit h5).1, (exp_sub_unit h5).2, True.intro, True.intro⟩
      | exact ⟨(exp_sub_unit h6).1, (exp_sub_unit h6).2, True.intro, True.intro⟩

theorem singleStep_bernOk (o : Orbit ℝ) (t : Model.Tree ℝ) (dir : Dir) (lg : Log ℝ) :
    BernOk ((singleStep o t dir).run lg) := by
  unfold singleStep
  refine bernOk_bindM _ _ _ (bernOk_emit _ _) ?_
  intro _ _
  split <;> exact bernOk_pureM _ _

theorem buildOther_bernOk (o : Orbit ℝ) (check : Bool) (dir : Dir) :
    ∀ (d : Nat) (seed : Model.Tree ℝ) (lg : Log ℝ), BernOk ((buildOther o check dir d seed).run lg)
  | 0, seed, lg => by
    rw [buildOther]; exact singleStep_bernOk o seed dir lg
  | d + 1, seed, lg => by
    rw [buildOther]
    refine bernOk_bindM _ _ _ (buildOther_bernOk o check dir d seed lg) ?_
    intro r1 lg1
    cases r1 with
    | error s => exact bernOk_pureM _ _
    | ok t =>
      refine bernOk_bindM _ _ _ (buildOther_bernOk o check dir d t lg1) ?_
      intro r2 lg2
      cases r2 with
      | error s => exact bernOk_pureM _ _
      | ok t' =>
        refine bernOk_bindM _ _ _ (turningChecks_bernOk o t t' dir check lg2) ?_
        intro turning lg3
        refine bernOk_bindM _ _ _ (mergeInto_bernOk t t' dir lg3) ?_
        intro r4 lg4
        cases r4 with
        | error s => exact bernOk_pureM _ _
        | ok m =>
          simp only
          split <;> exact bernOk_pureM _ _

theorem extend_bernOk (o : Orbit ℝ) (self : Model.Tree ℝ) (dir : Dir) (check : Bool) (lg : Log ℝ) :
    BernOk ((extend o self dir check).run lg) := by
  unfold extend
  refine bernOk_bindM _ _ _ (buildOther_bernOk o check dir self.depth self lg) ?_
  intro r1 lg1
  cases r1 with
  | error s => cases s <;> exact bernOk_pureM _ _
  | ok other =>
    simp only
    refine bernOk_bindM _ _ _ (turningChecks_bernOk o self other dir check lg1) ?_
    intro turning lg2
    refine bernOk_bindM _ _ _ (mergeInto_bernOk self other dir lg2) ?_
    intro r3 lg3
    cases r3 with
    | error s => cases s <;> exact bernOk_pureM _ _
    | ok m =>
      simp only
      split <;> exact bernOk_pureM _ _

theorem extraLoop_bernOk (o : Orbit ℝ) (dir : Dir) :
    ∀ (n : Nat) (t : Model.Tree ℝ) (lg : Log ℝ), BernOk ((extraLoop o dir n t).run lg)
  | 0, t, lg => by rw [extraLoop]; exact bernOk_pureM _ _
  | n + 1, t, lg => by
    rw [extraLoop]
    refine bernOk_bindM _ _ _ (extend_bernOk o t dir false lg) ?_
    intro x lg1
    cases x with
    | ok t' => exact extraLoop_bernOk o dir n t' lg1
    | turning t' => exact extraLoop_bernOk o dir n t' lg1
    | diverging t' s d => exact bernOk_pureM _ _
    | err => exact bernOk_pureM _ _
    | panic s => exact bernOk_pureM _ _

theorem drawLoop_bernOk (o : Orbit ℝ) (opt : Options) :
    ∀ (fuel : Nat) (t : Model.Tree ℝ) (lg : Log ℝ), BernOk ((drawLoop o opt fuel t).run lg)
  | 0, t, lg => by rw [drawLoop]; exact bernOk_pureM _ _
  | fuel + 1, t, lg => by
    rw [drawLoop]
    split
    · exact bernOk_pureM _ _
    · refine bernOk_bindM _ _ _ ?_ ?_
      · rw [C03.coin_run]; exact ⟨True.intro, True.intro⟩
      · intro c lg0
        dsimp only
        refine bernOk_bindM _ _ _ (extend_bernOk o t _ _ lg0) ?_
        intro x lg1
        cases x with
        | ok t' => exact drawLoop_bernOk o opt fuel t' lg1
        | turning t' => exact extraLoop_bernOk o _ _ t' lg1
        | diverging t' s d => exact bernOk_pureM _ _
        | err => exact bernOk_pureM _ _
        | panic s => exact bernOk_pureM _ _

/-- **`Rng::random_bool` cannot panic**: for every orbit and all options, every Bernoulli parameter
    requested by `draw` lies in `[0,1]`. -/
theorem draw_bernOk (o : Orbit ℝ) (opt : Options) (lg : Log ℝ) : BernOk ((draw o opt).run lg) :=
  drawLoop_bernOk o opt _ _ lg

theorem K_nonneg (E : ℤ → ℝ) (crit : ℤ → ℤ → Bool) (md : ℕ) (s i : ℤ) : 0 ≤ K E crit md s i :=
  prob_nonneg _ _ (draw_bernOk _ _ _)

/-! ## 1'. support and total mass of the index kernel -/

/-- the index kernel of the model is supported on `|i − s| ≤ 2^maxdepth − 1` -/
theorem K_support (E : ℤ → ℝ) (crit : ℤ → ℤ → Bool) (md : ℕ) (s i : ℤ)
    (h : K E crit md s i ≠ 0) : |i - s| ≤ 2 ^ md - 1 := by
  by_contra hn
  apply h
  unfold K
  apply prob_eq_zero
  refine AllOut.mono ?_ (draw_shift_outcomes E crit md s)
  rintro ⟨out, lg⟩ ⟨r, hr, hb⟩
  simp only at hr
  subst hr
  simp only [decide_eq_false_iff_not]
  intro hd
  apply hn
  rw [← hd]
  have h1 : (1 : ℕ) ≤ 2 ^ md := Nat.one_le_two_pow
  have h2 : ((2 ^ md - 1 : ℕ) : ℤ) = 2 ^ md - 1 := by
    rw [Nat.cast_sub h1]; simp
  rw [← h2, Int.abs_eq_natAbs]
  exact_mod_cast hb

/-- the index kernel of the model is a probability distribution on the window
    `[s − (2^maxdepth − 1), s + (2^maxdepth − 1)]` -/
theorem K_total (E : ℤ → ℝ) (crit : ℤ → ℤ → Bool) (md : ℕ) (s : ℤ) :
    ∑ i ∈ Finset.Icc (s - (2 ^ md - 1 : ℤ)) (s + (2 ^ md - 1)), K E crit md s i = 1 := by
  unfold K
  apply prob_sum_partition
  refine AllOut.mono ?_ (draw_shift_outcomes E crit md s)
  rintro ⟨out, lg⟩ ⟨r, hr, hb⟩
  simp only at hr
  subst hr
  simp only [decide_eq_true_eq]
  have hmem : s + r.draw ∈ Finset.Icc (s - (2 ^ md - 1 : ℤ)) (s + (2 ^ md - 1)) := by
    have h1 : (1 : ℕ) ≤ 2 ^ md := Nat.one_le_two_pow
    have h2 : ((2 ^ md - 1 : ℕ) : ℤ) = 2 ^ md - 1 := by
      rw [Nat.cast_sub h1]; simp
    rw [Finset.mem_Icc]
    omega
  rw [Finset.sum_eq_single_of_mem (s + r.draw) hmem]
  · simp
  · intro j _ hj
    have : ¬ r.draw = j - s := by omega
    simp [this]

variable {Z : Type}

theorem Kz_support (φ : Equiv.Perm Z) (H : Z → ℝ) (turn : Z → Z → Bool) (md : ℕ) (z : Z) (i : ℤ)
    (h : Kz φ H turn md z i ≠ 0) : |i| ≤ 2 ^ md - 1 := by
  have := K_support _ _ md 0 i h
  simpa using this

theorem Kz_nonneg (φ : Equiv.Perm Z) (H : Z → ℝ) (turn : Z → Z → Bool) (md : ℕ) (z : Z) (i : ℤ) :
    0 ≤ Kz φ H turn md z i := K_nonneg _ _ md 0 i

theorem Kz_total (φ : Equiv.Perm Z) (H : Z → ℝ) (turn : Z → Z → Bool) (md : ℕ) (z : Z) :
    ∑ i ∈ Finset.Icc (-(2 ^ md - 1 : ℤ)) (2 ^ md - 1), Kz φ H turn md z i = 1 := by
  have := K_total (orbitE φ H z) (orbitCrit φ turn z) md 0
  simpa [Kz] using this

/-! ## 2. the transition kernel on a finite phase space -/

section Finite
variable [Fintype Z] [DecidableEq Z]

/-- probability that the NUTS transition started at the phase-space point `z` returns the point `z'`
    (sum over all orbit indices `i` in the support with `φ^i z = z'`; on a periodic orbit several indices
    hit the same point). -/
noncomputable def Kfull (φ : Equiv.Perm Z) (H : Z → ℝ) (turn : Z → Z → Bool) (md : ℕ) (z z' : Z) : ℝ :=
  ∑ i ∈ Finset.Icc (-(2 ^ md - 1 : ℤ)) (2 ^ md - 1), if (φ ^ i) z = z' then Kz φ H turn md z i else 0

omit [Fintype Z] in
/-- entries of the transition matrix are nonnegative (with `Kfull_row_sum`: a stochastic matrix) -/
theorem Kfull_nonneg (φ : Equiv.Perm Z) (H : Z → ℝ) (turn : Z → Z → Bool) (md : ℕ) (z z' : Z) :
    0 ≤ Kfull φ H turn md z z' := by
  unfold Kfull
  refine Finset.sum_nonneg fun i _ => ?_
  split
  · exact Kz_nonneg φ H turn md z i
  · exact le_refl _

/-- rows of the transition matrix sum to one -/
theorem Kfull_row_sum (φ : Equiv.Perm Z) (H : Z → ℝ) (turn : Z → Z → Bool) (md : ℕ) (z : Z) :
    ∑ z', Kfull φ H turn md z z' = 1 := by
  unfold Kfull
  rw [Finset.sum_comm]
  simp only [Finset.sum_ite_eq, Finset.mem_univ, if_true]
  exact Kz_total φ H turn md z

omit [Fintype Z] in
/-- **detailed balance of the NUTS transition matrix** w.r.t. `exp(−H)` -/
theorem Kfull_detailed_balance (φ : Equiv.Perm Z) (H : Z → ℝ) (turn : Z → Z → Bool)
    (hsymm : ∀ a b, turn a b = turn b a) (md : ℕ) (z z' : Z) :
    Real.exp (-(H z)) * Kfull φ H turn md z z' = Real.exp (-(H z')) * Kfull φ H turn md z' z := by
  unfold Kfull
  rw [Finset.mul_sum, Finset.mul_sum]
  refine Finset.sum_bij' (fun i _ => -i) (fun i _ => -i) ?_ ?_ ?_ ?_ ?_
  · intro i hi
    rw [Finset.mem_Icc] at hi ⊢
    constructor <;> linarith [hi.1, hi.2]
  · intro i hi
    rw [Finset.mem_Icc] at hi ⊢
    constructor <;> linarith [hi.1, hi.2]
  · intro i _; exact neg_neg i
  · intro i _; exact neg_neg i
  · intro i _
    by_cases h : (φ ^ i) z = z'
    · have h' : (φ ^ (-i)) z' = z := by
        rw [← h, ← Equiv.Perm.mul_apply, ← zpow_add]; simp
      rw [if_pos h, if_pos h']
      have := phase_space_detailed_balance φ H turn hsymm md z i
      rw [h] at this
      exact this
    · have h' : ¬ (φ ^ (-i)) z' = z := by
        intro e
        apply h
        rw [← e, ← Equiv.Perm.mul_apply, ← zpow_add]; simp
      rw [if_neg h, if_neg h']
      simp

/-- **the NUTS transition leaves the target invariant**: `exp(−H)` (unnormalised) is a stationary
    vector of the transition matrix, for every bijective integrator `φ` on a finite phase space, every
    energy `H`, every symmetric U-turn criterion and every `maxdepth`. -/
theorem nuts_leaves_target_invariant (φ : Equiv.Perm Z) (H : Z → ℝ) (turn : Z → Z → Bool)
    (hsymm : ∀ a b, turn a b = turn b a) (md : ℕ) (z' : Z) :
    ∑ z, Real.exp (-(H z)) * Kfull φ H turn md z z' = Real.exp (-(H z')) := by
  simp only [Kfull_detailed_balance φ H turn hsymm md _ z']
  rw [← Finset.mul_sum, Kfull_row_sum, mul_one]

/-- the same under a state-independent random choice of the integrator (step-size jitter) -/
theorem nuts_jitter_leaves_target_invariant {ι : Type} (s : Finset ι) (w : ι → ℝ) (hw : ∑ j ∈ s, w j = 1)
    (φ : ι → Equiv.Perm Z) (H : Z → ℝ) (turn : Z → Z → Bool)
    (hsymm : ∀ a b, turn a b = turn b a) (md : ℕ) (z' : Z) :
    ∑ z, Real.exp (-(H z)) * (∑ j ∈ s, w j * Kfull (φ j) H turn md z z') = Real.exp (-(H z')) := by
  have e : ∀ z, Real.exp (-(H z)) * (∑ j ∈ s, w j * Kfull (φ j) H turn md z z')
      = ∑ j ∈ s, w j * (Real.exp (-(H z)) * Kfull (φ j) H turn md z z') := by
    intro z
    rw [Finset.mul_sum]
    exact Finset.sum_congr rfl fun j _ => by ring
  simp only [e]
  rw [Finset.sum_comm]
  simp only [← Finset.mul_sum, nuts_leaves_target_invariant _ H turn hsymm md z']
  rw [← Finset.sum_mul, hw, one_mul]

/-- rows of the jittered transition matrix sum to one -/
theorem jitter_row_sum {ι : Type} (s : Finset ι) (w : ι → ℝ) (hw : ∑ j ∈ s, w j = 1)
    (φ : ι → Equiv.Perm Z) (H : Z → ℝ) (turn : Z → Z → Bool) (md : ℕ) (z : Z) :
    ∑ z', (∑ j ∈ s, w j * Kfull (φ j) H turn md z z') = 1 := by
  rw [Finset.sum_comm]
  simp only [← Finset.mul_sum, Kfull_row_sum, mul_one]
  exact hw

end Finite

end NutsModel.C04

#print axioms NutsModel.C04.draw_shift_outcomes
#print axioms NutsModel.C04.K_support
#print axioms NutsModel.C04.K_total
#print axioms NutsModel.C04.Kz_support
#print axioms NutsModel.C04.Kz_total
#print axioms NutsModel.C04.draw_bernOk
#print axioms NutsModel.C04.Kz_nonneg
#print axioms NutsModel.C04.Kfull_nonneg
#print axioms NutsModel.C04.Kfull_row_sum
#print axioms NutsModel.C04.Kfull_detailed_balance
#print axioms NutsModel.C04.nuts_leaves_target_invariant
#print axioms NutsModel.C04.nuts_jitter_leaves_target_invariant
#print axioms NutsModel.C04.jitter_row_sum
