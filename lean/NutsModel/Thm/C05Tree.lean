/-
C05 (tree-builder part) — how density faults propagate through the NUTS tree builder
(`Model/Tree.lean`, mirroring `src/nuts.rs`).

A fault is a leapfrog whose outcome `o.leap d` is `.diverge` (recoverable: energy error too large /
non-finite density) or `.err` (unrecoverable logp error).  For EVERY orbit `o : Orbit ℝ` (faults at
arbitrary positions, any number of them), EVERY `opt : Options` (no hypothesis on `extraDoublings`)
and EVERY value of the random choices (`AllOut` / `IsOutcome` of `Thm/C03.lean`), `draw` started on
the empty log satisfies `draw_fault_spec` (`FaultPost`), from which per outcome `(out, lg)`:
 1. `fault_stops_trajectory` : every logged leapfrog but the most recent one succeeded; a faulty
                               logged leapfrog is the most recent one; no `Ev.leap` after it;
 2. `divergence_reported`    : a divergent logged leapfrog is reported with its location;
 3. `divergence_genuine`     : a reported divergence is a logged leapfrog that did diverge; no report
                               means every logged leapfrog succeeded;
 4. `unrecoverable_is_err`   : `out = .err` iff some logged leapfrog was unrecoverable;
 5. `no_fault_no_report`     : on a fault-free orbit neither `.err` nor a divergence is reported;
 6. `returned_state_valid`   : the returned index is 0 or the destination of a logged successful
                               leapfrog (never of a faulty one) — also without `extraDoublings = 0`.

Proof: relative Hoare-style specifications threaded through `singleStep`, `buildOther`, `extend`,
`extraLoop`, `drawLoop`: the log grows by successful leapfrogs only (`CleanExt`), or by successful
leapfrogs followed by one last, faulty leapfrog (`FaultExt`); `turningChecks` and `mergeInto` log no
leapfrog.  (The namespace is `NutsModel.C05.Tree` because `NutsModel.C05.unrecoverable_is_err`
already exists in `Thm/C05.lean`.)
-/
import NutsModel.Thm.C03

namespace NutsModel.C05.Tree
open NutsModel NutsModel.Gen NutsModel.Model NutsModel.C03

/-! ## logged leapfrogs -/

/-- the `Ev.leap s d` events of an event list, in the same order (most recent first) -/
def leapsL : List Ev → List (Int × Int)
  | [] => []
  | .leap s d :: es => (s, d) :: leapsL es
  | .turn _ _ :: es => leapsL es

/-- the `Ev.leap s d` events of the log, most recent first -/
def leaps (lg : Log ℝ) : List (Int × Int) := leapsL lg.evs

theorem mem_leapsL {s d : Int} : ∀ {es : List Ev}, (s, d) ∈ leapsL es ↔ Ev.leap s d ∈ es
  | [] => by simp [leapsL]
  | .leap a b :: es => by simp [leapsL, mem_leapsL (es := es)]
  | .turn a b :: es => by simp [leapsL, mem_leapsL (es := es)]

theorem mem_leaps {s d : Int} {lg : Log ℝ} : (s, d) ∈ leaps lg ↔ Ev.leap s d ∈ lg.evs := mem_leapsL

theorem leapsL_append : ∀ (as bs : List Ev), leapsL (as ++ bs) = leapsL as ++ leapsL bs
  | [], bs => rfl
  | .leap a b :: as, bs => by simp [leapsL, leapsL_append as bs]
  | .turn a b :: as, bs => by simp [leapsL, leapsL_append as bs]

/-- every logged leapfrog succeeded -/
def Clean (o : Orbit ℝ) (lg : Log ℝ) : Prop := ∀ s d, Ev.leap s d ∈ lg.evs → o.leap d = .ok

/-- the most recent logged leapfrog is `s → d`, and all earlier ones succeeded -/
def LastOnly (o : Orbit ℝ) (lg : Log ℝ) (s d : Int) : Prop :=
  ∃ rest, leaps lg = (s, d) :: rest ∧ ∀ p ∈ rest, o.leap p.2 = .ok

/-- `lg'` extends `lg` by successful leapfrogs only -/
def CleanExt (o : Orbit ℝ) (lg lg' : Log ℝ) : Prop :=
  ∃ new, leaps lg' = new ++ leaps lg ∧ ∀ p ∈ new, o.leap p.2 = .ok

/-- `lg'` extends `lg` by successful leapfrogs followed by a last leapfrog `s → d` -/
def FaultExt (o : Orbit ℝ) (lg lg' : Log ℝ) (s d : Int) : Prop :=
  ∃ new, leaps lg' = (s, d) :: (new ++ leaps lg) ∧ ∀ p ∈ new, o.leap p.2 = .ok

theorem CleanExt.of_eq {o : Orbit ℝ} {lg lg' : Log ℝ} (h : leaps lg' = leaps lg) : CleanExt o lg lg' :=
  ⟨[], by simpa using h, fun _ hp => by cases hp⟩

theorem CleanExt.refl (o : Orbit ℝ) (lg : Log ℝ) : CleanExt o lg lg := CleanExt.of_eq rfl

theorem CleanExt.trans {o : Orbit ℝ} {a b c : Log ℝ} (h1 : CleanExt o a b) (h2 : CleanExt o b c) :
    CleanExt o a c := by
  obtain ⟨n1, e1, k1⟩ := h1
  obtain ⟨n2, e2, k2⟩ := h2
  refine ⟨n2 ++ n1, by rw [e2, e1, List.append_assoc], ?_⟩
  intro p hp
  rcases List.mem_append.1 hp with hp | hp
  · exact k2 p hp
  · exact k1 p hp

theorem CleanExt.fault {o : Orbit ℝ} {a b c : Log ℝ} {s d : Int} (h1 : CleanExt o a b)
    (h2 : FaultExt o b c s d) : FaultExt o a c s d := by
  obtain ⟨n1, e1, k1⟩ := h1
  obtain ⟨n2, e2, k2⟩ := h2
  refine ⟨n2 ++ n1, by rw [e2, e1, List.append_assoc], ?_⟩
  intro p hp
  rcases List.mem_append.1 hp with hp | hp
  · exact k2 p hp
  · exact k1 p hp

theorem CleanExt.sub {o : Orbit ℝ} {a b : Log ℝ} (h : CleanExt o a b) :
    ∀ p, p ∈ leaps a → p ∈ leaps b := by
  obtain ⟨n, e, _⟩ := h
  intro p hp; rw [e]; exact List.mem_append_right _ hp

theorem FaultExt.sub {o : Orbit ℝ} {a b : Log ℝ} {s d : Int} (h : FaultExt o a b s d) :
    ∀ p, p ∈ leaps a → p ∈ leaps b := by
  obtain ⟨n, e, _⟩ := h
  intro p hp; rw [e]; exact List.mem_cons_of_mem _ (List.mem_append_right _ hp)

/-- index `i` is the start, or the destination of a logged successful leapfrog -/
def DV (o : Orbit ℝ) (lg : Log ℝ) (i : Int) : Prop :=
  i = 0 ∨ ((∃ s, (s, i) ∈ leaps lg) ∧ o.leap i = .ok)

theorem DV.mono {o : Orbit ℝ} {a b : Log ℝ} {i : Int} (hs : ∀ p, p ∈ leaps a → p ∈ leaps b)
    (h : DV o a i) : DV o b i :=
  h.imp id fun ⟨⟨s, hs'⟩, hk⟩ => ⟨⟨s, hs _ hs'⟩, hk⟩

/-! ## building blocks: `turningChecks` and `mergeInto` log no leapfrog -/

theorem turningChecks_leaps (o : Orbit ℝ) (self other : Model.Tree ℝ) (dir : Dir) (check : Bool)
    (lg : Log ℝ) :
    AllOut (fun p => leaps p.2 = leaps lg) ((turningChecks o self other dir check).run lg) := by
  unfold turningChecks
  cases check <;> cases dir <;> simp only [] <;>
  repeat (first | apply allOut_emit_bind | apply allOut_pureM | split)
  all_goals simp +contextual [leaps, leapsL, rand_pure_eq, AllOut]

/-- `mergeInto` (no hypothesis on the trees): the event log is untouched; the result is a panic or
    a merged tree whose draw is one of the two draws. -/
theorem mergeInto_any (self other : Model.Tree ℝ) (dir : Dir) (lg : Log ℝ) :
    AllOut (fun p => p.2.evs = lg.evs ∧
        ((∃ site, p.1 = .error (.panic site)) ∨
          ∃ m, p.1 = .ok m ∧ (m.draw = other.draw ∨ m.draw = self.draw)))
      ((mergeInto self other dir).run lg) := by
  unfold mergeInto
  cases dir
  all_goals
    simp only []
    split
    · exact ⟨rfl, Or.inl ⟨_, rfl⟩⟩
    split
    · exact ⟨rfl, Or.inl ⟨_, rfl⟩⟩
    split
    · exact ⟨rfl, Or.inl ⟨_, rfl⟩⟩
    generalize (if self.isMain = true then self.logSize else logaddexp self.logSize other.logSize) = s
    split
    · refine allOut_bindM _ _ _ ?_
      show AllOut _ (Rand.pure (true, lg))
      simp only [AllOut]
      exact ⟨rfl, Or.inr ⟨_, rfl, Or.inl rfl⟩⟩
    · refine allOut_bindM _ _ _ ?_
      rw [bern_run]
      simp only [AllOut]
      exact ⟨⟨rfl, Or.inr ⟨_, rfl, Or.inl rfl⟩⟩, ⟨rfl, Or.inr ⟨_, rfl, Or.inr rfl⟩⟩⟩

/-! ## sub-tree builds stop at the first fault -/

/-- result of a sub-tree build started on `lg` -/
def BPost (o : Orbit ℝ) (lg : Log ℝ) : Except Stop (Model.Tree ℝ) × Log ℝ → Prop
  | (.ok t, lg') => CleanExt o lg lg' ∧ DV o lg' t.draw
  | (.error .turning, lg') => CleanExt o lg lg'
  | (.error (.panic _), lg') => CleanExt o lg lg'
  | (.error (.diverging s d), lg') => o.leap d = .diverge ∧ FaultExt o lg lg' s d
  | (.error .err, lg') => ∃ s d, o.leap d = .err ∧ FaultExt o lg lg' s d

theorem leaps_cons_leap (lg : Log ℝ) (a b : Int) :
    leaps { lg with evs := Ev.leap a b :: lg.evs } = (a, b) :: leaps lg := rfl

theorem singleStep_fault (o : Orbit ℝ) (t : Model.Tree ℝ) (dir : Dir) (lg : Log ℝ) :
    AllOut (BPost o lg) ((singleStep o t dir).run lg) := by
  unfold singleStep
  apply allOut_emit_bind
  split
  · apply allOut_pureM
    rename_i h
    simp only [BPost]
    exact ⟨h, [], by rw [leaps_cons_leap]; rfl, fun _ hp => by cases hp⟩
  · apply allOut_pureM
    rename_i h
    simp only [BPost]
    exact ⟨_, _, h, [], by rw [leaps_cons_leap]; rfl, fun _ hp => by cases hp⟩
  · apply allOut_pureM
    rename_i h
    simp only [BPost]
    refine ⟨⟨[(_, _)], by rw [leaps_cons_leap]; rfl, ?_⟩, Or.inr ⟨?_, h⟩⟩
    · intro p hp
      rw [List.mem_singleton] at hp
      subst hp
      exact h
    · rw [leaps_cons_leap]; exact ⟨_, List.mem_cons_self⟩

/-- propagating a stop `s` out of a sub-tree build -/
theorem BPost.error_trans {o : Orbit ℝ} {a b c : Log ℝ} {s : Stop} {x : Except Stop (Model.Tree ℝ)}
    (h1 : CleanExt o a b) (h2 : BPost o b (.error s, c)) (hx : x = .error s) : BPost o a (x, c) := by
  subst hx
  cases s with
  | turning => exact h1.trans h2
  | panic site => exact h1.trans h2
  | diverging s d => exact ⟨h2.1, h1.fault h2.2⟩
  | err =>
    obtain ⟨s, d, hk, hf⟩ := h2
    exact ⟨s, d, hk, h1.fault hf⟩

theorem buildOther_fault (o : Orbit ℝ) (check : Bool) (dir : Dir) :
    ∀ (d : Nat) (seed : Model.Tree ℝ) (lg : Log ℝ),
      AllOut (BPost o lg) ((buildOther o check dir d seed).run lg)
  | 0, seed, lg => by
    rw [buildOther]; exact singleStep_fault o seed dir lg
  | d + 1, seed, lg => by
    rw [buildOther]
    apply allOut_bindM
    refine AllOut.mono ?_ (buildOther_fault o check dir d seed lg)
    rintro ⟨r1, lg1⟩ h1
    cases r1 with
    | error s =>
      apply allOut_pureM
      exact BPost.error_trans (CleanExt.refl o lg) h1 rfl
    | ok t =>
      simp only [BPost] at h1
      obtain ⟨hc1, hdv1⟩ := h1
      apply allOut_bindM
      refine AllOut.mono ?_ (buildOther_fault o check dir d t lg1)
      rintro ⟨r2, lg2⟩ h2
      cases r2 with
      | error s =>
        apply allOut_pureM
        exact BPost.error_trans hc1 h2 rfl
      | ok t' =>
        simp only [BPost] at h2
        obtain ⟨hc2, hdv2⟩ := h2
        apply allOut_bindM
        refine AllOut.mono ?_ (turningChecks_leaps o t t' dir check lg2)
        rintro ⟨turning, lg3⟩ hl3
        apply allOut_bindM
        refine AllOut.mono ?_ (mergeInto_any t t' dir lg3)
        rintro ⟨r4, lg4⟩ ⟨hev, hr4⟩
        simp only at hev hl3 hr4
        have hl4 : leaps lg4 = leaps lg2 := by rw [← hl3]; unfold leaps; rw [hev]
        have hc24 : CleanExt o lg2 lg4 := CleanExt.of_eq hl4
        have hc4 : CleanExt o lg lg4 := (hc1.trans hc2).trans hc24
        rcases hr4 with ⟨site, rfl⟩ | ⟨m, rfl, hm⟩
        · apply allOut_pureM
          exact hc4
        · simp only
          split
          · apply allOut_pureM
            exact hc4
          · apply allOut_pureM
            refine ⟨hc4, ?_⟩
            rcases hm with hm | hm
            · rw [hm]; exact hdv2.mono hc24.sub
            · rw [hm]; exact hdv1.mono (hc2.trans hc24).sub

/-! ## `extend` -/

def EPost (o : Orbit ℝ) (lg : Log ℝ) : Ext ℝ × Log ℝ → Prop
  | (.ok t, lg') => CleanExt o lg lg' ∧ DV o lg' t.draw
  | (.turning t, lg') => CleanExt o lg lg' ∧ DV o lg' t.draw
  | (.diverging t s d, lg') => (o.leap d = .diverge ∧ FaultExt o lg lg' s d) ∧ DV o lg' t.draw
  | (.err, lg') => ∃ s d, o.leap d = .err ∧ FaultExt o lg lg' s d
  | (.panic _, lg') => CleanExt o lg lg'

theorem extend_fault (o : Orbit ℝ) (self : Model.Tree ℝ) (dir : Dir) (check : Bool) (lg : Log ℝ)
    (hdv : DV o lg self.draw) :
    AllOut (EPost o lg) ((extend o self dir check).run lg) := by
  unfold extend
  apply allOut_bindM
  refine AllOut.mono ?_ (buildOther_fault o check dir self.depth self lg)
  rintro ⟨r1, lg1⟩ h1
  cases r1 with
  | error s =>
    cases s with
    | turning => exact ⟨h1, hdv.mono (CleanExt.sub h1)⟩
    | diverging a b => exact ⟨h1, hdv.mono (FaultExt.sub h1.2)⟩
    | err => exact h1
    | panic site => exact h1
  | ok other =>
    simp only [BPost] at h1
    obtain ⟨hc1, hdv1⟩ := h1
    simp only
    apply allOut_bindM
    refine AllOut.mono ?_ (turningChecks_leaps o self other dir check lg1)
    rintro ⟨turning, lg2⟩ hl2
    apply allOut_bindM
    refine AllOut.mono ?_ (mergeInto_any self other dir lg2)
    rintro ⟨r3, lg3⟩ ⟨hev, hr3⟩
    simp only at hev hl2 hr3
    have hl3 : leaps lg3 = leaps lg1 := by rw [← hl2]; unfold leaps; rw [hev]
    have hc13 : CleanExt o lg1 lg3 := CleanExt.of_eq hl3
    have hc3 : CleanExt o lg lg3 := hc1.trans hc13
    rcases hr3 with ⟨site, rfl⟩ | ⟨m, rfl, hm⟩
    · exact hc3
    · have hdm : DV o lg3 m.draw := by
        rcases hm with hm | hm
        · rw [hm]; exact hdv1.mono hc13.sub
        · rw [hm]; exact hdv.mono hc3.sub
      simp only
      split
      · exact ⟨hc3, hdm⟩
      · exact ⟨hc3, hdm⟩

/-! ## the loops of `draw` -/

/-- what the reported divergence says about the log -/
def RPost (o : Orbit ℝ) (lg lg' : Log ℝ) : Option (Int × Int) → Prop
  | none => CleanExt o lg lg'
  | some (s, d) => o.leap d = .diverge ∧ FaultExt o lg lg' s d

/-- result of (a suffix of) `draw` started on `lg` -/
def DPost (o : Orbit ℝ) (lg : Log ℝ) : DrawOutcome × Log ℝ → Prop
  | (.ok r, lg') => RPost o lg lg' r.diverging ∧ DV o lg' r.draw
  | (.err, lg') => ∃ s d, o.leap d = .err ∧ FaultExt o lg lg' s d
  | (.panic _, lg') => CleanExt o lg lg'

theorem RPost.trans {o : Orbit ℝ} {a b c : Log ℝ} (h1 : CleanExt o a b) :
    ∀ {x : Option (Int × Int)}, RPost o b c x → RPost o a c x
  | none, h => CleanExt.trans h1 h
  | some (_, _), h => ⟨h.1, h1.fault h.2⟩

theorem DPost.trans {o : Orbit ℝ} {a b : Log ℝ} (h1 : CleanExt o a b) :
    ∀ {p : DrawOutcome × Log ℝ}, DPost o b p → DPost o a p
  | (.ok _, _), h => ⟨RPost.trans h1 h.1, h.2⟩
  | (.err, _), ⟨s, d, hk, hf⟩ => ⟨s, d, hk, h1.fault hf⟩
  | (.panic _, _), h => CleanExt.trans h1 h

theorem extraLoop_fault (o : Orbit ℝ) (dir : Dir) :
    ∀ (n : Nat) (t : Model.Tree ℝ) (lg : Log ℝ), DV o lg t.draw →
      AllOut (DPost o lg) ((extraLoop o dir n t).run lg)
  | 0, t, lg, hdv => by
    rw [extraLoop]
    apply allOut_pureM
    exact ⟨CleanExt.refl o lg, hdv⟩
  | n + 1, t, lg, hdv => by
    rw [extraLoop]
    apply allOut_bindM
    refine AllOut.mono ?_ (extend_fault o t dir false lg hdv)
    rintro ⟨x, lg1⟩ hx
    cases x with
    | ok t' => exact AllOut.mono (fun _ hp => DPost.trans hx.1 hp) (extraLoop_fault o dir n t' lg1 hx.2)
    | turning t' => exact AllOut.mono (fun _ hp => DPost.trans hx.1 hp) (extraLoop_fault o dir n t' lg1 hx.2)
    | diverging t' s d =>
      apply allOut_pureM
      exact ⟨hx.1, hx.2⟩
    | err =>
      apply allOut_pureM
      exact hx
    | panic s =>
      apply allOut_pureM
      exact hx

theorem drawLoop_fault (o : Orbit ℝ) (opt : Options) :
    ∀ (fuel : Nat) (t : Model.Tree ℝ) (lg : Log ℝ), DV o lg t.draw →
      AllOut (DPost o lg) ((drawLoop o opt fuel t).run lg)
  | 0, t, lg, hdv => by
    rw [drawLoop]
    apply allOut_pureM
    exact ⟨CleanExt.refl o lg, hdv⟩
  | fuel + 1, t, lg, hdv => by
    rw [drawLoop]
    split
    · apply allOut_pureM
      exact ⟨CleanExt.refl o lg, hdv⟩
    · apply allOut_bindM
      rw [coin_run]
      generalize hlg0 : ({ evs := lg.evs, merges := lg.merges, rng := none :: lg.rng } : Log ℝ) = lg0
      have hc0 : CleanExt o lg lg0 := by rw [← hlg0]; exact CleanExt.of_eq rfl
      have hdv0 : DV o lg0 t.draw := hdv.mono hc0.sub
      refine ⟨?_, ?_⟩
      all_goals
        dsimp only
        apply allOut_bindM
        refine AllOut.mono ?_ (extend_fault o t _ _ lg0 hdv0)
        rintro ⟨x, lg1⟩ hx
        cases x with
        | ok t' =>
          exact AllOut.mono (fun _ hp => DPost.trans (hc0.trans hx.1) hp)
            (drawLoop_fault o opt fuel t' lg1 hx.2)
        | turning t' =>
          exact AllOut.mono (fun _ hp => DPost.trans (hc0.trans hx.1) hp)
            (extraLoop_fault o _ opt.extraDoublings t' lg1 hx.2)
        | diverging t' s d =>
          apply allOut_pureM
          exact ⟨⟨hx.1.1, hc0.fault hx.1.2⟩, hx.2⟩
        | err =>
          apply allOut_pureM
          obtain ⟨s, d, hk, hf⟩ := hx
          exact ⟨s, d, hk, hc0.fault hf⟩
        | panic s =>
          apply allOut_pureM
          exact hc0.trans hx

/-- `draw` on the empty log, relative form (plus validity of the returned index). -/
theorem draw_fault_rel (o : Orbit ℝ) (opt : Options) :
    AllOut (DPost o {}) ((draw o opt).run {}) := by
  unfold draw
  exact drawLoop_fault o opt opt.maxdepth Tree.init {} (Or.inl rfl)

/-! ## headline: fault propagation through `draw` -/

/-- what every outcome of `draw` (started on the empty log) says about faults -/
def FaultPost (o : Orbit ℝ) : DrawOutcome × Log ℝ → Prop
  | (.ok r, lg) =>
    match r.diverging with
    | none => Clean o lg
    | some (s, d) => o.leap d = .diverge ∧ LastOnly o lg s d
  | (.err, lg) => ∃ s d, o.leap d = .err ∧ LastOnly o lg s d
  | (.panic _, lg) => Clean o lg

theorem clean_of_ext {o : Orbit ℝ} {lg : Log ℝ} (h : CleanExt o {} lg) : Clean o lg := by
  obtain ⟨new, e, k⟩ := h
  intro s d hm
  have hm' : (s, d) ∈ leaps lg := mem_leaps.2 hm
  rw [e] at hm'
  have : (s, d) ∈ new := by simpa [leaps, leapsL] using hm'
  exact k _ this

theorem lastOnly_of_ext {o : Orbit ℝ} {lg : Log ℝ} {s d : Int} (h : FaultExt o {} lg s d) :
    LastOnly o lg s d := by
  obtain ⟨new, e, k⟩ := h
  refine ⟨new, by simpa [leaps, leapsL] using e, k⟩

theorem faultPost_of_dpost {o : Orbit ℝ} : ∀ {p : DrawOutcome × Log ℝ}, DPost o {} p → FaultPost o p
  | (.ok r, lg), h => by
    obtain ⟨h, -⟩ := h
    simp only [FaultPost]
    rcases hdiv : r.diverging with _ | ⟨s, d⟩
    · rw [hdiv] at h; exact clean_of_ext h
    · rw [hdiv] at h; exact ⟨h.1, lastOnly_of_ext h.2⟩
  | (.err, lg), ⟨s, d, hk, hf⟩ => ⟨s, d, hk, lastOnly_of_ext hf⟩
  | (.panic _, lg), h => clean_of_ext h

/-- **Fault propagation.**  For every orbit (faults anywhere), all options and every value of the
    random choices: a draw without reported divergence hit no fault; a reported divergence is the
    most recent leapfrog, it did diverge, and every earlier leapfrog succeeded; an `err` outcome
    stopped at a failing leapfrog, every earlier one succeeded.  (A panic outcome — unreachable
    by `C03.draw_no_panic` — would have a clean log.) -/
theorem draw_fault_spec (o : Orbit ℝ) (opt : Options) :
    AllOut (FaultPost o) ((draw o opt).run {}) :=
  AllOut.mono (fun _ h => faultPost_of_dpost h) (draw_fault_rel o opt)

theorem FaultPost.ok_none {o : Orbit ℝ} {r : DrawResult} {lg : Log ℝ} (h : FaultPost o (.ok r, lg))
    (e : r.diverging = none) : Clean o lg := by
  simp only [FaultPost, e] at h; exact h

theorem FaultPost.ok_some {o : Orbit ℝ} {r : DrawResult} {lg : Log ℝ} {s d : Int}
    (h : FaultPost o (.ok r, lg)) (e : r.diverging = some (s, d)) :
    o.leap d = .diverge ∧ LastOnly o lg s d := by
  simp only [FaultPost, e] at h; exact h

theorem LastOnly.mem {o : Orbit ℝ} {lg : Log ℝ} {s d : Int} (h : LastOnly o lg s d) :
    Ev.leap s d ∈ lg.evs := by
  obtain ⟨rest, e, _⟩ := h
  exact mem_leaps.1 (by rw [e]; exact List.mem_cons_self)

/-- under `LastOnly`, a logged leapfrog that is not `.ok` is the last one -/
theorem LastOnly.eq_of_not_ok {o : Orbit ℝ} {lg : Log ℝ} {s d s' d' : Int} (h : LastOnly o lg s d)
    (hm : Ev.leap s' d' ∈ lg.evs) (hn : o.leap d' ≠ .ok) : s' = s ∧ d' = d := by
  obtain ⟨rest, e, k⟩ := h
  have hm' : (s', d') ∈ leaps lg := mem_leaps.2 hm
  rw [e] at hm'
  rcases List.mem_cons.1 hm' with h1 | h1
  · exact ⟨congrArg Prod.fst h1, congrArg Prod.snd h1⟩
  · exact absurd (k _ h1) hn

theorem FaultPost.tail_ok {o : Orbit ℝ} : ∀ {p : DrawOutcome × Log ℝ}, FaultPost o p →
    ∀ q ∈ (leaps p.2).tail, o.leap q.2 = .ok
  | (.ok r, lg), h => by
    intro q hq
    rcases hdiv : r.diverging with _ | ⟨s, d⟩
    · exact h.ok_none hdiv _ _ (mem_leaps.1 (List.mem_of_mem_tail hq))
    · obtain ⟨-, rest, e, k⟩ := h.ok_some hdiv
      simp only [e, List.tail_cons] at hq
      exact k _ hq
  | (.err, lg), ⟨s, d, _, rest, e, k⟩ => by
    intro q hq
    simp only [e, List.tail_cons] at hq
    exact k _ hq
  | (.panic _, lg), h => fun q hq => h _ _ (mem_leaps.1 (List.mem_of_mem_tail hq))

theorem outcome_post {o : Orbit ℝ} {opt : Options} {out : DrawOutcome} {lg : Log ℝ}
    (h : IsOutcome ((draw o opt).run {}) (out, lg)) : FaultPost o (out, lg) :=
  (allOut_iff _ _).1 (draw_fault_spec o opt) _ h

/-! ### corollaries, per possible outcome `(out, lg)` of `draw` on the empty log -/

/-- 1. No leapfrog is attempted after a fault: every logged leapfrog except the most recent one
    succeeded; hence a logged leapfrog that did not succeed is the most recent one (so there is at
    most one); and in the raw event log no `Ev.leap` occurs after (= in front of) a faulty one. -/
theorem fault_stops_trajectory (o : Orbit ℝ) (opt : Options) (out : DrawOutcome) (lg : Log ℝ)
    (h : IsOutcome ((draw o opt).run {}) (out, lg)) :
    (∀ q ∈ (leaps lg).tail, o.leap q.2 = .ok) ∧
    (∀ s d, Ev.leap s d ∈ lg.evs → o.leap d ≠ .ok → (leaps lg).head? = some (s, d)) ∧
    (∀ pre post s d, lg.evs = pre ++ Ev.leap s d :: post → o.leap d ≠ .ok →
      ∀ s' d', Ev.leap s' d' ∉ pre) := by
  have ht := (outcome_post h).tail_ok
  simp only at ht
  refine ⟨ht, ?_, ?_⟩
  · intro s d hm hn
    have hm' : (s, d) ∈ leaps lg := mem_leaps.2 hm
    cases hl : leaps lg with
    | nil => rw [hl] at hm'; cases hm'
    | cons x xs =>
      rw [hl] at hm' ht
      rcases List.mem_cons.1 hm' with h1 | h1
      · rw [h1]; rfl
      · exact absurd (ht _ h1) hn
  · intro pre post s d he hn s' d' hm
    have hl : leaps lg = leapsL pre ++ (s, d) :: leapsL post := by
      unfold leaps; rw [he, leapsL_append]; rfl
    have hm' : (s', d') ∈ leapsL pre := mem_leapsL.2 hm
    cases hp : leapsL pre with
    | nil => rw [hp] at hm'; cases hm'
    | cons x xs =>
      rw [hl, hp] at ht
      exact hn (ht (s, d) (by simp))

/-- 2. A divergent logged leapfrog is always reported, with its location. -/
theorem divergence_reported (o : Orbit ℝ) (opt : Options) (out : DrawOutcome) (lg : Log ℝ)
    (h : IsOutcome ((draw o opt).run {}) (out, lg)) (s d : Int) (hm : Ev.leap s d ∈ lg.evs)
    (hd : o.leap d = .diverge) : ∃ r, out = .ok r ∧ r.diverging = some (s, d) := by
  have hp := outcome_post h
  have hn : o.leap d ≠ .ok := by rw [hd]; intro h; cases h
  cases out with
  | ok r =>
    refine ⟨r, rfl, ?_⟩
    rcases hdiv : r.diverging with _ | ⟨s', d'⟩
    · exact absurd (hp.ok_none hdiv s d hm) hn
    · obtain ⟨rfl, rfl⟩ := (hp.ok_some hdiv).2.eq_of_not_ok hm hn
      rfl
  | err =>
    obtain ⟨s', d', hk, hl⟩ := hp
    obtain ⟨rfl, rfl⟩ := hl.eq_of_not_ok hm hn
    rw [hd] at hk; cases hk
  | panic site => exact absurd (hp s d hm) hn

/-- 3. A reported divergence is genuine: it is a logged leapfrog that did diverge; and without a
    reported divergence every logged leapfrog succeeded. -/
theorem divergence_genuine (o : Orbit ℝ) (opt : Options) (out : DrawOutcome) (lg : Log ℝ)
    (h : IsOutcome ((draw o opt).run {}) (out, lg)) (r : DrawResult) (hr : out = .ok r) :
    (∀ s d, r.diverging = some (s, d) → Ev.leap s d ∈ lg.evs ∧ o.leap d = .diverge) ∧
    (r.diverging = none → Clean o lg) := by
  subst hr
  have hp := outcome_post h
  exact ⟨fun s d e => ⟨(hp.ok_some e).2.mem, (hp.ok_some e).1⟩, fun e => hp.ok_none e⟩

/-- 4. An unrecoverable logged leapfrog makes the draw fail with `.err`, and `.err` only comes
    from an unrecoverable logged leapfrog. -/
theorem unrecoverable_is_err (o : Orbit ℝ) (opt : Options) (out : DrawOutcome) (lg : Log ℝ)
    (h : IsOutcome ((draw o opt).run {}) (out, lg)) :
    ((∃ s d, Ev.leap s d ∈ lg.evs ∧ o.leap d = .err) → out = .err) ∧
    (out = .err → ∃ s d, Ev.leap s d ∈ lg.evs ∧ o.leap d = .err) := by
  have hp := outcome_post h
  constructor
  · rintro ⟨s, d, hm, hd⟩
    have hn : o.leap d ≠ .ok := by rw [hd]; intro h; cases h
    cases out with
    | ok r =>
      rcases hdiv : r.diverging with _ | ⟨s', d'⟩
      · exact absurd (hp.ok_none hdiv s d hm) hn
      · obtain ⟨hk, hl⟩ := hp.ok_some hdiv
        obtain ⟨rfl, rfl⟩ := hl.eq_of_not_ok hm hn
        rw [hd] at hk; cases hk
    | err => rfl
    | panic site => exact absurd (hp s d hm) hn
  · rintro rfl
    obtain ⟨s, d, hk, hl⟩ := hp
    exact ⟨s, d, hl.mem, hk⟩

/-- 5. On a fault-free orbit nothing is reported. -/
theorem no_fault_no_report (o : Orbit ℝ) (opt : Options) (out : DrawOutcome) (lg : Log ℝ)
    (h : IsOutcome ((draw o opt).run {}) (out, lg)) (hok : ∀ i, o.leap i = .ok) :
    out ≠ .err ∧ ∀ r, out = .ok r → r.diverging = none := by
  have hp := outcome_post h
  constructor
  · rintro rfl
    obtain ⟨s, d, hk, -⟩ := hp
    rw [hok] at hk; cases hk
  · rintro r rfl
    rcases hdiv : r.diverging with _ | ⟨s, d⟩
    · rfl
    · have := (hp.ok_some hdiv).1
      rw [hok] at this; cases this

/-- 6. The returned index is the start or the destination of a logged *successful* leapfrog —
    never the destination of a faulty one.  (No hypothesis on `extraDoublings`.) -/
theorem returned_state_valid (o : Orbit ℝ) (opt : Options) (out : DrawOutcome) (lg : Log ℝ)
    (h : IsOutcome ((draw o opt).run {}) (out, lg)) (r : DrawResult) (hr : out = .ok r) :
    r.draw = 0 ∨ ((∃ s, Ev.leap s r.draw ∈ lg.evs) ∧ o.leap r.draw = .ok) := by
  subst hr
  have hp : DPost o {} (.ok r, lg) := (allOut_iff _ _).1 (draw_fault_rel o opt) _ h
  exact hp.2.imp id fun ⟨⟨s, hs⟩, hk⟩ => ⟨⟨s, mem_leaps.1 hs⟩, hk⟩

/-! ## non-vacuity -/

noncomputable def exOrbit : Orbit ℝ :=
  { energyErr := fun _ => 0
    leap := fun i => if i = 1 then .diverge else if i = -1 then .err else .ok
    crit := fun _ _ => false }

def exOpt : Options := { maxdepth := 2, mindepth := 0, checkTurning := true, extraDoublings := 1 }

example : IsOutcome ((draw exOrbit exOpt).run {})
    (.ok { draw := 0, depth := 0, reachedMaxdepth := false, diverging := some (0, 1) },
     { evs := [.leap 0 1], merges := [], rng := [none] }) :=
  IsOutcome.coin _ true _ (IsOutcome.pure _)

example : IsOutcome ((draw exOrbit exOpt).run {})
    (.err, { evs := [.leap 0 (-1)], merges := [], rng := [none] }) :=
  IsOutcome.coin _ false _ (IsOutcome.pure _)

theorem isOutcome_bind {β γ : Type} (f : β → Rand ℝ γ) {a : β} {b : γ} :
    ∀ {r : Rand ℝ β}, IsOutcome r a → IsOutcome (f a) b → IsOutcome (r.bind f) b
  | _, .pure _, h2 => h2
  | _, .coin k c _ h1, h2 => .coin _ c _ (isOutcome_bind f h1 h2)
  | _, .bern p k c _ h1, h2 => .bern p _ c _ (isOutcome_bind f h1 h2)

theorem isOutcome_bindM {β γ : Type} (x : M ℝ β) (f : β → M ℝ γ) (lg : Log ℝ) {a : β} {lg1 : Log ℝ}
    {b : γ × Log ℝ} (h1 : IsOutcome (x.run lg) (a, lg1)) (h2 : IsOutcome ((f a).run lg1) b) :
    IsOutcome ((x >>= f).run lg) b := by
  show IsOutcome (Rand.bind (x lg) _) b
  exact isOutcome_bind _ h1 h2

/-- `mergeInto` when no assertion fails and the multinomial test needs no random number -/
theorem mergeInto_take (self other : Model.Tree ℝ) (dir : Dir) (lg : Log ℝ)
    (hd : self.depth = other.depth) (hlr : self.left ≤ self.right)
    (hmain : self.isMain = true → mL dir self other ≤ 0 ∧ mR dir self other ≥ 0)
    (hge : other.logSize ≥
      (if self.isMain = true then self.logSize else logaddexp self.logSize other.logSize)) :
    (mergeInto self other dir).run lg =
      Rand.pure (.ok { left := mL dir self other, right := mR dir self other, draw := other.draw,
                       logSize := logaddexp self.logSize other.logSize, depth := self.depth + 1,
                       isMain := self.isMain },
                 { lg with merges := (self.depth + 1, self.isMain, other.draw,
                                       logaddexp self.logSize other.logSize) :: lg.merges }) := by
  unfold mL mR at *
  unfold mergeInto
  cases dir
  all_goals
    simp only [hd, hlr, ne_eq, not_true_eq_false, if_false] at hmain ⊢
    have hpanic : ∀ (a b : ℤ), (self.isMain = true → a ≤ 0 ∧ b ≥ 0) → ¬ (self.isMain = true ∧ ¬ (a ≤ 0 ∧ b ≥ 0)) := by
      rintro a b h ⟨hm, hn⟩; exact hn (h hm)
    rw [if_neg (hpanic _ _ hmain), if_pos hge]
    rfl

noncomputable def exOrbit2 : Orbit ℝ :=
  { energyErr := fun _ => 0
    leap := fun i => if i = 2 then .diverge else .ok
    crit := fun _ _ => false }

def exOpt2 : Options := { maxdepth := 2, mindepth := 0, checkTurning := false, extraDoublings := 0 }

/-- the sub-tree `{1}` and the main tree `[0, 1]` of the run below -/
noncomputable def exT1 : Model.Tree ℝ :=
  { left := 1, right := 1, draw := 1, logSize := -(0 : ℝ), depth := 0, isMain := false }
noncomputable def exM1 : Model.Tree ℝ :=
  { left := 0, right := 1, draw := 1, logSize := logaddexp ((0 : ℕ) : ℝ) (-(0 : ℝ)), depth := 1, isMain := true }

/-- a divergence *after* a successful doubling: both coins forward, leapfrog `0 → 1` succeeds,
    leapfrog `1 → 2` diverges and is reported; the draw is the last valid state. -/
example : IsOutcome ((draw exOrbit2 exOpt2).run {})
    (.ok { draw := 1, depth := 1, reachedMaxdepth := false, diverging := some (1, 2) },
     { evs := [.leap 1 2, .leap 0 1], merges := [(1, true, 1, logaddexp ((0 : ℕ) : ℝ) (-(0 : ℝ)))],
       rng := [none, none] }) := by
  unfold draw
  show IsOutcome ((drawLoop exOrbit2 exOpt2 2 Tree.init).run {}) _
  rw [drawLoop, if_neg (by decide)]
  refine isOutcome_bindM _ _ _ (IsOutcome.coin _ true _ (IsOutcome.pure _)) ?_
  refine isOutcome_bindM _ _ _ (a := Ext.ok exM1)
    (lg1 := { evs := [.leap 0 1], merges := [(1, true, 1, logaddexp ((0 : ℕ) : ℝ) (-(0 : ℝ)))], rng := [none] })
    ?_ ?_
  · -- first doubling
    show IsOutcome ((extend exOrbit2 Tree.init Dir.fwd false).run { rng := [none] }) _
    unfold extend
    refine isOutcome_bindM _ _ _ (a := Except.ok exT1) (lg1 := { evs := [.leap 0 1], rng := [none] })
      (IsOutcome.pure _) ?_
    refine isOutcome_bindM _ _ _ (a := false) (lg1 := { evs := [.leap 0 1], rng := [none] })
      (IsOutcome.pure _) ?_
    refine isOutcome_bindM _ _ _ (a := Except.ok exM1)
      (lg1 := { evs := [.leap 0 1], merges := [(1, true, 1, logaddexp ((0 : ℕ) : ℝ) (-(0 : ℝ)))], rng := [none] })
      ?_ (IsOutcome.pure _)
    rw [mergeInto_take Tree.init exT1 Dir.fwd _ rfl (by decide) (fun _ => ⟨by decide, by decide⟩)
      (by show (-(0 : ℝ)) ≥ ((0 : ℕ) : ℝ); simp)]
    exact IsOutcome.pure _
  · -- second doubling
    show IsOutcome ((drawLoop exOrbit2 exOpt2 1 exM1).run _) _
    rw [drawLoop, if_neg (by decide)]
    refine isOutcome_bindM _ _ _ (IsOutcome.coin _ true _ (IsOutcome.pure _)) ?_
    exact isOutcome_bindM _ _ _ (a := Ext.diverging exM1 1 2) (IsOutcome.pure _) (IsOutcome.pure _)

#print axioms NutsModel.C05.Tree.draw_fault_spec
#print axioms NutsModel.C05.Tree.fault_stops_trajectory
#print axioms NutsModel.C05.Tree.divergence_reported
#print axioms NutsModel.C05.Tree.divergence_genuine
#print axioms NutsModel.C05.Tree.unrecoverable_is_err
#print axioms NutsModel.C05.Tree.no_fault_no_report
#print axioms NutsModel.C05.Tree.returned_state_valid

end NutsModel.C05.Tree
