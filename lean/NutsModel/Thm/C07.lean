/-
C07 — step-size adaptation: theorems over the *generated* definitions
(`NutsModel/Gen/Numeric.lean`, regenerated from /repo on every run) at `α := ℝ`.
-/
import NutsModel.Gen.Numeric
import NutsModel.Model.StepSizeSearch
import NutsModel.Thm.RealInst
import Mathlib.Data.List.Forall2
import Mathlib.Tactic.Linarith
import Mathlib.Tactic.Positivity
import Mathlib.Tactic.FieldSimp
import Mathlib.Tactic.Ring
import Mathlib.Algebra.BigOperators.Intervals
import Mathlib.Algebra.Order.BigOperators.Ring.Finset

namespace NutsModel.C07
open NutsModel NutsModel.Gen

/-! ## Dual averaging -/

/-- closed form of one `DualAverage::advance` (unfolds the translated imperative code). -/
theorem advance_eq (s : DualAverage ℝ) (a t : ℝ) :
    s.advance a t =
      let w := 1 / ((s.count : ℝ) + s.settings.t0)
      let hbar := (1 - w) * s.hbar + w * (t - a)
      let ls := min (s.mu - hbar * Real.sqrt s.count / s.settings.gamma) (Real.log s.settings.max_step_size)
      let mk := (s.count : ℝ) ^ (-s.settings.k)
      { s with hbar := hbar, log_step := ls,
               log_step_adapted := mk * ls + (1 - mk) * s.log_step_adapted,
               count := s.count + 1 } := by
  simp [DualAverage.advance]

/-- Well-formed options / state: what `DualAverage::new` establishes for the documented
    parameter domain (`gamma > 0`, `t0 ≥ 0`, `k ≥ 0`). -/
structure Wf (s : DualAverage ℝ) : Prop where
  gamma_pos : 0 < s.settings.gamma
  t0_nonneg : 0 ≤ s.settings.t0
  k_nonneg : 0 ≤ s.settings.k
  count_pos : 1 ≤ s.count

theorem wf_new (o : DualAverageOptions ℝ) (e : ℝ) (hg : 0 < o.gamma) (ht : 0 ≤ o.t0) (hk : 0 ≤ o.k) :
    Wf (DualAverage.new o e) := by
  constructor <;> simp [DualAverage.new, *]

theorem wf_advance {s : DualAverage ℝ} (h : Wf s) (a t : ℝ) : Wf (s.advance a t) := by
  rw [advance_eq]
  exact ⟨h.gamma_pos, h.t0_nonneg, h.k_nonneg, by simp⟩

theorem w_bounds {s : DualAverage ℝ} (h : Wf s) :
    0 < 1 / ((s.count : ℝ) + s.settings.t0) ∧ 1 / ((s.count : ℝ) + s.settings.t0) ≤ 1 := by
  have hc : (1 : ℝ) ≤ s.count := by exact_mod_cast h.count_pos
  have hpos : 0 < (s.count : ℝ) + s.settings.t0 := by linarith [h.t0_nonneg]
  refine ⟨by positivity, ?_⟩
  rw [div_le_one hpos]; linarith [h.t0_nonneg]

theorem mk_bounds {s : DualAverage ℝ} (h : Wf s) :
    0 < (s.count : ℝ) ^ (-s.settings.k) ∧ (s.count : ℝ) ^ (-s.settings.k) ≤ 1 := by
  have hc : (1 : ℝ) ≤ s.count := by exact_mod_cast h.count_pos
  refine ⟨Real.rpow_pos_of_pos (by linarith) _, ?_⟩
  exact Real.rpow_le_one_of_one_le_of_nonpos hc (by linarith [h.k_nonneg])

/-- `Dom s s'`: the two states have seen histories of the same length under the same
    settings, and `s'` (the one with the pointwise higher acceptance history) has the lower
    `hbar` and the higher iterates. -/
structure Dom (s s' : DualAverage ℝ) : Prop where
  settings : s.settings = s'.settings
  mu : s.mu = s'.mu
  count : s.count = s'.count
  hbar : s'.hbar ≤ s.hbar
  log_step : s.log_step ≤ s'.log_step
  log_step_adapted : s.log_step_adapted ≤ s'.log_step_adapted

theorem dom_refl (s : DualAverage ℝ) : Dom s s := ⟨rfl, rfl, rfl, le_refl _, le_refl _, le_refl _⟩

/-- One-step monotonicity: raising the acceptance statistic (and being ahead before) keeps
    every later quantity ahead. -/
theorem dom_advance {s s' : DualAverage ℝ} (h : Wf s) (d : Dom s s') {a a' : ℝ} (haa : a ≤ a') (t : ℝ) :
    Dom (s.advance a t) (s'.advance a' t) := by
  obtain ⟨hw0, hw1⟩ := w_bounds h
  obtain ⟨hm0, hm1⟩ := mk_bounds h
  have hg := h.gamma_pos
  have hsq : 0 ≤ Real.sqrt s.count := Real.sqrt_nonneg _
  rw [advance_eq, advance_eq]
  rw [← d.settings, ← d.mu, ← d.count]
  have hhbar : (1 - 1 / ((s.count : ℝ) + s.settings.t0)) * s'.hbar + 1 / ((s.count : ℝ) + s.settings.t0) * (t - a')
      ≤ (1 - 1 / ((s.count : ℝ) + s.settings.t0)) * s.hbar + 1 / ((s.count : ℝ) + s.settings.t0) * (t - a) := by
    have h1 : 0 ≤ 1 - 1 / ((s.count : ℝ) + s.settings.t0) := by linarith
    have := mul_le_mul_of_nonneg_left d.hbar h1
    have := mul_le_mul_of_nonneg_left (sub_le_sub_left haa t) hw0.le
    linarith
  have hls : min (s.mu - ((1 - 1 / ((s.count : ℝ) + s.settings.t0)) * s.hbar + 1 / ((s.count : ℝ) + s.settings.t0) * (t - a)) * Real.sqrt s.count / s.settings.gamma) (Real.log s.settings.max_step_size)
      ≤ min (s.mu - ((1 - 1 / ((s.count : ℝ) + s.settings.t0)) * s'.hbar + 1 / ((s.count : ℝ) + s.settings.t0) * (t - a')) * Real.sqrt s.count / s.settings.gamma) (Real.log s.settings.max_step_size) := by
    apply min_le_min_right
    have := div_le_div_of_nonneg_right (mul_le_mul_of_nonneg_right hhbar hsq) hg.le
    linarith
  refine ⟨rfl, rfl, by simp, hhbar, hls, ?_⟩
  have h1 : 0 ≤ 1 - (s.count : ℝ) ^ (-s.settings.k) := by linarith
  have := mul_le_mul_of_nonneg_left hls hm0.le
  have := mul_le_mul_of_nonneg_left d.log_step_adapted h1
  simp only
  linarith

/-- run a whole acceptance history through the translated `advance`. -/
noncomputable def run (s : DualAverage ℝ) (t : ℝ) (hist : List ℝ) : DualAverage ℝ :=
  hist.foldl (fun s a => s.advance a t) s

theorem wf_run {s : DualAverage ℝ} (h : Wf s) (t : ℝ) (hist : List ℝ) : Wf (run s t hist) := by
  induction hist generalizing s with
  | nil => exact h
  | cons a as ih => exact ih (wf_advance h a t)

theorem dom_run {s s' : DualAverage ℝ} (h : Wf s) (d : Dom s s') (t : ℝ) {hist hist' : List ℝ}
    (hh : List.Forall₂ (· ≤ ·) hist hist') : Dom (run s t hist) (run s' t hist') := by
  induction hh generalizing s s' with
  | nil => exact d
  | cons hab _ ih => exact ih (wf_advance h _ t) (dom_advance h d hab t)

/-- **C07 / monotonicity** (property text: "raising any acceptance statistic never lowers any
    later step size"): for *every* pair of acceptance histories of equal length with
    `hist ≤ hist'` pointwise, every option set with `γ > 0, t0 ≥ 0, κ ≥ 0`, every target and
    initial step, and *every prefix length* `n`, both the current and the averaged step size
    after the first `n` updates are at least as large under `hist'`. -/
theorem da_monotone (o : DualAverageOptions ℝ) (e t : ℝ) (hg : 0 < o.gamma) (ht : 0 ≤ o.t0) (hk : 0 ≤ o.k)
    {hist hist' : List ℝ} (hh : List.Forall₂ (· ≤ ·) hist hist') (n : ℕ) :
    (run (DualAverage.new o e) t (hist.take n)).current_step_size
        ≤ (run (DualAverage.new o e) t (hist'.take n)).current_step_size ∧
    (run (DualAverage.new o e) t (hist.take n)).current_step_size_adapted
        ≤ (run (DualAverage.new o e) t (hist'.take n)).current_step_size_adapted := by
  have d := dom_run (wf_new o e hg ht hk) (dom_refl _) t (List.forall₂_take n hh)
  simp only [DualAverage.current_step_size, DualAverage.current_step_size_adapted, transc_exp]
  exact ⟨Real.exp_le_exp.mpr d.log_step, Real.exp_le_exp.mpr d.log_step_adapted⟩

/-! ### boundedness -/

theorem step_pos (s : DualAverage ℝ) : 0 < s.current_step_size ∧ 0 < s.current_step_size_adapted := by
  simp [DualAverage.current_step_size, DualAverage.current_step_size_adapted, Real.exp_pos]

/-- after any update the current step size is at most `max_step_size`. -/
theorem step_le_max {s : DualAverage ℝ} (hmax : 0 < s.settings.max_step_size) (a t : ℝ) :
    (s.advance a t).current_step_size ≤ s.settings.max_step_size := by
  rw [advance_eq]
  simp only [DualAverage.current_step_size, transc_exp]
  calc Real.exp _ ≤ Real.exp (Real.log s.settings.max_step_size) := Real.exp_le_exp.mpr (min_le_right _ _)
    _ = _ := Real.exp_log hmax

/-- the averaged iterate stays below the cap once it is below it, and the very first update
    (`count = 1`, weight `1^{-κ} = 1`) puts it below the cap whatever the initial step was. -/
theorem adapted_le_max {s : DualAverage ℝ} (h : Wf s)
    (hprev : s.count = 1 ∨ s.log_step_adapted ≤ Real.log s.settings.max_step_size) (a t : ℝ) :
    (s.advance a t).log_step_adapted ≤ Real.log s.settings.max_step_size := by
  obtain ⟨hm0, hm1⟩ := mk_bounds h
  rw [advance_eq]
  simp only
  set ls := min (s.mu - ((1 - 1 / ((s.count : ℝ) + s.settings.t0)) * s.hbar + 1 / ((s.count : ℝ) + s.settings.t0) * (t - a)) * Real.sqrt s.count / s.settings.gamma) (Real.log s.settings.max_step_size) with hls
  have h1 : ls ≤ Real.log s.settings.max_step_size := min_le_right _ _
  rcases hprev with hc | hp
  · simp [hc, h1]
  · have := mul_le_mul_of_nonneg_left h1 hm0.le
    have := mul_le_mul_of_nonneg_left hp (by linarith : 0 ≤ 1 - (s.count : ℝ) ^ (-s.settings.k))
    nlinarith

/-- **C07 / boundedness** over whole histories: after any non-empty acceptance history (values
    need not even lie in `[0,1]`), `0 < step ≤ max_step_size` and `0 < step_bar ≤ max_step_size`,
    for any initial step (even one above the cap). -/
theorem da_bounded (o : DualAverageOptions ℝ) (e t : ℝ) (hg : 0 < o.gamma) (ht : 0 ≤ o.t0) (hk : 0 ≤ o.k)
    (hmax : 0 < o.max_step_size) (hist : List ℝ) (hne : hist ≠ []) :
    let s := run (DualAverage.new o e) t hist
    0 < s.current_step_size ∧ s.current_step_size ≤ o.max_step_size ∧
    0 < s.current_step_size_adapted ∧ s.current_step_size_adapted ≤ o.max_step_size := by
  -- invariant: settings unchanged, and after ≥ 1 update both logs are ≤ log max
  have key : ∀ (hist : List ℝ) (s : DualAverage ℝ), Wf s → s.settings = o →
      (s.count = 1 ∨ (s.log_step ≤ Real.log o.max_step_size ∧ s.log_step_adapted ≤ Real.log o.max_step_size)) →
      hist ≠ [] →
      (run s t hist).log_step ≤ Real.log o.max_step_size ∧
      (run s t hist).log_step_adapted ≤ Real.log o.max_step_size := by
    intro hist
    induction hist with
    | nil => intro _ _ _ _ h; exact absurd rfl h
    | cons a as ih =>
      intro s hw hs hinv _
      have hadv_ls : (s.advance a t).log_step ≤ Real.log o.max_step_size := by
        rw [advance_eq]; simp only; rw [hs]; exact min_le_right _ _
      have hadv_ad : (s.advance a t).log_step_adapted ≤ Real.log o.max_step_size := by
        have := adapted_le_max hw (by rcases hinv with h | h; exact Or.inl h; exact Or.inr (hs ▸ h.2)) a t
        rwa [hs] at this
      have hset : (s.advance a t).settings = o := by rw [advance_eq]; exact hs
      by_cases hnil : as = []
      · subst hnil; exact ⟨hadv_ls, hadv_ad⟩
      · exact ih (s.advance a t) (wf_advance hw a t) hset (Or.inr ⟨hadv_ls, hadv_ad⟩) hnil
  have hnew : (DualAverage.new o e).settings = o := by simp [DualAverage.new]
  have hc : (DualAverage.new o e).count = 1 := by simp [DualAverage.new]
  obtain ⟨h1, h2⟩ := key hist _ (wf_new o e hg ht hk) hnew (Or.inl hc) hne
  intro s
  refine ⟨(step_pos s).1, ?_, (step_pos s).2, ?_⟩
  · simp only [DualAverage.current_step_size, transc_exp]
    calc Real.exp _ ≤ Real.exp (Real.log o.max_step_size) := Real.exp_le_exp.mpr h1
      _ = _ := Real.exp_log hmax
  · simp only [DualAverage.current_step_size_adapted, transc_exp]
    calc Real.exp _ ≤ Real.exp (Real.log o.max_step_size) := Real.exp_le_exp.mpr h2
      _ = _ := Real.exp_log hmax

/-! ### the averaged iterate is the documented weighted average -/

/-- generic closed form of `A (n+1) = m (n+1) * x (n+1) + (1 - m (n+1)) * A n`. -/
theorem wavg_closed (m x A : ℕ → ℝ)
    (h : ∀ n, A (n + 1) = m (n + 1) * x (n + 1) + (1 - m (n + 1)) * A n) (n : ℕ) :
    A n = ∑ j ∈ Finset.Icc 1 n, (m j * ∏ i ∈ Finset.Icc (j + 1) n, (1 - m i)) * x j
          + (∏ i ∈ Finset.Icc 1 n, (1 - m i)) * A 0 := by
  induction n with
  | zero => simp
  | succ n ih =>
    rw [h n, Finset.sum_Icc_succ_top (a := 1) (b := n) (by omega), Finset.prod_Icc_succ_top (a := 1) (b := n) (by omega)]
    have hs : ∑ j ∈ Finset.Icc 1 n, (m j * ∏ i ∈ Finset.Icc (j + 1) (n + 1), (1 - m i)) * x j
        = (1 - m (n + 1)) * ∑ j ∈ Finset.Icc 1 n, (m j * ∏ i ∈ Finset.Icc (j + 1) n, (1 - m i)) * x j := by
      rw [Finset.mul_sum]
      apply Finset.sum_congr rfl
      intro j hj
      rw [Finset.mem_Icc] at hj
      rw [Finset.prod_Icc_succ_top (a := j + 1) (b := n) (by omega)]
      ring
    rw [hs]
    have hempty : Finset.Icc (n + 1 + 1) (n + 1) = ∅ := Finset.Icc_eq_empty (by omega)
    rw [hempty, Finset.prod_empty]
    conv_lhs => rw [ih]
    ring

/-- the weight the `j`-th iterate has in the average after `n` updates. -/
noncomputable def avgWeight (κ : ℝ) (n j : ℕ) : ℝ :=
  (j : ℝ) ^ (-κ) * ∏ i ∈ Finset.Icc (j + 1) n, (1 - (i : ℝ) ^ (-κ))

theorem avgWeight_nonneg {κ : ℝ} (hκ : 0 ≤ κ) (n j : ℕ) : 0 ≤ avgWeight κ n j := by
  unfold avgWeight
  apply mul_nonneg (Real.rpow_nonneg (Nat.cast_nonneg _) _)
  apply Finset.prod_nonneg
  intro i hi
  rw [Finset.mem_Icc] at hi
  have : (1 : ℝ) ≤ i := by exact_mod_cast (by omega : 1 ≤ i)
  linarith [Real.rpow_le_one_of_one_le_of_nonpos this (by linarith : -κ ≤ 0)]

theorem avgWeight_sum_one (κ : ℝ) (n : ℕ) (hn : 1 ≤ n) : ∑ j ∈ Finset.Icc 1 n, avgWeight κ n j = 1 := by
  have := wavg_closed (fun i => (i : ℝ) ^ (-κ)) (fun _ => 1) (fun _ => 1) (by intro n; ring) n
  have hz : ∏ i ∈ Finset.Icc 1 n, (1 - (i : ℝ) ^ (-κ)) = 0 := by
    apply Finset.prod_eq_zero (i := 1) (by simp [hn]); simp
  rw [hz] at this
  simp only [mul_one, zero_mul, add_zero] at this
  exact this.symm

theorem run_take_succ (s : DualAverage ℝ) (t : ℝ) (hist : List ℝ) (n : ℕ) (hn : n < hist.length) :
    run s t (hist.take (n + 1)) = (run s t (hist.take n)).advance hist[n] t := by
  unfold run
  rw [List.take_add_one, List.foldl_append]
  simp [List.getElem?_eq_getElem hn]

theorem run_count (s : DualAverage ℝ) (t : ℝ) (hist : List ℝ) : (run s t hist).count = s.count + hist.length := by
  induction hist generalizing s with
  | nil => simp [run]
  | cons a as ih =>
    have : run s t (a :: as) = run (s.advance a t) t as := rfl
    rw [this, ih, advance_eq]; simp; omega

theorem run_settings (s : DualAverage ℝ) (t : ℝ) (hist : List ℝ) : (run s t hist).settings = s.settings := by
  induction hist generalizing s with
  | nil => simp [run]
  | cons a as ih =>
    have : run s t (a :: as) = run (s.advance a t) t as := rfl
    rw [this, ih, advance_eq]

/-- **C07 / averaged step size**: after `n ≥ 1` updates `log(step_size_bar)` is the convex
    combination `Σ_{j=1..n} c_{n,j} · log(step_j)` of the iterates with the documented weights
    `c_{n,j} = j^{-κ} Π_{i=j+1..n} (1 − i^{-κ})` (non-negative for `κ ≥ 0`, summing to one);
    the initial step has weight `Π_{i=1..n}(1 − i^{-κ}) = 0`. -/
theorem da_average_formula (o : DualAverageOptions ℝ) (e t : ℝ) (hist : List ℝ) (n : ℕ)
    (hn1 : 1 ≤ n) (hn : n ≤ hist.length) :
    (run (DualAverage.new o e) t (hist.take n)).log_step_adapted
      = ∑ j ∈ Finset.Icc 1 n, avgWeight o.k n j * (run (DualAverage.new o e) t (hist.take j)).log_step := by
  set s0 := DualAverage.new o e with hs0
  -- pad the sequences beyond the history length with the recurrence itself
  let A : ℕ → ℝ := fun j => (run s0 t (hist.take (min j hist.length))).log_step_adapted
  let x : ℕ → ℝ := fun j => (run s0 t (hist.take (min j hist.length))).log_step
  have hcnt : ∀ j, j ≤ hist.length → (run s0 t (hist.take j)).count = 1 + j := by
    intro j hj; rw [run_count]; simp [hs0, DualAverage.new, List.length_take, hj]
  have hset : ∀ j, (run s0 t (hist.take j)).settings = o := by
    intro j; rw [run_settings]; simp [hs0, DualAverage.new]
  have hrec : ∀ j, j < hist.length →
      (run s0 t (hist.take (j + 1))).log_step_adapted
        = ((j + 1 : ℕ) : ℝ) ^ (-o.k) * (run s0 t (hist.take (j + 1))).log_step
          + (1 - ((j + 1 : ℕ) : ℝ) ^ (-o.k)) * (run s0 t (hist.take j)).log_step_adapted := by
    intro j hj
    rw [run_take_succ _ _ _ _ hj, advance_eq]
    simp only
    rw [hcnt j hj.le, hset j, Nat.add_comm 1 j]
  -- prove the closed form for all n ≤ length by induction (same algebra as `wavg_closed`)
  have key : ∀ n, n ≤ hist.length →
      (run s0 t (hist.take n)).log_step_adapted
        = ∑ j ∈ Finset.Icc 1 n, avgWeight o.k n j * (run s0 t (hist.take j)).log_step
          + (∏ i ∈ Finset.Icc 1 n, (1 - (i : ℝ) ^ (-o.k))) * s0.log_step_adapted := by
    intro n
    induction n with
    | zero => intro _; simp [run]
    | succ n ih =>
      intro hn
      rw [hrec n (by omega), ih (by omega), Finset.sum_Icc_succ_top (a := 1) (b := n) (by omega), Finset.prod_Icc_succ_top (a := 1) (b := n) (by omega)]
      have hs : ∑ j ∈ Finset.Icc 1 n, avgWeight o.k (n + 1) j * (run s0 t (hist.take j)).log_step
          = (1 - ((n + 1 : ℕ) : ℝ) ^ (-o.k)) * ∑ j ∈ Finset.Icc 1 n, avgWeight o.k n j * (run s0 t (hist.take j)).log_step := by
        rw [Finset.mul_sum]
        apply Finset.sum_congr rfl
        intro j hj
        rw [Finset.mem_Icc] at hj
        unfold avgWeight
        rw [Finset.prod_Icc_succ_top (a := j + 1) (b := n) (by omega)]
        ring
      rw [hs]
      have hlast : avgWeight o.k (n + 1) (n + 1) = ((n + 1 : ℕ) : ℝ) ^ (-o.k) := by
        unfold avgWeight
        rw [Finset.Icc_eq_empty (by omega), Finset.prod_empty, mul_one]
      rw [hlast]
      ring
  rw [key n hn]
  have hz : ∏ i ∈ Finset.Icc 1 n, (1 - (i : ℝ) ^ (-o.k)) = 0 := by
    apply Finset.prod_eq_zero (i := 1) (by simp [hn1]); simp
  rw [hz]; ring

/-! ## Adam -/

theorem adam_advance_eq (s : Adam ℝ) (a t : ℝ) :
    s.advance a t =
      let g := a - t
      let m := s.settings.beta1 * s.m + (1 - s.settings.beta1) * g
      let v := s.settings.beta2 * s.v + (1 - s.settings.beta2) * g * g
      { s with t := s.t + 1, m := m, v := v,
               log_step := s.log_step + s.settings.learning_rate * (m / (1 - s.settings.beta1 ^ (s.t + 1)))
                 / (Real.sqrt (v / (1 - s.settings.beta2 ^ (s.t + 1))) + s.settings.epsilon) } := by
  simp [Adam.advance]

/-- exponentially smoothed history, as `Adam::advance` accumulates it in `m`. -/
noncomputable def ema (β : ℝ) (gs : List ℝ) : ℝ := gs.foldl (fun m g => β * m + (1 - β) * g) 0

noncomputable def adamRun (s : Adam ℝ) (t : ℝ) (hist : List ℝ) : Adam ℝ :=
  hist.foldl (fun s a => s.advance a t) s

theorem adamRun_inv (o : AdamOptions ℝ) (e t : ℝ) (hist : List ℝ) :
    (adamRun (Adam.new o e) t hist).settings = o ∧
    (adamRun (Adam.new o e) t hist).t = hist.length ∧
    (adamRun (Adam.new o e) t hist).m = ema o.beta1 (hist.map (· - t)) := by
  induction hist using List.reverseRecOn with
  | nil => simp [adamRun, Adam.new, ema]
  | append_singleton as a ih =>
    obtain ⟨h1, h2, h3⟩ := ih
    unfold adamRun at *
    rw [List.foldl_append, List.foldl_cons, List.foldl_nil, adam_advance_eq]
    simp only [h1, h2, h3, List.length_append, List.length_singleton, List.map_append, List.map_cons,
      List.map_nil, ema, List.foldl_append, List.foldl_cons, List.foldl_nil, and_self]

/-- **C07 / Adam direction**: for every option set with `lr > 0`, `ε > 0`, `0 ≤ β₁ < 1`,
    `0 ≤ β₂ < 1`, every history and target, an update moves `log_step` (hence the step size)
    strictly up exactly when the exponentially smoothed `(accept − target)` — i.e. the first
    moment `m` after the update — is positive, and strictly down exactly when it is negative. -/
theorem adam_direction (o : AdamOptions ℝ) (e t : ℝ) (hist : List ℝ) (a : ℝ)
    (hlr : 0 < o.learning_rate) (heps : 0 < o.epsilon)
    (hb1 : 0 ≤ o.beta1 ∧ o.beta1 < 1) (hb2 : 0 ≤ o.beta2 ∧ o.beta2 < 1) :
    let s := adamRun (Adam.new o e) t hist
    let s' := s.advance a t
    (s.current_step_size < s'.current_step_size ↔ 0 < ema o.beta1 ((hist ++ [a]).map (· - t))) ∧
    (s'.current_step_size < s.current_step_size ↔ ema o.beta1 ((hist ++ [a]).map (· - t)) < 0) := by
  intro s s'
  obtain ⟨h1, h2, h3⟩ := adamRun_inv o e t (hist ++ [a])
  have hs' : s' = adamRun (Adam.new o e) t (hist ++ [a]) := by
    simp [s', s, adamRun, List.foldl_append]
  obtain ⟨g1, g2, g3⟩ := adamRun_inv o e t hist
  have hstep : s'.log_step - s.log_step
      = o.learning_rate * (s'.m / (1 - o.beta1 ^ (hist.length + 1)))
          / (Real.sqrt (s'.v / (1 - o.beta2 ^ (hist.length + 1))) + o.epsilon) := by
    simp only [s', adam_advance_eq]
    rw [show s.settings = o from g1, show s.t = hist.length from g2]
    ring
  have hd1 : 0 < 1 - o.beta1 ^ (hist.length + 1) := by
    have := pow_lt_one₀ hb1.1 hb1.2 (n := hist.length + 1) (by omega); linarith
  have hden : 0 < Real.sqrt (s'.v / (1 - o.beta2 ^ (hist.length + 1))) + o.epsilon := by
    have := Real.sqrt_nonneg (s'.v / (1 - o.beta2 ^ (hist.length + 1))); linarith
  have hm : s'.m = ema o.beta1 ((hist ++ [a]).map (· - t)) := by rw [hs']; exact h3
  have hpos : 0 < o.learning_rate / (1 - o.beta1 ^ (hist.length + 1))
      / (Real.sqrt (s'.v / (1 - o.beta2 ^ (hist.length + 1))) + o.epsilon) := by positivity
  have hrew : s'.log_step - s.log_step = s'.m * (o.learning_rate / (1 - o.beta1 ^ (hist.length + 1))
      / (Real.sqrt (s'.v / (1 - o.beta2 ^ (hist.length + 1))) + o.epsilon)) := by
    rw [hstep]; field_simp
  simp only [Adam.current_step_size, Id.run_pure, transc_exp, Real.exp_lt_exp]
  rw [← hm]
  constructor
  · rw [← sub_pos, hrew]; exact ⟨fun h => (pos_iff_pos_of_mul_pos h).mpr hpos |> fun x => by
        rcases lt_trichotomy s'.m 0 with hneg | hz | hp
        · exact absurd h (by nlinarith [mul_neg_of_neg_of_pos hneg hpos])
        · rw [hz] at h; simp at h
        · exact hp, fun h => mul_pos h hpos⟩
  · rw [← sub_neg, hrew]; exact ⟨fun h => by
        rcases lt_trichotomy s'.m 0 with hneg | hz | hp
        · exact hneg
        · rw [hz] at h; simp at h
        · exact absurd h (by nlinarith [mul_pos hp hpos]), fun h => mul_neg_of_neg_of_pos h hpos⟩

/-- closed form of the smoothed statistic: `ema β gs = (1-β) Σ_i β^(n-1-i) g_i`. -/
theorem ema_append (β : ℝ) (gs : List ℝ) (g : ℝ) : ema β (gs ++ [g]) = β * ema β gs + (1 - β) * g := by
  simp [ema, List.foldl_append]

/-! ## acceptance statistics -/

/-- the two per-leapfrog statistics as the translated collector computes them from the energy
    difference `d = initial_energy − end_energy`. -/
noncomputable def accStat (d : ℝ) : ℝ := Real.exp (min d 0)
noncomputable def accStatSym (d : ℝ) : ℝ := 2 * Real.exp (min d 0) / (1 + Real.exp d)

theorem register_leapfrog_eq (c : AcceptanceRateCollector ℝ) (e : ℝ) (dv : Option Unit) :
    (c.register_leapfrog e dv).mean.sum = c.mean.sum + (if dv.isSome then 0 else accStat (c.initial_energy - e)) ∧
    (c.register_leapfrog e dv).mean_sym.sum = c.mean_sym.sum + (if dv.isSome then 0 else accStatSym (c.initial_energy - e)) ∧
    (c.register_leapfrog e dv).mean.count = c.mean.count + 1 ∧
    (c.register_leapfrog e dv).mean_sym.count = c.mean_sym.count + 1 ∧
    (c.register_leapfrog e dv).initial_energy = c.initial_energy := by
  cases dv with
  | some u =>
    simp [AcceptanceRateCollector.register_leapfrog, RunningMean.add]
  | none =>
    simp only [AcceptanceRateCollector.register_leapfrog, RunningMean.add, accStat, accStatSym]
    split <;> simp

theorem accStat_range (d : ℝ) : 0 < accStat d ∧ accStat d ≤ 1 := by
  unfold accStat
  exact ⟨Real.exp_pos _, by rw [← Real.exp_zero]; exact Real.exp_le_exp.mpr (min_le_right _ _)⟩

theorem accStatSym_range (d : ℝ) : 0 < accStatSym d ∧ accStatSym d ≤ 1 := by
  unfold accStatSym
  have he := Real.exp_pos d
  have hm := Real.exp_pos (min d 0)
  refine ⟨by positivity, ?_⟩
  rw [div_le_one (by linarith)]
  have h1 : Real.exp (min d 0) ≤ 1 := by rw [← Real.exp_zero]; exact Real.exp_le_exp.mpr (min_le_right _ _)
  have h2 : Real.exp (min d 0) ≤ Real.exp d := Real.exp_le_exp.mpr (min_le_left _ _)
  linarith

/-- the symmetric statistic does not depend on the sign of the energy error. -/
theorem accStatSym_symm (d : ℝ) : accStatSym (-d) = accStatSym d := by
  unfold accStatSym
  have he := Real.exp_pos d
  rcases le_total d 0 with h | h
  · rw [min_eq_left h, min_eq_right (by linarith : (0:ℝ) ≤ -d), Real.exp_zero, Real.exp_neg]
    field_simp
    ring
  · rw [min_eq_right h, min_eq_left (by linarith : -d ≤ (0:ℝ)), Real.exp_zero, Real.exp_neg]
    field_simp
    ring

/-- feed a whole trajectory (per leapfrog: end energy, divergence flag) to the collector. -/
noncomputable def collect (c : AcceptanceRateCollector ℝ) (steps : List (ℝ × Option Unit)) :=
  steps.foldl (fun c s => c.register_leapfrog s.1 s.2) c

/-- **C07 / acceptance statistics in range**: for every trajectory (any number of leapfrogs, any
    energies, any placement of divergences) the two mean statistics handed to the step-size
    adaptation lie in `[0,1]`, and they are exactly 0 on an all-divergent trajectory. -/
theorem accept_stat_range (c0 : AcceptanceRateCollector ℝ) (e0 : ℝ) (steps : List (ℝ × Option Unit))
    (hne : steps ≠ []) :
    let c := collect (c0.register_init e0) steps
    0 ≤ c.mean.current ∧ c.mean.current ≤ 1 ∧ 0 ≤ c.mean_sym.current ∧ c.mean_sym.current ≤ 1 := by
  have key : ∀ (steps : List (ℝ × Option Unit)) (c : AcceptanceRateCollector ℝ),
      0 ≤ c.mean.sum → c.mean.sum ≤ c.mean.count → 0 ≤ c.mean_sym.sum → c.mean_sym.sum ≤ c.mean_sym.count →
      0 ≤ (collect c steps).mean.sum ∧ (collect c steps).mean.sum ≤ (collect c steps).mean.count ∧
      0 ≤ (collect c steps).mean_sym.sum ∧ (collect c steps).mean_sym.sum ≤ (collect c steps).mean_sym.count ∧
      (collect c steps).mean.count = c.mean.count + steps.length ∧
      (collect c steps).mean_sym.count = c.mean_sym.count + steps.length := by
    intro steps
    induction steps with
    | nil => intro c h1 h2 h3 h4; simp [collect, *]
    | cons s ss ih =>
      intro c h1 h2 h3 h4
      obtain ⟨r1, r2, r3, r4, _⟩ := register_leapfrog_eq c s.1 s.2
      have a1 := accStat_range (c.initial_energy - s.1)
      have a2 := accStatSym_range (c.initial_energy - s.1)
      have hc : collect c (s :: ss) = collect (c.register_leapfrog s.1 s.2) ss := rfl
      rw [hc]
      have := ih (c.register_leapfrog s.1 s.2)
        (by rw [r1]; split <;> linarith) (by rw [r1, r3]; push_cast; split <;> linarith)
        (by rw [r2]; split <;> linarith) (by rw [r2, r4]; push_cast; split <;> linarith)
      obtain ⟨q1, q2, q3, q4, q5, q6⟩ := this
      refine ⟨q1, q2, q3, q4, ?_, ?_⟩
      · rw [q5, r3]; simp; omega
      · rw [q6, r4]; simp; omega
  intro c
  have hinit : (c0.register_init e0).mean.sum = 0 ∧ (c0.register_init e0).mean.count = 0 ∧
      (c0.register_init e0).mean_sym.sum = 0 ∧ (c0.register_init e0).mean_sym.count = 0 := by
    simp [AcceptanceRateCollector.register_init, RunningMean.reset]
  obtain ⟨i1, i2, i3, i4⟩ := hinit
  obtain ⟨q1, q2, q3, q4, q5, q6⟩ := key steps (c0.register_init e0) (by rw [i1]) (by rw [i1, i2]; simp)
    (by rw [i3]) (by rw [i3, i4]; simp)
  have hlen : 0 < steps.length := List.length_pos_iff.mpr hne
  have hc1 : (0 : ℝ) < c.mean.count := by
    have : c.mean.count = steps.length := by simp only [c]; rw [q5, i2]; simp
    rw [this]; exact_mod_cast hlen
  have hc2 : (0 : ℝ) < c.mean_sym.count := by
    have : c.mean_sym.count = steps.length := by simp only [c]; rw [q6, i4]; simp
    rw [this]; exact_mod_cast hlen
  simp only [RunningMean.current, Id.run_pure]
  exact ⟨div_nonneg q1 hc1.le, (div_le_one hc1).mpr q2, div_nonneg q3 hc2.le, (div_le_one hc2).mpr q4⟩

/-! ## initial step-size search (hand model `Model/StepSizeSearch.lean`) -/

open NutsModel.Model

/-- step size tried in iteration `j` of the loop -/
noncomputable def trial (init : ℝ) (fwd : Bool) (j : ℕ) : ℝ := if fwd then init * 2 ^ j else init / 2 ^ j

theorem searchLoop_spec (acc : Bool → ℝ → Option ℝ) (init target : ℝ) (fwd : Bool) :
    ∀ (fuel j : ℕ),
      let r := searchLoop acc init target fwd fuel (trial init fwd j) j
      r.forward = fwd ∧ j ≤ r.moves ∧
      -- every trial strictly between the entry point and the final one was Ok and on the "keep going" side
      (∀ i, j ≤ i → i < r.moves → ∃ a, acc fwd (trial init fwd i) = some a ∧ (if fwd then target < a else a < target)) ∧
      (r.exit = .bracket → r.step = trial init fwd r.moves ∧ r.reinit = some r.step ∧
          ∃ a, acc fwd r.step = some a ∧ (if fwd then a ≤ target else target ≤ a)) ∧
      (r.exit = .cap → r.step = trial init fwd r.moves ∧ r.reinit = some r.step ∧
          (if fwd then (100000 : ℝ) < r.step else r.step < 1e-10)) ∧
      (r.exit = .trialFailed → r.step = init ∧ r.reinit = none ∧ acc fwd (trial init fwd r.moves) = none) ∧
      (r.exit = .fuel → r.step = init ∧ r.reinit = none ∧ r.moves = j + fuel) ∧
      r.exit ≠ .firstFailed := by
  intro fuel
  induction fuel with
  | zero =>
    intro j; simp [searchLoop]
    intro i h1 h2; omega
  | succ fuel ih =>
    intro j
    simp only [searchLoop]
    cases hacc : acc fwd (trial init fwd j) with
    | none =>
      refine ⟨?_, ?_, ?_, ?_, ?_, ?_, ?_, ?_⟩
      all_goals (try simp [hacc])
      all_goals (intro i h1 h2; omega)
    | some a =>
      cases fwd with
      | true =>
        by_cases h1 : a ≤ target
        · refine ⟨?_, ?_, ?_, ?_, ?_, ?_, ?_, ?_⟩
          all_goals (try simp [hacc, h1])
          all_goals (intro i h1 h2; omega)
        · simp only [Nat.cast_ofNat, gt_iff_lt]
          by_cases h2 : (100000 : ℝ) < trial init true j
          · refine ⟨?_, ?_, ?_, ?_, ?_, ?_, ?_, ?_⟩
            all_goals (try simp [hacc, h1, h2])
            all_goals first | (intro i h1 h2; omega) | (simpa using h2)
          · simp only [h1, h2, if_false, if_true]
            have hnext : trial init true j * (2 : ℝ) = trial init true (j + 1) := by
              simp [trial, pow_succ]; ring
            rw [hnext]
            obtain ⟨q0, q1, q2, q3, q4, q5, q6, q7⟩ := ih (j + 1)
            refine ⟨q0, by omega, ?_, q3, q4, q5, ?_, q7⟩
            · intro i hi1 hi2
              by_cases hij : i = j
              · subst hij; exact ⟨a, hacc, by simpa using lt_of_not_ge h1⟩
              · exact q2 i (by omega) hi2
            · intro h; obtain ⟨x, y, z⟩ := q6 h; exact ⟨x, y, by omega⟩
      | false =>
        by_cases h1 : a ≥ target
        · refine ⟨?_, ?_, ?_, ?_, ?_, ?_, ?_, ?_⟩
          all_goals (try simp [hacc, h1])
          all_goals first | (intro i h1 h2; omega) | exact h1
        · by_cases h2 : trial init false j < (OfScientific.ofScientific 1 true 10 : ℝ)
          · refine ⟨?_, ?_, ?_, ?_, ?_, ?_, ?_, ?_⟩
            all_goals (try simp [hacc, h1, h2])
            all_goals first | (intro i h1 h2; omega) | (norm_num at h2 ⊢; exact h2)
          · simp only [h1, h2, if_false, Bool.false_eq_true]
            have hnext : trial init false j / (((2 : ℕ) : ℝ)) = trial init false (j + 1) := by
              simp [trial, pow_succ]; field_simp
            rw [hnext]
            obtain ⟨q0, q1, q2, q3, q4, q5, q6, q7⟩ := ih (j + 1)
            refine ⟨q0, by omega, ?_, q3, q4, q5, ?_, q7⟩
            · intro i hi1 hi2
              by_cases hij : i = j
              · subst hij; exact ⟨a, hacc, by simpa using lt_of_not_ge h1⟩
              · exact q2 i (by omega) hi2
            · intro h; obtain ⟨x, y, z⟩ := q6 h; exact ⟨x, y, by omega⟩

/-- every exit of the search is one of the five classified ones, and the direction is the one
    chosen by the first (forward) trial. -/
theorem search_exit_classification (acc : Bool → ℝ → Option ℝ) (init target : ℝ) :
    let r := search acc init target
    (r.exit = .firstFailed ↔ acc true init = none) ∧
    (∀ a0, acc true init = some a0 → r.forward = decide (a0 > target)) := by
  simp only [search]
  cases h : acc true init with
  | none => simp
  | some a0 =>
    simp only []
    have hs := searchLoop_spec acc init target (decide (a0 > target)) 100 0
    have h0 : trial init (decide (a0 > target)) 0 = init := by simp [trial]
    rw [h0] at hs
    obtain ⟨q0, _, _, _, _, _, _, q7⟩ := hs
    exact ⟨⟨fun hh => absurd hh q7, fun hh => by simp at hh⟩, fun a ha => by simp at ha; subst ha; exact q0⟩

/-- **C07 / search brackets the target (doubling)**: if the search went forward and stopped by its
    bracket branch after `m` doublings, the final step `ε = initial·2^m` has one-step acceptance
    `≤ target` while every smaller trial `initial·2^i, i < m` (in particular `ε/2`) had acceptance
    `> target`. -/
theorem search_brackets_forward (acc : Bool → ℝ → Option ℝ) (init target a0 : ℝ)
    (h0 : acc true init = some a0) (hdir : a0 > target)
    (hb : (search acc init target).exit = .bracket) :
    let r := search acc init target
    r.step = init * 2 ^ r.moves ∧
    (∃ a, acc true r.step = some a ∧ a ≤ target) ∧
    (∀ i, i < r.moves → ∃ a, acc true (init * 2 ^ i) = some a ∧ target < a) := by
  simp only [search, h0] at hb ⊢
  have hd : decide (a0 > target) = true := by simpa using hdir
  rw [hd] at hb ⊢
  have hs := searchLoop_spec acc init target true 100 0
  have ht0 : trial init true 0 = init := by simp [trial]
  rw [ht0] at hs
  obtain ⟨_, _, q2, q3, _⟩ := hs
  obtain ⟨s1, _, a, ha1, ha2⟩ := q3 hb
  refine ⟨by simpa [trial] using s1, ⟨a, ha1, by simpa using ha2⟩, ?_⟩
  intro i hi
  obtain ⟨a, h1, h2⟩ := q2 i (Nat.zero_le _) hi
  exact ⟨a, by simpa [trial] using h1, by simpa using h2⟩

/-- **C07 / search brackets the target (halving)**. -/
theorem search_brackets_backward (acc : Bool → ℝ → Option ℝ) (init target a0 : ℝ)
    (h0 : acc true init = some a0) (hdir : ¬ a0 > target)
    (hb : (search acc init target).exit = .bracket) :
    let r := search acc init target
    r.step = init / 2 ^ r.moves ∧
    (∃ a, acc false r.step = some a ∧ target ≤ a) ∧
    (∀ i, i < r.moves → ∃ a, acc false (init / 2 ^ i) = some a ∧ a < target) := by
  simp only [search, h0] at hb ⊢
  have hd : decide (a0 > target) = false := by simpa using hdir
  rw [hd] at hb ⊢
  have hs := searchLoop_spec acc init target false 100 0
  have ht0 : trial init false 0 = init := by simp [trial]
  rw [ht0] at hs
  obtain ⟨_, _, q2, q3, _⟩ := hs
  obtain ⟨s1, _, a, ha1, ha2⟩ := q3 hb
  refine ⟨by simpa [trial] using s1, ⟨a, ha1, by simpa using ha2⟩, ?_⟩
  intro i hi
  obtain ⟨a, h1, h2⟩ := q2 i (Nat.zero_le _) hi
  exact ⟨a, by simpa [trial] using h1, by simpa using h2⟩

/-- whenever the search does not end by bracket or cap, the step size left behind is the
    configured `initial_step` and the adaptation state is untouched. -/
theorem search_step_is_initial_unless_found (acc : Bool → ℝ → Option ℝ) (init target : ℝ) :
    let r := search acc init target
    (r.exit ≠ .bracket ∧ r.exit ≠ .cap) → r.step = init ∧ r.reinit = none := by
  simp only [search]
  cases h : acc true init with
  | none => simp
  | some a0 =>
    simp only []
    have hs := searchLoop_spec acc init target (decide (a0 > target)) 100 0
    have h0 : trial init (decide (a0 > target)) 0 = init := by simp [trial]
    rw [h0] at hs
    obtain ⟨_, _, _, _, _, q5, q6, q7⟩ := hs
    intro ⟨hb, hc⟩
    generalize searchLoop acc init target (decide (a0 > target)) 100 init 0 = r at *
    cases hx : r.exit with
    | firstFailed => exact absurd hx q7
    | trialFailed => exact ⟨(q5 hx).1, (q5 hx).2.1⟩
    | bracket => exact absurd hx hb
    | cap => exact absurd hx hc
    | fuel => exact ⟨(q6 hx).1, (q6 hx).2.1⟩

end NutsModel.C07
