/-
C02 — the whitened-space leapfrog (`Model/Leapfrog.lean`) over ℝ:
reversibility (both kinetic kinds), equivalence of the whitened Euclidean step with the textbook
leapfrog for `H = -logp(x) + ½ pᵀ M⁻¹ p`, `M⁻¹ = diag σ²`, bijectivity of the diagonal and low-rank
transformations, the gradient pull-back (adjoint) property, exact conservation laws on Gaussian
targets, the shear decomposition (volume preservation) and the log-determinant.

Everything is for arbitrary dimension `n`, arbitrary step size `eps : ℝ` of either sign and an
arbitrary gradient field `gradX` unless stated otherwise.
-/
import NutsModel.Model.Leapfrog
import NutsModel.Thm.RealInst
import Mathlib.Tactic.Ring
import Mathlib.Tactic.Linarith
import Mathlib.Tactic.FieldSimp
import Mathlib.Tactic.Positivity
import Mathlib.Algebra.BigOperators.Fin
import Mathlib.Algebra.BigOperators.Ring.Finset
import Mathlib.Analysis.SpecialFunctions.Trigonometric.Basic
import Mathlib.Analysis.SpecialFunctions.Log.Basic
import Mathlib.Data.Fin.VecNotation
import Mathlib.Tactic.FinCases

namespace NutsModel.C02
open NutsModel NutsModel.Model

variable {n : ℕ}

theorem vsum_eq_sum {n : ℕ} (f : Fin n → ℝ) : vsum f = ∑ i, f i := by
  unfold vsum
  induction n with
  | zero => simp
  | succ m ih =>
    rw [Fin.foldl_succ_last, Fin.sum_univ_castSucc]
    have := ih (fun i => f i.castSucc)
    rw [this]

theorem dot_eq_sum {n : ℕ} (a b : Vec ℝ n) : dot a b = ∑ i, a i * b i := by
  unfold dot; exact vsum_eq_sum _

theorem PhasePt.ext' {p q : PhasePt ℝ n} (hy : p.y = q.y) (hv : p.v = q.v) (hgy : p.gy = q.gy) : p = q := by
  cases p; cases q; simp_all

theorem diag_bijection (t : DiagT ℝ n) (h0 : ∀ i, t.stds i ≠ 0)
    (hinv : ∀ i, t.invStds i = 1 / t.stds i) (x y : Vec ℝ n) :
    t.transform.toX (t.transform.toY x) = x ∧ t.transform.toY (t.transform.toX y) = y := by
  constructor
  · funext i
    simp only [DiagT.transform, hinv]
    have := h0 i
    field_simp
    ring
  · funext i
    simp only [DiagT.transform, hinv]
    have := h0 i
    field_simp
    ring


/-! ### field characterisations of one step -/

theorem leapfrog_gy (T : Transform ℝ n) (gradX : Vec ℝ n → Vec ℝ n) (k : Kinetic) (eps : ℝ)
    (p : PhasePt ℝ n) :
    (leapfrog T gradX k eps p).gy = T.gradY (gradX (T.toX (leapfrog T gradX k eps p).y)) := by
  cases k <;> rfl

theorem leapfrog_gy_consistent (T : Transform ℝ n) (gradX : Vec ℝ n → Vec ℝ n) (k : Kinetic)
    (eps : ℝ) (p : PhasePt ℝ n) :
    (leapfrog T gradX k eps p).gy = T.gradY (gradX (T.toX (leapfrog T gradX k eps p).y)) :=
  leapfrog_gy T gradX k eps p

theorem leapfrog_y_euc (T : Transform ℝ n) (gradX : Vec ℝ n → Vec ℝ n) (eps : ℝ) (p : PhasePt ℝ n) :
    (leapfrog T gradX .euclidean eps p).y = fun i => p.y i + eps * (p.v i + eps / 2 * p.gy i) := by
  funext i
  simp only [leapfrog, velHalf, posStep, Nat.cast_ofNat]
  ring

theorem leapfrog_v_euc (T : Transform ℝ n) (gradX : Vec ℝ n → Vec ℝ n) (eps : ℝ) (p : PhasePt ℝ n) :
    (leapfrog T gradX .euclidean eps p).v =
      fun i => p.v i + eps / 2 * p.gy i + eps / 2 * (leapfrog T gradX .euclidean eps p).gy i := by
  funext i
  simp only [leapfrog, velHalf, posStep, Nat.cast_ofNat]
  ring

theorem leapfrog_y_exn (T : Transform ℝ n) (gradX : Vec ℝ n → Vec ℝ n) (eps : ℝ) (p : PhasePt ℝ n) :
    (leapfrog T gradX .exactNormal eps p).y =
      fun i => p.y i * Real.cos eps + (p.v i + eps / 2 * (p.y i + p.gy i)) * Real.sin eps := by
  funext i
  simp only [leapfrog, velHalf, posStep, Nat.cast_ofNat, transc_sin, transc_cos]
  ring

theorem leapfrog_v_exn (T : Transform ℝ n) (gradX : Vec ℝ n → Vec ℝ n) (eps : ℝ) (p : PhasePt ℝ n) :
    (leapfrog T gradX .exactNormal eps p).v =
      fun i => -(p.y i * Real.sin eps) + (p.v i + eps / 2 * (p.y i + p.gy i)) * Real.cos eps
        + eps / 2 * ((leapfrog T gradX .exactNormal eps p).y i
                      + (leapfrog T gradX .exactNormal eps p).gy i) := by
  funext i
  simp only [leapfrog, velHalf, posStep, Nat.cast_ofNat, transc_sin, transc_cos]
  ring

/-! ### 3. reversibility -/

theorem leapfrog_reversible (T : Transform ℝ n) (gradX : Vec ℝ n → Vec ℝ n) (k : Kinetic) (eps : ℝ)
    (p : PhasePt ℝ n) (hg : p.gy = T.gradY (gradX (T.toX p.y))) :
    leapfrog T gradX k (-eps) (leapfrog T gradX k eps p) = p := by
  cases k with
  | euclidean =>
    have hy : (leapfrog T gradX .euclidean (-eps) (leapfrog T gradX .euclidean eps p)).y = p.y := by
      rw [leapfrog_y_euc, leapfrog_v_euc, leapfrog_y_euc]
      funext i; ring
    have hgy : (leapfrog T gradX .euclidean (-eps) (leapfrog T gradX .euclidean eps p)).gy = p.gy := by
      rw [leapfrog_gy, hy, ← hg]
    refine PhasePt.ext' hy ?_ hgy
    rw [leapfrog_v_euc, hgy, leapfrog_v_euc]
    funext i; ring
  | exactNormal =>
    have hsc : Real.sin eps ^ 2 + Real.cos eps ^ 2 = 1 := Real.sin_sq_add_cos_sq eps
    have hy : (leapfrog T gradX .exactNormal (-eps) (leapfrog T gradX .exactNormal eps p)).y = p.y := by
      rw [leapfrog_y_exn, leapfrog_v_exn, leapfrog_y_exn, Real.sin_neg, Real.cos_neg]
      funext i
      linear_combination (p.y i) * hsc
    have hgy : (leapfrog T gradX .exactNormal (-eps) (leapfrog T gradX .exactNormal eps p)).gy = p.gy := by
      rw [leapfrog_gy, hy, ← hg]
    refine PhasePt.ext' hy ?_ hgy
    rw [leapfrog_v_exn, hgy, hy, leapfrog_v_exn, leapfrog_y_exn, Real.sin_neg, Real.cos_neg]
    funext i
    linear_combination (p.v i + eps / 2 * (p.y i + p.gy i)) * hsc


/-- reversibility chains along an orbit: `m` steps forward then `m` steps backward -/
theorem leapfrog_reversible_iterate (T : Transform ℝ n) (gradX : Vec ℝ n → Vec ℝ n) (k : Kinetic)
    (eps : ℝ) (p : PhasePt ℝ n) (hg : p.gy = T.gradY (gradX (T.toX p.y))) (m : ℕ) :
    (leapfrog T gradX k (-eps))^[m] ((leapfrog T gradX k eps)^[m] p) = p := by
  induction m with
  | zero => rfl
  | succ m ih =>
    have hc : ((leapfrog T gradX k eps)^[m] p).gy
        = T.gradY (gradX (T.toX ((leapfrog T gradX k eps)^[m] p).y)) := by
      cases m with
      | zero => exact hg
      | succ j => rw [Function.iterate_succ_apply']; exact leapfrog_gy _ _ _ _ _
    rw [Function.iterate_succ_apply' (leapfrog T gradX k eps),
      Function.iterate_succ_apply (leapfrog T gradX k (-eps)),
      leapfrog_reversible T gradX k eps _ hc, ih]

/-! ### 4. the whitened Euclidean step is the textbook leapfrog with `M⁻¹ = diag σ²` -/

theorem leapfrog_is_textbook_diag (t : DiagT ℝ n) (h0 : ∀ i, t.stds i ≠ 0)
    (gradX : Vec ℝ n → Vec ℝ n) (eps : ℝ) (p : PhasePt ℝ n)
    (hg : p.gy = t.transform.gradY (gradX (t.transform.toX p.y))) :
    let x : Vec ℝ n := t.transform.toX p.y
    let mom : Vec ℝ n := fun i => p.v i / t.stds i
    let momHalf : Vec ℝ n := fun i => mom i + eps / 2 * gradX x i
    let x' : Vec ℝ n := fun i => x i + eps * (t.stds i) ^ 2 * momHalf i
    let q := leapfrog t.transform gradX .euclidean eps p
    t.transform.toX q.y = x' ∧ ∀ i, q.v i / t.stds i = momHalf i + eps / 2 * gradX x' i := by
  intro x mom momHalf x' q
  have hx : t.transform.toX q.y = x' := by
    funext i
    have hgi : p.gy i = gradX x i * t.stds i := by rw [hg]; rfl
    have hqy : q.y i = p.y i + eps * (p.v i + eps / 2 * p.gy i) := by
      simp only [q, leapfrog_y_euc]
    have hxi : x i = t.mean i + p.y i * t.stds i := rfl
    show t.mean i + q.y i * t.stds i = x i + eps * (t.stds i) ^ 2 * (p.v i / t.stds i + eps / 2 * gradX x i)
    rw [hqy, hgi, hxi]
    have := h0 i
    field_simp
    ring
  refine ⟨hx, fun i => ?_⟩
  have hgi : p.gy i = gradX x i * t.stds i := by rw [hg]; rfl
  have hqg : q.gy i = gradX x' i * t.stds i := by
    simp only [q, leapfrog_gy]
    rw [show t.transform.toX (leapfrog t.transform gradX .euclidean eps p).y = x' from hx]
    rfl
  have hqv : q.v i = p.v i + eps / 2 * p.gy i + eps / 2 * q.gy i := by
    simp only [q]; rw [leapfrog_v_euc]
  show q.v i / t.stds i = p.v i / t.stds i + eps / 2 * gradX x i + eps / 2 * gradX x' i
  rw [hqv, hqg, hgi]
  have := h0 i
  field_simp


/-! ### 5. the low-rank transformation -/

theorem applyLowRank_apply {k : ℕ} (U : Fin k → Vec ℝ n) (d : Fin k → ℝ) (x : Vec ℝ n) (i : Fin n) :
    applyLowRank U d x i = x i + ∑ c, U c i * ((d c - 1) * ∑ j, U c j * x j) := by
  simp only [applyLowRank, vsum_eq_sum, dot_eq_sum, Nat.cast_one]

theorem sum_mul_add_lowrank {k : ℕ} (U : Fin k → Vec ℝ n)
    (hU : ∀ a b, dot (U a) (U b) = if a = b then 1 else 0) (x : Vec ℝ n) (w : Fin k → ℝ)
    (a : Fin k) :
    ∑ i, U a i * (x i + ∑ c, U c i * w c) = (∑ i, U a i * x i) + w a := by
  have hU' : ∀ a b, ∑ j, U a j * U b j = if a = b then 1 else 0 := fun a b => by
    rw [← dot_eq_sum]; exact hU a b
  have h1 : ∀ i, U a i * (x i + ∑ c, U c i * w c) = U a i * x i + ∑ c, U a i * U c i * w c := by
    intro i; rw [mul_add, Finset.mul_sum]
    congr 1
    exact Finset.sum_congr rfl (fun c _ => by ring)
  rw [Finset.sum_congr rfl (fun i _ => h1 i), Finset.sum_add_distrib, Finset.sum_comm]
  congr 1
  have h2 : ∀ c, ∑ i, U a i * U c i * w c = if a = c then w c else 0 := by
    intro c
    rw [← Finset.sum_mul, hU' a c]
    split <;> simp
  rw [Finset.sum_congr rfl (fun c _ => h2 c)]
  simp

/-- `Uᵀ (A_d x) = d ⊙ (Uᵀ x)` for orthonormal columns -/
theorem dot_applyLowRank {k : ℕ} (U : Fin k → Vec ℝ n) (d : Fin k → ℝ)
    (hU : ∀ a b, dot (U a) (U b) = if a = b then 1 else 0) (x : Vec ℝ n) (a : Fin k) :
    dot (U a) (applyLowRank U d x) = d a * dot (U a) x := by
  have h : ∀ i, applyLowRank U d x i = x i + ∑ c, U c i * ((d c - 1) * dot (U c) x) := by
    intro i; simp only [applyLowRank, vsum_eq_sum, Nat.cast_one]
  rw [dot_eq_sum]
  simp only [h]
  rw [sum_mul_add_lowrank U hU x _ a, ← dot_eq_sum]
  ring

theorem lowrank_apply_inverse_gen {k : ℕ} (U : Fin k → Vec ℝ n) (d e : Fin k → ℝ)
    (hU : ∀ a b, dot (U a) (U b) = if a = b then 1 else 0) (hde : ∀ c, e c * d c = 1)
    (x : Vec ℝ n) : applyLowRank U e (applyLowRank U d x) = x := by
  funext i
  have h1 : applyLowRank U e (applyLowRank U d x) i
      = applyLowRank U d x i
        + ∑ c, U c i * ((e c - 1) * dot (U c) (applyLowRank U d x)) := by
    simp only [applyLowRank, vsum_eq_sum, Nat.cast_one]
  have h2 : applyLowRank U d x i = x i + ∑ c, U c i * ((d c - 1) * dot (U c) x) := by
    simp only [applyLowRank, vsum_eq_sum, Nat.cast_one]
  rw [h1, h2, add_assoc, ← Finset.sum_add_distrib]
  have : ∀ c ∈ Finset.univ, U c i * ((d c - 1) * dot (U c) x)
      + U c i * ((e c - 1) * dot (U c) (applyLowRank U d x)) = 0 := by
    intro c _
    rw [dot_applyLowRank U d hU x c]
    linear_combination (U c i * dot (U c) x) * hde c
  rw [Finset.sum_eq_zero this, add_zero]

theorem lowrank_apply_inverse {k : ℕ} (U : Fin k → Vec ℝ n) (d : Fin k → ℝ)
    (hU : ∀ a b, dot (U a) (U b) = if a = b then 1 else 0) (hd : ∀ c, d c ≠ 0) (x : Vec ℝ n) :
    applyLowRank U (fun c => 1 / d c) (applyLowRank U d x) = x :=
  lowrank_apply_inverse_gen U d _ hU (fun c => by have := hd c; field_simp) x

theorem lowrank_bijection {k : ℕ} (t : LowRankT ℝ n k)
    (hU : ∀ a b, dot (t.U a) (t.U b) = if a = b then 1 else 0)
    (hd : ∀ c, t.valsSqrt c ≠ 0) (hdinv : ∀ c, t.valsSqrtInv c = 1 / t.valsSqrt c)
    (h0 : ∀ i, t.diag.stds i ≠ 0) (hinv : ∀ i, t.diag.invStds i = 1 / t.diag.stds i)
    (x y : Vec ℝ n) :
    t.transform.toX (t.transform.toY x) = x ∧ t.transform.toY (t.transform.toX y) = y := by
  have hA : ∀ z, applyLowRank t.U t.valsSqrt (applyLowRank t.U t.valsSqrtInv z) = z :=
    lowrank_apply_inverse_gen t.U t.valsSqrtInv t.valsSqrt hU
      (fun c => by rw [hdinv]; have := hd c; field_simp)
  have hB : ∀ z, applyLowRank t.U t.valsSqrtInv (applyLowRank t.U t.valsSqrt z) = z :=
    lowrank_apply_inverse_gen t.U t.valsSqrt t.valsSqrtInv hU
      (fun c => by rw [hdinv]; have := hd c; field_simp)
  constructor
  · funext i
    simp only [LowRankT.transform, hA, hinv]
    have := h0 i
    field_simp
    ring
  · simp only [LowRankT.transform]
    conv_rhs => rw [← hB y]
    congr 1
    funext i
    rw [hinv]
    have := h0 i
    field_simp
    ring


/-! ### 6. `gradY` is the adjoint of the linear part of `toX` -/

theorem gradient_pullback_diag (t : DiagT ℝ n) (g y w : Vec ℝ n) :
    dot (t.transform.gradY g) w
      = dot g (fun i => t.transform.toX (fun j => y j + w j) i - t.transform.toX y i) := by
  simp only [dot_eq_sum, DiagT.transform]
  exact Finset.sum_congr rfl (fun i _ => by ring)

/-- `applyLowRank U d` is additive … -/
theorem applyLowRank_add_sub {k : ℕ} (U : Fin k → Vec ℝ n) (d : Fin k → ℝ) (y w : Vec ℝ n)
    (i : Fin n) :
    applyLowRank U d (fun j => y j + w j) i - applyLowRank U d y i
      = w i + ∑ c, U c i * ((d c - 1) * dot (U c) w) := by
  have hdot : ∀ c, dot (U c) (fun j => y j + w j) = dot (U c) y + dot (U c) w := by
    intro c; simp only [dot_eq_sum, mul_add, Finset.sum_add_distrib]
  simp only [applyLowRank, vsum_eq_sum, Nat.cast_one, hdot, mul_add, Finset.sum_add_distrib]
  ring

/-- … and symmetric, for ANY `U` -/
theorem applyLowRank_symm {k : ℕ} (U : Fin k → Vec ℝ n) (d : Fin k → ℝ) (a w : Vec ℝ n) :
    dot (applyLowRank U d a) w = dot a (fun i => w i + ∑ c, U c i * ((d c - 1) * dot (U c) w)) := by
  have h : ∀ i, applyLowRank U d a i = a i + ∑ c, U c i * ((d c - 1) * dot (U c) a) := by
    intro i; simp only [applyLowRank, vsum_eq_sum, Nat.cast_one]
  rw [dot_eq_sum, dot_eq_sum]
  simp only [h, add_mul, mul_add, Finset.sum_add_distrib]
  congr 1
  simp only [Finset.sum_mul, Finset.mul_sum]
  rw [Finset.sum_comm]
  conv_rhs => rw [Finset.sum_comm]
  refine Finset.sum_congr rfl (fun c _ => ?_)
  have e1 : ∀ i, U c i * ((d c - 1) * dot (U c) a) * w i
      = ((d c - 1) * dot (U c) a) * (U c i * w i) := fun i => by ring
  have e2 : ∀ i, a i * (U c i * ((d c - 1) * dot (U c) w))
      = ((d c - 1) * dot (U c) w) * (U c i * a i) := fun i => by ring
  simp only [e1, e2, ← Finset.mul_sum, ← dot_eq_sum]
  ring

theorem gradient_pullback_lowrank {k : ℕ} (t : LowRankT ℝ n k) (g y w : Vec ℝ n) :
    dot (t.transform.gradY g) w
      = dot g (fun i => t.transform.toX (fun j => y j + w j) i - t.transform.toX y i) := by
  have hlin : ∀ i, t.transform.toX (fun j => y j + w j) i - t.transform.toX y i
      = (w i + ∑ c, t.U c i * ((t.valsSqrt c - 1) * dot (t.U c) w)) * t.diag.stds i := by
    intro i
    rw [← applyLowRank_add_sub t.U t.valsSqrt y w i]
    simp only [LowRankT.transform]
    ring
  simp only [hlin]
  show dot (applyLowRank t.U t.valsSqrt (fun i => g i * t.diag.stds i)) w = _
  rw [applyLowRank_symm, dot_eq_sum, dot_eq_sum]
  exact Finset.sum_congr rfl (fun i _ => by ring)

/-! ### 7. the geodesic ("exact normal") integrator conserves `‖v‖² + ‖y‖²` on a standard normal -/

theorem exactnormal_conserves (T : Transform ℝ n) (gradX : Vec ℝ n → Vec ℝ n) (eps : ℝ)
    (p : PhasePt ℝ n)
    (hT : ∀ y, T.gradY (gradX (T.toX y)) = fun i => -(y i))
    (hg : p.gy = fun i => -(p.y i)) :
    let q := leapfrog T gradX .exactNormal eps p
    dot q.v q.v + dot q.y q.y = dot p.v p.v + dot p.y p.y := by
  intro q
  have hsc : Real.sin eps ^ 2 + Real.cos eps ^ 2 = 1 := Real.sin_sq_add_cos_sq eps
  have hqy : ∀ i, q.y i = p.y i * Real.cos eps + p.v i * Real.sin eps := by
    intro i
    simp only [q, leapfrog_y_exn, hg]
    ring
  have hqg : ∀ i, q.gy i = -(q.y i) := by
    intro i
    simp only [q]
    rw [leapfrog_gy, hT]
  have hqv : ∀ i, q.v i = -(p.y i * Real.sin eps) + p.v i * Real.cos eps := by
    intro i
    have := congrFun (leapfrog_v_exn T gradX eps p) i
    simp only [q]
    rw [this]
    have h2 := hqg i
    simp only [q] at h2
    rw [h2, hg]
    ring
  simp only [dot_eq_sum, ← Finset.sum_add_distrib]
  refine Finset.sum_congr rfl (fun i _ => ?_)
  rw [hqy, hqv]
  linear_combination (p.y i ^ 2 + p.v i ^ 2) * hsc

/-! ### 8. the exactly conserved shadow energy of the Euclidean step on a Gaussian -/

theorem modified_energy_conserved (T : Transform ℝ n) (gradX : Vec ℝ n → Vec ℝ n) (eps : ℝ)
    (ω : Vec ℝ n) (p : PhasePt ℝ n)
    (hT : ∀ y, T.gradY (gradX (T.toX y)) = fun i => -(ω i) ^ 2 * y i)
    (hg : p.gy = fun i => -(ω i) ^ 2 * p.y i) (i : Fin n) :
    let q := leapfrog T gradX .euclidean eps p
    (q.v i) ^ 2 + (ω i) ^ 2 * (q.y i) ^ 2 * (1 - eps ^ 2 * (ω i) ^ 2 / 4)
      = (p.v i) ^ 2 + (ω i) ^ 2 * (p.y i) ^ 2 * (1 - eps ^ 2 * (ω i) ^ 2 / 4) := by
  intro q
  have hqy : q.y i = p.y i + eps * (p.v i + eps / 2 * (-(ω i) ^ 2 * p.y i)) := by
    simp only [q, leapfrog_y_euc, hg]
  have hqg : q.gy i = -(ω i) ^ 2 * q.y i := by
    simp only [q]
    rw [leapfrog_gy, hT]
  have hqv : q.v i = p.v i + eps / 2 * (-(ω i) ^ 2 * p.y i) + eps / 2 * q.gy i := by
    have := congrFun (leapfrog_v_euc T gradX eps p) i
    simp only [q]
    rw [this, hg]
  rw [hqv, hqg, hqy]
  ring

/-! ### 9. the Euclidean step as a composition of three shears -/

def shearV (f : Vec ℝ n → Vec ℝ n) : (Vec ℝ n × Vec ℝ n) → (Vec ℝ n × Vec ℝ n) :=
  fun z => (z.1, fun i => z.2 i + f z.1 i)

def shearQ (eps : ℝ) : (Vec ℝ n × Vec ℝ n) → (Vec ℝ n × Vec ℝ n) :=
  fun z => (fun i => z.1 i + eps * z.2 i, z.2)

theorem leapfrog_shear_decomposition (T : Transform ℝ n) (gradX : Vec ℝ n → Vec ℝ n) (eps : ℝ)
    (p : PhasePt ℝ n) (hg : p.gy = T.gradY (gradX (T.toX p.y))) :
    let G : Vec ℝ n → Vec ℝ n := fun y => T.gradY (gradX (T.toX y))
    let q := leapfrog T gradX .euclidean eps p
    (q.y, q.v) = (shearV (fun y i => eps / 2 * G y i) ∘ shearQ eps ∘ shearV (fun y i => eps / 2 * G y i))
      (p.y, p.v) := by
  intro G q
  have hy : q.y = fun i => p.y i + eps * (p.v i + eps / 2 * G p.y i) := by
    simp only [q, leapfrog_y_euc, hg, G]
  have hv : q.v = fun i => p.v i + eps / 2 * G p.y i + eps / 2 * G q.y i := by
    simp only [q]
    rw [leapfrog_v_euc, leapfrog_gy, hg]
  simp only [Function.comp, shearV, shearQ]
  rw [← hy]
  exact Prod.ext rfl hv

theorem shearV_inv (f : Vec ℝ n → Vec ℝ n) (z : Vec ℝ n × Vec ℝ n) :
    shearV (fun y i => -(f y i)) (shearV f z) = z ∧ shearV f (shearV (fun y i => -(f y i)) z) = z := by
  constructor <;>
  · refine Prod.ext rfl ?_
    funext i
    simp [shearV]

theorem shearQ_inv (eps : ℝ) (z : Vec ℝ n × Vec ℝ n) :
    shearQ (-eps) (shearQ eps z) = z ∧ shearQ eps (shearQ (-eps) z) = z := by
  constructor <;>
  · refine Prod.ext ?_ rfl
    funext i
    simp [shearQ]

theorem shearV_bijective (f : Vec ℝ n → Vec ℝ n) : Function.Bijective (shearV f) :=
  Function.bijective_iff_has_inverse.mpr
    ⟨shearV (fun y i => -(f y i)), fun z => (shearV_inv f z).1, fun z => (shearV_inv f z).2⟩

theorem shearQ_bijective (eps : ℝ) : Function.Bijective (shearQ (n := n) eps) :=
  Function.bijective_iff_has_inverse.mpr
    ⟨shearQ (-eps), fun z => (shearQ_inv eps z).1, fun z => (shearQ_inv eps z).2⟩

/-! ### 10. log-determinant of the diagonal transformation -/

theorem logdet_diag (t : DiagT ℝ n) (hpos : ∀ i, 0 < t.stds i)
    (hinv : ∀ i, t.invStds i = 1 / t.stds i) :
    t.transform.logdet = -∑ i, Real.log (t.stds i) := by
  have _ := hpos
  simp only [DiagT.transform, vsum_eq_sum, transc_log, hinv, one_div, Real.log_inv,
    Finset.sum_neg_distrib]


/-! ### non-vacuity: the hypotheses are satisfiable -/

/-- a concrete diagonal transformation on `ℝ²` -/
noncomputable def exDiag : DiagT ℝ 2 where
  mean := ![0, 1]
  stds := ![2, 3]
  invStds := ![1 / 2, 1 / 3]

theorem exDiag_ne : ∀ i, exDiag.stds i ≠ 0 := by
  intro i; fin_cases i <;> simp [exDiag]

theorem exDiag_pos : ∀ i, 0 < exDiag.stds i := by
  intro i; fin_cases i <;> simp [exDiag]

theorem exDiag_inv : ∀ i, exDiag.invStds i = 1 / exDiag.stds i := by
  intro i; fin_cases i <;> simp [exDiag]

example (x y : Vec ℝ 2) :
    exDiag.transform.toX (exDiag.transform.toY x) = x ∧ exDiag.transform.toY (exDiag.transform.toX y) = y :=
  diag_bijection exDiag exDiag_ne exDiag_inv x y

/-- a phase point whose cached gradient is consistent (any `gradX`, any `y`, `v`) -/
noncomputable def exPhase (gradX : Vec ℝ 2 → Vec ℝ 2) (y v : Vec ℝ 2) : PhasePt ℝ 2 :=
  { y := y, v := v, gy := exDiag.transform.gradY (gradX (exDiag.transform.toX y)) }

example (gradX : Vec ℝ 2 → Vec ℝ 2) (eps : ℝ) (y v : Vec ℝ 2) :
    let p := exPhase gradX y v
    let x : Vec ℝ 2 := exDiag.transform.toX p.y
    let momHalf : Vec ℝ 2 := fun i => p.v i / exDiag.stds i + eps / 2 * gradX x i
    let x' : Vec ℝ 2 := fun i => x i + eps * (exDiag.stds i) ^ 2 * momHalf i
    let q := leapfrog exDiag.transform gradX .euclidean eps p
    exDiag.transform.toX q.y = x' ∧ ∀ i, q.v i / exDiag.stds i = momHalf i + eps / 2 * gradX x' i :=
  leapfrog_is_textbook_diag exDiag exDiag_ne gradX eps (exPhase gradX y v) rfl

example (gradX : Vec ℝ 2 → Vec ℝ 2) (k : Kinetic) (eps : ℝ) (y v : Vec ℝ 2) :
    leapfrog exDiag.transform gradX k (-eps) (leapfrog exDiag.transform gradX k eps (exPhase gradX y v))
      = exPhase gradX y v :=
  leapfrog_reversible _ gradX k eps _ rfl

example : exDiag.transform.logdet = -∑ i, Real.log (exDiag.stds i) :=
  logdet_diag exDiag exDiag_pos exDiag_inv

/-- a concrete rank-1 low-rank transformation on `ℝ²` over `exDiag` -/
noncomputable def exLowRank : LowRankT ℝ 2 1 where
  diag := exDiag
  U := ![![1, 0]]
  valsSqrt := ![5]
  valsSqrtInv := ![1 / 5]
  mu := ![7, -1]
  logdetInner := 0

example (x y : Vec ℝ 2) :
    exLowRank.transform.toX (exLowRank.transform.toY x) = x
      ∧ exLowRank.transform.toY (exLowRank.transform.toX y) = y :=
  lowrank_bijection exLowRank
    (by intro a b; fin_cases a; fin_cases b; simp [exLowRank, dot_eq_sum, Fin.sum_univ_two])
    (by intro c; fin_cases c; simp [exLowRank])
    (by intro c; fin_cases c; simp [exLowRank])
    exDiag_ne exDiag_inv x y

/-- hypotheses of 7 are satisfiable: identity transformation, `logp = -½‖x‖²` -/
def idT : Transform ℝ n := { toY := id, toX := id, gradY := id, logdet := 0 }

example (eps : ℝ) (y v : Vec ℝ n) :
    let p : PhasePt ℝ n := { y := y, v := v, gy := fun i => -(y i) }
    let q := leapfrog idT (fun x i => -(x i)) .exactNormal eps p
    dot q.v q.v + dot q.y q.y = dot p.v p.v + dot p.y p.y :=
  exactnormal_conserves idT (fun x i => -(x i)) eps _ (fun _ => rfl) rfl

/-- hypotheses of 8 are satisfiable: identity transformation, `logp = -½ Σ ω² x²` -/
example (eps : ℝ) (ω y v : Vec ℝ n) (i : Fin n) :
    let p : PhasePt ℝ n := { y := y, v := v, gy := fun i => -(ω i) ^ 2 * y i }
    let q := leapfrog idT (fun x i => -(ω i) ^ 2 * x i) .euclidean eps p
    (q.v i) ^ 2 + (ω i) ^ 2 * (q.y i) ^ 2 * (1 - eps ^ 2 * (ω i) ^ 2 / 4)
      = (p.v i) ^ 2 + (ω i) ^ 2 * (p.y i) ^ 2 * (1 - eps ^ 2 * (ω i) ^ 2 / 4) :=
  modified_energy_conserved idT (fun x i => -(ω i) ^ 2 * x i) eps ω _ (fun _ => rfl) rfl i

#print axioms vsum_eq_sum
#print axioms diag_bijection
#print axioms leapfrog_reversible
#print axioms leapfrog_gy_consistent
#print axioms leapfrog_reversible_iterate
#print axioms leapfrog_is_textbook_diag
#print axioms lowrank_apply_inverse
#print axioms lowrank_bijection
#print axioms gradient_pullback_diag
#print axioms gradient_pullback_lowrank
#print axioms exactnormal_conserves
#print axioms modified_energy_conserved
#print axioms leapfrog_shear_decomposition
#print axioms shearV_bijective
#print axioms shearQ_bijective
#print axioms logdet_diag

end NutsModel.C02
