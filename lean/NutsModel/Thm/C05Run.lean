import NutsModel.Thm.C05
import NutsModel.Thm.C05Tree

/-! C05 — faults of arbitrary kind at arbitrary positions of a trajectory, composed with the tree builder:
the orbit's leapfrog outcomes are derived from the classification of the density evaluation made at each
orbit index.  Everything is for every assignment `f` of (no fault | fault kind) to the orbit indices, every
`Options`, and every outcome of the random choices of `nuts::draw`. -/
namespace NutsModel.C05
open NutsModel.Model NutsModel.C03 NutsModel.C05.Tree

/-- the evaluation made when the trajectory arrives at index `i` -/
def evalAt (f : Int → Option FaultKind) (i : Int) : EvalRes :=
  match f i with
  | none => EvalRes.good
  | some k => evalOf k

/-- orbit whose leapfrog outcomes come from the evaluations -/
def faultyOrbit (base : Orbit ℝ) (f : Int → Option FaultKind) : Orbit ℝ :=
  { base with leap := fun i => leapOf (evalAt f i) }

theorem leap_ok_iff (base : Orbit ℝ) (f : Int → Option FaultKind) (i : Int) :
    (faultyOrbit base f).leap i = .ok ↔ f i = none ∨ f i = some .zeroGrad := by
  simp only [faultyOrbit, evalAt]
  cases h : f i with
  | none => simp [good_is_ok.1]
  | some k => cases k <;> simp [leapOf, evalOf]

theorem leap_err_iff (base : Orbit ℝ) (f : Int → Option FaultKind) (i : Int) :
    (faultyOrbit base f).leap i = .err ↔ f i = some .unrecoverable := by
  simp only [faultyOrbit, evalAt]
  cases h : f i with
  | none => simp [good_is_ok.1]
  | some k => cases k <;> simp [leapOf, evalOf]

theorem leap_diverge_iff (base : Orbit ℝ) (f : Int → Option FaultKind) (i : Int) :
    (faultyOrbit base f).leap i = .diverge ↔
      ∃ k, f i = some k ∧ k ≠ .unrecoverable ∧ k ≠ .zeroGrad := by
  simp only [faultyOrbit, evalAt]
  cases h : f i with
  | none => simp [good_is_ok.1]
  | some k => cases k <;> simp [leapOf, evalOf]

variable (base : Orbit ℝ) (f : Int → Option FaultKind) (opt : Options) (out : DrawOutcome) (lg : Log ℝ)

/-- **Unrecoverable error anywhere in the trajectory ⇒ the draw returns `Err`** (and only then). -/
theorem unrecoverable_in_trajectory_is_err
    (h : IsOutcome ((draw (faultyOrbit base f) opt).run {}) (out, lg)) :
    ((∃ s d, Ev.leap s d ∈ lg.evs ∧ f d = some .unrecoverable) → out = .err) ∧
    (out = .err → ∃ s d, Ev.leap s d ∈ lg.evs ∧ f d = some .unrecoverable) := by
  have := Tree.unrecoverable_is_err (faultyOrbit base f) opt out lg h
  constructor
  · rintro ⟨s, d, hm, hf⟩
    exact this.1 ⟨s, d, hm, (leap_err_iff base f d).2 hf⟩
  · intro he
    obtain ⟨s, d, hm, hl⟩ := this.2 he
    exact ⟨s, d, hm, (leap_err_iff base f d).1 hl⟩

/-- **Any other fault hit by the trajectory ⇒ the draw is `Ok`, flagged divergent at exactly that step.** -/
theorem fault_in_trajectory_diverges
    (h : IsOutcome ((draw (faultyOrbit base f) opt).run {}) (out, lg))
    (s d : Int) (hm : Ev.leap s d ∈ lg.evs) (k : FaultKind) (hf : f d = some k)
    (hk : k ≠ .unrecoverable) (hz : k ≠ .zeroGrad) :
    ∃ r, out = .ok r ∧ r.diverging = some (s, d) :=
  Tree.divergence_reported (faultyOrbit base f) opt out lg h s d hm
    ((leap_diverge_iff base f d).2 ⟨k, hf, hk, hz⟩)

/-- **No leapfrog is attempted after a fault**, and at most one fault is ever hit. -/
theorem nothing_after_a_fault
    (h : IsOutcome ((draw (faultyOrbit base f) opt).run {}) (out, lg))
    (pre post : List Ev) (s d : Int) (he : lg.evs = pre ++ Ev.leap s d :: post)
    (k : FaultKind) (hf : f d = some k) (hz : k ≠ .zeroGrad) :
    ∀ s' d', Ev.leap s' d' ∉ pre := by
  refine (Tree.fault_stops_trajectory (faultyOrbit base f) opt out lg h).2.2 pre post s d he ?_
  intro hok
  rcases (leap_ok_iff base f d).1 hok with h0 | h0
  · rw [hf] at h0; cases h0
  · rw [hf] at h0; exact hz (Option.some.inj h0)

/-- **The returned draw is a previously valid state**: the start, or a state whose evaluation was not faulty
    (a zero gradient component is not a fault of a trajectory point). -/
theorem returned_draw_is_valid
    (h : IsOutcome ((draw (faultyOrbit base f) opt).run {}) (out, lg)) (r : DrawResult) (hr : out = .ok r) :
    r.draw = 0 ∨ ((∃ s, Ev.leap s r.draw ∈ lg.evs) ∧ (f r.draw = none ∨ f r.draw = some .zeroGrad)) := by
  rcases Tree.returned_state_valid (faultyOrbit base f) opt out lg h r hr with h0 | ⟨hv, hl⟩
  · exact Or.inl h0
  · exact Or.inr ⟨hv, (leap_ok_iff base f r.draw).1 hl⟩

/-- **No fault, no report.** -/
theorem clean_run_not_flagged
    (h : IsOutcome ((draw (faultyOrbit base f) opt).run {}) (out, lg)) (hf : ∀ i, f i = none) :
    out ≠ .err ∧ ∀ r, out = .ok r → r.diverging = none :=
  Tree.no_fault_no_report (faultyOrbit base f) opt out lg h
    (fun i => (leap_ok_iff base f i).2 (Or.inl (hf i)))

end NutsModel.C05
