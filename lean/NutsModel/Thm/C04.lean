import NutsModel.Thm.C01Refine
import NutsModel.Model.Momentum
import Mathlib.GroupTheory.Perm.Basic
import Mathlib.Algebra.BigOperators.Group.Finset.Basic

/-! C04 — what can be *proved* about "adapted samplers reproduce known posteriors":
after warmup the kernel is frozen (C06), and the frozen kernel is reversible with respect to the target
in phase space for every bijective integrator (C02 proves the leapfrog maps are bijections), also under a
state-independent random step size (jitter); the momentum of every trajectory is the fresh standard-normal
vector of that trajectory.  Mixing speed — "means, variances and quantiles match within Monte-Carlo error
with default settings" — is not a theorem of any model; it is measured by the harness. -/
namespace NutsModel.C04
open NutsModel NutsModel.Model NutsModel.C01

variable {Z : Type}

/-- energies along the orbit of `z` under the integrator `φ` -/
def orbitE (φ : Equiv.Perm Z) (H : Z → ℝ) (z : Z) : ℤ → ℝ := fun j => H ((φ ^ j) z)

/-- U-turn criterion along the orbit of `z` -/
def orbitCrit (φ : Equiv.Perm Z) (turn : Z → Z → Bool) (z : Z) : ℤ → ℤ → Bool :=
  fun a b => turn ((φ ^ a) z) ((φ ^ b) z)

/-- probability that the NUTS transition started at phase-space point `z` returns the point `i` steps along
    its orbit -/
noncomputable def Kz (φ : Equiv.Perm Z) (H : Z → ℝ) (turn : Z → Z → Bool) (maxdepth : ℕ) (z : Z) (i : ℤ) : ℝ :=
  K (orbitE φ H z) (orbitCrit φ turn z) maxdepth 0 i

theorem shift_orbit (φ : Equiv.Perm Z) (H : Z → ℝ) (turn : Z → Z → Bool) (z : Z) (i : ℤ) :
    shift (orbitE φ H z) (orbitCrit φ turn z) i = shift (orbitE φ H ((φ ^ i) z)) (orbitCrit φ turn ((φ ^ i) z)) 0 := by
  have hz : ∀ j : ℤ, (φ ^ (i + j)) z = (φ ^ (0 + j)) ((φ ^ i) z) := by
    intro j
    rw [zero_add, add_comm, zpow_add, Equiv.Perm.mul_apply]
  simp only [shift, orbitE, orbitCrit, hz]
  simp

/-- **Reversibility in phase space.**  For every bijective integrator `φ` (the leapfrog map of a frozen
    transformation and step size), every energy `H`, every symmetric U-turn criterion, every `maxdepth`,
    every start `z` and every `i`: the probability flux `z → φⁱ z` equals the flux `φⁱ z → z` under the
    density `exp(−H)`.  (`φ` bijective = the counting/Lebesgue reference measure is preserved; C02.) -/
theorem phase_space_detailed_balance (φ : Equiv.Perm Z) (H : Z → ℝ) (turn : Z → Z → Bool)
    (hsymm : ∀ a b, turn a b = turn b a) (maxdepth : ℕ) (z : Z) (i : ℤ) :
    Real.exp (-(H z)) * Kz φ H turn maxdepth z i =
      Real.exp (-(H ((φ ^ i) z))) * Kz φ H turn maxdepth ((φ ^ i) z) (-i) := by
  have hs : ∀ a b, orbitCrit φ turn z a b = orbitCrit φ turn z b a := fun a b => hsymm _ _
  have h := nuts_detailed_balance (orbitE φ H z) (orbitCrit φ turn z) hs maxdepth 0 i
  have e0 : orbitE φ H z 0 = H z := by simp [orbitE]
  have ei : orbitE φ H z i = H ((φ ^ i) z) := rfl
  rw [e0, ei] at h
  have hk : K (orbitE φ H z) (orbitCrit φ turn z) maxdepth i 0 = Kz φ H turn maxdepth ((φ ^ i) z) (-i) := by
    unfold Kz K
    rw [shift_orbit]
    simp
  rw [hk] at h
  exact h

/-- **Random step size (jitter).**  A mixture, with state-independent weights, of kernels that are each
    reversible w.r.t. `π` is reversible w.r.t. `π`. -/
theorem mixture_reversible {ι σ : Type} (s : Finset ι) (w : ι → ℝ) (π : σ → ℝ) (Kern : ι → σ → σ → ℝ)
    (h : ∀ j ∈ s, ∀ a b, π a * Kern j a b = π b * Kern j b a) (a b : σ) :
    π a * ∑ j ∈ s, w j * Kern j a b = π b * ∑ j ∈ s, w j * Kern j b a := by
  rw [Finset.mul_sum, Finset.mul_sum]
  refine Finset.sum_congr rfl fun j hj => ?_
  have := h j hj a b
  calc π a * (w j * Kern j a b) = w j * (π a * Kern j a b) := by ring
    _ = w j * (π b * Kern j b a) := by rw [this]
    _ = π b * (w j * Kern j b a) := by ring

/-- **Fresh momentum.**  The velocity a trajectory starts with is exactly the vector of standard-normal
    variates drawn for this trajectory — unscaled, and a function of nothing else. -/
theorem momentum_is_fresh {n : ℕ} (z : Fin n → ℝ) : initVelocity z = z := by
  funext i; simp [initVelocity, arrayGaussian]

/-- scaling the variates by anything but ones changes the law: with `stds` the velocity is `stds ⊙ z` -/
theorem arrayGaussian_scales {n : ℕ} (stds z : Fin n → ℝ) (i : Fin n) : arrayGaussian stds z i = stds i * z i := rfl

end NutsModel.C04

#print axioms NutsModel.C04.phase_space_detailed_balance
#print axioms NutsModel.C04.mixture_reversible
#print axioms NutsModel.C04.momentum_is_fresh
