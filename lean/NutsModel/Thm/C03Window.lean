import NutsModel.Thm.C03
import NutsModel.Model.DepthWindow
import Mathlib.Tactic.Linarith

/-! C03 — the depth window derived from `target_integration_time` never exceeds the user's `maxdepth`,
keeps at least one doubling, and is large enough for the target time unless `maxdepth` caps it. -/
namespace NutsModel.C03
open NutsModel.Model

theorem le_two_pow_log2Ceil (n : Nat) : n ≤ 2 ^ log2Ceil n := by
  unfold log2Ceil
  split
  · omega
  · rename_i h
    have h1 : n - 1 < 2 ^ (Nat.log2 (n - 1) + 1) := by
      rw [Nat.log2_eq_log_two]; exact Nat.lt_pow_succ_log_self (by decide) (n - 1)
    omega

theorem two_pow_log2Floor_le (n : Nat) (h : 1 ≤ n) : 2 ^ log2Floor n ≤ n := by
  unfold log2Floor
  rw [Nat.log2_eq_log_two]
  exact Nat.pow_log_le_self 2 (by omega)

/-- **the user's `maxdepth` always wins** -/
theorem window_le_maxdepth (s a b : Nat) : (depthWindow s a b).2 ≤ b := by
  simp only [depthWindow]; exact Nat.min_le_right _ _

/-- at least one doubling whenever `maxdepth ≥ 1` (a target time shorter than one step still integrates a step) -/
theorem window_ge_one (s a b : Nat) (h : 1 ≤ b) : 1 ≤ (depthWindow s a b).2 := by
  simp only [depthWindow]; omega

/-- unless capped by `maxdepth`, `2^maxdepth'` leapfrogs reach the target number of steps … -/
theorem window_reaches_target (s a b : Nat) :
    (depthWindow s a b).2 = b ∨ s ≤ 2 ^ (depthWindow s a b).2 := by
  simp only [depthWindow]
  by_cases h : max (max (log2Ceil s) (max (log2Floor s) a)) 1 ≤ b
  · right
    rw [Nat.min_eq_left h]
    calc s ≤ 2 ^ log2Ceil s := le_two_pow_log2Ceil s
      _ ≤ 2 ^ max (max (log2Ceil s) (max (log2Floor s) a)) 1 := Nat.pow_le_pow_right (by decide) (by omega)
  · left; omega

/-- … and the mindepth is honoured: `mindepth' ≤ maxdepth'` -/
theorem window_min_le_max (s a b : Nat) :
    (depthWindow s a b).2 = b ∨ (depthWindow s a b).1 ≤ (depthWindow s a b).2 := by
  simp only [depthWindow]; omega

/-- the time-derived mindepth never asks for more than the target needs: `2^floor(log2 s) ≤ s` -/
theorem window_min_spec (s a b : Nat) (h : 1 ≤ s) :
    a ≤ (depthWindow s a b).1 ∧ ((depthWindow s a b).1 = a ∨ 2 ^ (depthWindow s a b).1 ≤ s) := by
  simp only [depthWindow]
  constructor
  · omega
  · by_cases h1 : log2Floor s ≤ a
    · left; omega
    · right
      have : max (log2Floor s) a = log2Floor s := by omega
      rw [this]; exact two_pow_log2Floor_le s h

/-- with or without a target time: the loop bound handed to the tree builder is at most the user's `maxdepth`;
    together with `depth_le_maxdepth` every reported depth is `≤ options.maxdepth`. -/
theorem effective_maxdepth_le (ms : Option Nat) (a b : Nat) : (depthWindowOpt ms a b).2 ≤ b := by
  cases ms with
  | none => exact le_refl _
  | some s => exact window_le_maxdepth s a b

example : depthWindow 200 0 4 = (7, 4) ∧ depthWindow 5 0 10 = (2, 3) ∧ depthWindow 1 0 10 = (0, 1) ∧
    depthWindow 8 5 10 = (5, 5) := by decide

end NutsModel.C03

#print axioms NutsModel.C03.window_le_maxdepth
#print axioms NutsModel.C03.window_reaches_target
