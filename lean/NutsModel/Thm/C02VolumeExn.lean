/-
C02 (volume, ExactNormal kind) — the `Kinetic.exactNormal` whitened step PRESERVES LEBESGUE MEASURE.

The ExactNormal step of `Model/Leapfrog.lean` is (see `leapfrog_y_exn`, `leapfrog_v_exn`)
  half kick      `(y, v) ↦ (y, v + (eps/2)·(y + G y))`              (`shearV k`, `G = gradY ∘ gradX ∘ toX`)
  harmonic flow  `(y, v) ↦ (y cos eps + v sin eps, −y sin eps + v cos eps)`   (`rotPair eps`)
  half kick      at the new position                                          (`shearV k`).

What is proved:
* `rotPair_measurePreserving` : the coordinate-wise rotation `rotPair eps` preserves `volume` on
  `ℝⁿ × ℝⁿ` for EVERY `eps : ℝ` (no restriction).  Route: for `cos (eps/2) ≠ 0` the rotation is the
  composition of three shears `shearQ (tan (eps/2)) ∘ shearV (−sin eps • ·) ∘ shearQ (tan (eps/2))`
  (`rotPair_eq_shears`), each of which preserves volume by `C02Volume.lean`; for the remaining angles
  (`cos (eps/2) = 0`) one has `cos (eps/4) ≠ 0` and `rotPair eps = rotPair (eps/2) ∘ rotPair (eps/2)`
  (`rotPair_add`).
* `exnPair_eq` : the model step on `(y, v)` pairs is `shearV k ∘ rotPair eps ∘ shearV k`;
  `exnPair_spec` ties `exnPair` to `leapfrog … .exactNormal …` under the cached-gradient hypothesis.
* `exn_step_volume_preserving`, `exn_iterate_volume_preserving` : the step and its iterates preserve
  Lebesgue measure whenever the whitened gradient `y ↦ gradY (gradX (toX y))` is measurable.
-/
import NutsModel.Thm.C02Volume

namespace NutsModel.C02
open NutsModel NutsModel.Model MeasureTheory

variable {n : ℕ}

/-! ### 13. the coordinate-wise rotation (exact harmonic flow) -/

/-- `std_norm_flow`: rotation by the angle `eps` in each `(y i, v i)` plane -/
noncomputable def rotPair (eps : ℝ) : (Vec ℝ n × Vec ℝ n) → (Vec ℝ n × Vec ℝ n) :=
  fun z => (fun i => z.1 i * Real.cos eps + z.2 i * Real.sin eps,
            fun i => -(z.1 i * Real.sin eps) + z.2 i * Real.cos eps)

/-- `rotPair` is exactly the `posStep` of the model for the ExactNormal kind -/
theorem rotPair_eq_posStep (eps : ℝ) (z : Vec ℝ n × Vec ℝ n) :
    rotPair eps z = posStep .exactNormal eps z.1 z.2 := by
  refine Prod.ext rfl ?_
  funext i
  simp only [rotPair, posStep, transc_sin, transc_cos]
  ring

/-- group law of the flow -/
theorem rotPair_add (a b : ℝ) : rotPair (n := n) (a + b) = rotPair a ∘ rotPair b := by
  funext z
  refine Prod.ext ?_ ?_ <;>
  · funext i
    simp only [rotPair, Function.comp, Real.sin_add, Real.cos_add]
    ring

theorem rotPair_zero : rotPair (n := n) 0 = id := by
  funext z
  refine Prod.ext ?_ ?_ <;>
  · funext i
    simp [rotPair]

theorem rotPair_inv (eps : ℝ) (z : Vec ℝ n × Vec ℝ n) :
    rotPair (-eps) (rotPair eps z) = z ∧ rotPair eps (rotPair (-eps) z) = z := by
  constructor
  · have h := congrFun (rotPair_add (n := n) (-eps) eps) z
    rw [neg_add_cancel, rotPair_zero] at h
    exact h.symm
  · have h := congrFun (rotPair_add (n := n) eps (-eps)) z
    rw [add_neg_cancel, rotPair_zero] at h
    exact h.symm

theorem rotPair_bijective (eps : ℝ) : Function.Bijective (rotPair (n := n) eps) :=
  Function.bijective_iff_has_inverse.mpr
    ⟨rotPair (-eps), fun z => (rotPair_inv eps z).1, fun z => (rotPair_inv eps z).2⟩

/-- Three-shear decomposition `R(θ) = S_q(tan (θ/2)) ∘ S_v(−sin θ) ∘ S_q(tan (θ/2))`, valid as soon as
    `cos (θ/2) ≠ 0`. -/
theorem rotPair_eq_shears (eps : ℝ) (h : Real.cos (eps / 2) ≠ 0) :
    rotPair (n := n) eps
      = shearQ (Real.sin (eps / 2) / Real.cos (eps / 2))
          ∘ shearV (fun y i => -Real.sin eps * y i)
          ∘ shearQ (Real.sin (eps / 2) / Real.cos (eps / 2)) := by
  have hsq := Real.sin_sq_add_cos_sq (eps / 2)
  have hs : Real.sin eps = 2 * Real.sin (eps / 2) * Real.cos (eps / 2) := by
    rw [← Real.sin_two_mul]; congr 1; ring
  have hc : Real.cos eps = 2 * Real.cos (eps / 2) ^ 2 - 1 := by
    rw [← Real.cos_two_mul]; congr 1; ring
  have ha : Real.sin (eps / 2) / Real.cos (eps / 2) * Real.cos (eps / 2) = Real.sin (eps / 2) :=
    div_mul_cancel₀ _ h
  -- the two scalar identities behind the decomposition
  have h1 : 1 + Real.sin (eps / 2) / Real.cos (eps / 2) * (-Real.sin eps) = Real.cos eps := by
    rw [hs, hc]
    linear_combination (-2 * Real.sin (eps / 2)) * ha - 2 * hsq
  have h2 : Real.sin (eps / 2) / Real.cos (eps / 2) * (1 + Real.cos eps) = Real.sin eps := by
    rw [hs, hc]
    linear_combination (2 * Real.cos (eps / 2)) * ha
  funext z
  refine Prod.ext ?_ ?_
  · funext i
    simp only [rotPair, shearQ, shearV, Function.comp]
    linear_combination
      (-(z.1 i) - z.2 i * (Real.sin (eps / 2) / Real.cos (eps / 2))) * h1 - z.2 i * h2
  · funext i
    simp only [rotPair, shearQ, shearV, Function.comp]
    linear_combination (-(z.2 i)) * h1

/-- rotation by an angle with `cos (eps/2) ≠ 0`: composition of three volume-preserving shears -/
theorem rotPair_measurePreserving_of_cos_ne_zero (eps : ℝ) (h : Real.cos (eps / 2) ≠ 0) :
    MeasurePreserving (rotPair (n := n) eps)
      (volume : Measure (Vec ℝ n × Vec ℝ n)) (volume : Measure (Vec ℝ n × Vec ℝ n)) := by
  have hlin : Measurable (fun (y : Vec ℝ n) (i : Fin n) => -Real.sin eps * y i) :=
    measurable_pi_lambda _ fun i => measurable_const.mul (measurable_pi_apply i)
  rw [rotPair_eq_shears eps h]
  exact (shearQ_measurePreserving _).comp
    ((shearV_measurePreserving hlin).comp (shearQ_measurePreserving _))

/-- The exact harmonic flow `(y, v) ↦ (y cos eps + v sin eps, −y sin eps + v cos eps)` preserves
    Lebesgue measure on `ℝⁿ × ℝⁿ`, for EVERY `eps : ℝ`. -/
theorem rotPair_measurePreserving (eps : ℝ) :
    MeasurePreserving (rotPair (n := n) eps)
      (volume : Measure (Vec ℝ n × Vec ℝ n)) (volume : Measure (Vec ℝ n × Vec ℝ n)) := by
  by_cases h : Real.cos (eps / 2) = 0
  · -- then `cos (eps/4)² = 1/2`, so the half angle is covered by the three-shear decomposition
    have h4 : Real.cos (eps / 2 / 2) ≠ 0 := by
      intro h0
      have hc : Real.cos (eps / 2) = 2 * Real.cos (eps / 2 / 2) ^ 2 - 1 := by
        rw [← Real.cos_two_mul]; congr 1; ring
      rw [h, h0] at hc
      norm_num at hc
    have hhalf := rotPair_measurePreserving_of_cos_ne_zero (n := n) (eps / 2) h4
    have hsplit : rotPair (n := n) eps = rotPair (eps / 2) ∘ rotPair (eps / 2) := by
      rw [← rotPair_add, add_halves]
    rw [hsplit]
    exact hhalf.comp hhalf
  · exact rotPair_measurePreserving_of_cos_ne_zero eps h

theorem rotPair_measurable (eps : ℝ) : Measurable (rotPair (n := n) eps) :=
  (rotPair_measurePreserving eps).measurable

/-! ### 14. the ExactNormal step preserves Lebesgue measure -/

/-- the ExactNormal half-kick field `k y = (eps/2)·(y + gradY (gradX (toX y)))`
    (`std_norm_grad_flow(eps/2)`) -/
noncomputable def exnKick (T : Transform ℝ n) (gradX : Vec ℝ n → Vec ℝ n) (eps : ℝ) : Vec ℝ n → Vec ℝ n :=
  fun y i => eps / 2 * (y i + T.gradY (gradX (T.toX y)) i)

theorem exnKick_measurable (T : Transform ℝ n) (gradX : Vec ℝ n → Vec ℝ n) (eps : ℝ)
    (hG : Measurable fun y : Vec ℝ n => T.gradY (gradX (T.toX y))) :
    Measurable (exnKick T gradX eps) :=
  measurable_pi_lambda _ fun i =>
    ((measurable_pi_apply i).add ((measurable_pi_apply i).comp hG)).const_mul (eps / 2)

/-- half kick, exact harmonic flow, half kick: the composition preserves volume -/
theorem exn_volume_preserving {f : Vec ℝ n → Vec ℝ n} (hf : Measurable f) (eps : ℝ) :
    MeasurePreserving (shearV f ∘ rotPair eps ∘ shearV f)
      (volume : Measure (Vec ℝ n × Vec ℝ n)) (volume : Measure (Vec ℝ n × Vec ℝ n)) :=
  (shearV_measurePreserving hf).comp
    ((rotPair_measurePreserving eps).comp (shearV_measurePreserving hf))

/-- The ExactNormal step as a map on `(y, v)` pairs: the cached gradient `gy` is the one the
    sampler always carries, namely the whitened gradient at `y`. -/
noncomputable def exnPair (T : Transform ℝ n) (gradX : Vec ℝ n → Vec ℝ n) (eps : ℝ)
    (z : Vec ℝ n × Vec ℝ n) : Vec ℝ n × Vec ℝ n :=
  let q := leapfrog T gradX .exactNormal eps
    { y := z.1, v := z.2, gy := T.gradY (gradX (T.toX z.1)) }
  (q.y, q.v)

/-- `exnPair` is kick ∘ rotation ∘ kick -/
theorem exnPair_eq (T : Transform ℝ n) (gradX : Vec ℝ n → Vec ℝ n) (eps : ℝ) :
    exnPair T gradX eps
      = shearV (exnKick T gradX eps) ∘ rotPair eps ∘ shearV (exnKick T gradX eps) := by
  funext z
  have hy : (leapfrog T gradX .exactNormal eps
        { y := z.1, v := z.2, gy := T.gradY (gradX (T.toX z.1)) }).y
      = (rotPair eps (shearV (exnKick T gradX eps) z)).1 := by
    rw [leapfrog_y_exn]
    rfl
  refine Prod.ext hy ?_
  show (leapfrog T gradX .exactNormal eps
        { y := z.1, v := z.2, gy := T.gradY (gradX (T.toX z.1)) }).v = _
  rw [leapfrog_v_exn, leapfrog_gy, hy]
  rfl

/-- `exnPair` really is the model's step on any phase point with a consistent cached gradient -/
theorem exnPair_spec (T : Transform ℝ n) (gradX : Vec ℝ n → Vec ℝ n) (eps : ℝ)
    (p : PhasePt ℝ n) (hg : p.gy = T.gradY (gradX (T.toX p.y))) :
    exnPair T gradX eps (p.y, p.v)
      = ((leapfrog T gradX .exactNormal eps p).y, (leapfrog T gradX .exactNormal eps p).v) := by
  have hp : ({ y := p.y, v := p.v, gy := T.gradY (gradX (T.toX p.y)) } : PhasePt ℝ n) = p :=
    PhasePt.ext' rfl rfl hg.symm
  simp only [exnPair, hp]

/-- The ExactNormal step preserves Lebesgue measure on `(y, v)` space whenever the whitened gradient
    `y ↦ gradY (gradX (toX y))` is measurable (any step size, either sign). -/
theorem exn_step_volume_preserving (T : Transform ℝ n) (gradX : Vec ℝ n → Vec ℝ n) (eps : ℝ)
    (hG : Measurable fun y : Vec ℝ n => T.gradY (gradX (T.toX y))) :
    MeasurePreserving (exnPair T gradX eps)
      (volume : Measure (Vec ℝ n × Vec ℝ n)) (volume : Measure (Vec ℝ n × Vec ℝ n)) := by
  rw [exnPair_eq]
  exact exn_volume_preserving (exnKick_measurable T gradX eps hG) eps

/-- `vol (Φ⁻¹ s) = vol s` for every measurable `s` -/
theorem exn_step_volume_preimage (T : Transform ℝ n) (gradX : Vec ℝ n → Vec ℝ n) (eps : ℝ)
    (hG : Measurable fun y : Vec ℝ n => T.gradY (gradX (T.toX y)))
    {s : Set (Vec ℝ n × Vec ℝ n)} (hs : MeasurableSet s) :
    volume (exnPair T gradX eps ⁻¹' s) = volume s :=
  (exn_step_volume_preserving T gradX eps hG).measure_preimage hs.nullMeasurableSet

/-- the step is a bijection of `(y, v)` space (shear, rotation, shear) -/
theorem exnPair_bijective (T : Transform ℝ n) (gradX : Vec ℝ n → Vec ℝ n) (eps : ℝ) :
    Function.Bijective (exnPair T gradX eps) := by
  rw [exnPair_eq]
  exact (shearV_bijective _).comp ((rotPair_bijective eps).comp (shearV_bijective _))

/-- a whole trajectory of `m` ExactNormal steps preserves Lebesgue measure -/
theorem exn_iterate_volume_preserving (T : Transform ℝ n) (gradX : Vec ℝ n → Vec ℝ n)
    (eps : ℝ) (hG : Measurable fun y : Vec ℝ n => T.gradY (gradX (T.toX y))) (m : ℕ) :
    MeasurePreserving ((exnPair T gradX eps)^[m])
      (volume : Measure (Vec ℝ n × Vec ℝ n)) (volume : Measure (Vec ℝ n × Vec ℝ n)) :=
  (exn_step_volume_preserving T gradX eps hG).iterate m

/-! ### non-vacuity: the measurability hypothesis holds for the diagonal transformation and any
measurable gradient field -/

example (gradX : Vec ℝ 2 → Vec ℝ 2) (hgrad : Measurable gradX) (eps : ℝ) :
    MeasurePreserving (exnPair exDiag.transform gradX eps)
      (volume : Measure (Vec ℝ 2 × Vec ℝ 2)) (volume : Measure (Vec ℝ 2 × Vec ℝ 2)) := by
  refine exn_step_volume_preserving _ gradX eps ?_
  have hX : Measurable fun (y : Vec ℝ 2) (i : Fin 2) => exDiag.mean i + y i * exDiag.stds i :=
    measurable_pi_lambda _ fun i =>
      measurable_const.add ((measurable_pi_apply i).mul measurable_const)
  have hY : Measurable fun (g : Vec ℝ 2) (i : Fin 2) => g i * exDiag.stds i :=
    measurable_pi_lambda _ fun i => (measurable_pi_apply i).mul measurable_const
  exact hY.comp (hgrad.comp hX)

#print axioms rotPair_eq_posStep
#print axioms rotPair_add
#print axioms rotPair_bijective
#print axioms rotPair_eq_shears
#print axioms rotPair_measurePreserving_of_cos_ne_zero
#print axioms rotPair_measurePreserving
#print axioms exn_volume_preserving
#print axioms exnPair_eq
#print axioms exnPair_spec
#print axioms exn_step_volume_preserving
#print axioms exn_step_volume_preimage
#print axioms exnPair_bijective
#print axioms exn_iterate_volume_preserving

end NutsModel.C02
