/-
C19 — serde model (`Model/Serde.lean`): JSON round trip.

For every well-formed type descriptor `t` (field names of every struct pairwise distinct, variant
names of every enum pairwise distinct, no `Option<Option<_>>`) and every value `v` conforming to
`t`, `fromJson t (toJson v) = some v`.  Conversely whatever `fromJson t` returns conforms to `t`.
-/
import NutsModel.Model.Serde

namespace NutsModel.C19
open NutsModel.Model

/-! ## well-formed descriptors -/

/-- the descriptor is an `Option<_>` -/
def isOpt : STy → Bool
  | .opt _ => true
  | _ => false

mutual
  /-- struct field names / enum variant names pairwise distinct (recursively), and no `opt (opt _)` -/
  def wf : STy → Bool
    | .f64 => true
    | .u64 => true
    | .bool => true
    | .opt t => !isOpt t && wf t
    | .struct fs => decide (fs.names).Nodup && wfFields fs
    | .enum vs => decide (vs.names).Nodup && wfVariants vs
  def wfFields : SFields → Bool
    | .nil => true
    | .cons _ t rest => wf t && wfFields rest
  def wfVariants : SVariants → Bool
    | .nil => true
    | .unit _ rest => wfVariants rest
    | .newtype _ t rest => wf t && wfVariants rest
end

/-! ## conforming values -/

/-- `n` is (the name of) a unit variant -/
def hasUnit : SVariants → String → Bool
  | .nil, _ => false
  | .unit m rest, n => m == n || hasUnit rest n
  | .newtype _ _ rest, n => hasUnit rest n

mutual
  def conforms : STy → SVal → Bool
    | .f64, .f64 _ => true
    | .u64, .u64 _ => true
    | .bool, .bool _ => true
    | .opt _, .none => true
    | .opt t, .some v => conforms t v
    | .struct fs, .struct vs => conformsFields fs vs
    | .enum vs, .unitVariant n => hasUnit vs n
    | .enum vs, .newtypeVariant n v => conformsNewtype vs n v
    | _, _ => false
  /-- same names, same order, conforming values -/
  def conformsFields : SFields → SFVals → Bool
    | .nil, .nil => true
    | .cons n t rest, .cons n' v vs => n == n' && conforms t v && conformsFields rest vs
    | _, _ => false
  /-- some newtype variant is called `n` and its payload type accepts `v` -/
  def conformsNewtype : SVariants → String → SVal → Bool
    | .nil, _, _ => false
    | .unit _ rest, n, v => conformsNewtype rest n v
    | .newtype m t rest, n, v => (m == n && conforms t v) || conformsNewtype rest n v
end

/-! ## auxiliary notions on values -/

def fvNames : SFVals → List String
  | .nil => []
  | .cons n _ rest => n :: fvNames rest

/-- `(n, v)` is a field of `vs` -/
def fvMem (n : String) (v : SVal) : SFVals → Prop
  | .nil => False
  | .cons n' v' rest => (n' = n ∧ v' = v) ∨ fvMem n v rest

theorem fvMem_name {n : String} {v : SVal} : ∀ {vs : SFVals}, fvMem n v vs → n ∈ fvNames vs
  | .nil, h => by simp [fvMem] at h
  | .cons n' v' rest, h => by
    simp only [fvMem] at h
    simp only [fvNames, List.mem_cons]
    rcases h with ⟨h, _⟩ | h
    · exact Or.inl h.symm
    · exact Or.inr (fvMem_name h)

/-- lookup by name in the serialised object finds the serialised field, names being distinct -/
theorem get_fieldsToJson {n : String} {v : SVal} :
    ∀ {vs : SFVals}, (fvNames vs).Nodup → fvMem n v vs → (fieldsToJson vs).get? n = some (toJson v)
  | .nil, _, h => by simp [fvMem] at h
  | .cons n' v' rest, hnd, h => by
    simp only [fvNames, List.nodup_cons] at hnd
    simp only [fvMem] at h
    simp only [fieldsToJson, JMembers.get?]
    rcases h with ⟨h1, h2⟩ | h
    · subst h1; subst h2; simp
    · have hne : n' ≠ n := by
        intro e; subst e; exact hnd.1 (fvMem_name h)
      simp [hne, get_fieldsToJson hnd.2 h]

theorem conformsFields_names :
    ∀ {fs : SFields} {vs : SFVals}, conformsFields fs vs = true → fvNames vs = fs.names
  | .nil, .nil, _ => by simp [fvNames, SFields.names]
  | .nil, .cons _ _ _, h => by simp [conformsFields] at h
  | .cons _ _ _, .nil, h => by simp [conformsFields] at h
  | .cons n t rest, .cons n' v vs, h => by
    simp only [conformsFields, Bool.and_eq_true, beq_iff_eq] at h
    simp [fvNames, SFields.names, h.1.1, conformsFields_names h.2]

/-! ## `fromJson` on an `opt` -/

theorem fromJson_opt_nonnull (t : STy) (j : Json) (h : j ≠ .null) :
    fromJson (.opt t) j = (fromJson t j).map .some := by
  cases j <;> first | exact absurd rfl h | simp [fromJson]

/-- a conforming value of a non-`opt` type does not serialise to `null` -/
theorem toJson_ne_null {t : STy} {v : SVal} (ht : isOpt t = false) (hc : conforms t v = true) :
    toJson v ≠ .null := by
  cases t <;> cases v <;> simp_all [isOpt, conforms, toJson]

/-! ## enums -/

theorem unit_roundtrip : ∀ (vs : SVariants) (n : String), hasUnit vs n = true →
    unitFromJson vs n = some (.unitVariant n)
  | .nil, _, h => by simp [hasUnit] at h
  | .unit m rest, n, h => by
    simp only [unitFromJson]
    by_cases e : m = n
    · subst e; simp
    · have : hasUnit rest n = true := by simpa [hasUnit, e] using h
      simp [e, unit_roundtrip rest n this]
  | .newtype _ _ rest, n, h => by
    simp only [unitFromJson]
    exact unit_roundtrip rest n (by simpa [hasUnit] using h)

theorem conformsNewtype_name : ∀ {vs : SVariants} {n : String} {v : SVal},
    conformsNewtype vs n v = true → n ∈ vs.names
  | .nil, _, _, h => by simp [conformsNewtype] at h
  | .unit _ rest, n, v, h => by
    simp only [conformsNewtype] at h
    simp [SVariants.names, conformsNewtype_name h]
  | .newtype m t rest, n, v, h => by
    simp only [conformsNewtype, Bool.or_eq_true, Bool.and_eq_true, beq_iff_eq] at h
    simp only [SVariants.names, List.mem_cons]
    rcases h with h | h
    · exact Or.inl h.1.symm
    · exact Or.inr (conformsNewtype_name h)

/-! ## main theorem -/

mutual
  theorem roundtrip_aux : ∀ (t : STy) (v : SVal), wf t = true → conforms t v = true →
      fromJson t (toJson v) = some v
    | .f64, v, _, hc => by cases v <;> simp_all [conforms, toJson, fromJson]
    | .u64, v, _, hc => by cases v <;> simp_all [conforms, toJson, fromJson]
    | .bool, v, _, hc => by cases v <;> simp_all [conforms, toJson, fromJson]
    | .opt t, .none, _, _ => by simp [toJson, fromJson]
    | .opt t, .some v, hwf, hc => by
      simp only [wf, Bool.and_eq_true, Bool.not_eq_true'] at hwf
      simp only [conforms] at hc
      simp only [toJson]
      rw [fromJson_opt_nonnull _ _ (toJson_ne_null hwf.1 hc), roundtrip_aux t v hwf.2 hc]
      rfl
    | .opt _, .f64 _, _, hc => by simp [conforms] at hc
    | .opt _, .u64 _, _, hc => by simp [conforms] at hc
    | .opt _, .bool _, _, hc => by simp [conforms] at hc
    | .opt _, .struct _, _, hc => by simp [conforms] at hc
    | .opt _, .unitVariant _, _, hc => by simp [conforms] at hc
    | .opt _, .newtypeVariant _ _, _, hc => by simp [conforms] at hc
    | .struct fs, .struct vs, hwf, hc => by
      simp only [wf, Bool.and_eq_true, decide_eq_true_eq] at hwf
      simp only [conforms] at hc
      have hnd : (fvNames vs).Nodup := by rw [conformsFields_names hc]; exact hwf.1
      simp only [toJson, fromJson]
      rw [fields_aux fs vs (fieldsToJson vs) hwf.2 hc (fun n v h => get_fieldsToJson hnd h)]
      rfl
    | .struct _, .f64 _, _, hc => by simp [conforms] at hc
    | .struct _, .u64 _, _, hc => by simp [conforms] at hc
    | .struct _, .bool _, _, hc => by simp [conforms] at hc
    | .struct _, .none, _, hc => by simp [conforms] at hc
    | .struct _, .some _, _, hc => by simp [conforms] at hc
    | .struct _, .unitVariant _, _, hc => by simp [conforms] at hc
    | .struct _, .newtypeVariant _ _, _, hc => by simp [conforms] at hc
    | .enum vs, .unitVariant n, _, hc => by
      simp only [conforms] at hc
      simp only [toJson, fromJson]
      exact unit_roundtrip vs n hc
    | .enum vs, .newtypeVariant n v, hwf, hc => by
      simp only [wf, Bool.and_eq_true, decide_eq_true_eq] at hwf
      simp only [conforms] at hc
      simp only [toJson, fromJson]
      exact newtype_aux vs n v hwf.2 hwf.1 hc
    | .enum _, .f64 _, _, hc => by simp [conforms] at hc
    | .enum _, .u64 _, _, hc => by simp [conforms] at hc
    | .enum _, .bool _, _, hc => by simp [conforms] at hc
    | .enum _, .none, _, hc => by simp [conforms] at hc
    | .enum _, .some _, _, hc => by simp [conforms] at hc
    | .enum _, .struct _, _, hc => by simp [conforms] at hc
  /-- the field list is a suffix of the struct's fields, the object stays whole -/
  theorem fields_aux : ∀ (fs : SFields) (vs : SFVals) (ms : JMembers), wfFields fs = true →
      conformsFields fs vs = true →
      (∀ n v, fvMem n v vs → ms.get? n = some (toJson v)) →
      fieldsFromJson fs ms = some vs
    | .nil, .nil, _, _, _, _ => by simp [fieldsFromJson]
    | .nil, .cons _ _ _, _, _, hc, _ => by simp [conformsFields] at hc
    | .cons _ _ _, .nil, _, _, hc, _ => by simp [conformsFields] at hc
    | .cons n t rest, .cons n' v vs, ms, hwf, hc, hget => by
      simp only [wfFields, Bool.and_eq_true] at hwf
      simp only [conformsFields, Bool.and_eq_true, beq_iff_eq] at hc
      obtain ⟨⟨hn, hcv⟩, hcr⟩ := hc
      subst hn
      have h1 : ms.get? n = some (toJson v) := hget n v (Or.inl ⟨rfl, rfl⟩)
      have h2 := roundtrip_aux t v hwf.1 hcv
      have h3 := fields_aux rest vs ms hwf.2 hcr (fun m w h => hget m w (Or.inr h))
      simp [fieldsFromJson, h1, h2, h3]
  theorem newtype_aux : ∀ (vs : SVariants) (n : String) (v : SVal), wfVariants vs = true →
      (vs.names).Nodup → conformsNewtype vs n v = true →
      newtypeFromJson vs n (toJson v) = some (.newtypeVariant n v)
    | .nil, _, _, _, _, hc => by simp [conformsNewtype] at hc
    | .unit _ rest, n, v, hwf, hnd, hc => by
      simp only [wfVariants] at hwf
      simp only [SVariants.names, List.nodup_cons] at hnd
      simp only [conformsNewtype] at hc
      simp only [newtypeFromJson]
      exact newtype_aux rest n v hwf hnd.2 hc
    | .newtype m t rest, n, v, hwf, hnd, hc => by
      simp only [wfVariants, Bool.and_eq_true] at hwf
      simp only [SVariants.names, List.nodup_cons] at hnd
      simp only [conformsNewtype, Bool.or_eq_true, Bool.and_eq_true, beq_iff_eq] at hc
      simp only [newtypeFromJson]
      by_cases e : m = n
      · subst e
        have hcv : conforms t v = true := by
          rcases hc with h | h
          · exact h.2
          · exact absurd (conformsNewtype_name h) hnd.1
        simp [roundtrip_aux t v hwf.1 hcv]
      · have hcr : conformsNewtype rest n v = true := by
          rcases hc with h | h
          · exact absurd h.1 e
          · exact h
        simp [e, newtype_aux rest n v hwf.2 hnd.2 hcr]
end

/-- **C19 / JSON round trip**: a value conforming to a well-formed descriptor is recovered exactly
    by deserialising its serialisation. -/
theorem roundtrip (t : STy) (v : SVal) (hwf : wf t = true) (hc : conforms t v = true) :
    fromJson t (toJson v) = some v :=
  roundtrip_aux t v hwf hc

/-! ## converse: whatever `fromJson` accepts conforms -/

theorem unitFromJson_sound : ∀ (vs : SVariants) (s : String) (r : SVal),
    unitFromJson vs s = some r → r = .unitVariant s ∧ hasUnit vs s = true
  | .nil, _, _, h => by simp [unitFromJson] at h
  | .unit m rest, s, r, h => by
    simp only [unitFromJson] at h
    by_cases e : m = s
    · subst e
      simp only [beq_self_eq_true, if_true, Option.some.injEq] at h
      subst h; simp [hasUnit]
    · have e' : (m == s) = false := by simpa using e
      simp only [e', Bool.false_eq_true, if_false] at h
      have ih := unitFromJson_sound rest s r h
      simp [hasUnit, ih.1, ih.2]
  | .newtype _ _ rest, s, r, h => by
    simp only [unitFromJson] at h
    have ih := unitFromJson_sound rest s r h
    simp [hasUnit, ih.1, ih.2]

mutual
  /-- **C19 / type safety of deserialisation** (needs no well-formedness) -/
  theorem fromJson_conforms : ∀ (t : STy) (j : Json) (v : SVal), fromJson t j = some v →
      conforms t v = true
    | .f64, j, v, h => by
      cases j <;> simp [fromJson] at h <;> subst h <;> simp [conforms]
    | .u64, j, v, h => by
      cases j <;> simp [fromJson] at h <;> subst h <;> simp [conforms]
    | .bool, j, v, h => by
      cases j <;> simp [fromJson] at h <;> subst h <;> simp [conforms]
    | .opt t, j, v, h => by
      by_cases hj : j = .null
      · subst hj
        simp only [fromJson, Option.some.injEq] at h
        subst h; simp [conforms]
      · rw [fromJson_opt_nonnull t j hj] at h
        cases hr : fromJson t j with
        | none => simp [hr] at h
        | some w =>
          simp only [hr, Option.map_some, Option.some.injEq] at h
          subst h
          simpa [conforms] using fromJson_conforms t j w hr
    | .struct fs, j, v, h => by
      cases j with
      | obj ms =>
        simp only [fromJson] at h
        cases hr : fieldsFromJson fs ms with
        | none => simp [hr] at h
        | some w =>
          simp only [hr, Option.map_some, Option.some.injEq] at h
          subst h
          simpa [conforms] using fieldsFromJson_conforms fs ms w hr
      | _ => simp [fromJson] at h
    | .enum vs, j, v, h => by
      cases j with
      | str s =>
        simp only [fromJson] at h
        obtain ⟨h1, h2⟩ := unitFromJson_sound vs s v h
        subst h1; simpa [conforms] using h2
      | obj ms =>
        cases ms with
        | nil => simp [fromJson] at h
        | cons k w rest =>
          cases rest with
          | nil =>
            simp only [fromJson] at h
            exact newtypeFromJson_conforms vs k w v h
          | cons _ _ _ => simp [fromJson] at h
      | _ => simp [fromJson] at h
  theorem fieldsFromJson_conforms : ∀ (fs : SFields) (ms : JMembers) (vs : SFVals),
      fieldsFromJson fs ms = some vs → conformsFields fs vs = true
    | .nil, _, vs, h => by
      simp only [fieldsFromJson, Option.some.injEq] at h
      subst h; simp [conformsFields]
    | .cons n t rest, ms, vs, h => by
      simp only [fieldsFromJson] at h
      cases h1 : ms.get? n with
      | none => simp [h1] at h
      | some j =>
        cases h2 : fromJson t j with
        | none => simp [h1, h2] at h
        | some w =>
          cases h3 : fieldsFromJson rest ms with
          | none => simp [h1, h2, h3] at h
          | some ws =>
            simp only [h1, h2, h3, Option.some.injEq] at h
            subst h
            simp [conformsFields, fromJson_conforms t j w h2, fieldsFromJson_conforms rest ms ws h3]
  theorem newtypeFromJson_conforms : ∀ (vs : SVariants) (k : String) (j : Json) (r : SVal),
      newtypeFromJson vs k j = some r → conforms (.enum vs) r = true
    | .nil, _, _, _, h => by simp [newtypeFromJson] at h
    | .unit _ rest, k, j, r, h => by
      simp only [newtypeFromJson] at h
      have ih := newtypeFromJson_conforms rest k j r h
      cases r <;> simp_all [conforms, hasUnit, conformsNewtype]
    | .newtype m t rest, k, j, r, h => by
      simp only [newtypeFromJson] at h
      by_cases e : m = k
      · subst e
        simp only [beq_self_eq_true, if_true] at h
        cases hr : fromJson t j with
        | none => simp [hr] at h
        | some w =>
          simp only [hr, Option.map_some, Option.some.injEq] at h
          subst h
          simp [conforms, conformsNewtype, fromJson_conforms t j w hr]
      · have e' : (m == k) = false := by simpa using e
        simp only [e', Bool.false_eq_true, if_false] at h
        have ih := newtypeFromJson_conforms rest k j r h
        cases r <;> simp_all [conforms, hasUnit, conformsNewtype]
end

/-! ## non-vacuity: a concrete descriptor and value -/

deriving instance DecidableEq for SVal, SFVals

/-- `struct { step: f64, depth: Option<u64>, inner: struct { on: bool, n: u64 }, mode: enum { Off, Scale(f64) } }` -/
def exTy : STy :=
  .struct (.cons "step" .f64 (.cons "depth" (.opt .u64)
    (.cons "inner" (.struct (.cons "on" .bool (.cons "n" .u64 .nil)))
    (.cons "mode" (.enum (.unit "Off" (.newtype "Scale" .f64 .nil))) .nil))))

def exVal (d : SVal) (m : SVal) : SVal :=
  .struct (.cons "step" (.f64 7) (.cons "depth" d
    (.cons "inner" (.struct (.cons "on" (.bool true) (.cons "n" (.u64 3) .nil)))
    (.cons "mode" m .nil))))

example : wf exTy = true := by decide
example : conforms exTy (exVal (.some (.u64 10)) (.newtypeVariant "Scale" (.f64 5))) = true := by decide
example : conforms exTy (exVal .none (.unitVariant "Off")) = true := by decide
example : fromJson exTy (toJson (exVal (.some (.u64 10)) (.newtypeVariant "Scale" (.f64 5))))
    = some (exVal (.some (.u64 10)) (.newtypeVariant "Scale" (.f64 5))) := by decide
example : fromJson exTy (toJson (exVal .none (.unitVariant "Off")))
    = some (exVal .none (.unitVariant "Off")) := by decide
/-- the hypotheses are not redundant: duplicate field names break the round trip … -/
example : fromJson (.struct (.cons "a" .u64 (.cons "a" .u64 .nil)))
    (toJson (.struct (.cons "a" (.u64 1) (.cons "a" (.u64 2) .nil))))
    ≠ some (.struct (.cons "a" (.u64 1) (.cons "a" (.u64 2) .nil))) := by decide
/-- … and so does `Option<Option<_>>` (`Some(None)` comes back as `None`). -/
example : fromJson (.opt (.opt .u64)) (toJson (.some .none)) ≠ some (.some .none) := by decide

#print axioms NutsModel.C19.roundtrip
#print axioms NutsModel.C19.fromJson_conforms
end NutsModel.C19
