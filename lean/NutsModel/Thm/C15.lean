/-
C15 — the Zarr chain storage (`Model/ZarrStore.lean`, mirroring `storage/zarr/common.rs::SampleBuffer`
and `storage/zarr/sync_impl.rs::{store_zarr_chunk, record_sample, flush, finalize}`), for ONE
variable of ONE chain.

For every value type `ν`, every chunk size `chunk ≥ 1` and every op list `ops` whose tuning flags
are monotone (`monotoneTuning ops = true`, i.e. `true … true false … false`):
 1. `store_sound`      : a readable cell of the warmup / sampling array always holds the value that
                         was recorded at that index (`recordedWarm ops` / `recordedSamp ops`);
 2. `flush_complete`   : immediately after `flush` *every* value recorded so far is readable in both
                         arrays (any chunk size / count relation, warmup or sampling phase);
 3. `finalize_complete`: the same after `finalize`;
 4. `flushed_data_stable` : whatever is readable after `ops ++ [.flush]` is still readable with the
                         same value after `ops ++ [.flush] ++ more` (generalised: `readable_stable`);
 5. `crash_after_flush_loses_only_tail` : after `ops ++ [.flush] ++ more` (no final flush) every
                         value recorded in `ops` is readable with the right value.
Also `defined_stays_defined` (no hypotheses: no operation ever un-defines a cell) and
`buffer_bounded` (the buffer holds fewer than `chunk` items between operations).

Proof: `BufInv f c items arr L` ("`arr` + partial chunk `items` represent the list `L`") with its
`snoc` / `write` / `commit` rules; `Core f W S s`, the two-phase state invariant built from `BufInv`
(warmup phase: `S = []` and `BufInv … warm W`; sampling phase: `warm` complete and `BufInv … samp S`);
`Inv` ties the phase to the history (`lastWasWarmup = !hasFalse ops`); induction over `ops` from the
right (`inv_run`).  `monotoneTuning` is used exactly once: a `.record true _` can only arrive while
no `.record false _` has been seen (`hasFalse_of_monotone_true`).  The hypothesis is necessary, see
the counterexample `not_sound_without_monotone` at the end of the file.
-/
import NutsModel.Model.ZarrStore
import Mathlib.Tactic.SplitIfs
import Mathlib.Tactic.Cases
import Mathlib.Data.List.Induction

namespace NutsModel.C15
open NutsModel.Model

variable {ν : Type}

/-! ### history lemmas -/

theorem recordedWarm_append (a b : List (ZOp ν)) :
    recordedWarm (a ++ b) = recordedWarm a ++ recordedWarm b := by
  induction a with
  | nil => simp [recordedWarm]
  | cons o r ih =>
    rcases o with ⟨t, v⟩ | _
    · cases t <;> cases v <;> simp [recordedWarm, ih]
    · simp [recordedWarm, ih]

theorem recordedSamp_append (a b : List (ZOp ν)) :
    recordedSamp (a ++ b) = recordedSamp a ++ recordedSamp b := by
  induction a with
  | nil => simp [recordedSamp]
  | cons o r ih =>
    rcases o with ⟨t, v⟩ | _
    · cases t <;> cases v <;> simp [recordedSamp, ih]
    · simp [recordedSamp, ih]

/-- some `.record false _` has occurred -/
def hasFalse : List (ZOp ν) → Bool
  | [] => false
  | .record false _ :: _ => true
  | _ :: r => hasFalse r

theorem hasFalse_append (a b : List (ZOp ν)) :
    hasFalse (a ++ b) = (hasFalse a || hasFalse b) := by
  induction a with
  | nil => simp [hasFalse]
  | cons o r ih =>
    rcases o with ⟨t, v⟩ | _
    · cases t <;> simp [hasFalse, ih]
    · simp [hasFalse, ih]

theorem recordedSamp_of_hasFalse (a : List (ZOp ν)) (h : hasFalse a = false) :
    recordedSamp a = [] := by
  induction a with
  | nil => simp [recordedSamp]
  | cons o r ih =>
    rcases o with ⟨t, v⟩ | _
    · cases t
      · simp [hasFalse] at h
      · cases v <;> simp [hasFalse] at h <;> simp [recordedSamp, ih h]
    · simp [hasFalse] at h; simp [recordedSamp, ih h]

theorem monotoneTuning_prefix (a b : List (ZOp ν)) (h : monotoneTuning (a ++ b) = true) :
    monotoneTuning a = true := by
  induction a with
  | nil => simp [monotoneTuning]
  | cons o r ih =>
    rcases o with ⟨t, v⟩ | _
    · cases t
      · simp only [List.cons_append, monotoneTuning, Bool.and_eq_true, List.all_append] at h ⊢
        exact ⟨h.1.1, ih h.2⟩
      · simp only [List.cons_append, monotoneTuning] at h ⊢
        exact ih h
    · simp only [List.cons_append, monotoneTuning] at h ⊢
      exact ih h

theorem hasFalse_of_monotone_true (a : List (ZOp ν)) (v : Option ν)
    (h : monotoneTuning (a ++ [.record true v]) = true) : hasFalse a = false := by
  induction a with
  | nil => simp [hasFalse]
  | cons o r ih =>
    rcases o with ⟨t, w⟩ | _
    · cases t
      · simp [monotoneTuning] at h
      · simp only [List.cons_append, monotoneTuning] at h
        simp [hasFalse, ih h]
    · simp only [List.cons_append, monotoneTuning] at h
      simp [hasFalse, ih h]


/-! ### the buffered-array invariant -/

/-- `arr` together with the partial chunk `items` (chunk number `c`, chunk size `f`) represents
the list `L`: committed chunks are readable, the tail is in the buffer, nothing wrong is readable -/
structure BufInv (f c : Nat) (items : List ν) (arr : ZArr ν) (L : List ν) : Prop where
  len : L.length = c * f + items.length
  items_eq : items = L.drop (c * f)
  committed : ∀ i, i < c * f → arr i = L[i]?
  sound : ∀ i v, arr i = some v → L[i]? = some v

theorem sound_snoc {arr : ZArr ν} {L : List ν} (x : List ν)
    (h : ∀ i v, arr i = some v → L[i]? = some v) :
    ∀ i v, arr i = some v → (L ++ x)[i]? = some v := by
  intro i v hv
  have := h i v hv
  have hi : i < L.length := by
    rcases Nat.lt_or_ge i L.length with hlt | hge
    · exact hlt
    · rw [List.getElem?_eq_none hge] at this; cases this
  rw [List.getElem?_append_left hi]; exact this

theorem BufInv.snoc {f c : Nat} {items : List ν} {arr : ZArr ν} {L : List ν}
    (h : BufInv f c items arr L) (x : ν) : BufInv f c (items ++ [x]) arr (L ++ [x]) where
  len := by simp [h.len]; omega
  items_eq := by
    have : c * f ≤ L.length := by have := h.len; omega
    rw [List.drop_append_of_le_length this, ← h.items_eq]
  committed := by
    intro i hi
    have : i < L.length := by have := h.len; omega
    rw [List.getElem?_append_left this]; exact h.committed i hi
  sound := sound_snoc _ h.sound

theorem BufInv.inRange {f c : Nat} {items : List ν} {arr : ZArr ν} {L : List ν}
    (h : BufInv f c items arr L) (i : Nat) (h1 : c * f ≤ i) :
    items[i - c * f]? = L[i]? := by
  rw [h.items_eq, List.getElem?_drop]
  congr 1; omega

theorem BufInv.write_complete {f c : Nat} {items : List ν} {arr : ZArr ν} {L : List ν}
    (h : BufInv f c items arr L) (i : Nat) (hi : i < L.length) :
    writeChunk arr f c items i = L[i]? := by
  unfold writeChunk
  have := h.len
  split_ifs with hr
  · exact h.inRange i hr.1
  · have : i < c * f := by
      rcases Nat.lt_or_ge i (c * f) with hlt | hge
      · exact hlt
      · exact absurd ⟨hge, by omega⟩ hr
    exact h.committed i this

theorem BufInv.write_sound {f c : Nat} {items : List ν} {arr : ZArr ν} {L : List ν}
    (h : BufInv f c items arr L) (i : Nat) (v : ν) (hv : writeChunk arr f c items i = some v) :
    L[i]? = some v := by
  unfold writeChunk at hv
  split_ifs at hv with hr
  · rw [← h.inRange i hr.1]; exact hv
  · exact h.sound i v hv

/-- `flush` keeps the invariant -/
theorem BufInv.write {f c : Nat} {items : List ν} {arr : ZArr ν} {L : List ν}
    (h : BufInv f c items arr L) : BufInv f c items (writeChunk arr f c items) L where
  len := h.len
  items_eq := h.items_eq
  committed := by
    intro i hi
    have := h.len
    exact h.write_complete i (by omega)
  sound := h.write_sound

/-- a full chunk is committed -/
theorem BufInv.commit {f c : Nat} {items : List ν} {arr : ZArr ν} {L : List ν}
    (h : BufInv f c items arr L) (hf : items.length = f) :
    BufInv f (c + 1) [] (writeChunk arr f c items) L where
  len := by have := h.len; simp [Nat.succ_mul]; omega
  items_eq := by
    symm; apply List.drop_eq_nil_of_le
    have := h.len; simp [Nat.succ_mul]; omega
  committed := by
    intro i hi
    have := h.len
    exact h.write_complete i (by simp [Nat.succ_mul] at hi; omega)
  sound := h.write_sound


/-! ### the state invariant -/

/-- the invariant of a reachable state, relative to the histories `W` (warmup) and `S` (sampling) -/
structure Core (f : Nat) (W S : List ν) (s : ZSt ν) : Prop where
  fullAt : s.buf.fullAt = f
  lt : s.buf.items.length < f
  soundW : ∀ i v, s.warm i = some v → W[i]? = some v
  soundS : ∀ i v, s.samp i = some v → S[i]? = some v
  warmCase : s.lastWasWarmup = true →
    S = [] ∧ BufInv f s.buf.currentChunk s.buf.items s.warm W
  sampCase : s.lastWasWarmup = false →
    BufInv f s.buf.currentChunk s.buf.items s.samp S ∧ ∀ i, i < W.length → s.warm i = W[i]?

theorem core_init (f : Nat) (hf : 1 ≤ f) : Core f ([] : List ν) [] (ZSt.init f) where
  fullAt := rfl
  lt := by simp [ZSt.init]; omega
  soundW := by simp [ZSt.init]
  soundS := by simp [ZSt.init]
  warmCase := fun _ => ⟨rfl, ⟨by simp [ZSt.init], by simp [ZSt.init], by simp [ZSt.init],
    by simp [ZSt.init]⟩⟩
  sampCase := by simp [ZSt.init]

theorem core_flush {f : Nat} {W S : List ν} {s : ZSt ν} (h : Core f W S s) :
    Core f W S s.flush ∧ s.flush.lastWasWarmup = s.lastWasWarmup := by
  obtain ⟨⟨items, fa, c⟩, warm, samp, lw⟩ := s
  have hfa : fa = f := h.fullAt
  subst hfa
  cases lw
  · obtain ⟨hb, hw⟩ := h.sampCase rfl
    simp only [ZSt.flush, Bool.false_eq_true, if_false]
    split_ifs with h1
    · exact ⟨h, rfl⟩
    · exact ⟨⟨rfl, h.lt, h.soundW, hb.write_sound, by simp, fun _ => ⟨hb.write, hw⟩⟩, rfl⟩
  · obtain ⟨hS, hb⟩ := h.warmCase rfl
    simp only [ZSt.flush, if_true]
    split_ifs with h1
    · exact ⟨h, rfl⟩
    · exact ⟨⟨rfl, h.lt, hb.write_sound, h.soundS, fun _ => ⟨hS, hb.write⟩, by simp⟩, rfl⟩

/-- after a flush everything recorded so far is readable -/
theorem core_flush_complete {f : Nat} {W S : List ν} {s : ZSt ν} (h : Core f W S s) :
    (∀ i, i < W.length → s.flush.warm i = W[i]?) ∧
    (∀ i, i < S.length → s.flush.samp i = S[i]?) := by
  obtain ⟨⟨items, fa, c⟩, warm, samp, lw⟩ := s
  have hfa : fa = f := h.fullAt
  subst hfa
  cases lw
  · obtain ⟨hb, hw⟩ := h.sampCase rfl
    simp only at hb hw
    simp only [ZSt.flush, Bool.false_eq_true, if_false]
    split_ifs with h1
    · subst h1
      refine ⟨hw, fun i hi => hb.committed i ?_⟩
      have := hb.len; simp at this; omega
    · exact ⟨hw, hb.write_complete⟩
  · obtain ⟨hS, hb⟩ := h.warmCase rfl
    simp only at hb
    subst hS
    simp only [ZSt.flush, if_true]
    split_ifs with h1
    · subst h1
      refine ⟨fun i hi => hb.committed i ?_, by simp⟩
      have := hb.len; simp at this; omega
    · exact ⟨hb.write_complete, by simp⟩

/-- the warmup → sampling transition -/
theorem core_transition {f : Nat} {W : List ν} {s : ZSt ν} (h : Core f W [] s)
    (hl : s.lastWasWarmup = true) (hf : 1 ≤ f) :
    Core f W [] s.transition ∧ s.transition.lastWasWarmup = false := by
  obtain ⟨⟨items, fa, c⟩, warm, samp, lw⟩ := s
  have hfa : fa = f := h.fullAt
  subst hfa
  simp only at hl; subst hl
  obtain ⟨-, hb⟩ := h.warmCase rfl
  simp only at hb
  refine ⟨⟨rfl, by simp [ZSt.transition]; omega, ?_, h.soundS, by simp [ZSt.transition], fun _ => ⟨?_, ?_⟩⟩, rfl⟩
  · simp only [ZSt.transition]
    split_ifs with h1
    · exact h.soundW
    · exact hb.write_sound
  · simp only [ZSt.transition]
    exact ⟨by simp, by simp, by simp, h.soundS⟩
  · simp only [ZSt.transition]
    split_ifs with h1
    · subst h1
      intro i hi; refine hb.committed i ?_
      have := hb.len; simp at this; omega
    · exact hb.write_complete

/-- pushing a present value in the warmup phase -/
theorem core_push_warm {f : Nat} {W S : List ν} {s : ZSt ν} (h : Core f W S s)
    (hl : s.lastWasWarmup = true) (x : ν) :
    Core f (W ++ [x]) S (s.record true (some x)) ∧
      (s.record true (some x)).lastWasWarmup = true := by
  obtain ⟨⟨items, fa, c⟩, warm, samp, lw⟩ := s
  have hfa : fa = f := h.fullAt
  subst hfa
  simp only at hl; subst hl
  obtain ⟨hS, hb⟩ := h.warmCase rfl
  simp only at hb
  have hlt := h.lt
  simp only at hlt
  have hb' := hb.snoc x
  simp only [ZSt.record, Bool.not_true, Bool.and_false, Bool.false_eq_true, if_false, if_true]
  split_ifs with h1
  · refine ⟨⟨rfl, by simp; omega, ?_, h.soundS, fun _ => ⟨hS, hb'.commit h1⟩, by simp⟩, rfl⟩
    exact hb'.write_sound
  · refine ⟨⟨rfl, ?_, hb'.sound, h.soundS, fun _ => ⟨hS, hb'⟩, by simp⟩, rfl⟩
    simp at h1 ⊢; omega

/-- pushing a present value in the sampling phase -/
theorem core_push_samp {f : Nat} {W S : List ν} {s : ZSt ν} (h : Core f W S s)
    (hl : s.lastWasWarmup = false) (x : ν) :
    Core f W (S ++ [x]) (s.record false (some x)) ∧
      (s.record false (some x)).lastWasWarmup = false := by
  obtain ⟨⟨items, fa, c⟩, warm, samp, lw⟩ := s
  have hfa : fa = f := h.fullAt
  subst hfa
  simp only at hl; subst hl
  obtain ⟨hb, hw⟩ := h.sampCase rfl
  simp only at hb hw
  have hlt := h.lt
  simp only at hlt
  have hb' := hb.snoc x
  simp only [ZSt.record, Bool.false_and, Bool.false_eq_true, if_false]
  split_ifs with h1
  · refine ⟨⟨rfl, by simp; omega, h.soundW, ?_, by simp, fun _ => ⟨hb'.commit h1, hw⟩⟩, rfl⟩
    exact hb'.write_sound
  · refine ⟨⟨rfl, ?_, h.soundW, hb'.sound, by simp, fun _ => ⟨hb', hw⟩⟩, rfl⟩
    simp at h1 ⊢; omega


theorem record_none_true (s : ZSt ν) : s.record true none = s := by
  simp [ZSt.record]

theorem record_false_of_warm (s : ZSt ν) (v : Option ν) (hl : s.lastWasWarmup = true) :
    s.record false v = s.transition.record false v := by
  have : s.transition.lastWasWarmup = false := rfl
  cases v <;> simp [ZSt.record, hl, this]

theorem record_none_false_of_samp (s : ZSt ν) (hl : s.lastWasWarmup = false) :
    s.record false none = s := by
  simp [ZSt.record, hl]

theorem record_none_false_of_warm (s : ZSt ν) (hl : s.lastWasWarmup = true) :
    s.record false none = s.transition := by
  simp [ZSt.record, hl]

/-- the invariant tied to an op history -/
def Inv (f : Nat) (ops : List (ZOp ν)) (s : ZSt ν) : Prop :=
  Core f (recordedWarm ops) (recordedSamp ops) s ∧ s.lastWasWarmup = !hasFalse ops

theorem inv_step {f : Nat} (hf : 1 ≤ f) {ops : List (ZOp ν)} {s : ZSt ν} (h : Inv f ops s)
    (op : ZOp ν) (hm : monotoneTuning (ops ++ [op]) = true) : Inv f (ops ++ [op]) (s.step op) := by
  obtain ⟨hc, hp⟩ := h
  rcases op with ⟨t, v⟩ | _
  · cases t
    · -- `.record false v`
      have hF : hasFalse (ops ++ [ZOp.record false v]) = true := by simp [hasFalse_append, hasFalse]
      have hWeq : recordedWarm (ops ++ [ZOp.record false v]) = recordedWarm ops := by
        cases v <;> simp [recordedWarm_append, recordedWarm]
      -- first bring the state into the sampling phase
      have key : ∃ s', Core f (recordedWarm ops) (recordedSamp ops) s' ∧ s'.lastWasWarmup = false ∧
          s.record false v = s'.record false v := by
        cases hl : s.lastWasWarmup
        · exact ⟨s, hc, hl, rfl⟩
        · have hS : recordedSamp ops = [] := (hc.warmCase hl).1
          rw [hS] at hc ⊢
          obtain ⟨hc', hl'⟩ := core_transition hc hl hf
          exact ⟨s.transition, hc', hl', record_false_of_warm s v hl⟩
      obtain ⟨s', hc', hl', heq⟩ := key
      unfold Inv
      rw [hWeq, hF]
      simp only [ZSt.step, heq]
      cases v with
      | none =>
        rw [record_none_false_of_samp s' hl']
        refine ⟨?_, by simpa using hl'⟩
        simpa [recordedSamp_append, recordedSamp] using hc'
      | some x =>
        obtain ⟨h1, h2⟩ := core_push_samp hc' hl' x
        refine ⟨?_, by simpa using h2⟩
        simpa [recordedSamp_append, recordedSamp] using h1
    · -- `.record true v`
      have hnf : hasFalse ops = false := hasFalse_of_monotone_true ops v hm
      have hl : s.lastWasWarmup = true := by rw [hp, hnf]; rfl
      have hF : hasFalse (ops ++ [ZOp.record true v]) = false := by
        simp [hasFalse_append, hasFalse, hnf]
      have hSeq : recordedSamp (ops ++ [ZOp.record true v]) = recordedSamp ops := by
        cases v <;> simp [recordedSamp_append, recordedSamp]
      unfold Inv
      rw [hSeq, hF]
      simp only [ZSt.step]
      cases v with
      | none =>
        rw [record_none_true]
        refine ⟨?_, by simpa using hl⟩
        simpa [recordedWarm_append, recordedWarm] using hc
      | some x =>
        obtain ⟨h1, h2⟩ := core_push_warm hc hl x
        refine ⟨?_, by simpa using h2⟩
        simpa [recordedWarm_append, recordedWarm] using h1
  · -- `.flush`
    obtain ⟨h1, h2⟩ := core_flush hc
    unfold Inv
    simp only [ZSt.step]
    refine ⟨?_, ?_⟩
    · simpa [recordedWarm_append, recordedSamp_append, recordedWarm, recordedSamp] using h1
    · rw [h2, hp]; simp [hasFalse_append, hasFalse]

theorem run_append (s : ZSt ν) (a b : List (ZOp ν)) : s.run (a ++ b) = (s.run a).run b := by
  simp [ZSt.run, List.foldl_append]

theorem run_snoc (s : ZSt ν) (a : List (ZOp ν)) (op : ZOp ν) :
    s.run (a ++ [op]) = (s.run a).step op := by
  simp [ZSt.run, List.foldl_append]

/-- every reachable state satisfies the invariant -/
theorem inv_run {f : Nat} (hf : 1 ≤ f) (ops : List (ZOp ν)) (hm : monotoneTuning ops = true) :
    Inv f ops ((ZSt.init f).run ops) := by
  induction ops using List.reverseRecOn with
  | nil => exact ⟨core_init f hf, rfl⟩
  | append_singleton l op ih =>
    rw [run_snoc]
    exact inv_step hf (ih (monotoneTuning_prefix _ _ hm)) op hm


/-! ### a defined cell is never un-defined -/

theorem writeChunk_isSome (a : ZArr ν) (f c : Nat) (items : List ν) (i : Nat)
    (h : (a i).isSome = true) : (writeChunk a f c items i).isSome = true := by
  unfold writeChunk
  split_ifs with hr
  · rw [List.getElem?_eq_getElem (by omega)]; rfl
  · exact h

theorem step_defined (s : ZSt ν) (op : ZOp ν) (i : Nat) :
    ((s.warm i).isSome = true → ((s.step op).warm i).isSome = true) ∧
    ((s.samp i).isSome = true → ((s.step op).samp i).isSome = true) := by
  obtain ⟨⟨items, fa, c⟩, warm, samp, lw⟩ := s
  rcases op with ⟨t, v⟩ | _
  · cases t <;> cases v <;> cases lw <;>
      simp only [ZSt.step, ZSt.record, ZSt.transition, Bool.not_true, Bool.not_false,
        Bool.and_false, Bool.and_true, Bool.false_eq_true, if_false, if_true] <;>
      refine ⟨fun h => ?_, fun h => ?_⟩
    all_goals (repeat' split_ifs)
    all_goals
      first
        | exact h
        | exact writeChunk_isSome _ _ _ _ _ h
  · cases lw <;>
      simp only [ZSt.step, ZSt.flush, Bool.false_eq_true, if_false, if_true] <;>
      refine ⟨fun h => ?_, fun h => ?_⟩
    all_goals (repeat' split_ifs)
    all_goals
      first
        | exact h
        | exact writeChunk_isSome _ _ _ _ _ h

/-- `defined_stays_defined`: no operation sequence ever un-defines a readable cell -/
theorem defined_stays_defined (s : ZSt ν) (ops : List (ZOp ν)) (i : Nat) :
    ((s.warm i).isSome = true → ((s.run ops).warm i).isSome = true) ∧
    ((s.samp i).isSome = true → ((s.run ops).samp i).isSome = true) := by
  induction ops generalizing s with
  | nil => exact ⟨id, id⟩
  | cons op r ih =>
    have h1 := step_defined s op i
    have h2 := ih (s.step op)
    exact ⟨fun h => h2.1 (h1.1 h), fun h => h2.2 (h1.2 h)⟩

/-! ### the theorems -/

/-- 1. the store never exposes a wrong value -/
theorem store_sound (chunk : Nat) (hc : 1 ≤ chunk) (ops : List (ZOp ν))
    (hm : monotoneTuning ops = true) :
    let s := (ZSt.init chunk).run ops
    (∀ i v, s.warm i = some v → (recordedWarm ops)[i]? = some v) ∧
    (∀ i v, s.samp i = some v → (recordedSamp ops)[i]? = some v) := by
  have h := (inv_run hc ops hm).1
  exact ⟨h.soundW, h.soundS⟩

/-- 2. immediately after a flush a reader sees every value recorded so far, in both arrays -/
theorem flush_complete (chunk : Nat) (hc : 1 ≤ chunk) (ops : List (ZOp ν))
    (hm : monotoneTuning ops = true) :
    let s := ((ZSt.init chunk).run ops).flush
    (∀ i, i < (recordedWarm ops).length → s.warm i = (recordedWarm ops)[i]?) ∧
    (∀ i, i < (recordedSamp ops).length → s.samp i = (recordedSamp ops)[i]?) :=
  core_flush_complete (inv_run hc ops hm).1

/-- 3. the same after `finalize` -/
theorem finalize_complete (chunk : Nat) (hc : 1 ≤ chunk) (ops : List (ZOp ν))
    (hm : monotoneTuning ops = true) :
    let s := ((ZSt.init chunk).run ops).finalize
    (∀ i, i < (recordedWarm ops).length → s.warm i = (recordedWarm ops)[i]?) ∧
    (∀ i, i < (recordedSamp ops).length → s.samp i = (recordedSamp ops)[i]?) :=
  core_flush_complete (inv_run hc ops hm).1

/-- generic stability: whatever is readable after `ops` is readable, with the same value, after
`ops ++ more` -/
theorem readable_stable (chunk : Nat) (hc : 1 ≤ chunk) (ops more : List (ZOp ν))
    (hm : monotoneTuning (ops ++ more) = true) (i : Nat) (v : ν) :
    (((ZSt.init chunk).run ops).warm i = some v →
      ((ZSt.init chunk).run (ops ++ more)).warm i = some v) ∧
    (((ZSt.init chunk).run ops).samp i = some v →
      ((ZSt.init chunk).run (ops ++ more)).samp i = some v) := by
  have hm1 := monotoneTuning_prefix _ _ hm
  have s1 := store_sound chunk hc ops hm1
  have s2 := store_sound chunk hc (ops ++ more) hm
  have hd := defined_stays_defined ((ZSt.init chunk).run ops) more i
  rw [← run_append] at hd
  simp only at s1 s2
  constructor
  · intro h
    have hW := s1.1 i v h
    have hsome := hd.1 (by rw [h]; rfl)
    obtain ⟨v', hv'⟩ := Option.isSome_iff_exists.mp hsome
    have := s2.1 i v' hv'
    rw [recordedWarm_append] at this
    have hi : i < (recordedWarm ops).length := by
      rcases Nat.lt_or_ge i (recordedWarm ops).length with hlt | hge
      · exact hlt
      · rw [List.getElem?_eq_none hge] at hW; cases hW
    rw [List.getElem?_append_left hi, hW] at this
    rw [hv', ← this]
  · intro h
    have hS := s1.2 i v h
    have hsome := hd.2 (by rw [h]; rfl)
    obtain ⟨v', hv'⟩ := Option.isSome_iff_exists.mp hsome
    have := s2.2 i v' hv'
    rw [recordedSamp_append] at this
    have hi : i < (recordedSamp ops).length := by
      rcases Nat.lt_or_ge i (recordedSamp ops).length with hlt | hge
      · exact hlt
      · rw [List.getElem?_eq_none hge] at hS; cases hS
    rw [List.getElem?_append_left hi, hS] at this
    rw [hv', ← this]

/-- 4. flushed data are stable under any further operations -/
theorem flushed_data_stable (chunk : Nat) (hc : 1 ≤ chunk) (ops more : List (ZOp ν))
    (hm : monotoneTuning (ops ++ [.flush] ++ more) = true) (i : Nat) (v : ν) :
    (((ZSt.init chunk).run (ops ++ [.flush])).warm i = some v →
      ((ZSt.init chunk).run (ops ++ [.flush] ++ more)).warm i = some v) ∧
    (((ZSt.init chunk).run (ops ++ [.flush])).samp i = some v →
      ((ZSt.init chunk).run (ops ++ [.flush] ++ more)).samp i = some v) :=
  readable_stable chunk hc (ops ++ [.flush]) more hm i v

/-- 5. a crash after a flush loses only the un-flushed tail: everything recorded before the flush
is still readable, with the right value, whatever happened afterwards (no final flush needed) -/
theorem crash_after_flush_loses_only_tail (chunk : Nat) (hc : 1 ≤ chunk) (ops more : List (ZOp ν))
    (hm : monotoneTuning (ops ++ [.flush] ++ more) = true) :
    let s := (ZSt.init chunk).run (ops ++ [.flush] ++ more)
    (∀ i, i < (recordedWarm ops).length → s.warm i = (recordedWarm ops)[i]?) ∧
    (∀ i, i < (recordedSamp ops).length → s.samp i = (recordedSamp ops)[i]?) := by
  have hm1 : monotoneTuning ops = true :=
    monotoneTuning_prefix _ _ (monotoneTuning_prefix _ _ hm)
  have hfl := flush_complete chunk hc ops hm1
  simp only at hfl
  intro s
  constructor
  · intro i hi
    have h := hfl.1 i hi
    rw [List.getElem?_eq_getElem hi] at h ⊢
    rw [← ZSt.step.eq_2, ← run_snoc] at h
    exact (flushed_data_stable chunk hc ops more hm i _).1 h
  · intro i hi
    have h := hfl.2 i hi
    rw [List.getElem?_eq_getElem hi] at h ⊢
    rw [← ZSt.step.eq_2, ← run_snoc] at h
    exact (flushed_data_stable chunk hc ops more hm i _).2 h


/-- the buffer never holds a full chunk between operations -/
theorem buffer_bounded (chunk : Nat) (hc : 1 ≤ chunk) (ops : List (ZOp ν))
    (hm : monotoneTuning ops = true) :
    let s := (ZSt.init chunk).run ops
    s.buf.fullAt = chunk ∧ s.buf.items.length < chunk :=
  ⟨(inv_run hc ops hm).1.fullAt, (inv_run hc ops hm).1.lt⟩

/-! ### non-vacuity / sanity examples -/

section Examples

/-- a run with a flush in the middle of a chunk, a chunk commit, the transition and a final flush -/
def exOps : List (ZOp Nat) :=
  [.record true (some 1), .record true (some 2), .flush, .record true (some 3),
   .record true (some 4), .record false (some 5), .flush]

example : monotoneTuning exOps = true := by decide
example : recordedWarm exOps = [1, 2, 3, 4] := by decide
example : recordedSamp exOps = [5] := by decide
example : ((ZSt.init (ν := Nat) 3).run exOps).warm 3 = some 4 := by decide
example : ((ZSt.init (ν := Nat) 3).run exOps).warm 4 = none := by decide
example : ((ZSt.init (ν := Nat) 3).run exOps).samp 0 = some 5 := by decide
example : (List.range 5).map ((ZSt.init (ν := Nat) 3).run exOps).warm =
    [some 1, some 2, some 3, some 4, none] := by decide
-- before the flush the partial chunk is NOT readable (so `flush_complete` is not trivial) …
example : ((ZSt.init (ν := Nat) 3).run [.record true (some 1), .record true (some 2)]).warm 0 = none := by
  decide
-- … and after it, it is
example : ((ZSt.init (ν := Nat) 3).run [.record true (some 1), .record true (some 2), .flush]).warm 1
    = some 2 := by decide
-- the corner: an absent statistic on the first non-tuning draw triggers the transition
example : ((ZSt.init (ν := Nat) 3).run [.record true (some 1), .record false none]).warm 0 = some 1 := by
  decide
example : ((ZSt.init (ν := Nat) 3).run [.record true (some 1), .record false none]).lastWasWarmup
    = false := by decide
-- chunk size 1: every push commits
example : ((ZSt.init (ν := Nat) 1).run [.record true (some 7), .record false (some 8)]).samp 0
    = some 8 := by decide
-- finalize
example : ((ZSt.init (ν := Nat) 3).run exOps).finalize.buf.items = [] := by decide

/-- `monotoneTuning` is necessary for `store_sound`: a tuning draw after a non-tuning one is written
into the warmup array at the *sampling* chunk position and overwrites a correct cell. -/
theorem not_sound_without_monotone :
    let ops : List (ZOp Nat) := [.record true (some 1), .record false (some 5), .record true (some 2)]
    monotoneTuning ops = false ∧
    ((ZSt.init 2).run ops).warm 0 = some 5 ∧ (recordedWarm ops)[0]? = some 1 := by decide

end Examples

theorem monotoneTuning_snoc_flush (a : List (ZOp ν)) (h : monotoneTuning a = true) :
    monotoneTuning (a ++ [.flush]) = true := by
  induction a with
  | nil => simp [monotoneTuning]
  | cons o r ih =>
    rcases o with ⟨t, v⟩ | _
    · cases t
      · simp only [List.cons_append, monotoneTuning, Bool.and_eq_true, List.all_append] at h ⊢
        exact ⟨⟨h.1, by simp⟩, ih h.2⟩
      · simp only [List.cons_append, monotoneTuning] at h ⊢
        exact ih h
    · simp only [List.cons_append, monotoneTuning] at h ⊢
      exact ih h

/-- **C15 / finalize is exact**: after `finalize` each array holds, at EVERY index, exactly the
    recorded value — the recorded ones are all there (`finalize_complete`) and nothing is readable
    beyond them (no stale or padding cell is exposed). -/
theorem finalize_exact (chunk : Nat) (hc : 1 ≤ chunk) (ops : List (ZOp ν))
    (hm : monotoneTuning ops = true) :
    let s := ((ZSt.init chunk).run ops).finalize
    (∀ i, s.warm i = (recordedWarm ops)[i]?) ∧ (∀ i, s.samp i = (recordedSamp ops)[i]?) := by
  have hm' := monotoneTuning_snoc_flush ops hm
  have hs := store_sound chunk hc (ops ++ [.flush]) hm'
  have hf := finalize_complete chunk hc ops hm
  have hrun : (ZSt.init chunk).run (ops ++ [.flush]) = ((ZSt.init chunk).run ops).flush := by
    simp [ZSt.run, ZSt.step]
  have hw : recordedWarm (ops ++ [.flush]) = recordedWarm ops := by
    rw [recordedWarm_append]; simp [recordedWarm]
  have hsa : recordedSamp (ops ++ [.flush]) = recordedSamp ops := by
    rw [recordedSamp_append]; simp [recordedSamp]
  simp only [hrun, hw, hsa] at hs
  have ew : (((ZSt.init chunk).run ops).finalize).warm = (((ZSt.init chunk).run ops).flush).warm := rfl
  have es : (((ZSt.init chunk).run ops).finalize).samp = (((ZSt.init chunk).run ops).flush).samp := rfl
  refine ⟨fun i => ?_, fun i => ?_⟩
  · by_cases hi : i < (recordedWarm ops).length
    · exact hf.1 i hi
    · show (((ZSt.init chunk).run ops).finalize).warm i = _
      rw [ew]
      cases hv : (((ZSt.init chunk).run ops).flush).warm i with
      | none => simp [List.getElem?_eq_none (Nat.le_of_not_lt hi)]
      | some v => exact (hs.1 i v hv).symm
  · by_cases hi : i < (recordedSamp ops).length
    · exact hf.2 i hi
    · show (((ZSt.init chunk).run ops).finalize).samp i = _
      rw [es]
      cases hv : (((ZSt.init chunk).run ops).flush).samp i with
      | none => simp [List.getElem?_eq_none (Nat.le_of_not_lt hi)]
      | some v => exact (hs.2 i v hv).symm

end NutsModel.C15

section AxiomAudit
open NutsModel.C15
#print axioms store_sound
#print axioms flush_complete
#print axioms finalize_complete
#print axioms flushed_data_stable
#print axioms crash_after_flush_loses_only_tail
#print axioms defined_stays_defined
#print axioms buffer_bounded
#print axioms not_sound_without_monotone
end AxiomAudit
