/-
C19 — the serde round trip, instantiated on the settings type descriptors GENERATED from the
Rust sources (`Gen/Settings.lean`, regenerated on every run).
-/
import NutsModel.Thm.C19
import NutsModel.Gen.Settings

namespace NutsModel.C19
open NutsModel.Model NutsModel.Gen.Settings

/-- every settings preset type is well-formed for the derived (de)serialiser: within each struct
    the field names are distinct, within each enum the variant names are distinct, no `Option<Option<_>>`. -/
theorem presets_wf : ∀ p ∈ presets, wf p.2 = true := by decide

/-- **C19 / settings survive serialisation**: for each of the six settings types and EVERY value of
    it (all finite floats, all `None`/`Some`, all enum variants, arbitrarily nested adaptation
    options), decoding the JSON produced by encoding gives back the identical value. -/
theorem settings_roundtrip (name : String) (ty : STy) (hp : (name, ty) ∈ presets) (v : SVal)
    (hv : conforms ty v = true) : fromJson ty (toJson v) = some v :=
  roundtrip ty v (presets_wf (name, ty) hp) hv

/-- the six presets are present (non-vacuity of `settings_roundtrip`) -/
theorem presets_names : presets.map (·.1) =
    ["DiagNutsSettings", "LowRankNutsSettings", "FlowNutsSettings", "DiagMclmcSettings", "LowRankMclmcSettings", "FlowMclmcSettings"] := by
  decide

end NutsModel.C19
