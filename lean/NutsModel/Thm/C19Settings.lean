/-
C19 — the serde round trip, instantiated on the settings type descriptors GENERATED from the
Rust sources (`Gen/Settings.lean`, regenerated on every run).
-/
import NutsModel.Thm.C19
import NutsModel.Gen.Settings

namespace NutsModel.C19
open NutsModel.Model NutsModel.Gen.Settings

/-- every settings preset type is well-formed for the derived (de)serialiser: within each struct
    the field names are distinct, within each enum the variant names are distinct, no `Option<Option<_>>`. -/
theorem presets_wf : ∀ p ∈ presets, wf p.2 = true := by decide

/-- **C19 / settings survive serialisation**: for each of the six settings types and EVERY value of
    it (all finite floats, all `None`/`Some`, all enum variants, arbitrarily nested adaptation
    options), decoding the JSON produced by encoding gives back the identical value. -/
theorem settings_roundtrip (name : String) (ty : STy) (hp : (name, ty) ∈ presets) (v : SVal)
    (hv : conforms ty v = true) : fromJson ty (toJson v) = some v :=
  roundtrip ty v (presets_wf (name, ty) hp) hv

/-- the six presets are present (non-vacuity of `settings_roundtrip`) -/
theorem presets_names : presets.map (·.1) =
    ["DiagNutsSettings", "LowRankNutsSettings", "FlowNutsSettings", "DiagMclmcSettings", "LowRankMclmcSettings", "FlowMclmcSettings"] := by
  decide

/-- **C19 / the stored settings identify the run**: two conforming values of a settings type with the
    same JSON are the same value (the encoder loses nothing: no two distinct settings are recorded
    alike). Corollary of the round trip. -/
theorem settings_json_injective (name : String) (ty : STy) (hp : (name, ty) ∈ presets) (v w : SVal)
    (hv : conforms ty v = true) (hw : conforms ty w = true) (h : toJson v = toJson w) : v = w := by
  have a := settings_roundtrip name ty hp v hv
  have b := settings_roundtrip name ty hp w hw
  rw [h, b] at a
  exact (Option.some.inj a).symm

/-- decoding is deterministic and total on encoder output: the decoded value re-encodes to the
    same JSON (encode ∘ decode ∘ encode = encode). -/
theorem settings_reencode (name : String) (ty : STy) (hp : (name, ty) ∈ presets) (v : SVal)
    (hv : conforms ty v = true) : (fromJson ty (toJson v)).map toJson = some (toJson v) := by
  rw [settings_roundtrip name ty hp v hv]; rfl

end NutsModel.C19
