import NutsModel.Model.FlowSchedule
import NutsModel.Thm.Sched

/-! C06 for the flow strategy: tuning flags, frozen transformation, final step size. All statements for
every `num_tune`, every final-window start, every update frequency and every number of draws. -/
namespace NutsModel.Sched.Flow
open NutsModel.Model

theorem flowAdapt_static (s : FlowSt) (d : Nat) :
    (flowAdapt s d).1.numTune = s.numTune ∧ (flowAdapt s d).1.finalWindow = s.finalWindow ∧
    (flowAdapt s d).1.freq = s.freq ∧ (flowAdapt s d).1.tuning = (s.tuning && decide (d < s.numTune)) := by
  unfold flowAdapt
  by_cases h1 : d ≥ s.numTune
  · have : ¬ d < s.numTune := by omega
    simp [h1, this]
  · have : d < s.numTune := by omega
    by_cases h2 : d < s.finalWindow <;> simp [h1, h2, this]

/-- **Exactly the first `num_tune` draws are reported as tuning** (flow strategy), for every run length. -/
theorem tuning_flag_exact (numTune finalWindow freq : Nat) :
    ∀ (n d : Nat) (s : FlowSt), s.numTune = numTune → s.finalWindow = finalWindow → s.freq = freq →
      s.tuning = decide (d ≤ numTune) →
      (flowRun s d n).map Prod.fst = (List.range n).map (fun k => decide (d + k < numTune)) := by
  intro n
  induction n with
  | zero => intros; rfl
  | succ n ih =>
    intro d s h1 h2 h3 ht
    obtain ⟨a1, a2, a3, a4⟩ := flowAdapt_static s d
    have hrec := ih (d + 1) (flowAdapt s d).1 (by rw [a1, h1]) (by rw [a2, h2]) (by rw [a3, h3])
      (by rw [a4, ht, h1]; by_cases hd : d < numTune <;> simp [hd] <;> omega)
    have hhead : (flowAdapt s d).1.tuning = decide (d + 0 < numTune) := by
      rw [a4, ht, h1]; by_cases hd : d < numTune <;> simp [hd] <;> omega
    have htail : (List.range n).map (fun k => decide (d + 1 + k < numTune)) =
        (List.range n).map ((fun k => decide (d + k < numTune)) ∘ Nat.succ) := by
      apply List.map_congr_left
      intro k _
      show decide (d + 1 + k < numTune) = decide (d + (k + 1) < numTune)
      rw [show d + 1 + k = d + (k + 1) by omega]
    show ((flowAdapt s d).1.tuning :: (flowRun (flowAdapt s d).1 (d + 1) n).map Prod.fst) = _
    rw [hrec, hhead, htail, List.range_succ_eq_map, List.map_cons, List.map_map]

/-- a run from the start: draw `k` is reported as tuning iff `k < num_tune` -/
theorem tuning_flag_exact_from_start (numTune finalWindow freq n : Nat) :
    (flowRun { numTune := numTune, finalWindow := finalWindow, freq := freq } 0 n).map Prod.fst =
      (List.range n).map (fun k => decide (k < numTune)) := by
  have := tuning_flag_exact numTune finalWindow freq n 0
    { numTune := numTune, finalWindow := finalWindow, freq := freq } rfl rfl rfl (by simp)
  simpa using this

/-- **The transformation is never re-fitted at or after the start of the final step-size window**, nor after warmup. -/
theorem transformation_frozen (s : FlowSt) (d : Nat) (h : s.finalWindow ≤ d ∨ s.numTune ≤ d) :
    FlowAct.updateParams ∉ (flowAdapt s d).2 := by
  unfold flowAdapt
  by_cases h1 : d ≥ s.numTune
  · simp [h1]
  · have h2 : ¬ d < s.finalWindow := by omega
    simp [h1, h2]

/-- when it is re-fitted: exactly at the positive multiples of 10 below 100, then of `freq` -/
theorem update_iff (s : FlowSt) (d : Nat) :
    FlowAct.updateParams ∈ (flowAdapt s d).2 ↔ flowUpdates s d = true := by
  unfold flowAdapt
  by_cases h1 : d ≥ s.numTune
  · have : flowUpdates s d = false := by simp [flowUpdates]; omega
    simp [h1, this]
  · by_cases h2 : d < s.finalWindow
    · by_cases h3 : flowUpdates s d = true <;> simp [h1, h2, h3]
    · have : flowUpdates s d = false := by simp [flowUpdates]; omega
      simp [h1, h2, this]

/-- **After warmup only the step size is touched, with the averaged value**; the last warmup draw switches to it. -/
theorem post_warmup_actions (s : FlowSt) (d : Nat) (h : s.numTune ≤ d) :
    (flowAdapt s d).2 = [.updateStepsize true] := by
  unfold flowAdapt; simp [h]

theorem last_warmup_uses_average (s : FlowSt) (h : 0 < s.numTune) (hw : s.finalWindow ≤ s.numTune - 1) :
    (flowAdapt s (s.numTune - 1)).2 = [.estimatorLate, .updateStepsize true] := by
  unfold flowAdapt
  have h1 : ¬ s.numTune - 1 ≥ s.numTune := by omega
  have h2 : ¬ s.numTune - 1 < s.finalWindow := by omega
  simp [h1, h2]

/-- in the final window the late (symmetric) estimator is used, before it the early one -/
theorem estimator_choice (s : FlowSt) (d : Nat) (h : d < s.numTune) :
    (d < s.finalWindow → FlowAct.estimatorEarly ∈ (flowAdapt s d).2 ∧ FlowAct.estimatorLate ∉ (flowAdapt s d).2) ∧
    (s.finalWindow ≤ d → FlowAct.estimatorLate ∈ (flowAdapt s d).2 ∧ FlowAct.estimatorEarly ∉ (flowAdapt s d).2) := by
  unfold flowAdapt
  have h1 : ¬ d ≥ s.numTune := by omega
  constructor
  · intro h2; simp [h1, h2]
  · intro h2
    have h3 : ¬ d < s.finalWindow := by omega
    simp [h1, h3]

-- non-vacuity: num_tune = 25, final window from 20, freq 7
example : (flowRun { numTune := 25, finalWindow := 20, freq := 7 } 0 27).map Prod.fst =
    (List.replicate 25 true) ++ [false, false] := by decide
example : flowUpdates { numTune := 300, finalWindow := 250, freq := 40 } 120 = true ∧
    flowUpdates { numTune := 300, finalWindow := 250, freq := 40 } 130 = false ∧
    flowUpdates { numTune := 300, finalWindow := 250, freq := 40 } 280 = false := by decide

end NutsModel.Sched.Flow

#print axioms NutsModel.Sched.Flow.tuning_flag_exact
#print axioms NutsModel.Sched.Flow.transformation_frozen
