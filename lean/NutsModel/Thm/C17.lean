/-
C17 — the SIMD split of the vector kernels touches every element exactly once, and the
four-accumulator reductions equal the plain sum (over ℝ / any commutative monoid).
-/
import NutsModel.Model.Kernels
import Mathlib.Algebra.BigOperators.Intervals
import Mathlib.Algebra.BigOperators.Group.Finset.Basic
import Mathlib.Tactic.Ring
import Mathlib.Tactic.Abel
import Mathlib.Tactic.Linarith
import Mathlib.Data.Real.Basic

namespace NutsModel.C17
open NutsModel.Model

variable {α : Type} [AddCommMonoid α]

theorem sumFrom_eq (acc : α) (k : ℕ) (f : ℕ → α) : sumFrom acc k f = acc + ∑ i ∈ Finset.range k, f i := by
  unfold sumFrom
  induction k with
  | zero => simp
  | succ k ih => rw [List.range_succ, List.foldl_append, ih, Finset.sum_range_succ]; simp [add_assoc]

/-- a sum over `m * L` consecutive indices, vector by vector, lane by lane -/
theorem sum_range_mul (m L : ℕ) (f : ℕ → α) :
    ∑ i ∈ Finset.range (m * L), f i = ∑ v ∈ Finset.range m, ∑ lane ∈ Finset.range L, f (v * L + lane) := by
  induction m with
  | zero => simp
  | succ m ih =>
    rw [Finset.sum_range_succ, ← ih, Nat.succ_mul, Finset.sum_range_add]

/-- a sum over `4 * nb + nt` vectors, block by block (four at a time) and then the tail -/
theorem sum_range_blocks (nb nt : ℕ) (g : ℕ → α) :
    ∑ v ∈ Finset.range (4 * nb + nt), g v
      = (∑ b ∈ Finset.range nb, (g (4 * b) + g (4 * b + 1) + g (4 * b + 2) + g (4 * b + 3)))
        + ∑ t ∈ Finset.range nt, g (4 * nb + t) := by
  rw [Finset.sum_range_add]
  congr 1
  induction nb with
  | zero => simp
  | succ nb ih =>
    rw [Finset.sum_range_succ, ← ih, show 4 * (nb + 1) = 4 * nb + 1 + 1 + 1 + 1 by ring,
      Finset.sum_range_succ, Finset.sum_range_succ, Finset.sum_range_succ, Finset.sum_range_succ]
    simp only [add_assoc]

/-- **C17 / reductions**: for every length `n`, every lane width `L ≥ 1` and every term function,
    the four-accumulator / SIMD-tail / lane-reduction / scalar-tail reduction equals the plain sum
    `Σ_{i<n} term i`. -/
theorem simdSum_eq (L n : ℕ) (hL : 1 ≤ L) (term : ℕ → α) :
    simdSum 0 L n term = ∑ i ∈ Finset.range n, term i := by
  unfold simdSum
  simp only [sumFrom_eq, zero_add]
  set nv := n / L with hnv
  set nb := nv / 4 with hnb
  set nt := nv % 4 with hnt
  set ns := n % L with hns
  have hn : n = nv * L + ns := by rw [hnv, hns]; exact (Nat.div_add_mod' n L).symm
  have hv : nv = 4 * nb + nt := by rw [hnb, hnt]; exact (Nat.div_add_mod nv 4).symm
  conv_rhs => rw [hn, Finset.sum_range_add, sum_range_mul, hv, sum_range_blocks]
  congr 1
  swap
  · rw [← hv]
  -- swap the lane sum to the outside
  simp only [Finset.sum_add_distrib]
  rw [Finset.sum_comm (s := Finset.range nb), Finset.sum_comm (s := Finset.range nb),
    Finset.sum_comm (s := Finset.range nb), Finset.sum_comm (s := Finset.range nb),
    Finset.sum_comm (s := Finset.range nt)]
  simp only [← Finset.sum_add_distrib]
  apply Finset.sum_congr rfl
  intro lane _
  simp only [Nat.add_zero]
  have e : ∀ b, (4 * b) * L + lane = (4 * b + 0) * L + lane := by intro b; rfl
  simp only [e]
  simp only [Finset.sum_add_distrib]
  abel

/-- **C17 / split partition**: every index `i < n` is handled by exactly one lane of exactly one
    region (counted once), and no index `≥ n` is touched. -/
theorem split_partition (L n : ℕ) (hL : 1 ≤ L) (i : ℕ) :
    simdSum (α := ℕ) 0 L n (fun j => if j = i then 1 else 0) = if i < n then 1 else 0 := by
  rw [simdSum_eq L n hL]
  by_cases h : i < n
  · simp [h, Finset.sum_ite_eq', Finset.mem_range]
  · simp [h, Finset.sum_ite_eq', Finset.mem_range]

/-- the region assigned to an index reconstructs the index (elementwise kernels: the formula
    is applied at position `i` itself, whichever of the three loops reaches it). -/
theorem region_index (L n i : ℕ) (hL : 1 ≤ L) (hi : i < n) : (regionOf L n i).index L n = i := by
  unfold regionOf
  simp only
  have hLpos : 0 < L := hL
  split
  · rename_i h
    simp only [Region.index]
    have h1 : 4 * (i / (4 * L)) + i / L % 4 = i / L := by
      have := Nat.div_add_mod (i / L) 4
      rw [Nat.mul_comm 4 L, ← Nat.div_div_eq_div_mul]; omega
    have h2 := Nat.div_add_mod i L
    rw [h1, Nat.mul_comm]; exact h2
  · split
    · rename_i h1 h2
      simp only [Region.index]
      have hge : 4 * (n / L / 4) ≤ i / L := by
        rw [Nat.le_div_iff_mul_le hLpos]; rw [not_lt] at h1; nlinarith
      have h3 := Nat.div_add_mod i L
      calc (4 * (n / L / 4) + (i / L - 4 * (n / L / 4))) * L + i % L = (i / L) * L + i % L := by
            rw [Nat.add_sub_cancel' hge]
        _ = i := by rw [Nat.mul_comm]; exact h3
    · rename_i h1 h2
      simp only [Region.index]
      rw [not_lt] at h2; omega

/-- **C17 / elementwise kernels touch every element exactly once**: two different indices below `n`
    are never handled by the same (loop, iteration, lane) — with `region_index`, the assignment
    index ↦ region is a bijection onto the regions the three loops visit. -/
theorem region_injective (L n i j : ℕ) (hL : 1 ≤ L) (hi : i < n) (hj : j < n)
    (h : regionOf L n i = regionOf L n j) : i = j := by
  have a := region_index L n i hL hi
  have b := region_index L n j hL hj
  rw [h] at a
  exact a.symm.trans b

/-- the region of an index below `n` is one the loops really visit: unroll slot `< 4`, lane `< L`,
    scalar-tail offset `< n % L`. -/
theorem region_in_bounds (L n i : ℕ) (hL : 1 ≤ L) (hi : i < n) :
    match regionOf L n i with
    | .body _ j lane => j < 4 ∧ lane < L
    | .simdTail _ lane => lane < L
    | .scalarTail k => k < n % L := by
  have hLpos : 0 < L := hL
  by_cases h1 : i < 4 * (n / L / 4) * L
  · simp only [regionOf, h1, if_true]
    exact ⟨Nat.mod_lt _ (by decide), Nat.mod_lt _ hLpos⟩
  · by_cases h2 : i < n / L * L
    · simp only [regionOf, h1, h2, if_true, if_false]
      exact Nat.mod_lt _ hLpos
    · simp only [regionOf, h1, h2, if_false]
      have := Nat.div_add_mod' n L
      rw [not_lt] at h2; omega

/-! ### the reductions of the code, over ℝ -/

/-- `scalar_prods2`: both outputs are the plain sums. -/
theorem scalar_prods2_eq (L n : ℕ) (hL : 1 ≤ L) (p1 p2 x y : ℕ → ℝ) :
    simdSum 0 L n (fun i => (p1 i + p2 i) * x i) = ∑ i ∈ Finset.range n, (p1 i + p2 i) * x i ∧
    simdSum 0 L n (fun i => (p1 i + p2 i) * y i) = ∑ i ∈ Finset.range n, (p1 i + p2 i) * y i :=
  ⟨simdSum_eq L n hL _, simdSum_eq L n hL _⟩

/-- `scalar_prods3` (used for the U-turn criterion): `Σ (p1 - n1 + p2)·x`. The SIMD lanes compute
    `(p1 + p2) - n1` and the scalar tail `p1 - n1 + p2`; over ℝ these agree. -/
theorem scalar_prods3_eq (L n : ℕ) (hL : 1 ≤ L) (p1 n1 p2 x : ℕ → ℝ) :
    simdSum 0 L n (fun i => (if i < n / L * L then (p1 i + p2 i) - n1 i else p1 i - n1 i + p2 i) * x i)
      = ∑ i ∈ Finset.range n, (p1 i - n1 i + p2 i) * x i := by
  rw [simdSum_eq L n hL]
  apply Finset.sum_congr rfl
  intro i _
  split <;> ring

/-- `vector_dot` (kinetic energy): `Σ a·b`. -/
theorem vector_dot_eq (L n : ℕ) (hL : 1 ≤ L) (a b : ℕ → ℝ) :
    simdSum 0 L n (fun i => a i * b i) = ∑ i ∈ Finset.range n, a i * b i := simdSum_eq L n hL _

end NutsModel.C17
