import NutsModel.Gen.Adapt
import NutsModel.Model.Schedule
import NutsModel.Thm.FlowSched

/-! C06 / C09 — the hand-written schedule model `schedStep` (Model/Schedule.lean), about which the schedule theorems of
`Thm/Sched.lean` are proved, IS the current source of `GlobalStrategy::adapt`: `Gen/Adapt.lean` is regenerated from
`src/adapt_strategy.rs` on every run (sub-strategies abstracted by the interface objects of Model/AdaptIface.lean, the same
abstraction the hand model uses), and the refinement below is re-checked against it.  A change of `adapt` that alters WHICH call
happens at WHICH draw (a boundary `<` turned `<=`, a branch entered under another condition, a window seeded differently)
breaks it. -/
set_option linter.unusedSectionVars false

namespace NutsModel.Sched
open NutsModel NutsModel.Model NutsModel.Gen

variable {α : Type} [Add α] [Sub α] [Mul α] [Div α] [Neg α] [NatCast α] [OfScientific α]
  [LT α] [LE α] [DecidableLT α] [DecidableLE α] [Transc α]

/-- the schedule parameters a `GlobalStrategy` value carries -/
def absParams (g : GlobalStrategy α) : SchedParams :=
  { numTune := g.num_tune, earlyEnd := g.early_end, finalWindow := g.final_step_size_window,
    earlySwitchFreq := g.options.early_mass_matrix_switch_freq, updateFreq := g.options.mass_matrix_update_freq,
    nextWindow := nextWindowOf g.options.mass_matrix_window_growth }

/-- the schedule state of a `GlobalStrategy` value (the two ghost fields of the hand model are passed in) -/
def absState (g : GlobalStrategy α) (lastSwitch prevSwitch : Nat) : SchedState :=
  { tuning := g.tuning, hasInitial := g.has_initial_mass_matrix, lastUpdate := g.last_update, curWindow := g.current_window_size,
    fg := g.mass_matrix_adapt.fg, bg := g.mass_matrix_adapt.bg, lastSwitch := lastSwitch, prevSwitch := prevSwitch }

/-- the calls the step-size strategy receives during one `adapt`, in order, according to the hand model's action record -/
def actionEvents (a : SchedAction) (r : InitRes) : List SSEvent :=
  [.update] ++ (match a.est with | .early => [.estEarly] | .late => [.estLate] | .none => []) ++
  (if a.reinit then [.init r] ++ (if r = .badInitGrad then [.updateStepsize false] else [])
   else match a.useBest with | some b => [.updateStepsize b] | none => [])


/-- early phase: `draw < early_end` -/
private theorem adapt_refines_early (g : GlobalStrategy α) (o : AdaptOracle) (draw ls ps : Nat)
    (hid : o.sampleId = draw + 2) (hres : o.initRes ≠ .other)
    (h1 : ¬ draw ≥ g.num_tune) (h2 : draw < g.final_step_size_window) (h3 : draw < g.early_end) :
    let r := GlobalStrategy.adapt g o draw
    let m := schedStep (absParams g) (absState g ls ps) draw o.isGood
    r.1 = .ok ∧ absParams r.2 = absParams g ∧
    absState r.2 m.1.lastSwitch m.1.prevSwitch = m.1 ∧
    r.2.step_size.events = (actionEvents m.2 o.initRes).reverse ++ g.step_size.events := by
  intro r m
  obtain ⟨ig, sid, ir⟩ := o
  simp only at hid hres
  subst hid
  obtain ⟨ss, ⟨fg, bg⟩, opts, nt, ee, fw, tun, hi, lu, cw⟩ := g
  simp only at h1 h2 h3
  by_cases h5 : fw < opts.early_mass_matrix_switch_freq + draw <;>
  by_cases h6 : opts.mass_matrix_update_freq ≤ draw - lu <;>
  cases ig <;> cases hi <;> cases ir <;>
  simp [r, m, GlobalStrategy.adapt, schedStep, absParams, absState, actionEvents, h1, h2, h3, h5, h6, beq_eq_decide,
    SSI.update, SSI.update_stepsize, SSI.update_estimator_late, SSI.update_estimator_early, SSI.init,
    MMI.adapt, MMI.switch, MMI.update_estimators, MMI.background_count] at hres ⊢ <;>
  (try (split_ifs <;> simp_all <;> omega))

/-- main phase after the transition draw: `draw > early_end` -/
private theorem adapt_refines_main_ne (g : GlobalStrategy α) (o : AdaptOracle) (draw ls ps : Nat)
    (hid : o.sampleId = draw + 2) (hres : o.initRes ≠ .other)
    (h1 : ¬ draw ≥ g.num_tune) (h2 : draw < g.final_step_size_window) (h3 : ¬ draw < g.early_end)
    (h3e : draw ≠ g.early_end) :
    let r := GlobalStrategy.adapt g o draw
    let m := schedStep (absParams g) (absState g ls ps) draw o.isGood
    r.1 = .ok ∧ absParams r.2 = absParams g ∧
    absState r.2 m.1.lastSwitch m.1.prevSwitch = m.1 ∧
    r.2.step_size.events = (actionEvents m.2 o.initRes).reverse ++ g.step_size.events := by
  intro r m
  obtain ⟨ig, sid, ir⟩ := o
  simp only at hid hres
  subst hid
  obtain ⟨ss, ⟨fg, bg⟩, opts, nt, ee, fw, tun, hi, lu, cw⟩ := g
  simp only at h1 h2 h3
  simp only at h3e
  obtain ⟨nw, hnw⟩ : ∃ n, Nat.max (cw + 1) (Transc.toNat (Transc.round ((cw : α) * opts.mass_matrix_window_growth))) = n :=
    ⟨_, rfl⟩
  by_cases h5 : fw < nw + draw <;>
  by_cases h6 : opts.mass_matrix_update_freq ≤ draw - lu <;>
  by_cases h4 : cw ≤ (if ig then bg.length + 1 else bg.length) <;>
  cases ig <;> simp only [Bool.false_eq_true, if_true, if_false] at h4 <;>
  cases hi <;> cases ir <;>
  simp [r, m, GlobalStrategy.adapt, schedStep, absParams, absState, actionEvents, nextWindowOf, h1, h2, h3, h3e, h4, h5, h6,
    hnw, beq_eq_decide,
    SSI.update, SSI.update_stepsize, SSI.update_estimator_late, SSI.update_estimator_early, SSI.init,
    MMI.adapt, MMI.switch, MMI.update_estimators, MMI.background_count] at hres ⊢ <;>
  (try (split_ifs <;> simp_all))

/-- the transition draw `draw = early_end`, at which the main-phase window is seeded -/
private theorem adapt_refines_main_eq (g : GlobalStrategy α) (o : AdaptOracle) (draw ls ps : Nat)
    (hid : o.sampleId = draw + 2) (hres : o.initRes ≠ .other)
    (h1 : ¬ draw ≥ g.num_tune) (h2 : draw < g.final_step_size_window) (h3 : ¬ draw < g.early_end)
    (h3e : draw = g.early_end) :
    let r := GlobalStrategy.adapt g o draw
    let m := schedStep (absParams g) (absState g ls ps) draw o.isGood
    r.1 = .ok ∧ absParams r.2 = absParams g ∧
    absState r.2 m.1.lastSwitch m.1.prevSwitch = m.1 ∧
    r.2.step_size.events = (actionEvents m.2 o.initRes).reverse ++ g.step_size.events := by
  intro r m
  obtain ⟨ig, sid, ir⟩ := o
  simp only at hid hres
  subst hid
  obtain ⟨ss, ⟨fg, bg⟩, opts, nt, ee, fw, tun, hi, lu, cw⟩ := g
  simp only at h1 h2 h3
  simp only at h3e
  subst h3e
  obtain ⟨cur, hcur⟩ : ∃ c, Nat.max cw bg.length = c := ⟨_, rfl⟩
  obtain ⟨nw, hnw⟩ : ∃ n, Nat.max (cur + 1) (Transc.toNat (Transc.round ((cur : α) * opts.mass_matrix_window_growth))) = n :=
    ⟨_, rfl⟩
  by_cases h5 : fw < nw + draw <;>
  by_cases h6 : opts.mass_matrix_update_freq ≤ draw - lu <;>
  by_cases h4 : cur ≤ (if ig then bg.length + 1 else bg.length) <;>
  cases ig <;> simp only [Bool.false_eq_true, if_true, if_false] at h4 <;>
  cases hi <;> cases ir <;>
  simp [r, m, GlobalStrategy.adapt, schedStep, absParams, absState, actionEvents, nextWindowOf, h1, h2, h4, h5, h6,
    hnw, hcur,
    SSI.update, SSI.update_stepsize, SSI.update_estimator_late, SSI.update_estimator_early, SSI.init,
    MMI.adapt, MMI.switch, MMI.update_estimators, MMI.background_count] at hres ⊢ <;>
  (try (split_ifs <;> simp_all))

theorem adapt_refines_schedStep (g : GlobalStrategy α) (o : AdaptOracle) (draw ls ps : Nat)
    (hid : o.sampleId = draw + 2) (hres : o.initRes ≠ .other) :
    let r := GlobalStrategy.adapt g o draw
    let m := schedStep (absParams g) (absState g ls ps) draw o.isGood
    r.1 = .ok ∧ absParams r.2 = absParams g ∧
    absState r.2 m.1.lastSwitch m.1.prevSwitch = m.1 ∧
    r.2.step_size.events = (actionEvents m.2 o.initRes).reverse ++ g.step_size.events := by
  by_cases h1 : draw ≥ g.num_tune
  · intro r m
    obtain ⟨ig, sid, ir⟩ := o
    simp only at hid hres
    subst hid
    simp [r, m, GlobalStrategy.adapt, schedStep, absParams, absState, actionEvents, h1, SSI.update, SSI.update_stepsize]
  · by_cases h2 : draw < g.final_step_size_window
    · by_cases h3 : draw < g.early_end
      · exact adapt_refines_early g o draw ls ps hid hres h1 h2 h3
      · by_cases h3e : draw = g.early_end
        · exact adapt_refines_main_eq g o draw ls ps hid hres h1 h2 h3 h3e
        · exact adapt_refines_main_ne g o draw ls ps hid hres h1 h2 h3 h3e
    · intro r m
      obtain ⟨ig, sid, ir⟩ := o
      simp only at hid hres
      subst hid
      simp [r, m, GlobalStrategy.adapt, schedStep, absParams, absState, actionEvents, h1, h2, SSI.update, SSI.update_stepsize,
        SSI.update_estimator_late, beq_eq_decide]
      congr

end NutsModel.Sched
