/-
C18 — the MCLMC kernel model (`Model/Mclmc.lean`).

Part A (all over ℕ, for every `H = max_halvings`, every `N = num_base_steps ≥ 1`, every outcome
script): the step loop with halving retries — invariant (`Inv`, `inv_init`, `inv_step`), exact time
conservation (`halving_time_conserved`), step count (`steps_eq_base_add_retries`, `steps_ge_base`,
`steps_eq_iff`, `all_ok_steps`), absence of `u64` underflow (`no_underflow`,
`no_underflow_reachable`), `factor ≥ 2^-H` (`factor_bound`), divergence reported only with the
halving budget exhausted (`diverged_only_at_budget`), termination (`mu_decreases`,
`loop_terminates`).

Part B (over ℝ): the ESH momentum update — norm of the un-normalised vector in closed form
(`esh_raw_norm`), unit norm of the result (`esh_unit_norm`), `normalize_unit_norm`, the closed form
of the returned kinetic-energy change (`esh_delta_ke`).
-/
import NutsModel.Model.Mclmc
import NutsModel.Thm.RealInst
import Mathlib.Tactic.Ring
import Mathlib.Tactic.Linarith
import Mathlib.Tactic.FieldSimp
import Mathlib.Tactic.Positivity
import Mathlib.Algebra.BigOperators.Fin
import Mathlib.Algebra.BigOperators.Ring.Finset
import Mathlib.Algebra.BigOperators.Field
import Mathlib.Algebra.Order.BigOperators.Ring.Finset
import Mathlib.Analysis.SpecialFunctions.Log.Basic
import Mathlib.Analysis.SpecialFunctions.Sqrt

namespace NutsModel.C18
open NutsModel NutsModel.Model

/-! ## Part A — the step loop -/

theorem popAll_nil (r : ℕ) : popAll r [] = (r, []) := by
  cases r <;> rfl

theorem popAll_succ (r : ℕ) (st : List ℕ) : popAll (r + 1) st = (r + 1, st) := by
  cases st <;> rfl

theorem popAll_zero_cons (x : ℕ) (rest : List ℕ) : popAll 0 (x :: rest) = popAll (x - 1) rest := rfl

theorem loopStep_ok (H : ℕ) (s : LoopSt) :
    loopStep H s .ok =
      if (popAll (s.remaining - 1) s.stack).1 = 0 then
        .inr (.finished ⟨(popAll (s.remaining - 1) s.stack).1, (popAll (s.remaining - 1) s.stack).2,
          s.stepsTaken + 1, s.time + 2 ^ (H - s.stack.length)⟩)
      else
        .inl ⟨(popAll (s.remaining - 1) s.stack).1, (popAll (s.remaining - 1) s.stack).2,
          s.stepsTaken + 1, s.time + 2 ^ (H - s.stack.length)⟩ := rfl

theorem loopStep_diverge (H : ℕ) (s : LoopSt) :
    loopStep H s .diverge =
      if s.stack.length ≥ H then .inr (.diverged s)
      else .inl ⟨2, s.remaining :: s.stack, s.stepsTaken, s.time⟩ := rfl

theorem loopStep_err (H : ℕ) (s : LoopSt) : loopStep H s .err = .inr (.error s) := rfl


/-! ### `popAll` -/

theorem popAll_length_le (r : ℕ) (st : List ℕ) : (popAll r st).2.length ≤ st.length := by
  induction st generalizing r with
  | nil => simp [popAll_nil]
  | cons x rest ih =>
    cases r with
    | zero => rw [popAll_zero_cons]; exact Nat.le_succ_of_le (ih _)
    | succ r => simp [popAll_succ]

theorem popAll_mem (r : ℕ) (st : List ℕ) {x : ℕ} (hx : x ∈ (popAll r st).2) : x ∈ st := by
  induction st generalizing r with
  | nil => simp [popAll_nil] at hx
  | cons y rest ih =>
    cases r with
    | zero => rw [popAll_zero_cons] at hx; exact List.mem_cons_of_mem _ (ih _ hx)
    | succ r => simpa [popAll_succ] using hx

theorem popAll_fst_zero (r : ℕ) (st : List ℕ) (h : (popAll r st).1 = 0) : (popAll r st).2 = [] := by
  induction st generalizing r with
  | nil => simp [popAll_nil]
  | cons y rest ih =>
    cases r with
    | zero => rw [popAll_zero_cons] at h ⊢; exact ih _ h
    | succ r => simp [popAll_succ] at h

theorem pendingTime_popAll (H r : ℕ) (st : List ℕ) :
    pendingTime H (popAll r st).1 (popAll r st).2 = pendingTime H r st := by
  induction st generalizing r with
  | nil => simp [popAll_nil]
  | cons y rest ih =>
    cases r with
    | zero => rw [popAll_zero_cons, ih]; simp [pendingTime]
    | succ r => simp [popAll_succ]

/-- number of leapfrogs still to do if no further divergence happens -/
def minSteps : ℕ → List ℕ → ℕ
  | r, [] => r
  | r, x :: rest => r + minSteps (x - 1) rest

theorem minSteps_popAll (r : ℕ) (st : List ℕ) :
    minSteps (popAll r st).1 (popAll r st).2 = minSteps r st := by
  induction st generalizing r with
  | nil => simp [popAll_nil]
  | cons y rest ih =>
    cases r with
    | zero => rw [popAll_zero_cons, ih]; simp [minSteps]
    | succ r => simp [popAll_succ]

theorem minSteps_pred {r : ℕ} (hr : 1 ≤ r) (st : List ℕ) :
    minSteps r st = 1 + minSteps (r - 1) st := by
  cases st <;> simp [minSteps] <;> omega

theorem pendingTime_pred (H : ℕ) {r : ℕ} (hr : 1 ≤ r) (st : List ℕ) :
    pendingTime H r st = 2 ^ (H - st.length) + pendingTime H (r - 1) st := by
  obtain ⟨r, rfl⟩ : ∃ r', r = r' + 1 := ⟨r - 1, by omega⟩
  cases st with
  | nil => simp [pendingTime, Nat.succ_mul, Nat.add_comm]
  | cons x rest =>
    simp only [pendingTime, List.length_cons, Nat.add_sub_cancel, Nat.succ_mul]
    omega

/-! ### A1: the invariant -/

structure Inv (H N : ℕ) (s : LoopSt) : Prop where
  time_eq : s.time + pendingTime H s.remaining s.stack = N * 2 ^ H
  len_le : s.stack.length ≤ H
  stack_pos : ∀ x ∈ s.stack, 1 ≤ x
  rem_pos : 1 ≤ s.remaining
  time_le : s.time ≤ s.stepsTaken * 2 ^ H
  steps_eq_ge : N ≤ s.stepsTaken + minSteps s.remaining s.stack

theorem inv_init (H : ℕ) {N : ℕ} (hN : 1 ≤ N) : Inv H N (loopInit N) := by
  refine ⟨?_, ?_, ?_, ?_, ?_, ?_⟩ <;> simp [loopInit, pendingTime, minSteps, hN]

theorem two_pow_halve {H k : ℕ} (hk : k < H) : 2 * 2 ^ (H - (k + 1)) = 2 ^ (H - k) := by
  have : H - k = (H - (k + 1)) + 1 := by omega
  rw [this, Nat.pow_succ, Nat.mul_comm]

theorem inv_step {H N : ℕ} {s s' : LoopSt} {o : LfOut} (hs : Inv H N s)
    (h : loopStep H s o = .inl s') : Inv H N s' := by
  obtain ⟨ht, hl, hp, hr, htl, hq⟩ := hs
  cases o with
  | err => simp [loopStep_err] at h
  | ok =>
    rw [loopStep_ok] at h
    split at h
    · simp at h
    · rename_i hne
      have h := Sum.inl.inj h
      subst h
      have hpow : 2 ^ (H - s.stack.length) ≤ 2 ^ H := Nat.pow_le_pow_right (by norm_num) (Nat.sub_le _ _)
      refine ⟨?_, ?_, ?_, ?_, ?_, ?_⟩
      · show s.time + 2 ^ (H - s.stack.length) + pendingTime H _ _ = _
        rw [pendingTime_popAll, ← ht, pendingTime_pred H hr s.stack]; omega
      · exact le_trans (popAll_length_le _ _) hl
      · intro x hx; exact hp x (popAll_mem _ _ hx)
      · show 1 ≤ (popAll (s.remaining - 1) s.stack).1
        omega
      · show s.time + 2 ^ (H - s.stack.length) ≤ (s.stepsTaken + 1) * 2 ^ H
        rw [Nat.succ_mul]; omega
      · show N ≤ s.stepsTaken + 1 + minSteps _ _
        rw [minSteps_popAll]
        have := minSteps_pred hr s.stack
        omega
  | diverge =>
    rw [loopStep_diverge] at h
    split at h
    · simp at h
    · rename_i hlt
      have h := Sum.inl.inj h
      subst h
      have hlt : s.stack.length < H := by omega
      refine ⟨?_, ?_, ?_, ?_, ?_, ?_⟩
      · show s.time + pendingTime H 2 (s.remaining :: s.stack) = _
        rw [← ht, pendingTime_pred H hr s.stack]
        simp only [pendingTime]
        have := two_pow_halve hlt
        omega
      · show s.stack.length + 1 ≤ H
        exact hlt
      · intro x hx
        rcases List.mem_cons.1 hx with rfl | hx
        · exact hr
        · exact hp x hx
      · show 1 ≤ 2
        norm_num
      · exact htl
      · show N ≤ s.stepsTaken + minSteps 2 (s.remaining :: s.stack)
        simp only [minSteps]
        have := minSteps_pred hr s.stack
        omega


/-! ### reachable states, A4 -/

/-- states reachable from `loopInit N` by iterating the loop body -/
inductive Reachable (H N : ℕ) : LoopSt → Prop
  | init : Reachable H N (loopInit N)
  | step {s s' : LoopSt} {o : LfOut} : Reachable H N s → loopStep H s o = .inl s' → Reachable H N s'

theorem reachable_inv {H N : ℕ} (hN : 1 ≤ N) {s : LoopSt} (h : Reachable H N s) : Inv H N s := by
  induction h with
  | init => exact inv_init H hN
  | step _ hstep ih => exact inv_step ih hstep

/-- `popAll` with the `prev_remaining - 1` subtraction checked (as in a debug build) -/
def popAllChecked : ℕ → List ℕ → Option (ℕ × List ℕ)
  | 0, x :: rest => if x = 0 then none else popAllChecked (x - 1) rest
  | r, st => some (r, st)

/-- A4: on a stack whose entries are all `≥ 1`, every `prev_remaining - 1` executed by the pop loop
is a true subtraction: the checked version never fails and agrees with `popAll`. -/
theorem no_underflow (r : ℕ) (st : List ℕ) (h : ∀ x ∈ st, 1 ≤ x) :
    popAllChecked r st = some (popAll r st) := by
  induction st generalizing r with
  | nil => cases r <;> simp [popAllChecked, popAll_nil]
  | cons x rest ih =>
    cases r with
    | zero =>
      have hx : x ≠ 0 := by have := h x (List.mem_cons_self ..); omega
      rw [popAll_zero_cons, popAllChecked, if_neg hx]
      exact ih _ (fun y hy => h y (List.mem_cons_of_mem _ hy))
    | succ r => simp [popAllChecked, popAll_succ]

/-- A4 for reachable states: both subtractions of the loop body (`remaining - 1` and every
`prev_remaining - 1`) are true subtractions. -/
theorem no_underflow_reachable {H N : ℕ} (hN : 1 ≤ N) {s : LoopSt} (h : Reachable H N s) :
    1 ≤ s.remaining ∧ (∀ x ∈ s.stack, 1 ≤ x) ∧
      popAllChecked (s.remaining - 1) s.stack = some (popAll (s.remaining - 1) s.stack) :=
  have hi := reachable_inv hN h
  ⟨hi.rem_pos, hi.stack_pos, no_underflow _ _ hi.stack_pos⟩

/-- A4: `factor = 2^-stack.length ≥ 2^-H` in every reachable state -/
theorem factor_bound {H N : ℕ} (hN : 1 ≤ N) {s : LoopSt} (h : Reachable H N s) :
    s.stack.length ≤ H := (reachable_inv hN h).len_le

/-! ### exits of one iteration -/

theorem runLoop_cons (H : ℕ) (s : LoopSt) (o : LfOut) (os : List LfOut) :
    runLoop H s (o :: os) = match loopStep H s o with
      | .inr e => e
      | .inl s' => runLoop H s' os := rfl

theorem step_finished {H N : ℕ} {s s' : LoopSt} {o : LfOut} (hs : Inv H N s)
    (h : loopStep H s o = .inr (.finished s')) :
    o = .ok ∧ s'.time = N * 2 ^ H ∧ s'.stack = [] ∧ s'.remaining = 0 ∧
      s'.stepsTaken = s.stepsTaken + minSteps s.remaining s.stack := by
  obtain ⟨ht, hl, hp, hr, htl, hq⟩ := hs
  cases o with
  | err => simp [loopStep_err] at h
  | diverge =>
    rw [loopStep_diverge] at h
    split at h <;> simp at h
  | ok =>
    rw [loopStep_ok] at h
    split at h
    · rename_i h0
      have h := LoopExit.finished.inj (Sum.inr.inj h)
      subst h
      have hnil := popAll_fst_zero _ _ h0
      have hpt := pendingTime_popAll H (s.remaining - 1) s.stack
      have hms := minSteps_popAll (s.remaining - 1) s.stack
      rw [h0, hnil] at hpt hms
      simp only [pendingTime, minSteps, Nat.zero_mul] at hpt hms
      refine ⟨rfl, ?_, hnil, h0, ?_⟩
      · show s.time + 2 ^ (H - s.stack.length) = _
        rw [← ht, pendingTime_pred H hr s.stack]; omega
      · show s.stepsTaken + 1 = _
        rw [minSteps_pred hr s.stack]; omega
    · simp at h

theorem step_diverged {H : ℕ} {s s' : LoopSt} {o : LfOut}
    (h : loopStep H s o = .inr (.diverged s')) : o = .diverge ∧ s' = s ∧ H ≤ s.stack.length := by
  cases o with
  | err => simp [loopStep_err] at h
  | ok => rw [loopStep_ok] at h; split at h <;> simp at h
  | diverge =>
    rw [loopStep_diverge] at h
    split at h
    · rename_i hge
      exact ⟨rfl, (LoopExit.diverged.inj (Sum.inr.inj h)).symm, hge⟩
    · simp at h

theorem step_inl_stepQ {H N : ℕ} {s s' : LoopSt} {o : LfOut} (hs : Inv H N s)
    (h : loopStep H s o = .inl s') :
    s'.stepsTaken + minSteps s'.remaining s'.stack =
      s.stepsTaken + minSteps s.remaining s.stack + (if o = .diverge then 1 else 0) ∧ o ≠ .err := by
  have hr := hs.rem_pos
  cases o with
  | err => simp [loopStep_err] at h
  | ok =>
    rw [loopStep_ok] at h
    split at h
    · simp at h
    · have h := Sum.inl.inj h
      subst h
      refine ⟨?_, by simp⟩
      show s.stepsTaken + 1 + minSteps _ _ = _
      rw [minSteps_popAll, minSteps_pred hr s.stack]; simp; omega
  | diverge =>
    rw [loopStep_diverge] at h
    split at h
    · simp at h
    · have h := Sum.inl.inj h
      subst h
      refine ⟨?_, by simp⟩
      show s.stepsTaken + minSteps 2 (s.remaining :: s.stack) = _
      simp only [minSteps, if_true]
      rw [minSteps_pred hr s.stack]; omega

/-! ### A2, A3, A5 from an arbitrary invariant state -/

/-- number of outcomes the loop reads before it exits (`outs.length` if it runs out of script) -/
def consumed (H : ℕ) : LoopSt → List LfOut → ℕ
  | _, [] => 0
  | s, o :: os =>
    match loopStep H s o with
    | .inr _ => 1
    | .inl s' => 1 + consumed H s' os

theorem consumed_cons (H : ℕ) (s : LoopSt) (o : LfOut) (os : List LfOut) :
    consumed H s (o :: os) = match loopStep H s o with
      | .inr _ => 1
      | .inl s' => 1 + consumed H s' os := rfl

theorem consumed_le (H : ℕ) (s : LoopSt) (outs : List LfOut) : consumed H s outs ≤ outs.length := by
  induction outs generalizing s with
  | nil => simp [consumed]
  | cons o os ih =>
    rw [consumed_cons]
    cases hstep : loopStep H s o with
    | inr e => simp
    | inl s' => have := ih s'; simp only [List.length_cons]; omega

/-- the loop's result depends only on the consumed prefix -/
theorem runLoop_consumed_prefix (H : ℕ) (s : LoopSt) (outs tail : List LfOut)
    (h : ∀ t, runLoop H s outs ≠ .outOfScript t) :
    runLoop H s (outs.take (consumed H s outs) ++ tail) = runLoop H s outs := by
  induction outs generalizing s with
  | nil => exact absurd rfl (h s)
  | cons o os ih =>
    rw [consumed_cons, runLoop_cons] at *
    cases hstep : loopStep H s o with
    | inr e => simp [runLoop_cons, hstep]
    | inl s' =>
      rw [hstep] at h
      simp only [Nat.add_comm 1, List.take_succ_cons, List.cons_append, runLoop_cons, hstep]
      exact ih s' h

theorem run_finished {H N : ℕ} {s s' : LoopSt} {outs : List LfOut} (hs : Inv H N s)
    (h : runLoop H s outs = .finished s') :
    s'.time = N * 2 ^ H ∧ s'.stack = [] ∧ s'.remaining = 0 ∧
      s'.stepsTaken = s.stepsTaken + minSteps s.remaining s.stack +
        (outs.take (consumed H s outs)).count .diverge ∧
      .err ∉ outs.take (consumed H s outs) := by
  induction outs generalizing s with
  | nil => simp [runLoop] at h
  | cons o os ih =>
    rw [runLoop_cons] at h
    rw [consumed_cons]
    cases hstep : loopStep H s o with
    | inr e =>
      rw [hstep] at h
      subst h
      obtain ⟨rfl, h1, h2, h3, h4⟩ := step_finished hs hstep
      exact ⟨h1, h2, h3, by simpa using h4, by simp⟩
    | inl s'' =>
      rw [hstep] at h
      obtain ⟨h1, h2, h3, h4, h5⟩ := ih (inv_step hs hstep) h
      obtain ⟨hq, hne⟩ := step_inl_stepQ hs hstep
      refine ⟨h1, h2, h3, ?_, ?_⟩
      · simp only [Nat.add_comm 1, List.take_succ_cons, List.count_cons]
        rw [h4, hq]
        have : (o == LfOut.diverge) = decide (o = .diverge) := by cases o <;> rfl
        simp only [this, decide_eq_true_eq]
        omega
      · simp only [Nat.add_comm 1, List.take_succ_cons, List.mem_cons, not_or]
        exact ⟨fun e => hne e.symm, h5⟩

theorem run_diverged {H N : ℕ} {s s' : LoopSt} {outs : List LfOut} (hs : Inv H N s)
    (h : runLoop H s outs = .diverged s') : s'.stack.length = H ∧ Inv H N s' := by
  induction outs generalizing s with
  | nil => simp [runLoop] at h
  | cons o os ih =>
    rw [runLoop_cons] at h
    cases hstep : loopStep H s o with
    | inr e =>
      rw [hstep] at h
      subst h
      obtain ⟨-, rfl, hge⟩ := step_diverged hstep
      exact ⟨le_antisymm hs.len_le hge, hs⟩
    | inl s'' =>
      rw [hstep] at h
      exact ih (inv_step hs hstep) h


/-! ### main statements A2, A3, A5 -/

/-- A2: the integrated time is exactly `num_base_steps · ε` (in units of `ε·2^-H`), the stack is
empty and `remaining = 0` when the loop ends normally. -/
theorem halving_time_conserved {H N : ℕ} (hN : 1 ≤ N) {outs : List LfOut} {s : LoopSt}
    (h : runLoop H (loopInit N) outs = .finished s) :
    s.time = N * 2 ^ H ∧ s.stack = [] ∧ s.remaining = 0 := by
  obtain ⟨h1, h2, h3, -, -⟩ := run_finished (inv_init H hN) h
  exact ⟨h1, h2, h3⟩

/-- A3 (exact count): `steps_taken = num_base_steps + number of retried (divergent) leapfrogs
among the outcomes the loop consumed`; no `.err` was consumed. -/
theorem steps_eq_base_add_retries {H N : ℕ} (hN : 1 ≤ N) {outs : List LfOut} {s : LoopSt}
    (h : runLoop H (loopInit N) outs = .finished s) :
    s.stepsTaken = N + (outs.take (consumed H (loopInit N) outs)).count .diverge ∧
      .err ∉ outs.take (consumed H (loopInit N) outs) := by
  obtain ⟨-, -, -, h4, h5⟩ := run_finished (inv_init H hN) h
  refine ⟨?_, h5⟩
  simpa [loopInit, minSteps] using h4

/-- A3: the Rust `assert!(steps_taken >= num_base_steps)` cannot fire. -/
theorem steps_ge_base {H N : ℕ} (hN : 1 ≤ N) {outs : List LfOut} {s : LoopSt}
    (h : runLoop H (loopInit N) outs = .finished s) : N ≤ s.stepsTaken := by
  rw [(steps_eq_base_add_retries hN h).1]; omega

/-- A3: `steps_taken = num_base_steps` iff no divergence occurred among the consumed outcomes. -/
theorem steps_eq_iff {H N : ℕ} (hN : 1 ≤ N) {outs : List LfOut} {s : LoopSt}
    (h : runLoop H (loopInit N) outs = .finished s) :
    s.stepsTaken = N ↔ .diverge ∉ outs.take (consumed H (loopInit N) outs) := by
  rw [(steps_eq_base_add_retries hN h).1, ← List.count_eq_zero]
  omega

/-- the number of consumed outcomes is `steps_taken + retries` -/
theorem consumed_eq {H N : ℕ} {s s' : LoopSt} {outs : List LfOut} (hs : Inv H N s)
    (h : runLoop H s outs = .finished s') :
    consumed H s outs = (s'.stepsTaken - s.stepsTaken) +
      (outs.take (consumed H s outs)).count .diverge := by
  induction outs generalizing s with
  | nil => simp [runLoop] at h
  | cons o os ih =>
    rw [runLoop_cons] at h
    rw [consumed_cons]
    cases hstep : loopStep H s o with
    | inr e =>
      rw [hstep] at h
      subst h
      obtain ⟨rfl, -, -, -, h4⟩ := step_finished hs hstep
      have := minSteps_pred hs.rem_pos s.stack
      have hms := minSteps_popAll (s.remaining - 1) s.stack
      rw [loopStep_ok] at hstep
      split at hstep
      · have h := LoopExit.finished.inj (Sum.inr.inj hstep)
        subst h
        simp
      · simp at hstep
    | inl s'' =>
      rw [hstep] at h
      have ih' := ih (inv_step hs hstep) h
      obtain ⟨-, -, -, h4, -⟩ := run_finished (inv_step hs hstep) h
      simp only [Nat.add_comm 1, List.take_succ_cons, List.count_cons]
      have hb : (o == LfOut.diverge) = decide (o = .diverge) := by cases o <;> rfl
      simp only [hb, decide_eq_true_eq]
      cases o with
      | err => simp [loopStep_err] at hstep
      | ok =>
        rw [loopStep_ok] at hstep
        split at hstep
        · simp at hstep
        · have e := Sum.inl.inj hstep
          subst e
          simp only [] at ih' h4 ⊢
          simp
          omega
      | diverge =>
        rw [loopStep_diverge] at hstep
        split at hstep
        · simp at hstep
        · have e := Sum.inl.inj hstep
          subst e
          simp only [] at ih' h4 ⊢
          simp
          omega

/-- run on a divergence-free script from a state with empty stack -/
theorem run_all_ok (H : ℕ) (r c t : ℕ) (tail : List LfOut) :
    runLoop H ⟨r + 1, [], c, t⟩ (List.replicate (r + 1) .ok ++ tail) =
      .finished ⟨0, [], c + (r + 1), t + (r + 1) * 2 ^ H⟩ := by
  induction r generalizing c t with
  | zero =>
    simp [List.replicate, runLoop_cons, loopStep_ok, popAll_nil]
  | succ r ih =>
    rw [List.replicate_succ, List.cons_append, runLoop_cons, loopStep_ok]
    simp only [Nat.add_sub_cancel, popAll_nil, Nat.succ_ne_zero, if_false, List.length_nil,
      Nat.sub_zero]
    rw [ih]
    congr 2
    · omega
    · rw [Nat.succ_mul (r + 1)]; omega

/-- A3 (i): without divergences the loop takes exactly `num_base_steps` steps. -/
theorem all_ok_steps (H : ℕ) {N : ℕ} (hN : 1 ≤ N) {outs : List LfOut}
    (hall : ∀ o ∈ outs, o = .ok) (hlen : N ≤ outs.length) :
    runLoop H (loopInit N) outs = .finished ⟨0, [], N, N * 2 ^ H⟩ := by
  obtain ⟨r, rfl⟩ : ∃ r, N = r + 1 := ⟨N - 1, by omega⟩
  have hrep : outs = List.replicate (r + 1) .ok ++ List.replicate (outs.length - (r + 1)) .ok := by
    rw [List.replicate_append_replicate, List.eq_replicate_iff]
    exact ⟨by omega, hall⟩
  rw [hrep]
  have := run_all_ok H r 0 0 (List.replicate (outs.length - (r + 1)) .ok)
  simpa [loopInit] using this

/-- A5: a divergence is reported only with the halving budget exhausted. -/
theorem diverged_only_at_budget {H N : ℕ} (hN : 1 ≤ N) {outs : List LfOut} {s : LoopSt}
    (h : runLoop H (loopInit N) outs = .diverged s) : s.stack.length = H :=
  (run_diverged (inv_init H hN) h).1

/-- A5 with `H = 0` (dynamic step size off): the first divergent leapfrog ends the loop, at
`factor = 1`. -/
theorem diverged_no_halving {N : ℕ} (hN : 1 ≤ N) {outs : List LfOut} {s : LoopSt}
    (h : runLoop 0 (loopInit N) outs = .diverged s) : s.stack = [] :=
  List.eq_nil_of_length_eq_zero (diverged_only_at_budget hN h)

/-! ### A6: termination -/

/-- the termination measure -/
def mu (H : ℕ) (s : LoopSt) : ℕ :=
  pendingTime H s.remaining s.stack * (H + 1) + (H - s.stack.length)

theorem mu_decreases {H N : ℕ} {s s' : LoopSt} {o : LfOut} (hs : Inv H N s)
    (h : loopStep H s o = .inl s') : mu H s' < mu H s := by
  have hr := hs.rem_pos
  have hl := hs.len_le
  cases o with
  | err => simp [loopStep_err] at h
  | ok =>
    rw [loopStep_ok] at h
    split at h
    · simp at h
    · have h := Sum.inl.inj h
      subst h
      show pendingTime H _ _ * (H + 1) + (H - _) < pendingTime H _ _ * (H + 1) + (H - _)
      rw [pendingTime_popAll, pendingTime_pred H hr s.stack, Nat.add_mul]
      have h1 : 1 ≤ 2 ^ (H - s.stack.length) := Nat.one_le_two_pow
      have h2 : 1 * (H + 1) ≤ 2 ^ (H - s.stack.length) * (H + 1) := Nat.mul_le_mul_right _ h1
      omega
  | diverge =>
    rw [loopStep_diverge] at h
    split at h
    · simp at h
    · have h := Sum.inl.inj h
      subst h
      show pendingTime H 2 (s.remaining :: s.stack) * (H + 1) + (H - (s.stack.length + 1)) < _
      have hlt : s.stack.length < H := by omega
      have : pendingTime H 2 (s.remaining :: s.stack) = pendingTime H s.remaining s.stack := by
        rw [pendingTime_pred H hr s.stack]
        simp only [pendingTime]
        have := two_pow_halve hlt
        omega
      rw [this]
      show _ < pendingTime H s.remaining s.stack * (H + 1) + (H - s.stack.length)
      omega

theorem run_terminates {H N : ℕ} {s : LoopSt} {outs : List LfOut} (hs : Inv H N s)
    (hlen : mu H s < outs.length) (herr : .err ∉ outs) :
    (∃ s', runLoop H s outs = .finished s') ∨ (∃ s', runLoop H s outs = .diverged s') := by
  induction outs generalizing s with
  | nil => simp at hlen
  | cons o os ih =>
    rw [runLoop_cons]
    have ho : o ≠ .err := fun e => herr (e ▸ List.mem_cons_self ..)
    have hos : .err ∉ os := fun e => herr (List.mem_cons_of_mem _ e)
    cases hstep : loopStep H s o with
    | inr e =>
      cases o with
      | err => exact absurd rfl ho
      | ok =>
        rw [loopStep_ok] at hstep
        split at hstep
        · exact Or.inl ⟨_, (Sum.inr.inj hstep).symm⟩
        · simp at hstep
      | diverge =>
        rw [loopStep_diverge] at hstep
        split at hstep
        · exact Or.inr ⟨_, (Sum.inr.inj hstep).symm⟩
        · simp at hstep
    | inl s' =>
      have := mu_decreases hs hstep
      simp only [List.length_cons] at hlen
      exact ih (inv_step hs hstep) (by omega) hos

/-- A6: on an error-free script of length `> N·2^H·(H+1) + H` the loop exits by itself. -/
theorem loop_terminates {H N : ℕ} (hN : 1 ≤ N) {outs : List LfOut}
    (hlen : N * 2 ^ H * (H + 1) + H + 1 ≤ outs.length) (herr : .err ∉ outs) :
    (∃ s, runLoop H (loopInit N) outs = .finished s) ∨
      (∃ s, runLoop H (loopInit N) outs = .diverged s) := by
  refine run_terminates (inv_init H hN) ?_ herr
  have : mu H (loopInit N) = N * 2 ^ H * (H + 1) + H := by
    simp [mu, loopInit, pendingTime]
  omega

/-- in particular the driver result `.outOfScript` is impossible on such scripts -/
theorem loop_not_outOfScript {H N : ℕ} (hN : 1 ≤ N) {outs : List LfOut}
    (hlen : N * 2 ^ H * (H + 1) + H + 1 ≤ outs.length) (herr : .err ∉ outs) (s : LoopSt) :
    runLoop H (loopInit N) outs ≠ .outOfScript s := by
  rcases loop_terminates hN hlen herr with ⟨s', h⟩ | ⟨s', h⟩ <;> rw [h] <;> simp


/-! ## Part B — the ESH momentum update over ℝ -/

theorem vsum_eq_sum {n : ℕ} (f : Fin n → ℝ) : vsum f = ∑ i, f i := by
  unfold vsum
  induction n with
  | zero => simp
  | succ m ih =>
    rw [Fin.foldl_succ_last, Fin.sum_univ_castSucc]
    have := ih (fun i => f i.castSucc)
    rw [this]

variable {n : ℕ}

/-- B3 -/
theorem normalize_unit_norm (v : Vec ℝ n) (hv : 0 < ∑ i, v i ^ 2) :
    ∑ i, (Model.normalize v i) ^ 2 = 1 := by
  simp only [Model.normalize, vsum_eq_sum, transc_sqrt, Nat.cast_one]
  have hS : ∑ i, v i * v i = ∑ i, v i ^ 2 := by simp [pow_two]
  rw [hS]
  simp only [mul_pow, ← Finset.sum_mul]
  rw [div_pow, Real.sq_sqrt hv.le, one_pow, mul_one_div, div_self hv.ne']

/-- polynomial core of B1 -/
theorem esh_raw_norm_core (e p : Vec ℝ n) (he : ∑ i, e i ^ 2 = 1) (hp : ∑ i, p i ^ 2 = 1) (ζ : ℝ) :
    ∑ i, ((1 - ζ) * (1 + ζ + (∑ j, p j * e j) * (1 - ζ)) * e i + 2 * ζ * p i) ^ 2 =
      (1 + ζ ^ 2 + (∑ j, p j * e j) * (1 - ζ ^ 2)) ^ 2 := by
  set ue := ∑ j, p j * e j with hue
  have : ∀ a b : ℝ, ∑ i, (a * e i + b * p i) ^ 2 = a ^ 2 + 2 * a * b * ue + b ^ 2 := by
    intro a b
    have : ∀ i, (a * e i + b * p i) ^ 2 = a ^ 2 * e i ^ 2 + 2 * a * b * (p i * e i) + b ^ 2 * p i ^ 2 := by
      intro i; ring
    simp only [this, Finset.sum_add_distrib, ← Finset.mul_sum, he, hp, ← hue]
    ring
  rw [this]
  ring

theorem unit_of_pos (g : Vec ℝ n) (hg : 0 < ∑ i, g i ^ 2) :
    ∑ i, (g i / Real.sqrt (∑ j, g j ^ 2)) ^ 2 = 1 := by
  simp only [div_pow, ← Finset.sum_div, Real.sq_sqrt hg.le]
  exact div_self hg.ne'

/-- B1 -/
theorem esh_raw_norm (g p : Vec ℝ n) (hg : 0 < ∑ i, g i ^ 2) (hp : ∑ i, p i ^ 2 = 1) (ζ : ℝ) :
    let e : Vec ℝ n := fun i => g i / Real.sqrt (∑ j, g j ^ 2)
    let ue := ∑ i, p i * e i
    let raw : Vec ℝ n := fun i => (1 - ζ) * (1 + ζ + ue * (1 - ζ)) * e i + 2 * ζ * p i
    ∑ i, raw i ^ 2 = (1 + ζ ^ 2 + ue * (1 - ζ ^ 2)) ^ 2 := by
  intro e ue raw
  exact esh_raw_norm_core e p (unit_of_pos g hg) hp ζ

theorem abs_proj_le_one (e p : Vec ℝ n) (he : ∑ i, e i ^ 2 = 1) (hp : ∑ i, p i ^ 2 = 1) :
    |∑ i, p i * e i| ≤ 1 := by
  have := Finset.sum_mul_sq_le_sq_mul_sq Finset.univ p e
  rw [he, hp, mul_one] at this
  exact abs_le_one_iff_mul_self_le_one.2 (by nlinarith)

theorem closed_norm_pos {ue ζ : ℝ} (hue : |ue| ≤ 1) (hζ : 0 < ζ) :
    0 < 1 + ζ ^ 2 + ue * (1 - ζ ^ 2) := by
  obtain ⟨h1, h2⟩ := abs_le.1 hue
  have hz : 0 < ζ ^ 2 := by positivity
  rcases le_total ue 0 with h | h
  · nlinarith
  · nlinarith


/-- `‖g‖` -/
noncomputable def gnorm (g : Vec ℝ n) : ℝ := Real.sqrt (∑ i, g i ^ 2)

/-- the unit vector `g/‖g‖` -/
noncomputable def gdir (g : Vec ℝ n) : Vec ℝ n := fun i => g i / gnorm g

/-- `δ = step·‖g‖/(n-1)` -/
noncomputable def eshDelta (g : Vec ℝ n) (step : ℝ) : ℝ := step * gnorm g / ((n : ℝ) - 1)

/-- the un-normalised ESH vector for direction `e`, momentum `p` and `ζ = exp(-δ)` -/
noncomputable def eshRaw (e p : Vec ℝ n) (ζ : ℝ) : Vec ℝ n :=
  fun i => (1 - ζ) * (1 + ζ + (∑ j, p j * e j) * (1 - ζ)) * e i + 2 * ζ * p i

theorem cast_pred_real (hn : 1 ≤ n) : ((n - 1 : ℕ) : ℝ) = (n : ℝ) - 1 := by
  rw [Nat.cast_sub hn, Nat.cast_one]

theorem esh_fst_eq (hn : 1 ≤ n) (g p : Vec ℝ n) (step : ℝ) :
    (eshUpdate g p step).1 =
      Model.normalize (eshRaw (gdir g) p (Real.exp (-(eshDelta g step)))) := by
  have h1 : ∑ i, g i * g i = ∑ i, g i ^ 2 := by simp [pow_two]
  have h3 : ∀ x y : ℝ, x * (1 / y) = x / y := fun x y => mul_one_div x y
  funext i
  simp only [eshUpdate, Model.normalize, eshRaw, gdir, gnorm, eshDelta, vsum_eq_sum, transc_sqrt,
    transc_exp, Nat.cast_one, Nat.cast_ofNat, h1, cast_pred_real hn, h3, mul_div_assoc]

theorem esh_snd_eq (hn : 1 ≤ n) (g p : Vec ℝ n) (step : ℝ) :
    (eshUpdate g p step).2 =
      (eshDelta g step - Real.log 2 +
        Real.log (1 + ((∑ i, p i * gdir g i) + (1 - ∑ i, p i * gdir g i) *
          Real.exp (-(eshDelta g step)) ^ 2))) * ((n : ℝ) - 1) := by
  have h1 : ∑ i, g i * g i = ∑ i, g i ^ 2 := by simp [pow_two]
  have h3 : ∀ x y : ℝ, x * (1 / y) = x / y := fun x y => mul_one_div x y
  simp only [eshUpdate, gdir, gnorm, eshDelta, vsum_eq_sum, transc_sqrt, transc_log, transc_log1p,
    transc_exp, Nat.cast_one, Nat.cast_ofNat, h1, cast_pred_real hn, h3, mul_div_assoc, pow_two,
    mul_assoc]


theorem gdir_unit (g : Vec ℝ n) (hg : 0 < ∑ i, g i ^ 2) : ∑ i, gdir g i ^ 2 = 1 :=
  unit_of_pos g hg

/-- the norm the code divides by is the closed form `1 + ζ² + ue(1-ζ²)`, and it is positive -/
theorem esh_rawNorm_closed (e p : Vec ℝ n) (he : ∑ i, e i ^ 2 = 1) (hp : ∑ i, p i ^ 2 = 1)
    {ζ : ℝ} (hζ : 0 < ζ) :
    Real.sqrt (∑ i, eshRaw e p ζ i ^ 2) = 1 + ζ ^ 2 + (∑ j, p j * e j) * (1 - ζ ^ 2) ∧
      0 < 1 + ζ ^ 2 + (∑ j, p j * e j) * (1 - ζ ^ 2) := by
  have hpos := closed_norm_pos (abs_proj_le_one e p he hp) hζ
  refine ⟨?_, hpos⟩
  have := esh_raw_norm_core e p he hp ζ
  simp only [eshRaw]
  rw [this, Real.sqrt_sq hpos.le]

/-- B2 -/
theorem esh_unit_norm (hn : 2 ≤ n) (g p : Vec ℝ n) (hg : 0 < ∑ i, g i ^ 2)
    (hp : ∑ i, p i ^ 2 = 1) (step : ℝ) :
    ∑ i, ((eshUpdate g p step).1 i) ^ 2 = 1 := by
  rw [esh_fst_eq (by omega) g p step]
  apply normalize_unit_norm
  have hζ : 0 < Real.exp (-(eshDelta g step)) := Real.exp_pos _
  have hpos := closed_norm_pos (abs_proj_le_one (gdir g) p (gdir_unit g hg) hp) hζ
  have := esh_raw_norm_core (gdir g) p (gdir_unit g hg) hp (Real.exp (-(eshDelta g step)))
  simp only [eshRaw]
  rw [this]
  positivity

/-- explicit form of the new momentum: `raw / (1 + ζ² + ue(1-ζ²))` -/
theorem esh_fst_closed (hn : 2 ≤ n) (g p : Vec ℝ n) (hg : 0 < ∑ i, g i ^ 2)
    (hp : ∑ i, p i ^ 2 = 1) (step : ℝ) (i : Fin n) :
    (eshUpdate g p step).1 i =
      eshRaw (gdir g) p (Real.exp (-(eshDelta g step))) i /
        (1 + Real.exp (-(eshDelta g step)) ^ 2 +
          (∑ j, p j * gdir g j) * (1 - Real.exp (-(eshDelta g step)) ^ 2)) := by
  rw [esh_fst_eq (by omega) g p step]
  have hζ : 0 < Real.exp (-(eshDelta g step)) := Real.exp_pos _
  have h := (esh_rawNorm_closed (gdir g) p (gdir_unit g hg) hp hζ).1
  have hsq : ∀ v : Vec ℝ n, ∑ i, v i * v i = ∑ i, v i ^ 2 := fun v => by simp [pow_two]
  simp only [Model.normalize, vsum_eq_sum, transc_sqrt, Nat.cast_one, hsq, h, mul_one_div]

/-- B4 -/
theorem esh_delta_ke (hn : 2 ≤ n) (g p : Vec ℝ n) (step : ℝ) :
    let gn := Real.sqrt (∑ i, g i ^ 2)
    let ue := ∑ i, p i * (g i / gn)
    let δ := step * gn / ((n : ℝ) - 1)
    let ζ := Real.exp (-δ)
    (eshUpdate g p step).2 =
      (δ - Real.log 2 + Real.log (1 + (ue + (1 - ue) * ζ ^ 2))) * ((n : ℝ) - 1) := by
  intro gn ue δ ζ
  exact esh_snd_eq (by omega) g p step

/-- B2 + B1 with everything spelled out -/
theorem esh_update_explicit (hn : 2 ≤ n) (g p : Vec ℝ n) (hg : 0 < ∑ i, g i ^ 2)
    (hp : ∑ i, p i ^ 2 = 1) (step : ℝ) :
    let gn := Real.sqrt (∑ i, g i ^ 2)
    let e : Vec ℝ n := fun i => g i / gn
    let ue := ∑ i, p i * e i
    let ζ := Real.exp (-(step * gn / ((n : ℝ) - 1)))
    let raw : Vec ℝ n := fun i => (1 - ζ) * (1 + ζ + ue * (1 - ζ)) * e i + 2 * ζ * p i
    let c := 1 + ζ ^ 2 + ue * (1 - ζ ^ 2)
    |ue| ≤ 1 ∧ 0 < c ∧ ∑ i, raw i ^ 2 = c ^ 2 ∧ ∀ i, (eshUpdate g p step).1 i = raw i / c := by
  intro gn e ue ζ raw c
  have he : ∑ i, e i ^ 2 = 1 := unit_of_pos g hg
  have hue : |ue| ≤ 1 := abs_proj_le_one e p he hp
  exact ⟨hue, closed_norm_pos hue (Real.exp_pos _), esh_raw_norm_core e p he hp ζ,
    fun i => esh_fst_closed hn g p hg hp step i⟩


/-- the argument of the logarithm in ΔKE is the (positive) closed-form norm -/
theorem esh_log_arg_pos (e p : Vec ℝ n) (he : ∑ i, e i ^ 2 = 1) (hp : ∑ i, p i ^ 2 = 1)
    {ζ : ℝ} (hζ : 0 < ζ) :
    0 < 1 + ((∑ j, p j * e j) + (1 - ∑ j, p j * e j) * ζ ^ 2) := by
  have := closed_norm_pos (abs_proj_le_one e p he hp) hζ
  linarith

/-! ## non-vacuity and axioms -/

deriving instance DecidableEq for LoopExit

/-- one concrete run with a retry: `N = 3`, `H = 2`; the 2nd leapfrog diverges, is redone as two
half steps; 5 outcomes are consumed, 4 steps taken, time `12 = 3·2²`. -/
example : runLoop 2 (loopInit 3) [.ok, .diverge, .ok, .ok, .ok, .ok] = .finished ⟨0, [], 4, 12⟩ := by
  decide

example : consumed 2 (loopInit 3) [.ok, .diverge, .ok, .ok, .ok, .ok] = 5 := by decide

/-- two nested retries then a reported divergence at `stack.length = H = 2` -/
example : runLoop 2 (loopInit 3) [.ok, .diverge, .diverge, .diverge, .ok] =
    .diverged ⟨2, [2, 2], 1, 4⟩ := by decide

/-- `H = 0`: first divergence is reported -/
example : runLoop 0 (loopInit 3) [.ok, .diverge, .ok] = .diverged ⟨2, [], 1, 1⟩ := by decide

#print axioms inv_init
#print axioms inv_step
#print axioms halving_time_conserved
#print axioms steps_eq_base_add_retries
#print axioms steps_ge_base
#print axioms steps_eq_iff
#print axioms all_ok_steps
#print axioms no_underflow
#print axioms no_underflow_reachable
#print axioms factor_bound
#print axioms diverged_only_at_budget
#print axioms mu_decreases
#print axioms loop_terminates
#print axioms esh_raw_norm
#print axioms esh_unit_norm
#print axioms normalize_unit_norm
#print axioms esh_delta_ke
#print axioms esh_update_explicit

end NutsModel.C18
