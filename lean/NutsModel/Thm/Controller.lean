/-
Theorems about the chain-task / controller automaton of `Model/Controller.lean`
(parallel sampler: `ChainProcess::start` loop, `pause` / `resume`, `finalize_many`, `abort`).

"Reachable" = `runEvs (init total) evs` for an ARBITRARY event list `evs`: all interleavings of chain
steps, command deliveries and finalisation, and all outcomes of the fallible operations.

Proof method: the state space of the control part is finite (phase × head of the mailbox × alive), so
every one-step lemma is proved by exploding the chain record and the phase, letting `simp` evaluate
`chainStep`, and closing the arithmetic with `omega`.  Reachability statements are inductions over the
event list with an invariant preserved by `applyEv`.
-/
import NutsModel.Model.Controller
import Mathlib.Tactic.SplitIfs
import Mathlib.Tactic.Cases
import Mathlib.Tactic.ByContra
import Mathlib.Tactic.Tauto

namespace NutsModel.Ctl
open NutsModel.Model

/-- the initial chain: queued, empty mailbox, sender alive, slot present, nothing recorded -/
def init (total : Nat) : Chain := { total := total }

/-! ## generic facts about `runEvs` -/

theorem runEvs_nil (c : Chain) : runEvs c [] = c := rfl

theorem runEvs_cons (c : Chain) (e : ChainEv) (evs : List ChainEv) :
    runEvs c (e :: evs) = runEvs (applyEv c e) evs := rfl

theorem runEvs_append (c : Chain) (es fs : List ChainEv) :
    runEvs c (es ++ fs) = runEvs (runEvs c es) fs := by
  simp [runEvs, List.foldl_append]

/-- invariant induction: a property of the start state that is preserved by every event holds after
    every event list -/
theorem run_induction {P : Chain → Prop} (hs : ∀ c e, P c → P (applyEv c e)) :
    ∀ (evs : List ChainEv) (c : Chain), P c → P (runEvs c evs)
  | [], _, h => h
  | e :: evs, c, h => by
    rw [runEvs_cons]; exact run_induction hs evs _ (hs c e h)

/-- a `step` event is either a real step or (not enabled) a no-op -/
theorem applyEv_step_cases (c : Chain) (o : Outcome) :
    (chainStep c o = none ∧ applyEv c (.step o) = c) ∨
      (∃ c', chainStep c o = some c' ∧ applyEv c (.step o) = c') := by
  cases h : chainStep c o with
  | none => left; simp [applyEv, h]
  | some c' => right; exact ⟨c', rfl, by simp [applyEv, h]⟩

/-- induction principle for properties preserved by real steps, deliveries and finalisation -/
theorem applyEv_preserves {P : Chain → Prop}
    (hstep : ∀ c o c', P c → chainStep c o = some c' → P c')
    (hdel : ∀ c x, P c → P (deliver c x))
    (hfin : ∀ c, P c → P (finalizeChain c)) :
    ∀ c e, P c → P (applyEv c e) := by
  intro c e h
  cases e with
  | step o =>
    rcases applyEv_step_cases c o with ⟨_, h2⟩ | ⟨c', h1, h2⟩
    · rw [h2]; exact h
    · rw [h2]; exact hstep c o c' h h1
  | deliver x => exact hdel c x h
  | finalize => exact hfin c h

/-! ## T9 — no deadlock; blocked chains -/

/-- **T9**: the only way a task cannot move is that it has finished, or that it sits in the blocking
    `recv` of a paused chain with an empty mailbox whose sender is alive. -/
theorem no_deadlock (c : Chain) (o : Outcome) :
    chainStep c o = none ↔ (∃ r, c.phase = .done r) ∨ blocked c = true := by
  obtain ⟨ph, mb, al, sl, n, pr, tot⟩ := c
  rcases ph with _ | (_ | _ | (_ | _)) | r <;> rcases mb with _ | ⟨m, mb⟩ <;> cases al <;>
    simp [chainStep, tryRecv, recvBlocking, blocked] <;>
    split_ifs <;> simp

theorem blocked_no_step {c : Chain} (o : Outcome) (h : blocked c = true) : chainStep c o = none :=
  (no_deadlock c o).2 (Or.inr h)

theorem blocked_iff (c : Chain) :
    blocked c = true ↔ c.phase = .top (.cmd .pause) ∧ c.mailbox = [] ∧ c.alive = true := by
  simp [blocked, and_assoc]

/-- a blocked chain stays exactly as it is under chain steps: only a `deliver` or `finalize` event can
    change it -/
theorem blocked_stable {c : Chain} (h : blocked c = true) (steps : List Outcome) :
    runEvs c (steps.map .step) = c := by
  induction steps with
  | nil => rfl
  | cons o os ih =>
    rw [List.map_cons, runEvs_cons]
    have : applyEv c (.step o) = c := by simp [applyEv, blocked_no_step o h]
    rw [this]; exact ih

/-- **T8b**: a chain whose sender was dropped is never blocked -/
theorem never_blocked_when_dead {c : Chain} (h : c.alive = false) : blocked c = false := by
  simp [blocked, h]

/-- a finished chain has no step -/
theorem done_no_step {c : Chain} {r : ChainRes} (o : Outcome) (h : c.phase = .done r) :
    chainStep c o = none := (no_deadlock c o).2 (Or.inl ⟨r, h⟩)

theorem done_stable {c : Chain} {r : ChainRes} (h : c.phase = .done r) (steps : List Outcome) :
    runEvs c (steps.map .step) = c := by
  induction steps with
  | nil => rfl
  | cons o os ih =>
    rw [List.map_cons, runEvs_cons]
    have : applyEv c (.step o) = c := by simp [applyEv, done_no_step o h]
    rw [this]; exact ih

/-! ## T2 / T7 — what the events do to `n`, `progress`, `total`, `alive`, `slot` -/

/-- **T2**: a step records at most the next draw -/
theorem n_step_mono (c : Chain) (o : Outcome) (c' : Chain) (h : chainStep c o = some c') :
    c'.n = c.n ∨ c'.n = c.n + 1 := by
  obtain ⟨ph, mb, al, sl, n, pr, tot⟩ := c
  rcases ph with _ | (_ | _ | (_ | _)) | r <;> rcases mb with _ | ⟨m, mb⟩ <;> cases al <;>
    simp [chainStep, tryRecv, recvBlocking] at h ⊢
  all_goals ((try split_ifs at h) <;> (try simp only [Option.some.injEq] at h) <;> subst h <;> simp)

/-- a step never touches `total`, `alive`, `slot`; the mailbox only shrinks from the front -/
theorem step_frame (c : Chain) (o : Outcome) (c' : Chain) (h : chainStep c o = some c') :
    c'.total = c.total ∧ c'.alive = c.alive ∧ c'.slot = c.slot ∧
      (c'.mailbox = c.mailbox ∨ ∃ m, c.mailbox = m :: c'.mailbox) := by
  obtain ⟨ph, mb, al, sl, n, pr, tot⟩ := c
  rcases ph with _ | (_ | _ | (_ | _)) | r <;> rcases mb with _ | ⟨m, mb⟩ <;> cases al <;>
    simp [chainStep, tryRecv, recvBlocking] at h ⊢
  all_goals ((try split_ifs at h) <;> (try simp only [Option.some.injEq] at h) <;> subst h <;> simp)

theorem deliver_n (c : Chain) (x : Cmd) : (deliver c x).n = c.n := rfl
theorem deliver_progress (c : Chain) (x : Cmd) : (deliver c x).progress = c.progress := rfl
theorem deliver_total (c : Chain) (x : Cmd) : (deliver c x).total = c.total := rfl
theorem deliver_phase (c : Chain) (x : Cmd) : (deliver c x).phase = c.phase := rfl
theorem finalize_n (c : Chain) : (finalizeChain c).n = c.n := rfl
theorem finalize_progress (c : Chain) : (finalizeChain c).progress = c.progress := rfl
theorem finalize_total (c : Chain) : (finalizeChain c).total = c.total := rfl
theorem finalize_phase (c : Chain) : (finalizeChain c).phase = c.phase := rfl

/-- **T7**: `deliver` / `finalize` events change neither the recorded draws, nor the progress counter,
    nor the target (pausing and resuming loses and duplicates nothing) -/
theorem resume_exact (c : Chain) :
    (∀ x, (applyEv c (.deliver x)).n = c.n ∧ (applyEv c (.deliver x)).progress = c.progress ∧
        (applyEv c (.deliver x)).total = c.total ∧ (applyEv c (.deliver x)).phase = c.phase) ∧
    ((applyEv c .finalize).n = c.n ∧ (applyEv c .finalize).progress = c.progress ∧
        (applyEv c .finalize).total = c.total ∧ (applyEv c .finalize).phase = c.phase) :=
  ⟨fun _ => ⟨rfl, rfl, rfl, rfl⟩, rfl, rfl, rfl, rfl⟩

/-- **T7**: delivering `resume` to a blocked chain enables it again … -/
theorem resume_unblocks {c : Chain} (o : Outcome) (h : blocked c = true) :
    chainStep (deliver c .resume) o ≠ none := by
  obtain ⟨h1, h2, h3⟩ := (blocked_iff c).1 h
  obtain ⟨ph, mb, al, sl, n, pr, tot⟩ := c
  simp only at h1 h2 h3
  subst h1 h2 h3
  simp [chainStep, deliver, recvBlocking]

/-- … and its next step is to pick up exactly that `resume`, with nothing else changed -/
theorem resume_unblocks_exact {c : Chain} (o : Outcome) (h : blocked c = true) :
    chainStep (deliver c .resume) o = some { c with phase := .top (.cmd .resume) } := by
  obtain ⟨h1, h2, h3⟩ := (blocked_iff c).1 h
  obtain ⟨ph, mb, al, sl, n, pr, tot⟩ := c
  simp only at h1 h2 h3
  subst h1 h2 h3
  simp [chainStep, deliver, recvBlocking]

/-- every event leaves `n` alone or increases it by one -/
theorem applyEv_n (c : Chain) (e : ChainEv) : (applyEv c e).n = c.n ∨ (applyEv c e).n = c.n + 1 := by
  cases e with
  | step o =>
    rcases applyEv_step_cases c o with ⟨_, h2⟩ | ⟨c', h1, h2⟩
    · rw [h2]; exact Or.inl rfl
    · rw [h2]; exact n_step_mono c o c' h1
  | deliver x => exact Or.inl rfl
  | finalize => exact Or.inl rfl

/-- `n` never decreases, from ANY state -/
theorem n_mono_run (c : Chain) (more : List ChainEv) : c.n ≤ (runEvs c more).n := by
  induction more generalizing c with
  | nil => exact Nat.le_refl _
  | cons e es ih =>
    rw [runEvs_cons]
    have := ih (applyEv c e)
    rcases applyEv_n c e with h | h <;> omega

/-- `n` grows by at most one per event -/
theorem n_run_le (c : Chain) (more : List ChainEv) : (runEvs c more).n ≤ c.n + more.length := by
  induction more generalizing c with
  | nil => exact Nat.le_refl _
  | cons e es ih =>
    rw [runEvs_cons, List.length_cons]
    have := ih (applyEv c e)
    rcases applyEv_n c e with h | h <;> omega

/-- **T2**: the trace (the first `n` elements of the chain's own stream) of a reachable chain is a
    prefix of the trace after any further events -/
theorem trace_prefix_invariant (total : Nat) (evs more : List ChainEv) :
    (runEvs (init total) evs).n ≤ (runEvs (runEvs (init total) evs) more).n :=
  n_mono_run _ _

/-- same statement on one event list split anywhere -/
theorem trace_prefix_of_prefix (total : Nat) (evs more : List ChainEv) :
    (runEvs (init total) evs).n ≤ (runEvs (init total) (evs ++ more)).n := by
  rw [runEvs_append]; exact n_mono_run _ _

/-! ## the reachability invariant (T1, T3, T4) -/

structure Inv (total : Nat) (c : Chain) : Prop where
  tot : c.total = total
  le : c.n ≤ c.total
  prog : c.progress = c.n ∨ (c.phase = .done .err ∧ c.progress = c.n + 1)
  disc : c.phase = .top .disc → c.alive = false
  ok : c.phase = .done .ok → c.n = c.total ∨ c.alive = false ∨ c.slot = false

theorem Inv.init (total : Nat) : Inv total (init total) := by
  constructor <;> simp [Ctl.init]

theorem Inv.step {t : Nat} {c c' : Chain} {o : Outcome} (hI : Inv t c)
    (h : chainStep c o = some c') : Inv t c' := by
  obtain ⟨ph, mb, al, sl, n, pr, tot⟩ := c
  obtain ⟨h1, h2, h3, h4, h5⟩ := hI
  rcases ph with _ | (_ | _ | (_ | _)) | r <;> rcases mb with _ | ⟨m, mb⟩ <;> cases al <;>
    simp [chainStep, tryRecv, recvBlocking] at h h1 h2 h3 h4 h5 ⊢
  all_goals ((try split_ifs at h) <;> (try simp only [Option.some.injEq] at h) <;> subst h <;>
    constructor <;> simp_all <;> omega)

theorem Inv.deliver {t : Nat} {c : Chain} (x : Cmd) (hI : Inv t c) : Inv t (deliver c x) :=
  ⟨hI.tot, hI.le, hI.prog, hI.disc, hI.ok⟩

theorem Inv.finalize {t : Nat} {c : Chain} (hI : Inv t c) : Inv t (finalizeChain c) :=
  ⟨hI.tot, hI.le, hI.prog, fun _ => rfl, fun _ => Or.inr (Or.inl rfl)⟩

theorem Inv.applyEv {t : Nat} (c : Chain) (e : ChainEv) (hI : Inv t c) : Inv t (applyEv c e) :=
  applyEv_preserves (P := Inv t) (fun _ _ _ h hs => h.step hs) (fun _ x h => h.deliver x)
    (fun _ h => h.finalize) c e hI

/-- every reachable state satisfies the invariant -/
theorem reachable_inv (total : Nat) (evs : List ChainEv) : Inv total (runEvs (init total) evs) :=
  run_induction (P := Inv total) Inv.applyEv evs _ (Inv.init total)

/-- **T1**: a chain never records more than `total` draws -/
theorem n_le_total (total : Nat) (evs : List ChainEv) :
    (runEvs (init total) evs).n ≤ (runEvs (init total) evs).total := (reachable_inv total evs).le

/-- **T1**: the target never changes -/
theorem total_const (total : Nat) (evs : List ChainEv) : (runEvs (init total) evs).total = total :=
  (reachable_inv total evs).tot

theorem n_le_total' (total : Nat) (evs : List ChainEv) : (runEvs (init total) evs).n ≤ total := by
  have := n_le_total total evs; rwa [total_const] at this

/-- **T3**: the progress counter equals the number of recorded draws, except in a chain that failed
    while recording (the counter is bumped before `record_sample` reports its error) -/
theorem progress_agrees (total : Nat) (evs : List ChainEv) :
    (runEvs (init total) evs).progress = (runEvs (init total) evs).n ∨
      ((runEvs (init total) evs).phase = .done .err ∧
        (runEvs (init total) evs).progress = (runEvs (init total) evs).n + 1) :=
  (reachable_inv total evs).prog

/-- **T4**: a chain that reports success in a run that was not aborted / finalised has recorded exactly
    `total` draws -/
theorem complete_if_not_aborted (total : Nat) (evs : List ChainEv)
    (hok : (runEvs (init total) evs).phase = .done .ok)
    (halive : (runEvs (init total) evs).alive = true)
    (hslot : (runEvs (init total) evs).slot = true) :
    (runEvs (init total) evs).n = (runEvs (init total) evs).total := by
  rcases (reachable_inv total evs).ok hok with h | h | h
  · exact h
  · rw [h] at halive; cases halive
  · rw [h] at hslot; cases hslot

/-- **T4** (aborted run): success still means a prefix of at most `total` draws -/
theorem done_ok_prefix (total : Nat) (evs : List ChainEv)
    (_hok : (runEvs (init total) evs).phase = .done .ok) :
    (runEvs (init total) evs).n ≤ (runEvs (init total) evs).total := n_le_total total evs

/-- **T4** (`total = 0`): nothing is ever recorded -/
theorem zero_total_records_nothing (evs : List ChainEv) : (runEvs (init 0) evs).n = 0 := by
  have := n_le_total' 0 evs; omega

/-- the phase `top disc` is only ever seen by a chain whose sender was dropped -/
theorem disc_only_when_dead (total : Nat) (evs : List ChainEv)
    (h : (runEvs (init total) evs).phase = .top .disc) : (runEvs (init total) evs).alive = false :=
  (reachable_inv total evs).disc h

/-! ## T5 — failures are reported, and only failures -/

/-- **T5b**: a step that ends in `done err` was a failing one -/
theorem err_step_failed (c : Chain) (o : Outcome) (c' : Chain) (h : chainStep c o = some c')
    (herr : c'.phase = .done .err) : ¬ (o.initOk ∧ o.drawOk ∧ o.recordOk) := by
  obtain ⟨ph, mb, al, sl, n, pr, tot⟩ := c
  rcases ph with _ | (_ | _ | (_ | _)) | r <;> rcases mb with _ | ⟨m, mb⟩ <;> cases al <;>
    simp [chainStep, tryRecv, recvBlocking] at h ⊢
  all_goals ((try split_ifs at h) <;> (try simp only [Option.some.injEq] at h) <;> subst h <;>
    simp_all)

/-- **T5c**: a failing draw in an enabled draw step fails the chain (and records nothing) -/
theorem draw_failure_fails (c : Chain) (o : Outcome) (m : Msg) (hph : c.phase = .top m)
    (hm : m = .empty ∨ m = .cmd .resume) (hn : c.n ≠ c.total) (hd : o.drawOk = false) :
    chainStep c o = some { c with phase := .done .err } := by
  obtain ⟨ph, mb, al, sl, n, pr, tot⟩ := c
  simp only at hph hn
  subst hph
  rcases hm with rfl | rfl <;> simp [chainStep, hn, hd]

/-- **T5c'**: so does a failing `record_sample` (the progress counter has already been bumped) -/
theorem record_failure_fails (c : Chain) (o : Outcome) (m : Msg) (hph : c.phase = .top m)
    (hm : m = .empty ∨ m = .cmd .resume) (hn : c.n ≠ c.total) (hd : o.drawOk = true)
    (hs : c.slot = true) (hr : o.recordOk = false) :
    chainStep c o = some { c with phase := .done .err, progress := c.progress + 1 } := by
  obtain ⟨ph, mb, al, sl, n, pr, tot⟩ := c
  simp only at hph hn hs
  subst hph hs
  rcases hm with rfl | rfl <;> simp [chainStep, hn, hd, hr]

/-- **T5c''**: and a failing initialisation -/
theorem init_failure_fails (c : Chain) (o : Outcome) (hph : c.phase = .queued)
    (hi : o.initOk = false) : chainStep c o = some { c with phase := .done .err } := by
  obtain ⟨ph, mb, al, sl, n, pr, tot⟩ := c
  simp only at hph
  subst hph
  simp [chainStep, hi]

/-- from any state that has not failed: if all later steps succeed, the chain does not fail -/
theorem no_err_run (c : Chain) (hc : c.phase ≠ .done .err) (evs : List ChainEv)
    (hok : ∀ o, ChainEv.step o ∈ evs → (o.initOk ∧ o.drawOk ∧ o.recordOk)) :
    (runEvs c evs).phase ≠ .done .err := by
  induction evs generalizing c with
  | nil => exact hc
  | cons e es ih =>
    rw [runEvs_cons]
    apply ih
    · cases e with
      | step o =>
        rcases applyEv_step_cases c o with ⟨_, h2⟩ | ⟨c', h1, h2⟩
        · rw [h2]; exact hc
        · rw [h2]; intro herr
          exact err_step_failed c o c' h1 herr (hok o (List.mem_cons_self ..))
      | deliver x => exact hc
      | finalize => exact hc
    · intro o ho; exact hok o (List.mem_cons_of_mem _ ho)

/-- **T5a**: recoverable problems, pauses, resumes and finalisation never make a chain fail -/
theorem no_spurious_error (total : Nat) (evs : List ChainEv)
    (hok : ∀ o, ChainEv.step o ∈ evs → (o.initOk ∧ o.drawOk ∧ o.recordOk)) :
    (runEvs (init total) evs).phase ≠ .done .err :=
  no_err_run _ (by simp [init]) evs hok

/-- **T5a**, contrapositive: a reported chain error has a cause among the steps -/
theorem error_has_cause (total : Nat) (evs : List ChainEv)
    (herr : (runEvs (init total) evs).phase = .done .err) :
    ∃ o, ChainEv.step o ∈ evs ∧ ¬ (o.initOk ∧ o.drawOk ∧ o.recordOk) := by
  by_contra hne
  apply no_spurious_error total evs _ herr
  intro o ho
  by_contra hbad
  exact hne ⟨o, ho, hbad⟩

/-- an error is sticky: no later event of any kind clears it -/
theorem error_sticky (c : Chain) (h : c.phase = .done .err) (more : List ChainEv) :
    (runEvs c more).phase = .done .err := by
  refine run_induction (P := fun c => c.phase = .done .err) ?_ more c h
  intro c e hc
  cases e with
  | step o => simp [applyEv, done_no_step o hc, hc]
  | deliver x => exact hc
  | finalize => exact hc

/-- from any state that has not failed: a failure at the end was produced by some enabled step -/
theorem err_run_has_step (c : Chain) (hc : c.phase ≠ .done .err) (evs : List ChainEv)
    (herr : (runEvs c evs).phase = .done .err) :
    ∃ es o rest c', evs = es ++ ChainEv.step o :: rest ∧ chainStep (runEvs c es) o = some c' ∧
      c'.phase = .done .err := by
  induction evs generalizing c with
  | nil => exact absurd herr hc
  | cons e evs ih =>
    rw [runEvs_cons] at herr
    by_cases hnow : (applyEv c e).phase = .done .err
    · cases e with
      | step o =>
        rcases applyEv_step_cases c o with ⟨_, h2⟩ | ⟨c', h1, h2⟩
        · rw [h2] at hnow; exact absurd hnow hc
        · rw [h2] at hnow; exact ⟨[], o, evs, c', rfl, h1, hnow⟩
      | deliver x => exact absurd hnow hc
      | finalize => exact absurd hnow hc
    · obtain ⟨es, o, rest, c', h1, h2, h3⟩ := ih _ hnow herr
      exact ⟨e :: es, o, rest, c', by rw [h1]; rfl, by rw [runEvs_cons]; exact h2, h3⟩

/-- **T5** (exact form): a reachable chain is in `done err` iff somewhere in the history an ENABLED
    step ended in `done err` — and that step had a failing fallible operation -/
theorem failure_is_reported (total : Nat) (evs : List ChainEv) :
    (runEvs (init total) evs).phase = .done .err ↔
      ∃ es o rest c', evs = es ++ ChainEv.step o :: rest ∧
        chainStep (runEvs (init total) es) o = some c' ∧ c'.phase = .done .err ∧
        ¬ (o.initOk ∧ o.drawOk ∧ o.recordOk) := by
  constructor
  · intro herr
    obtain ⟨es, o, rest, c', h1, h2, h3⟩ := err_run_has_step _ (by simp [init]) evs herr
    exact ⟨es, o, rest, c', h1, h2, h3, err_step_failed _ o c' h2 h3⟩
  · rintro ⟨es, o, rest, c', h1, h2, h3, _⟩
    rw [h1, runEvs_append, runEvs_cons]
    have : applyEv (runEvs (init total) es) (.step o) = c' := by simp [applyEv, h2]
    rw [this]
    exact error_sticky c' h3 rest

/-- **T5**: the sampler reports an error iff the controller failed or some chain did -/
theorem sampler_reports_error (ce : Bool) (results : List ChainRes) :
    samplerResult ce results = .err ↔ ce = true ∨ .err ∈ results := by
  unfold samplerResult
  split_ifs with h
  · simp only [Bool.or_eq_true, List.any_eq_true, beq_iff_eq] at h
    simp only [true_iff]
    rcases h with h | ⟨x, hx, rfl⟩
    · exact Or.inl h
    · exact Or.inr hx
  · simp only [Bool.or_eq_true, List.any_eq_true, beq_iff_eq, not_or, not_exists, not_and] at h
    constructor
    · intro h'; cases h'
    · rintro (h' | h')
      · exact absurd h' h.1
      · exact absurd rfl (h.2 _ h')

/-! ## T6 — pause -/

/-- pause invariant: `N` bounds the number of draws the chain can still reach while the mailbox ends
    with an unconsumed `pause` (or the `pause` is being held) -/
def PInv (N : Nat) (c : Chain) : Prop :=
  match c.phase with
  | .done _ => c.n ≤ N
  | .top .disc => c.n ≤ N ∧ (c.alive = false ∨ c.mailbox.getLast? = some .pause)
  | .top (.cmd .pause) =>
      c.n + (c.mailbox.length - 1) ≤ N ∧ (c.mailbox = [] ∨ c.mailbox.getLast? = some .pause)
  | .queued => c.n + (c.mailbox.length - 1) ≤ N ∧ c.mailbox.getLast? = some .pause
  | .top _ => c.n + c.mailbox.length ≤ N ∧ c.mailbox.getLast? = some .pause

theorem PInv.n_le {N : Nat} {c : Chain} (h : PInv N c) : c.n ≤ N := by
  obtain ⟨ph, mb, al, sl, n, pr, tot⟩ := c
  rcases ph with _ | (_ | _ | (_ | _)) | r <;> simp [PInv] at h ⊢ <;> omega

theorem PInv.start {c : Chain} {pre : List Cmd} (h : c.mailbox = pre ++ [.pause]) :
    PInv (c.n + pre.length + 1) c := by
  obtain ⟨ph, mb, al, sl, n, pr, tot⟩ := c
  simp only at h
  subst h
  rcases ph with _ | (_ | _ | (_ | _)) | r <;> simp [PInv] <;> omega

theorem PInv.step {N : Nat} {c c' : Chain} {o : Outcome} (hI : PInv N c)
    (h : chainStep c o = some c') : PInv N c' := by
  obtain ⟨ph, mb, al, sl, n, pr, tot⟩ := c
  rcases ph with _ | (_ | _ | (_ | _)) | r <;> rcases mb with _ | ⟨m, _ | ⟨m2, mb⟩⟩ <;>
    cases al <;> simp [chainStep, tryRecv, recvBlocking, PInv] at h hI ⊢
  all_goals ((try split_ifs at h) <;> (try simp only [Option.some.injEq] at h) <;> subst h <;>
    (try rcases m with _ | _) <;> simp_all <;> omega)

theorem PInv.run {N : Nat} (steps : List Outcome) (c : Chain) (hI : PInv N c) :
    PInv N (runEvs c (steps.map .step)) := by
  induction steps generalizing c with
  | nil => exact hI
  | cons o os ih =>
    rw [List.map_cons, runEvs_cons]
    apply ih
    rcases applyEv_step_cases c o with ⟨_, h2⟩ | ⟨c', h1, h2⟩
    · rw [h2]; exact hI
    · rw [h2]; exact hI.step h1

/-- **T6**: once `pause` is in the mailbox behind `pre`, the chain records at most `pre.length + 1`
    further draws, whatever it does and however long it runs -/
theorem pause_bound (c : Chain) (pre : List Cmd) (steps : List Outcome)
    (hmb : c.mailbox = pre ++ [.pause]) :
    (runEvs c (steps.map .step)).n ≤ c.n + pre.length + 1 :=
  ((PInv.start hmb).run steps c).n_le

/-- chain steps never change `alive`, `slot`, `total` -/
theorem steps_frame (c : Chain) (steps : List Outcome) :
    (runEvs c (steps.map .step)).alive = c.alive ∧ (runEvs c (steps.map .step)).slot = c.slot ∧
      (runEvs c (steps.map .step)).total = c.total := by
  induction steps generalizing c with
  | nil => exact ⟨rfl, rfl, rfl⟩
  | cons o os ih =>
    rw [List.map_cons, runEvs_cons]
    obtain ⟨i1, i2, i3⟩ := ih (applyEv c (.step o))
    rcases applyEv_step_cases c o with ⟨_, h2⟩ | ⟨c', h1, h2⟩
    · rw [h2] at i1 i2 i3 ⊢; exact ⟨i1, i2, i3⟩
    · obtain ⟨f1, f2, f3, _⟩ := step_frame c o c' h1
      rw [h2] at i1 i2 i3 ⊢
      exact ⟨i1.trans f2, i2.trans f3, i3.trans f1⟩

/-- under chain steps the mailbox is always a suffix of the original one (FIFO consumption) -/
theorem steps_mailbox_suffix (c : Chain) (steps : List Outcome) :
    (runEvs c (steps.map .step)).mailbox <:+ c.mailbox := by
  induction steps generalizing c with
  | nil => exact List.suffix_refl _
  | cons o os ih =>
    rw [List.map_cons, runEvs_cons]
    have i := ih (applyEv c (.step o))
    rcases applyEv_step_cases c o with ⟨_, h2⟩ | ⟨c', h1, h2⟩
    · rw [h2] at i ⊢; exact i
    · obtain ⟨_, _, _, f | ⟨m, f⟩⟩ := step_frame c o c' h1
      · rw [h2] at i ⊢; rw [f] at i; exact i
      · rw [h2] at i ⊢; rw [f]; exact i.trans (List.suffix_cons _ _)

/-- **T6**: with the sender alive, a chain that has a `pause` in its mailbox can only be finished,
    blocked in the blocking `recv`, or still have the `pause` unconsumed in its mailbox (which is then
    a suffix of the original mailbox) -/
theorem pause_blocks (c : Chain) (pre : List Cmd) (steps : List Outcome)
    (hmb : c.mailbox = pre ++ [.pause]) (halive : c.alive = true) :
    (∃ r, (runEvs c (steps.map .step)).phase = .done r) ∨
      blocked (runEvs c (steps.map .step)) = true ∨
      (∃ q, (runEvs c (steps.map .step)).mailbox = q ++ [.pause] ∧ q.length ≤ pre.length) := by
  have hI := (PInv.start hmb).run steps c
  have ha := (steps_frame c steps).1
  have hsuf := steps_mailbox_suffix c steps
  rw [halive] at ha
  rw [hmb] at hsuf
  generalize runEvs c (steps.map .step) = c' at hI ha hsuf ⊢
  have key : (∃ r, c'.phase = .done r) ∨ blocked c' = true ∨ c'.mailbox.getLast? = some .pause := by
    obtain ⟨ph, mb, al, sl, n, pr, tot⟩ := c'
    simp only at ha
    subst ha
    rcases ph with _ | (_ | _ | (_ | _)) | r <;> simp [PInv, blocked] at hI ⊢ <;> tauto
  rcases key with h | h | h
  · exact Or.inl h
  · exact Or.inr (Or.inl h)
  · right; right
    obtain ⟨q, hq⟩ := List.getLast?_eq_some_iff.1 h
    refine ⟨q, hq, ?_⟩
    have := hsuf.length_le
    rw [hq] at this
    simpa using this

/-- **T6**: a chain that is started while paused records nothing -/
theorem not_started_stays_idle (c : Chain) (steps : List Outcome) (hph : c.phase = .queued)
    (hmb : c.mailbox = [.pause]) (_halive : c.alive = true) :
    (runEvs c (steps.map .step)).n = c.n := by
  have hI : PInv c.n c := by
    obtain ⟨ph, mb, al, sl, n, pr, tot⟩ := c
    simp only at hph hmb
    subst hph hmb
    simp [PInv]
  have h1 := (hI.run steps c).n_le
  have h2 := n_mono_run c (steps.map .step)
  omega

/-- … and, with the sender alive, it ends up blocked after two steps and stays there -/
theorem not_started_blocks (c : Chain) (o1 o2 : Outcome) (steps : List Outcome)
    (hph : c.phase = .queued) (hmb : c.mailbox = [.pause]) (halive : c.alive = true)
    (hi : o1.initOk = true) :
    runEvs c ((o1 :: o2 :: steps).map .step) = { c with phase := .top (.cmd .pause), mailbox := [] } := by
  have hb : blocked { c with phase := .top (.cmd .pause), mailbox := [] } = true := by
    simp [blocked, halive]
  have e1 : applyEv c (.step o1) = { c with phase := .top (.cmd .pause), mailbox := [] } := by
    simp [applyEv, chainStep, tryRecv, hi, hph, hmb]
  rw [List.map_cons, runEvs_cons, e1]
  exact blocked_stable hb (o2 :: steps)

/-! ## T8 — termination after finalisation -/

/-- number of steps a chain with a dropped sender still needs at most -/
def fuel (c : Chain) : Nat :=
  match c.phase with
  | .done _ => 0
  | .top .disc => 1
  | _ => c.mailbox.length + 2

theorem fuel_le (c : Chain) : fuel c ≤ c.mailbox.length + 2 := by
  obtain ⟨ph, mb, al, sl, n, pr, tot⟩ := c
  rcases ph with _ | (_ | _ | (_ | _)) | r <;> simp [fuel]

theorem fuel_zero {c : Chain} (h : fuel c = 0) : ∃ r, c.phase = .done r := by
  obtain ⟨ph, mb, al, sl, n, pr, tot⟩ := c
  rcases ph with _ | (_ | _ | (_ | _)) | r <;> simp [fuel] at h ⊢

/-- with the sender dropped, every step event consumes one unit of fuel -/
theorem dead_step (c : Chain) (o : Outcome) (hdead : c.alive = false) :
    (applyEv c (.step o)).alive = false ∧ fuel (applyEv c (.step o)) ≤ fuel c - 1 := by
  obtain ⟨ph, mb, al, sl, n, pr, tot⟩ := c
  simp only at hdead
  subst hdead
  rcases ph with _ | (_ | _ | (_ | _)) | r <;> rcases mb with _ | ⟨m, mb⟩ <;>
    simp [applyEv, chainStep, tryRecv, recvBlocking, fuel]
  all_goals ((try split_ifs) <;> (try rcases m with _ | _) <;> simp)

theorem dead_run (outs : List Outcome) (c : Chain) (hdead : c.alive = false) :
    fuel (runEvs c (outs.map .step)) ≤ fuel c - outs.length := by
  induction outs generalizing c with
  | nil => simp [runEvs]
  | cons o os ih =>
    rw [List.map_cons, runEvs_cons, List.length_cons]
    obtain ⟨h1, h2⟩ := dead_step c o hdead
    have := ih _ h1
    omega

/-- **T8** (tight form): after the sender was dropped, `mailbox.length + 2` loop iterations finish the
    task, whatever the outcomes of the fallible operations (`slot = false` is not needed) -/
theorem terminates_after_finalize_tight (c : Chain) (hdead : c.alive = false) (outs : List Outcome)
    (hlen : outs.length ≥ c.mailbox.length + 2) :
    ∃ r, (runEvs c (outs.map .step)).phase = .done r := by
  apply fuel_zero
  have h1 := dead_run outs c hdead
  have h2 := fuel_le c
  omega

/-- **T8** (as stated): `mailbox.length + 3` iterations suffice -/
theorem terminates_after_finalize (c : Chain) (hdead : c.alive = false) (outs : List Outcome)
    (hlen : outs.length ≥ c.mailbox.length + 3) :
    ∃ r, (runEvs c (outs.map .step)).phase = .done r :=
  terminates_after_finalize_tight c hdead outs (by omega)

/-- **T8** for the controller's `finalize`: whatever state the chain is in, after `finalizeChain` it
    finishes within `mailbox.length + 2` iterations -/
theorem finalize_terminates (c : Chain) (outs : List Outcome)
    (hlen : outs.length ≥ c.mailbox.length + 2) :
    ∃ r, (runEvs (finalizeChain c) (outs.map .step)).phase = .done r :=
  terminates_after_finalize_tight (finalizeChain c) rfl outs hlen

/-! ## non-vacuity -/

/-- a full run with a pause / resume in the middle: both draws recorded, success reported, and the
    step attempted while blocked is not enabled -/
example :
    let c := runEvs (init 2)
      [.step {}, .deliver .pause, .step {}, .step {}, .step {}, .deliver .resume, .step {}, .step {}]
    c.phase = .done .ok ∧ c.n = 2 ∧ c.progress = 2 ∧ c.total = 2 ∧ c.alive = true ∧ c.slot = true ∧
      c.mailbox = [] := by decide

/-- the intermediate state of that run is blocked, with one draw recorded -/
example :
    let c := runEvs (init 2) [.step {}, .deliver .pause, .step {}, .step {}, .step {}]
    blocked c = true ∧ c.n = 1 ∧ c.phase = .top (.cmd .pause) := by decide

/-- a failing draw fails the chain; the first draw stays recorded -/
example :
    let c := runEvs (init 3) [.step {}, .step {}, .step { drawOk := false }, .step {}]
    c.phase = .done .err ∧ c.n = 1 ∧ c.progress = 1 := by decide

/-- a failing `record_sample`: the progress counter is one ahead (the exception in T3 is real) -/
example :
    let c := runEvs (init 3) [.step {}, .step {}, .step { recordOk := false }]
    c.phase = .done .err ∧ c.n = 1 ∧ c.progress = 2 := by decide

/-- a failing initialisation -/
example : (runEvs (init 3) [.step { initOk := false }]).phase = .done .err := by decide

/-- `total = 0`: the chain records nothing and stops -/
example :
    let c := runEvs (init 0) [.step {}, .step {}]
    c.phase = .done .ok ∧ c.n = 0 := by decide

/-- finalisation in the middle: the chain reports success with a strict prefix (T4 needs its
    hypotheses) -/
example :
    let c := runEvs (init 5) [.step {}, .step {}, .finalize, .step {}, .step {}]
    c.phase = .done .ok ∧ c.n = 1 ∧ c.total = 5 ∧ c.alive = false ∧ c.slot = false := by decide

/-- the bound of T6 is attained: `pre = [resume]`, two more draws after the pause was sent -/
example :
    let c : Chain := { phase := .top .empty, mailbox := [.resume, .pause], total := 10 }
    (runEvs c ([{}, {}, {}, {}].map .step)).n = c.n + 1 + 1 ∧
      blocked (runEvs c ([{}, {}, {}, {}].map .step)) = true := by decide

/-- the bound `mailbox.length + 2` of T8 is tight: `mailbox.length + 1` steps are not enough -/
example :
    let c : Chain := { phase := .queued, mailbox := [.pause, .pause], alive := false, slot := false,
                       total := 4 }
    (runEvs c ([{}, {}, {}].map .step)).phase = .top .disc ∧
      (runEvs c ([{}, {}, {}, {}].map .step)).phase = .done .ok := by decide

example : samplerResult false [.ok, .err, .ok] = .err ∧ samplerResult false [.ok, .ok] = .ok ∧
    samplerResult true [] = .err := by decide

/-! ## axioms -/

#print axioms n_le_total
#print axioms trace_prefix_invariant
#print axioms progress_agrees
#print axioms complete_if_not_aborted
#print axioms no_spurious_error
#print axioms failure_is_reported
#print axioms err_step_failed
#print axioms draw_failure_fails
#print axioms sampler_reports_error
#print axioms pause_bound
#print axioms pause_blocks
#print axioms not_started_stays_idle
#print axioms resume_unblocks
#print axioms terminates_after_finalize
#print axioms terminates_after_finalize_tight
#print axioms no_deadlock

end NutsModel.Ctl
