/-
C06 / C09 — theorems about the warmup schedule model (`Model/Schedule.lean`), for ALL parameters
(`numTune`, boundaries, frequencies, growth function) and ALL histories of good/rejected draws.
-/
import NutsModel.Model.Schedule
import NutsModel.Thm.RealInst
import Mathlib.Tactic.Linarith
import Mathlib.Algebra.Order.Floor.Semiring

namespace NutsModel.Sched
open NutsModel NutsModel.Model

variable (p : SchedParams)

/-! ## one step, by the three phases of `adapt` -/

/-- after warmup (`draw ≥ num_tune`): nothing but `update_stepsize(use_best_guess = true)`. -/
theorem step_after_warmup (s : SchedState) (d : ℕ) (g : Bool) (h : d ≥ p.numTune) :
    schedStep p s d g = ({ s with tuning := false }, { useBest := some true }) := by
  simp [schedStep, h]

/-- in the final step-size window (`final_window ≤ draw < num_tune`): only the *late* (symmetric)
    estimator and `update_stepsize(is_last)`. -/
theorem step_final_window (s : SchedState) (d : ℕ) (g : Bool) (h1 : d < p.numTune) (h2 : ¬ d < p.finalWindow) :
    schedStep p s d g = (s, { est := .late, useBest := some (decide (d = p.numTune - 1)) }) := by
  have : ¬ d ≥ p.numTune := by omega
  simp [schedStep, this, h2]

/-- **C06 / transformation frozen**: from the start of the final step-size window on, no call of
    `switch` or `adapt` of the mass-matrix estimator happens, the estimator contents, the window
    size and the update bookkeeping do not change — for every history. -/
theorem transformation_frozen (s : SchedState) (d : ℕ) (g : Bool) (h : d ≥ p.finalWindow) :
    let r := schedStep p s d g
    r.2.switched = false ∧ r.2.adaptCalled = false ∧ r.2.didChange = false ∧ r.2.sampleAdded = false ∧
    r.2.reinit = false ∧
    r.1.fg = s.fg ∧ r.1.bg = s.bg ∧ r.1.curWindow = s.curWindow ∧ r.1.lastUpdate = s.lastUpdate ∧
    r.1.hasInitial = s.hasInitial := by
  by_cases h1 : d ≥ p.numTune
  · rw [step_after_warmup p s d g h1]; simp
  · rw [step_final_window p s d g (by omega) (by omega)]; simp

/-- **C06 / step size after warmup**: for `draw ≥ num_tune` no estimator is advanced and the step
    size is set from the *averaged* iterate (plus jitter) — so the base step size is constant. -/
theorem stepsize_frozen_after_warmup (s : SchedState) (d : ℕ) (g : Bool) (h : d ≥ p.numTune) :
    (schedStep p s d g).2.est = .none ∧ (schedStep p s d g).2.useBest = some true ∧
    (schedStep p s d g).2.reinit = false := by
  rw [step_after_warmup p s d g h]; simp

/-- the update at the last warmup draw uses the averaged iterate (when it lies in the final window). -/
theorem last_uses_average (s : SchedState) (g : Bool) (h1 : 1 ≤ p.numTune) (h2 : p.finalWindow ≤ p.numTune - 1) :
    (schedStep p s (p.numTune - 1) g).2.useBest = some true ∧ (schedStep p s (p.numTune - 1) g).2.est = .late := by
  rw [step_final_window p s _ g (by omega) (by omega)]; simp

/-- **C09 / symmetric statistic in the final window**. -/
theorem final_window_symmetric (s : SchedState) (d : ℕ) (g : Bool) (h1 : p.finalWindow ≤ d) (h2 : d < p.numTune) :
    (schedStep p s d g).2.est = .late ∧ (schedStep p s d g).2.reinit = false ∧
    (schedStep p s d g).2.adaptCalled = false := by
  rw [step_final_window p s d g h2 (by omega)]; simp

/-! ## the mass-matrix phase (`draw < final_window`, `draw < num_tune`) -/

/-- window target in force at draw `d` (before a possible switch) -/
def windowAt (s : SchedState) (d : ℕ) : ℕ :=
  if d < p.earlyEnd then p.earlySwitchFreq
  else if d = p.earlyEnd then Nat.max s.curWindow s.bg.length else s.curWindow

/-- size of the window that would follow a switch at draw `d` -/
def nextAt (s : SchedState) (d : ℕ) : ℕ :=
  if d < p.earlyEnd then p.earlySwitchFreq else p.nextWindow (windowAt p s d)

/-- closed form of one step in the mass-matrix phase. -/
theorem step_mass_phase (s : SchedState) (d : ℕ) (g : Bool) (h1 : d < p.numTune) (h2 : d < p.finalWindow) :
    let w := windowAt p s d
    let nx := nextAt p s d
    let bg1 := if g then (d + 2) :: s.bg else s.bg
    let fg1 := if g then (d + 2) :: s.fg else s.fg
    let isLate := decide (nx + d > p.finalWindow)
    let doSwitch := decide (bg1.length ≥ w) && !isLate
    let fg2 := if doSwitch then bg1 else fg1
    let adaptCalled := doSwitch || decide (d - s.lastUpdate ≥ p.updateFreq)
    let didChange := adaptCalled && decide (fg2.length ≥ 3)
    let reinit := didChange && s.hasInitial
    schedStep p s d g =
      ({ tuning := s.tuning, hasInitial := s.hasInitial && !reinit,
         lastUpdate := if didChange then d else s.lastUpdate,
         curWindow := if doSwitch && !decide (d < p.earlyEnd) then nx
                      else (if d < p.earlyEnd then s.curWindow else w),
         fg := fg2, bg := if doSwitch then [] else bg1,
         lastSwitch := if doSwitch then d + 2 else s.lastSwitch,
         prevSwitch := if doSwitch then s.lastSwitch else s.prevSwitch },
       { sampleAdded := g, switched := doSwitch, adaptCalled := adaptCalled, didChange := didChange,
         est := if isLate then .late else .early, reinit := reinit,
         useBest := if reinit then none else some false }) := by
  have h1' : ¬ d ≥ p.numTune := by omega
  simp only [schedStep, h1', h2, if_true, if_false, windowAt, nextAt]
  by_cases he : d < p.earlyEnd
  · simp [he]
  · by_cases he2 : d = p.earlyEnd
    · simp [he, he2]
    · simp [he, he2]

/-- **C09 / switch condition**: a switch happens at draw `d` exactly when the draw is in the
    mass-matrix phase, the background estimator (including this draw if it is good) holds a full
    window, and a further full window still fits before the final step-size window. -/
theorem switch_condition (s : SchedState) (d : ℕ) (g : Bool) :
    (schedStep p s d g).2.switched = true ↔
      (d < p.numTune ∧ d < p.finalWindow ∧
       s.bg.length + (if g then 1 else 0) ≥ windowAt p s d ∧ nextAt p s d + d ≤ p.finalWindow) := by
  by_cases h1 : d ≥ p.numTune
  · rw [step_after_warmup p s d g h1]; simp; omega
  by_cases h2 : d < p.finalWindow
  swap
  · rw [step_final_window p s d g (by omega) h2]; simp; omega
  rw [step_mass_phase p s d g (by omega) h2]
  cases g <;> simp <;> omega

/-- **C09 / late statistic**: in the mass-matrix phase the symmetric (late) statistic is used
    exactly when no further full window fits (`is_late`). -/
theorem late_iff (s : SchedState) (d : ℕ) (g : Bool) (h1 : d < p.numTune) (h2 : d < p.finalWindow) :
    (schedStep p s d g).2.est = (if nextAt p s d + d > p.finalWindow then StepEst.late else StepEst.early) := by
  rw [step_mass_phase p s d g h1 h2]; simp

/-- **C09 / rejected draws are not counted**: a draw that is not good changes no estimator
    (apart from the switch it may still trigger). -/
theorem rejected_not_counted (s : SchedState) (d : ℕ) :
    let r := schedStep p s d false
    r.2.sampleAdded = false ∧
    (r.2.switched = false → r.1.fg = s.fg ∧ r.1.bg = s.bg) ∧
    (r.2.switched = true → r.1.fg = s.bg ∧ r.1.bg = []) := by
  by_cases h1 : d ≥ p.numTune
  · rw [step_after_warmup p s d false h1]; simp
  by_cases h2 : d < p.finalWindow
  swap
  · rw [step_final_window p s d false (by omega) h2]; simp
  rw [step_mass_phase p s d false (by omega) h2]
  simp only [Bool.false_eq_true, if_false]
  refine ⟨?_, ?_, ?_⟩
  · trivial
  · intro h; simp only [h]; simp
  · intro h; simp only [h]; simp

theorem step_mass_reinit (s : SchedState) (d : ℕ) (g : Bool) (h1 : d < p.numTune) (h2 : d < p.finalWindow) :
    ∃ dc : Bool, (schedStep p s d g).2.didChange = dc ∧ (schedStep p s d g).2.reinit = (dc && s.hasInitial) ∧
      (schedStep p s d g).1.hasInitial = (s.hasInitial && !(dc && s.hasInitial)) := by
  rw [step_mass_phase p s d g h1 h2]
  exact ⟨_, rfl, rfl, rfl⟩

/-- **C09 / first change re-initialises the step size, and only the first**: the step-size search
    is re-run at a draw iff the transformation changed there while the initial (gradient-based)
    matrix was still in use; afterwards `has_initial_mass_matrix` is false for good. -/
theorem reinit_iff (s : SchedState) (d : ℕ) (g : Bool) :
    let r := schedStep p s d g
    (r.2.reinit = true ↔ (r.2.didChange = true ∧ s.hasInitial = true)) ∧
    (r.2.reinit = true → r.1.hasInitial = false) ∧
    (s.hasInitial = false → r.1.hasInitial = false) := by
  by_cases h1 : d ≥ p.numTune
  · rw [step_after_warmup p s d g h1]; simp
  by_cases h2 : d < p.finalWindow
  swap
  · rw [step_final_window p s d g (by omega) h2]; simp
  obtain ⟨dc, e1, e2, e3⟩ := step_mass_reinit p s d g (by omega) h2
  simp only [e1, e2, e3]
  cases dc <;> cases s.hasInitial <;> simp

/-- **C09 / windows never shrink** (given `c < nextWindow c`, which `max (c+1) …` guarantees). -/
theorem window_monotone (hgrow : ∀ c, c < p.nextWindow c) (s : SchedState) (d : ℕ) (g : Bool) :
    s.curWindow ≤ (schedStep p s d g).1.curWindow := by
  by_cases h1 : d ≥ p.numTune
  · rw [step_after_warmup p s d g h1]
  by_cases h2 : d < p.finalWindow
  swap
  · rw [step_final_window p s d g (by omega) h2]
  rw [step_mass_phase p s d g (by omega) h2]
  simp only [windowAt, nextAt]
  have e1 := hgrow s.curWindow
  have e2 := hgrow (Nat.max s.curWindow s.bg.length)
  have e3 : s.curWindow ≤ Nat.max s.curWindow s.bg.length := Nat.le_max_left _ _
  by_cases he : d < p.earlyEnd
  · simp [he]
  · by_cases he2 : d = p.earlyEnd
    · simp only [he, he2, if_false, if_true, decide_false, Bool.not_false, Bool.and_true]; split_ifs <;> omega
    · simp only [he, he2, if_false, decide_false, Bool.not_false, Bool.and_true]; split_ifs <;> omega

/-! ## whole histories -/

/-- state after the draws `start, start+1, …` of a history -/
def stateAfter (s : SchedState) (start : ℕ) (hist : List Bool) : SchedState := (schedRun p s start hist).1

theorem stateAfter_cons (s : SchedState) (start : ℕ) (g : Bool) (gs : List Bool) :
    stateAfter p s start (g :: gs) = stateAfter p (schedStep p s start g).1 (start + 1) gs := by
  simp [stateAfter, schedRun]

theorem stateAfter_snoc (s : SchedState) (start : ℕ) (gs : List Bool) (g : Bool) :
    stateAfter p s start (gs ++ [g]) = (schedStep p (stateAfter p s start gs) (start + gs.length) g).1 := by
  induction gs generalizing s start with
  | nil => simp [stateAfter, schedRun]
  | cons x xs ih =>
    rw [List.cons_append, stateAfter_cons, ih, stateAfter_cons]
    simp; congr 2; omega

theorem tuning_step (s : SchedState) (d : ℕ) (g : Bool) :
    (schedStep p s d g).1.tuning = (if d ≥ p.numTune then false else s.tuning) := by
  by_cases h1 : d ≥ p.numTune
  · rw [step_after_warmup p s d g h1]; simp [h1]
  by_cases h2 : d < p.finalWindow
  swap
  · rw [step_final_window p s d g (by omega) h2]; simp [h1]
  rw [step_mass_phase p s d g (by omega) h2]; simp [h1]

/-- **C06 / tuning flag exact**: for every parameter set and every history, the strategy reports
    `tuning = true` after processing draw `d` iff `d < num_tune` — i.e. exactly the first
    `num_tune` draws are tuning draws. (The chain builds `Progress` after `adapt`.) -/
theorem tuning_flag_exact (sw : ℕ) (hist : List Bool) (d : ℕ) (hd : d < hist.length) :
    (stateAfter p (SchedState.init sw) 0 (hist.take (d + 1))).tuning = decide (d < p.numTune) := by
  have key : ∀ (n : ℕ), n ≤ hist.length →
      ((stateAfter p (SchedState.init sw) 0 (hist.take n)).tuning = true ∧ n ≤ p.numTune) ∨
      ((stateAfter p (SchedState.init sw) 0 (hist.take n)).tuning = false ∧ n > p.numTune) := by
    intro n
    induction n with
    | zero => intro _; left; simp [stateAfter, schedRun, SchedState.init]
    | succ n ih =>
      intro hn
      have hlt : n < hist.length := by omega
      rw [List.take_add_one, List.getElem?_eq_getElem hlt]
      simp only [Option.toList_some]
      rw [stateAfter_snoc, tuning_step]
      simp only [zero_add, List.length_take, Nat.min_eq_left (by omega : n ≤ hist.length)]
      rcases ih (by omega) with ⟨h1, h2⟩ | ⟨h1, h2⟩
      · by_cases hc : n ≥ p.numTune
        · right; exact ⟨by simp [hc], by omega⟩
        · left; exact ⟨by simp [hc, h1], by omega⟩
      · right
        have : n ≥ p.numTune := by omega
        exact ⟨by simp [this], by omega⟩
  rcases key (d + 1) (by omega) with ⟨h1, h2⟩ | ⟨h1, h2⟩
  · rw [h1]; simp; omega
  · rw [h1]; simp; omega

/-- the estimator-content invariant behind `no_stale_draws`. -/
structure Fresh (s : SchedState) (start : ℕ) : Prop where
  bg : ∀ x ∈ s.bg, s.lastSwitch < x
  fg : ∀ x ∈ s.fg, s.prevSwitch < x
  order : s.prevSwitch ≤ s.lastSwitch
  bound : s.lastSwitch ≤ start + 1
  sub : ∀ x ∈ s.bg, x ∈ s.fg

theorem fresh_init (sw : ℕ) : Fresh (SchedState.init sw) 0 := by
  constructor <;> simp [SchedState.init]

theorem fresh_step (s : SchedState) (d : ℕ) (g : Bool) (h : Fresh s d) : Fresh (schedStep p s d g).1 (d + 1) := by
  obtain ⟨hb, hf, ho, hbd, hs⟩ := h
  by_cases h1 : d ≥ p.numTune
  · rw [step_after_warmup p s d g h1]; exact ⟨hb, hf, ho, by show s.lastSwitch ≤ d + 1 + 1; omega, hs⟩
  by_cases h2 : d < p.finalWindow
  swap
  · rw [step_final_window p s d g (by omega) h2]; exact ⟨hb, hf, ho, by show s.lastSwitch ≤ d + 1 + 1; omega, hs⟩
  rw [step_mass_phase p s d g (by omega) h2]
  -- the sample of this draw (id d+2) is newer than both switches
  have hbg1 : ∀ x ∈ (if g then (d + 2) :: s.bg else s.bg), s.lastSwitch < x := by
    intro x hx; cases g
    · exact hb x (by simpa using hx)
    · simp only [if_true, List.mem_cons] at hx; rcases hx with rfl | hx
      · omega
      · exact hb x hx
  have hfg1 : ∀ x ∈ (if g then (d + 2) :: s.fg else s.fg), s.prevSwitch < x := by
    intro x hx; cases g
    · exact hf x (by simpa using hx)
    · simp only [if_true, List.mem_cons] at hx; rcases hx with rfl | hx
      · omega
      · exact hf x hx
  have hsub1 : ∀ x ∈ (if g then (d + 2) :: s.bg else s.bg), x ∈ (if g then (d + 2) :: s.fg else s.fg) := by
    intro x hx; cases g
    · simpa using hs x (by simpa using hx)
    · simp only [if_true, List.mem_cons] at hx ⊢; rcases hx with rfl | hx
      · exact Or.inl rfl
      · exact Or.inr (hs x hx)
  simp only
  generalize (decide ((if g = true then (d + 2) :: s.bg else s.bg).length ≥ windowAt p s d) &&
      !decide (nextAt p s d + d > p.finalWindow)) = sw
  cases sw
  · simp only [Bool.false_eq_true, if_false]
    exact ⟨hbg1, hfg1, ho, by show s.lastSwitch ≤ d + 1 + 1; omega, hsub1⟩
  · simp only [if_true]
    exact ⟨by simp, hbg1, by show s.lastSwitch ≤ d + 2; omega, by show d + 2 ≤ d + 1 + 1; omega, by simp⟩

/-- **C09 / no stale draws**: in every reachable state, every sample held by the foreground
    estimator (the one the transformation is computed from) was drawn *after the switch before the
    last one* — i.e. it belongs to the last two windows; the background estimator only holds
    samples drawn after the last switch, and is a sub-collection of the foreground. -/
theorem no_stale_draws (sw : ℕ) (hist : List Bool) :
    let s := stateAfter p (SchedState.init sw) 0 hist
    (∀ x ∈ s.fg, s.prevSwitch < x) ∧ (∀ x ∈ s.bg, s.lastSwitch < x) ∧ (∀ x ∈ s.bg, x ∈ s.fg) := by
  have key : ∀ (hist : List Bool) (s : SchedState) (start : ℕ), Fresh s start →
      Fresh (stateAfter p s start hist) (start + hist.length) := by
    intro hist
    induction hist with
    | nil => intro s start h; simpa [stateAfter, schedRun] using h
    | cons g gs ih =>
      intro s start h
      rw [stateAfter_cons]
      have := ih _ _ (fresh_step p s start g h)
      simpa [Nat.add_assoc, Nat.add_comm 1] using this
  have := key hist _ 0 (fresh_init sw)
  exact ⟨this.fg, this.bg, this.sub⟩

/-! ## construction -/

/-- **C06 / every `num_tune` constructs** (after the repair of the `num_tune = 0` assertion):
    `GlobalStrategy::new` does not panic for any `num_tune ≥ 0`, window fractions in `[0,1)` and
    growth `≥ 1`, and the derived boundaries satisfy `early_end < num_tune` (for `num_tune ≥ 1`)
    and `final_window ≤ num_tune`. -/
theorem any_num_tune_constructs (numTune : ℕ) (ew sw growth : ℝ) (h1 : 0 ≤ ew) (h2 : ew < 1) (hg : 1 ≤ growth) :
    ∃ earlyEnd finalWindow, schedNew numTune ew sw growth = .ok (earlyEnd, finalWindow) ∧
      (1 ≤ numTune → earlyEnd < numTune) ∧ finalWindow ≤ numTune := by
  have hfloor : numTune = 0 ∨ ⌊ew * (numTune : ℝ)⌋₊ < numTune := by
    by_cases h0 : numTune = 0
    · left; exact h0
    · right
      have hpos : (0 : ℝ) < numTune := by exact_mod_cast Nat.pos_of_ne_zero h0
      rw [Nat.floor_lt (by positivity)]
      nlinarith
  refine ⟨⌊ew * (numTune : ℝ)⌋₊, numTune - ⌊sw * (numTune : ℝ)⌋₊, ?_, ?_, by omega⟩
  · simp only [schedNew, Transc.toNat]
    rw [if_neg (not_not.mpr hfloor), if_neg (not_not.mpr (by simpa using hg))]
  · intro hn; rcases hfloor with h | h
    · omega
    · exact h

/-- **C06 / transformation frozen, over whole histories**: from any state reached at the start of
    the final step-size window (or later), running ANY further history of good/rejected draws —
    through the rest of warmup and all of sampling — never switches, adapts or changes the
    mass-matrix estimator, never re-runs the step-size search, and leaves the estimator contents,
    window size and update bookkeeping exactly as they were. -/
theorem transformation_frozen_run (s : SchedState) (d : ℕ) (hist : List Bool) (h : d ≥ p.finalWindow) :
    (∀ a ∈ (schedRun p s d hist).2, a.switched = false ∧ a.adaptCalled = false ∧ a.didChange = false ∧
        a.sampleAdded = false ∧ a.reinit = false) ∧
    (schedRun p s d hist).1.fg = s.fg ∧ (schedRun p s d hist).1.bg = s.bg ∧
    (schedRun p s d hist).1.curWindow = s.curWindow ∧ (schedRun p s d hist).1.lastUpdate = s.lastUpdate ∧
    (schedRun p s d hist).1.hasInitial = s.hasInitial := by
  induction hist generalizing s d with
  | nil => simp [schedRun]
  | cons g gs ih =>
    have h1 := transformation_frozen p s d g h
    have h2 := ih (schedStep p s d g).1 (d + 1) (by omega)
    simp only at h1
    obtain ⟨a1, a2, a3, a4, a5, e1, e2, e3, e4, e5⟩ := h1
    obtain ⟨b, f1, f2, f3, f4, f5⟩ := h2
    simp only [schedRun]
    refine ⟨?_, f1.trans e1, f2.trans e2, f3.trans e3, f4.trans e4, f5.trans e5⟩
    intro a ha
    rcases List.mem_cons.mp ha with rfl | ha
    · exact ⟨a1, a2, a3, a4, a5⟩
    · exact b a ha

/-- **C06 / step size after warmup, over whole histories**: from draw `num_tune` on, for EVERY
    further history, no step-size estimator is advanced, the search is never re-run and every draw
    sets the step size from the averaged iterate; the state is marked non-tuning after the first
    such draw and nothing else in it changes. -/
theorem stepsize_frozen_run (s : SchedState) (d : ℕ) (hist : List Bool) (h : d ≥ p.numTune) :
    (∀ a ∈ (schedRun p s d hist).2, a.est = .none ∧ a.useBest = some true ∧ a.reinit = false) ∧
    (hist ≠ [] → (schedRun p s d hist).1 = { s with tuning := false }) := by
  induction hist generalizing s d with
  | nil => simp [schedRun]
  | cons g gs ih =>
    have h1 := step_after_warmup p s d g h
    have h2 := ih (schedStep p s d g).1 (d + 1) (by omega)
    simp only [schedRun]
    refine ⟨?_, fun _ => ?_⟩
    · intro a ha
      rcases List.mem_cons.mp ha with rfl | ha
      · rw [h1]; simp
      · exact h2.1 a ha
    · cases gs with
      | nil => simp [schedRun, h1]
      | cons x xs =>
        have := h2.2 (by simp)
        rw [this, h1]

/-- `next_window_size > current_window_size` for every growth factor (so windows never shrink). -/
theorem nextWindow_grows (growth : ℝ) (c : ℕ) : c < nextWindowOf growth c := by
  unfold nextWindowOf; exact Nat.lt_of_lt_of_le (Nat.lt_succ_self c) (Nat.le_max_left _ _)

end NutsModel.Sched
