-- every theorem module (built by setup.sh so that per-check builds are incremental)
import NutsModel.Thm.C07
import NutsModel.Thm.C01
import NutsModel.Thm.C03
import NutsModel.Thm.Sched
import NutsModel.Thm.C17
import NutsModel.Thm.C01Refine
import NutsModel.Thm.C16
import NutsModel.Thm.C19Settings
import NutsModel.Thm.C02
import NutsModel.Thm.C18
import NutsModel.Thm.C15
import NutsModel.Thm.C14
import NutsModel.Thm.Controller
import NutsModel.Thm.CtlTrace
import NutsModel.Thm.C05
import NutsModel.Thm.C05Run
import NutsModel.Thm.C08
