-- every theorem module (built by setup.sh so that per-check builds are incremental)
import NutsModel.Thm.C07
import NutsModel.Thm.C01
