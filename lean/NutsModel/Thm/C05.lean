import NutsModel.Model.Faults

/-! C05 — classification of density faults by the code that performed the evaluation.
The quantifier "every fault kind × every role of the evaluation" is a finite table and is decided
completely (`decide` over the whole table, no sampling); "every position of the fault in a run of
any length" is carried by the tree theorems of `Thm/C05Tree.lean`, which hold for every orbit. -/
namespace NutsModel.C05
open NutsModel.Model

/-- every fault kind is in the table -/
theorem all_kinds (k : FaultKind) : k ∈ FaultKind.all := by cases k <;> decide

/-- leapfrog classification of each fault kind -/
theorem leap_classification (k : FaultKind) :
    leapOf (evalOf k) =
      match k with
      | .unrecoverable => .err
      | .zeroGrad => .ok
      | _ => .diverge := by
  cases k <;> rfl

/-- an unfaulted evaluation is an ordinary successful leapfrog / a valid initial point -/
theorem good_is_ok : leapOf EvalRes.good = .ok ∧ initStateOk EvalRes.good = true ∧
    initUntransformedOk EvalRes.good = true := by decide

/-- **Unrecoverable errors**: wherever the evaluation sits, the call that triggered it returns `Err`. -/
theorem unrecoverable_is_err (isDraw : Bool) (r : Role) :
    allowed isDraw r (evalOf .unrecoverable) = [.err] := by
  cases isDraw <;> cases r <;> rfl

/-- **Faults inside a trajectory** (recoverable error, NaN / infinite log-density, non-finite gradient):
    the draw succeeds and is flagged divergent. -/
theorem trajectory_fault_diverges (k : FaultKind) (hk : k ≠ .unrecoverable) (hz : k ≠ .zeroGrad) :
    allowed true .trajectory (evalOf k) = [.okDiverging] := by
  cases k <;> first | rfl | exact absurd rfl hk | exact absurd rfl hz

/-- a zero gradient component inside a trajectory is not a fault -/
theorem trajectory_zero_grad_fine : allowed true .trajectory (evalOf .zeroGrad) = [.ok, .okDiverging] := rfl

/-- **Faults during the step-size search**: only the trial is discarded, the call succeeds. -/
theorem trial_fault_discarded (isDraw : Bool) (k : FaultKind) (hk : k ≠ .unrecoverable) :
    CallOut.err ∉ allowed isDraw .trial (evalOf k) := by
  cases isDraw <;> cases k <;> first | decide | exact absurd rfl hk

/-- `set_position` rejects an initial point whose evaluation is faulty in any way (the caller tries another one); a merely low
    finite log-density (`energyJump`) is not a fault of an initial point -/
theorem bad_initial_point_rejected (k : FaultKind) :
    allowed false .initState (evalOf k) = if k = .energyJump then [.ok] else [.err] := by
  cases k <;> rfl

/-- **Energy limit**: a trajectory leapfrog whose energy error exceeds the configured `max_energy_error` makes the draw divergent —
    the model has one `leapOf` for every doubling, with or without the U-turn check -/
theorem energy_jump_diverges : allowed true .trajectory (evalOf .energyJump) = [.okDiverging] := rfl

/-- ... and is invisible to the step-size search (own limit) and to the initial evaluations -/
theorem energy_jump_elsewhere (isDraw : Bool) (r : Role) (hr : r ≠ .trajectory) :
    CallOut.err ∉ allowed isDraw r (evalOf .energyJump) := by
  cases isDraw <;> cases r <;> first | decide | exact absurd rfl hr

/-- the first evaluation of `set_position` (used for the gradient-based initial mass matrix) is rejected exactly
    when it errs or has a non-finite gradient -/
theorem init_untransformed_rejects (k : FaultKind) :
    allowed false .initUntransformed (evalOf k) =
      if k = .recoverable ∨ k = .unrecoverable ∨ k = .nanGrad ∨ k = .infGrad then [.err] else [.ok] := by
  cases k <;> rfl

/-- a call never has an outcome outside `{Err, Ok, Ok+divergent}`, and `set_position` never reports a divergence -/
theorem set_position_outcomes (r : Role) (e : EvalRes) (hr : r ≠ .trajectory) :
    CallOut.okDiverging ∉ allowed false r e := by
  cases r <;> first | exact absurd rfl hr | (simp only [allowed, Bool.false_eq_true, if_false]; split <;> simp)

/-- **C05** — for every fault kind other than an unrecoverable error, at ANY evaluation of a `draw` call (trajectory
    leapfrog, step-size-search trial, or the re-evaluation of the current point that starts the re-initialised search): the call
    does not fail. -/
theorem nonfatal_fault_never_fails (r : Role) (k : FaultKind)
    (hr : r = .trial ∨ r = .trajectory ∨ r = .initState) (hk : k ≠ .unrecoverable) :
    CallOut.err ∉ allowed true r (evalOf k) := by
  rcases hr with rfl | rfl | rfl <;> cases k <;> first | decide | exact absurd rfl hk

/-- the same for the step-size-search trials of `set_position` (its initial evaluations reject the point instead) -/
theorem nonfatal_fault_never_fails_partial (isDraw : Bool) (r : Role) (k : FaultKind)
    (hr : r = .trial ∨ r = .trajectory) (hk : k ≠ .unrecoverable) :
    CallOut.err ∉ allowed isDraw r (evalOf k) := by
  rcases hr with rfl | rfl <;> cases isDraw <;> cases k <;> first | decide | exact absurd rfl hk

/-- the re-initialisation of the step size inside `draw` discards the search when its start evaluation is unusable
    (this was a defect — the call failed — until fix 843cd15) -/
theorem reinit_fault_discarded (k : FaultKind) (hk : k ≠ .unrecoverable) :
    allowed true .initState (evalOf k) = [.ok, .okDiverging] := by
  cases k <;> first | rfl | exact absurd rfl hk

end NutsModel.C05
