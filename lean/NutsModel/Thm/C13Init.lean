import NutsModel.Model.InitRetry
import NutsModel.Thm.CtlTrace

/-! C13 — initialisation: "all initialisation attempts fail → Err", "an unrecoverable error → Err", and
"recoverable density errors never terminate a chain": a rejected start point only costs an attempt.
The statements characterise the result of the retry loop for EVERY outcome stream and every loop bound. -/
namespace NutsModel.Ctl
open NutsModel.Model

theorem initLoop_started_iff (a : Nat → Attempt) (fuel idx : Nat) (e : Bool) (k : Nat) :
    initLoop a fuel idx e = .started k ↔
      idx ≤ k ∧ k < idx + fuel ∧ a k = .ok ∧ ∀ j, idx ≤ j → j < k → a j = .bad := by
  induction fuel generalizing idx e with
  | zero => simp only [initLoop]; split <;> simp <;> omega
  | succ n ih =>
    simp only [initLoop]
    cases h : a idx with
    | ok =>
      simp only [InitResult.started.injEq]
      constructor
      · rintro rfl; exact ⟨Nat.le_refl _, by omega, h, fun j h1 h2 => by omega⟩
      · rintro ⟨h1, _, _, h4⟩
        rcases Nat.lt_or_ge idx k with hlt | hge
        · have := h4 idx (Nat.le_refl _) hlt; rw [h] at this; cases this
        · omega
    | fatal =>
      simp only [reduceCtorEq, false_iff, not_and]
      intro h1 _ hk h4
      rcases Nat.lt_or_ge idx k with hlt | hge
      · have := h4 idx (Nat.le_refl _) hlt; rw [h] at this; cases this
      · have : k = idx := by omega
        rw [this, h] at hk; cases hk
    | bad =>
      rw [ih]
      constructor
      · rintro ⟨h1, h2, h3, h4⟩
        refine ⟨by omega, by omega, h3, fun j hj1 hj2 => ?_⟩
        rcases Nat.lt_or_ge idx j with hlt | hge
        · exact h4 j (by omega) hj2
        · have : j = idx := by omega
          subst this; exact h
      · rintro ⟨h1, h2, h3, h4⟩
        have hne : k ≠ idx := by rintro rfl; rw [h] at h3; cases h3
        exact ⟨by omega, by omega, h3, fun j hj1 hj2 => h4 j (by omega) hj2⟩

theorem initLoop_fatal_iff (a : Nat → Attempt) (fuel idx : Nat) (e : Bool) (k : Nat) :
    initLoop a fuel idx e = .fatal k ↔
      idx ≤ k ∧ k < idx + fuel ∧ a k = .fatal ∧ ∀ j, idx ≤ j → j < k → a j = .bad := by
  induction fuel generalizing idx e with
  | zero => simp only [initLoop]; split <;> simp <;> omega
  | succ n ih =>
    simp only [initLoop]
    cases h : a idx with
    | fatal =>
      simp only [InitResult.fatal.injEq]
      constructor
      · rintro rfl; exact ⟨Nat.le_refl _, by omega, h, fun j h1 h2 => by omega⟩
      · rintro ⟨h1, _, _, h4⟩
        rcases Nat.lt_or_ge idx k with hlt | hge
        · have := h4 idx (Nat.le_refl _) hlt; rw [h] at this; cases this
        · omega
    | ok =>
      simp only [reduceCtorEq, false_iff, not_and]
      intro h1 _ hk h4
      rcases Nat.lt_or_ge idx k with hlt | hge
      · have := h4 idx (Nat.le_refl _) hlt; rw [h] at this; cases this
      · have : k = idx := by omega
        rw [this, h] at hk; cases hk
    | bad =>
      rw [ih]
      constructor
      · rintro ⟨h1, h2, h3, h4⟩
        refine ⟨by omega, by omega, h3, fun j hj1 hj2 => ?_⟩
        rcases Nat.lt_or_ge idx j with hlt | hge
        · exact h4 j (by omega) hj2
        · have : j = idx := by omega
          subst this; exact h
      · rintro ⟨h1, h2, h3, h4⟩
        have hne : k ≠ idx := by rintro rfl; rw [h] at h3; cases h3
        exact ⟨by omega, by omega, h3, fun j hj1 hj2 => h4 j (by omega) hj2⟩

theorem initLoop_allFailed_iff (a : Nat → Attempt) (fuel idx : Nat) (e : Bool) :
    initLoop a fuel idx e = .allFailed ↔
      (fuel = 0 ∧ e = true) ∨ (0 < fuel ∧ ∀ j, idx ≤ j → j < idx + fuel → a j = .bad) := by
  induction fuel generalizing idx e with
  | zero => simp only [initLoop]; cases e <;> simp
  | succ n ih =>
    simp only [initLoop]
    cases h : a idx with
    | ok =>
      simp only [reduceCtorEq, false_iff, not_or, not_and]
      exact ⟨fun h0 => h0.elim, fun _ hall => by have := hall idx (Nat.le_refl _) (by omega); rw [h] at this; cases this⟩
    | fatal =>
      simp only [reduceCtorEq, false_iff, not_or, not_and]
      exact ⟨fun h0 => h0.elim, fun _ hall => by have := hall idx (Nat.le_refl _) (by omega); rw [h] at this; cases this⟩
    | bad =>
      rw [ih]
      constructor
      · rintro (⟨rfl, _⟩ | ⟨hpos, hall⟩)
        · right; refine ⟨by omega, fun j h1 h2 => ?_⟩
          have : j = idx := by omega
          subst this; exact h
        · right; refine ⟨by omega, fun j h1 h2 => ?_⟩
          rcases Nat.lt_or_ge idx j with hlt | hge
          · exact hall j (by omega) (by omega)
          · have : j = idx := by omega
            subst this; exact h
      · rintro (⟨h0, _⟩ | ⟨_, hall⟩)
        · omega
        · rcases Nat.eq_zero_or_pos n with rfl | hpos
          · left; exact ⟨rfl, rfl⟩
          · right; exact ⟨hpos, fun j h1 h2 => hall j (by omega) (by omega)⟩

/-- C13 "all initialisation attempts fail": Err exactly when all 500 start points are rejected -/
theorem init_allFailed_iff (a : Nat → Attempt) :
    chainInit a = .allFailed ↔ ∀ j, j < maxInitAttempts → a j = .bad := by
  unfold chainInit
  rw [initLoop_allFailed_iff]
  simp [maxInitAttempts]

/-- C13 "unrecoverable error → Err": exactly when an unrecoverable error is the first non-rejected outcome -/
theorem init_fatal_iff (a : Nat → Attempt) (k : Nat) :
    chainInit a = .fatal k ↔ k < maxInitAttempts ∧ a k = .fatal ∧ ∀ j, j < k → a j = .bad := by
  unfold chainInit
  rw [initLoop_fatal_iff]
  simp

/-- C13 "recoverable density errors never terminate a chain" (initialisation): however many start points are rejected before it,
the first accepted point among the 500 attempts starts the chain -/
theorem init_started_iff (a : Nat → Attempt) (k : Nat) :
    chainInit a = .started k ↔ k < maxInitAttempts ∧ a k = .ok ∧ ∀ j, j < k → a j = .bad := by
  unfold chainInit
  rw [initLoop_started_iff]
  simp

theorem rejected_points_do_not_end_the_chain (nbad : Nat) (h : nbad < maxInitAttempts) :
    chainInit (scenario nbad .ok) = .started nbad := by
  rw [init_started_iff]
  refine ⟨h, by simp [scenario], fun j hj => by simp [scenario, hj]⟩

theorem fatal_after_rejected_points (nbad : Nat) (h : nbad < maxInitAttempts) :
    chainInit (scenario nbad .fatal) = .fatal nbad := by
  rw [init_fatal_iff]
  refine ⟨h, by simp [scenario], fun j hj => by simp [scenario, hj]⟩

theorem initLoop_noAttempt_iff (a : Nat → Attempt) (fuel idx : Nat) (e : Bool) :
    initLoop a fuel idx e = .noAttempt ↔ fuel = 0 ∧ e = false := by
  induction fuel generalizing idx e with
  | zero => simp only [initLoop]; cases e <;> simp
  | succ n ih =>
    simp only [initLoop]
    cases a idx with
    | ok => simp
    | fatal => simp
    | bad => rw [ih]; simp

/-- the result is never `noAttempt`: with the bound 500 some attempt is made -/
theorem init_attempted (a : Nat → Attempt) : chainInit a ≠ .noAttempt := by
  unfold chainInit
  rw [Ne, initLoop_noAttempt_iff]
  simp [maxInitAttempts]

example : chainInit (scenario 3 .ok) = .started 3 := by decide
example : chainInit (scenario 0 .fatal) = .fatal 0 := by decide

end NutsModel.Ctl
