import NutsModel.Thm.Controller

/-! Trace contents of a chain under arbitrary schedules (C10, C11, C12):
the recorded trace is always `[0, 1, …, n-1]` of the chain's own stream — nothing lost, duplicated or
reordered, whatever the controller does and whenever. -/
namespace NutsModel.Ctl
open NutsModel.Model

theorem range_prefix_range {m n : Nat} (h : m ≤ n) : List.range m <+: List.range n := by
  obtain ⟨k, rfl⟩ := Nat.exists_eq_add_of_le h
  exact ⟨_, List.range_add.symm⟩

def tinit (total : Nat) : TChain := { c := init total }

def TInv (t : TChain) : Prop :=
  t.trace = List.range t.c.n ∧ (t.drawn = t.c.n ∨ (t.drawn = t.c.n + 1 ∧ ∃ r, t.c.phase = .done r))

theorem tinv_init (total : Nat) : TInv (tinit total) := by
  simp [TInv, tinit, init]

theorem tinv_step (t : TChain) (e : ChainEv) (h : TInv t) : TInv (tApply t e) := by
  obtain ⟨htr, hd⟩ := h
  cases e with
  | deliver x => simp [TInv, tApply, applyEv, deliver, drew, htr]; exact hd
  | finalize => simp [TInv, tApply, applyEv, finalizeChain, drew, htr]; exact hd
  | step o =>
    rcases t with ⟨c, drawn, trace⟩
    simp only at htr hd
    rcases c with ⟨phase, mailbox, alive, slot, n, progress, total⟩
    simp only at htr hd
    cases phase with
    | queued =>
      cases hi : o.initOk <;>
        simp [TInv, tApply, applyEv, chainStep, drew, hi, htr] <;> rcases hd with hd | ⟨_, r, hr⟩ <;> simp_all
    | done r => simpa [TInv, tApply, applyEv, chainStep, drew, htr] using hd
    | top m =>
      have hd' : drawn = n := by
        rcases hd with hd | ⟨_, r, hr⟩
        · exact hd
        · simp at hr
      subst hd'
      cases m with
      | disc => simp [TInv, tApply, applyEv, chainStep, drew, htr]
      | empty =>
        by_cases hn : drawn = total
        · simp [TInv, tApply, applyEv, chainStep, drew, htr, hn]
        · by_cases hl : drawn + 1 = total
          · subst hl
            cases hdo : o.drawOk <;> cases slot <;> cases hro : o.recordOk <;>
              simp [TInv, tApply, applyEv, chainStep, drew, htr, hdo, hro, List.range_succ]
          · cases hdo : o.drawOk <;> cases slot <;> cases hro : o.recordOk <;>
              simp [TInv, tApply, applyEv, chainStep, drew, htr, hn, hdo, hro, hl, List.range_succ]
      | cmd x =>
        cases x with
        | pause =>
          cases mailbox <;> cases alive <;>
            simp [TInv, tApply, applyEv, chainStep, drew, recvBlocking, htr]
        | resume =>
          by_cases hn : drawn = total
          · simp [TInv, tApply, applyEv, chainStep, drew, htr, hn]
          · by_cases hl : drawn + 1 = total
            · subst hl
              cases hdo : o.drawOk <;> cases slot <;> cases hro : o.recordOk <;>
                simp [TInv, tApply, applyEv, chainStep, drew, htr, hdo, hro, List.range_succ]
            · cases hdo : o.drawOk <;> cases slot <;> cases hro : o.recordOk <;>
                simp [TInv, tApply, applyEv, chainStep, drew, htr, hn, hdo, hro, hl, List.range_succ]

theorem tinv_run (t : TChain) (evs : List ChainEv) (h : TInv t) : TInv (tRun t evs) := by
  induction evs generalizing t with
  | nil => simpa [tRun]
  | cons e es ih => simpa [tRun] using ih (tApply t e) (tinv_step t e h)

theorem tRun_c (t : TChain) (evs : List ChainEv) : (tRun t evs).c = runEvs t.c evs := by
  induction evs generalizing t with
  | nil => rfl
  | cons e es ih => simpa [tRun, runEvs, tApply] using ih (tApply t e)

/-- **Trace contents** — for every schedule of chain steps, commands and finalisation, the recorded trace
    is exactly the first `n` elements of the chain's own stream, in order. -/
theorem trace_eq_range (total : Nat) (evs : List ChainEv) :
    (tRun (tinit total) evs).trace = List.range (runEvs (init total) evs).n := by
  have := (tinv_run (tinit total) evs (tinv_init total)).1
  rwa [tRun_c] at this

/-- no element of the stream is computed and then dropped, except by the step that ends the task -/
theorem drawn_eq_recorded (total : Nat) (evs : List ChainEv) :
    let t := tRun (tinit total) evs
    t.drawn = t.c.n ∨ (t.drawn = t.c.n + 1 ∧ ∃ r, t.c.phase = .done r) :=
  (tinv_run (tinit total) evs (tinv_init total)).2

/-- **Schedule independence** — two runs of the same chain under arbitrary different schedules record
    traces one of which is a prefix of the other … -/
theorem schedule_independent_prefix (total : Nat) (evs₁ evs₂ : List ChainEv) :
    (tRun (tinit total) evs₁).trace <+: (tRun (tinit total) evs₂).trace ∨
    (tRun (tinit total) evs₂).trace <+: (tRun (tinit total) evs₁).trace := by
  rw [trace_eq_range, trace_eq_range]
  rcases Nat.le_total (runEvs (init total) evs₁).n (runEvs (init total) evs₂).n with h | h
  · left; exact range_prefix_range h  
  · right; exact range_prefix_range h

/-- … and both are the full trace `[0, …, total-1]` when neither was aborted. -/
theorem schedule_independent_complete (total : Nat) (evs : List ChainEv)
    (hd : (runEvs (init total) evs).phase = .done .ok)
    (ha : (runEvs (init total) evs).alive = true) (hs : (runEvs (init total) evs).slot = true) :
    (tRun (tinit total) evs).trace = List.range total := by
  rw [trace_eq_range, complete_if_not_aborted total evs hd ha hs, total_const]

/-- every trace is a prefix of the full trace -/
theorem trace_prefix_full (total : Nat) (evs : List ChainEv) :
    (tRun (tinit total) evs).trace <+: List.range total := by
  rw [trace_eq_range]
  exact range_prefix_range (n_le_total' total evs)

/-- **The trace only grows** — whatever was recorded (and hence could be inspected or flushed) after
    `evs` is still there, unchanged and at the same positions, after ANY continuation `more` of the
    schedule (further draws, pause/resume, abort, finalisation): an inspected prefix is never
    retracted or rewritten. -/
theorem trace_grows (total : Nat) (evs more : List ChainEv) :
    (tRun (tinit total) evs).trace <+: (tRun (tinit total) (evs ++ more)).trace := by
  rw [trace_eq_range, trace_eq_range, runEvs_append]
  exact range_prefix_range (n_mono_run _ more)

/-- nothing is recorded twice: the recorded stream positions are pairwise distinct -/
theorem trace_nodup (total : Nat) (evs : List ChainEv) : (tRun (tinit total) evs).trace.Nodup := by
  rw [trace_eq_range]; exact List.nodup_range

/-- streams: chain `i` uses stream `i + 1`, the controller stream 0 — all distinct -/
theorem streams_distinct (i j : Nat) : (i + 1 = j + 1 ↔ i = j) ∧ i + 1 ≠ 0 := by omega

-- non-vacuity: a paused and resumed run with an abort in the middle
example : (tRun (tinit 5) [.step {}, .step {}, .deliver .pause, .step {}, .step {}, .deliver .resume, .step {}, .step {},
    .finalize, .step {}]).trace = [0, 1, 2] := by decide

end NutsModel.Ctl
