import NutsModel.Gen.Kernels
import NutsModel.Thm.C08

/-! C08 — the hand-written per-coordinate model of `Model/MassMatrix.lean` IS the element-wise closure of the
current Rust source: `Gen/Kernels.lean` is regenerated from `src/math/cpu_math.rs` on every run, and the
equalities below (for every scalar type, hence both for `Float`, which the driver runs, and for `ℝ`, at which the
theorems of `Thm/C08.lean` are stated) are re-checked against it. A change of the Rust kernels breaks them. -/
set_option linter.unusedSectionVars false

namespace NutsModel.C08
open NutsModel NutsModel.Model NutsModel.Gen.Kernels

variable {α : Type} [Add α] [Sub α] [Mul α] [Div α] [Neg α] [NatCast α] [OfScientific α]
  [LT α] [LE α] [DecidableLT α] [DecidableLE α] [Transc α]

/-- `array_update_variance` (closure) = the non-first branch of `RunVar.add` with `diff_scale = 1 / count` -/
theorem gen_update_variance (r : RunVar α) (x : α) (h : r.count ≠ 0) :
    (r.add x).mean = array_update_variance_mean r.mean r.var x (((1 : Nat) : α) / ((r.count + 1 : Nat) : α)) ∧
    (r.add x).var = array_update_variance_var r.mean r.var x (((1 : Nat) : α) / ((r.count + 1 : Nat) : α)) := by
  simp [RunVar.add, h, array_update_variance_mean, array_update_variance_var]

/-- `array_update_var_inv_std_draw_grad` (closure) = `updDrawGrad` -/
theorem gen_update_draw_grad (old : Scale α) (dv gv : α) (fill : Option α) (lo hi : α) :
    updDrawGrad old dv gv fill lo hi =
      (array_update_var_inv_std_draw_grad_std_out old.std old.invStd dv gv fill lo hi,
       array_update_var_inv_std_draw_grad_inv_std_out old.std old.invStd dv gv fill lo hi) := by
  unfold updDrawGrad array_update_var_inv_std_draw_grad_std_out array_update_var_inv_std_draw_grad_inv_std_out
  cases fill <;> simp <;> split <;> simp_all

/-- `array_update_var_inv_std_grad` (closure) = the scale part of `updateGrad` -/
theorem gen_update_grad (pos grad fill lo hi std0 inv0 : α) :
    (updateGrad pos grad fill lo hi).std = array_update_var_inv_std_grad_std_out std0 inv0 grad fill lo hi ∧
    (updateGrad pos grad fill lo hi).invStd = array_update_var_inv_std_grad_inv_std_out std0 inv0 grad fill lo hi := by
  unfold updateGrad array_update_var_inv_std_grad_std_out array_update_var_inv_std_grad_inv_std_out
  constructor <;> simp

end NutsModel.C08

#print axioms NutsModel.C08.gen_update_variance
#print axioms NutsModel.C08.gen_update_draw_grad
#print axioms NutsModel.C08.gen_update_grad
