import NutsModel.Gen.Collector
import NutsModel.Thm.C06Adapt

/-! C09 — "divergent or stuck draws are not counted": the verdict `is_good` that decides whether a draw enters the two estimators.
`Gen/Collector.lean` is regenerated from `DrawGradCollector::register_draw` (src/transform/adapt/diagonal.rs) on every run; the hand
model's `isGoodDraw` (used by the schedule model, the driver and `adapt_refines_schedStep`'s oracle) is proved equal to it. -/
set_option linter.unusedSectionVars false

namespace NutsModel.Sched
open NutsModel NutsModel.Model NutsModel.Gen

variable {α : Type} [Add α] [Sub α] [Mul α] [Div α] [Neg α] [NatCast α] [OfScientific α]
  [LT α] [LE α] [DecidableLT α] [DecidableLE α] [Transc α]

theorem register_draw_is_good (c : DrawGradCollector α) (idx : Int) (div : Option Unit) :
    (DrawGradCollector.register_draw c idx div).is_good = isGoodDraw div.isSome idx := by
  cases div with
  | none =>
    by_cases h : idx = 0 <;> simp [DrawGradCollector.register_draw, isGoodDraw, Option.isSome, Id.run, pure, h]
  | some u =>
    simp [DrawGradCollector.register_draw, isGoodDraw, Option.isSome, Id.run, pure]

/-- stuck draws (index 0, no divergence) and divergent draws within four steps of the start are rejected; everything else is used -/
theorem is_good_iff (c : DrawGradCollector α) (idx : Int) (div : Option Unit) :
    (DrawGradCollector.register_draw c idx div).is_good = true ↔
      (div.isSome = true ∧ idx.natAbs > 4) ∨ (div.isSome = false ∧ idx ≠ 0) := by
  rw [register_draw_is_good]
  cases div <;> simp [isGoodDraw]

example : (DrawGradCollector.register_draw (α := Nat) ⟨true⟩ 0 none).is_good = false := by decide
example : (DrawGradCollector.register_draw (α := Nat) ⟨false⟩ (-4) (some ())).is_good = false := by decide
example : (DrawGradCollector.register_draw (α := Nat) ⟨false⟩ 5 (some ())).is_good = true := by decide

/-! `GlobalStrategy::new` (translated; the two `assert!`s are modelled as `none` = the call panics): the window boundaries and the start
values of the schedule state are those of the hand model `schedNew` / `SchedState.init`. -/

theorem new_eq_schedNew (o : EuclideanAdaptOptions α) (n : Nat) :
    (GlobalStrategy.new o n).map (fun g => (g.early_end, g.final_step_size_window)) =
      (match schedNew n o.early_window o.step_size_window o.mass_matrix_window_growth with
       | .ok p => some p
       | .error _ => none) := by
  unfold GlobalStrategy.new schedNew
  simp only [Id.run, pure]
  by_cases h1 : n = 0 ∨ Transc.toNat (o.early_window * (n : α)) < n
  · have hb : (n == 0 || decide (Transc.toNat (o.early_window * (n : α)) < n)) = true := by
      rcases h1 with h | h <;> simp [h]
    by_cases h2 : o.mass_matrix_window_growth ≥ ((1 : Nat) : α)
    · simp [hb, h1, h2]
    · simp [hb, h1, h2]
  · have h1' : ¬ n = 0 ∧ ¬ Transc.toNat (o.early_window * (n : α)) < n :=
      ⟨fun h => h1 (Or.inl h), fun h => h1 (Or.inr h)⟩
    simp [h1'.1, h1'.2]

/-- whenever construction succeeds: tuning, the initial-mass-matrix flag, the update counter and the first main window are the start
    values of the hand model, the options are kept, and the asserted precondition `early_end < num_tune` (or `num_tune = 0`) holds -/
theorem new_start_values (o : EuclideanAdaptOptions α) (n : Nat) (g : GlobalStrategy α) (h : GlobalStrategy.new o n = some g) :
    g.tuning = true ∧ g.has_initial_mass_matrix = true ∧ g.last_update = 0 ∧ g.current_window_size = o.mass_matrix_switch_freq ∧
    g.num_tune = n ∧ g.options = o ∧ (n = 0 ∨ g.early_end < n) ∧ g.final_step_size_window ≤ n := by
  unfold GlobalStrategy.new at h
  simp only [Id.run, pure] at h
  by_cases h1 : n = 0 ∨ Transc.toNat (o.early_window * (n : α)) < n
  · by_cases h2 : o.mass_matrix_window_growth ≥ ((1 : Nat) : α)
    · have : (n == 0 || decide (Transc.toNat (o.early_window * (n : α)) < n)) = true := by
        rcases h1 with h' | h' <;> simp [h']
      simp [this, h2] at h
      subst h
      refine ⟨rfl, rfl, rfl, rfl, rfl, rfl, ?_, Nat.sub_le _ _⟩
      exact h1
    · have : (n == 0 || decide (Transc.toNat (o.early_window * (n : α)) < n)) = true := by
        rcases h1 with h' | h' <;> simp [h']
      simp [this, h2] at h
  · have h1' : ¬ n = 0 ∧ ¬ Transc.toNat (o.early_window * (n : α)) < n :=
      ⟨fun h' => h1 (Or.inl h'), fun h' => h1 (Or.inr h')⟩
    simp [h1'.1, h1'.2] at h

end NutsModel.Sched
