/-
C01 (refinement) — the *executable model* of the NUTS transition (`Model/Tree.lean: draw`) satisfies
detailed balance on every divergence-free orbit.

Layers
 A. generic lemmas on the decision structure `Rand` (`All` = "every outcome satisfies", law of total
    probability in affine form).
 B. windows of the orbit as perfect binary trees (`win`), integer addressing of leaves (`zpath`),
    `sub` / `Mn` = `subPmf` / `mainPmf` in integer coordinates and their one-doubling recursions.
 C. U-turn validity of a window (`turn3`, `valid`), the start-independent stopping weight `Q`, the
    closed form `S` (a sum over direction words = windows) and its one-doubling recursion `S_step`.
 D. model analysis: `singleStep`, `turningChecks`, `mergeInto`, `buildOther` (sub-tree lemma),
    `extend`, `drawLoop` (main-tree lemma)  ⟹  `K s i = S`.
 E. detailed balance of `S` (re-indexing of windows + `main_balance`).
-/
import NutsModel.Thm.C01
import Mathlib.Tactic.Linarith
import Mathlib.Tactic.Positivity
import Mathlib.Tactic.FieldSimp
import Mathlib.Tactic.Ring
import Mathlib.Algebra.BigOperators.Ring.Finset
import Mathlib.Algebra.BigOperators.Intervals

set_option linter.unusedSimpArgs false
set_option linter.unusedVariables false
set_option linter.unnecessarySeqFocus false

namespace NutsModel.C01
open NutsModel NutsModel.Gen NutsModel.Model

/-! ## A. generic lemmas on `Rand` -/

/-- every outcome of `r` satisfies `P` -/
def All {β : Type} : Rand ℝ β → (β → Prop) → Prop
  | .pure b, P => P b
  | .coin k, P => All (k true) P ∧ All (k false) P
  | .bern _ k, P => All (k true) P ∧ All (k false) P

theorem All_bind {β γ : Type} {r : Rand ℝ β} {f : β → Rand ℝ γ} {P : β → Prop} {Q : γ → Prop}
    (hr : All r P) (hf : ∀ b, P b → All (f b) Q) : All (r.bind f) Q := by
  induction r with
  | pure b => exact hf b hr
  | coin k ih => exact ⟨ih true hr.1, ih false hr.2⟩
  | bern p k ih => exact ⟨ih true hr.1, ih false hr.2⟩

theorem All_mono {β : Type} {r : Rand ℝ β} {P Q : β → Prop} (hr : All r P) (h : ∀ b, P b → Q b) :
    All r Q := by
  induction r with
  | pure b => exact h b hr
  | coin k ih => exact ⟨ih true hr.1, ih false hr.2⟩
  | bern p k ih => exact ⟨ih true hr.1, ih false hr.2⟩

theorem All_trivial {β : Type} (r : Rand ℝ β) : All r (fun _ => True) := by
  induction r with
  | pure b => trivial
  | coin k ih => exact ⟨ih true, ih false⟩
  | bern p k ih => exact ⟨ih true, ih false⟩

theorem bind_assoc' {β γ δ : Type} (r : Rand ℝ β) (f : β → Rand ℝ γ) (g : γ → Rand ℝ δ) :
    (r.bind f).bind g = r.bind (fun b => (f b).bind g) := by
  induction r with
  | pure b => rfl
  | coin k ih => simp only [Rand.bind, ih]
  | bern p k ih => simp only [Rand.bind, ih]

/-- law of total probability, affine form: if on every outcome `x` of `r` the continuation has
    probability `a + b·[Q x]`, the sequence has probability `a + b·P(Q)`. -/
theorem prob_bind_affine {β γ : Type} (r : Rand ℝ β) (f : β → Rand ℝ γ) (P : γ → Bool) (Q : β → Bool)
    (a b : ℝ) (h : All r (fun x => prob (f x) P = a + b * (if Q x then 1 else 0))) :
    prob (r.bind f) P = a + b * prob r Q := by
  induction r with
  | pure x => simp only [Rand.bind, prob]; exact h
  | coin k ih => simp only [Rand.bind, prob, ih true h.1, ih false h.2]; ring
  | bern p k ih => simp only [Rand.bind, prob, ih true h.1, ih false h.2]; ring

theorem prob_bind_const {β γ : Type} (r : Rand ℝ β) (f : β → Rand ℝ γ) (P : γ → Bool)
    (c : ℝ) (h : All r (fun x => prob (f x) P = c)) :
    prob (r.bind f) P = c := by
  have := prob_bind_affine r f P (fun _ => true) c 0 (All_mono h (fun b hb => by simp [hb]))
  simpa using this

theorem prob_congr {β : Type} (r : Rand ℝ β) (P Q : β → Bool) (h : All r (fun x => P x = Q x)) :
    prob r P = prob r Q := by
  induction r with
  | pure x => simp only [prob]; rw [show P x = Q x from h]
  | coin k ih => simp only [prob, ih true h.1, ih false h.2]
  | bern p k ih => simp only [prob, ih true h.1, ih false h.2]

theorem prob_bind_bool {γ : Type} (r : Rand ℝ Bool) (f : Bool → Rand ℝ γ) (P : γ → Bool) :
    prob (r.bind f) P = prob r (fun b => b) * prob (f true) P
      + (1 - prob r (fun b => b)) * prob (f false) P := by
  induction r with
  | pure x => cases x <;> simp [Rand.bind, prob]
  | coin k ih => simp only [Rand.bind, prob, ih]; ring
  | bern p k ih => simp only [Rand.bind, prob, ih]; ring

/-! ## B. windows of the orbit as perfect binary trees -/

section Windows
variable (w : ℤ → ℝ)

/-- the window `[lo, lo + 2^d − 1]` as a perfect binary tree (left child = lower indices). -/
noncomputable def win : ℕ → ℤ → BT
  | 0, lo => .leaf (w lo)
  | d + 1, lo => .node (win d lo) (win d (lo + 2 ^ d))

/-- root-to-leaf path of index `i` inside the window `(d, lo)`; if `i` is outside the window the
    path is one step too long (so that it addresses no leaf). -/
def zpath : ℕ → ℤ → ℤ → Path
  | 0, lo, i => if i = lo then [] else [false]
  | d + 1, lo, i => if i < lo + 2 ^ d then false :: zpath d lo i else true :: zpath d (lo + 2 ^ d) i

/-- total weight of a window -/
noncomputable def Wt (d : ℕ) (lo : ℤ) : ℝ := (win w d lo).W
/-- multinomial sampling inside the window `(d, lo)`: probability of index `i` -/
noncomputable def sub (d : ℕ) (lo i : ℤ) : ℝ := (win w d lo).subPmf (zpath d lo i)
/-- biased progressive sampling over the window `(d, lo)` from start `s`: probability of `i` -/
noncomputable def Mn (d : ℕ) (lo s i : ℤ) : ℝ := (win w d lo).mainPmf (zpath d lo s) (zpath d lo i)

theorem win_pos (hw : ∀ j, 0 < w j) : ∀ d lo, (win w d lo).Pos
  | 0, lo => hw lo
  | d + 1, lo => ⟨win_pos hw d lo, win_pos hw d _⟩

theorem Wt_pos (hw : ∀ j, 0 < w j) (d : ℕ) (lo : ℤ) : 0 < Wt w d lo := BT.W_pos _ (win_pos w hw d lo)

theorem Wt_succ (d : ℕ) (lo : ℤ) : Wt w (d + 1) lo = Wt w d lo + Wt w d (lo + 2 ^ d) := rfl

theorem two_pow_pos (d : ℕ) : (0 : ℤ) < 2 ^ d := by positivity

theorem sub_out : ∀ (d : ℕ) (lo i : ℤ), (i < lo ∨ lo + 2 ^ d ≤ i) → sub w d lo i = 0
  | 0, lo, i, h => by
    have hne : i ≠ lo := by
      rcases h with h | h
      · omega
      · rw [pow_zero] at h; omega
    simp [sub, win, zpath, hne, BT.subPmf]
  | d + 1, lo, i, h => by
    have hp := two_pow_pos d
    have h2 : (2 : ℤ) ^ (d + 1) = 2 * 2 ^ d := by ring
    unfold sub
    by_cases hi : i < lo + 2 ^ d
    · have := sub_out d lo i (by omega)
      unfold sub at this
      simp [win, zpath, hi, BT.subPmf, this]
    · have := sub_out d (lo + 2 ^ d) i (by omega)
      unfold sub at this
      simp [win, zpath, hi, BT.subPmf, this]

theorem sub_succ (hw : ∀ j, 0 < w j) (d : ℕ) (lo i : ℤ) :
    sub w (d + 1) lo i = Wt w d lo / (Wt w d lo + Wt w d (lo + 2 ^ d)) * sub w d lo i
      + Wt w d (lo + 2 ^ d) / (Wt w d lo + Wt w d (lo + 2 ^ d)) * sub w d (lo + 2 ^ d) i := by
  by_cases hi : i < lo + 2 ^ d
  · have h0 := sub_out w d (lo + 2 ^ d) i (Or.inl hi)
    rw [h0]
    simp [sub, Wt, win, zpath, hi, BT.subPmf]
  · have h0 := sub_out w d lo i (Or.inr (by omega))
    rw [h0]
    simp [sub, Wt, win, zpath, hi, BT.subPmf]

theorem Mn_out : ∀ (d : ℕ) (lo s i : ℤ), (i < lo ∨ lo + 2 ^ d ≤ i) → Mn w d lo s i = 0
  | 0, lo, s, i, h => by
    have hne : i ≠ lo := by
      rcases h with h | h
      · omega
      · rw [pow_zero] at h; omega
    by_cases hs : s = lo <;> simp [Mn, win, zpath, hne, hs, BT.mainPmf]
  | d + 1, lo, s, i, h => by
    have hp := two_pow_pos d
    have h2 : (2 : ℤ) ^ (d + 1) = 2 * 2 ^ d := by ring
    unfold Mn
    by_cases hi : i < lo + 2 ^ d
    · have h1 := Mn_out d lo s i (by omega)
      have h3 := sub_out w d lo i (by omega)
      unfold Mn at h1
      unfold sub at h3
      by_cases hs : s < lo + 2 ^ d <;> simp [win, zpath, hi, hs, BT.mainPmf, h1, h3]
    · have h1 := Mn_out d (lo + 2 ^ d) s i (by omega)
      have h3 := sub_out w d (lo + 2 ^ d) i (by omega)
      unfold Mn at h1
      unfold sub at h3
      by_cases hs : s < lo + 2 ^ d <;> simp [win, zpath, hi, hs, BT.mainPmf, h1, h3]

/-- one forward doubling seen from the start's half (= the left half). -/
theorem Mn_left (d : ℕ) (lo s i : ℤ) (hs : s < lo + 2 ^ d) :
    Mn w (d + 1) lo s i = (1 - min 1 (Wt w d (lo + 2 ^ d) / Wt w d lo)) * Mn w d lo s i
      + min 1 (Wt w d (lo + 2 ^ d) / Wt w d lo) * sub w d (lo + 2 ^ d) i := by
  by_cases hi : i < lo + 2 ^ d
  · rw [sub_out w d (lo + 2 ^ d) i (Or.inl hi)]
    simp [Mn, Wt, win, zpath, hi, hs, BT.mainPmf]
  · rw [Mn_out w d lo s i (Or.inr (by omega))]
    simp [Mn, sub, Wt, win, zpath, hi, hs, BT.mainPmf]

/-- one backward doubling seen from the start's half (= the right half). -/
theorem Mn_right (d : ℕ) (lo s i : ℤ) (hs : lo + 2 ^ d ≤ s) :
    Mn w (d + 1) lo s i = (1 - min 1 (Wt w d lo / Wt w d (lo + 2 ^ d))) * Mn w d (lo + 2 ^ d) s i
      + min 1 (Wt w d lo / Wt w d (lo + 2 ^ d)) * sub w d lo i := by
  have hs' : ¬ s < lo + 2 ^ d := by omega
  by_cases hi : i < lo + 2 ^ d
  · rw [Mn_out w d (lo + 2 ^ d) s i (Or.inl hi)]
    simp [Mn, sub, Wt, win, zpath, hi, hs', BT.mainPmf]
  · rw [sub_out w d lo i (Or.inr (by omega))]
    simp [Mn, Wt, win, zpath, hi, hs', BT.mainPmf]

theorem Mn_zero (lo i : ℤ) : Mn w 0 lo lo i = if i = lo then 1 else 0 := by
  by_cases h : i = lo <;> simp [Mn, win, zpath, h, BT.mainPmf]

theorem sub_zero (lo i : ℤ) : sub w 0 lo i = if i = lo then 1 else 0 := by
  by_cases h : i = lo <;> simp [sub, win, zpath, h, BT.subPmf]

theorem wAt_zpath : ∀ (d : ℕ) (lo j : ℤ), lo ≤ j → j < lo + 2 ^ d →
    (win w d lo).wAt (zpath d lo j) = w j
  | 0, lo, j, h1, h2 => by
    have : j = lo := by simp at h2; omega
    simp [win, zpath, this, BT.wAt]
  | d + 1, lo, j, h1, h2 => by
    have hp := two_pow_pos d
    have h3 : (2 : ℤ) ^ (d + 1) = 2 * 2 ^ d := by ring
    by_cases hj : j < lo + 2 ^ d
    · simp [win, zpath, hj, BT.wAt, wAt_zpath d lo j h1 hj]
    · simp [win, zpath, hj, BT.wAt, wAt_zpath d (lo + 2 ^ d) j (by omega) (by omega)]

/-- detailed balance inside one window, in integer coordinates. -/
theorem Mn_balance (hw : ∀ j, 0 < w j) (d : ℕ) (lo s i : ℤ)
    (hs1 : lo ≤ s) (hs2 : s < lo + 2 ^ d) (hi1 : lo ≤ i) (hi2 : i < lo + 2 ^ d) :
    w s * Mn w d lo s i = w i * Mn w d lo i s := by
  have := main_balance (win w d lo) (zpath d lo s) (zpath d lo i) (win_pos w hw d lo)
  rw [wAt_zpath w d lo s hs1 hs2, wAt_zpath w d lo i hi1 hi2] at this
  exact this

end Windows

/-! ## C. U-turn validity of windows, stopping weights, and the closed form `S` -/

section Validity
variable (crit : ℤ → ℤ → Bool)

/-- the three U-turn tests performed when the blocks `[lo, lo+2^d−1]` and `[lo+2^d, lo+2^(d+1)−1]`
    are merged (in either direction). -/
def turn3 (d : ℕ) (lo : ℤ) : Bool :=
  crit lo (lo + 2 ^ (d + 1) - 1) ||
    (decide (0 < d) && (crit (lo + 2 ^ d - 1) (lo + 2 ^ (d + 1) - 1) || crit lo (lo + 2 ^ d)))

/-- no U-turn anywhere inside the window `(d, lo)` -/
def valid : ℕ → ℤ → Bool
  | 0, _ => true
  | d + 1, lo => valid d lo && valid d (lo + 2 ^ d) && !turn3 crit d lo

/-- both halves of the window are valid -/
def okHalves : ℕ → ℤ → Bool
  | 0, _ => true
  | d + 1, lo => valid crit d lo && valid crit d (lo + 2 ^ d)

/-- the top-level U-turn test of the window -/
def turnTop : ℕ → ℤ → Bool
  | 0, _ => false
  | d + 1, lo => turn3 crit d lo

theorem valid_eq (d : ℕ) (lo : ℤ) :
    valid crit d lo = (okHalves crit d lo && !turnTop crit d lo) := by
  cases d <;> simp [valid, okHalves, turnTop]

/-- an invalid block invalidates every window that contains it as a dyadic sub-block. -/
theorem invalid_up (d : ℕ) (lo : ℤ) (h : valid crit d lo = false) :
    ∀ (k a : ℕ), a < 2 ^ k → valid crit (d + k) (lo - 2 ^ d * a) = false ∧
      (0 < k → okHalves crit (d + k) (lo - 2 ^ d * a) = false) := by
  intro k
  induction k with
  | zero =>
    intro a ha
    have : a = 0 := by simpa using ha
    subst this
    simp [h]
  | succ k ih =>
    intro a ha
    have hok : okHalves crit (d + k + 1) (lo - 2 ^ d * a) = false := by
      simp only [okHalves]
      by_cases hak : a < 2 ^ k
      · rw [(ih a hak).1]; rfl
      · obtain ⟨a', rfl⟩ := Nat.exists_eq_add_of_le (not_lt.mp hak)
        have ha' : a' < 2 ^ k := by rw [pow_succ] at ha; omega
        have e : lo - 2 ^ d * ((2 ^ k + a' : ℕ) : ℤ) + 2 ^ (d + k) = lo - 2 ^ d * (a' : ℤ) := by
          push_cast; ring
        rw [e, (ih a' ha').1, Bool.and_false]
    refine ⟨?_, fun _ => hok⟩
    show valid crit (d + k + 1) (lo - 2 ^ d * a) = false
    rw [valid_eq, hok]; rfl

variable (maxdepth : ℕ)

/-- probability of stopping *at* the valid window `(d, lo)`: maximal depth, or the chosen
    extension contains a U-turn. -/
noncomputable def stopB (d : ℕ) (lo : ℤ) : ℝ :=
  if d < maxdepth then
    (if valid crit d (lo + 2 ^ d) then 0 else 1 / 2) + (if valid crit d (lo - 2 ^ d) then 0 else 1 / 2)
  else 1

/-- conditional probability (given the direction word) that `(d, lo)` is the final window; it
    does not depend on the position of the start inside the window. -/
noncomputable def Q (d : ℕ) (lo : ℤ) : ℝ :=
  if okHalves crit d lo then (if turnTop crit d lo then 1 else stopB crit maxdepth d lo) else 0

variable (w : ℤ → ℝ) (s i : ℤ)

noncomputable def G (d : ℕ) (lo : ℤ) : ℝ := Q crit maxdepth d lo * Mn w d lo s i

/-- closed form of the law of the draw when the main tree covers `(d, lo)`, the draw is distributed
    as `Mn w d lo s ·`, and `fuel` doublings remain: a sum over direction words `a` of length `k`. -/
noncomputable def S (fuel d : ℕ) (lo : ℤ) : ℝ :=
  ∑ k ∈ Finset.range (fuel + 1), ∑ a ∈ Finset.range (2 ^ k),
    (1 / 2 : ℝ) ^ k * G crit maxdepth w s i (d + k) (lo - 2 ^ d * a)

theorem sum_range_double (n : ℕ) (f : ℕ → ℝ) :
    ∑ a ∈ Finset.range (2 * n), f a
      = ∑ a ∈ Finset.range n, f (2 * a) + ∑ a ∈ Finset.range n, f (2 * a + 1) := by
  induction n with
  | zero => simp
  | succ n ih =>
    rw [show 2 * (n + 1) = 2 * n + 1 + 1 by ring, Finset.sum_range_succ, Finset.sum_range_succ, ih,
      Finset.sum_range_succ, Finset.sum_range_succ]
    ring

theorem S_succ (fuel d : ℕ) (lo : ℤ) :
    S crit maxdepth w s i (fuel + 1) d lo = G crit maxdepth w s i d lo
      + 1 / 2 * S crit maxdepth w s i fuel (d + 1) lo
      + 1 / 2 * S crit maxdepth w s i fuel (d + 1) (lo - 2 ^ d) := by
  unfold S
  rw [Finset.sum_range_succ' _ (fuel + 1)]
  have h0 : ∑ a ∈ Finset.range (2 ^ 0), (1 / 2 : ℝ) ^ 0 * G crit maxdepth w s i (d + 0) (lo - 2 ^ d * (a : ℤ))
      = G crit maxdepth w s i d lo := by simp
  rw [h0, Finset.mul_sum, Finset.mul_sum, add_comm, add_assoc, ← Finset.sum_add_distrib]
  congr 1
  apply Finset.sum_congr rfl
  intro k _
  have hr : Finset.range (2 ^ (k + 1)) = Finset.range (2 * 2 ^ k) := by rw [pow_succ']
  rw [hr, sum_range_double, Finset.mul_sum, Finset.mul_sum]
  congr 1
  · apply Finset.sum_congr rfl
    intro a _
    rw [show d + (k + 1) = d + 1 + k by omega,
      show lo - 2 ^ d * ((2 * a : ℕ) : ℤ) = lo - 2 ^ (d + 1) * (a : ℤ) by push_cast; ring]
    ring
  · apply Finset.sum_congr rfl
    intro a _
    rw [show d + (k + 1) = d + 1 + k by omega,
      show lo - 2 ^ d * ((2 * a + 1 : ℕ) : ℤ) = lo - 2 ^ d - 2 ^ (d + 1) * (a : ℤ) by push_cast; ring]
    ring

theorem S_zero (d : ℕ) (lo : ℤ) : S crit maxdepth w s i 0 d lo = G crit maxdepth w s i d lo := by
  simp [S]

/-- above an invalid block only the block itself can be the final window. -/
theorem S_invalid (fuel d : ℕ) (lo : ℤ) (h : valid crit d lo = false) :
    S crit maxdepth w s i fuel d lo = G crit maxdepth w s i d lo := by
  unfold S
  rw [Finset.sum_range_succ' _ fuel]
  have h0 : ∑ a ∈ Finset.range (2 ^ 0), (1 / 2 : ℝ) ^ 0 * G crit maxdepth w s i (d + 0) (lo - 2 ^ d * (a : ℤ))
      = G crit maxdepth w s i d lo := by simp
  rw [h0]
  have : ∑ k ∈ Finset.range fuel, ∑ a ∈ Finset.range (2 ^ (k + 1)),
      (1 / 2 : ℝ) ^ (k + 1) * G crit maxdepth w s i (d + (k + 1)) (lo - 2 ^ d * (a : ℤ)) = 0 := by
    apply Finset.sum_eq_zero
    intro k _
    apply Finset.sum_eq_zero
    intro a ha
    have := (invalid_up crit d lo h (k + 1) a (Finset.mem_range.mp ha)).2 (Nat.succ_pos k)
    simp [G, Q, this]
  rw [this, zero_add]

/-- value of the forward / backward branch of one iteration of the loop -/
noncomputable def branchVal (fuel d : ℕ) (lo lo' H : ℤ) : ℝ :=
  if valid crit d H then
    (if turn3 crit d lo' then Mn w (d + 1) lo' s i else S crit maxdepth w s i fuel (d + 1) lo')
  else Mn w d lo s i

/-- **one iteration of the loop on the closed form.** -/
theorem S_step (fuel d : ℕ) (lo : ℤ) (hv : valid crit d lo = true) (hd : d < maxdepth) :
    S crit maxdepth w s i (fuel + 1) d lo
      = 1 / 2 * branchVal crit maxdepth w s i fuel d lo lo (lo + 2 ^ d)
        + 1 / 2 * branchVal crit maxdepth w s i fuel d lo (lo - 2 ^ d) (lo - 2 ^ d) := by
  rw [S_succ]
  have hv' := hv
  rw [valid_eq, Bool.and_eq_true, Bool.not_eq_true'] at hv'
  have hG : G crit maxdepth w s i d lo
      = ((if valid crit d (lo + 2 ^ d) then 0 else 1 / 2)
          + (if valid crit d (lo - 2 ^ d) then 0 else 1 / 2)) * Mn w d lo s i := by
    simp [G, Q, hv'.1, hv'.2, stopB, hd]
  have hF : (if valid crit d (lo + 2 ^ d) then (0 : ℝ) else 1 / 2) * Mn w d lo s i
      + 1 / 2 * S crit maxdepth w s i fuel (d + 1) lo
      = 1 / 2 * branchVal crit maxdepth w s i fuel d lo lo (lo + 2 ^ d) := by
    unfold branchVal
    cases hF : valid crit d (lo + 2 ^ d)
    · have hinv : valid crit (d + 1) lo = false := by simp [valid, hF]
      rw [S_invalid _ _ _ _ _ _ _ _ hinv]
      simp [G, Q, okHalves, hF]
    · cases ht : turn3 crit d lo
      · simp
      · have hinv : valid crit (d + 1) lo = false := by simp [valid, ht]
        rw [S_invalid _ _ _ _ _ _ _ _ hinv]
        simp [G, Q, okHalves, turnTop, hF, hv, ht]
  have hB : (if valid crit d (lo - 2 ^ d) then (0 : ℝ) else 1 / 2) * Mn w d lo s i
      + 1 / 2 * S crit maxdepth w s i fuel (d + 1) (lo - 2 ^ d)
      = 1 / 2 * branchVal crit maxdepth w s i fuel d lo (lo - 2 ^ d) (lo - 2 ^ d) := by
    unfold branchVal
    cases hF : valid crit d (lo - 2 ^ d)
    · have hinv : valid crit (d + 1) (lo - 2 ^ d) = false := by simp [valid, hF]
      rw [S_invalid _ _ _ _ _ _ _ _ hinv]
      simp [G, Q, okHalves, hF]
    · cases ht : turn3 crit d (lo - 2 ^ d)
      · simp
      · have hinv : valid crit (d + 1) (lo - 2 ^ d) = false := by simp [valid, ht]
        rw [S_invalid _ _ _ _ _ _ _ _ hinv]
        simp [G, Q, okHalves, turnTop, hF, hv, ht]
  rw [hG, ← hF, ← hB]
  ring

/-- at maximal depth the loop returns the current draw. -/
theorem S_max (d : ℕ) (lo : ℤ) (hv : valid crit d lo = true) (hd : ¬ d < maxdepth) :
    S crit maxdepth w s i 0 d lo = Mn w d lo s i := by
  have hv' := hv
  rw [valid_eq, Bool.and_eq_true, Bool.not_eq_true'] at hv'
  simp [S_zero, G, Q, hv'.1, hv'.2, stopB, hd]

end Validity

/-! ## D. analysis of the executable model -/

/-! ### unfolding of the `StateT (Log ℝ) (Rand ℝ)` do-blocks -/

/-- direction-dependent choice (`fwd ↦ a`, `bwd ↦ b`) -/
def dsel (dir : Dir) (a b : ℤ) : ℤ := match dir with | .fwd => a | .bwd => b

@[simp] theorem dsel_fwd (a b : ℤ) : dsel .fwd a b = a := rfl
@[simp] theorem dsel_bwd (a b : ℤ) : dsel .bwd a b = b := rfl

theorem singleStep_run (o : Orbit ℝ) (t : Model.Tree ℝ) (dir : Dir) (lg : Log ℝ)
    (h : o.leap = fun _ => .ok) :
    ∃ lg', (singleStep o t dir).run lg =
      Rand.pure (.ok ⟨dsel dir t.right t.left + dir.sign, dsel dir t.right t.left + dir.sign,
        dsel dir t.right t.left + dir.sign,
        -(o.energyErr (dsel dir t.right t.left + dir.sign)), 0, false⟩, lg') := by
  unfold singleStep
  simp only [bind, StateT.bind, StateT.run, pure, StateT.pure, emit, modify, modifyGet,
    MonadStateOf.modifyGet, StateT.modifyGet, h]
  cases dir <;> exact ⟨_, rfl⟩

/-- `turningChecks` is deterministic; its verdict is the disjunction of the three tests. -/
theorem turningChecks_run (o : Orbit ℝ) (self other : Model.Tree ℝ) (dir : Dir) (lg : Log ℝ) :
    ∃ lg', (turningChecks o self other dir true).run lg =
      Rand.pure ((o.crit (dsel dir self.left other.left) (dsel dir other.right self.right)
          || (decide (self.depth > 0) &&
                (o.crit self.right other.right || o.crit self.left other.left))), lg') := by
  unfold turningChecks
  simp only [bind, StateT.bind, StateT.run, pure, emit, modify, modifyGet, MonadStateOf.modifyGet]
  cases dir <;> simp only [dsel]
  · by_cases hd : self.depth > 0 <;> cases h0 : o.crit self.left other.right <;>
      cases h1 : o.crit self.right other.right <;> cases h2 : o.crit self.left other.left <;>
      simp only [hd, h0, h1, h2, if_true, if_false, Bool.not_true, Bool.not_false,
        Bool.false_eq_true] <;>
      exact ⟨_, rfl⟩
  · by_cases hd : self.depth > 0 <;> cases h0 : o.crit other.left self.right <;>
      cases h1 : o.crit self.right other.right <;> cases h2 : o.crit self.left other.left <;>
      simp only [hd, h0, h1, h2, if_true, if_false, Bool.not_true, Bool.not_false,
        Bool.false_eq_true] <;>
      exact ⟨_, rfl⟩

/-- continuation of a sub-tree merge: a U-turn discards the merged sub-tree. -/
def subMergeK : Bool × Log ℝ → Except Stop (Model.Tree ℝ) × Log ℝ →
    Rand ℝ (Except Stop (Model.Tree ℝ) × Log ℝ) :=
  fun p3 p4 => match p4.1 with
    | .error e => Rand.pure (.error e, p4.2)
    | .ok m => if p3.1 then Rand.pure (.error .turning, p4.2) else Rand.pure (.ok m, p4.2)

/-- what `buildOther (d+1)` does after the second half has been built -/
noncomputable def subCont2 (o : Orbit ℝ) (dir : Dir) (t : Model.Tree ℝ) :
    Except Stop (Model.Tree ℝ) × Log ℝ → Rand ℝ (Except Stop (Model.Tree ℝ) × Log ℝ) :=
  fun p2 => match p2.1 with
    | .error e => Rand.pure (.error e, p2.2)
    | .ok t' => ((turningChecks o t t' dir true).run p2.2).bind (fun p3 =>
        ((mergeInto t t' dir).run p3.2).bind (fun p4 => subMergeK p3 p4))

/-- what `buildOther (d+1)` does after the first half has been built -/
noncomputable def subCont1 (o : Orbit ℝ) (dir : Dir) (d : ℕ) :
    Except Stop (Model.Tree ℝ) × Log ℝ → Rand ℝ (Except Stop (Model.Tree ℝ) × Log ℝ) :=
  fun p => match p.1 with
    | .error e => Rand.pure (.error e, p.2)
    | .ok t => ((buildOther o true dir d t).run p.2).bind (subCont2 o dir t)

theorem buildOther_succ_run (o : Orbit ℝ) (dir : Dir) (d : ℕ) (seed : Model.Tree ℝ)
    (lg : Log ℝ) :
    (buildOther o true dir (d + 1) seed).run lg =
      ((buildOther o true dir d seed).run lg).bind (subCont1 o dir d) := by
  show Rand.bind _ _ = Rand.bind _ _
  refine congrArg (Rand.bind _) (funext fun p => ?_)
  obtain ⟨a, lg1⟩ := p
  cases a with
  | error e => rfl
  | ok t =>
    show Rand.bind _ _ = Rand.bind _ _
    refine congrArg (Rand.bind _) (funext fun p2 => ?_)
    obtain ⟨a2, lg2⟩ := p2
    cases a2 with
    | error e => rfl
    | ok t' =>
      show Rand.bind _ _ = Rand.bind _ _
      refine congrArg (Rand.bind _) (funext fun p3 => ?_)
      show Rand.bind _ _ = Rand.bind _ _
      refine congrArg (Rand.bind _) (funext fun p4 => ?_)
      obtain ⟨a4, lg4⟩ := p4
      obtain ⟨b3, lg3⟩ := p3
      cases a4 with
      | error e => rfl
      | ok m => cases b3 <;> rfl

/-- continuation of a main-tree merge in `extend` -/
def mainMergeK : Bool × Log ℝ → Except Stop (Model.Tree ℝ) × Log ℝ → Rand ℝ (Ext ℝ × Log ℝ) :=
  fun p3 p4 => match p4.1 with
    | .error (.panic m) => Rand.pure (.panic m, p4.2)
    | .error _ => Rand.pure (.panic "unreachable", p4.2)
    | .ok m => if p3.1 then Rand.pure (.turning m, p4.2) else Rand.pure (.ok m, p4.2)

/-- what `extend` does after the sibling has been built -/
noncomputable def extCont (o : Orbit ℝ) (dir : Dir) (t : Model.Tree ℝ) :
    Except Stop (Model.Tree ℝ) × Log ℝ → Rand ℝ (Ext ℝ × Log ℝ) :=
  fun p => match p.1 with
    | .error .turning => Rand.pure (.turning t, p.2)
    | .error (.diverging a b) => Rand.pure (.diverging t a b, p.2)
    | .error .err => Rand.pure (.err, p.2)
    | .error (.panic m) => Rand.pure (.panic m, p.2)
    | .ok t' => ((turningChecks o t t' dir true).run p.2).bind (fun p3 =>
        ((mergeInto t t' dir).run p3.2).bind (fun p4 => mainMergeK p3 p4))

theorem extend_run (o : Orbit ℝ) (dir : Dir) (t : Model.Tree ℝ) (lg : Log ℝ) :
    (extend o t dir true).run lg = ((buildOther o true dir t.depth t).run lg).bind (extCont o dir t) := by
  show Rand.bind _ _ = Rand.bind _ _
  refine congrArg (Rand.bind _) (funext fun p => ?_)
  obtain ⟨a, lg1⟩ := p
  cases a with
  | error e => cases e <;> rfl
  | ok t' =>
    show Rand.bind _ _ = Rand.bind _ _
    refine congrArg (Rand.bind _) (funext fun p3 => ?_)
    show Rand.bind _ _ = Rand.bind _ _
    refine congrArg (Rand.bind _) (funext fun p4 => ?_)
    obtain ⟨a4, lg4⟩ := p4
    obtain ⟨b3, lg3⟩ := p3
    cases a4 with
    | error e => cases e <;> rfl
    | ok m => cases b3 <;> rfl

theorem coin_run (lg : Log ℝ) :
    ∃ lg', (Model.coin (α := ℝ)).run lg = Rand.coin (fun c => Rand.pure (c, lg')) :=
  ⟨_, rfl⟩

theorem drawLoop_zero_run (o : Orbit ℝ) (opt : Options) (t : Model.Tree ℝ) (lg : Log ℝ) :
    (drawLoop o opt 0 t).run lg = Rand.pure (.ok { draw := t.draw, depth := t.depth, reachedMaxdepth := true, diverging := none }, lg) := rfl

theorem extraLoop_zero_run (o : Orbit ℝ) (dir : Dir) (t : Model.Tree ℝ) (lg : Log ℝ) :
    (extraLoop o dir 0 t).run lg = Rand.pure (.ok { draw := t.draw, depth := t.depth, reachedMaxdepth := false, diverging := none }, lg) := rfl

/-- what `drawLoop` does with the result of `extend` -/
noncomputable def loopCont (o : Orbit ℝ) (opt : Options) (fuel : ℕ) (dir : Dir) :
    Ext ℝ × Log ℝ → Rand ℝ (DrawOutcome × Log ℝ) :=
  fun pe => match pe.1 with
    | .ok t' => (drawLoop o opt fuel t').run pe.2
    | .turning t' => (extraLoop o dir opt.extraDoublings t').run pe.2
    | .diverging t' a b => Rand.pure (.ok { draw := t'.draw, depth := t'.depth, reachedMaxdepth := false, diverging := some (a, b) }, pe.2)
    | .err => Rand.pure (.err, pe.2)
    | .panic m => Rand.pure (.panic m, pe.2)

theorem drawLoop_succ_run (o : Orbit ℝ) (opt : Options) (fuel : ℕ) (t : Model.Tree ℝ) (lg : Log ℝ)
    (h : t.depth < opt.maxdepth) :
    (drawLoop o opt (fuel + 1) t).run lg =
      ((Model.coin (α := ℝ)).run lg).bind (fun pc =>
        ((extend o t (if pc.1 then Dir.fwd else Dir.bwd)
            (if t.depth < opt.mindepth then false else opt.checkTurning)).run pc.2).bind
          (loopCont o opt fuel (if pc.1 then Dir.fwd else Dir.bwd))) := by
  rw [drawLoop]
  simp only [h, not_true_eq_false, if_false]
  show Rand.bind _ _ = Rand.bind _ _
  refine congrArg (Rand.bind _) (funext fun pc => ?_)
  show Rand.bind _ _ = Rand.bind _ _
  refine congrArg (Rand.bind _) (funext fun pe => ?_)
  obtain ⟨a, lg1⟩ := pe
  cases a <;> rfl

/-! ### the orbit seen from start `s` -/

/-- the orbit as seen by a trajectory that starts at absolute index `s` (divergence-free). -/
noncomputable def shift (E : ℤ → ℝ) (crit : ℤ → ℤ → Bool) (s : ℤ) : Orbit ℝ :=
  { energyErr := fun j => E (s + j) - E s, leap := fun _ => .ok, crit := fun a b => crit (s + a) (s + b) }

/-- absolute leaf weights `exp(−E j)` -/
noncomputable def wE (E : ℤ → ℝ) : ℤ → ℝ := fun j => Real.exp (-(E j))

theorem wE_pos (E : ℤ → ℝ) (j : ℤ) : 0 < wE E j := Real.exp_pos _

section ModelAnalysis
variable (E : ℤ → ℝ) (crit : ℤ → ℤ → Bool) (s : ℤ)

/-- the model tree `t` covers exactly the window `(d, lo)` (absolute indices; the model works with
    indices relative to the start `s` and energies relative to `E s`). -/
structure Shape (t : Model.Tree ℝ) (main : Bool) (d : ℕ) (lo : ℤ) : Prop where
  left : s + t.left = lo
  right : s + t.right = lo + 2 ^ d - 1
  depth : t.depth = d
  isMain : t.isMain = main
  size : Real.exp t.logSize = Real.exp (E s) * Wt (wE E) d lo

theorem takeOther_prob_main {t t' : Model.Tree ℝ} {d : ℕ} {L1 L2 : ℤ} {m1 m2 : Bool}
    (ht : Shape E s t m1 d L1) (ht' : Shape E s t' m2 d L2) :
    prob (takeOtherRand t.logSize t'.logSize true) (fun b => b)
      = min 1 (Wt (wE E) d L2 / Wt (wE E) d L1) := by
  rw [takeOther_main, ht.size, ht'.size, mul_div_mul_left _ _ (Real.exp_pos _).ne']

theorem takeOther_prob_sub {t t' : Model.Tree ℝ} {d : ℕ} {L1 L2 : ℤ} {m1 m2 : Bool}
    (ht : Shape E s t m1 d L1) (ht' : Shape E s t' m2 d L2) :
    prob (takeOtherRand t.logSize t'.logSize false) (fun b => b)
      = Wt (wE E) d L2 / (Wt (wE E) d L1 + Wt (wE E) d L2) := by
  rw [takeOther_sub, ht.size, ht'.size, ← mul_add, mul_div_mul_left _ _ (Real.exp_pos _).ne']

/-- one merge (U-turn tests + `mergeInto`) of two adjacent blocks of depth `d` into the window
    `(d+1, lo)`, in either direction: the tests are `turn3 crit d lo`, the merge cannot panic, and
    the only randomness is `takeOtherRand`. -/
theorem merge_cont (hsymm : ∀ a b, crit a b = crit b a) (t t' : Model.Tree ℝ) (dir : Dir)
    (main : Bool) (d : ℕ) (lo : ℤ) (lg : Log ℝ)
    (ht : Shape E s t main d (dsel dir lo (lo + 2 ^ d)))
    (ht' : Shape E s t' false d (dsel dir (lo + 2 ^ d) lo))
    (hmain : main = true → lo ≤ s ∧ s < lo + 2 ^ (d + 1)) :
    ∃ (lg3 : Log ℝ) (g : Bool → Except Stop (Model.Tree ℝ) × Log ℝ),
      (∀ b, ∃ m, (g b).1 = .ok m ∧ Shape E s m main (d + 1) lo ∧
        m.draw = if b then t'.draw else t.draw) ∧
      ∀ {γ : Type} (K : Bool × Log ℝ → Except Stop (Model.Tree ℝ) × Log ℝ → Rand ℝ γ),
        ((turningChecks (shift E crit s) t t' dir true).run lg).bind (fun p3 =>
          ((mergeInto t t' dir).run p3.2).bind (fun p4 => K p3 p4))
        = (takeOtherRand t.logSize t'.logSize main).bind (fun b => K (turn3 crit d lo, lg3) (g b)) := by
  have hp := two_pow_pos d
  have h2 : (2 : ℤ) ^ (d + 1) = 2 * 2 ^ d := by ring
  obtain ⟨lg3, h3⟩ := turningChecks_run (shift E crit s) t t' dir lg
  have hd : t.depth = t'.depth := by rw [ht.depth, ht'.depth]
  have hlr : t.left ≤ t.right := by
    have := ht.left; have := ht.right; omega
  obtain ⟨g, hg, hgb⟩ := mergeInto_eq t t' dir lg3 hd hlr (by
    intro h
    have hm' := hmain (ht.isMain ▸ h)
    have a1 := ht.left; have a2 := ht.right; have a3 := ht'.left; have a4 := ht'.right
    cases dir <;> simp only [dsel_fwd, dsel_bwd] at a1 a2 a3 a4 ⊢ <;> omega)
  refine ⟨lg3, g, ?_, ?_⟩
  · intro b
    obtain ⟨m, hm1, hm2, hm3, hm4, hm5, hm6, hm7⟩ := hgb b
    refine ⟨m, hm1, ⟨?_, ?_, ?_, ?_, ?_⟩, hm2⟩
    · rw [hm6]; have a1 := ht.left; have a3 := ht'.left
      cases dir <;> simp only [dsel_fwd, dsel_bwd] at a1 a3 ⊢ <;> omega
    · rw [hm7]; have a2 := ht.right; have a4 := ht'.right
      cases dir <;> simp only [dsel_fwd, dsel_bwd] at a2 a4 ⊢ <;> omega
    · rw [hm4, ht.depth]
    · rw [hm5, ht.isMain]
    · rw [hm3, exp_logaddexp, ht.size, ht'.size, Wt_succ]
      cases dir <;> simp only [dsel_fwd, dsel_bwd] <;> ring
  · intro γ K
    have hv : ((shift E crit s).crit (dsel dir t.left t'.left) (dsel dir t'.right t.right)
        || (decide (t.depth > 0) && ((shift E crit s).crit t.right t'.right
              || (shift E crit s).crit t.left t'.left))) = turn3 crit d lo := by
      have a1 := ht.left; have a2 := ht.right; have a3 := ht'.left; have a4 := ht'.right
      simp only [shift, turn3, ht.depth]
      cases dir
      · simp only [dsel_fwd, dsel_bwd] at a1 a2 a3 a4 ⊢
        rw [a1, a2, a3, show s + t'.right = lo + 2 ^ (d + 1) - 1 by omega]
      · simp only [dsel_fwd, dsel_bwd] at a1 a2 a3 a4 ⊢
        rw [a1, a3, a4, show s + t.right = lo + 2 ^ (d + 1) - 1 by omega,
          hsymm (lo + 2 ^ (d + 1) - 1) (lo + 2 ^ d - 1), hsymm (lo + 2 ^ d) lo]
    rw [h3, hv]
    show ((mergeInto t t' dir).run lg3).bind _ = _
    rw [hg, ht.isMain, bind_assoc']
    rfl

/-- the draw of a built sub-tree is the absolute index `j` -/
def subDrawIs (s j : ℤ) : Except Stop (Model.Tree ℝ) × Log ℝ → Bool :=
  fun out => match out.1 with | .ok t => decide (s + t.draw = j) | _ => false

/-- merging the first half `t` (block `H1`) with the second half `t'` (block `H2`) inside
    `buildOther`. -/
theorem subMerge_spec (hsymm : ∀ a b, crit a b = crit b a) (dir : Dir) (d : ℕ) (lo H1 H2 : ℤ)
    (hH1 : H1 = dsel dir lo (lo + 2 ^ d)) (hH2 : H2 = dsel dir (lo + 2 ^ d) lo)
    (t t' : Model.Tree ℝ) (lg2 : Log ℝ)
    (ht : Shape E s t false d H1) (ht' : Shape E s t' false d H2) :
    All (subCont2 (shift E crit s) dir t (.ok t', lg2))
      (fun out => if turn3 crit d lo then out.1 = .error .turning
                  else ∃ m, out.1 = .ok m ∧ Shape E s m false (d + 1) lo)
    ∧ (turn3 crit d lo = false → ∀ j,
        prob (subCont2 (shift E crit s) dir t (.ok t', lg2)) (subDrawIs s j)
          = (1 - Wt (wE E) d H2 / (Wt (wE E) d H1 + Wt (wE E) d H2)) * (if s + t.draw = j then 1 else 0)
            + Wt (wE E) d H2 / (Wt (wE E) d H1 + Wt (wE E) d H2) * (if s + t'.draw = j then 1 else 0)) := by
  obtain ⟨lg3, g, hgb, hK⟩ := merge_cont E crit s hsymm t t' dir false d lo lg2
    (hH1 ▸ ht) (hH2 ▸ ht') (fun h => by cases h)
  have hrun : subCont2 (shift E crit s) dir t (.ok t', lg2)
      = (takeOtherRand t.logSize t'.logSize false).bind
          (fun b => subMergeK (turn3 crit d lo, lg3) (g b)) := hK subMergeK
  rw [hrun]
  constructor
  · refine All_bind (All_trivial _) (fun b _ => ?_)
    obtain ⟨m, hm1, hm2, hm3⟩ := hgb b
    unfold subMergeK
    rw [hm1]
    cases htt : turn3 crit d lo
    · exact ⟨m, rfl, hm2⟩
    · rfl
  · intro htt j
    rw [prob_bind_bool, takeOther_prob_sub E s ht ht']
    obtain ⟨m1, hm11, hm12, hm13⟩ := hgb true
    obtain ⟨m0, hm01, hm02, hm03⟩ := hgb false
    have e1 : prob (subMergeK (turn3 crit d lo, lg3) (g true)) (subDrawIs s j)
        = if s + t'.draw = j then 1 else 0 := by
      unfold subMergeK
      rw [hm11, htt]
      simp only [prob, subDrawIs, hm13, if_true, Bool.false_eq_true, if_false, decide_eq_true_eq]
    have e0 : prob (subMergeK (turn3 crit d lo, lg3) (g false)) (subDrawIs s j)
        = if s + t.draw = j then 1 else 0 := by
      unfold subMergeK
      rw [hm01, htt]
      simp only [prob, subDrawIs, hm03, if_true, Bool.false_eq_true, if_false, decide_eq_true_eq]
    rw [e1, e0]
    ring

/-- **sub-tree lemma.**  `buildOther` hanging off `seed`'s end builds exactly the adjacent block
    `(d, lo)`; it fails with `turning` iff the block contains a U-turn, and otherwise its draw is
    multinomial over the block. -/
theorem buildOther_spec (hsymm : ∀ a b, crit a b = crit b a) (dir : Dir) :
    ∀ (d : ℕ) (seed : Model.Tree ℝ) (lg : Log ℝ) (lo : ℤ),
    lo = dsel dir (s + seed.right + 1) (s + seed.left - 2 ^ d) →
    All ((buildOther (shift E crit s) true dir d seed).run lg)
      (fun out => if valid crit d lo then ∃ t, out.1 = .ok t ∧ Shape E s t false d lo
                  else out.1 = .error .turning)
    ∧ (valid crit d lo = true → ∀ j,
        prob ((buildOther (shift E crit s) true dir d seed).run lg) (subDrawIs s j)
          = sub (wE E) d lo j) := by
  intro d
  induction d with
  | zero =>
    intro seed lg lo hlo
    obtain ⟨lg', h⟩ := singleStep_run (shift E crit s) seed dir lg rfl
    have hdst : s + (dsel dir seed.right seed.left + dir.sign) = lo := by
      rw [hlo]; cases dir <;> simp only [Dir.sign, pow_zero, dsel_fwd, dsel_bwd] <;> ring
    show All ((singleStep (shift E crit s) seed dir).run lg) _ ∧
      (_ → ∀ j, prob ((singleStep (shift E crit s) seed dir).run lg) _ = _)
    rw [h]
    constructor
    · simp only [All, valid, if_true]
      refine ⟨_, rfl, ⟨hdst, ?_, rfl, rfl, ?_⟩⟩
      · simp only [pow_zero]; omega
      · show Real.exp (-(E (s + _) - E s)) = _
        rw [hdst]
        show _ = Real.exp (E s) * Real.exp (-(E lo))
        rw [← Real.exp_add]; congr 1; ring
    · intro _ j
      rw [sub_zero]
      simp only [prob, subDrawIs, hdst, decide_eq_true_eq]
      by_cases hj : j = lo
      · simp [hj]
      · have : ¬ lo = j := fun h => hj h.symm
        simp [hj, this]
  | succ d ih =>
    intro seed lg lo hlo
    have hp := two_pow_pos d
    have h2 : (2 : ℤ) ^ (d + 1) = 2 * 2 ^ d := by ring
    -- the block built first (adjacent to `seed`) and the block built second
    obtain ⟨H1, hH1⟩ : ∃ H1 : ℤ, H1 = dsel dir lo (lo + 2 ^ d) := ⟨_, rfl⟩
    obtain ⟨H2, hH2⟩ : ∃ H2 : ℤ, H2 = dsel dir (lo + 2 ^ d) lo := ⟨_, rfl⟩
    have hvalid : valid crit (d + 1) lo = (valid crit d H1 && valid crit d H2 && !turn3 crit d lo) := by
      rw [hH1, hH2]; cases dir <;> simp only [valid, dsel_fwd, dsel_bwd]
      rw [Bool.and_comm (valid crit d (lo + 2 ^ d))]
    have hseed1 : H1 = dsel dir (s + seed.right + 1) (s + seed.left - 2 ^ d) := by
      rw [hH1, hlo]; cases dir <;> simp only [dsel_fwd, dsel_bwd] <;> omega
    obtain ⟨ih1a, ih1p⟩ := ih seed lg H1 hseed1
    rw [buildOther_succ_run]
    -- analysis of the continuation after the first half `t`
    have hcont : ∀ (t : Model.Tree ℝ) (lg1 : Log ℝ), Shape E s t false d H1 →
        All (subCont1 (shift E crit s) dir d (.ok t, lg1))
          (fun out => if valid crit d H2 && !turn3 crit d lo
                  then ∃ t, out.1 = .ok t ∧ Shape E s t false (d + 1) lo
                  else out.1 = .error .turning)
        ∧ (valid crit d H2 = true → turn3 crit d lo = false → ∀ j,
            prob (subCont1 (shift E crit s) dir d (.ok t, lg1)) (subDrawIs s j)
            = (1 - Wt (wE E) d H2 / (Wt (wE E) d H1 + Wt (wE E) d H2)) * (if s + t.draw = j then 1 else 0)
              + Wt (wE E) d H2 / (Wt (wE E) d H1 + Wt (wE E) d H2) * sub (wE E) d H2 j) := by
      intro t lg1 ht
      have hseed2 : H2 = dsel dir (s + t.right + 1) (s + t.left - 2 ^ d) := by
        have a1 := ht.left; have a2 := ht.right
        rw [hH2]; rw [hH1] at a1 a2
        cases dir <;> simp only [dsel_fwd, dsel_bwd] at a1 a2 ⊢ <;> omega
      obtain ⟨ih2a, ih2p⟩ := ih t lg1 H2 hseed2
      show All (((buildOther (shift E crit s) true dir d t).run lg1).bind
            (subCont2 (shift E crit s) dir t)) _ ∧
        (_ → _ → ∀ j, prob (((buildOther (shift E crit s) true dir d t).run lg1).bind
            (subCont2 (shift E crit s) dir t)) _ = _)
      constructor
      · refine All_bind ih2a (fun p2 hp2 => ?_)
        obtain ⟨e2, lg2⟩ := p2
        cases hv2 : valid crit d H2
        · simp only [hv2, Bool.false_eq_true, if_false] at hp2
          subst hp2
          simp only [Bool.false_and, Bool.false_eq_true, if_false]
          rfl
        · simp only [hv2, if_true] at hp2
          obtain ⟨t', rfl, ht'⟩ := hp2
          have := (subMerge_spec E crit s hsymm dir d lo H1 H2 hH1 hH2 t t' lg2 ht ht').1
          refine All_mono this (fun out hout => ?_)
          cases htt : turn3 crit d lo <;> simp only [htt, Bool.true_and, Bool.not_true, Bool.not_false,
            Bool.false_eq_true, if_true, if_false] at hout ⊢ <;> exact hout
      · intro hv2 htt j
        rw [prob_bind_affine _ _ _ (subDrawIs s j)
          ((1 - Wt (wE E) d H2 / (Wt (wE E) d H1 + Wt (wE E) d H2)) * (if s + t.draw = j then 1 else 0))
          (Wt (wE E) d H2 / (Wt (wE E) d H1 + Wt (wE E) d H2)), ih2p hv2 j]
        refine All_mono ih2a (fun p2 hp2 => ?_)
        obtain ⟨e2, lg2⟩ := p2
        simp only [hv2, if_true] at hp2
        obtain ⟨t', rfl, ht'⟩ := hp2
        have := (subMerge_spec E crit s hsymm dir d lo H1 H2 hH1 hH2 t t' lg2 ht ht').2 htt j
        simp only [subDrawIs, decide_eq_true_eq] at this ⊢
        exact this
    constructor
    · refine All_bind ih1a (fun p hp => ?_)
      obtain ⟨e1, lg1⟩ := p
      rw [hvalid]
      cases hv1 : valid crit d H1
      · simp only [hv1, Bool.false_eq_true, if_false] at hp
        subst hp
        simp only [Bool.false_and, Bool.false_eq_true, if_false]
        rfl
      · simp only [hv1, if_true] at hp
        obtain ⟨t, rfl, ht⟩ := hp
        have := (hcont t lg1 ht).1
        simp only [Bool.true_and, Bool.and_eq_true] at this ⊢
        exact this
    · intro hv j
      rw [hvalid] at hv
      simp only [Bool.and_eq_true, Bool.not_eq_true'] at hv
      obtain ⟨⟨hv1, hv2⟩, htt⟩ := hv
      rw [prob_bind_affine _ _ _ (subDrawIs s j)
        (Wt (wE E) d H2 / (Wt (wE E) d H1 + Wt (wE E) d H2) * sub (wE E) d H2 j)
        (1 - Wt (wE E) d H2 / (Wt (wE E) d H1 + Wt (wE E) d H2)), ih1p hv1 j]
      · rw [sub_succ (wE E) (wE_pos E)]
        have hW1 := Wt_pos (wE E) (wE_pos E) d lo
        have hW2 := Wt_pos (wE E) (wE_pos E) d (lo + 2 ^ d)
        rw [hH1, hH2]
        cases dir <;> simp only [dsel_fwd, dsel_bwd] <;> field_simp <;> ring
      · refine All_mono ih1a (fun p hp => ?_)
        obtain ⟨e1, lg1⟩ := p
        simp only [hv1, if_true] at hp
        obtain ⟨t, rfl, ht⟩ := hp
        have := (hcont t lg1 ht).2 hv2 htt j
        simp only [subDrawIs, decide_eq_true_eq] at this ⊢
        rw [this]; ring

/-- the draw of the tree returned by `extend` is the absolute index `j` -/
def extDrawIs (s j : ℤ) : Ext ℝ × Log ℝ → Bool :=
  fun out => match out.1 with
    | .ok m => decide (s + m.draw = j)
    | .turning m => decide (s + m.draw = j)
    | _ => false

/-- **one doubling of the main tree.**  `lo'` is the merged window, `H` the new half. -/
theorem extend_spec (hsymm : ∀ a b, crit a b = crit b a) (dir : Dir) (d : ℕ) (lo lo' H : ℤ)
    (hlo' : lo' = dsel dir lo (lo - 2 ^ d)) (hH : H = dsel dir (lo + 2 ^ d) (lo - 2 ^ d))
    (t : Model.Tree ℝ) (lg : Log ℝ) (ht : Shape E s t true d lo) (hs1 : lo ≤ s) (hs2 : s < lo + 2 ^ d) :
    All ((extend (shift E crit s) t dir true).run lg)
      (fun out => if valid crit d H then
          ∃ m, Shape E s m true (d + 1) lo' ∧ out.1 = (if turn3 crit d lo' then .turning m else .ok m)
        else out.1 = .turning t)
    ∧ (valid crit d H = true → ∀ j,
        prob ((extend (shift E crit s) t dir true).run lg) (extDrawIs s j)
          = (1 - min 1 (Wt (wE E) d H / Wt (wE E) d lo)) * (if s + t.draw = j then 1 else 0)
            + min 1 (Wt (wE E) d H / Wt (wE E) d lo) * sub (wE E) d H j) := by
  have hp := two_pow_pos d
  have h2 : (2 : ℤ) ^ (d + 1) = 2 * 2 ^ d := by ring
  have hseed : H = dsel dir (s + t.right + 1) (s + t.left - 2 ^ d) := by
    have a1 := ht.left; have a2 := ht.right
    rw [hH]; cases dir <;> simp only [dsel_fwd, dsel_bwd] <;> omega
  have e1 : lo = dsel dir lo' (lo' + 2 ^ d) := by
    rw [hlo']; cases dir <;> simp only [dsel_fwd, dsel_bwd]; ring
  have e2 : H = dsel dir (lo' + 2 ^ d) lo' := by
    rw [hH, hlo']; cases dir <;> simp only [dsel_fwd, dsel_bwd]
  have hin : lo' ≤ s ∧ s < lo' + 2 ^ (d + 1) := by
    rw [hlo']; cases dir <;> simp only [dsel_fwd, dsel_bwd] <;> omega
  rw [extend_run, ht.depth]
  obtain ⟨iha, ihp⟩ := buildOther_spec E crit s hsymm dir d t lg H hseed
  -- the merge of `t` with any sibling `t'`
  have hmerge : ∀ (t' : Model.Tree ℝ) (lg2 : Log ℝ), Shape E s t' false d H →
      All (extCont (shift E crit s) dir t (.ok t', lg2))
        (fun out => ∃ m, Shape E s m true (d + 1) lo' ∧
          out.1 = (if turn3 crit d lo' then .turning m else .ok m))
      ∧ ∀ j, prob (extCont (shift E crit s) dir t (.ok t', lg2)) (extDrawIs s j)
          = (1 - min 1 (Wt (wE E) d H / Wt (wE E) d lo)) * (if s + t.draw = j then 1 else 0)
            + min 1 (Wt (wE E) d H / Wt (wE E) d lo) * (if s + t'.draw = j then 1 else 0) := by
    intro t' lg2 ht'
    obtain ⟨lg3, g, hgb, hK⟩ := merge_cont E crit s hsymm t t' dir true d lo' lg2
      (e1 ▸ ht) (e2 ▸ ht') (fun _ => hin)
    have hrun : extCont (shift E crit s) dir t (.ok t', lg2)
        = (takeOtherRand t.logSize t'.logSize true).bind
            (fun b => mainMergeK (turn3 crit d lo', lg3) (g b)) := hK mainMergeK
    rw [hrun]
    constructor
    · refine All_bind (All_trivial _) (fun b _ => ?_)
      obtain ⟨m, hm1, hm2, hm3⟩ := hgb b
      unfold mainMergeK
      rw [hm1]
      cases htt : turn3 crit d lo'
      · exact ⟨m, hm2, rfl⟩
      · exact ⟨m, hm2, rfl⟩
    · intro j
      rw [prob_bind_bool, takeOther_prob_main E s ht ht']
      obtain ⟨m1, hm11, hm12, hm13⟩ := hgb true
      obtain ⟨m0, hm01, hm02, hm03⟩ := hgb false
      have e1 : prob (mainMergeK (turn3 crit d lo', lg3) (g true)) (extDrawIs s j)
          = if s + t'.draw = j then 1 else 0 := by
        unfold mainMergeK
        rw [hm11]
        cases htt : turn3 crit d lo' <;>
          simp only [prob, extDrawIs, hm13, if_true, Bool.false_eq_true, if_false, decide_eq_true_eq]
      have e0 : prob (mainMergeK (turn3 crit d lo', lg3) (g false)) (extDrawIs s j)
          = if s + t.draw = j then 1 else 0 := by
        unfold mainMergeK
        rw [hm01]
        cases htt : turn3 crit d lo' <;>
          simp only [prob, extDrawIs, hm03, if_true, Bool.false_eq_true, if_false, decide_eq_true_eq]
      rw [e1, e0]
      ring
  constructor
  · refine All_bind iha (fun p hp => ?_)
    obtain ⟨e, lg1⟩ := p
    cases hv : valid crit d H
    · simp only [hv, Bool.false_eq_true, if_false] at hp
      subst hp
      simp only [Bool.false_eq_true, if_false]
      rfl
    · simp only [hv, if_true] at hp
      obtain ⟨t', rfl, ht'⟩ := hp
      simp only [if_true]
      exact (hmerge t' lg1 ht').1
  · intro hv j
    rw [prob_bind_affine _ _ _ (subDrawIs s j)
      ((1 - min 1 (Wt (wE E) d H / Wt (wE E) d lo)) * (if s + t.draw = j then 1 else 0))
      (min 1 (Wt (wE E) d H / Wt (wE E) d lo)), ihp hv j]
    refine All_mono iha (fun p hp => ?_)
    obtain ⟨e, lg1⟩ := p
    simp only [hv, if_true] at hp
    obtain ⟨t', rfl, ht'⟩ := hp
    have := (hmerge t' lg1 ht').2 j
    simp only [subDrawIs, decide_eq_true_eq] at this ⊢
    exact this

end ModelAnalysis


/-! ### the main loop -/

/-- default tree options -/
def opts (maxdepth : ℕ) : Options :=
  { maxdepth := maxdepth, mindepth := 0, checkTurning := true, extraDoublings := 0 }

/-- the final draw is the absolute index `i` -/
def finIs (s i : ℤ) : DrawOutcome × Log ℝ → Bool :=
  fun out => match out.1 with | .ok r => decide (r.draw = i - s) | _ => false

theorem fin_pure (s i x : ℤ) (dp : ℕ) (b : Bool) (dv : Option (ℤ × ℤ)) (lg : Log ℝ) :
    prob (Rand.pure (DrawOutcome.ok ⟨x, dp, b, dv⟩, lg)) (finIs s i)
      = if s + x = i then 1 else 0 := by
  simp only [prob, finIs, decide_eq_true_eq]
  by_cases h : s + x = i
  · have : x = i - s := by omega
    simp [h, this]
  · have : ¬ x = i - s := by omega
    simp [h, this]

section Loop
variable (E : ℤ → ℝ) (crit : ℤ → ℤ → Bool) (s : ℤ)

theorem Mn_step (dir : Dir) (d : ℕ) (lo lo' H i : ℤ)
    (hlo' : lo' = dsel dir lo (lo - 2 ^ d)) (hH : H = dsel dir (lo + 2 ^ d) (lo - 2 ^ d))
    (hs1 : lo ≤ s) (hs2 : s < lo + 2 ^ d) (w : ℤ → ℝ) :
    Mn w (d + 1) lo' s i = (1 - min 1 (Wt w d H / Wt w d lo)) * Mn w d lo s i
      + min 1 (Wt w d H / Wt w d lo) * sub w d H i := by
  subst hlo' hH
  cases dir
  · simp only [dsel_fwd]
    exact Mn_left w d lo s i hs2
  · simp only [dsel_bwd]
    have := Mn_right w d (lo - 2 ^ d) s i (by omega)
    rw [sub_add_cancel] at this
    exact this

/-- one branch (one direction) of one iteration of the loop. -/
theorem branch_spec (hsymm : ∀ a b, crit a b = crit b a) (maxdepth : ℕ) (i : ℤ) (fuel d : ℕ) (lo : ℤ)
    (hs1 : lo ≤ s) (hs2 : s < lo + 2 ^ d) (hv : valid crit d lo = true)
    (IH : ∀ lo' : ℤ, lo' ≤ s → s < lo' + 2 ^ (d + 1) → valid crit (d + 1) lo' = true →
      ∃ α β : ℝ, (∀ t lg, Shape E s t true (d + 1) lo' →
          prob ((drawLoop (shift E crit s) (opts maxdepth) fuel t).run lg) (finIs s i)
            = α + β * (if s + t.draw = i then 1 else 0)) ∧
        α + β * Mn (wE E) (d + 1) lo' s i = S crit maxdepth (wE E) s i fuel (d + 1) lo')
    (dir : Dir) (lo' H : ℤ)
    (hlo' : lo' = dsel dir lo (lo - 2 ^ d)) (hH : H = dsel dir (lo + 2 ^ d) (lo - 2 ^ d)) :
    ∃ α β : ℝ, (∀ t lg, Shape E s t true d lo →
        prob (((extend (shift E crit s) t dir true).run lg).bind
            (loopCont (shift E crit s) (opts maxdepth) fuel dir)) (finIs s i)
          = α + β * (if s + t.draw = i then 1 else 0)) ∧
      α + β * Mn (wE E) d lo s i = branchVal crit maxdepth (wE E) s i fuel d lo lo' H := by
  have hp := two_pow_pos d
  have h2 : (2 : ℤ) ^ (d + 1) = 2 * 2 ^ d := by ring
  have hin : lo' ≤ s ∧ s < lo' + 2 ^ (d + 1) := by
    rw [hlo']; cases dir <;> simp only [dsel_fwd, dsel_bwd] <;> omega
  cases hvH : valid crit d H
  · -- the new half contains a U-turn: the old tree's draw is returned
    refine ⟨0, 1, ?_, by simp [branchVal, hvH]⟩
    intro t lg ht
    obtain ⟨ha, _⟩ := extend_spec E crit s hsymm dir d lo lo' H hlo' hH t lg ht hs1 hs2
    rw [prob_bind_const _ _ _ (if s + t.draw = i then 1 else 0)]
    · ring
    · refine All_mono ha (fun p hp => ?_)
      obtain ⟨e, lg1⟩ := p
      simp only [hvH, Bool.false_eq_true, if_false] at hp
      subst hp
      exact fin_pure s i _ _ _ _ _
  · cases htt : turn3 crit d lo'
    · -- the doubling succeeds: continue with the merged tree
      have hv' : valid crit (d + 1) lo' = true := by
        subst hlo' hH
        cases dir <;> simp only [dsel_fwd, dsel_bwd] at hvH htt ⊢ <;>
          simp [valid, hv, hvH, htt]
      obtain ⟨α', β', hprob, hS⟩ := IH lo' hin.1 hin.2 hv'
      refine ⟨α' + β' * (min 1 (Wt (wE E) d H / Wt (wE E) d lo) * sub (wE E) d H i),
        β' * (1 - min 1 (Wt (wE E) d H / Wt (wE E) d lo)), ?_, ?_⟩
      · intro t lg ht
        obtain ⟨ha, hpb⟩ := extend_spec E crit s hsymm dir d lo lo' H hlo' hH t lg ht hs1 hs2
        rw [prob_bind_affine _ _ _ (extDrawIs s i) α' β', hpb hvH i]
        · ring
        · refine All_mono ha (fun p hp => ?_)
          obtain ⟨e, lg1⟩ := p
          simp only [hvH, htt, if_true, Bool.false_eq_true, if_false] at hp
          obtain ⟨m, hm, rfl⟩ := hp
          have := hprob m lg1 hm
          simp only [extDrawIs, decide_eq_true_eq]
          exact this
      · have := Mn_step s dir d lo lo' H i hlo' hH hs1 hs2 (wE E)
        simp only [branchVal, hvH, htt, if_true, Bool.false_eq_true, if_false]
        rw [← hS, this]; ring
    · -- the merged tree makes a U-turn at top level: its draw is returned
      refine ⟨min 1 (Wt (wE E) d H / Wt (wE E) d lo) * sub (wE E) d H i,
        1 - min 1 (Wt (wE E) d H / Wt (wE E) d lo), ?_, ?_⟩
      · intro t lg ht
        obtain ⟨ha, hpb⟩ := extend_spec E crit s hsymm dir d lo lo' H hlo' hH t lg ht hs1 hs2
        rw [prob_bind_affine _ _ _ (extDrawIs s i) 0 1, hpb hvH i]
        · ring
        · refine All_mono ha (fun p hp => ?_)
          obtain ⟨e, lg1⟩ := p
          simp only [hvH, htt, if_true] at hp
          obtain ⟨m, hm, rfl⟩ := hp
          simp only [extDrawIs, decide_eq_true_eq, zero_add, one_mul]
          exact fin_pure s i _ _ _ _ _
      · have := Mn_step s dir d lo lo' H i hlo' hH hs1 hs2 (wE E)
        simp only [branchVal, hvH, htt, if_true]
        rw [this]; ring

/-- **main-tree lemma.**  From a main tree covering the valid window `(d, lo)` with `fuel`
    doublings left, the final draw is `i` with probability `α + β·[current draw = i]`, and
    `α + β·Mn = S` (closed form). -/
theorem loop_spec (hsymm : ∀ a b, crit a b = crit b a) (maxdepth : ℕ) (i : ℤ) :
    ∀ (fuel d : ℕ) (lo : ℤ), d + fuel = maxdepth → lo ≤ s → s < lo + 2 ^ d →
      valid crit d lo = true →
      ∃ α β : ℝ, (∀ t lg, Shape E s t true d lo →
          prob ((drawLoop (shift E crit s) (opts maxdepth) fuel t).run lg) (finIs s i)
            = α + β * (if s + t.draw = i then 1 else 0)) ∧
        α + β * Mn (wE E) d lo s i = S crit maxdepth (wE E) s i fuel d lo := by
  intro fuel
  induction fuel with
  | zero =>
    intro d lo hd hs1 hs2 hv
    refine ⟨0, 1, ?_, ?_⟩
    · intro t lg ht
      rw [drawLoop_zero_run, fin_pure]; ring
    · rw [S_max crit maxdepth (wE E) s i d lo hv (by omega)]; ring
  | succ fuel ih =>
    intro d lo hd hs1 hs2 hv
    have hdm : d < maxdepth := by omega
    have IH := fun (lo' : ℤ) (h1 : lo' ≤ s) (h2 : s < lo' + 2 ^ (d + 1))
      (h3 : valid crit (d + 1) lo' = true) => ih (d + 1) lo' (by omega) h1 h2 h3
    obtain ⟨αF, βF, hF1, hF2⟩ := branch_spec E crit s hsymm maxdepth i fuel d lo hs1 hs2 hv IH
      Dir.fwd lo (lo + 2 ^ d) rfl rfl
    obtain ⟨αB, βB, hB1, hB2⟩ := branch_spec E crit s hsymm maxdepth i fuel d lo hs1 hs2 hv IH
      Dir.bwd (lo - 2 ^ d) (lo - 2 ^ d) rfl rfl
    refine ⟨(αF + αB) / 2, (βF + βB) / 2, ?_, ?_⟩
    · intro t lg ht
      have hdt : t.depth < (opts maxdepth).maxdepth := by rw [ht.depth]; exact hdm
      have hcheck : (if t.depth < (opts maxdepth).mindepth then false
          else (opts maxdepth).checkTurning) = true := by simp [opts]
      obtain ⟨lg', hc⟩ := coin_run lg
      rw [drawLoop_succ_run _ _ _ _ _ hdt, hc, hcheck]
      simp only [Rand.bind, prob, if_true, Bool.false_eq_true, if_false]
      rw [hF1 t lg' ht, hB1 t lg' ht]
      ring
    · rw [S_step crit maxdepth (wE E) s i fuel d lo hv hdm, ← hF2, ← hB2]; ring

end Loop

/-! ## E. detailed balance of the closed form -/

/-- re-indexing of the windows of length `n` containing `s` resp. `i`. -/
theorem sum_windows (n : ℕ) (s i : ℤ) (f g : ℤ → ℝ)
    (hf : ∀ lo, ¬ (lo ≤ i ∧ i < lo + n) → f lo = 0)
    (hg : ∀ lo, ¬ (lo ≤ s ∧ s < lo + n) → g lo = 0)
    (hfg : ∀ lo, lo ≤ s → s < lo + n → lo ≤ i → i < lo + n → f lo = g lo) :
    ∑ a ∈ Finset.range n, f (s - a) = ∑ b ∈ Finset.range n, g (i - b) := by
  refine Finset.sum_bij_ne_zero (s := Finset.range n) (t := Finset.range n)
    (f := fun a : ℕ => f (s - a)) (g := fun b : ℕ => g (i - b))
    (fun a _ _ => (i - s + a).toNat) ?_ ?_ ?_ ?_
  · intro a h1 h2
    have h3 : s - a ≤ i ∧ i < s - a + n := by_contra (fun h => h2 (hf _ h))
    rw [Finset.mem_range] at h1 ⊢
    omega
  · intro a1 h11 h12 a2 h21 h22 heq
    have h3 : s - a1 ≤ i ∧ i < s - a1 + n := by_contra (fun h => h12 (hf _ h))
    have h4 : s - a2 ≤ i ∧ i < s - a2 + n := by_contra (fun h => h22 (hf _ h))
    omega
  · intro b hb hgb
    have h3 : i - b ≤ s ∧ s < i - b + n := by_contra (fun h => hgb (hg _ h))
    rw [Finset.mem_range] at hb
    have e : s - ((s - i + b).toNat : ℤ) = i - b := by omega
    refine ⟨(s - i + b).toNat, ?_, ?_, ?_⟩
    · rw [Finset.mem_range]; omega
    · rw [e, hfg (i - b) h3.1 h3.2 (by omega) (by omega)]; exact hgb
    · omega
  · intro a h1 h2
    have h3 : s - a ≤ i ∧ i < s - a + n := by_contra (fun h => h2 (hf _ h))
    rw [Finset.mem_range] at h1
    have e : i - ((i - s + a).toNat : ℤ) = s - a := by omega
    show f (s - a) = g (i - ((i - s + a).toNat : ℤ))
    rw [e]
    exact hfg _ (by omega) (by omega) h3.1 h3.2

theorem S_balance (crit : ℤ → ℤ → Bool) (maxdepth : ℕ) (w : ℤ → ℝ) (hw : ∀ j, 0 < w j) (s i : ℤ) :
    w s * S crit maxdepth w s i maxdepth 0 s = w i * S crit maxdepth w i s maxdepth 0 i := by
  unfold S
  rw [Finset.mul_sum, Finset.mul_sum]
  apply Finset.sum_congr rfl
  intro k _
  rw [Finset.mul_sum, Finset.mul_sum]
  simp only [pow_zero, one_mul, zero_add, G]
  refine sum_windows (2 ^ k) s i
    (fun lo => w s * ((1 / 2 : ℝ) ^ k * (Q crit maxdepth k lo * Mn w k lo s i)))
    (fun lo => w i * ((1 / 2 : ℝ) ^ k * (Q crit maxdepth k lo * Mn w k lo i s))) ?_ ?_ ?_
  · intro lo h
    push_cast at h
    have : Mn w k lo s i = 0 := Mn_out w k lo s i (by omega)
    simp only [this, mul_zero]
  · intro lo h
    push_cast at h
    have : Mn w k lo i s = 0 := Mn_out w k lo i s (by omega)
    simp only [this, mul_zero]
  · intro lo h1 h2 h3 h4
    push_cast at h2 h4
    have := Mn_balance w hw k lo s i h1 h2 h3 h4
    linear_combination ((1 / 2 : ℝ) ^ k * Q crit maxdepth k lo) * this

/-! ## F. the theorem -/

/-- transition probability from absolute index `s` to absolute index `i` (default tree options). -/
noncomputable def K (E : ℤ → ℝ) (crit : ℤ → ℤ → Bool) (maxdepth : ℕ) (s i : ℤ) : ℝ :=
  prob ((draw (shift E crit s) { maxdepth := maxdepth, mindepth := 0, checkTurning := true, extraDoublings := 0 }).run {})
    (fun out => match out.1 with | .ok r => decide (r.draw = i - s) | _ => false)

/-- **refinement**: the transition probability of the executable model is the closed form `S`
    (a mixture over final windows of biased progressive sampling inside the window). -/
theorem K_eq_S (E : ℤ → ℝ) (crit : ℤ → ℤ → Bool) (hsymm : ∀ a b, crit a b = crit b a)
    (maxdepth : ℕ) (s i : ℤ) :
    K E crit maxdepth s i = S crit maxdepth (wE E) s i maxdepth 0 s := by
  obtain ⟨α, β, h1, h2⟩ := loop_spec E crit s hsymm maxdepth i maxdepth 0 s (by omega) le_rfl
    (by simp) rfl
  have hinit : Shape E s (Tree.init : Model.Tree ℝ) true 0 s := by
    refine ⟨by simp [Tree.init], by simp [Tree.init], rfl, rfl, ?_⟩
    show Real.exp ((0 : ℕ) : ℝ) = Real.exp (E s) * Real.exp (-(E s))
    rw [← Real.exp_add]; simp
  have := h1 Tree.init {} hinit
  show prob ((drawLoop (shift E crit s) (opts maxdepth) maxdepth Tree.init).run {}) (finIs s i) = _
  rw [this, ← h2, Mn_zero]
  have : (Tree.init : Model.Tree ℝ).draw = 0 := rfl
  rw [this]
  by_cases h : i = s
  · subst h; simp
  · have h' : ¬ s = i := fun e => h e.symm
    simp [h, h']

/-- **C01 on the executable model**: the NUTS transition of `Model/Tree.lean` satisfies detailed
    balance w.r.t. `exp(−E)` on every divergence-free orbit. -/
theorem nuts_detailed_balance (E : ℤ → ℝ) (crit : ℤ → ℤ → Bool) (hsymm : ∀ a b, crit a b = crit b a)
    (maxdepth : ℕ) (s i : ℤ) :
    Real.exp (-(E s)) * K E crit maxdepth s i = Real.exp (-(E i)) * K E crit maxdepth i s := by
  rw [K_eq_S E crit hsymm, K_eq_S E crit hsymm]
  exact S_balance crit maxdepth (wE E) (wE_pos E) s i

end NutsModel.C01

#print axioms NutsModel.C01.nuts_detailed_balance
