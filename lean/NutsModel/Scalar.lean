/-
Scalar abstraction shared by every numeric model.

All numeric models are written ONCE, polymorphic in the scalar `α`, over the *standard*
arithmetic/order classes plus the small class `Transc` below.  They are executed at
`α := Float` by the driver (bit-for-bit the arithmetic the Rust code performs for scalar
code paths) and reasoned about at `α := ℝ` in `NutsModel/Thm` (instances there).

This file imports nothing outside core, so that the driver links as a `lean_exe`.
-/

namespace NutsModel

/-- Transcendental / non-ring operations used by nuts-rs scalar code. -/
class Transc (α : Type) where
  exp   : α → α
  log   : α → α
  log1p : α → α
  sqrt  : α → α
  rpow  : α → α → α          -- f64::powf
  powi  : α → Nat → α        -- f64::powi with a non-negative exponent
  sin   : α → α
  cos   : α → α
  abs   : α → α
  round : α → α              -- f64::round (half away from zero)
  pi    : α
  toNat : α → Nat            -- Rust `x as u64` (saturating, NaN ↦ 0)
  isFinite : α → Bool

export Transc (exp log log1p sqrt rpow powi)

section
variable {α : Type} [LE α] [DecidableLE α]

/-- `f64::min`: the smaller operand; if exactly one operand is NaN, the other one.
    Over a linear order this is `min` (see `Thm/RealInst.lean`). -/
def fmin (a b : α) : α :=
  if a ≤ b then a else if b ≤ a then b else if a ≤ a then a else b

/-- `f64::max`. -/
def fmax (a b : α) : α :=
  if b ≤ a then a else if a ≤ b then b else if a ≤ a then a else b

/-- `f64::clamp(lo, hi)` (a NaN argument stays NaN) -/
def fclamp [LT α] [DecidableLT α] (x lo hi : α) : α :=
  let x := if x < lo then lo else x
  if x > hi then hi else x

/-- IEEE `==` on floats (`NaN` is unequal to everything, `+0 == -0`). -/
@[reducible] def feq (a b : α) : Prop := a ≤ b ∧ b ≤ a

instance (a b : α) : Decidable (feq a b) := by unfold feq; exact inferInstance
end

/-! ### `Float` instance (the one the driver runs) -/

@[extern "log1p"] opaque floatLog1p : Float → Float
@[extern "expm1"] opaque floatExpm1 : Float → Float

/-- compiler-rt's `__powidf2` (what `f64::powi` lowers to), non-negative exponent. -/
def floatPowi (a : Float) (b : Nat) : Float := Id.run do
  let mut r : Float := 1.0
  let mut a := a
  let mut b := b
  for _ in [0:64] do
    if b % 2 == 1 then r := r * a
    b := b / 2
    if b == 0 then break
    a := a * a
  return r

instance : NatCast Float := ⟨Float.ofNat⟩

instance : Transc Float where
  exp := Float.exp
  log := Float.log
  log1p := floatLog1p
  sqrt := Float.sqrt
  rpow := Float.pow
  powi := floatPowi
  sin := Float.sin
  cos := Float.cos
  abs := Float.abs
  round := Float.round
  pi := 3.14159265358979323846264338327950288
  toNat := fun x => x.toUInt64.toNat
  isFinite := Float.isFinite

/-! ### bit-exact transport of floats over the line protocol -/

def f2b (x : Float) : Nat := x.toBits.toNat
def b2f (n : Nat) : Float := Float.ofBits (UInt64.ofNat n)

end NutsModel
