/-! Interface objects for the translated `GlobalStrategy::adapt` (Gen/Adapt.lean).

`adapt` drives two sub-strategies.  They are abstracted exactly as in Model/Schedule.lean:
* the mass-matrix strategy (`MMI`) to the CONTENTS of its foreground / background estimators (sample ids, newest first);
  `adapt` reports a change iff the foreground estimator holds at least three samples;
* the step-size strategy (`SSI`) to the log of the calls it received, in order.
What the real calls cannot be read off from (`collector` verdict, id of the draw, outcome of the step-size search) is the oracle. -/
namespace NutsModel.Model

/-- outcome of `step_size.init` (the doubling/halving search) when it is re-run after the first mass-matrix change -/
inductive InitRes where
  | ok | badInitGrad | other
deriving DecidableEq, Repr

/-- `Result<(), NutsError>` of `adapt` -/
inductive Status where
  | ok | err
deriving DecidableEq, Repr

structure AdaptOracle where
  /-- `DrawGradCollector`: is this draw used by the estimators? -/
  isGood : Bool
  /-- ghost: the id under which the draw is stored (draw number + 2) -/
  sampleId : Nat
  initRes : InitRes := .ok
deriving Repr

inductive SSEvent where
  | update
  | updateStepsize (useBest : Bool)
  | estLate
  | estEarly
  | init (r : InitRes)
deriving DecidableEq, Repr

/-- step-size strategy: the calls it received, newest first -/
structure SSI where
  events : List SSEvent := []
deriving Repr

/-- `StepSizeStrategy::new`: no call received yet -/
def SSI.new : SSI := {}

def SSI.update (s : SSI) (_ : AdaptOracle) : SSI := { events := .update :: s.events }
def SSI.update_stepsize (s : SSI) (_ : AdaptOracle) (useBest : Bool) : SSI := { events := .updateStepsize useBest :: s.events }
def SSI.update_estimator_late (s : SSI) (_ : AdaptOracle) : SSI := { events := .estLate :: s.events }
def SSI.update_estimator_early (s : SSI) (_ : AdaptOracle) : SSI := { events := .estEarly :: s.events }
def SSI.init (s : SSI) (o : AdaptOracle) : InitRes × SSI := (o.initRes, { events := .init o.initRes :: s.events })

/-- mass-matrix strategy: estimator contents -/
structure MMI where
  fg : List Nat := [1]
  bg : List Nat := [1]
deriving Repr

/-- `A::new`: both estimators empty (`init` adds the start point to both afterwards) -/
def MMI.new : MMI := { fg := [], bg := [] }

def MMI.background_count (m : MMI) : Nat := m.bg.length
def MMI.update_estimators (m : MMI) (o : AdaptOracle) : MMI :=
  if o.isGood then { fg := o.sampleId :: m.fg, bg := o.sampleId :: m.bg } else m
def MMI.switch (m : MMI) (_ : AdaptOracle) : MMI := { fg := m.bg, bg := [] }
def MMI.adapt (m : MMI) (_ : AdaptOracle) : Bool × MMI := (decide (m.fg.length ≥ 3), m)

end NutsModel.Model
