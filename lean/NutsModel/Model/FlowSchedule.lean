/-
Hand-written model of the flow (external transformation) adaptation schedule
(`src/external_adapt_strategy.rs`: `ExternalTransformAdaptation::new`, `adapt`) and of what the chain
reports after it (`NutsChain::draw` / `MclmcChain::draw`: `Progress.tuning = strategy.is_tuning()` after `adapt`).
The calls into the step-size strategy and the Hamiltonian are abstract actions.
-/
namespace NutsModel.Model

inductive FlowAct where
  | updateParams                 -- `hamiltonian.update_params` (the user's flow is re-fitted; its id changes)
  | estimatorEarly               -- `step_size.update_estimator_early`
  | estimatorLate                -- `step_size.update_estimator_late`
  | updateStepsize (best : Bool) -- `step_size.update_stepsize(.., use_best_guess)`
  deriving DecidableEq, Repr

structure FlowSt where
  numTune : Nat
  finalWindow : Nat          -- `floor(num_tune * (1 - step_size_window))`
  freq : Nat                 -- `transform_update_freq`
  tuning : Bool := true
  deriving DecidableEq, Repr

/-- `draw.is_multiple_of(k)` (`0.is_multiple_of(0) = true`, `n.is_multiple_of(0) = false` otherwise) -/
def isMultipleOf (n k : Nat) : Bool := if k = 0 then n = 0 else n % k = 0

/-- does `adapt(draw)` re-fit the transformation? -/
def flowUpdates (s : FlowSt) (draw : Nat) : Bool :=
  draw < s.numTune && draw < s.finalWindow && 0 < draw &&
    (if draw < 100 then isMultipleOf draw 10 else isMultipleOf draw s.freq)

/-- `ExternalTransformAdaptation::adapt` (after `step_size.update(collector)`) -/
def flowAdapt (s : FlowSt) (draw : Nat) : FlowSt × List FlowAct :=
  if draw ≥ s.numTune then ({ s with tuning := false }, [.updateStepsize true])
  else if draw < s.finalWindow then
    (s, (if flowUpdates s draw then [FlowAct.updateParams] else []) ++ [.estimatorEarly, .updateStepsize false])
  else (s, [.estimatorLate, .updateStepsize (decide (draw = s.numTune - 1))])

/-- run draws `0 .. n-1`; per draw: (reported tuning flag, actions) -/
def flowRun (s : FlowSt) : Nat → Nat → List (Bool × List FlowAct)
  | _, 0 => []
  | d, n + 1 =>
    let (s', acts) := flowAdapt s d
    (s'.tuning, acts) :: flowRun s' (d + 1) n

end NutsModel.Model
