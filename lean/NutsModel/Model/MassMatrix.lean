/-
Hand-written per-coordinate model of the diagonal mass-matrix estimator and the transformation
update it performs (`src/transform/adapt/diagonal.rs`: `RunningVariance`, `Strategy`;
`src/transform/diagonal.rs`: `update_diag_draw_grad`, `update_diag_grad`; the element-wise kernels
of `src/math/cpu_math.rs`: `array_update_variance`, `array_update_var_inv_std_draw_grad`,
`array_update_var_inv_std_grad`).  Everything is coordinate-wise, so the model is a scalar one;
the driver runs one instance per coordinate.  Tied to the code by bit-exact replay of real
estimator runs (hook `EstimatorProbe`) including NaN / infinite / zero / huge windows.
-/
import NutsModel.Scalar

namespace NutsModel.Model
open NutsModel

variable {α : Type} [Add α] [Sub α] [Mul α] [Div α] [Neg α] [NatCast α] [OfScientific α]
  [LT α] [LE α] [DecidableLT α] [DecidableLE α] [Transc α]

/-- `RunningVariance`: running mean and the running sum `Σ (x_k - mean_{k-1})²` -/
structure RunVar (α : Type) where
  mean : α
  var : α
  count : Nat

def RunVar.new : RunVar α := { mean := ((0 : Nat) : α), var := ((0 : Nat) : α), count := 0 }

/-- `add_sample`: the first sample is copied into the mean; later ones go through `array_update_variance`
    with `diff_scale = 1 / count` -/
def RunVar.add (r : RunVar α) (x : α) : RunVar α :=
  let c := r.count + 1
  if c = 1 then { r with mean := x, count := c }
  else
    let diff := x - r.mean
    { mean := r.mean + diff * (((1 : Nat) : α) / ((c : Nat) : α)), var := r.var + diff * diff, count := c }

def RunVar.addAll (r : RunVar α) (xs : List α) : RunVar α := xs.foldl RunVar.add r

/-- one coordinate of a diagonal transformation -/
structure Scale (α : Type) where
  std : α
  invStd : α
  mean : α

/-- `array_update_var_inv_std_draw_grad` (one coordinate); `fill = none` keeps the previous value -/
def updDrawGrad (old : Scale α) (drawVar gradVar : α) (fill : Option α) (lo hi : α) : α × α :=
  let val := Transc.sqrt (drawVar / gradVar)
  if (!Transc.isFinite val) || decide (feq val ((0 : Nat) : α)) then
    match fill with
    | some f => (Transc.sqrt f, Transc.sqrt (((1 : Nat) : α) / f))
    | none => (old.std, old.invStd)
  else
    let v := fclamp val lo hi
    (Transc.sqrt v, Transc.sqrt (((1 : Nat) : α) / v))

/-- `DiagMassMatrix::update_diag_draw_grad` (one coordinate): scale from the variances,
    `mean = std² · grad_mean + draw_mean` -/
def updateDrawGrad (old : Scale α) (drawMean gradMean drawVar gradVar : α) (fill : Option α) (lo hi : α) : Scale α :=
  let (s, i) := updDrawGrad old drawVar gradVar fill lo hi
  { std := s, invStd := i, mean := (s * s) * gradMean + drawMean }

/-- `array_update_var_inv_std_grad` + `update_diag_grad` (one coordinate): initial scale from the gradient at the start point -/
def updateGrad (pos grad fill lo hi : α) : Scale α :=
  let v0 := ((1 : Nat) : α) / fclamp (Transc.abs grad) lo hi
  let v := if Transc.isFinite v0 then v0 else fill
  let s := Transc.sqrt v
  { std := s, invStd := Transc.sqrt (((1 : Nat) : α) / v), mean := (s * s) * grad + pos }

/-- the estimator of one coordinate: foreground and background running variances of draws and gradients -/
structure DiagEst (α : Type) where
  draw : RunVar α
  grad : RunVar α
  drawBg : RunVar α
  gradBg : RunVar α

def DiagEst.new : DiagEst α := { draw := RunVar.new, grad := RunVar.new, drawBg := RunVar.new, gradBg := RunVar.new }

/-- `update_estimators` for a good draw (rejected ones are not added) -/
def DiagEst.add (e : DiagEst α) (x g : α) : DiagEst α :=
  { draw := e.draw.add x, grad := e.grad.add g, drawBg := e.drawBg.add x, gradBg := e.gradBg.add g }

/-- `switch`: the background estimators become the foreground ones -/
def DiagEst.switch (e : DiagEst α) : DiagEst α :=
  { draw := e.drawBg, grad := e.gradBg, drawBg := RunVar.new, gradBg := RunVar.new }

def lowerLimit : α := (OfScientific.ofScientific 1 true 20 : α)
def upperLimit : α := (OfScientific.ofScientific 100000000000000000000 false 0 : α)

/-- `adapt`: nothing below three samples, else `update_diag_draw_grad` with `fill_invalid = None`, clamp `[1e-20, 1e20]` -/
def DiagEst.adapt (e : DiagEst α) (old : Scale α) : Option (Scale α) :=
  if e.draw.count < 3 then none
  else some (updateDrawGrad old e.draw.mean e.grad.mean e.draw.var e.grad.var none lowerLimit upperLimit)

/-- `init`: the start point is the first sample of all four estimators; scale from its gradient (fill 1) -/
def DiagEst.init (e : DiagEst α) (pos grad : α) : DiagEst α × Scale α :=
  (e.add pos grad, updateGrad pos grad ((1 : Nat) : α) lowerLimit upperLimit)

end NutsModel.Model
