/-
Momentum refresh at the start of every trajectory
(`src/dynamics/transformed_hamiltonian.rs`: `initialize_trajectory`; `src/math/cpu_math.rs`:
`array_gaussian`).  `z` is the vector of standard-normal variates drawn for THIS trajectory;
`array_gaussian(rng, dest, stds)` writes `stds[i] * z[i]`; the Hamiltonian passes `stds = ones`.
The function has no other argument: nothing of an earlier trajectory can enter the velocity.
-/
import NutsModel.Scalar

namespace NutsModel.Model
open NutsModel

variable {α : Type} [Add α] [Mul α] [Div α] [NatCast α]

/-- `array_gaussian`: `dest[i] = stds[i] * z[i]` -/
def arrayGaussian {n : Nat} (stds z : Fin n → α) : Fin n → α := fun i => stds i * z i

/-- `initialize_trajectory(resample_velocity = true)` for the Euclidean / ExactNormal kinetic energy:
    velocity from `array_gaussian(ones)`, kinetic energy `½ Σ vᵢ²` -/
def initVelocity {n : Nat} (z : Fin n → α) : Fin n → α := arrayGaussian (fun _ => ((1 : Nat) : α)) z

end NutsModel.Model
