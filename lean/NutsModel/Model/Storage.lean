/-
Hand-written models of the in-memory storage backends for ONE variable of ONE chain
(`storage/hashmap.rs`, `storage/arrow.rs`, `storage/ndarray.rs`; the Zarr backends are in
`Model/ZarrStore.lean`).  A recorded value is a list of cells (scalars have one cell); cells are
opaque (`γ`).  `none` = the statistic is absent on that draw.

The abstract specification of what was recorded is the list of `SRec` itself; each backend is a
small state machine (`init`, `record`, `finalize`) and the theorems in `Thm/C14.lean` state that its
finalised output is the obvious function of the recorded list.
-/
namespace NutsModel.Model

structure SRec (γ : Type) where
  tuning : Bool
  val : Option (List γ)

/-! ### HashMap backend: two growing vectors, concatenated at finalize -/
structure HmSt (γ : Type) where
  warm : List γ
  samp : List γ

def HmSt.init {γ : Type} : HmSt γ := { warm := [], samp := [] }

/-- `push_param(name, value, info.tuning)` — only called when the value is present -/
def HmSt.record {γ : Type} (s : HmSt γ) (r : SRec γ) : HmSt γ :=
  match r.val with
  | none => s
  | some v => if r.tuning then { s with warm := s.warm ++ v } else { s with samp := s.samp ++ v }

/-- `finalize`: warmup values followed by sampling values -/
def HmSt.finalize {γ : Type} (s : HmSt γ) : List γ := s.warm ++ s.samp

/-! ### Arrow backend: one builder per column, a row per stored draw, null when absent -/
structure ArSt (γ : Type) where
  rows : List (Option (List γ))
  drawCount : Nat

def ArSt.init {γ : Type} : ArSt γ := { rows := [], drawCount := 0 }

def ArSt.record {γ : Type} (storeWarmup : Bool) (s : ArSt γ) (r : SRec γ) : ArSt γ :=
  if !storeWarmup && r.tuning then s
  else { rows := s.rows ++ [r.val], drawCount := s.drawCount + 1 }

def ArSt.finalize {γ : Type} (s : ArSt γ) : List (Option (List γ)) := s.rows

/-! ### ndarray backend: a pre-allocated array indexed by the draw counter -/
structure NdSt (γ : Type) where
  cells : List (List γ)        -- one entry per draw slot
  currentDraw : Nat

def NdSt.init {γ : Type} (total : Nat) (default : List γ) : NdSt γ :=
  { cells := List.replicate total default, currentDraw := 0 }

def NdSt.record {γ : Type} (s : NdSt γ) (r : SRec γ) : NdSt γ :=
  match r.val with
  | none => { s with currentDraw := s.currentDraw + 1 }
  | some v => { cells := s.cells.set s.currentDraw v, currentDraw := s.currentDraw + 1 }

def NdSt.finalize {γ : Type} (s : NdSt γ) : List (List γ) := s.cells

/-! ### specification functions -/
def specWarm {γ : Type} (rs : List (SRec γ)) : List γ :=
  (rs.filter (·.tuning)).flatMap (fun r => r.val.getD [])
def specSamp {γ : Type} (rs : List (SRec γ)) : List γ :=
  (rs.filter (fun r => !r.tuning)).flatMap (fun r => r.val.getD [])

end NutsModel.Model
