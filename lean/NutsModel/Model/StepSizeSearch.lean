/-
Hand-written model of the initial step-size search `stepsize::adapt::Strategy::init`
(src/stepsize/adapt.rs).  Tied to the code by correspondence: the harness runs the real
`Strategy::init` against a mock Hamiltonian whose one-step acceptance is scripted and the
driver replays the same script here.

`acc fwd ε` is the one-step acceptance statistic of a single leapfrog with step size `ε` in
direction `fwd` from the (fixed) start state, or `none` when that leapfrog is not `Ok`
(divergence or error).
-/
import NutsModel.Scalar

namespace NutsModel.Model
open NutsModel

variable {α : Type} [Add α] [Sub α] [Mul α] [Div α] [Neg α] [NatCast α] [OfScientific α]
  [LT α] [LE α] [DecidableLT α] [DecidableLE α] [Transc α]

inductive SearchExit where
  | firstFailed      -- the very first trial leapfrog was not Ok: nothing changed
  | trialFailed      -- a later trial was not Ok: step size reset to `initial_step`
  | bracket          -- stopped because the acceptance crossed the target
  | cap              -- stopped because the step size left [1e-10, 1e5]
  | fuel             -- 100 iterations without crossing: step size reset to `initial_step`
  deriving DecidableEq, Repr

structure SearchResult (α : Type) where
  exit : SearchExit
  /-- step size left in the Hamiltonian -/
  step : α
  /-- `some ε` when the adaptation state was re-created with initial step `ε` -/
  reinit : Option α
  /-- number of completed loop iterations that doubled / halved -/
  moves : Nat
  forward : Bool

/-- the `for _ in 0..100` loop; `fuel` is the number of iterations left. -/
def searchLoop (acc : Bool → α → Option α) (init target : α) (fwd : Bool) :
    Nat → α → Nat → SearchResult α
  | 0, _, moves => { exit := .fuel, step := init, reinit := none, moves := moves, forward := fwd }
  | fuel + 1, eps, moves =>
    match acc fwd eps with
    | none => { exit := .trialFailed, step := init, reinit := none, moves := moves, forward := fwd }
    | some a =>
      if fwd then
        if a ≤ target then
          { exit := .bracket, step := eps, reinit := some eps, moves := moves, forward := fwd }
        else if eps > (((100000 : Nat) : α)) then
          { exit := .cap, step := eps, reinit := some eps, moves := moves, forward := fwd }
        else searchLoop acc init target fwd fuel (eps * (((2 : Nat) : α))) (moves + 1)
      else
        if a ≥ target then
          { exit := .bracket, step := eps, reinit := some eps, moves := moves, forward := fwd }
        else if eps < (OfScientific.ofScientific 1 true 10 : α) then
          { exit := .cap, step := eps, reinit := some eps, moves := moves, forward := fwd }
        else searchLoop acc init target fwd fuel (eps / (((2 : Nat) : α))) (moves + 1)

/-- `Strategy::init` for an adaptive method (dual averaging / Adam). -/
def search (acc : Bool → α → Option α) (init target : α) : SearchResult α :=
  match acc true init with
  | none => { exit := .firstFailed, step := init, reinit := none, moves := 0, forward := true }
  | some a0 =>
    let fwd : Bool := decide (a0 > target)
    searchLoop acc init target fwd 100 init 0

end NutsModel.Model
