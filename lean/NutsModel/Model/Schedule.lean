/-
Hand-written model of the warmup schedule `GlobalStrategy::adapt` (src/adapt_strategy.rs) together
with the window bookkeeping of the two mass-matrix estimators (`transform/adapt/diagonal.rs`: two
pairs of running variances; `transform/adapt/low_rank.rs`: a deque with `background_split`).

The estimators are abstracted to their *contents*: the list of sample ids they hold (id 1 = the
initial point added by `init`, id d+2 = the draw with number d).  Everything numeric (the variances,
the step sizes) is outside this model; what is modelled is WHICH calls happen at WHICH draw.

Tied to the code by correspondence: after every draw of real chains the hook accessors
`verif_counters` / `verif_step_size_state` are compared with this model (driver `sched` records).
-/
import NutsModel.Scalar

namespace NutsModel.Model

structure SchedParams where
  numTune : Nat
  earlyEnd : Nat
  finalWindow : Nat
  earlySwitchFreq : Nat
  updateFreq : Nat
  /-- `max (c+1) (round (c * growth))` -/
  nextWindow : Nat → Nat

inductive StepEst where
  | early | late | none
  deriving DecidableEq, Repr, Inhabited

/-- what `adapt` did at one draw -/
structure SchedAction where
  sampleAdded : Bool := false
  switched : Bool := false
  adaptCalled : Bool := false
  didChange : Bool := false
  est : StepEst := .none
  /-- `step_size.init` (the doubling/halving search) was re-run -/
  reinit : Bool := false
  /-- argument of `update_stepsize` when it was called -/
  useBest : Option Bool := none
  deriving Repr, Inhabited

structure SchedState where
  tuning : Bool := true
  hasInitial : Bool := true
  lastUpdate : Nat := 0
  curWindow : Nat
  /-- foreground / background estimator contents (sample ids, newest first) -/
  fg : List Nat := [1]
  bg : List Nat := [1]
  -- ghost fields (not in the Rust code): sample ids (draw number + 2) of the last two switches, 0 = none yet
  lastSwitch : Nat := 0
  prevSwitch : Nat := 0
  deriving Repr

def SchedState.init (switchFreq : Nat) : SchedState := { curWindow := switchFreq }

/-- one call of `GlobalStrategy::adapt(draw, collector)`; `isGood` is the collector's verdict on
    the draw.  Written in single-assignment form (every Rust mutation is a fresh `let`), in the
    order of the Rust statements.  `mass_matrix_adapt.adapt` reports a change iff the foreground
    estimator holds at least 3 samples (both estimators). -/
def schedStep (p : SchedParams) (s : SchedState) (draw : Nat) (isGood : Bool) : SchedState × SchedAction :=
  if draw ≥ p.numTune then
    ({ s with tuning := false }, { useBest := some true })
  else if draw < p.finalWindow then
    let isEarly := decide (draw < p.earlyEnd)
    -- seeding of the main-phase window at the early→main transition
    let cur := if !isEarly && draw == p.earlyEnd then Nat.max s.curWindow s.bg.length else s.curWindow
    let switchFreq := if isEarly then p.earlySwitchFreq else cur
    -- update_estimators
    let fg1 := if isGood then (draw + 2) :: s.fg else s.fg
    let bg1 := if isGood then (draw + 2) :: s.bg else s.bg
    let couldSwitch := decide (bg1.length ≥ switchFreq)
    let nextWindow := if isEarly then p.earlySwitchFreq else p.nextWindow cur
    let isLate := decide (nextWindow + draw > p.finalWindow)
    let doSwitch := couldSwitch && !isLate
    -- switch
    let fg2 := if doSwitch then bg1 else fg1
    let bg2 := if doSwitch then [] else bg1
    let cur2 := if doSwitch && !isEarly then nextWindow else cur
    let adaptCalled := doSwitch || decide (draw - s.lastUpdate ≥ p.updateFreq)
    let didChange := adaptCalled && decide (fg2.length ≥ 3)
    let reinit := didChange && s.hasInitial
    ({ tuning := s.tuning, hasInitial := s.hasInitial && !reinit,
       lastUpdate := if didChange then draw else s.lastUpdate, curWindow := cur2, fg := fg2, bg := bg2,
       lastSwitch := if doSwitch then draw + 2 else s.lastSwitch,
       prevSwitch := if doSwitch then s.lastSwitch else s.prevSwitch },
     { sampleAdded := isGood, switched := doSwitch, adaptCalled := adaptCalled, didChange := didChange,
       est := if isLate then .late else .early, reinit := reinit,
       useBest := if reinit then none else some false })
  else
    (s, { est := .late, useBest := some (decide (draw = p.numTune - 1)) })

/-- run the schedule over draws `start, start+1, …` with the given good/bad history -/
def schedRun (p : SchedParams) : SchedState → Nat → List Bool → SchedState × List SchedAction
  | s, _, [] => (s, [])
  | s, d, g :: gs =>
    let (s', a) := schedStep p s d g
    let (s'', as) := schedRun p s' (d + 1) gs
    (s'', a :: as)

/-- `DrawGradCollector::register_draw`: is the draw used by the estimators? -/
def isGoodDraw (diverging : Bool) (idx : Int) : Bool :=
  if diverging then decide (idx.natAbs > 4) else decide (idx ≠ 0)

section
variable {α : Type} [Add α] [Sub α] [Mul α] [Div α] [Neg α] [NatCast α] [OfScientific α]
  [LT α] [LE α] [DecidableLT α] [DecidableLE α] [Transc α]

/-- `GlobalStrategy::new`: the two window boundaries derived by `f64 → u64` casts, or the panic
    site when one of the two `assert!`s fails. -/
def schedNew (numTune : Nat) (earlyWindow stepSizeWindow growth : α) : Except String (Nat × Nat) :=
  let stepWin := Transc.toNat (stepSizeWindow * (numTune : α))
  let earlyEnd := Transc.toNat (earlyWindow * (numTune : α))
  let finalWindow := numTune - stepWin
  if ¬ (numTune = 0 ∨ earlyEnd < numTune) then .error "assert!(early_end < num_tune)"
  else if ¬ (growth ≥ ((1 : Nat) : α)) then .error "assert!(mass_matrix_window_growth >= 1.0)"
  else .ok (earlyEnd, finalWindow)

/-- `next_window_size` of the main phase -/
def nextWindowOf (growth : α) (c : Nat) : Nat :=
  Nat.max (c + 1) (Transc.toNat (Transc.round ((c : α) * growth)))
end

end NutsModel.Model
