/-! C13 — the initialisation retry loop of a chain task (`ChainProcess::start`, src/sampler.rs):

```
let mut error = None;
for _ in 0..500 {
    model.init_position(..)?;
    if let Err(err) = sampler.set_position(&initval) {
        if err is NutsError::LogpFailure { return Err(err) }      // unrecoverable: ends the chain
        error = Some(err); continue;                               // bad start point: try another one
    }
    error = None; break;
}
if let Some(error) = error { return Err("All initialization points failed") }
```
Each attempt is abstracted to its outcome. -/
namespace NutsModel.Model

inductive Attempt where
  | ok      -- set_position succeeded
  | bad     -- recoverable density error / invalid start point (BadInitGrad): another point may help
  | fatal   -- unrecoverable density error (LogpFailure)
deriving DecidableEq, Repr

inductive InitResult where
  | started (attempt : Nat)   -- the chain starts sampling from attempt number `attempt`
  | fatal (attempt : Nat)     -- Err("Unrecoverable error during initialization")
  | allFailed                 -- Err("All initialization points failed")
  | noAttempt                 -- loop bound 0: nothing tried, `error` still None (not reachable with the bound 500)
deriving DecidableEq, Repr

/-- the loop with `fuel` iterations left, at attempt `idx`, `error` = "the remembered error is Some" -/
def initLoop (a : Nat → Attempt) : (fuel idx : Nat) → (error : Bool) → InitResult
  | 0, _, error => if error then .allFailed else .noAttempt
  | fuel + 1, idx, _ =>
    match a idx with
    | .ok => .started idx
    | .fatal => .fatal idx
    | .bad => initLoop a fuel (idx + 1) true

/-- the loop bound of the code -/
def maxInitAttempts : Nat := 500

def chainInit (a : Nat → Attempt) : InitResult := initLoop a maxInitAttempts 0 false

/-- outcome stream of the harness scenarios: `nbad` rejected points, then `last` for ever -/
def scenario (nbad : Nat) (last : Attempt) : Nat → Attempt := fun k => if k < nbad then .bad else last

end NutsModel.Model
