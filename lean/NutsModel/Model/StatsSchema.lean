/-
Model of `#[derive(Storable)]` (nuts-derive/src/lib.rs): the field list of a stats struct and the
functions the macro generates from it (`names`, `item_type`, `dims`, `event_dim`, order of
`get_all`).  The per-struct field lists themselves are GENERATED from the Rust sources
(`Gen/Schema.lean`).
-/
namespace NutsModel.Model

inductive Ty where
  | u64 | i64 | f64 | f32 | bool | string
  deriving DecidableEq, Repr, Inhabited

/-- a field the macro handles itself (`StorableField::Basic`) -/
structure Basic where
  name : String
  ty : Ty
  isVec : Bool
  isOption : Bool
  dims : List String
  event : Option String
  deriving DecidableEq, Repr, Inhabited

inductive Field where
  | basic (b : Basic)
  /-- delegated to another Storable struct (`flatten`, or a non-basic field type) -/
  | inner (struct : String) (isOption : Bool)
  /-- delegated to a generic parameter with a `Storable` bound -/
  | param (name : String) (isOption : Bool)
  deriving Repr, Inhabited

structure StructSchema where
  name : String
  rustName : String
  params : List String
  fields : List Field
  deriving Repr, Inhabited

/-- a type expression: a struct applied to arguments for its Storable parameters, or the unit type `()` -/
inductive TyExpr where
  | app (struct : String) (args : List TyExpr)
  | unit
  deriving Repr, Inhabited

/-- The flat list of leaves in the order in which `names` / `get_all` of the derived impl visit
    them (depth-first, field order).  `fuel` bounds the nesting depth.  `none` = unknown struct,
    arity mismatch, or an optional delegated field (whose `get_all` can skip names). -/
def flatten (env : List StructSchema) : Nat → TyExpr → Option (List Basic)
  | 0, _ => none
  | _, .unit => some []
  | fuel + 1, .app sname args =>
    match env.find? (fun s => s.name == sname) with
    | none => none
    | some s =>
      if s.params.length != args.length then none else
      let bind := s.params.zip args
      s.fields.foldl (fun acc f =>
        match acc with
        | none => none
        | some xs =>
          match f with
          | .basic b => some (xs ++ [b])
          | .inner st opt => if opt then none else (flatten env fuel (.app st [])).map (xs ++ ·)
          | .param p opt =>
            if opt then none else
            match bind.find? (fun q => q.1 == p) with
            | none => none
            | some (_, te) => (flatten env fuel te).map (xs ++ ·)) (some [])

/-- `item_type` / `dims` / `event_dim` of the derived impl: a `match` on the name whose arms are
    tried in field order -- the FIRST field with that name answers. -/
def lookup (flat : List Basic) (name : String) : Option Basic := flat.find? (fun b => b.name == name)

def names (flat : List Basic) : List String := flat.map (·.name)

end NutsModel.Model
