/-
Model of the vector kernels of `src/math/util.rs` / `src/math/cpu_math.rs` (pulp `WithSimd`
implementations): the slice of length `n` is split, for SIMD lane width `L`, into
  * `nv = n / L` full vectors, grouped into `nb = nv / 4` blocks of the 4x-unrolled main loop
    (accumulators 0..3) and `nt = nv % 4` vectors of the SIMD tail (accumulator 0),
  * `ns = n % L` elements of the scalar tail.
`simdSum` is the reduction exactly as the code performs it (four accumulators, lanes, tails);
the elementwise kernels apply one formula per index in each of the three regions.
-/
import NutsModel.Scalar

namespace NutsModel.Model

section
variable {α : Type} [Add α]

/-- `acc + f 0 + f 1 + … + f (k-1)` (left fold, the order of a sequential loop) -/
def sumFrom (acc : α) (k : Nat) (f : Nat → α) : α :=
  (List.range k).foldl (fun a i => a + f i) acc

/-- the reduction pattern of `scalar_prods2/3`, `vector_dot`: four accumulators over the body,
    accumulator 0 over the SIMD tail, lane reduction `(s0+s1)+(s2+s3)`, then the scalar tail. -/
def simdSum (zero : α) (L n : Nat) (term : Nat → α) : α :=
  let nv := n / L
  let nb := nv / 4
  let nt := nv % 4
  let ns := n % L
  let acc (j lane : Nat) : α := sumFrom zero nb (fun b => term ((4 * b + j) * L + lane))
  let acc0 (lane : Nat) : α := sumFrom (acc 0 lane) nt (fun t => term ((4 * nb + t) * L + lane))
  let lanes : α := sumFrom zero L (fun lane => (acc0 lane + acc 1 lane) + (acc 2 lane + acc 3 lane))
  sumFrom lanes ns (fun i => term (nv * L + i))
end

/-- which part of the split handles index `i` -/
inductive Region where
  | body (block j lane : Nat)
  | simdTail (t lane : Nat)
  | scalarTail (k : Nat)
  deriving Repr, DecidableEq

def regionOf (L n i : Nat) : Region :=
  let nv := n / L
  let nb := nv / 4
  if i < 4 * nb * L then .body (i / (4 * L)) (i / L % 4) (i % L)
  else if i < nv * L then .simdTail (i / L - 4 * nb) (i % L)
  else .scalarTail (i - nv * L)

def Region.index (L n : Nat) : Region → Nat
  | .body b j lane => (4 * b + j) * L + lane
  | .simdTail t lane => (4 * (n / L / 4) + t) * L + lane
  | .scalarTail k => n / L * L + k

end NutsModel.Model
