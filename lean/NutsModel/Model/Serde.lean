/-
Model of serde's derived `Serialize` / `Deserialize` (externally tagged, no attributes) on the
settings types, with serde_json as the format.

* `STy`    — type descriptors; those of the settings structs/enums are GENERATED from the Rust
             sources (`Gen/Settings.lean`).
* `SVal`   — values; floats are atoms (their IEEE bit pattern) — "serde_json round-trips a finite
             f64" is an assumption recorded in the trusted base, non-finite floats are excluded.
* `toJson` / `fromJson` — what `serde_json::to_value` / `from_value` do for derived impls:
  struct ↦ object keyed by field name (unknown keys ignored, key order irrelevant),
  `Option` ↦ `null` / the value, unit variant ↦ `"Name"`, newtype variant ↦ `{"Name": payload}`.
-/
namespace NutsModel.Model

mutual
  inductive STy where
    | f64 | u64 | bool
    | opt (t : STy)
    | struct (fields : SFields)
    | enum (variants : SVariants)
  inductive SFields where
    | nil
    | cons (name : String) (t : STy) (rest : SFields)
  inductive SVariants where
    | nil
    | unit (name : String) (rest : SVariants)
    | newtype (name : String) (t : STy) (rest : SVariants)
end

mutual
  inductive SVal where
    | f64 (bits : Nat)
    | u64 (n : Nat)
    | bool (b : Bool)
    | none
    | some (v : SVal)
    | struct (fields : SFVals)
    | unitVariant (name : String)
    | newtypeVariant (name : String) (v : SVal)
  inductive SFVals where
    | nil
    | cons (name : String) (v : SVal) (rest : SFVals)
end

mutual
  inductive Json where
    | null
    | bool (b : Bool)
    | float (bits : Nat)
    | nat (n : Nat)
    | str (s : String)
    | obj (members : JMembers)
  inductive JMembers where
    | nil
    | cons (key : String) (v : Json) (rest : JMembers)
end

mutual
  def toJson : SVal → Json
    | .f64 b => .float b
    | .u64 n => .nat n
    | .bool b => .bool b
    | .none => .null
    | .some v => toJson v
    | .struct fs => .obj (fieldsToJson fs)
    | .unitVariant n => .str n
    | .newtypeVariant n v => .obj (.cons n (toJson v) .nil)
  def fieldsToJson : SFVals → JMembers
    | .nil => .nil
    | .cons n v rest => .cons n (toJson v) (fieldsToJson rest)
end

def JMembers.get? : JMembers → String → Option Json
  | .nil, _ => none
  | .cons k v rest, key => if k == key then some v else rest.get? key

mutual
  def fromJson : STy → Json → Option SVal
    | .f64, .float b => some (.f64 b)
    | .f64, .nat n => some (.f64 n)     -- integers are accepted for floats; never produced by toJson for a float
    | .u64, .nat n => some (.u64 n)
    | .bool, .bool b => some (.bool b)
    | .opt _, .null => some .none
    | .opt t, j => (fromJson t j).map .some
    | .struct fs, .obj ms => (fieldsFromJson fs ms).map .struct
    | .enum vs, .str s => unitFromJson vs s
    | .enum vs, .obj (.cons k v .nil) => newtypeFromJson vs k v
    | _, _ => none
  def fieldsFromJson : SFields → JMembers → Option SFVals
    | .nil, _ => some .nil
    | .cons n t rest, ms =>
      match ms.get? n with
      | none => none                     -- missing field (no `#[serde(default)]` anywhere)
      | some j =>
        match fromJson t j, fieldsFromJson rest ms with
        | some v, some vs => some (.cons n v vs)
        | _, _ => none
  def unitFromJson : SVariants → String → Option SVal
    | .nil, _ => none
    | .unit n rest, s => if n == s then some (.unitVariant n) else unitFromJson rest s
    | .newtype _ _ rest, s => unitFromJson rest s
  def newtypeFromJson : SVariants → String → Json → Option SVal
    | .nil, _, _ => none
    | .unit _ rest, k, j => newtypeFromJson rest k j
    | .newtype n t rest, k, j => if n == k then (fromJson t j).map (.newtypeVariant n) else newtypeFromJson rest k j
end

/-- field / variant names of a descriptor -/
def SFields.names : SFields → List String
  | .nil => []
  | .cons n _ rest => n :: rest.names
def SVariants.names : SVariants → List String
  | .nil => []
  | .unit n rest => n :: rest.names
  | .newtype n _ rest => n :: rest.names

end NutsModel.Model
