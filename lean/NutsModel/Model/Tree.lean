/-
Hand-written model of `src/nuts.rs` (the NUTS tree builder), mirroring the Rust control flow:
`NutsTree::{new, single_step, extend, merge_into}` and `draw`.

The Hamiltonian is abstract: the trajectory lives on an ℤ-indexed orbit (index 0 = start),
observed only through
  * `energyErr i`  — `point.energy_error()` of the state at index `i`  (energy − initial energy),
  * `leap i`       — outcome of the leapfrog that arrives at index `i`,
  * `crit a b`     — `Hamiltonian::is_turning(state_a, state_b)`.
Tied to the code by correspondence: the harness runs the real `nuts::draw` against a mock
Hamiltonian whose orbit is scripted, with a scripted RNG; the driver replays the same orbit and
tape here and compares every Hamiltonian call (in order) and the result.
-/
import NutsModel.Model.Rand
import NutsModel.Gen.Numeric

namespace NutsModel.Model
open NutsModel

variable {α : Type} [Add α] [Sub α] [Mul α] [Div α] [Neg α] [NatCast α] [OfScientific α]
  [LT α] [LE α] [DecidableLT α] [DecidableLE α] [Transc α]

inductive Dir where
  | fwd | bwd
  deriving DecidableEq, Repr

def Dir.sign : Dir → Int
  | .fwd => 1
  | .bwd => -1

inductive LeapOutcome where
  | ok | diverge | err
  deriving DecidableEq, Repr

/-- what the tree builder sees of the Hamiltonian -/
structure Orbit (α : Type) where
  energyErr : Int → α
  leap : Int → LeapOutcome
  crit : Int → Int → Bool

/-- Hamiltonian calls performed, in order (compared with the implementation's log). -/
inductive Ev where
  | leap (src dst : Int)
  | turn (a b : Int)
  deriving DecidableEq, Repr, Inhabited

structure Tree (α : Type) where
  left : Int
  right : Int
  draw : Int
  logSize : α
  depth : Nat
  isMain : Bool

/-- why an extension did not return `Ok` -/
inductive Stop where
  | turning
  | diverging (src dst : Int)
  | err
  | panic (site : String)
  deriving DecidableEq, Repr

/-- observation log of a run (all lists reversed): Hamiltonian calls, one entry per
    `merge_into` (depth after the merge, is_main, index of the tree's draw, log_size), and one
    entry per RNG request (`none` = direction coin, `some p` = `random_bool(p)`). -/
structure Log (α : Type) where
  evs : List Ev := []
  merges : List (Nat × Bool × Int × α) := []
  rng : List (Option α) := []

abbrev M (α : Type) := StateT (Log α) (Rand α)

def emit (e : Ev) : M α Unit := modify (fun l => { l with evs := e :: l.evs })

def liftRand {β : Type} (r : Rand α β) : M α β := fun s => Rand.bind r (fun b => Rand.pure (b, s))

def coin : M α Bool := do
  modify (fun l => { l with rng := none :: l.rng })
  liftRand (Rand.coin Rand.pure)
def bern (p : α) : M α Bool := do
  modify (fun l => { l with rng := some p :: l.rng })
  liftRand (Rand.bern p Rand.pure)

/-- `NutsTree::new` -/
def Tree.init : Tree α := { left := 0, right := 0, draw := 0, logSize := ((0 : Nat) : α), depth := 0, isMain := true }

/-- `single_step`: one leapfrog from the tree's end in direction `dir`. -/
def singleStep (o : Orbit α) (t : Tree α) (dir : Dir) : M α (Except Stop (Tree α)) := do
  let src := match dir with | .fwd => t.right | .bwd => t.left
  let dst := src + dir.sign
  emit (.leap src dst)
  match o.leap dst with
  | .diverge => return .error (.diverging src dst)
  | .err => return .error .err
  | .ok =>
    return .ok { left := dst, right := dst, draw := dst, logSize := -(o.energyErr dst), depth := 0, isMain := false }

/-- `merge_into` (the three `assert!`s are explicit panic outcomes). -/
def mergeInto (self other : Tree α) (dir : Dir) : M α (Except Stop (Tree α)) := do
  if self.depth ≠ other.depth then return .error (.panic "merge_into: depth")
  if ¬ (self.left ≤ self.right) then return .error (.panic "merge_into: left <= right")
  let (l, r) := match dir with
    | .fwd => (self.left, other.right)
    | .bwd => (other.left, self.right)
  let logSize := Gen.logaddexp self.logSize other.logSize
  if self.isMain ∧ ¬ (l ≤ 0 ∧ r ≥ 0) then return .error (.panic "merge_into: main tree contains 0")
  let selfLogSize := if self.isMain then self.logSize else logSize
  let takeOther ←
    if other.logSize ≥ selfLogSize then pure true
    else bern (Transc.exp (other.logSize - selfLogSize))
  let m : Tree α := { left := l, right := r, draw := if takeOther then other.draw else self.draw,
                      logSize := logSize, depth := self.depth + 1, isMain := self.isMain }
  modify (fun lg => { lg with merges := (m.depth, m.isMain, m.draw, m.logSize) :: lg.merges })
  return .ok m

/-- the U-turn tests of `extend` between `self` and the freshly built `other`. -/
def turningChecks (o : Orbit α) (self other : Tree α) (dir : Dir) (check : Bool) : M α Bool := do
  if !check then return false
  let (first, last) := match dir with
    | .fwd => (self.left, other.right)
    | .bwd => (other.left, self.right)
  emit (.turn first last)
  let mut turning := o.crit first last
  if self.depth > 0 then
    if !turning then
      emit (.turn self.right other.right)
      turning := o.crit self.right other.right
    if !turning then
      emit (.turn self.left other.left)
      turning := o.crit self.left other.left
  return turning

/-- result of `extend` -/
inductive Ext (α : Type) where
  | ok (t : Tree α)
  | turning (t : Tree α)
  | diverging (t : Tree α) (src dst : Int)
  | err
  | panic (site : String)

/-- Build the sibling `other` of depth `d` hanging off `seed`'s end — the
    `single_step` + `while other.depth < self.depth { other = other.extend(..) }` part of
    `extend`, as structural recursion on the depth: a depth-`d+1` sibling is a depth-`d` sibling
    extended by another depth-`d` sibling.  Any stop inside discards the whole sibling. -/
def buildOther (o : Orbit α) (check : Bool) (dir : Dir) : Nat → Tree α → M α (Except Stop (Tree α))
  | 0, seed => singleStep o seed dir
  | d + 1, seed => do
    match ← buildOther o check dir d seed with
    | .error s => return .error s
    | .ok t =>
      -- `t.extend(..)`: sibling of `t`, U-turn tests, merge
      match ← buildOther o check dir d t with
      | .error s => return .error s
      | .ok t' =>
        let turning ← turningChecks o t t' dir check
        match ← mergeInto t t' dir with
        | .error s => return .error s
        | .ok m => if turning then return .error .turning else return .ok m

/-- `NutsTree::extend` -/
def extend (o : Orbit α) (self : Tree α) (dir : Dir) (check : Bool) : M α (Ext α) := do
  match ← buildOther o check dir self.depth self with
  | .error .turning => return .turning self
  | .error (.diverging s d) => return .diverging self s d
  | .error .err => return .err
  | .error (.panic s) => return .panic s
  | .ok other =>
    let turning ← turningChecks o self other dir check
    match ← mergeInto self other dir with
    | .error (.panic s) => return .panic s
    | .error _ => return .panic "unreachable"
    | .ok m => if turning then return .turning m else return .ok m

structure Options where
  maxdepth : Nat
  mindepth : Nat
  checkTurning : Bool
  extraDoublings : Nat

structure DrawResult where
  draw : Int
  depth : Nat
  reachedMaxdepth : Bool
  diverging : Option (Int × Int)
  deriving DecidableEq, Repr

inductive DrawOutcome where
  | ok (r : DrawResult)
  | err
  | panic (site : String)
  deriving DecidableEq, Repr

/-- the `for _ in 0..options.extra_doublings` loop after a U-turn -/
def extraLoop (o : Orbit α) (dir : Dir) : Nat → Tree α → M α DrawOutcome
  | 0, t => return .ok { draw := t.draw, depth := t.depth, reachedMaxdepth := false, diverging := none }
  | n + 1, t => do
    match ← extend o t dir false with
    | .ok t' => extraLoop o dir n t'
    | .turning t' => extraLoop o dir n t'
    | .diverging t' s d => return .ok { draw := t'.draw, depth := t'.depth, reachedMaxdepth := false, diverging := some (s, d) }
    | .err => return .err
    | .panic s => return .panic s

/-- the `while tree.depth < maxdepth` loop of `draw`; `fuel` bounds the iterations (each `Ok`
    iteration raises the depth by one, so `maxdepth` iterations suffice). -/
def drawLoop (o : Orbit α) (opt : Options) : Nat → Tree α → M α DrawOutcome
  | 0, t => return .ok { draw := t.draw, depth := t.depth, reachedMaxdepth := true, diverging := none }
  | fuel + 1, t => do
    if ¬ (t.depth < opt.maxdepth) then
      return .ok { draw := t.draw, depth := t.depth, reachedMaxdepth := true, diverging := none }
    let c ← coin
    let dir := if c then Dir.fwd else Dir.bwd
    let check := if t.depth < opt.mindepth then false else opt.checkTurning
    match ← extend o t dir check with
    | .ok t' => drawLoop o opt fuel t'
    | .turning t' => extraLoop o dir opt.extraDoublings t'
    | .diverging t' s d => return .ok { draw := t'.draw, depth := t'.depth, reachedMaxdepth := false, diverging := some (s, d) }
    | .err => return .err
    | .panic s => return .panic s

/-- `nuts::draw` after `initialize_trajectory` (for `dim > 0`). -/
def draw (o : Orbit α) (opt : Options) : M α DrawOutcome :=
  drawLoop o opt opt.maxdepth Tree.init

end NutsModel.Model
