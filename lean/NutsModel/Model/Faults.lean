/-
Hand-written model of how one misbehaving density evaluation is classified by the code that
performed it (`src/dynamics/transformed_hamiltonian.rs`: `leapfrog`, `init_state`,
`init_state_untransformed`; `src/stepsize/adapt.rs`: `Strategy::init`; `src/chain.rs`:
`set_position`, `draw`; `src/adapt_strategy.rs`: `init`, `adapt`).

An evaluation is abstracted to what the callers look at: an error (recoverable or not) or a value
with three flags (log-density finite, gradient finite, gradient free of zeros).  That a non-finite
log-density or gradient makes the energy error of the leapfrog non-finite or larger than
`max_energy_error` is IEEE arithmetic; it is an assumption of this model, checked on every
evaluation index by the fault enumeration of the harness.
-/
import NutsModel.Model.Tree

namespace NutsModel.Model

inductive FaultKind where
  | recoverable | unrecoverable | nanLogp | posInfLogp | negInfLogp | nanGrad | infGrad | zeroGrad
  /-- a finite log-density so low that the energy error of the step exceeds the CONFIGURED `max_energy_error`
      (but not the fixed limit 1000 of the step-size search) -/
  | energyJump
  deriving DecidableEq, Repr, Inhabited

def FaultKind.all : List FaultKind :=
  [.recoverable, .unrecoverable, .nanLogp, .posInfLogp, .negInfLogp, .nanGrad, .infGrad, .zeroGrad, .energyJump]

/-- what a density evaluation hands to its caller -/
structure EvalRes where
  /-- `some recoverable` when the density returned `Err` -/
  err : Option Bool := none
  logpFinite : Bool := true
  gradFinite : Bool := true
  gradNonzero : Bool := true
  /-- the energy error of a trajectory leapfrog ending here is above the configured `max_energy_error` -/
  energyOver : Bool := false
  deriving DecidableEq, Repr

def EvalRes.good : EvalRes := {}

def evalOf : FaultKind → EvalRes
  | .recoverable => { err := some true }
  | .unrecoverable => { err := some false }
  | .nanLogp | .posInfLogp | .negInfLogp => { logpFinite := false }
  | .nanGrad | .infGrad => { gradFinite := false }
  | .zeroGrad => { gradNonzero := false }
  | .energyJump => { energyOver := true }

/-- `leapfrog`: recoverable error → divergence, unrecoverable → error; a non-finite log-density or
    gradient gives a non-finite (or too large) energy error → divergence; so does a finite energy error above the
    configured `max_energy_error` — in EVERY doubling, also those that run without the U-turn check (below `mindepth`, extra doublings) -/
def leapOf (e : EvalRes) : LeapOutcome :=
  match e.err with
  | some true => .diverge
  | some false => .err
  | none => if e.logpFinite && e.gradFinite && !e.energyOver then .ok else .diverge

/-- `init_state_untransformed` (first evaluation of `set_position`; only the gradient is used) -/
def initUntransformedOk (e : EvalRes) : Bool :=
  e.err.isNone && e.gradFinite

/-- `init_state`: unrecoverable error → `LogpFailure`; recoverable error or a failed `check_all` (finite log-density,
    finite position and gradient, transformed gradient without zeros) → `BadInitGrad` -/
def initStateOk (e : EvalRes) : Bool :=
  e.err.isNone && e.logpFinite && e.gradFinite && e.gradNonzero

/-- role of an evaluation inside a call of `set_position` / `draw` -/
inductive Role where
  | initUntransformed   -- `init_state_untransformed` in `AdaptStrategy::init`
  | trial               -- trial leapfrog of the step-size search (`Strategy::init`)
  | trajectory          -- leapfrog of the NUTS trajectory
  | initState           -- `init_state` (chain state; start state of the step-size search)
  | initFlow            -- evaluation handed to the user's `init_transformation` (flow preset): only errors are rejected
  deriving DecidableEq, Repr, Inhabited

inductive CallOut where
  | err            -- the call returns `Err`
  | ok             -- `Ok`, draw not flagged
  | okDiverging    -- `Ok`, draw flagged as divergent
  deriving DecidableEq, Repr, Inhabited

/-- a trial leapfrog of the step-size search (its own energy limit is the constant 1000, whatever `max_energy_error` says):
    only an unrecoverable error ends the call -/
def trialOut (e : EvalRes) : Bool := leapOf e != .err

/-- Outcomes a call may have when exactly one of its evaluations returned `e` and all others were good.
    `isDraw = false`: `set_position`; `true`: `draw`. (A draw may also be divergent for reasons of its
    own — a genuine energy error — so wherever `ok` is allowed for a draw, `okDiverging` is too.) -/
def allowed (isDraw : Bool) (r : Role) (e : EvalRes) : List CallOut :=
  let okSet : List CallOut := if isDraw then [.ok, .okDiverging] else [.ok]
  match r with
  | .initUntransformed => if initUntransformedOk e then okSet else [.err]
  | .initState =>
    if isDraw then
      -- the step-size re-initialisation inside `draw` (`GlobalStrategy::adapt`): an unusable evaluation (`BadInitGrad`:
      -- recoverable error, non-finite value, zero gradient) only skips the search; an unrecoverable error ends the call
      (if e.err = some false then [.err] else okSet)
    else if initStateOk e then okSet else [.err]
  | .initFlow => if e.err.isNone then okSet else [.err]
  | .trial => if trialOut e then okSet else [.err]
  | .trajectory =>
    match leapOf e with
    | .ok => okSet
    | .diverge => [.okDiverging]
    | .err => [.err]

end NutsModel.Model
