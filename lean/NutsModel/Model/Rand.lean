/-
Explicit decision structure for the sampler's random choices (DESIGN.md section 3.2).
The model never contains a PRNG: a random choice is a node of a `Rand` tree.

* sampled semantics `Rand.run`: consume a tape of raw 64-bit RNG words with the decoding rules of
  rand 0.10 (`random::<bool>()` = sign bit of `next_u32`; `random_bool(p)` = `p == 1 ∨
  next_u64 < ⌊p·2^64⌋`, panic for `p ∉ [0,1]`);
* distribution semantics `pmf` (in `Thm/`, over ℝ): `coin ↦ ½,½`, `bern p ↦ p, 1-p`.
-/
import NutsModel.Scalar

namespace NutsModel.Model

inductive Rand (α : Type) (β : Type) where
  | pure : β → Rand α β
  | coin : (Bool → Rand α β) → Rand α β
  | bern : α → (Bool → Rand α β) → Rand α β

namespace Rand
variable {α β γ : Type}

def bind : Rand α β → (β → Rand α γ) → Rand α γ
  | .pure b, f => f b
  | .coin k, f => .coin (fun x => bind (k x) f)
  | .bern p k, f => .bern p (fun x => bind (k x) f)

instance : Monad (Rand α) where
  pure := Rand.pure
  bind := Rand.bind

/-- outcome of running on a tape -/
inductive RunResult (β : Type) where
  | done (b : β) (rest : List Nat)
  | tapeEmpty
  | panic (site : String)

/-- `p_int` of rand's `Bernoulli::new(p)` for `0 ≤ p < 1` (as a Nat), computed in `Float`. -/
def bernThreshold (p : Float) : Nat := (p * 18446744073709551616.0).toUInt64.toNat

/-- Sampled semantics over `Float`.  Each `coin`/`bern` that reaches the RNG consumes one word. -/
def run : Rand Float β → List Nat → RunResult β
  | .pure b, tape => .done b tape
  | .coin k, tape =>
    match tape with
    | [] => .tapeEmpty
    | w :: rest => run (k (decide (w ≥ 9223372036854775808))) rest     -- sign bit of the upper u32
  | .bern p k, tape =>
    if p == 1.0 then run (k true) tape                                   -- ALWAYS_TRUE: no word consumed
    else if !(0.0 ≤ p && p < 1.0) then .panic "random_bool: p outside [0,1]"
    else match tape with
      | [] => .tapeEmpty
      | w :: rest => run (k (decide (w < bernThreshold p))) rest

end Rand
end NutsModel.Model
