/-
Hand-written model of the MCLMC kernel (`src/mclmc.rs::mclmc_kernel`) and of the ESH momentum
update (`math/cpu_math.rs::esh_momentum_update`).

1. The step loop with tree-structured step-size retry, abstracted over the outcome of each
   leapfrog (`ok | diverge | err`): `remaining`, `remaining_stack`, `factor = 2^-stack.length`,
   `steps_taken`, integrated time.  Time is counted in units of `ε · 2^-H` (`H = max_halvings`) so
   that it stays a natural number.
2. The closed-form ESH update on vectors `Fin n → α`.
-/
import NutsModel.Model.Leapfrog

namespace NutsModel.Model

inductive LfOut where
  | ok | diverge | err
  deriving DecidableEq, Repr, Inhabited

structure LoopSt where
  remaining : Nat
  /-- `remaining_stack`, innermost (most recently pushed) first -/
  stack : List Nat
  stepsTaken : Nat
  /-- integrated time in units of `ε · 2^-H` -/
  time : Nat
  deriving DecidableEq, Repr

inductive LoopExit where
  | finished (s : LoopSt)              -- `remaining == 0`: normal end
  | diverged (s : LoopSt)              -- divergence with the halving budget exhausted
  | error (s : LoopSt)                 -- unrecoverable density error
  | outOfScript (s : LoopSt)           -- the outcome list was too short (driver only)
  deriving Repr

/-- `while remaining == 0 { pop … }` after a successful step -/
def popAll : Nat → List Nat → Nat × List Nat
  | 0, s :: rest => popAll (s - 1) rest
  | r, st => (r, st)

/-- one iteration of `while remaining > 0` given the outcome of its leapfrog -/
def loopStep (H : Nat) (s : LoopSt) (o : LfOut) : LoopSt ⊕ LoopExit :=
  match o with
  | .err => .inr (.error s)
  | .ok =>
    let k := s.stack.length
    let (r, st) := popAll (s.remaining - 1) s.stack
    let s' : LoopSt := { remaining := r, stack := st, stepsTaken := s.stepsTaken + 1, time := s.time + 2 ^ (H - k) }
    if r = 0 then .inr (.finished s') else .inl s'
  | .diverge =>
    if s.stack.length ≥ H then .inr (.diverged s)
    else .inl { s with remaining := 2, stack := s.remaining :: s.stack }

/-- run the loop over a list of leapfrog outcomes -/
def runLoop (H : Nat) : LoopSt → List LfOut → LoopExit
  | s, [] => .outOfScript s
  | s, o :: os =>
    match loopStep H s o with
    | .inr e => e
    | .inl s' => runLoop H s' os

def loopInit (numBaseSteps : Nat) : LoopSt := { remaining := numBaseSteps, stack := [], stepsTaken := 0, time := 0 }

/-- the time still to be integrated, in units of `ε · 2^-H`:
    `remaining · 2^(H-k) + Σ_j (S_j − 1) · 2^(H-(j-1))` -/
def pendingTime (H : Nat) : Nat → List Nat → Nat
  | r, [] => r * 2 ^ H
  | r, s :: rest => r * 2 ^ (H - (rest.length + 1)) + pendingTime H (s - 1) rest

section
variable {α : Type} [Add α] [Sub α] [Mul α] [Div α] [Neg α] [NatCast α] [OfScientific α]
  [LT α] [LE α] [DecidableLT α] [DecidableLE α] [Transc α]

/-- `num_base_steps = round(subsample_frequency · L / ε).max(1).min(1e6) as u64` -/
def numBaseSteps (freq len eps : α) : Nat :=
  Transc.toNat (fmin (fmax (Transc.round (freq * len / eps)) ((1 : Nat) : α)) ((1000000 : Nat) : α))

/-- `esh_momentum_update(gradient, momentum, step)`: returns the new momentum and ΔKE -/
def eshUpdate {n : Nat} (g p : Vec α n) (step : α) : Vec α n × α :=
  let gradNorm := Transc.sqrt (vsum (fun i => g i * g i))
  let inv := ((1 : Nat) : α) / gradNorm
  let proj := vsum (fun i => p i * g i * inv)
  let dimsM1 : α := ((n - 1 : Nat) : α)
  let delta := step * gradNorm / dimsM1
  let zeta := Transc.exp (-delta)
  let one : α := ((1 : Nat) : α)
  let coeffG := (one - zeta) * (one + zeta + proj * (one - zeta))
  let coeffP := ((2 : Nat) : α) * zeta
  let raw : Vec α n := fun i => coeffG * (g i * inv) + coeffP * p i
  let rawNorm := Transc.sqrt (vsum (fun i => raw i * raw i))
  let invR := one / rawNorm
  let arg := proj + (one - proj) * zeta * zeta
  (fun i => raw i * invR, (delta - Transc.log ((2 : Nat) : α) + Transc.log1p arg) * dimsM1)

/-- `array_normalize` -/
def normalize {n : Nat} (v : Vec α n) : Vec α n :=
  let inv := ((1 : Nat) : α) / Transc.sqrt (vsum (fun i => v i * v i))
  fun i => v i * inv
end

end NutsModel.Model
