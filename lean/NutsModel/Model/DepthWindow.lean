/-
The depth window that `nuts::draw` derives from `target_integration_time` (`src/nuts.rs`, the
`let (mindepth, maxdepth) = if let Some(target_time) = …` block):
  max_steps = ceil(T / eps) as u64
  mindepth' = max(floor(log2 max_steps), options.mindepth)
  maxdepth' = min(max(max(ceil(log2 max_steps), mindepth'), 1), options.maxdepth)
Modelled over the naturals from `max_steps` on (the float part — division, `ceil`, `log2` of an exactly
representable integer — is replayed by the driver at `Float`).
-/
namespace NutsModel.Model

/-- `floor(log2 n)` for `n ≥ 1` -/
def log2Floor (n : Nat) : Nat := Nat.log2 n

/-- `ceil(log2 n)` for `n ≥ 1` -/
def log2Ceil (n : Nat) : Nat := if n ≤ 1 then 0 else Nat.log2 (n - 1) + 1

/-- effective `(mindepth, maxdepth)` of a draw with a target integration time -/
def depthWindow (maxSteps optMin optMax : Nat) : Nat × Nat :=
  let lo := max (log2Floor maxSteps) optMin
  let hi := min (max (max (log2Ceil maxSteps) lo) 1) optMax
  (lo, hi)

/-- without a target integration time the options are used as they are -/
def depthWindowOpt (maxSteps : Option Nat) (optMin optMax : Nat) : Nat × Nat :=
  match maxSteps with
  | some s => depthWindow s optMin optMax
  | none => (optMin, optMax)

end NutsModel.Model
