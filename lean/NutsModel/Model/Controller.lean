/-
Hand-written model of the parallel sampler's chain task and of what the controller does to it
(`src/sampler.rs`: `ChainProcess::start` closure, `pause/resume`, `finalize_many`, `abort`,
`wait_timeout`).

A chain is an automaton over
  * its mailbox (`std::sync::mpsc` channel of `ChainCommand`s, unbounded FIFO; `alive` = the
    controller still holds the sender),
  * its trace slot (`Arc<Mutex<Option<ChainStorage>>>`; `slot = false` after `finalize_many` took it),
  * the number of draws recorded `n`, the progress counter `finished_draws`, the target `total`.
The content of the draws is abstract: chain `i` appends the next element of its own deterministic
stream, so a trace is determined by `n` alone — that is the formal content of "independent of
scheduling".

The environment (controller / user) can `deliver` a command to the mailbox and `finalize`
(take the slot and drop the sender).  One loop iteration of the chain is one atomic step: the
trace mutex is held for the whole record part, and everything before it is chain-local.
Outcomes of the fallible operations are parameters of the step.
-/
namespace NutsModel.Model

inductive Cmd where
  | pause | resume
  deriving DecidableEq, Repr, Inhabited

/-- the message the loop iteration acts upon (`Result<ChainCommand, TryRecvError>`) -/
inductive Msg where
  | disc | empty | cmd (c : Cmd)
  deriving DecidableEq, Repr, Inhabited

inductive ChainRes where
  | ok | err
  deriving DecidableEq, Repr, Inhabited

inductive Phase where
  | queued                  -- spawned, not yet picked up by a worker
  | top (m : Msg)           -- at the top of the loop holding message `m`
  | done (r : ChainRes)     -- task finished, result sent on the results channel
  deriving DecidableEq, Repr, Inhabited

structure Chain where
  phase : Phase := .queued
  mailbox : List Cmd := []
  alive : Bool := true
  slot : Bool := true
  n : Nat := 0
  progress : Nat := 0
  total : Nat
  deriving DecidableEq, Repr

/-- outcomes of the fallible operations of one step -/
structure Outcome where
  /-- model construction and initialisation (up to 500 attempts) succeed -/
  initOk : Bool := true
  /-- `expanded_draw` succeeds (no unrecoverable density error) -/
  drawOk : Bool := true
  /-- `record_sample` succeeds -/
  recordOk : Bool := true
  deriving Repr

/-- `try_recv`: buffered messages first, then `Empty` / `Disconnected` -/
def tryRecv (mb : List Cmd) (alive : Bool) : Msg × List Cmd :=
  match mb with
  | c :: r => (.cmd c, r)
  | [] => (if alive then .empty else .disc, [])

/-- blocking `recv`: `none` = blocks (empty mailbox, sender alive) -/
def recvBlocking (mb : List Cmd) (alive : Bool) : Option (Msg × List Cmd) :=
  match mb with
  | c :: r => some (.cmd c, r)
  | [] => if alive then none else some (.disc, [])

/-- one step of the chain task; `none` = no step possible (blocked in `recv`, or finished) -/
def chainStep (c : Chain) (o : Outcome) : Option Chain :=
  match c.phase with
  | .done _ => none
  | .queued =>
    if !o.initOk then some { c with phase := .done .err }
    else
      let (m, mb) := tryRecv c.mailbox c.alive
      some { c with phase := .top m, mailbox := mb }
  | .top .disc => some { c with phase := .done .ok }
  | .top (.cmd .pause) =>
    match recvBlocking c.mailbox c.alive with
    | none => none
    | some (m, mb) => some { c with phase := .top m, mailbox := mb }
  | .top _ =>                                   -- `Empty` or `Resume`: draw
    if c.n = c.total then some { c with phase := .done .ok }
    else if !o.drawOk then some { c with phase := .done .err }
    else if !c.slot then some { c with phase := .done .ok }       -- trace removed by the controller
    else if !o.recordOk then some { c with phase := .done .err, progress := c.progress + 1 }
    else if c.n + 1 = c.total then some { c with phase := .done .ok, n := c.n + 1, progress := c.progress + 1 }
    else
      let (m, mb) := tryRecv c.mailbox c.alive
      some { c with phase := .top m, mailbox := mb, n := c.n + 1, progress := c.progress + 1 }

/-- the controller forwards a command (`stop_marker.send`; errors for finished chains are ignored) -/
def deliver (c : Chain) (x : Cmd) : Chain := { c with mailbox := c.mailbox ++ [x] }

/-- `finalize_many`: take the trace slot and drop the sender -/
def finalizeChain (c : Chain) : Chain := { c with slot := false, alive := false }

/-- what can happen to one chain -/
inductive ChainEv where
  | step (o : Outcome)
  | deliver (x : Cmd)
  | finalize

/-- apply an event; a `step` that is not enabled leaves the chain unchanged (it cannot happen) -/
def applyEv (c : Chain) : ChainEv → Chain
  | .step o => (chainStep c o).getD c
  | .deliver x => deliver c x
  | .finalize => finalizeChain c

def runEvs (c : Chain) (evs : List ChainEv) : Chain := evs.foldl applyEv c

/-- the chain is blocked in the blocking `recv` -/
def blocked (c : Chain) : Bool :=
  c.phase == .top (.cmd .pause) && c.mailbox.isEmpty && c.alive

/-- result the parallel sampler reports for a run whose chains ended with `results`
    (`wait_timeout` returns `Err` on the first chain error; `abort` merges the chain errors into its result) -/
def samplerResult (controllerErr : Bool) (results : List ChainRes) : ChainRes :=
  if controllerErr || results.any (· == .err) then .err else .ok

/-! ### Trace contents

The chain's sampler is private to its task: the `k`-th call of `expanded_draw` returns the `k`-th
element of a stream that depends on the chain's seed only.  `drawn` counts those calls, `trace`
lists for each recorded draw the stream index it came from. -/

structure TChain where
  c : Chain
  drawn : Nat := 0
  trace : List Nat := []
  deriving Repr

/-- the step calls `expanded_draw` successfully -/
def drew (c : Chain) : ChainEv → Bool
  | .step o =>
    (match c.phase with
     | .top .empty => true
     | .top (.cmd .resume) => true
     | _ => false) && c.n != c.total && o.drawOk
  | _ => false

def tApply (t : TChain) (e : ChainEv) : TChain :=
  let c' := applyEv t.c e
  { c := c'
    drawn := if drew t.c e then t.drawn + 1 else t.drawn
    trace := if c'.n = t.c.n + 1 then t.trace ++ [t.drawn] else t.trace }

def tRun (t : TChain) (evs : List ChainEv) : TChain := evs.foldl tApply t

end NutsModel.Model
