/-
Hand-written model of the whitened-space leapfrog (`dynamics/transformed_hamiltonian.rs`:
`first_velocity_halfstep`, `position_step`, `second_velocity_halfstep`, `leapfrog`, `is_turning`)
and of the two affine transformations (`transform/diagonal.rs`, `transform/low_rank.rs`).

Vectors are functions `Fin n → α`; the same definitions run at `α := Float` in the driver and are
reasoned about at `α := ℝ`.  The density enters only through the gradient of `logp` in the
ORIGINAL coordinates (`gradX`), exactly as the code calls `logp_array` at the untransformed position.
-/
import NutsModel.Scalar

namespace NutsModel.Model

variable {α : Type} [Add α] [Sub α] [Mul α] [Div α] [Neg α] [NatCast α] [OfScientific α]
  [LT α] [LE α] [DecidableLT α] [DecidableLE α] [Transc α]

abbrev Vec (α : Type) (n : Nat) := Fin n → α

/-- `Σ_i f i` as a left fold starting from 0 (the order of the scalar loops) -/
def vsum {n : Nat} (f : Fin n → α) : α := Fin.foldl n (fun acc i => acc + f i) ((0 : Nat) : α)

def dot {n : Nat} (a b : Vec α n) : α := vsum (fun i => a i * b i)

inductive Kinetic where
  | euclidean | exactNormal
  deriving DecidableEq, Repr

/-! ### transformations `x = F y + shift` -/

/-- what the Hamiltonian needs from a `Transformation` -/
structure Transform (α : Type) (n : Nat) where
  /-- `compute_transformed_position` : x ↦ y -/
  toY : Vec α n → Vec α n
  /-- `compute_untransformed_position` : y ↦ x -/
  toX : Vec α n → Vec α n
  /-- `compute_transformed_gradient` : ∇ₓlogp ↦ ∇_y logp -/
  gradY : Vec α n → Vec α n
  logdet : α

/-- `DiagMassMatrix {mean, stds, inv_stds}` -/
structure DiagT (α : Type) (n : Nat) where
  mean : Vec α n
  stds : Vec α n
  invStds : Vec α n

def DiagT.transform {n : Nat} (t : DiagT α n) : Transform α n where
  toY := fun x i => (-(t.mean i) + x i) * t.invStds i          -- axpy_out(mean, x, -1) ; *= inv_stds
  toX := fun y i => t.mean i + y i * t.stds i                   -- array_mult(y, stds) ; axpy(mean, ·, 1)
  gradY := fun g i => g i * t.stds i
  logdet := vsum (fun i => Transc.log (t.invStds i))

/-- `apply_lowrank_transform`: `x + U ((d − 1) ⊙ (Uᵀ x))`, `U` given by its `k` columns -/
def applyLowRank {n k : Nat} (U : Fin k → Vec α n) (d : Fin k → α) (x : Vec α n) : Vec α n :=
  fun i => x i + vsum (fun c => U c i * ((d c - ((1 : Nat) : α)) * dot (U c) x))

/-- `LowRankMassMatrix` with an inner matrix `{vecs, vals_sqrt, vals_sqrt_inv, mu}` over a diagonal part -/
structure LowRankT (α : Type) (n k : Nat) where
  diag : DiagT α n
  U : Fin k → Vec α n
  valsSqrt : Fin k → α
  valsSqrtInv : Fin k → α
  mu : Vec α n
  /-- `-½ Σ ln λ` -/
  logdetInner : α

def LowRankT.transform {n k : Nat} (t : LowRankT α n k) : Transform α n where
  toY := fun x => applyLowRank t.U t.valsSqrtInv (fun i => (-(t.diag.mean i) + x i) * t.diag.invStds i + -(t.mu i))
  toX := fun y i => t.diag.mean i + (t.mu i + applyLowRank t.U t.valsSqrt y i) * t.diag.stds i
  gradY := fun g => applyLowRank t.U t.valsSqrt (fun i => g i * t.diag.stds i)
  logdet := t.logdetInner + vsum (fun i => Transc.log (t.diag.invStds i))

/-! ### one leapfrog step in the whitened space -/

/-- whitened phase point: position `y`, velocity `v`, gradient of `logp` w.r.t. `y` -/
structure PhasePt (α : Type) (n : Nat) where
  y : Vec α n
  v : Vec α n
  gy : Vec α n

variable {n : Nat}

/-- `first_velocity_halfstep` / `second_velocity_halfstep` (same formula, applied to the current gradient) -/
def velHalf (k : Kinetic) (eps : α) (y gy v : Vec α n) : Vec α n :=
  match k with
  | .euclidean => fun i => (eps / ((2 : Nat) : α)) * gy i + v i                 -- axpy(_out)(gy, v, ε/2)
  | .exactNormal => fun i => (eps / ((2 : Nat) : α)) * (y i + gy i) + v i        -- std_norm_grad_flow(ε/2)

/-- `position_step`: returns the new position and (for the geodesic integrator) the rotated velocity -/
def posStep (k : Kinetic) (eps : α) (y v : Vec α n) : Vec α n × Vec α n :=
  match k with
  | .euclidean => (fun i => eps * v i + y i, v)                                   -- axpy_out(v, y, ε)
  | .exactNormal =>
    let s := Transc.sin eps
    let c := Transc.cos eps
    (fun i => y i * c + v i * s, fun i => y i * (-s) + v i * c)                   -- std_norm_flow

/-- `TransformedHamiltonian::leapfrog` (without the divergence test): `gradX` is ∇logp in the
    original coordinates; `eps = ± step_size · factor`. -/
def leapfrog (T : Transform α n) (gradX : Vec α n → Vec α n) (k : Kinetic) (eps : α) (p : PhasePt α n) : PhasePt α n :=
  let v1 := velHalf k eps p.y p.gy p.v
  let (y', v2) := posStep k eps p.y v1
  let gy' := T.gradY (gradX (T.toX y'))
  { y := y', v := velHalf k eps y' gy' v2, gy := gy' }

/-- `½‖v‖²` -/
def kineticEnergy (v : Vec α n) : α := (OfScientific.ofScientific 5 true 1 : α) * dot v v

/-- `Point::energy` = kinetic − (logp + logdet) -/
def energy (T : Transform α n) (logp : α) (v : Vec α n) : α := kineticEnergy v - (logp + T.logdet)

/-- `is_turning` (after ordering the two states by trajectory index): `(y_end − y_start)·v_start < 0 ∨ (…)·v_end < 0` -/
def isTurning (yStart vStart yEnd vEnd : Vec α n) : Bool :=
  let d : Vec α n := fun i => (yEnd i + ((0 : Nat) : α)) - yStart i
  decide (dot d vStart < ((0 : Nat) : α)) || decide (dot d vEnd < ((0 : Nat) : α))

end NutsModel.Model
