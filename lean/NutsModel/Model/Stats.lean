/-
Statistics of the six settings presets: how the generated struct schemas (`Gen/Schema.lean`) are
composed into each preset's `Chain::Stats` type, and the presence logic of every optional field
(`extract_stats` of the point, the transformations, and `DivergenceStats::from`).
-/
import NutsModel.Gen.Schema

namespace NutsModel.Model
open NutsModel.Gen.Schema

inductive Preset where
  | diagNuts | lowRankNuts | flowNuts | diagMclmc | lowRankMclmc | flowMclmc
  deriving DecidableEq, Repr, Inhabited

def stepSize : TyExpr := .app "StepSizeStats" []
def point : TyExpr := .app "PointStats" []

/-- `<Settings::Chain as SamplerStats>::Stats` per preset (src/sampler.rs, src/chain.rs, src/mclmc.rs) -/
def statsType : Preset → TyExpr
  | .diagNuts => .app "NutsStats" [.app "HamiltonianStats" [.app "DiagMassMatrixStats" []],
      .app "GlobalStrategyStats" [stepSize, .app "DiagAdaptStats" []], point]
  | .lowRankNuts => .app "NutsStats" [.app "HamiltonianStats" [.app "LowRankMatrixStats" []],
      .app "GlobalStrategyStats" [stepSize, .unit], point]
  | .flowNuts => .app "NutsStats" [.app "HamiltonianStats" [.app "ExternalTransformationStats" []],
      .app "ExternalAdaptStats" [stepSize], point]
  | .diagMclmc => .app "MclmcStats" [.app "HamiltonianStats" [.app "DiagMassMatrixStats" []],
      .app "GlobalStrategyStats" [stepSize, .app "DiagAdaptStats" []], point]
  | .lowRankMclmc => .app "MclmcStats" [.app "HamiltonianStats" [.app "LowRankMatrixStats" []],
      .app "GlobalStrategyStats" [stepSize, .unit], point]
  | .flowMclmc => .app "MclmcStats" [.app "HamiltonianStats" [.app "ExternalTransformationStats" []],
      .app "ExternalAdaptStats" [stepSize], point]

def presetFlat (p : Preset) : Option (List Basic) := flatten all 8 (statsType p)

/-- the `store_*` options of a settings value that influence which statistics are present -/
structure StoreOpts where
  storeGradient : Bool
  storeUnconstrained : Bool
  storeTransformed : Bool
  storeDivergences : Bool
  storeMassMatrix : Bool
  deriving Repr

/-- what happened at a draw, as far as presence of statistics is concerned -/
structure DrawCtx where
  diverging : Bool
  /-- the divergence carries the start location / gradient (always, in `TransformedHamiltonian::leapfrog`) -/
  hasStart : Bool
  /-- … the end location (energy-error divergences only, not density errors) -/
  hasEnd : Bool
  /-- … an energy error value -/
  hasEnergyError : Bool
  /-- the transformation id differs from the one reported last -/
  idChanged : Bool
  /-- low-rank only: an inner (eigen) matrix is installed -/
  hasInner : Bool
  deriving Repr

/-- Is the statistic `name` present (`Some`) in this draw?  `none` = not a known optional field
    (non-optional fields are always present). -/
def expectedPresent (o : StoreOpts) (c : DrawCtx) (name : String) : Option Bool :=
  match name with
  -- PointStats::extract_stats
  | "unconstrained_draw" => some o.storeUnconstrained
  | "gradient" => some o.storeGradient
  | "transformed_position" => some o.storeTransformed
  | "transformed_gradient" => some o.storeTransformed
  -- DivergenceStats::from
  | "divergence_draw" => some c.diverging
  | "divergence_message" => some c.diverging
  | "divergence_start" => some (o.storeDivergences && c.diverging && c.hasStart)
  | "divergence_start_gradient" => some (o.storeDivergences && c.diverging && c.hasStart)
  | "divergence_end" => some (o.storeDivergences && c.diverging && c.hasEnd)
  | "divergence_momentum" => some false          -- `start_momentum` is never filled in
  | "divergence_energy_error" => some (c.diverging && c.hasEnergyError)
  -- DiagMassMatrix / LowRankMassMatrix ::extract_stats
  | "transformation_update_id" => some c.idChanged
  | "mass_matrix_inv" => some (c.idChanged && o.storeMassMatrix)
  | "transformation_mu" => some (c.idChanged && o.storeMassMatrix)
  | "mass_matrix_stds" => some (c.idChanged && o.storeMassMatrix)
  | "mass_matrix_eigvals" => some (c.idChanged && o.storeMassMatrix && c.hasInner)
  | "num_eigenvalues" => some c.idChanged
  | _ => none

end NutsModel.Model
