/-
Hand-written model of the Zarr chain storage for ONE variable of ONE chain
(`storage/zarr/common.rs::SampleBuffer`, `storage/zarr/sync_impl.rs::{store_zarr_chunk,
ZarrChainStorage::record_sample / flush / finalize}`).

* The buffer holds the items of the current (partial) chunk; `fullAt` is the chunk size.
* A Zarr array is a partial map `index ↦ value`; `store_chunk` writes a whole chunk,
  `store_chunk_subset` / the string subset write the first `len` entries of a chunk.
* There are two arrays per variable: warmup and sampling.  On the first non-tuning sample the
  buffer is reset (its partial chunk goes to the warmup array) and chunk numbering restarts.

Values are abstract (`ν`); a draw on which the statistic is absent (event statistics) is simply
not pushed, so the model covers event arrays too (index = number of events so far).
-/
namespace NutsModel.Model

structure ZBuf (ν : Type) where
  items : List ν          -- current partial chunk, oldest first; `len = items.length`
  fullAt : Nat
  currentChunk : Nat

/-- a Zarr array of one chain: index ↦ value -/
abbrev ZArr (ν : Type) := Nat → Option ν

/-- write `items` at the start of chunk `c` (chunk size `f`): indices `c*f + j ↦ items[j]` -/
def writeChunk {ν : Type} (a : ZArr ν) (f c : Nat) (items : List ν) : ZArr ν :=
  fun i => if c * f ≤ i ∧ i < c * f + items.length then items[i - c * f]? else a i

structure ZSt (ν : Type) where
  buf : ZBuf ν
  warm : ZArr ν
  samp : ZArr ν
  lastWasWarmup : Bool

def ZSt.init {ν : Type} (chunk : Nat) : ZSt ν :=
  { buf := { items := [], fullAt := chunk, currentChunk := 0 }, warm := fun _ => none, samp := fun _ => none,
    lastWasWarmup := true }

/-- the warmup → sampling transition inside `record_sample` (`buffer.reset()` + store to the warmup array) -/
def ZSt.transition {ν : Type} (s : ZSt ν) : ZSt ν :=
  { s with
    warm := if s.buf.items = [] then s.warm else writeChunk s.warm s.buf.fullAt s.buf.currentChunk s.buf.items
    buf := { s.buf with items := [], currentChunk := 0 }
    lastWasWarmup := false }

/-- `record_sample` for this variable: `v = none` when the statistic is absent on this draw -/
def ZSt.record {ν : Type} (s : ZSt ν) (tuning : Bool) (v : Option ν) : ZSt ν :=
  let s := if s.lastWasWarmup && !tuning then s.transition else s
  match v with
  | none => s
  | some x =>
    let items := s.buf.items ++ [x]
    if items.length = s.buf.fullAt then
      -- `finish_chunk` + `store_zarr_chunk` into the array chosen by `info.tuning`
      let c := s.buf.currentChunk
      let s' := { s with buf := { s.buf with items := [], currentChunk := c + 1 } }
      if tuning then { s' with warm := writeChunk s.warm s.buf.fullAt c items }
      else { s' with samp := writeChunk s.samp s.buf.fullAt c items }
    else { s with buf := { s.buf with items := items } }

/-- `flush`: store a copy of the partial chunk (array chosen by `last_sample_was_warmup`) -/
def ZSt.flush {ν : Type} (s : ZSt ν) : ZSt ν :=
  if s.buf.items = [] then s
  else if s.lastWasWarmup then { s with warm := writeChunk s.warm s.buf.fullAt s.buf.currentChunk s.buf.items }
  else { s with samp := writeChunk s.samp s.buf.fullAt s.buf.currentChunk s.buf.items }

/-- `finalize`: `buffer.reset()` + store -/
def ZSt.finalize {ν : Type} (s : ZSt ν) : ZSt ν :=
  let s' := s.flush
  { s' with buf := { s'.buf with items := [], currentChunk := 0 } }

inductive ZOp (ν : Type) where
  | record (tuning : Bool) (v : Option ν)
  | flush

def ZSt.step {ν : Type} (s : ZSt ν) : ZOp ν → ZSt ν
  | .record t v => s.record t v
  | .flush => s.flush

def ZSt.run {ν : Type} (s : ZSt ν) (ops : List (ZOp ν)) : ZSt ν := ops.foldl ZSt.step s

/-- the abstract specification: what was recorded, in order (present values only) -/
def recordedWarm {ν : Type} : List (ZOp ν) → List ν
  | [] => []
  | .record true (some x) :: r => x :: recordedWarm r
  | _ :: r => recordedWarm r

def recordedSamp {ν : Type} : List (ZOp ν) → List ν
  | [] => []
  | .record false (some x) :: r => x :: recordedSamp r
  | _ :: r => recordedSamp r

/-- tuning flags arrive as `true … true false … false` -/
def monotoneTuning {ν : Type} : List (ZOp ν) → Bool
  | [] => true
  | .record false _ :: r => r.all (fun o => match o with | .record true _ => false | _ => true) && monotoneTuning r
  | _ :: r => monotoneTuning r

end NutsModel.Model
