import NutsModel.Drv.Common
import NutsModel.Model.Mclmc

namespace NutsModel.Drv.C18
open NutsModel NutsModel.Model NutsModel.Drv

/-- `mclmc case draw H freq len eps num_steps diverging nouts outs…` (out 0 = leapfrog ok, 1 = diverged) -/
def mclmc (t : Toks) : Verdict := Id.run do
  let some case := natAt t 1 | return .bad "case"
  let some d := natAt t 2 | return .bad "draw"
  let some h := natAt t 3 | return .bad "H"
  let some freq := fAt t 4 | return .bad "freq"
  let some len := fAt t 5 | return .bad "len"
  let some eps := fAt t 6 | return .bad "eps"
  let some steps := natAt t 7 | return .bad "steps"
  let some dv := natAt t 8 | return .bad "div"
  let some no := natAt t 9 | return .bad "nouts"
  if t.size != 10 + no then return .bad "length"
  let mut outs : List LfOut := []
  for j in [0:no] do
    let some o := natAt t (10 + j) | return .bad "out"
    outs := outs ++ [if o == 0 then LfOut.ok else LfOut.diverge]
  let n := numBaseSteps freq len eps
  match runLoop h (loopInit n) outs with
  | .finished s =>
    if dv == 1 then return .mismatch s!"mclmc case={case} draw={d}: model finishes normally (steps {s.stepsTaken}), implementation reports a divergence"
    if s.stepsTaken != steps then return .mismatch s!"mclmc case={case} draw={d}: steps model={s.stepsTaken} impl={steps} (base steps {n})"
    if s.stepsTaken + (outs.filter (· == .diverge)).length != no then
      return .mismatch s!"mclmc case={case} draw={d}: the implementation evaluated the density {no} times, the model's loop consumed fewer outcomes"
    return .ok
  | .diverged s =>
    if dv != 1 then return .mismatch s!"mclmc case={case} draw={d}: model reports a divergence after {s.stepsTaken} steps, implementation none"
    if s.stepsTaken != steps then return .mismatch s!"mclmc case={case} draw={d}: steps at divergence model={s.stepsTaken} impl={steps}"
    return .ok
  | .outOfScript s => return .mismatch s!"mclmc case={case} draw={d}: model needs more leapfrogs than the implementation performed ({no}); state {repr s}"
  | .error _ => return .bad "err"

def dispatch (t : Toks) : Option Verdict :=
  match t[0]? with
  | some "mclmc" => some (mclmc t)
  | _ => none

end NutsModel.Drv.C18
