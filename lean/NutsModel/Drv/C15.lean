import NutsModel.Drv.Common
import NutsModel.Model.ZarrStore

namespace NutsModel.Drv.C15
open NutsModel NutsModel.Model NutsModel.Drv

/-- `zops case var chunk ntok (r <tuning> <present> | f)*`: the op sequence one variable of a real run
    went through (values abstracted to their running number).  The model executes it and must end up,
    after every flush, with exactly the recorded prefix readable (the real backend was read back at the
    same points by the harness). -/
def zops (t : Toks) : Verdict := Id.run do
  let some case := natAt t 1 | return .bad "case"
  let some var := t[2]? | return .bad "var"
  let some chunk := natAt t 3 | return .bad "chunk"
  let some ntok := natAt t 4 | return .bad "ntok"
  let mut i := 5
  let mut s : ZSt Nat := ZSt.init chunk
  let mut warmN := 0
  let mut sampN := 0
  let mut counter := 0
  let mut seenFalse := false
  for _ in [0:ntok] do
    match t[i]? with
    | some "r" =>
      let some tun := natAt t (i + 1) | return .bad "tuning"
      let some pres := natAt t (i + 2) | return .bad "present"
      if tun == 1 && seenFalse then return .mismatch s!"zops case={case} {var}: a tuning draw was recorded after a sampling draw"
      if tun == 0 then seenFalse := true
      let v := if pres == 1 then some counter else none
      if pres == 1 then
        counter := counter + 1
        if tun == 1 then warmN := warmN + 1 else sampN := sampN + 1
      s := s.record (tun == 1) v
      i := i + 3
    | some "f" =>
      s := s.flush
      -- after the flush every recorded value is readable at its index
      for k in [0:warmN] do
        if s.warm k != some k then return .mismatch s!"zops case={case} {var} chunk={chunk}: after a flush warmup index {k} reads {s.warm k} in the model, expected {k}"
      for k in [0:sampN] do
        if s.samp k != some (warmN + k) then return .mismatch s!"zops case={case} {var} chunk={chunk}: after a flush sampling index {k} reads {s.samp k} in the model, expected {warmN + k}"
      i := i + 1
    | _ => return .bad "zops token"
  if i != t.size then return .bad "zops trailing"
  return .ok

def dispatch (t : Toks) : Option Verdict :=
  match t[0]? with
  | some "zops" => some (zops t)
  | _ => none

end NutsModel.Drv.C15
