import NutsModel.Drv.Common
import NutsModel.Model.FlowSchedule
import NutsModel.Model.Schedule
import NutsModel.Gen.Numeric

namespace NutsModel.Drv.C06
open NutsModel NutsModel.Model NutsModel.Drv NutsModel.Gen

structure SS where
  kind : Nat
  n : Nat
  f : Array Float

def readSS (t : Toks) (i : Nat) : Option SS := do
  let kind ← natAt t i
  let n ← natAt t (i + 1)
  let f ← fSlice t (i + 2) 4
  pure { kind, n, f }

def ssEq (a b : SS) : Bool :=
  a.kind == b.kind && a.n == b.n && (List.range 4).all (fun j => sameBits a.f[j]! b.f[j]!)

def showSS (a : SS) : String := s!"(kind {a.kind}, n {a.n}, {a.f.toList.map showF})"

/-- expected step-size adaptation state after an estimator update with statistic `stat` -/
def advanceSS (prev : SS) (stat target : Float) : SS :=
  if prev.kind == 0 then
    let s : DualAverage Float := { log_step := prev.f[0]!, log_step_adapted := prev.f[1]!, hbar := prev.f[2]!, mu := prev.f[3]!,
                                   count := prev.n, settings := DualAverageOptions.default }
    let s := s.advance stat target
    { kind := 0, n := s.count, f := #[s.log_step, s.log_step_adapted, s.hbar, s.mu] }
  else if prev.kind == 1 then
    let s : Adam Float := { log_step := prev.f[0]!, m := prev.f[1]!, v := prev.f[2]!, t := prev.n, settings := AdamOptions.default }
    let s := s.advance stat target
    { kind := 1, n := s.t, f := #[s.log_step, s.m, s.v, 0.0] }
  else prev

def sched (t : Toks) : Verdict := Id.run do
  let some case := natAt t 1 | return .bad "case"
  let some mclmc := natAt t 2 | return .bad "mclmc"
  let some diag := natAt t 3 | return .bad "diag"
  let some numTune := natAt t 4 | return .bad "numTune"
  let some earlyEnd := natAt t 5 | return .bad "earlyEnd"
  let some finalWindow := natAt t 6 | return .bad "finalWindow"
  let some earlyWindowF := fAt t 7 | return .bad "early_window"
  let some stepWindowF := fAt t 8 | return .bad "step_size_window"
  let some earlySwitch := natAt t 9 | return .bad "earlySwitch"
  let some switchFreq := natAt t 10 | return .bad "switchFreq"
  let some updateFreq := natAt t 11 | return .bad "updateFreq"
  let some growth := fAt t 12 | return .bad "growth"
  let some target := fAt t 13 | return .bad "target"
  let some nd := natAt t 26 | return .bad "ndraws"
  if t.size != 27 + 20 * nd then return .bad s!"length {t.size} vs {27 + 20 * nd}"
  -- the f64 -> u64 casts of `GlobalStrategy::new`
  match schedNew numTune earlyWindowF stepWindowF growth with
  | .error site => return .mismatch s!"sched case={case}: model of GlobalStrategy::new panics at {site}, implementation constructed the chain"
  | .ok (mEarly, mFinal) =>
  if mEarly != earlyEnd then return .mismatch s!"sched case={case}: early_end model={mEarly} impl={earlyEnd}"
  if mFinal != finalWindow then return .mismatch s!"sched case={case}: final window model={mFinal} impl={finalWindow}"
  let p : SchedParams := { numTune, earlyEnd, finalWindow, earlySwitchFreq := earlySwitch, updateFreq, nextWindow := nextWindowOf growth }
  let mut s : SchedState := SchedState.init switchFreq
  -- initial counters
  let some i3 := natAt t 14 | return .bad "i3"
  let some i4 := natAt t 15 | return .bad "i4"
  let some i5 := natAt t 16 | return .bad "i5"
  let some i6 := natAt t 17 | return .bad "i6"
  let some i7 := natAt t 18 | return .bad "i7"
  let some i8 := natAt t 19 | return .bad "i8"
  if !(i3 == 1 && i4 == 1 && i5 == 0 && i6 == switchFreq && i7 == 1 && i8 == 1) then
    return .mismatch s!"sched case={case}: initial counters {[i3, i4, i5, i6, i7, i8]} differ from the model's initial state"
  let some ss0 := readSS t 20 | return .bad "ss0"
  let mut prev := ss0
  let mut lastId : Int := 0
  for d in [0:nd] do
    let b := 27 + 20 * d
    let some dv := natAt t b | return .bad "div"
    let some idx := intAt t (b + 1) | return .bad "idx"
    let some nsteps := natAt t (b + 2) | return .bad "nsteps"
    let some pt := natAt t (b + 3) | return .bad "ptuning"
    let some st := natAt t (b + 4) | return .bad "stuning"
    let some tid := intAt t (b + 5) | return .bad "tupd"
    let some c3 := natAt t (b + 6) | return .bad "c3"
    let some c4 := natAt t (b + 7) | return .bad "c4"
    let some c5 := natAt t (b + 8) | return .bad "c5"
    let some c6 := natAt t (b + 9) | return .bad "c6"
    let some c7 := natAt t (b + 10) | return .bad "c7"
    let some c8 := natAt t (b + 11) | return .bad "c8"
    let some ss := readSS t (b + 12) | return .bad "ss"
    let some mean := fAt t (b + 18) | return .bad "mean"
    let some meanSym := fAt t (b + 19) | return .bad "mean_sym"
    let isGood := if mclmc == 1 then (if dv == 1 then decide (nsteps > 4) else decide (nsteps ≠ 0)) else isGoodDraw (dv == 1) idx
    let (s', a) := schedStep p s d isGood
    s := s'
    let b2n (x : Bool) : Nat := if x then 1 else 0
    if !(b2n s.tuning == c3 && b2n s.hasInitial == c4 && s.lastUpdate == c5 && s.curWindow == c6 && s.fg.length == c7 && s.bg.length == c8) then
      return .mismatch s!"sched case={case} draw={d}: counters (tuning, has_initial, last_update, window, fg, bg) model={[b2n s.tuning, b2n s.hasInitial, s.lastUpdate, s.curWindow, s.fg.length, s.bg.length]} impl={[c3, c4, c5, c6, c7, c8]} (isGood={isGood})"
    if pt != b2n s.tuning || st != b2n s.tuning then
      return .mismatch s!"sched case={case} draw={d}: tuning flag model={s.tuning} progress={pt} stat={st}"
    -- transformation change events
    let changed := decide (tid > lastId)
    if tid > lastId then lastId := tid
    if changed && !a.didChange then
      return .mismatch s!"sched case={case} draw={d}: transformation changed (id {tid}) but the model calls no update here"
    if diag == 1 && a.didChange && !changed then
      return .mismatch s!"sched case={case} draw={d}: model updates the transformation, implementation reports no new id"
    -- step-size adaptation state
    if a.reinit then
      pure ()
    else
      let expected := match a.est with
        | .early => advanceSS prev mean target
        | .late => advanceSS prev meanSym target
        | .none => prev
      if !(ssEq expected ss) then
        return .mismatch s!"sched case={case} draw={d}: step-size adaptation state after estimator={repr a.est} model={showSS expected} impl={showSS ss}"
    prev := ss
  return .ok

/-- `flow case num_tune step_size_window freq n (tuning transformation_index)*`: a real flow-strategy chain
    (NUTS or MCLMC); the model predicts the tuning flag of every draw and after which draws the transformation is
    re-fitted (the index of the next draw's point changes exactly then). -/
def flow (t : Toks) : Verdict := Id.run do
  let some case := natAt t 1 | return .bad "case"
  let some numTune := natAt t 2 | return .bad "num_tune"
  let some w := fAt t 3 | return .bad "window"
  let some freq := natAt t 4 | return .bad "freq"
  let some n := natAt t 5 | return .bad "n"
  if t.size != 6 + 2 * n then return .bad "length"
  -- `((num_tune as f64) * (1 - step_size_window)).floor() as u64`
  let finalWindow := (Float.floor (Float.ofNat numTune * (1.0 - w))).toUInt64.toNat
  let run := flowRun { numTune := numTune, finalWindow := finalWindow, freq := freq } 0 n
  let runA := run.toArray
  for d in [0:n] do
    let some tun := natAt t (6 + 2 * d) | return .bad "tuning"
    let (mt, acts) := runA[d]!
    if (tun == 1) != mt then
      return .mismatch s!"flow case={case} draw={d}: tuning flag impl={tun} model={mt} (num_tune {numTune})"
    if d + 1 < n then
      let some i0 := intAt t (7 + 2 * d) | return .bad "index"
      let some i1 := intAt t (9 + 2 * d) | return .bad "index"
      let upd := acts.contains FlowAct.updateParams
      if (i1 != i0) != upd then
        return .mismatch s!"flow case={case}: adaptation after draw {d} changed the transformation index {i0} -> {i1}, model update={upd} (num_tune {numTune}, final window {finalWindow}, freq {freq})"
  return .ok

def dispatch (t : Toks) : Option Verdict :=
  match t[0]? with
  | some "sched" => some (sched t)
  | some "flow" => some (flow t)
  | _ => none

end NutsModel.Drv.C06
