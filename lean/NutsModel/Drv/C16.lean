import NutsModel.Drv.Common
import NutsModel.Model.Stats

namespace NutsModel.Drv.C16
open NutsModel NutsModel.Model NutsModel.Drv

def presetOf (n : Nat) : Preset :=
  match n with | 0 => .diagNuts | 1 => .lowRankNuts | 2 => .flowNuts | 3 => .diagMclmc | 4 => .lowRankMclmc | _ => .flowMclmc

def tyName : Ty → String
  | .u64 => "u64" | .i64 => "i64" | .f64 => "f64" | .f32 => "f32" | .bool => "bool" | .string => "string"

/-- `schema case preset dim flags n (name type ndims dims… event)*` — the schema the real
    `Settings::stat_names/types/dims/event_dims` report vs the model's flattened schema. -/
def schema (t : Toks) : Verdict := Id.run do
  let some case := natAt t 1 | return .bad "case"
  let some pr := natAt t 2 | return .bad "preset"
  let some n := natAt t 5 | return .bad "n"
  let some flat := presetFlat (presetOf pr) | return .mismatch s!"schema case={case}: the model cannot resolve preset {pr}"
  if flat.length != n then
    return .mismatch s!"schema case={case} preset={pr}: model declares {flat.length} statistics {names flat}, implementation {n}"
  let mut i := 6
  for b in flat do
    let some nm := t[i]? | return .bad "name"
    let some ty := t[i + 1]? | return .bad "type"
    let some nd := natAt t (i + 2) | return .bad "ndims"
    let dims := (List.range nd).map (fun k => (t[i + 3 + k]?).getD "?")
    let some ev := t[i + 3 + nd]? | return .bad "event"
    if nm != b.name then return .mismatch s!"schema case={case} preset={pr}: name #{(i - 6)} model={b.name} impl={nm}"
    if ty != tyName b.ty then return .mismatch s!"schema case={case} preset={pr}: {nm} type model={tyName b.ty} impl={ty}"
    if dims != b.dims then return .mismatch s!"schema case={case} preset={pr}: {nm} dims model={b.dims} impl={dims}"
    if ev != (b.event.getD "-") then return .mismatch s!"schema case={case} preset={pr}: {nm} event model={b.event} impl={ev}"
    i := i + 4 + nd
  if i != t.size then return .bad "schema trailing"
  return .ok

def bit (flags k : Nat) : Bool := (flags / 2 ^ k) % 2 == 1

/-- `srow case preset dim flags div hasStart hasEnd hasEE idChanged hasInner ncells (name present type isvec len)*` -/
def srow (t : Toks) : Verdict := Id.run do
  let some case := natAt t 1 | return .bad "case"
  let some pr := natAt t 2 | return .bad "preset"
  let some dim := natAt t 3 | return .bad "dim"
  let some flags := natAt t 4 | return .bad "flags"
  let some dv := natAt t 5 | return .bad "div"
  let some hs := natAt t 6 | return .bad "hasStart"
  let some he := natAt t 7 | return .bad "hasEnd"
  let some hee := natAt t 8 | return .bad "hasEE"
  let some idc := natAt t 9 | return .bad "idChanged"
  let some hin := natAt t 10 | return .bad "hasInner"
  let some nc := natAt t 11 | return .bad "ncells"
  if t.size != 12 + 5 * nc then return .bad "srow length"
  let some flat := presetFlat (presetOf pr) | return .mismatch s!"srow case={case}: unresolved preset"
  if flat.length != nc then return .mismatch s!"srow case={case} preset={pr}: get_all returned {nc} entries, schema has {flat.length}"
  let o : StoreOpts := { storeGradient := bit flags 0, storeUnconstrained := bit flags 1, storeTransformed := bit flags 2,
                         storeDivergences := bit flags 3, storeMassMatrix := bit flags 4 }
  let c : DrawCtx := { diverging := dv == 1, hasStart := hs == 1, hasEnd := he == 1, hasEnergyError := hee == 1,
                       idChanged := idc == 1, hasInner := hin == 1 }
  let mut i := 12
  for b in flat do
    let nm := t[i]!
    let present := t[i + 1]! == "1"
    let ty := t[i + 2]!
    let isVec := t[i + 3]! == "1"
    let some len := natAt t (i + 4) | return .bad "len"
    if nm != b.name then return .mismatch s!"srow case={case} preset={pr}: entry name model={b.name} impl={nm}"
    if present then
      if ty != tyName b.ty then return .mismatch s!"srow case={case}: {nm} value type {ty}, declared {tyName b.ty}"
      if isVec != b.isVec then return .mismatch s!"srow case={case}: {nm} vector={isVec}, declared vector={b.isVec}"
      let want := if b.dims.isEmpty then 1 else dim ^ b.dims.length
      if len != want then return .mismatch s!"srow case={case}: {nm} length {len}, declared dims {b.dims} (= {want})"
    if !b.isOption then
      if !present then return .mismatch s!"srow case={case}: non-optional statistic {nm} absent"
    else
      match expectedPresent o c nm with
      | none => return .mismatch s!"srow case={case}: optional statistic {nm} has no presence rule in the model"
      | some e =>
        -- `inner.is_some()` of the low-rank matrix is not observable from outside: either answer is accepted there
        let lenient := nm == "mass_matrix_eigvals" && c.idChanged && o.storeMassMatrix
        if e != present && !lenient then
          return .mismatch s!"srow case={case} preset={pr}: statistic {nm} present={present}, model expects {e} (diverging={c.diverging}, idChanged={c.idChanged}, flags={flags})"
    i := i + 5
  return .ok

def dispatch (t : Toks) : Option Verdict :=
  match t[0]? with
  | some "schema" => some (schema t)
  | some "srow" => some (srow t)
  | _ => none

end NutsModel.Drv.C16
