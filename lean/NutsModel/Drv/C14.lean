import NutsModel.Drv.Common
import NutsModel.Model.Storage

namespace NutsModel.Drv.C14
open NutsModel NutsModel.Model NutsModel.Drv

/-- default cell of a pre-allocated ndarray slot, from the type tag of a cell token -/
def defaultCell (c : String) : String :=
  match c.toList.head? with
  | some 'F' => "F0" | some 'G' => "G0" | some 'I' => "I0" | some 'U' => "U0" | some 'B' => "B0" | _ => "S"

/-- `store backend case var sw total n (tuning present ncells cells…)*n | output…` -/
def store (t : Toks) : Verdict := Id.run do
  let some backend := t[1]? | return .bad "backend"
  let some case := natAt t 2 | return .bad "case"
  let some var := t[3]? | return .bad "var"
  let some sw := natAt t 4 | return .bad "sw"
  let some total := natAt t 5 | return .bad "total"
  let some n := natAt t 6 | return .bad "n"
  let mut i := 7
  let mut recs : List (SRec String) := []
  let mut width := 1
  let mut sampleCell := "F0"
  for _ in [0:n] do
    let some tun := natAt t i | return .bad "tuning"
    let some pres := natAt t (i + 1) | return .bad "present"
    let some nc := natAt t (i + 2) | return .bad "ncells"
    let cells := (List.range nc).map (fun k => (t[i + 3 + k]?).getD "?")
    if pres == 1 then
      width := nc
      if let some c := cells.head? then sampleCell := c
    recs := recs ++ [{ tuning := tun == 1, val := if pres == 1 then some cells else none }]
    i := i + 3 + nc
  if t[i]? != some "|" then return .bad "separator"
  i := i + 1
  let fail (m : String) : Verdict := .mismatch s!"store {backend} case={case} var={var}: {m}"
  match backend with
  | "hashmap" =>
    let some m := natAt t i | return .bad "hm len"
    let out := (List.range m).map (fun k => (t[i + 1 + k]?).getD "?")
    let model := (recs.foldl HmSt.record HmSt.init).finalize
    if model != out then return fail s!"model returns {model.length} cells, implementation {out.length} (or a cell differs)"
    return .ok
  | "arrow" =>
    let some m := natAt t i | return .bad "arrow rows"
    let mut j := i + 1
    let mut out : List (Option (List String)) := []
    for _ in [0:m] do
      let some pres := natAt t j | return .bad "row present"
      let some nc := natAt t (j + 1) | return .bad "row ncells"
      out := out ++ [if pres == 1 then some ((List.range nc).map (fun k => (t[j + 2 + k]?).getD "?")) else none]
      j := j + 2 + nc
    let model := (recs.foldl (ArSt.record (sw == 1)) ArSt.init).finalize
    if model != out then return fail s!"model has {model.length} rows, implementation {out.length} (or a row differs); store_warmup={sw}"
    return .ok
  | "ndarray" =>
    let some m := natAt t i | return .bad "nd slots"
    let mut j := i + 1
    let mut out : List (List String) := []
    for _ in [0:m] do
      let some nc := natAt t j | return .bad "slot ncells"
      out := out ++ [(List.range nc).map (fun k => (t[j + 1 + k]?).getD "?")]
      j := j + 1 + nc
    -- the pre-allocated slot width is the declared shape; when no value was ever present take it from the output
    let w := match out.head? with | some s => s.length | none => width
    -- the element type is the declared one; when the statistic was never present it is only visible in the output
    let anyPresent := recs.any (fun r => r.val.isSome)
    let tyCell := if anyPresent then sampleCell else ((out.head?.bind List.head?).getD sampleCell)
    let dflt := List.replicate w (defaultCell tyCell)
    let model := (recs.foldl NdSt.record (NdSt.init total dflt)).finalize
    if model != out then return fail s!"model and implementation arrays differ ({model.length} vs {out.length} slots)"
    return .ok
  | _ => return .bad s!"backend {backend}"

def dispatch (t : Toks) : Option Verdict :=
  match t[0]? with
  | some "store" => some (store t)
  | _ => none

end NutsModel.Drv.C14
