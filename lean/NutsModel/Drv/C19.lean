import NutsModel.Drv.Common
import NutsModel.Model.Serde
import NutsModel.Gen.Settings

namespace NutsModel.Drv.C19
open NutsModel NutsModel.Model NutsModel.Drv

/-- parse the prefix encoding written by the harness; returns the value and the next index -/
partial def parseJson (t : Toks) (i : Nat) : Option (Json × Nat) := do
  let k ← t[i]?
  match k with
  | "z" => pure (.null, i + 1)
  | "b" => pure (.bool ((← t[i + 1]?) == "1"), i + 2)
  | "n" => pure (.nat (← natAt t (i + 1)), i + 2)
  | "f" => pure (.float (← natAt t (i + 1)), i + 2)
  | "s" => pure (.str (← t[i + 1]?), i + 2)
  | "o" =>
    let n ← natAt t (i + 1)
    let mut j := i + 2
    let mut ms : Array (String × Json) := #[]
    for _ in [0:n] do
      let key ← t[j]?
      let (v, j') ← parseJson t (j + 1)
      ms := ms.push (key, v)
      j := j'
    pure (.obj (ms.foldr (fun (k, v) acc => .cons k v acc) .nil), j)
  | _ => none

def membersLen : JMembers → Nat
  | .nil => 0
  | .cons _ _ r => membersLen r + 1

mutual
  /-- JSON equality modulo the order of object members -/
  partial def jsonEq : Json → Json → Bool
    | .null, .null => true
    | .bool a, .bool b => a == b
    | .float a, .float b => a == b
    | .nat a, .nat b => a == b
    | .str a, .str b => a == b
    | .obj a, .obj b => membersLen a == membersLen b && membersSub a b
    | _, _ => false
  partial def membersSub : JMembers → JMembers → Bool
    | .nil, _ => true
    | .cons k v r, b => (match b.get? k with | some w => jsonEq v w | none => false) && membersSub r b
end

def serde (t : Toks) : Verdict := Id.run do
  let some case := natAt t 1 | return .bad "case"
  let some name := t[2]? | return .bad "preset"
  let some (j, n) := parseJson t 3 | return .bad "json"
  if n != t.size then return .bad "json trailing"
  let some (_, ty) := Gen.Settings.presets.find? (fun p => p.1 == name) | return .bad s!"unknown preset {name}"
  match fromJson ty j with
  | none => return .mismatch s!"serde case={case} {name}: the model (type descriptor generated from the sources) cannot decode the JSON the implementation produced"
  | some v =>
    if jsonEq (toJson v) j then return .ok
    return .mismatch s!"serde case={case} {name}: re-encoding the decoded value in the model gives a different JSON document"

def dispatch (t : Toks) : Option Verdict :=
  match t[0]? with
  | some "serde" => some (serde t)
  | _ => none

end NutsModel.Drv.C19
