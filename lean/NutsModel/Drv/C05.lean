import NutsModel.Drv.Common
import NutsModel.Model.Faults

namespace NutsModel.Drv.C05
open NutsModel NutsModel.Model NutsModel.Drv

/-- `fault isDraw role kind outcome`: one (call, role of the faulted evaluation, fault kind) class observed by
    the fault enumeration and the outcome of the real call (0 Err, 1 Ok, 2 Ok + diverging). -/
def faultRec (t : Toks) : Verdict := Id.run do
  let some isDraw := natAt t 1 | return .bad "isDraw"
  let some role := natAt t 2 | return .bad "role"
  let some kind := natAt t 3 | return .bad "kind"
  let some out := natAt t 4 | return .bad "outcome"
  let some k := FaultKind.all[kind]? | return .bad "kind code"
  let r : Role := match role with | 0 => .initUntransformed | 1 => .trial | 2 => .trajectory | 3 => .initState | _ => .initFlow
  let o : CallOut := match out with | 0 => .err | 1 => .ok | _ => .okDiverging
  let al := allowed (isDraw == 1) r (evalOf k)
  if al.contains o then .ok
  else .mismatch s!"fault {repr k} at a {repr r} evaluation of {if isDraw == 1 then "draw" else "set_position"}: real call gave {repr o}, model allows {repr al}"

def dispatch (t : Toks) : Option Verdict :=
  match t[0]? with
  | some "fault" => some (faultRec t)
  | _ => none

end NutsModel.Drv.C05
